#!/bin/sh
# offline build of the framework from files on disk: regenerate Generated/*.lean from /repo, build library + driver
set -e
cd "$(dirname "$0")"
/venv/bin/python harness/translate.py >/dev/null
cd lean
lake build 2>&1 | tail -5
test -x .lake/build/bin/mdmodel
