#!/bin/sh
# offline build of the framework from files on disk: regenerate Generated/*.lean from /repo, build the model library, the
# driver and every property-theorem module (so that each check only re-checks what changed; a check still rebuilds its own
# obligations from /repo's working tree: translate -> lake build of its Props modules and their axiom audits)
set -e
cd "$(dirname "$0")"
/venv/bin/python harness/translate.py >/dev/null
cd lean
lake build 2>&1 | tail -2
lake build $(ls MdVerif/Props/*.lean | sed 's#MdVerif/Props/#MdVerif.Props.#;s#\.lean$##') 2>&1 | tail -2
test -x .lake/build/bin/mdmodel
