/-
Driver ops for the code-escaping model and the fenced-code model (C03).

`code.escape <str>`   → `util.code_escape`                                   (string)
`code.escape1 <str>`  → the one-pass form                                     (string)
`fence.escape <str>`  → `FencedBlockPreprocessor._escape`                     (string)
`fence.find <str>`    → `start|end|fence|attrs|lang|hl_lines|code` (groups as optional strings) or `none`
`fence.run <str>`     → `newtext|stash-list`, `ood` (block with `{attrs}`) or `fuel`
`fence.attrsend <str>` → `m.end('attrs')` of the first match when its `attrs` group is non-empty, else `none`
`fence.runa <str>`    → the same with the `{attrs}` branch modelled (default configuration): never `ood`
-/
import MdVerif.Model.Ext.FencedCode
import MdVerif.Model.Ext.FencedCodeAttrs
import Driver.Proto

namespace Driver
open MdVerif

def showMatch (m : Fenced.FenceMatch) : String :=
  "|".intercalate [toString m.start, toString m.stop, encStr m.fence, encOptStr m.attrs, encOptStr m.lang,
    encOptStr m.hl, encStr m.code]

def codeHandler : Handler := fun op args =>
  match op, args with
  | "code.escape", [s] => some (encStr (Code.codeEscape (decStr s)))
  | "code.escape1", [s] => some (encStr (Code.codeEscape1 (decStr s)))
  | "fence.escape", [s] => some (encStr (Code.fenceEscape (decStr s)))
  | "fence.find", [s] =>
    match Fenced.fenceFind (decStr s) with
    | some m => some (showMatch m)
    | none => some "none"
  | "fence.run", [s] =>
    match Fenced.fencedRun (decStr s) with
    | .ok t st => some (encStr t ++ "|" ++ encList st)
    | .ood => some "ood"
    | .fuel => some "fuel"
  | "fence.attrsend", [s] =>
    let t := decStr s
    match Fenced.fenceFind t with
    | some m => if (m.attrs.getD []).isEmpty then some "none" else some (toString (Fenced.attrsEnd t m (m.attrs.getD [])))
    | none => some "none"
  | "fence.runa", [s] =>
    match Fenced.fencedRunA (decStr s) with
    | .ok t st => some (encStr t ++ "|" ++ encList st)
    | .ood => some "ood"
    | .fuel => some "fuel"
  | _, _ => none

end Driver
