/-
Driver ops for the model of `NormalizeWhitespace` (C09).

`norm <tab> <str>`         the normalised source (`'\n'.join` of what `run` returns) for `tab_length = tab`
`norm.lines <tab> <list>`  `run(lines)`: the list of lines
`norm.steps <tab> <str>`   the same as `norm`, through the step interpreter (`runSteps tab defaultSteps`)
`norm.blank <str>`         `1` when `not source.strip()`, else `0`
-/
import MdVerif.Model.Normalize
import Driver.Proto

namespace Driver
open MdVerif.Normalize

def normalizeHandler : Handler := fun op args =>
  match op, args with
  | "norm", [t, s] => some (encStr (normalize (decNat t) (decStr s)))
  | "norm.lines", [t, l] => some (encList (run (decNat t) (decList l)))
  | "norm.steps", [t, s] => some (encStr (runSteps (decNat t) defaultSteps (decStr s)))
  | "norm.blank", [s] => some (encBool (isBlankDoc (decStr s)))
  | "norm", _ | "norm.lines", _ | "norm.steps", _ | "norm.blank", _ => some "bad-args"
  | _, _ => none

end Driver
