/-
Driver ops for the attribute-list model (C16).

Attribute dicts / token lists travel as `k=v` pairs (`encStr k ++ "=" ++ encStr v`) joined by `;` (`-` = empty).

`attr.get      <str>`                      `<pairs> <remainder>`          (`get_attrs_and_remainder`)
`attr.sanitize <str>`                      `<str>`                        (`sanitize_name`)
`attr.assign   <attrs> <str> <strict>`     `<attrs> <remainder>`          (`assign_attrs`)
`attr.header   <str>` / `attr.block <str>` `N` or `<text[:m.start()]>|<group(1)>`
`attr.inline   <str>`                      `N` or `<group(1)>|<tail[m.end():]>`
`attr.blockapply <header> <hashes> <attrs> <text>`   `<attrs> <text>`     (text branch of `run`)
`attr.inlineapply <attrs> <tail>`          `<attrs> <tail>`               (inline branch of `run`)
-/
import MdVerif.Model.Ext.AttrList
import Driver.Proto

namespace Driver
open MdVerif MdVerif.AttrList

private def encPairs (l : List (Str × Str)) : String :=
  if l.isEmpty then "-" else ";".intercalate (l.map (fun p => encStr p.1 ++ "=" ++ encStr p.2))

private def decPairs (f : String) : List (Str × Str) :=
  if f == "-" then [] else (f.splitOn ";").map (fun kv =>
    match kv.splitOn "=" with
    | [k, v] => (decStr k, decStr v)
    | _ => ([], []))

private def encOptPair : Option (Str × Str) → String
  | none => "N"
  | some p => encStr p.1 ++ "|" ++ encStr p.2

def attrListHandler : Handler := fun op args =>
  match op, args with
  | "attr.get", [s] =>
    let r := getAttrsAndRemainder (decStr s)
    some (encPairs r.1 ++ " " ++ encStr r.2)
  | "attr.sanitize", [s] => some (encStr (sanitizeName (decStr s)))
  | "attr.assign", [a, s, strict] =>
    let r := assignAttrs (decPairs a) (decStr s) (decBool strict)
    some (encPairs r.1 ++ " " ++ encStr r.2)
  | "attr.header", [s] => some (encOptPair (headerSearch (decStr s)))
  | "attr.block", [s] => some (encOptPair (blockSearch (decStr s)))
  | "attr.inline", [s] => some (encOptPair (inlineMatch (decStr s)))
  | "attr.blockapply", [h, hs, a, s] =>
    let r := blockApply (decBool h) (decBool hs) (decPairs a) (decStr s)
    some (encPairs r.1 ++ " " ++ encStr r.2)
  | "attr.inlineapply", [a, s] =>
    let r := inlineApply (decPairs a) (decStr s)
    some (encPairs r.1 ++ " " ++ encStr r.2)
  | _, _ => none

end Driver
