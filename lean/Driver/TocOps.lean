/-
Driver ops for the toc / footnotes id models (C17).

`toc.idcount <str>`                       `N` or `<stem>|<digits>`                  (`IDCOUNT_RE`)
`toc.unique  <id> <ids-list>`             the new id                                (`unique`)
`toc.assign  <used-list> <h>…`            ids of the headings, `h` = `P<id>` (preset) or `G<name>` (slug = identity)
`toc.nest    <levels>`                    levels `,`-separated → `1(2(3),2)`        (`nest_toc_tokens`)
`toc.parents <levels>`                    per entry the index of its parent or `N`, `,`-separated
`toc.links   <levels> <ids-list>`         hrefs of `build_toc_div`                  (list)
`fn.refs     <defs-list> <uses-list>`     `<sup-ids-list> <hrefs-list>`
`fn.backlinks <defs-list> <uses-list> <bits>`  per footnote `<li-id>=<hrefs-list>`, space separated; `bits` = one
                                          `0`/`1` per definition: did the body produce an element
-/
import MdVerif.Model.Ext.Toc
import MdVerif.Model.Ext.Footnotes
import Driver.Proto

namespace Driver
open MdVerif MdVerif.Toc MdVerif.Footnotes

private def decLevels (f : String) : List Nat := if f.isEmpty then [] else (f.splitOn ",").map decNat

private def levelToks (lv : List Nat) : List Tok :=
  (lv.zip (List.range lv.length)).map (fun p => ⟨p.1, MdVerif.Py.natToDec p.2, []⟩)

private def decHeading (f : String) : Heading :=
  if f.startsWith "P" then (1, some (decStr (f.drop 1).toString), [])
  else (1, none, decStr (f.drop 1).toString)

private def showParent : Option Tok → String
  | none => "N"
  | some t => String.ofList t.id

def tocHandler : Handler := fun op args =>
  match op, args with
  | "toc.idcount", [s] =>
    match idcountSplit (decStr s) with
    | none => some "N"
    | some (a, b) => some (encStr a ++ "|" ++ encStr b)
  | "toc.unique", [i, ids] => some (encStr (unique (decStr i) (decList ids)).1)
  | "toc.assign", used :: hs =>
    some (encList ((assignIds id (decList used) (hs.map decHeading)).map (·.id)))
  | "toc.nest", [lv] => some (String.ofList (renderList (nestToc (levelToks (decLevels lv)))))
  | "toc.parents", [lv] =>
    some (",".intercalate ((edgesList none (nestToc (levelToks (decLevels lv)))).map (fun e => showParent e.2)))
  | "toc.links", [lv, ids] =>
    let toks := ((decLevels lv).zip (decList ids)).map (fun p => (⟨p.1, p.2, []⟩ : Tok))
    some (encList (tocLinks (nestToc toks)))
  | "fn.refs", [defs, uses] =>
    let r := (processRefs (decList defs) (decList uses)).2
    some (encList (r.map (·.1)) ++ " " ++ encList (r.map (·.2)))
  | "fn.backlinks", [defs, uses, bits] =>
    let ds := decList defs
    let st := (processRefs ds (decList uses)).1
    let body := ds.zip (bits.toList.map (· == '1'))
    let hasBody := fun i => (body.lookup i).getD false
    some (" ".intercalate ((backlinks ds st hasBody).map (fun p => encStr p.1 ++ "=" ++ encList p.2)))
  | _, _ => none

end Driver
