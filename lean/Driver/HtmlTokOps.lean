/-
Driver ops for the text-level model of the raw-HTML tokenizer + extractor (C04).

`htmltok.events <src>`    the event list of `feed(src); close()`: events joined by `|` in the encoding of
                          `extract.ev` (`Driver/ExtractOps.lean`), or `ood`
`htmltok.extract <src>`   `encList(lines)|encList(stash)` of the preprocessor (`HtmlBlockPreprocessor.run`), or `ood`
`htmltok.state <src>`     the whole final extractor state, as `extract.state`, or `ood`
`htmltok.lex <src>`       `1` when `HtmlFrag.lex` reads the text as a token sequence of the grammar, else `0`
`converth <tab> <html|xhtml> <src>`   `PipelineH.convertH`: `ok <str>` | `oof` | `err` | `ood`
-/
import MdVerif.Model.ExtractText
import MdVerif.Model.PipelineH
import MdVerif.Spec.HtmlLex
import Driver.Proto

namespace Driver
open MdVerif.Extract MdVerif.HtmlTok

def encEvent : Event → String
  | .start tag text a b e f =>
    ":".intercalate ["S", encStr tag, encStr text, encBool a, encBool b, encBool e, encBool f]
  | .end_ tag text f => ":".intercalate ["E", encStr tag, encStr text, encBool f]
  | .data t => "D:" ++ encStr t
  | .empty t b a f => ":".intercalate ["M", encStr t, encBool b, encBool a, encBool f]
  | .charref n => "C:" ++ encStr n
  | .entityref n => "R:" ++ encStr n
  | .close r => "X:" ++ encStr r

def htmlTokHandler : Handler := fun op args =>
  match op, args with
  | "htmltok.events", [src] =>
    match events (decStr src) with
    | some evs => some ("|".intercalate (evs.map encEvent))
    | none => some "ood"
  | "htmltok.extract", [src] =>
    match preprocess (decStr src) with
    | some (lines, stash) => some (encList lines ++ "|" ++ encList stash)
    | none => some "ood"
  | "htmltok.state", [src] =>
    match extractText (decStr src) with
    | some st =>
      some ("|".intercalate [encBool st.inraw, encBool st.intail, encList st.stack.reverse, encList st.cache,
        encList st.cleandoc, encList st.stash])
    | none => some "ood"
  | "htmltok.lex", [src] => some (encBool (MdVerif.HtmlFrag.lex (decStr src)).isSome)
  | "converth", [tab, fmt, src] =>
    let cfg : MdVerif.Pipeline.Cfg := { tab := decNat tab, fmt := if fmt == "html" then .html else .xhtml }
    some (match MdVerif.PipelineH.convertH cfg (decStr src) with
          | .ok s => "ok " ++ encStr s
          | .oof => "oof" | .err => "err" | .ood => "ood")
  | "htmltok.events", _ | "htmltok.extract", _ | "htmltok.state", _ => some "bad-args"
  | _, _ => none

end Driver
