/-
The list of op handlers of the driver.  One import and one list entry per component.
-/
import Driver.RegistryOps

namespace Driver

def handlers : List Handler := [registryHandler]

end Driver
