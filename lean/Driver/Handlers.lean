/-
The list of op handlers of the driver.  One import and one list entry per component.
-/
import Driver.RegistryOps
import Driver.DispatchOps
import Driver.NormalizeOps
import Driver.TablesOps

namespace Driver

def handlers : List Handler := [registryHandler, dispatchHandler, normalizeHandler, tablesHandler]

end Driver
