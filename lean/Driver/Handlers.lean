/-
The list of op handlers of the driver.  One import and one list entry per component.
-/
import Driver.RegistryOps
import Driver.DispatchOps

namespace Driver

def handlers : List Handler := [registryHandler, dispatchHandler]

end Driver
