/-
The list of op handlers of the driver.  One import and one list entry per component.
-/
import Driver.RegistryOps
import Driver.DispatchOps
import Driver.NormalizeOps
import Driver.TablesOps
import Driver.BlockOps
import Driver.ThreadsOps
import Driver.TocOps
import Driver.SerializerOps
import Driver.PipelineXOps
import Driver.DocOps
import Driver.BlockExtOps
import Driver.CodecOps
import Driver.ConfigOps
import Driver.PipelineOps
import Driver.AttrListOps
import Driver.ExtractOps
import Driver.TriggerOps
import Driver.InlineOps
import Driver.PyOps
import Driver.CodeOps
import Driver.HtmlTokOps
import Driver.MetaOps
import Driver.InstanceXOps
import Driver.LegacyOps

namespace Driver

def handlers : List Handler := [registryHandler, dispatchHandler, normalizeHandler, tablesHandler, blockHandler, threadsHandler, tocHandler, serializerHandler, codeHandler, pyHandler, inlineHandler, triggerHandler, extractEvHandler, attrListHandler, pipelineHandler, configHandler, codecHandler, blockExtHandler, docHandler, pipelineXHandler, htmlTokHandler, metaHandler, instanceXHandler, legacyHandler]

end Driver
