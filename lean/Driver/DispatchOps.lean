/-
Driver ops for the dispatch model: `disp.order <origins joined by ;> <registry>` → names in iteration order.
Origins and registry names are plain ASCII words.
-/
import MdVerif.Model.Dispatch
import Driver.Proto

namespace Driver
open MdVerif

def dispatchHandler : Handler := fun op args =>
  match op, args with
  | "disp.order", [origins, reg] => some (",".intercalate (Dispatch.order (origins.splitOn ";") reg))
  | _, _ => none

end Driver
