/-
Driver ops for the block-parser model (`MdVerif/Model/Block.lean`) and the `<`-free HTML-extractor model
(`MdVerif/Model/Extract.lean`).  Strings are encoded (`encStr`); numbers decimal; fields of an answer are
separated by a space unless said otherwise.

`blocks <tab> <text>`            text = the `\n`-joined normalised lines.  Answer `ok <tree>|<refs>` (tree as in
                                 `TreeCodec`; refs = `id=url=title` joined by `;` in insertion order, title `N` or
                                 `S<str>`, empty when there are none) or `oof` (out of fuel).
`blocks.fuel <tab> <fuel> <text>` `ok` or `oof`: does the given fuel suffice?  (to measure the fuel actually needed)
`re.listitem <tab> <kind> <s>`   kind `ol` (`OListProcessor.RE`), `ul` (`UListProcessor.RE`), `child` (`CHILD_RE`):
                                 `S<marker> S<content>` or `none`; kind `indent` (`INDENT_RE`): `1` or `none`
`re.hr <s>`                      `start end` or `none`
`re.hash <s>`                    `start end level S<header>` or `none`
`re.setext <s>`                  `1` or `none`
`re.quote <s>`                   three fields: `RE.search(s).start()` or `none`; group 2 of `RE.match(s)` as `N`/`S<str>`;
                                 `S<clean(s)>`
`re.ref <s>`                     `start end S<id> S<url> <group5> <group6>` (groups `N`/`S<str>`) or `none`
`detab <tab> <s>`                `S<newtext> S<rest>`           `loosedetab <tab> <level> <s>`   `S<text>`
`getitems <tab> <s>`             list of strings (`encList`)
`extract <s>`                    the encoded result of `Extract.extract`
-/
import MdVerif.Model.Block
import MdVerif.Model.Extract
import Driver.TreeCodec

namespace Driver
open MdVerif

def encS (s : Str) : String := "S" ++ encStr s

def encRefs (refs : Block.Refs) : String :=
  ";".intercalate (refs.map (fun r => encStr r.1 ++ "=" ++ encStr r.2.1 ++ "=" ++ encOptStr r.2.2))

def blockHandler : Handler := fun op args =>
  match op, args with
  | "blocks", [tab, text] =>
    match Block.parseDocument (decNat tab) (decStr text) with
    | some (root, refs) => some ("ok " ++ encNode root ++ "|" ++ encRefs refs)
    | none => some "oof"
  | "blocks.fuel", [tab, fuel, text] =>
    some (if (Block.parseDocumentWith (decNat tab) (decNat fuel) (decStr text)).isSome then "ok" else "oof")
  | "re.listitem", [tab, kind, s] =>
    let t := decNat tab
    let str := decStr s
    let two (r : Option (Str × Str)) : String :=
      match r with
      | some (m, c) => encS m ++ " " ++ encS c
      | none => "none"
    match kind with
    | "ol" => some (two (Block.listItemMatch t true false str))
    | "ul" => some (two (Block.listItemMatch t false true str))
    | "child" => some (two (Block.listItemMatch t true true str))
    | "indent" => some (if Block.indentItemMatch t str then "1" else "none")
    | _ => some "bad-kind"
  | "re.hr", [s] =>
    match Block.hrSearch (decStr s) with
    | some (a, b) => some (toString a ++ " " ++ toString b)
    | none => some "none"
  | "re.hash", [s] =>
    match Block.hashSearch (decStr s) with
    | some (a, b, lv, h) => some (toString a ++ " " ++ toString b ++ " " ++ toString lv ++ " " ++ encS h)
    | none => some "none"
  | "re.setext", [s] => some (if Block.setextMatch (decStr s) then "1" else "none")
  | "re.quote", [s] =>
    let str := decStr s
    let a := match Block.quoteSearch str with | some i => toString i | none => "none"
    some (a ++ " " ++ encOptStr (Block.quoteMatch str) ++ " " ++ encS (Block.quoteClean str))
  | "re.ref", [s] =>
    match Block.refSearch (decStr s) with
    | some (a, b, ident, url, t5, t6) =>
      some (toString a ++ " " ++ toString b ++ " " ++ encS ident ++ " " ++ encS url ++ " " ++ encOptStr t5 ++ " " ++
            encOptStr t6)
    | none => some "none"
  | "detab", [tab, s] =>
    let (a, b) := Block.detab (decNat tab) (decStr s)
    some (encS a ++ " " ++ encS b)
  | "loosedetab", [tab, level, s] => some (encS (Block.looseDetab (decNat tab) (decStr s) (decNat level)))
  | "getitems", [tab, s] => some (encList (Block.getItems (decNat tab) (decStr s)))
  | "extract", [s] => some (encStr (Extract.extract (decStr s)))
  | _, _ => none

end Driver
