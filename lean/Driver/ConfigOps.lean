/-
Driver ops for the configuration / naming model (C19).

Values:  `s:<str>`  `b:0|1`  `i:<int>`  `n` (None)  `o:0|1:<str>` (any other object: truth value, identifying text)
Kwargs:  `key=value` pairs joined by `;` (`-` when empty)

`cfg.parsebool <value> <fail 0/1> <preserve 0/1>`  → `T` | `F` | `N` | `E:V`
`cfg.resolve <name>`                               → `N` | `S<module:Class>`
`cfg.defaults <module:Class>`                      → `?` | `<kind>|key=value=description;…`
`cfg.setconfig <module:Class> <kwargs>`            → `Extension.setConfig` for each pair, in order, on the defaults of
                                                     the class, continuing after exceptions:
                                                     `<outcome>,<outcome>…|<final config>` (outcome `ok` | `E:K` | `E:V`)
`cfg.construct <module:Class> <kwargs>`            → `Class(**kwargs)`: `ok|<config>` | `E:K` | `E:V` | `?`
`cfg.build <name> <kwargs>`                        → `build_extension(name, kwargs)`: `N` | `<module:Class>|ok|<config>` | `<module:Class>|E:K`…
`cfg.extra`                                        → the classes loaded by `extra`, `;`-joined
`cfg.extraload <comp>|<kwargs> …`                  → `ExtraExtension(**{comp: kwargs, …}).extendMarkdown(md)`: what each
                                                     `build_extension` call makes, `&`-joined, up to the first exception
-/
import MdVerif.Model.Config
import Driver.Proto

namespace Driver
open MdVerif.Config

def decVal (f : String) : PyVal :=
  match f.splitOn ":" with
  | ["s", s] => .str (decStr s)
  | ["b", b] => .bool (decBool b)
  | ["i", i] => .int (decInt i)
  | ["n"] => .none
  | ["o", t, r] => .other (decBool t) (decStr r)
  | _ => .none

def encVal : PyVal → String
  | .str s => "s:" ++ encStr s
  | .bool b => "b:" ++ encBool b
  | .int n => "i:" ++ toString n
  | .none => "n"
  | .other t r => "o:" ++ encBool t ++ ":" ++ encStr r

def decKwargs (f : String) : Kwargs :=
  if f == "-" then [] else
    (f.splitOn ";").map (fun kv =>
      match kv.splitOn "=" with
      | [k, v] => (decStr k, decVal v)
      | _ => ([], .none))

def encConfig (withDesc : Bool) (c : Config) : String :=
  if c.isEmpty then "-" else
    ";".intercalate (c.map (fun e => encStr e.1 ++ "=" ++ encVal e.2.1 ++ (if withDesc then "=" ++ encStr e.2.2 else "")))

def encErr : Err → String
  | .valueError => "E:V"
  | .keyError => "E:K"

def encOutcome : Except Err Unit → String
  | .ok () => "ok"
  | .error e => encErr e

def encKind : InitKind → String
  | .base => "base" | .holder => "holder" | .passthrough => "passthrough" | .unknown => "unknown"

def encBuilt : Except Err Config → String
  | .ok c => "ok|" ++ encConfig false c
  | .error e => encErr e

/-- `setConfig` for each pair, going on after an exception (the harness catches them) -/
def setConfigSeq (cfg : Config) : Kwargs → List (Except Err Unit) → Config × List (Except Err Unit)
  | [], acc => (cfg, acc.reverse)
  | (k, v) :: r, acc => let p := setConfig cfg k v; setConfigSeq p.1 r (p.2 :: acc)

/-- the renderings of the loads up to (and including) the first one that raises -/
def untilError : List (Option (Str × Except Err Config)) → List String
  | [] => []
  | none :: _ => ["N"]
  | some (cls, .ok c) :: r => (encStr cls ++ "|ok|" ++ encConfig false c) :: untilError r
  | some (cls, .error e) :: _ => [encStr cls ++ "|" ++ encErr e]

def configHandler : Handler := fun op args =>
  let t := generatedTables
  match op, args with
  | "cfg.parsebool", [v, f, p] =>
    some (match parseBool (decVal v) (decBool f) (decBool p) with
          | .ok (some true) => "T"
          | .ok (some false) => "F"
          | .ok none => "N"
          | .error e => encErr e)
  | "cfg.resolve", [n] => some (encOptStr (resolve t (decStr n)))
  | "cfg.defaults", [c] =>
    some (match findClass t (decStr c) with
          | none => "?"
          | some ci => encKind ci.kind ++ "|" ++ encConfig true ci.defaults)
  | "cfg.setconfig", [c, kw] =>
    some (match findClass t (decStr c) with
          | none => "?"
          | some ci =>
            let p := setConfigSeq ci.defaults (decKwargs kw) []
            ",".intercalate (p.2.map encOutcome) ++ "|" ++ encConfig false p.1)
  | "cfg.construct", [c, kw] =>
    some (match findClass t (decStr c) with
          | none => "?"
          | some ci => encBuilt (construct ci.kind ci.defaults (decKwargs kw)))
  | "cfg.build", [n, kw] =>
    some (match buildExtension t (decStr n) (decKwargs kw) with
          | none => "N"
          | some (cls, r) => encStr cls ++ "|" ++ encBuilt r)
  | "cfg.extra", [] =>
    some (";".intercalate ((extraLoads t []).map (fun o => match o with
                                                        | some (cls, _) => encStr cls
                                                        | none => "N")))
  | "cfg.extraload", comps =>
    let cfg : List (Str × Kwargs) := comps.filterMap (fun a =>
      match a.splitOn "|" with
      | [n, kw] => some (decStr n, decKwargs kw)
      | _ => none)
    some ("&".intercalate (untilError (extraLoads t cfg)))
  | _, _ => none

end Driver
