/-
Driver ops for the extension entry recognisers (C16 triggers): `trig.<name> <str>` → `1`/`0`.

  trig.admonition trig.defList trig.footnoteDef trig.footnoteRef trig.abbr trig.wikilink
  trig.attrBase trig.attrInline trig.attrHeader trig.attrBlock trig.fenceOpen
  trig.metaKeyLine trig.metaBeginLine trig.metaEndLine trig.metaFirstLine trig.metaConsumes trig.tableTestPre
  trig.admTestPre <tabLength> <pending 0/1> <parent tree> <block>
-/
import MdVerif.Model.Ext.Triggers
import Driver.Proto
import Driver.TreeCodec

namespace Driver
open MdVerif.Ext.Trig

def triggerTable : List (String × (Str → Bool)) :=
  [("trig.admonition", admonitionSearch), ("trig.defList", defListSearch),
   ("trig.footnoteDef", footnoteDefSearch), ("trig.footnoteRef", footnoteRefSearch),
   ("trig.abbr", abbrSearch), ("trig.wikilink", wikilinkSearch),
   ("trig.attrBase", attrBaseSearch), ("trig.attrInline", attrInlineMatch),
   ("trig.attrHeader", attrHeaderSearch), ("trig.attrBlock", attrBlockSearch),
   ("trig.fenceOpen", fenceOpenSearch),
   ("trig.metaKeyLine", metaKeyLine), ("trig.metaBeginLine", metaBeginLine), ("trig.metaEndLine", metaEndLine),
   ("trig.metaFirstLine", metaFirstLine), ("trig.metaConsumes", metaConsumes),
   ("trig.tableTestPre", tableTestPre)]

def triggerHandler : Handler := fun op args =>
  match op, args with
  | "trig.admTestPre", [tab, pending, tree, block] =>
    match decNode tree with
    | some parent => some (encBool (admonitionTestPre (decNat tab) (decBool pending) parent (decStr block)))
    | none => some "bad-tree"
  | _, [s] => (triggerTable.lookup op).map (fun f => encBool (f (decStr s)))
  | _, [] => (triggerTable.lookup op).map (fun f => encBool (f []))
  | _, _ => none

end Driver
