/-
Driver ops for the model of the `tables` extension (C16).

`tsplit <str>`                 `TableProcessor._split(row)`            → list of strings
`tsplitrow <str> <border>`     `_split_row(row)` with `self.border`    → list of strings
`tbuildrow <n> <str> <border>` cell texts made by `_build_row` for an `align` of `n` entries → list of strings
`tendborder <str>`             `RE_END_BORDER.search(row) is not None` → `0`/`1`
`talign <str>`                 alignment of one separator cell         → `L` `R` `C` `N`
`ttest <block>`                `test`: `0`, or `1 <border> <separator list>`
`trun <block>`                 `test` then `run`: `0`, or `1 <aligns> <header list> <row>/<row>…` where a row is
                               its cells joined by `;`, a cell `N` (no text) or `S<str>`
-/
import MdVerif.Model.Ext.Tables
import Driver.Proto

namespace Driver
open MdVerif.Tables

def showAlign : Option Align → String
  | some .left => "L" | some .right => "R" | some .center => "C" | none => "N"

def showTable (t : Table) : String :=
  "1 " ++ String.join (t.align.map showAlign) ++ " " ++ encList t.head ++ " " ++
    "/".intercalate (t.body.map (fun r => ";".intercalate (r.map encOptStr)))

def tablesHandler : Handler := fun op args =>
  match op, args with
  | "tsplit", [s] => some (encList (split (decStr s)))
  | "tsplitrow", [s, b] => some (encList (splitRow (decNat b) (decStr s)))
  | "tbuildrow", [n, s, b] => some (encList (buildRow (decNat n) (decStr s) (decNat b)))
  | "tendborder", [s] => some (encBool (isEndBorder (decStr s)))
  | "talign", [s] => some (showAlign (alignOf (decStr s)))
  | "ttest", [s] =>
    match tableTest (decStr s) with
    | none => some "0"
    | some (b, sep) => some ("1 " ++ toString b ++ " " ++ encList sep)
  | "trun", [s] =>
    match table (decStr s) with
    | none => some "0"
    | some t => some (showTable t)
  | _, _ => none

end Driver
