/-
Driver ops for the Python `str` shims of `MdVerif/Py/Basic.lean`: every definition of that file is an op, so that the
harness (`harness/corr/py.py`) can compare it with the CPython primitive it stands for.

Per-character ops take a string and answer one item per character, joined by `,`:
`py.isspace` `py.isdecimal` `py.isword` `py.isasciidigit` `py.isasciilower` `py.isasciiupper` `py.isasciialpha`
`py.isasciialnum` `py.ishexdigit` (0/1), `py.decimalvalue` (numbers), `py.lowerchar` (a list of strings, `;`-joined).

String ops: `py.lower s` `py.startswith s p` `py.endswith s p` `py.find s pat` (index or -1) `py.contains s pat`
`py.replace s pat by` `py.replaceaux pat by k s` `py.lstrip|rstrip|strip s` `py.lstripc|rstripc|stripc s ch`
`py.lstripp|rstripp|stripp cls s` `py.spanlen cls s` (`cls`: space decimal word asciidigit asciialpha asciialnum hex)
`py.isblank s` `py.splitc s ch` `py.lines s` `py.splits s sep` `py.splitaux sep k s` `py.join sep list`
`py.joinlines list` `py.expandtabs tab s` `py.expandtabsaux tab col s` `py.countprefix ch limit|N s`
`py.inranges lo:hi;lo:hi… n`.

Number ops: `py.digitchar n` `py.nattodec n` `py.nattodecaux fuel n acc` `py.pad4 n` `py.dectonat s`.
-/
import MdVerif.Py.Basic
import Driver.Proto

namespace Driver
open MdVerif.Py

def encBools (p : Char → Bool) (s : Str) : String := ",".intercalate (s.map (fun c => encBool (p c)))

def charClass : String → Option (Char → Bool)
  | "space" => some isSpace
  | "decimal" => some isDecimal
  | "word" => some isWord
  | "asciidigit" => some isAsciiDigit
  | "asciilower" => some isAsciiLower
  | "asciiupper" => some isAsciiUpper
  | "asciialpha" => some isAsciiAlpha
  | "asciialnum" => some isAsciiAlnum
  | "hex" => some isHexDigit
  | _ => none

/-- the first character of an encoded one-character string -/
def decChar (f : String) : Char := (decStr f).headD ' '

def decRanges (f : String) : List (Nat × Nat) :=
  if f == "-" || f.isEmpty then []
  else (f.splitOn ";").map (fun t => match t.splitOn ":" with
    | [a, b] => (a.toNat!, b.toNat!)
    | _ => (1, 0))

def encOptNat : Option Nat → String
  | none => "-1"
  | some n => toString n

def pyHandler : Handler := fun op args =>
  match op, args with
  -- character classes
  | "py.isspace", [s] => some (encBools isSpace (decStr s))
  | "py.isdecimal", [s] => some (encBools isDecimal (decStr s))
  | "py.isword", [s] => some (encBools isWord (decStr s))
  | "py.isasciidigit", [s] => some (encBools isAsciiDigit (decStr s))
  | "py.isasciilower", [s] => some (encBools isAsciiLower (decStr s))
  | "py.isasciiupper", [s] => some (encBools isAsciiUpper (decStr s))
  | "py.isasciialpha", [s] => some (encBools isAsciiAlpha (decStr s))
  | "py.isasciialnum", [s] => some (encBools isAsciiAlnum (decStr s))
  | "py.ishexdigit", [s] => some (encBools isHexDigit (decStr s))
  | "py.decimalvalue", [s] => some (",".intercalate ((decStr s).map (fun c => toString (decimalValue c))))
  | "py.lowerchar", [s] => some (encList ((decStr s).map lowerChar))
  | "py.inranges", [rs, n] => some (encBool (inRanges (decRanges rs) (decNat n)))
  | "py.lower", [s] => some (encStr (lower (decStr s)))
  -- prefixes, search, replace
  | "py.startswith", [s, p] => some (encBool (startsWith (decStr s) (decStr p)))
  | "py.endswith", [s, p] => some (encBool (endsWith (decStr s) (decStr p)))
  | "py.find", [s, p] => some (encOptNat (find (decStr p) (decStr s)))
  | "py.contains", [s, p] => some (encBool (contains (decStr s) (decStr p)))
  | "py.replace", [s, p, b] => some (encStr (replace (decStr s) (decStr p) (decStr b)))
  | "py.replaceaux", [p, b, k, s] => some (encStr (replaceAux (decStr p) (decStr b) (decNat k) (decStr s)))
  | "py.countprefix", [ch, lim, s] =>
    some (toString (countPrefix (decChar ch) (if lim == "N" then none else some (decNat lim)) (decStr s)))
  | "py.spanlen", [cls, s] => (charClass cls).map (fun p => toString (spanLen p (decStr s)))
  -- strip family
  | "py.lstripp", [cls, s] => (charClass cls).map (fun p => encStr (lstripP p (decStr s)))
  | "py.rstripp", [cls, s] => (charClass cls).map (fun p => encStr (rstripP p (decStr s)))
  | "py.stripp", [cls, s] => (charClass cls).map (fun p => encStr (stripP p (decStr s)))
  | "py.lstrip", [s] => some (encStr (lstrip (decStr s)))
  | "py.rstrip", [s] => some (encStr (rstrip (decStr s)))
  | "py.strip", [s] => some (encStr (strip (decStr s)))
  | "py.lstripc", [s, ch] => some (encStr (lstripC (decChar ch) (decStr s)))
  | "py.rstripc", [s, ch] => some (encStr (rstripC (decChar ch) (decStr s)))
  | "py.stripc", [s, ch] => some (encStr (stripC (decChar ch) (decStr s)))
  | "py.isblank", [s] => some (encBool (isBlank (decStr s)))
  -- split / join
  | "py.splitc", [s, ch] => some (encList (splitC (decChar ch) (decStr s)))
  | "py.lines", [s] => some (encList (lines (decStr s)))
  | "py.splits", [s, sep] => some (encList (splitS (decStr sep) (decStr s)))
  | "py.splitaux", [sep, k, s] => some (encList (splitAux (decStr sep) (decNat k) (decStr s)))
  | "py.join", [sep, l] => some (encStr (join (decStr sep) (decList l)))
  | "py.joinlines", [l] => some (encStr (joinLines (decList l)))
  -- numbers
  | "py.digitchar", [n] => some (encStr [digitChar (decNat n)])
  | "py.nattodec", [n] => some (encStr (natToDec (decNat n)))
  | "py.nattodecaux", [f, n, acc] => some (encStr (natToDecAux (decNat f) (decNat n) (decStr acc)))
  | "py.pad4", [n] => some (encStr (pad4 (decNat n)))
  | "py.dectonat", [s] => some (toString (decToNat (decStr s)))
  -- expandtabs
  | "py.expandtabs", [t, s] => some (encStr (expandtabs (decNat t) (decStr s)))
  | "py.expandtabsaux", [t, c, s] => some (encStr (expandtabsAux (decNat t) (decNat c) (decStr s)))
  | _, _ => if op.startsWith "py." then some "bad-args" else none

end Driver
