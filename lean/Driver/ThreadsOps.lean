/-
Driver ops for the thread model (C12) and the instance model (C11).

`thr.run  <programs> <schedule> [<ro> [<f> [<memo>]]]`   atomic `getMemo` model; answer: the traces
`thr.run2 <programs> <schedule> [<ro> [<f> [<memo>]]]`   two-step memo protocol (`readMemo`, `writeMemo`); the traces
`thr.full <programs> <schedule> [<ro> [<f> [<memo>]]]`   atomic model; `traces#done#accs#memo`
`thr.racy <programs> <schedule>`                        racy model: `G k` reads, `W k` *writes the accumulator to*
                                                          the shared cell `k` (all cells 0 at the start); the traces

  programs  threads joined by `|`, the instructions of a thread joined by `,`:
            `G<k>` getMemo k into acc · `R<k>` read ro cell k into acc · `E` emit acc · `A<n>` add n (may be negative)
            to acc (`W<k>` only in `thr.racy`); a thread without instructions is the empty string
  schedule  thread indices joined by `,` (the empty field = the empty schedule)
  ro, f     tables of integers joined by `,`: cell `k` is the `k`-th entry; beyond the table (and when the argument
            is absent) `ro k = 1000 + k`, `f k = 7 * k + 3`
  memo      the memo cells filled at the start, joined by `,`: `<k>` (filled with `f k`) or `<k>=<v>` (filled with `v`,
            which makes the memo invalid when `v ≠ f k`)
  traces    the traces of the threads joined by `|`, the integers of a trace joined by `,`
  done      `1`/`0` per thread joined by `,`;  accs: the accumulators joined by `,`
  memo      (answer) the filled cells among `0 … 63` as `<k>=<v>` joined by `,`

`inst.run [cfg=<refs>] <event>…`   the toy instance of `Model/Instance.lean`; one answer entry per conversion
`inst.sys <sevent>…`               a store of toy instances

  event     `R` (`reset()`: clears the references *and* the nesting level, as the code does since f86514b), `Rold`
            (`inst.run` only: the `reset()` of before that commit, which left the nesting level — defect F-C11-1)
            or a document: ops joined by `,`: `d:<k>:<v>` define · `u:<k>` use · `r` raise; the empty
            document is `-`
  refs      `<k>:<v>` joined by `,`
  sevent    `C` or `C<refs>` (construct an instance with these predefined references) or `<i>@<event>`
  answer    conversions joined by `|`; each `<result>@<refs afterwards>@<leak afterwards>` with result `raised` or
            `ok` followed by the items `<depth>/<value or N>` joined by `,`  (`inst.sys`: prefixed by `<i>@`)
-/
import MdVerif.Model.Threads
import MdVerif.Model.Instance
import Driver.Proto

namespace Driver
open MdVerif

/-! ### threads -/

namespace Thr
open MdVerif.Threads MdVerif.Threads.Reg

def isNum (l : List Char) : Bool := !l.isEmpty && l.all Char.isDigit

def natOf (l : List Char) : Nat := l.foldl (fun n c => 10 * n + (c.toNat - '0'.toNat)) 0

def parseNat (l : List Char) : Option Nat := if isNum l then some (natOf l) else none

def parseInt (l : List Char) : Option Int :=
  match l with
  | '-' :: r => (parseNat r).map (fun n => - (n : Int))
  | _ => (parseNat l).map (fun n => (n : Int))

/-- instructions of the safe and of the racy model -/
inductive XInstr where
  | safe (i : Instr)
  | write (k : Nat)

def parseXInstr (s : String) : Option XInstr :=
  match s.toList with
  | ['E'] => some (.safe .E)
  | 'G' :: r => (parseNat r).map (fun k => .safe (.G k))
  | 'R' :: r => (parseNat r).map (fun k => .safe (.R k))
  | 'A' :: r => (parseInt r).map (fun n => .safe (.A n))
  | 'W' :: r => (parseNat r).map .write
  | _ => none

def parseXProg (s : String) : Option (List XInstr) :=
  if s.isEmpty then some [] else (s.splitOn ",").mapM parseXInstr

def parseXProgs (s : String) : Option (List (List XInstr)) := (s.splitOn "|").mapM parseXProg

def onlySafe (p : List XInstr) : Option (List Instr) :=
  p.mapM (fun | .safe i => some i | .write _ => none)

def parseProgs (s : String) : Option (List (List Instr)) := (parseXProgs s).bind (·.mapM onlySafe)

def parseNats (s : String) : Option (List Nat) :=
  if s.isEmpty then some [] else (s.splitOn ",").mapM (fun t => parseNat t.toList)

def parseInts (s : String) : Option (List Int) :=
  if s.isEmpty then some [] else (s.splitOn ",").mapM (fun t => parseInt t.toList)

def defaultRo (k : Nat) : Int := 1000 + k
def defaultF (k : Nat) : Int := 7 * k + 3

def parseMemoCell (f : Nat → Int) (s : String) : Option (Nat × Int) :=
  match s.splitOn "=" with
  | [k] => (parseNat k.toList).map (fun k => (k, f k))
  | [k, v] => (parseNat k.toList).bind (fun k => (parseInt v.toList).map (fun v => (k, v)))
  | _ => none

def parseMemo (f : Nat → Int) (s : String) : Option (Nat → Option Int) :=
  if s.isEmpty then some (fun _ => none) else
    ((s.splitOn ",").mapM (parseMemoCell f)).map
      (fun cells k => (cells.find? (fun c => c.1 == k)).map (·.2))

structure Req where
  progs : List (List Instr)
  sched : List Nat
  ro : Nat → Int
  f : Nat → Int
  memo : Nat → Option Int

def parseReq (args : List String) : Option Req := do
  let (p, s, rest) ← match args with
    | p :: s :: rest => some (p, s, rest)
    | _ => none
  let progs ← parseProgs p
  let sched ← parseNats s
  let roT ← parseInts (rest.getD 0 "")
  let fT ← parseInts (rest.getD 1 "")
  let f := table fT defaultF
  let memo ← parseMemo f (rest.getD 2 "")
  if rest.length > 3 then none else
  some ⟨progs, sched, table roT defaultRo, f, memo⟩

def showInts (l : List Int) : String := ",".intercalate (l.map toString)
def showTraces (l : List (List Int)) : String := "|".intercalate (l.map showInts)

def showMemo (m : Nat → Option Int) : String :=
  ",".intercalate ((List.range 64).filterMap (fun k => (m k).map (fun v => toString k ++ "=" ++ toString v)))

/-- the racy model: `G k` reads the shared cell, `W k` writes the accumulator to it, `R k` reads `defaultRo` -/
abbrev USt := List XInstr × Int

def uprog : USt → UAction Nat Int Int USt
  | ([], _) => .done
  | (.safe (.G k) :: r, _) => .read k (fun v => (r, v))
  | (.safe (.R k) :: r, _) => .tau (r, defaultRo k)
  | (.safe .E :: r, a) => .emit a (r, a)
  | (.safe (.A n) :: r, a) => .tau (r, a + n)
  | (.write k :: r, a) => .write k a (r, a)

end Thr

open Thr MdVerif.Threads MdVerif.Threads.Reg in
def thrHandler : Handler := fun op args =>
  match op with
  | "thr.run" =>
    match parseReq args with
    | some q => some (showTraces (traces (run prog q.f q.sched (init q.progs q.ro q.memo))))
    | none => some "bad-args"
  | "thr.run2" =>
    match parseReq args with
    | some q =>
      some (showTraces (traces (run2 (twoStep prog q.f) q.f q.sched (embed (init q.progs q.ro q.memo)))))
    | none => some "bad-args"
  | "thr.full" =>
    match parseReq args with
    | some q =>
      let sys := run prog q.f q.sched (init q.progs q.ro q.memo)
      some (showTraces (traces sys) ++ "#" ++
        ",".intercalate (sys.threads.map (fun t => encBool (isDone prog t))) ++ "#" ++
        showInts (sys.threads.map (fun t => t.st.2)) ++ "#" ++ showMemo sys.shared.memo)
    | none => some "bad-args"
  | "thr.racy" =>
    match args with
    | [p, s] =>
      match parseXProgs p, parseNats s with
      | some progs, some sched =>
        let sys : USys Nat Int USt Int := ⟨progs.map (fun p => ⟨(p, 0), []⟩), fun _ => 0⟩
        some (showTraces ((urun uprog sched sys).threads.map (·.trace)))
      | _, _ => some "bad-args"
    | _ => some "bad-args"
  | _ => none

/-! ### instances -/

namespace InstOps
open MdVerif.Instance MdVerif.Instance.Toy Thr

def parseOp (s : String) : Option Op :=
  match s.splitOn ":" with
  | ["d", k, v] => (parseNat k.toList).bind (fun k => (parseNat v.toList).map (fun v => .define k v))
  | ["u", k] => (parseNat k.toList).map .use
  | ["r"] => some .raise
  | _ => none

def parseEv (s : String) : Option (Ev Doc) :=
  if s == "R" then some .reset
  else if s == "-" then some (.convert [])
  else ((s.splitOn ",").mapM parseOp).map .convert

def parseRef (s : String) : Option (Nat × Nat) :=
  match s.splitOn ":" with
  | [k, v] => (parseNat k.toList).bind (fun k => (parseNat v.toList).map (fun v => (k, v)))
  | _ => none

def parseRefs (s : String) : Option Refs :=
  if s.isEmpty then some [] else (s.splitOn ",").mapM parseRef

def showItem (i : Item) : String :=
  toString i.1 ++ "/" ++ (match i.2 with | some v => toString v | none => "N")

def showRefs (r : Refs) : String := ",".intercalate (r.map (fun (k, v) => toString k ++ ":" ++ toString v))

def showConv (r : Inst Refs Refs Nat × Result (List Item)) : String :=
  (match r.2 with
    | .raised => "raised"
    | .ok items => "ok" ++ ",".intercalate (items.map showItem))
  ++ "@" ++ showRefs r.1.fields ++ "@" ++ toString r.1.leak

/-- an event of `inst.run`: an event of the model, or the pre-repair `reset()` -/
inductive DEv where
  | ev (e : Ev Doc)
  | resetOld

def parseDEv (s : String) : Option DEv :=
  if s == "Rold" then some .resetOld else (parseEv s).map .ev

/-- the conversions of a history, with the instance after each -/
def convs (x : Inst Refs Refs Nat) : List DEv → List (Inst Refs Refs Nat × Result (List Item))
  | [] => []
  | .ev (.convert d) :: h => conv machine x d :: convs (conv machine x d).1 h
  | .ev .reset :: h => convs (reset machine x) h
  | .resetOld :: h => convs (resetOld machine x) h

inductive SReq where
  | create (c : Refs)
  | on (i : Nat) (e : Ev Doc)

def parseSReq (s : String) : Option SReq :=
  match s.toList with
  | 'C' :: r => (parseRefs (String.ofList r)).map .create
  | _ =>
    match s.splitOn "@" with
    | [i, e] => (parseNat i.toList).bind (fun i => (parseEv e).map (fun e => .on i e))
    | _ => none

/-- the conversions of a history of a store -/
def sconvs (st : Store Refs Refs Nat) : List SReq → List String
  | [] => []
  | .create c :: h => sconvs (applySEv machine st (.create c : SEv Refs Doc)) h
  | .on i e :: h =>
    let st' := applySEv machine st (.on i e : SEv Refs Doc)
    match e, st[i]? with
    | .convert d, some x => (toString i ++ "@" ++ showConv (conv machine x d)) :: sconvs st' h
    | _, _ => sconvs st' h

end InstOps

open InstOps MdVerif.Instance MdVerif.Instance.Toy in
def instHandler : Handler := fun op args =>
  match op with
  | "inst.run" =>
    let (cfg, evs) := match args with
      | a :: rest => if a.startsWith "cfg=" then (parseRefs (a.drop 4).toString, rest) else (some [], args)
      | [] => (some [], [])
    match cfg, evs.mapM parseDEv with
    | some c, some h => some ("|".intercalate ((convs (fresh machine c) h).map showConv))
    | _, _ => some "bad-args"
  | "inst.sys" =>
    match args.mapM parseSReq with
    | some h => some ("|".intercalate (sconvs [] h))
    | none => some "bad-args"
  | _ => none

/-- the ops of the thread model and of the instance model -/
def threadsHandler : Handler := fun op args =>
  match thrHandler op args with
  | some r => some r
  | none => instHandler op args

end Driver
