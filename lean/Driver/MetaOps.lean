/-
Driver ops of the `meta` extension (`MdVerif/Model/Ext/Meta.lean`, `MdVerif/Model/PipelineM.lean`):

`meta.run <lines>`                                → `<lines>|<dict>`     (`MetaPreprocessor.run`: remaining lines, `md.Meta`)
`meta.match <line>`                               → `<META_RE>|<META_MORE_RE>|<BEGIN_RE>|<END_RE>`
                                                    (`N` or `S<key>:<value>`, `N` or `S<value>`, `0`/`1`, `0`/`1`)
`convertm <on> <flags> <tab> <html|xhtml> <src>`  → `ok <str>|<dict>` | `oof|<dict>` | `err|<dict>` | `ood|<dict>`

`<dict>`: the items of `md.Meta` in insertion order, separated by a blank, each `<key>:<list of values>` (empty
dictionary: the empty field).  `<flags>` as for `convertx`.
-/
import MdVerif.Model.PipelineM
import Driver.PipelineXOps

namespace Driver
open MdVerif

def encMetaDict (d : Meta.Dict) : String :=
  " ".intercalate (d.map (fun kv => encStr kv.1 ++ ":" ++ encList kv.2))

def metaHandler : Handler := fun op args =>
  match op, args with
  | "meta.run", [ls] =>
    let r := Meta.run (decList ls)
    some (encList r.1 ++ "|" ++ encMetaDict r.2)
  | "meta.match", [l] =>
    let line := decStr l
    some ((match Meta.metaMatch line with
           | none => "N"
           | some (k, v) => "S" ++ encStr k ++ ":" ++ encStr v) ++ "|" ++
          encOptStr (Meta.moreMatch line) ++ "|" ++ encBool (Meta.beginMatch line) ++ "|" ++ encBool (Meta.endMatch line))
  | "convertm", [on, flags, tab, fmt, src] =>
    let cfg : Pipeline.Cfg := { tab := decNat tab, fmt := if fmt == "html" then .html else .xhtml }
    let r := PipelineM.convertM (decBool on) (decExts flags) cfg (decStr src)
    some ((match r.1 with
           | .ok s => "ok " ++ encStr s
           | .oof => "oof" | .err => "err" | .ood => "ood") ++ "|" ++ encMetaDict r.2)
  | _, _ => none

end Driver
