/-
Driver ops for the serializer model and the strict reader (C14).

`esc.cdata <str>` `esc.attr <str>` `esc.attrib <str>`   the three escapers of the model (multi-pass compositions)
`esc1 <quot 0/1> <nl 0/1> <str>`                          the one-pass escaper
`ser <html|xhtml> <tree>`                                 serialization (encoded string), `err` when not `serializable`
`read <html|xhtml> <str>`                                 `readForest`: `F:` + rendering of the items, or `none`
`canon <tree>`                                            `F:` + the same rendering of `canon t`
`wf <tree>`                                               `WFTree` as 0/1

Rendering of read items (one line, items separated by one space):
  `el[tag|k=toks;k=toks|items]` `tx[toks]` `cm[str]` `pi[str]` `rw[str]`
where `str` is an encoded string, `toks` are tokens joined by `,`: a character is its code point, an entity reference
`&body;` is `&` followed by the code points of the body joined by `.`.
-/
import MdVerif.Spec.Reader
import Driver.Proto
import Driver.TreeCodec

namespace Driver
open MdVerif MdVerif.Ser

def showTok : Tok → String
  | .ch c => toString c.toNat
  | .ent b => "&" ++ ".".intercalate (b.map (fun c => toString c.toNat))

def showToks (l : List Tok) : String := ",".intercalate (l.map showTok)

mutual
def showRNode : RNode → String
  | .elem t as kids =>
    "el[" ++ encStr t ++ "|" ++ ";".intercalate (as.map (fun kv => encStr kv.1 ++ "=" ++ showToks kv.2)) ++ "|" ++
      " ".intercalate (showRNodes kids) ++ "]"
  | .text toks => "tx[" ++ showToks toks ++ "]"
  | .comment s => "cm[" ++ encStr s ++ "]"
  | .pi s => "pi[" ++ encStr s ++ "]"
  | .raw s => "rw[" ++ encStr s ++ "]"
def showRNodes : List RNode → List String
  | [] => []
  | n :: r => showRNode n :: showRNodes r
end

def showForest (l : List RNode) : String := "F:" ++ " ".intercalate (showRNodes l)

def decFmt (f : String) : Option Fmt :=
  if f == "html" then some .html else if f == "xhtml" then some .xhtml else none

def serializerHandler : Handler := fun op args =>
  match op, args with
  | "esc.cdata", [s] => some (encStr (escCdata (decStr s)))
  | "esc.attr", [s] => some (encStr (escAttrHtml (decStr s)))
  | "esc.attrib", [s] => some (encStr (escAttrib (decStr s)))
  | "esc1", [q, n, s] => some (encStr (esc1 (decBool q) (decBool n) (decStr s)))
  | "ser", [f, t] =>
    match decFmt f, decNode t with
    | some fmt, some n => some (if serializable fmt n then encStr (serialize fmt n) else "err")
    | _, _ => some "bad-arg"
  | "read", [f, s] =>
    match decFmt f with
    | some fmt =>
      match readForest fmt (decStr s) with
      | some ns => some (showForest ns)
      | none => some "none"
    | none => some "bad-arg"
  | "canon", [t] =>
    match decNode t with
    | some n => some (showForest (canon n))
    | none => some "bad-arg"
  | "wf", [t] =>
    match decNode t with
    | some n => some (encBool (WFTree n))
    | none => some "bad-arg"
  | _, _ => none

end Driver
