/-
Driver op of the concrete instance model (`MdVerif/Model/InstanceX.lean`):

`instx.run <flags> <tab> <html|xhtml> <ev>…` → `<outcome>|<outcome>…#<state>`

`instx.runm <on> <flags> <tab> <html|xhtml> <ev>…` → the same with the `meta` extension when `<on>` = `1`; the state has
one more field, `#<meta>` (`md.Meta`, encoded as by `convertm`).

`<flags>` as `convertx`.  `<ev>`: `R` = `md.reset()`, `C<str>` = `md.convert(str)`.  One `<outcome>` per conversion:
`K<str>` (ok), `F` (out of fuel), `E` (raises), `D` (outside the modelled domain).  `<state>` is the state after the
history: `X` when it is not modelled (`valid = false`), otherwise
`V<refs>#<footnotes>#<abbrs>#<html>#<used_refs>#<found_refs>#<toc>#<toc_tokens>` with
  refs        the reference writes of the log in order, `id~url~title` joined by `;` (title `N` / `S<str>`), `-` if none
  footnotes   `id~text` joined by `;`   (the decoded table, in order)          abbrs  likewise
  html        list of strings           used_refs  list of strings             found_refs  `key~count` joined by `;`
  toc         `md.toc`                  toc_tokens `level~id~name` joined by `;` (flat, document order)
-/
import MdVerif.Model.InstanceX
import Driver.PipelineXOps
import Driver.MetaOps

namespace Driver
open MdVerif

def encOutcomeX : Pipeline.Outcome → String
  | .ok s => "K" ++ encStr s
  | .oof => "F"
  | .err => "E"
  | .ood => "D"

def decEvX (f : String) : InstanceX.Ev :=
  if f == "R" then .reset else .convert (decStr (f.drop 1).toString)

def encRowsX (rows : List String) : String := if rows.isEmpty then "-" else ";".intercalate rows

def encStateX (st : InstanceX.MdSt) : String :=
  if !st.valid then "X" else
  "V" ++ "#".intercalate
    [ encRowsX (st.references.map (fun e => encStr e.1 ++ "~" ++ encStr e.2.1 ++ "~" ++ encOptStr e.2.2)),
      encRowsX (st.footnotes.map (fun kv => encStr kv.1 ++ "~" ++ encStr kv.2)),
      encRowsX (st.abbrs.map (fun kv => encStr kv.1 ++ "~" ++ encStr kv.2)),
      encList st.html,
      encList st.fn.usedRefs,
      encRowsX (st.fn.foundRefs.map (fun kv => encStr kv.1 ++ "~" ++ toString kv.2)),
      (match st.toc with | some t => encStr t | none => "?"),
      encRowsX (st.tocTokens.map (fun t => toString t.level ++ "~" ++ encStr t.id ++ "~" ++ encStr t.name)) ]

def instanceXHandler : Handler := fun op args =>
  match op, args with
  | "instx.run", flags :: tab :: fmt :: evs =>
    let cfg : Pipeline.Cfg := { tab := decNat tab, fmt := if fmt == "html" then .html else .xhtml }
    let x := decExts flags
    let h := evs.map decEvX
    some ("|".intercalate ((InstanceX.outcomes x cfg InstanceX.fresh h).map encOutcomeX) ++ "#" ++
          encStateX (InstanceX.runS x cfg InstanceX.fresh h))
  | "instx.runm", on :: flags :: tab :: fmt :: evs =>
    let cfg : Pipeline.Cfg := { tab := decNat tab, fmt := if fmt == "html" then .html else .xhtml }
    let x := decExts flags
    let h := evs.map decEvX
    let st := InstanceX.runSM (decBool on) x cfg InstanceX.fresh h
    some ("|".intercalate ((InstanceX.outcomesM (decBool on) x cfg InstanceX.fresh h).map encOutcomeX) ++ "#" ++
          encStateX st ++ (if st.valid then "#" ++ encMetaDict st.metaData else ""))
  | _, _ => none

end Driver
