def main : IO Unit := IO.println "mdmodel"
