/-
`mdmodel`: the executable model driver.  Reads requests from stdin, one per line, answers one line each.
Handlers live in `Driver/*Ops.lean`, one file per model component; `handlers` lists them.
-/
import Driver.Handlers

namespace Driver

def answer (line : String) : String :=
  match line.splitOn "\t" with
  | [] => "?"
  | op :: args =>
    match handlers.findSome? (fun h => h op args) with
    | some a => a
    | none => "?"

partial def loop (inp : IO.FS.Stream) (out : IO.FS.Stream) : IO Unit := do
  let line ← inp.getLine
  if line.isEmpty then return ()
  let l := if line.endsWith "\n" then (line.dropEnd 1).toString else line
  out.putStrLn (answer l)
  out.flush
  loop inp out

end Driver

def main : IO Unit := do
  let inp ← IO.getStdin
  let out ← IO.getStdout
  Driver.loop inp out
  out.flush
