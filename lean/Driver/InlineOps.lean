/-
Driver ops for the inline stage and what follows it (tree processors, postprocessors).

`inline <tree> <refs> [<esc>]`  `InlineProcessor.run` on a block-parser tree; refs = `id=url=title` joined by `;`
                                (`-` = none; id, url encoded strings, title `N` / `S<str>`); esc = `ESCAPED_CHARS`
                                → `ok <tree>|<html stash>|<inline stash summary>` / `oof`
`pretty <tree>`                 `PrettifyTreeprocessor.run` → tree
`unesc <tree>`                  `UnescapeTreeprocessor.run` → `ok <tree>` / `err` (`chr` out of range)
`post <str> <stash>`            raw_html then amp_substitute → `ok <str>` / `oof`
`strip <str>`                   top-level tag stripping of `convert` → `S<str>` / `N` (ValueError)
`finish <str> <stash>`          strip, postprocessors, final `.strip()` → `ok <str>` / `err` / `oof`
unit ops: `re.backtick <str> <start>`, `re.em <char> <0-4> <str> <pos>`, `re.notstrong <str> <start>`,
`re.entity <str> <start>`, `getlink <str> <index>`, `gettext <str> <index>`, `evalid <str> <index> <text>`,
`unescapetext <str>`, `isblockhtml <str>`
-/
import MdVerif.Model.Inline
import MdVerif.Model.TreeProc
import MdVerif.Model.Post
import Driver.TreeCodec

namespace Driver
open MdVerif

def decRefs (f : String) : List (Str × Str × Option Str) :=
  if f == "-" then [] else (f.splitOn ";").map (fun r =>
    match r.splitOn "=" with
    | [i, u, t] => (decStr i, decStr u, decOptStr t)
    | _ => ([], [], none))

def encPair (a b : Nat) : String := toString a ++ " " ++ toString b

def inlineOp (tree refs : String) (esc : Option String) : String :=
  match decNode tree with
  | none => "bad-tree"
  | some t =>
    let cfg : Inline.Cfg := { refs := decRefs refs, esc := match esc with | some e => decStr e | none => Generated.escapedChars }
    match Inline.run cfg t with
    | none => "oof"
    | some (t', st) =>
      -- third field: the inline stash in id order (`s<string>` / `n<tag> <attribute values>`), which makes the order
      -- in which ids were handed out observable
      let summary := st.stash.map (fun it =>
        match it with
        | .str x => 's' :: x
        | .node n => 'n' :: n.tagStr ++ (n.attrs.map (fun kv => ' ' :: kv.2)).flatten)
      "ok " ++ encNode t' ++ "|" ++ encList st.html ++ "|" ++ encList summary

def inlineHandler : Handler := fun op args =>
  match op, args with
  | "inline", [tree, refs] => some (inlineOp tree refs none)
  | "inline", [tree, refs, esc] => some (inlineOp tree refs (some esc))
  | "pretty", [tree] =>
    match decNode tree with
    | none => some "bad-tree"
    | some t => some (encNode (TreeProc.prettify t))
  | "unesc", [tree] =>
    match decNode tree with
    | none => some "bad-tree"
    | some t =>
      match TreeProc.unescapeTree t with
      | some t' => some ("ok " ++ encNode t')
      | none => some "err"
  | "post", [s, stash] =>
    match Post.post TreeProc.defaultBlockLevel (decList stash) (decStr s) with
    | some r => some ("ok " ++ encStr r)
    | none => some "oof"
  | "strip", [s] => some (encOptStr (Post.topLevelStrip (decStr s)))
  | "finish", [s, stash] =>
    match Post.finish TreeProc.defaultBlockLevel (decList stash) (decStr s) with
    | some (some r) => some ("ok " ++ encStr r)
    | some none => some "err"
    | none => some "oof"
  | "re.backtick", [s, start] =>
    match Inline.btFind (decStr s) (decNat start) with
    | none => some "N"
    | some m =>
      some ((if m.kind == .bs then "bs" else "code") ++ " " ++ toString m.start ++ " " ++ toString m.stop ++ " " ++
            encStr m.group)
  | "re.em", [c, k, s, pos] =>
    let ch := (decStr c).headD '*'
    match (Inline.emPatterns ch)[decNat k]? with
    | none => some "bad-index"
    | some item =>
      match Inline.seqMatch (decStr s) (decNat pos) ch item.steps with
      | none => some "N"
      | some (e, gs) => some (toString e ++ "|" ++ encList gs)
  | "re.notstrong", [s, start] =>
    match Inline.nsFind (decStr s) (decNat start) with
    | none => some "N"
    | some (a, b) => some (encPair a b)
  | "re.entity", [s, start] =>
    match Inline.entityFind (decStr s) (decNat start) with
    | none => some "N"
    | some (a, b) => some (encPair a b)
  | "getlink", [s, index] =>
    let (href, title, idx, handled) := Inline.getLink (Inline.unescape []) (decStr s) (decNat index)
    some (encStr href ++ "|" ++ encOptStr title ++ "|" ++ toString idx ++ "|" ++ encBool handled)
  | "gettext", [s, index] =>
    let (text, idx, handled) := Inline.getText (decStr s) (decNat index)
    some (encStr text ++ "|" ++ toString idx ++ "|" ++ encBool handled)
  | "evalid", [s, index, text] =>
    match Inline.evalId (decStr s) (decNat index) (decStr text) with
    | none => some "N"
    | some (id, e) => some (encStr (Inline.wsClean id) ++ "|" ++ toString e)
  | "unescapetext", [s] => some (encOptStr (TreeProc.unescapeText 0 (decStr s)))
  | "isblockhtml", [s] => some (encBool (Post.isBlockLevelHtml TreeProc.defaultBlockLevel (decStr s)))
  | _, _ => none

end Driver
