/-
Driver ops for the event-level model of the raw-HTML extractor (C04).

`extract.ev <event>…`        final `cleandoc` joined and the stash:  `encStr(join cleandoc)|encList(stash)`
`extract.steps <event>…`     digest of the state after every event, joined by `|`:
                             `inraw intail len(stack) len(cache) len(cleandoc) len(stash)` (each group `i,t,a,b,c,d`)
`extract.state <event>…`     the whole final state: `inraw|intail|encList(stack, bottom first)|encList(cache)|encList(cleandoc)|encList(stash)`
`extract.restore <stash> <text>`   `RawHtmlPostprocessor.run` (recursion bounded by `len(stash) + 2` passes)
`extract.restore1 <stash> <text>`  one pass
`extract.isblock <html>`     `RawHtmlPostprocessor.isblocklevel`

Event encoding (one tab-separated argument per event; fields separated by `:`; strings via `encStr`, Booleans `0`/`1`):
`S:tag:text:atLineStart:isBlock:isEmptyTag:blankFollows`   `E:tag:text:blankFollows`   `D:text`
`M:text:isBlock:atLineStart:blankFollows`   `C:name`   `R:name`   `X:rest`
-/
import MdVerif.Model.ExtractEv
import Driver.Proto

namespace Driver
open MdVerif.Extract

def parseEvent (s : String) : Option Event :=
  match s.splitOn ":" with
  | ["S", tag, text, a, b, e, f] => some (.start (decStr tag) (decStr text) (decBool a) (decBool b) (decBool e) (decBool f))
  | ["E", tag, text, f] => some (.end_ (decStr tag) (decStr text) (decBool f))
  | ["D", t] => some (.data (decStr t))
  | ["M", t, b, a, f] => some (.empty (decStr t) (decBool b) (decBool a) (decBool f))
  | ["C", n] => some (.charref (decStr n))
  | ["R", n] => some (.entityref (decStr n))
  | ["X", r] => some (.close (decStr r))
  | _ => none

def digest (st : ExSt) : String :=
  ",".intercalate [encBool st.inraw, encBool st.intail, toString st.stack.length, toString st.cache.length,
    toString st.cleandoc.length, toString st.stash.length]

def stepsDigest : ExSt → List Event → List String
  | _, [] => []
  | st, e :: es => let st' := step st e; digest st' :: stepsDigest st' es

def extractEvHandler : Handler := fun op args =>
  match op with
  | "extract.ev" =>
    match args.mapM parseEvent with
    | some evs => let st := runEvents evs; some (encStr (cleanText st) ++ "|" ++ encList st.stash)
    | none => some "bad-event"
  | "extract.steps" =>
    match args.mapM parseEvent with
    | some evs => some ("|".intercalate (stepsDigest init evs))
    | none => some "bad-event"
  | "extract.state" =>
    match args.mapM parseEvent with
    | some evs =>
      let st := runEvents evs
      some ("|".intercalate [encBool st.inraw, encBool st.intail, encList st.stack.reverse, encList st.cache,
        encList st.cleandoc, encList st.stash])
    | none => some "bad-event"
  | "extract.restore" =>
    match args with
    | [stash, text] => let s := decList stash; some (encStr (restore s (s.length + 2) (decStr text)))
    | _ => some "bad-args"
  | "extract.restore1" =>
    match args with
    | [stash, text] => some (encStr (restorePass (decList stash) (decStr text)))
    | _ => some "bad-args"
  | "extract.isblock" =>
    match args with
    | [h] => some (encBool (isBlockLevel (decStr h)))
    | _ => some "bad-args"
  | _ => none

end Driver
