/-
Driver ops for the extended block-parser model (`MdVerif/Model/BlockExt.lean`).

`<flags>` is five characters `0`/`1`: admonition, def_list, footnotes, abbr, sane_lists (`10100` = admonition and
footnotes).

`blocksx <flags> <tab> <text>`          text = the `\n`-joined normalised lines.  Answer
                                        `ok <tree>|<refs>|<footnotes>|<abbrs>` (tree as in `TreeCodec`; refs as in
                                        `blocks`; footnotes and abbrs `key=value` joined by `;` in dict order, empty
                                        when there are none) or `oof` (no result: out of fuel, or `KeyError` of
                                        `AbbrBlockprocessor`).
`blocksx.fuel <flags> <tab> <fuel> <text>`   `ok` or `oof` with the given fuel
`rex.adm <s>`      `AdmonitionProcessor.RE.search`:   `start end S<group1> <group2>` or `none`
`rex.def <s>`      `DefListProcessor.RE.search`:      `start end S<group2>` or `none`; then ` 1`/` 0` for
                   `NO_INDENT_RE.match(s)`
`rex.fn <s>`       `FootnoteBlockProcessor.RE.search`: `start end S<group1> S<group2>` or `none`
`rex.abbr <s>`     `AbbrBlockprocessor.RE.search`:    `start end S<abbr> S<title>` or `none`
`admclass <g1> <g2>`   `get_class_and_title` on groups (g2 `N`/`S<str>`): `S<klass> <title>`
`getitemsx <sane: ol|ul|no> <tab> <s>`   `get_items` of the (Sane)O/UListProcessor: list of strings, then ` S<STARTSWITH>`
-/
import MdVerif.Model.BlockExt
import Driver.BlockOps

namespace Driver
open MdVerif MdVerif.BlockExt

def decFlags (f : String) : XCfg :=
  let l := f.toList
  let flag (i : Nat) : Bool := l[i]? == some '1'
  { admonition := flag 0, defList := flag 1, footnotes := flag 2, abbr := flag 3, saneLists := flag 4 }

def encDict (d : List (Str × Str)) : String :=
  ";".intercalate (d.map (fun kv => encStr kv.1 ++ "=" ++ encStr kv.2))

def blockExtHandler : Handler := fun op args =>
  match op, args with
  | "blocksx", [flags, tab, text] =>
    match parseDocumentX (decFlags flags) (decNat tab) (decStr text) with
    | some (root, st) =>
      some ("ok " ++ encNode root ++ "|" ++ encRefs st.refs ++ "|" ++ encDict st.footnotes ++ "|" ++ encDict st.abbrs)
    | none => some "oof"
  | "blocksx.fuel", [flags, tab, fuel, text] =>
    some (if (parseDocumentLogWith (decFlags flags) (decNat tab) (decNat fuel) (decStr text)).isSome then "ok" else "oof")
  | "rex.adm", [s] =>
    match admSearch (decStr s) with
    | some (a, b, g1, g2) => some (toString a ++ " " ++ toString b ++ " " ++ encS g1 ++ " " ++ encOptStr g2)
    | none => some "none"
  | "rex.def", [s] =>
    let str := decStr s
    let a := match defSearch str with
      | some (a, b, g) => toString a ++ " " ++ toString b ++ " " ++ encS g
      | none => "none"
    some (a ++ " " ++ encBool (defNoIndent str))
  | "rex.fn", [s] =>
    match fnSearch (decStr s) with
    | some (a, g1, g2, n) => some (toString a ++ " " ++ toString (a + n) ++ " " ++ encS g1 ++ " " ++ encS g2)
    | none => some "none"
  | "rex.abbr", [s] =>
    match abbrSearch (decStr s) with
    | some (a, g1, g2, n) => some (toString a ++ " " ++ toString (a + n) ++ " " ++ encS g1 ++ " " ++ encS g2)
    | none => some "none"
  | "admclass", [g1, g2] =>
    let (k, t) := admClassTitle (decStr g1) (decOptStr g2)
    some (encS k ++ " " ++ encOptStr t)
  | "getitemsx", [sane, tab, s] =>
    let p := if sane == "ol" then ListParams.saneOl else if sane == "ul" then ListParams.saneUl else ListParams.default
    let str := decStr s
    some (encList (getItemsX p (decNat tab) str) ++ " " ++
          encS (startsWithOf (decNat tab) (if sane == "ul" then "ul" else "ol") str))
  | _, _ => none

end Driver
