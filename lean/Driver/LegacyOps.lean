/-
Driver ops of the `legacy_attrs` extension (`MdVerif/Model/Ext/LegacyAttrs.lean`, `MdVerif/Model/PipelineL.lean`):

`legacy.sub <txt>`                        → `<text without the definitions>|<k1>;<v1>;<k2>;<v2>…`  (`ATTR_RE.sub` with the callback's arguments)
`legacy.run <tree>`                       → `<tree>`                                              (`LegacyAttrs.run`)
`convertl <on> <tab> <html|xhtml> <src>`  → `ok <str>` | `oof` | `err` | `ood`
`re.legacyem <k> <s> <pos>`               → `N` | `<end>|<groups 2..>`   (`LegacyUnderscoreProcessor.PATTERNS[k].pattern.match(s, pos)`)
-/
import MdVerif.Model.PipelineL
import MdVerif.Model.Ext.LegacyEm
import Driver.TreeCodec

namespace Driver
open MdVerif

def legacyHandler : Handler := fun op args =>
  match op, args with
  | "legacy.sub", [t] =>
    let p := LegacyAttrs.scan 0 (decStr t)
    some (encStr p.1 ++ "|" ++ encList (p.2.flatMap (fun kv => [kv.1, kv.2])))
  | "legacy.run", [t] =>
    match decNode t with
    | none => some "bad-tree"
    | some n => some (encNode (LegacyAttrs.run n))
  | "convertl", [on, tab, fmt, src] =>
    let cfg : Pipeline.Cfg := { tab := decNat tab, fmt := if fmt == "html" then .html else .xhtml }
    some (match PipelineL.convertL (decBool on) cfg (decStr src) with
          | .ok s => "ok " ++ encStr s
          | .oof => "oof" | .err => "err" | .ood => "ood")
  | "re.legacyem", [k, s, pos] =>
    match LegacyEm.legacyMatch (decNat k) (decStr s) (decNat pos) with
    | none => some "bad-index"
    | some none => some "N"
    | some (some (e, gs)) => some (toString e ++ "|" ++ encList gs)
  | _, _ => none

end Driver
