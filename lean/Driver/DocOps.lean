/-
Driver ops for the C01 specification (`MdVerif/Spec/Doc.lean`).

`doc.print <doc> <spelling>`   Markdown source of the document under the spelling   → string
`doc.spec <doc>`               expected output                                      → string
`doc.wf <doc>`                 canonical-spelling constraints                       → `0`/`1`

`<spelling>`: natural numbers joined by `,` (may be empty).
`<doc>`: space-separated tokens in prefix order, `<n> block…`.  Strings are `S<str>`, optional strings `N` | `S<str>`.
  block   `p <n> inline…` | `a <level> <n> inline…` | `s <level> <n> inline…` | `r` | `c <k> S<line>…` | `q <n> block…`
          | `u <loose> <k> item…` | `o <loose> <k> item…`      item  `<n> block…`
  inline  `T S<words>` | `E <n> inline…` | `G <n> inline…` (strong) | `C S<body>` | `L <n> inline… S<dest> <title>`
          | `I S<alt> S<dest> <title>` | `A S<url>` | `B` | `X <code point>`
-/
import MdVerif.Spec.Doc
import Driver.Proto

namespace Driver
open MdVerif.DocSpec

abbrev Dec (α : Type) := List String → Option (α × List String)

def decMany {α : Type} (dec : Dec α) : Nat → Dec (List α)
  | 0, t => some ([], t)
  | k + 1, t =>
    match dec t with
    | none => none
    | some (a, t') =>
      match decMany dec k t' with
      | none => none
      | some (as, t'') => some (a :: as, t'')

def dS (f : String) : Str := decStr (f.drop 1).toString

def decS : Dec Str
  | s :: r => some (dS s, r)
  | [] => none

def decInline : Nat → Dec Inline
  | 0, _ => none
  | _ + 1, "T" :: s :: r => some (.text (dS s), r)
  | f + 1, "E" :: n :: r => (decMany (decInline f) (decNat n) r).map (fun p => (.em p.1, p.2))
  | f + 1, "G" :: n :: r => (decMany (decInline f) (decNat n) r).map (fun p => (.strong p.1, p.2))
  | _ + 1, "C" :: s :: r => some (.code (dS s), r)
  | f + 1, "L" :: n :: r =>
    match decMany (decInline f) (decNat n) r with
    | some (c, d :: t :: r') => some (.link c (dS d) (decOptStr t), r')
    | _ => none
  | _ + 1, "I" :: a :: d :: t :: r => some (.image (dS a) (dS d) (decOptStr t), r)
  | _ + 1, "A" :: u :: r => some (.autolink (dS u), r)
  | _ + 1, "B" :: r => some (.br, r)
  | _ + 1, "X" :: c :: r => some (.esc (Char.ofNat (decNat c)), r)
  | _, _ => none

def decBlock : Nat → Dec Block
  | 0, _ => none
  | f + 1, "p" :: n :: r => (decMany (decInline (f + 1)) (decNat n) r).map (fun p => (.para p.1, p.2))
  | f + 1, "a" :: l :: n :: r => (decMany (decInline (f + 1)) (decNat n) r).map (fun p => (.atx (decNat l) p.1, p.2))
  | f + 1, "s" :: l :: n :: r =>
    (decMany (decInline (f + 1)) (decNat n) r).map (fun p => (.setext (decNat l) p.1, p.2))
  | _ + 1, "r" :: r => some (.rule, r)
  | _ + 1, "c" :: k :: r => (decMany decS (decNat k) r).map (fun p => (.code p.1, p.2))
  | f + 1, "q" :: n :: r => (decMany (decBlock f) (decNat n) r).map (fun p => (.quote p.1, p.2))
  | f + 1, "u" :: l :: k :: r =>
    (decMany (fun t => match t with
        | n :: t' => decMany (decBlock f) (decNat n) t'
        | [] => none) (decNat k) r).map (fun p => (.ulist (decBool l) p.1, p.2))
  | f + 1, "o" :: l :: k :: r =>
    (decMany (fun t => match t with
        | n :: t' => decMany (decBlock f) (decNat n) t'
        | [] => none) (decNat k) r).map (fun p => (.olist (decBool l) p.1, p.2))
  | _, _ => none

def decDoc (f : String) : Option Doc :=
  match f.splitOn " " with
  | n :: toks =>
    match decMany (decBlock (toks.length + 1)) (decNat n) toks with
    | some (d, []) => some d
    | _ => none
  | [] => none

def decSpelling (f : String) : Spelling :=
  ⟨if f.isEmpty then [] else (f.splitOn ",").map decNat⟩

def docHandler : Handler := fun op args =>
  match op, args with
  | "doc.print", [d, sp] =>
    match decDoc d with
    | some d => some (encStr (print d (decSpelling sp)))
    | none => some "bad-doc"
  | "doc.spec", [d] =>
    match decDoc d with
    | some d => some (encStr (spec d))
    | none => some "bad-doc"
  | "doc.wf", [d] =>
    match decDoc d with
    | some d => some (encBool (WF d))
    | none => some "bad-doc"
  | _, _ => none

end Driver
