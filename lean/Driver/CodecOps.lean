/-
Driver ops for the codec and command-line models (C20).

Codecs: `ascii` `latin1` `utf8`.  Bytes travel like strings: decimal numbers joined by `,`.

`codec.enc  <codec> <str>`            → `B<bytes>` | `E`     `str.encode(codec)` (strict)
`codec.encx <codec> <str>`            → `B<bytes>` | `E`     `str.encode(codec, 'xmlcharrefreplace')`
`codec.dec  <codec> <bytes>`          → `S<str>` | `E`       `bytes.decode(codec)` (strict)
`codec.decstream <codec> <bytes>`     → `S<str>` | `E`       `codecs.getreader(codec)(stream).read()`
`codec.stripbom <str>`                → `<str>`              `str.lstrip('﻿')`
`codec.convertfile <codec> <fn> <bytes>` → `B<bytes>` | `E`  `convertFile` with `convert` replaced by the stand-in `fn`:
                                          `id` | `rev` (reverse) | `wrap` (`'﻿<p>' + text + 'é€\U0001F600</p>'`)
`cli.parse <args>`                    → `E:usage` | `E:exit0` | `input|output|extensions|configfile|encoding|format|lazy|level`
`cli.render <args>`                   → the canonical command line (`render`) of what `<args>` parses to (`E` on error)
-/
import MdVerif.Model.Codec
import MdVerif.Model.Cli
import Driver.Proto

namespace Driver
open MdVerif

def decBytes (f : String) : List Nat :=
  if f.isEmpty then [] else (f.splitOn ",").map (fun t => t.toNat!)

def encBytes (b : List Nat) : String := ",".intercalate (b.map toString)

def decCodec (f : String) : Option Codec.Codec :=
  if f == "ascii" then some .ascii else if f == "latin1" then some .latin1 else if f == "utf8" then some .utf8 else none

def encOptBytes : Option (List Nat) → String
  | some b => "B" ++ encBytes b
  | none => "E"

def standIn (f : String) : Str → Str :=
  if f == "rev" then List.reverse
  else if f == "wrap" then fun t =>
    Char.ofNat 0xFEFF :: '<' :: 'p' :: '>' :: (t ++ [Char.ofNat 0xE9, Char.ofNat 0x20AC, Char.ofNat 0x1F600, '<', '/', 'p', '>'])
  else id

def encOpts (o : Cli.Opts) : String :=
  "|".intercalate [encOptStr o.input, encOptStr o.output, encList o.extensions, encOptStr o.configLoaded,
                   encOptStr o.encoding, encStr o.outputFormat, encBool o.lazyOl, toString o.verbose]

def codecHandler : Handler := fun op args =>
  match op, args with
  | "codec.enc", [c, s] => (decCodec c).map (fun c => encOptBytes (Codec.encode c (decStr s)))
  | "codec.encx", [c, s] => (decCodec c).map (fun c => encOptBytes (Codec.encodeX c (decStr s)))
  | "codec.dec", [c, b] =>
    (decCodec c).map (fun c => match Codec.decode c (decBytes b) with
                               | some s => "S" ++ encStr s
                               | none => "E")
  | "codec.decstream", [c, b] =>
    (decCodec c).map (fun c => match Codec.decodeStream c (decBytes b) with
                               | some s => "S" ++ encStr s
                               | none => "E")
  | "codec.stripbom", [s] => some (encStr (Codec.stripBom (decStr s)))
  | "codec.convertfile", [c, f, b] =>
    (decCodec c).map (fun c => encOptBytes (Codec.convertFile c (standIn f) (decBytes b)))
  | "cli.parse", [a] =>
    some (match Cli.parseArgs (decList a) with
          | .ok o => encOpts o
          | .error .usage => "E:usage"
          | .error .exit0 => "E:exit0")
  | "cli.render", [a] =>
    some (match Cli.parseArgs (decList a) with
          | .ok o => encList (Cli.render o)
          | .error _ => "E")
  | _, _ => none

end Driver
