/-
Line protocol of the model driver `mdmodel`.

Request:  `op<TAB>arg1<TAB>arg2…`          one per line
Answer:   one line per request              (`?` when the op is unknown)

Strings travel as decimal code points joined by `,` (`97,10,233`); the empty string is the empty field.
Lists of strings are joined by `;` (an empty list is the single character `-`, a list holding one empty string
is the empty field).  Integers in decimal with a leading `-` when negative.  Answers use the same encodings.
No Mathlib, nothing from `Lemmas/` or `Props/` is imported here, so that the driver links as a `lean_exe`.
-/
namespace Driver

abbrev Str := List Char

def encStr (s : Str) : String := ",".intercalate (s.map (fun c => toString c.toNat))

def decStr (f : String) : Str :=
  if f.isEmpty then [] else (f.splitOn ",").map (fun t => Char.ofNat t.toNat!)

def encList (l : List Str) : String :=
  if l.isEmpty then "-" else ";".intercalate (l.map encStr)

def decList (f : String) : List Str :=
  if f == "-" then [] else (f.splitOn ";").map decStr

def decInt (f : String) : Int :=
  if f.startsWith "-" then - ((f.drop 1).toString.toNat! : Int) else (f.toNat! : Int)

def decNat (f : String) : Nat := f.toNat!

def decOptInt (f : String) : Option Int := if f == "N" then none else some (decInt f)

def encOptStr : Option Str → String
  | none => "N"
  | some s => "S" ++ encStr s

def decOptStr (f : String) : Option Str :=
  if f == "N" then none else some (decStr (f.drop 1).toString)

def encBool (b : Bool) : String := if b then "1" else "0"
def decBool (f : String) : Bool := f == "1"

/-- a handler answers `none` for ops it does not know -/
abbrev Handler := String → List String → Option String

end Driver
