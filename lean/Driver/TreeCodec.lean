/-
Wire format of element trees: a flat, space-separated token list in prefix order.
Per node seven tokens: tag, text, textAtomic, tail, tailAtomic, attrs, childCount — followed by the children.
  tag    `n<str>` ordinary | `c` Comment | `p` ProcessingInstruction | `0` None | `q<str>` QName
  text   `N` (None) | `S<str>`          attrs  `-` | `k=v;k=v` (both encoded strings)
-/
import MdVerif.Model.Tree
import Driver.Proto

namespace Driver
open MdVerif

def encTag : Tag → String
  | .name s => "n" ++ encStr s
  | .comment => "c"
  | .pi => "p"
  | .none => "0"
  | .qname s => "q" ++ encStr s

def decTag (f : String) : Tag :=
  if f == "c" then .comment else if f == "p" then .pi else if f == "0" then .none
  else if f.startsWith "q" then .qname (decStr (f.drop 1).toString)
  else .name (decStr (f.drop 1).toString)

def encAttrs (l : List (Str × Str)) : String :=
  if l.isEmpty then "-" else ";".intercalate (l.map (fun kv => encStr kv.1 ++ "=" ++ encStr kv.2))

def decAttrs (f : String) : List (Str × Str) :=
  if f == "-" then [] else (f.splitOn ";").map (fun kv =>
    match kv.splitOn "=" with
    | [k, v] => (decStr k, decStr v)
    | _ => ([], []))

mutual
def encNodeToks : Node → List String
  | ⟨tag, attrs, text, ta, children, tail, tla⟩ =>
    [encTag tag, encOptStr text, encBool ta, encOptStr tail, encBool tla, encAttrs attrs,
     toString (lenNodes children)] ++ encNodesToks children
def encNodesToks : List Node → List String
  | [] => []
  | n :: r => encNodeToks n ++ encNodesToks r
def lenNodes : List Node → Nat
  | [] => 0
  | _ :: r => lenNodes r + 1
end

def encNode (n : Node) : String := " ".intercalate (encNodeToks n)

/-- parse one node from the token list (fuel = number of tokens); returns the node and the remaining tokens -/
def decNodeAux : Nat → List String → Option (Node × List String)
  | 0, _ => none
  | f + 1, tag :: text :: ta :: tail :: tla :: attrs :: cnt :: rest =>
    let rec kids : Nat → Nat → List String → Option (List Node × List String)
      | _, 0, toks => some ([], toks)
      | 0, _ + 1, _ => none
      | g + 1, k + 1, toks =>
        match decNodeAux f toks with
        | none => none
        | some (c, toks') =>
          match kids g k toks' with
          | none => none
          | some (cs, toks'') => some (c :: cs, toks'')
    match kids (decNat cnt) (decNat cnt) rest with
    | none => none
    | some (cs, rest') =>
      some ({ tag := decTag tag, attrs := decAttrs attrs, text := decOptStr text, textAtomic := decBool ta,
              children := cs, tail := decOptStr tail, tailAtomic := decBool tla }, rest')
  | _, _ => none

def decNode (f : String) : Option Node :=
  let toks := f.splitOn " "
  (decNodeAux (toks.length + 1) toks).map (·.1)

end Driver
