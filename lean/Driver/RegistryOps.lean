/-
Driver ops for the registry model (C13).

`reg.run  <op>…`   observations of the model of `util.Registry` for one operation history
`reg.spec <op>…`   observations prescribed by the registration-log specification (`specRun`)

Op syntax (names are plain ASCII words, items natural numbers, priorities integers — the harness scales
binary-fraction floats): `R:item:name:prio` `D:name:strict` `I` `L` `CN:name` `CI:item` `GI:i` `GN:name`
`GS:a:b:c` (each `N` or an integer) `IX:name`.
-/
import MdVerif.Spec.Registry
import Driver.Proto

namespace Driver
open MdVerif.Registry

def parseOp (s : String) : Option (Op Nat) :=
  match s.splitOn ":" with
  | ["R", a, n, p] => some (.register (decNat a) n (decInt p))
  | ["D", n, st] => some (.deregister n (decBool st))
  | ["I"] => some .iter
  | ["L"] => some .len
  | ["CN", n] => some (.containsName n)
  | ["CI", a] => some (.containsItem (decNat a))
  | ["GI", i] => some (.getIdx (decInt i))
  | ["GN", n] => some (.getName n)
  | ["GS", a, b, c] => some (.getSlice (decOptInt a) (decOptInt b) (decOptInt c))
  | ["IX", n] => some (.indexFor n)
  | _ => none

def showErr : Err → String
  | .valueError => "V" | .keyError => "K" | .indexError => "I"

def showObs : Obs Nat → String
  | .unit => "u"
  | .items l => "items:" ++ ",".intercalate (l.map toString)
  | .nat n => "n:" ++ toString n
  | .bool b => "b:" ++ encBool b
  | .item a => "it:" ++ toString a
  | .sliced l => "sl:" ++ ",".intercalate (l.map (fun (n, p, a) => n ++ "/" ++ toString p ++ "/" ++ toString a))
  | .err e => "e:" ++ showErr e

def registryHandler : Handler := fun op args =>
  match op with
  | "reg.run" =>
    match args.mapM parseOp with
    | some ops => some ("|".intercalate ((run (empty : Reg Nat) ops).2.map showObs))
    | none => some "bad-op"
  | "reg.spec" =>
    match args.mapM parseOp with
    | some ops => some ("|".intercalate ((specRun [] ops).map showObs))
    | none => some "bad-op"
  | _ => none

end Driver
