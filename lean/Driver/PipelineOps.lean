/-
Driver ops of the end-to-end model: `convert <tab> <html|xhtml> <src>` → `ok <str>` | `oof` | `err` | `ood`;
`convert.tree <tab> <src>` → the tree handed to the serializer and the HTML stash.
-/
import MdVerif.Model.Pipeline
import Driver.TreeCodec

namespace Driver
open MdVerif

def pipelineHandler : Handler := fun op args =>
  match op, args with
  | "convert", [tab, fmt, src] =>
    let cfg : Pipeline.Cfg := { tab := decNat tab, fmt := if fmt == "html" then .html else .xhtml }
    some (match Pipeline.convert cfg (decStr src) with
          | .ok s => "ok " ++ encStr s
          | .oof => "oof" | .err => "err" | .ood => "ood")
  | "convert.tree", [tab, src] =>
    some (match Pipeline.tree { tab := decNat tab } (decStr src) with
          | none => "oof"
          | some none => "err"
          | some (some (t, html)) => "ok " ++ encNode t ++ "|" ++ encList html)
  | "convert.prepare", [tab, src] => some (encStr (Pipeline.prepare { tab := decNat tab } (decStr src)))
  | _, _ => none

end Driver
