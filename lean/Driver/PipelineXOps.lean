/-
Driver op of the end-to-end model with extensions (`MdVerif/Model/PipelineX.lean`):

`convertx <flags> <tab> <html|xhtml> <src>` → `ok <str>` | `oof` | `err` | `ood`

`<flags>`: eleven characters `0`/`1` in the order fenced_code, tables, admonition, def_list, abbr, footnotes,
sane_lists, nl2br, wikilinks, attr_list, toc.
-/
import MdVerif.Model.PipelineX
import Driver.TreeCodec

namespace Driver
open MdVerif

def decExts (f : String) : PipelineX.Exts :=
  let l := f.toList
  let flag (i : Nat) : Bool := l[i]? == some '1'
  { fencedCode := flag 0, tables := flag 1, admonition := flag 2, defList := flag 3, abbr := flag 4,
    footnotes := flag 5, saneLists := flag 6, nl2br := flag 7, wikilinks := flag 8, attrList := flag 9, toc := flag 10 }

def pipelineXHandler : Handler := fun op args =>
  match op, args with
  | "convertx", [flags, tab, fmt, src] =>
    let cfg : Pipeline.Cfg := { tab := decNat tab, fmt := if fmt == "html" then .html else .xhtml }
    some (match PipelineX.convertX (decExts flags) cfg (decStr src) with
          | .ok s => "ok " ++ encStr s
          | .oof => "oof" | .err => "err" | .ood => "ood")
  | "convertx.tree", [flags, tab, src] =>
    some (match PipelineX.treeX (decExts flags) { tab := decNat tab } (decStr src) with
          | .oof => "oof" | .err => "err" | .ood => "ood"
          | .ok t html => "ok " ++ encNode t ++ "|" ++ encList html)
  | _, _ => none

end Driver
