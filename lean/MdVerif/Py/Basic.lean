/-
Shims of the Python `str` primitives used by the modelled code.  Strings are `List Char`.
Everything is structurally recursive (or recursive on explicit fuel) so that the kernel can evaluate it.
Character classes that depend on the Unicode database come from `MdVerif.Generated.Chars`
(regenerated from the running CPython by `harness/translate.py`); ASCII is decided directly.
-/
import MdVerif.Generated.Chars

namespace MdVerif
abbrev Str := List Char

namespace Py

/-! ### character classes -/

def inRanges (rs : List (Nat × Nat)) (n : Nat) : Bool := rs.any (fun r => r.1 ≤ n && n ≤ r.2)

/-- `str.isspace()` for one character = `\s` of `re` on `str` patterns (checked equal by the translator) -/
def isSpace (c : Char) : Bool :=
  if c.toNat < 128 then
    c = ' ' || c = '\n' || c = '\t' || c = '\r' || c.toNat = 11 || c.toNat = 12 ||
    (28 ≤ c.toNat && c.toNat ≤ 31)
  else Generated.Chars.spaceNonAscii.contains c.toNat

def isAsciiDigit (c : Char) : Bool := '0' ≤ c && c ≤ '9'
def isAsciiLower (c : Char) : Bool := 'a' ≤ c && c ≤ 'z'
def isAsciiUpper (c : Char) : Bool := 'A' ≤ c && c ≤ 'Z'
def isAsciiAlpha (c : Char) : Bool := isAsciiLower c || isAsciiUpper c
def isAsciiAlnum (c : Char) : Bool := isAsciiAlpha c || isAsciiDigit c
def isHexDigit (c : Char) : Bool := isAsciiDigit c || ('a' ≤ c && c ≤ 'f') || ('A' ≤ c && c ≤ 'F')

/-- `\d` of `re` on `str` patterns = `str.isdecimal()` -/
def isDecimal (c : Char) : Bool :=
  if c.toNat < 128 then isAsciiDigit c else inRanges Generated.Chars.decimalNonAscii c.toNat

/-- `\w` of `re` on `str` patterns = `str.isalnum()` or `_` -/
def isWord (c : Char) : Bool :=
  if c.toNat < 128 then isAsciiAlnum c || c = '_' else inRanges Generated.Chars.wordNonAscii c.toNat

/-- value of a decimal digit character (any script): `int()` accepts all of `\d` -/
def decimalValue (c : Char) : Nat :=
  if c.toNat < 128 then c.toNat - 48
  else match Generated.Chars.decimalNonAscii.find? (fun r => r.1 ≤ c.toNat && c.toNat ≤ r.2) with
       | some r => (c.toNat - r.1) % 10
       | none => 0

/-- `str.lower()` of a single character outside the final-sigma rule (U+03A3 is outside the model's domain) -/
def lowerChar (c : Char) : Str :=
  if c.toNat < 128 then (if isAsciiUpper c then [Char.ofNat (c.toNat + 32)] else [c])
  else match Generated.Chars.lowerNonAscii.find? (fun p => p.1 = c.toNat) with
       | some p => p.2.map Char.ofNat
       | none => [c]

def lower (s : Str) : Str := s.flatMap lowerChar

/-! ### prefixes, search, replace -/

def startsWith : Str → Str → Bool
  | _, [] => true
  | [], _ :: _ => false
  | c :: s, p :: ps => c = p && startsWith s ps

def endsWith (s p : Str) : Bool := startsWith s.reverse p.reverse

/-- `s.find(pat)` on the suffix `s`: offset of the first occurrence -/
def find (pat : Str) : Str → Option Nat
  | [] => if pat.isEmpty then some 0 else none
  | c :: s => if startsWith (c :: s) pat then some 0 else (find pat s).map (· + 1)

def contains (s pat : Str) : Bool := (find pat s).isSome

/-- `s.replace(pat, by)` for non-empty `pat` (left to right, non-overlapping); `skip` = characters of the current
    match still to drop -/
def replaceAux (pat by' : Str) : Nat → Str → Str
  | _, [] => []
  | k + 1, _ :: s => replaceAux pat by' k s
  | 0, c :: s =>
    if startsWith (c :: s) pat then by' ++ replaceAux pat by' (pat.length - 1) s
    else c :: replaceAux pat by' 0 s

def replace (s pat by' : Str) : Str := if pat.isEmpty then s else replaceAux pat by' 0 s

/-- number of leading `ch`, at most `limit` when given -/
def countPrefix (ch : Char) : Option Nat → Str → Nat
  | some 0, _ => 0
  | _, [] => 0
  | lim, c :: s => if c = ch then countPrefix ch (lim.map (· - 1)) s + 1 else 0

def spanLen (p : Char → Bool) : Str → Nat
  | [] => 0
  | c :: r => if p c then spanLen p r + 1 else 0

/-! ### strip family -/

def lstripP (p : Char → Bool) : Str → Str
  | [] => []
  | c :: s => if p c then lstripP p s else c :: s

def rstripP (p : Char → Bool) (s : Str) : Str := (lstripP p s.reverse).reverse
def stripP (p : Char → Bool) (s : Str) : Str := rstripP p (lstripP p s)

def lstrip (s : Str) : Str := lstripP isSpace s
def rstrip (s : Str) : Str := rstripP isSpace s
def strip (s : Str) : Str := stripP isSpace s
def lstripC (ch : Char) (s : Str) : Str := lstripP (· = ch) s
def rstripC (ch : Char) (s : Str) : Str := rstripP (· = ch) s
def stripC (ch : Char) (s : Str) : Str := stripP (· = ch) s

/-- `not s.strip()` -/
def isBlank (s : Str) : Bool := s.all isSpace

/-! ### split / join -/

/-- `s.split(ch)`: always at least one piece -/
def splitC (ch : Char) : Str → List Str
  | [] => [[]]
  | c :: s =>
    match splitC ch s with
    | [] => [[]]            -- unreachable
    | p :: ps => if c = ch then [] :: p :: ps else (c :: p) :: ps

def lines (s : Str) : List Str := splitC '\n' s

/-- `s.split(sep)` for a non-empty separator -/
def splitAux (sep : Str) : Nat → Str → List Str
  | _, [] => [[]]
  | k + 1, _ :: s => splitAux sep k s
  | 0, c :: s =>
    if startsWith (c :: s) sep then [] :: splitAux sep (sep.length - 1) s
    else match splitAux sep 0 s with
         | [] => [[c]]      -- unreachable
         | p :: ps => (c :: p) :: ps

def splitS (sep s : Str) : List Str := splitAux sep 0 s

def join (sep : Str) : List Str → Str
  | [] => []
  | [a] => a
  | a :: b :: r => a ++ sep ++ join sep (b :: r)

def joinLines (l : List Str) : Str := join ['\n'] l

/-! ### numbers -/

def digitChar (n : Nat) : Char := Char.ofNat (48 + n % 10)

def natToDecAux : Nat → Nat → Str → Str
  | 0, _, acc => acc
  | f + 1, n, acc => if n < 10 then digitChar n :: acc else natToDecAux f (n / 10) (digitChar n :: acc)

/-- `str(n)` -/
def natToDec (n : Nat) : Str := natToDecAux (n + 1) n []

/-- `'%04d' % n` -/
def pad4 (n : Nat) : Str :=
  let d := natToDec n
  List.replicate (4 - d.length) '0' ++ d

/-- `int(s)` for a string of `\d` characters -/
def decToNat (s : Str) : Nat := s.foldl (fun acc c => acc * 10 + decimalValue c) 0

/-! ### expandtabs -/

def expandtabsAux (tab : Nat) : Nat → Str → Str
  | _, [] => []
  | col, c :: s =>
    if c = '\t' then
      if tab > 0 then
        let k := tab - col % tab
        List.replicate k ' ' ++ expandtabsAux tab (col + k) s
      else expandtabsAux tab col s
    else if c = '\n' || c = '\r' then c :: expandtabsAux tab 0 s
    else c :: expandtabsAux tab (col + 1) s

/-- `str.expandtabs(tab)` -/
def expandtabs (tab : Nat) (s : Str) : Str := expandtabsAux tab 0 s

end Py
end MdVerif
