/-
`DecidableEq (Except ε α)`: core Lean does not provide it; the models answer `Except Err _` and the property files
decide equalities between such answers.
-/
namespace MdVerif

instance instDecidableEqExcept {ε α : Type} [DecidableEq ε] [DecidableEq α] : DecidableEq (Except ε α)
  | .ok a, .ok b => if h : a = b then isTrue (by rw [h]) else isFalse (fun e => h (by injection e))
  | .error a, .error b => if h : a = b then isTrue (by rw [h]) else isFalse (fun e => h (by injection e))
  | .ok _, .error _ => isFalse (fun e => by injection e)
  | .error _, .ok _ => isFalse (fun e => by injection e)

end MdVerif
