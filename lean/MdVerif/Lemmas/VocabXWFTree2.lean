/-
Lemmas for C05 on the extension model (`PipelineX.treeX`), well-formedness part 3b: the producer side of the
strengthened invariant `PLF'` of `Lemmas/VocabXWFInline2.lean` (an element with an `id` attribute has no truthy text,
and its last child, if any, is not void and has no truthy tail) — the footnote `div` (`FootnotesTree.makeDiv`) and its
placement (`FootnotesTree.placeDiv`) — the analogues of `makeDiv_PLF`, `placeDiv_PLF` of `Lemmas/VocabXWFTree.lean`.

The footnote `li` is `{ el "li" with attrs := [("id", …)], children := sur.children }`: its text is `none`, and
`addBacklink` changes the text of its last child `p`, not of the `li`; `div.footnote`, `hr`, `ol`, the fresh `p` and
`a.footnote-backref` have no `id`.

This file does not import `Lemmas/VocabXWFTree.lean` (its helper `hasId_setAttr` has the same name as the one of
`Lemmas/VocabXWFInline2.lean`; nothing of it is needed here); every name below is fresh in both.

Core Lean only.
-/
import MdVerif.Lemmas.VocabXWFInline2
import MdVerif.Lemmas.VocabXTree

namespace MdVerif.VocabXWF
open Py FootnotesTree
open BlockExt (NI NI_iff)

/-! ### trees without `id` -/

theorem noId_hasId' {n : Node} (h : NI noIdQ n) : hasId n = false := by
  have := ((NI_iff n).1 h).1
  simpa [noIdQ, hasId] using this

mutual
theorem PLF'_of_noId_aux : ∀ (n : Node), NI noIdQ n → PLF' n
  | ⟨tag, attrs, text, ta, children, tail, tla⟩, h => by
    have hid := noId_hasId' h
    rw [NI_iff] at h
    exact PLF'_noId hid (PLF'_of_noIdL children h.2)
theorem PLF'_of_noIdL : ∀ (l : List Node), (∀ c ∈ l, NI noIdQ c) → ∀ c ∈ l, PLF' c
  | [], _, c, hc => by cases hc
  | a :: r, h, x, hx => by
    rcases List.mem_cons.1 hx with e | hx
    · rw [e]; exact PLF'_of_noId_aux a (h _ List.mem_cons_self)
    · exact PLF'_of_noIdL r (fun y hy => h y (List.mem_cons_of_mem _ hy)) x hx
end

/-- no element has an `id`: `PLF'` holds vacuously -/
theorem PLF'_of_noId {n : Node} (h : NI noIdQ n) : PLF' n := PLF'_of_noId_aux n h

theorem PLF'_cons {a : Node} {l : List Node} (ha : PLF' a) (hl : ∀ x ∈ l, PLF' x) : ∀ x ∈ a :: l, PLF' x := by
  intro x hx
  rcases List.mem_cons.1 hx with rfl | hx
  · exact ha
  · exact hl x hx

theorem last?_setLast' (p c : Node) : (p.setLast c).last? = some c := by
  simp [Node.setLast, Node.last?]

theorem last?_append' (p c : Node) : (p.append c).last? = some c := by
  simp [Node.append, Node.last?]

/-! ### `makeFootnotesDiv` -/

theorem PLF'_backlink (id : Str) (index : Nat) : PLF' (backlink id index) :=
  PLF'_noId rfl (by intro c hc; cases hc)

/-- the `li` of a footnote after `addBacklink`: it has no truthy text; no element of the parsed text has an `id` and
    no child of the surrogate has a truthy tail -/
theorem addBacklink_PLF' {li bl li' : Node} (ht : Node.truthy li.text = false)
    (hk : ∀ c ∈ li.children, NI noIdQ c ∧ Node.truthy c.tail = false)
    (hbl : PLF' bl) (h : addBacklink li bl = some li') : PLF' li' := by
  have hkP : ∀ c ∈ li.children, PLF' c := fun c hc => PLF'_of_noId (hk c hc).1
  unfold addBacklink at h
  split at h
  · rename_i hlast
    simp only [Option.some.injEq] at h; subst h
    rw [PLF'_iff]
    refine ⟨fun _ => ⟨ht, ?_⟩, hkP⟩
    intro l hl; rw [hlast] at hl; cases hl
  · rename_i node hlast
    have hmem : node ∈ li.children := List.mem_of_getLast? hlast
    split at h
    · rename_i hp
      split at h
      · simp only [Option.some.injEq] at h; subst h
        rw [PLF'_iff]
        constructor
        · intro _
          refine ⟨ht, ?_⟩
          intro l hl
          rw [last?_setLast'] at hl
          simp only [Option.some.injEq] at hl; subst hl
          exact ⟨voidT_isTag hp (by decide), (hk node hmem).2⟩
        · intro c hc
          simp only [Node.setLast, List.mem_append, List.mem_singleton] at hc
          rcases hc with hc | rfl
          · exact hkP c ((List.dropLast_prefix _).subset hc)
          · refine PLF'_noId (noId_hasId' (n := node) (hk node hmem).1) ?_
            intro c hc
            simp only [List.mem_append, List.mem_singleton] at hc
            rcases hc with hc | rfl
            · exact (hkP node hmem).kids c hc
            · exact hbl
      · cases h
    · simp only [Option.some.injEq] at h; subst h
      rw [PLF'_iff]
      constructor
      · intro _
        refine ⟨ht, ?_⟩
        intro l hl
        rw [last?_append'] at hl
        simp only [Option.some.injEq] at hl; subst hl
        exact ⟨rfl, rfl⟩
      · intro c hc
        simp only [Node.append, List.mem_append, List.mem_singleton] at hc
        rcases hc with hc | rfl
        · exact hkP c hc
        · refine PLF'_noId rfl ?_
          intro c hc
          simp only [List.mem_singleton] at hc
          subst hc; exact hbl

theorem makeLis_PLF' {parse : Block.Refs → Str → Option (Node × Block.Refs)}
    (hparse : ∀ l t s l', parse l t = some (s, l') → ∀ c ∈ s.children, Node.truthy c.tail = false)
    (hnoid : ∀ l t s l', parse l t = some (s, l') → NI noIdQ s) (fnCount : Block.Refs → Nat) :
    ∀ (l : List (Str × Str)) (index : Nat) (log : Block.Refs) (lis : List Node) (log' : Block.Refs),
      makeLis parse fnCount l index log = .ok (lis, log') → ∀ c ∈ lis, PLF' c := by
  intro l
  induction l with
  | nil =>
    intro index log lis log' h
    simp only [makeLis, R.ok.injEq, Prod.mk.injEq] at h
    obtain ⟨rfl, _⟩ := h; intro c hc; cases hc
  | cons x rest ih =>
    intro index log lis log' h
    obtain ⟨id, text⟩ := x
    simp only [makeLis] at h
    split at h
    · cases h
    · rename_i sur log1 hp
      split at h
      · cases h
      · split at h
        · cases h
        · rename_i li' hli'
          split at h
          · rename_i lis0 log2 hrest
            simp only [R.ok.injEq, Prod.mk.injEq] at h
            obtain ⟨rfl, _⟩ := h
            refine PLF'_cons ?_ (ih _ _ _ _ hrest)
            refine addBacklink_PLF' rfl ?_ (PLF'_backlink id index) hli'
            intro c hc
            exact ⟨((NI_iff sur).1 (hnoid _ _ _ _ hp)).2 c hc, hparse _ _ _ _ hp c hc⟩
          · cases h
          · cases h

/-- **`makeFootnotesDiv`** satisfies `PLF'`: the only elements with an `id` are the `li`s; they have no text, and
    their last child (if any) is, after `addBacklink`, the last `p` of the footnote text (tail falsy by `hparse`) or
    a fresh `p` -/
theorem makeDiv_PLF' {parse : Block.Refs → Str → Option (Node × Block.Refs)} {fnCount : Block.Refs → Nat}
    (hparse : ∀ l t s l', parse l t = some (s, l') → ∀ c ∈ s.children, Node.truthy c.tail = false)
    (hnoid : ∀ l t s l', parse l t = some (s, l') → BlockExt.NI noIdQ s)
    (fns : List (Str × Str)) (log : Block.Refs) {div : Node} {log' : Block.Refs}
    (h : FootnotesTree.makeDiv parse fnCount fns log = .ok (some div, log')) : PLF' div := by
  unfold makeDiv at h
  split at h
  · cases h
  · split at h
    · rename_i lis log1 hl
      simp only [R.ok.injEq, Prod.mk.injEq, Option.some.injEq] at h
      obtain ⟨rfl, _⟩ := h
      refine PLF'_noId rfl ?_
      intro c hc
      simp only [List.mem_cons, List.not_mem_nil, or_false] at hc
      rcases hc with rfl | rfl
      · exact PLF'_noId rfl (by intro c hc; cases hc)
      · exact PLF'_noId rfl (makeLis_PLF' hparse hnoid fnCount _ _ _ _ _ hl)
    · cases h
    · cases h

/-! ### the place marker -/

mutual
theorem placeNode_PLF' {div : Node} (hd : PLF' div) : (n n' : Node) → placeNode div n = some n' → NI noIdQ n →
    PLF' n'
  | ⟨tag, attrs, text, ta, children, tail, tla⟩, n', h, hn => by
    simp only [placeNode] at h
    split at h
    · rename_i ks hk
      simp only [Option.some.injEq] at h; subst h
      have hid := noId_hasId' hn
      rw [NI_iff] at hn
      exact PLF'_noId hid (placeKids_PLF' hd children ks hk hn.2)
    · cases h
theorem placeKids_PLF' {div : Node} (hd : PLF' div) : (l l' : List Node) → placeKids div l = some l' →
    (∀ c ∈ l, NI noIdQ c) → ∀ c ∈ l', PLF' c
  | [], l', h, _ => by simp [placeKids] at h
  | c :: r, l', h, hl => by
    have hc := hl c List.mem_cons_self
    have hr : ∀ x ∈ r, PLF' x := fun x hx => PLF'_of_noId (hl x (List.mem_cons_of_mem _ hx))
    simp only [placeKids] at h
    split at h
    · simp only [Option.some.injEq] at h; subst h
      exact PLF'_cons hd hr
    · split at h
      · simp only [Option.some.injEq] at h; subst h
        refine PLF'_cons ?_ (PLF'_cons hd hr)
        exact PLF'_of_noId (BlockExt.NI_fields hc c.text c.textAtomic none false)
      · split at h
        · rename_i c' hc'
          simp only [Option.some.injEq] at h; subst h
          exact PLF'_cons (placeNode_PLF' hd c c' hc' hc) hr
        · split at h
          · rename_i r' hr'
            simp only [Option.some.injEq] at h; subst h
            exact PLF'_cons (PLF'_of_noId hc)
              (placeKids_PLF' hd r r' hr' (fun x hx => hl x (List.mem_cons_of_mem _ hx)))
          · cases h
end

/-- **`FootnoteTreeprocessor.run`** given the `div`: no element of the root has an `id` -/
theorem placeDiv_PLF' {root div : Node} (hr : BlockExt.NI noIdQ root) (hd : PLF' div) :
    PLF' (FootnotesTree.placeDiv root div) := by
  unfold placeDiv
  split
  · rename_i r hp; exact placeNode_PLF' hd root r hp hr
  · refine PLF'_noId (noId_hasId' (n := root) hr) ?_
    intro c hc
    simp only [Node.append, List.mem_append, List.mem_singleton] at hc
    rcases hc with hc | rfl
    · exact PLF'_of_noId (((NI_iff root).1 hr).2 c hc)
    · exact hd

end MdVerif.VocabXWF
