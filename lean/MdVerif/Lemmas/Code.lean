/-
Helper lemmas for C03 (code escaping, fenced blocks).  Core Lean only.
-/
import MdVerif.Model.Code
import MdVerif.Spec.Reader

namespace MdVerif.Code
open Py

/-! ### `str.replace` of a one-character pattern is a `flatMap` -/

def sub1 (a : Char) (b : Str) (c : Char) : Str := if c = a then b else [c]

theorem replaceAux_single (a : Char) (b s : Str) :
    replaceAux [a] b 0 s = s.flatMap (sub1 a b) := by
  induction s with
  | nil => rfl
  | cons c r ih =>
    by_cases h : c = a
    · simp [replaceAux, startsWith, sub1, h, ih]
    · simp [replaceAux, startsWith, sub1, h, ih]

theorem replace_single (a : Char) (b s : Str) : replace s [a] b = s.flatMap (sub1 a b) := by
  simp [replace, replaceAux_single]

theorem codeEscape1_eq_flatMap (s : Str) : codeEscape1 s = s.flatMap esc1Char := by
  induction s with
  | nil => rfl
  | cons c r ih => simp [codeEscape1, ih]

theorem fenceEscape1_eq_flatMap (s : Str) : fenceEscape1 s = s.flatMap fesc1Char := by
  induction s with
  | nil => rfl
  | cons c r ih => simp [fenceEscape1, ih]

theorem esc1Char_passes (c : Char) :
    ((sub1 '&' "&amp;".toList c).flatMap (sub1 '<' "&lt;".toList)).flatMap (sub1 '>' "&gt;".toList) = esc1Char c := by
  by_cases h1 : c = '&'
  · subst h1; decide
  · by_cases h2 : c = '<'
    · subst h2; decide
    · by_cases h3 : c = '>'
      · subst h3; decide
      · simp [sub1, esc1Char, h1, h2, h3]

theorem codeEscape_onepass (s : Str) : codeEscape s = codeEscape1 s := by
  simp only [codeEscape, replace_single, codeEscape1_eq_flatMap, List.flatMap_assoc]
  congr 1
  funext c
  simp only [← List.flatMap_assoc]
  exact esc1Char_passes c

theorem fesc1Char_passes (c : Char) :
    (((sub1 '&' "&amp;".toList c).flatMap (sub1 '<' "&lt;".toList)).flatMap (sub1 '>' "&gt;".toList)).flatMap
      (sub1 '"' "&quot;".toList) = fesc1Char c := by
  by_cases h1 : c = '&'
  · subst h1; decide
  · by_cases h2 : c = '<'
    · subst h2; decide
    · by_cases h3 : c = '>'
      · subst h3; decide
      · by_cases h4 : c = '"'
        · subst h4; decide
        · simp [sub1, fesc1Char, h1, h2, h3, h4]

theorem fenceEscape_onepass (s : Str) : fenceEscape s = fenceEscape1 s := by
  simp only [fenceEscape, replace_single, fenceEscape1_eq_flatMap, List.flatMap_assoc]
  congr 1
  funext c
  simp only [← List.flatMap_assoc]
  exact fesc1Char_passes c


/-! ### the escaped text against the serializer and the readers -/

open Ser

theorem flatMap_sub1_id (a : Char) (b s : Str) (h : ∀ c ∈ s, c ≠ a) : s.flatMap (sub1 a b) = s := by
  induction s with
  | nil => rfl
  | cons c r ih =>
    have hc : c ≠ a := h c (by simp)
    have hr : ∀ c ∈ r, c ≠ a := fun c hc => h c (by simp [hc])
    simp [sub1, hc, ih hr]

theorem mem_codeEscape1 (s : Str) : ∀ c ∈ codeEscape1 s, c ≠ '<' ∧ c ≠ '>' := by
  induction s with
  | nil => simp [codeEscape1]
  | cons d r ih =>
    intro c hc
    simp only [codeEscape1, List.mem_append] at hc
    rcases hc with hc | hc
    · unfold esc1Char at hc
      split at hc
      · revert c; decide
      · split at hc
        · revert c; decide
        · split at hc
          · revert c; decide
          · simp at hc; subst hc; exact ⟨by assumption, by assumption⟩
    · exact ih c hc

theorem ampSub_amp (t : Str) : ampSub ("&amp;".toList ++ t) = "&amp;".toList ++ ampSub t := by
  simp [ampSub, entLen, runSemi, spanLen, isAlnumI, isDig]

theorem ampSub_lt (t : Str) : ampSub ("&lt;".toList ++ t) = "&lt;".toList ++ ampSub t := by
  simp [ampSub, entLen, runSemi, spanLen, isAlnumI, isDig]

theorem ampSub_gt (t : Str) : ampSub ("&gt;".toList ++ t) = "&gt;".toList ++ ampSub t := by
  simp [ampSub, entLen, runSemi, spanLen, isAlnumI, isDig]

theorem ampSub_codeEscape1 (s : Str) : ampSub (codeEscape1 s) = codeEscape1 s := by
  induction s with
  | nil => rfl
  | cons c r ih =>
    simp only [codeEscape1, esc1Char]
    split
    · rw [ampSub_amp, ih]
    · split
      · rw [ampSub_lt, ih]
      · split
        · rw [ampSub_gt, ih]
        · rename_i h _ _
          simp [ampSub, h, ih]

theorem escCdata_codeEscape1 (s : Str) : escCdata (codeEscape1 s) = codeEscape1 s := by
  unfold escCdata
  rw [ampSub_codeEscape1, replace_single, replace_single,
    flatMap_sub1_id _ _ _ (fun c hc => (mem_codeEscape1 s c hc).1),
    flatMap_sub1_id _ _ _ (fun c hc => (mem_codeEscape1 s c hc).2)]

theorem lenient_amp (t : Str) : lenient cdata 0 ("&amp;".toList ++ t) = Tok.ch '&' :: lenient cdata 0 t := by
  simp [lenient, entLen, runSemi, spanLen, isAlnumI, isDig, tokOf]

theorem lenient_lt (t : Str) : lenient cdata 0 ("&lt;".toList ++ t) = Tok.ch '<' :: lenient cdata 0 t := by
  simp [lenient, entLen, runSemi, spanLen, isAlnumI, isDig, tokOf]

theorem lenient_gt (t : Str) : lenient cdata 0 ("&gt;".toList ++ t) = Tok.ch '>' :: lenient cdata 0 t := by
  simp [lenient, entLen, runSemi, spanLen, isAlnumI, isDig, tokOf]

theorem lenient_codeEscape1 (s : Str) : lenient cdata 0 (codeEscape1 s) = s.map Tok.ch := by
  induction s with
  | nil => rfl
  | cons c r ih =>
    simp only [codeEscape1, esc1Char]
    split
    · rename_i h; rw [lenient_amp, ih, h]; rfl
    · split
      · rename_i h; rw [lenient_lt, ih, h]; rfl
      · split
        · rename_i h; rw [lenient_gt, ih, h]; rfl
        · rename_i h _ _
          simp [lenient, h, ih]

theorem strict_amp (t : Str) : strict cdata 0 ("&amp;".toList ++ t) = (strict cdata 0 t).map (Tok.ch '&' :: ·) := by
  simp [strict, entLen, runSemi, spanLen, isAlnumI, isDig, tokOf]

theorem strict_lt (t : Str) : strict cdata 0 ("&lt;".toList ++ t) = (strict cdata 0 t).map (Tok.ch '<' :: ·) := by
  simp [strict, entLen, runSemi, spanLen, isAlnumI, isDig, tokOf]

theorem strict_gt (t : Str) : strict cdata 0 ("&gt;".toList ++ t) = (strict cdata 0 t).map (Tok.ch '>' :: ·) := by
  simp [strict, entLen, runSemi, spanLen, isAlnumI, isDig, tokOf]

theorem strict_codeEscape1 (s : Str) : strict cdata 0 (codeEscape1 s) = some (s.map Tok.ch) := by
  induction s with
  | nil => rfl
  | cons c r ih =>
    simp only [codeEscape1, esc1Char]
    split
    · rename_i h; rw [strict_amp, ih, h]; rfl
    · split
      · rename_i h; rw [strict_lt, ih, h]; rfl
      · split
        · rename_i h; rw [strict_gt, ih, h]; rfl
        · rename_i h1 h2 h3
          have hq : cdata.quot = false := rfl
          simp [strict, h1, h2, h3, ih, hq]

theorem split_no_amp (e R pre1 post : Str) (hne : ∀ x ∈ e, x ≠ '&') (he : e ++ R = pre1 ++ '&' :: post) :
    ∃ pre', R = pre' ++ '&' :: post := by
  induction e generalizing pre1 with
  | nil => exact ⟨pre1, by simpa using he⟩
  | cons x e ihe =>
    cases pre1 with
    | nil => simp at he; exact absurd he.1 (hne x (by simp))
    | cons q pre2 =>
      simp only [List.cons_append, List.cons.injEq] at he
      exact ihe pre2 (fun y hy => hne y (by simp [hy])) he.2

/-- every `&` of the output starts one of the three entity references -/
theorem amp_followed (s pre post : Str) (h : codeEscape1 s = pre ++ '&' :: post) :
    "amp;".toList <+: post ∨ "lt;".toList <+: post ∨ "gt;".toList <+: post := by
  induction s generalizing pre with
  | nil => simp [codeEscape1] at h
  | cons c r ih =>
    simp only [codeEscape1, esc1Char] at h
    have key : ∀ (e : Str) (hne : ∀ x ∈ e, x ≠ '&'),
        ('&' :: (e ++ codeEscape1 r)) = pre ++ '&' :: post →
        (e <+: post) ∨ ∃ pre', codeEscape1 r = pre' ++ '&' :: post := by
      intro e hne he
      cases pre with
      | nil =>
        simp at he; left; exact ⟨codeEscape1 r, he⟩
      | cons p pre1 =>
        simp only [List.cons_append, List.cons.injEq] at he
        obtain ⟨_, he⟩ := he
        -- e ++ R = pre1 ++ '&' :: post, and e has no '&'
        right
        exact split_no_amp e _ pre1 post hne he
    split at h
    · rcases key "amp;".toList (by decide) (by simpa using h) with h1 | ⟨p', h1⟩
      · exact Or.inl h1
      · exact ih p' h1
    · split at h
      · rcases key "lt;".toList (by decide) (by simpa using h) with h1 | ⟨p', h1⟩
        · exact Or.inr (Or.inl h1)
        · exact ih p' h1
      · split at h
        · rcases key "gt;".toList (by decide) (by simpa using h) with h1 | ⟨p', h1⟩
          · exact Or.inr (Or.inr h1)
          · exact ih p' h1
        · rename_i h1 _ _
          cases pre with
          | nil => simp at h; exact absurd h.1 h1
          | cons q pre2 =>
            simp only [List.cons_append, List.cons.injEq] at h
            exact ih pre2 h.2

/-! ### the fenced-code escaping read back (a reader that also knows `&quot;`) -/

theorem lenientA_amp (t : Str) : lenient attr 0 ("&amp;".toList ++ t) = Tok.ch '&' :: lenient attr 0 t := by
  simp [lenient, entLen, runSemi, spanLen, isAlnumI, isDig, tokOf]

theorem lenientA_lt (t : Str) : lenient attr 0 ("&lt;".toList ++ t) = Tok.ch '<' :: lenient attr 0 t := by
  simp [lenient, entLen, runSemi, spanLen, isAlnumI, isDig, tokOf]

theorem lenientA_gt (t : Str) : lenient attr 0 ("&gt;".toList ++ t) = Tok.ch '>' :: lenient attr 0 t := by
  simp [lenient, entLen, runSemi, spanLen, isAlnumI, isDig, tokOf]

theorem lenientA_quot (t : Str) : lenient attr 0 ("&quot;".toList ++ t) = Tok.ch '"' :: lenient attr 0 t := by
  simp [lenient, entLen, runSemi, spanLen, isAlnumI, isDig, tokOf, attr]

theorem lenient_fenceEscape1 (s : Str) : lenient attr 0 (fenceEscape1 s) = s.map Tok.ch := by
  induction s with
  | nil => rfl
  | cons c r ih =>
    simp only [fenceEscape1, fesc1Char]
    split
    · rename_i h; rw [lenientA_amp, ih, h]; rfl
    · split
      · rename_i h; rw [lenientA_lt, ih, h]; rfl
      · split
        · rename_i h; rw [lenientA_gt, ih, h]; rfl
        · split
          · rename_i h; rw [lenientA_quot, ih, h]; rfl
          · rename_i h _ _ _
            simp [lenient, h, ih]

theorem mem_fenceEscape1 (s : Str) : ∀ c ∈ fenceEscape1 s, c ≠ '<' ∧ c ≠ '>' ∧ c ≠ '"' := by
  induction s with
  | nil => simp [fenceEscape1]
  | cons d r ih =>
    intro c hc
    simp only [fenceEscape1, List.mem_append] at hc
    rcases hc with hc | hc
    · unfold fesc1Char at hc
      split at hc
      · revert c; decide
      · split at hc
        · revert c; decide
        · split at hc
          · revert c; decide
          · split at hc
            · revert c; decide
            · simp at hc; subst hc; exact ⟨by assumption, by assumption, by assumption⟩
    · exact ih c hc

theorem tokch_injective (s t : Str) (h : s.map Tok.ch = t.map Tok.ch) : s = t := by
  induction s generalizing t with
  | nil => cases t <;> simp_all
  | cons c r ih =>
    cases t with
    | nil => simp at h
    | cons d u =>
      simp only [List.map_cons, List.cons.injEq, Tok.ch.injEq] at h
      rw [h.1, ih u h.2]

end MdVerif.Code
