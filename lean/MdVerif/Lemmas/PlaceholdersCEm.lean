/-
C10c: copy of `Lemmas/PlaceholdersBEm.lean` with the invariant `Adj3` (no `](`, no `![`) replaced by `AdjC true` (simple regions
behind `](` and `![`, `Spec/NoCtlC.lean`).  Declarations that do not depend on the invariant are imported from the
original file.  Core Lean only.
-/
import MdVerif.Lemmas.PlaceholdersBEm
import MdVerif.Lemmas.PlaceholdersCAdj
import MdVerif.Lemmas.PlaceholdersCHI

namespace MdVerif.NoCtl
open Py Inline

/-! ### more about the shape of a match -/

/-- a text in which the backtick pattern is done -/
def GrpOKC (k : Nat) (g : Str) : Prop := WF true k g ∧ DomB g ∧ (AdjC true) g ∧ BtDone g

theorem grpOK_nilC (k : Nat) : GrpOKC k [] := ⟨.nil, domB_nil, (adjC_nil true), btDone_nil⟩

/-- a piece of a good text that ends before a non-backtick (or at the end) -/
theorem GrpOKC.cut {k : Nat} {X S Y : Str} (h : GrpOKC k (X ++ S ++ Y)) (hw : WF true k S)
    (hY : Y.head? ≠ some '`') : GrpOKC k S :=
  ⟨hw, h.2.1.subset (fun c hc => by simp [hc]), h.2.2.1.infix ⟨X, Y, rfl⟩, btDone_cut h.2.2.1.1 h.2.2.2 hY⟩

/-- what a successful `pattern.match(data, pos)` gives on a good text -/
theorem seqMatch_specC {k : Nat} {c : Char} (hc : DelimB c) {steps : List Step}
    (hs1 : nextIsLit steps = true) (hs2 : GoodSteps steps = true) (hs3 : endsWithC steps false = true)
    {data : Str} {pos e : Nat} {groups : List Str} (h : seqMatch data pos c steps = some (e, groups)) :
    pos ≤ e ∧ e ≤ data.length ∧ (∃ t, data.drop pos = c :: t) ∧
    (∃ M, M ≠ [] ∧ data.drop pos = M ++ data.drop e ∧ M.head? = some c ∧ M.getLast? = some c ∧
      M.length = e - pos) ∧
    (GrpOKC k data → WF true k (data.drop pos) → (∀ g ∈ groups, GrpOKC k g) ∧ WF true k (data.drop e)) := by
  obtain ⟨m1, m2, m3, m4, m5⟩ := seqMatch_spec (esc := true) (k := k) hc.1 hs1 hs2 h
  unfold seqMatch at h
  split at h
  · cases h
  · rename_i hpos
    obtain ⟨gs', rest, h1, h2, h3⟩ := seqGo_spec c _ _ _ _ _ _ _ h
    simp only [List.reverse_nil, List.nil_append] at h1
    subst h1
    obtain ⟨p, hp, hp1, hp2⟩ := seqDecomp_last (acc := false) h2 hs3
    have hpne : p ≠ [] := fun e => Bool.noConfusion (hp1 e)
    have hlen := congrArg List.length hp
    simp only [List.length_drop, List.length_append] at hlen h3
    have he : e = pos + p.length := by omega
    have hrest : data.drop e = rest := by rw [he, ← List.drop_drop, hp, List.drop_left]
    obtain ⟨t, ht⟩ := m3
    refine ⟨m1, m2, ⟨t, ht⟩, ⟨p, hpne, by rw [hrest]; exact hp, ?_, hp2 hpne, by omega⟩, ?_⟩
    · rw [ht] at hp
      cases p with
      | nil => exact absurd rfl hpne
      | cons x r => simp only [List.cons_append, List.cons.injEq] at hp; simp [hp.1]
    · intro hg hw
      obtain ⟨g1, g2⟩ := m4 hw
      refine ⟨?_, g2⟩
      intro g hgm
      obtain ⟨X, t', hX⟩ := seqDecomp_cut h2 hs2 g hgm
      have hdata : data = (data.take pos ++ X) ++ g ++ (c :: t') := by
        rw [List.append_assoc, List.append_assoc, ← List.append_assoc X, ← hX, List.take_append_drop]
      rw [hdata] at hg
      exact hg.cut (g1 g hgm) (by simp [hc.2.1])

/-! ### `build`, `parseSub` on good texts -/

/-- an element built by the emphasis processors: not a `code`, nothing atomic -/
def ENodeC (k : Nat) (n : Node) : Prop :=
  tagNoCtl n.tag ∧ attrsNoCtl n.attrs ∧ n.tailAtomic = false ∧ StrC k n.tail ∧ isCode n = false ∧
  n.textAtomic = false ∧ StrC k n.text

theorem ENodeC.toS {k : Nat} {n : Node} (h : ENodeC k n) : SNodeC k n := by
  obtain ⟨h1, h2, h3, h4, h5, h6, h7⟩ := h
  refine ⟨h1, h2, h3, h4, ?_⟩
  rw [if_neg (by rw [h5]; decide)]
  exact ⟨h6, h7⟩

theorem grpOK_strC {k : Nat} {g : Str} (h : GrpOKC k g) : StrC k (some g) := h

theorem enode_mkElC (k : Nat) {tag : String} (h1 : NoCtl tag.toList) (h2 : tag.toList ≠ "code".toList) :
    (mkEl tag).Forall (ENodeC k) ∧ (mkEl tag).tail = none := by
  refine ⟨?_, rfl⟩
  rw [Node.forall_iff]
  refine ⟨⟨h1, by intro kv hkv; simp [mkEl] at hkv, rfl, strC_none k, ?_, rfl, strC_none k⟩, by simp [mkEl]⟩
  cases hc : isCode (mkEl tag) with
  | false => rfl
  | true =>
    simp only [isCode, mkEl, beq_iff_eq, Tag.name.injEq] at hc
    exact absurd hc h2

theorem enode_appendC {k : Nat} {p el : Node} (hp : p.Forall (ENodeC k)) (he : el.Forall (ENodeC k)) :
    (p.append el).Forall (ENodeC k) := by
  rw [Node.forall_iff] at hp ⊢
  refine ⟨hp.1, ?_⟩
  intro c hc
  simp only [Node.append, List.mem_append, List.mem_singleton] at hc
  rcases hc with hc | rfl
  · exact hp.2 c hc
  · exact he

theorem enode_setTextOrTailC {k : Nat} {p : Node} (hp : p.Forall (ENodeC k)) (hasLast : Bool)
    {text : Str} (ht : GrpOKC k text) :
    (setTextOrTail p hasLast text).Forall (ENodeC k) ∧ (setTextOrTail p hasLast text).tail = p.tail := by
  unfold setTextOrTail
  split
  · exact ⟨hp, rfl⟩
  · split
    · split
      · rename_i l hl
        refine ⟨?_, rfl⟩
        rw [Node.forall_iff] at hp ⊢
        refine ⟨hp.1, ?_⟩
        intro c hc
        simp only [Node.setLast, List.mem_append, List.mem_singleton] at hc
        rcases hc with hc | rfl
        · exact hp.2 c (List.dropLast_subset _ hc)
        · have hlm := hp.2 l (List.mem_of_mem_getLast? hl)
          rw [Node.forall_iff] at hlm ⊢
          obtain ⟨s1, s2, s3, s4, s5, s6, s7⟩ := hlm.1
          exact ⟨⟨s1, s2, rfl, grpOK_strC ht, s5, s6, s7⟩, hlm.2⟩
      · exact ⟨hp, rfl⟩
    · refine ⟨?_, rfl⟩
      rw [Node.forall_iff] at hp ⊢
      obtain ⟨s1, s2, s3, s4, s5, s6, s7⟩ := hp.1
      exact ⟨⟨s1, s2, s3, s4, s5, rfl, grpOK_strC ht⟩, hp.2⟩

/-- the contract of the nested `build_element` -/
def BuildOKC (k : Nat) (b : List Str → EmItem → Nat → Option Node) : Prop :=
  ∀ (groups : List Str) (item : EmItem) (idx : Nat) (el : Node), (∀ g ∈ groups, GrpOKC k g) → ItemGoodB item →
    b groups item idx = some el → el.Forall (ENodeC k) ∧ el.tail = none

structure SubOKC (k : Nat) (data : Str) (s : SubSt) : Prop where
  le : s.offset ≤ s.pos
  wf : WF true k (data.drop s.offset)
  par : s.parent.Forall (ENodeC k)
  ptail : s.parent.tail = none

theorem subTryC_spec {k : Nat} {c : Char} (hc : DelimB c) {b : List Str → EmItem → Nat → Option Node}
    (hb : BuildOKC k b) {data : Str} (hd : GrpOKC k data) (idx : Nat) :
    ∀ (items : List EmItem) (index : Nat) (s s' : SubSt), (∀ item ∈ items, ItemGoodB item) → SubOKC k data s →
      subTry b data c idx items index s = some s' → SubOKC k data s' := by
  intro items
  induction items with
  | nil =>
    intro index s s' _ hs h
    simp only [subTry, Option.some.injEq] at h
    subst h; exact hs
  | cons item rest ih =>
    intro index s s' hgood hs h
    have hrest : ∀ it ∈ rest, ItemGoodB it := fun it hit => hgood it (by simp [hit])
    simp only [subTry] at h
    split at h
    · exact ih _ _ _ hrest hs h
    · cases hm : seqMatch data s.pos c item.steps with
      | none => simp only [hm] at h; exact ih _ _ _ hrest hs h
      | some r =>
        obtain ⟨e, groups⟩ := r
        simp only [hm] at h
        cases hbd : b groups item index with
        | none => simp [hbd] at h
        | some el =>
          simp only [hbd] at h
          have hig := hgood item (by simp)
          obtain ⟨m1, m2, ⟨t, m3⟩, -, m4⟩ := seqMatch_specC (k := k) hc hig.1.1 hig.1.2.1 hig.2 hm
          have hsplit : data.drop s.offset = (data.drop s.offset).take (s.pos - s.offset) ++ data.drop s.pos := by
            have : data.drop s.pos = (data.drop s.offset).drop (s.pos - s.offset) := by
              rw [List.drop_drop]; congr 1; have := hs.le; omega
            rw [this, List.take_append_drop]
          have hw := hs.wf
          rw [hsplit, m3] at hw
          obtain ⟨w1, w2⟩ := hw.split (bnd_cons_right _ t hc.1.1 hc.1.2.2)
          rw [← m3] at w2
          obtain ⟨g1, g2⟩ := m4 hd w2
          have hslice : slice data s.offset s.pos = (data.drop s.offset).take (s.pos - s.offset) := by
            simp only [slice]; rw [List.drop_take]
          obtain ⟨hel, -⟩ := hb groups item index el g1 hig hbd
          have hpiece : GrpOKC k ((data.drop s.offset).take (s.pos - s.offset)) := by
            have hdata : data = data.take s.offset ++ (data.drop s.offset).take (s.pos - s.offset) ++ (c :: t) := by
              rw [List.append_assoc, ← m3, ← hsplit, List.take_append_drop]
            have hd' := hd
            rw [hdata] at hd'
            exact hd'.cut w1 (by simp [hc.2.1])
          obtain ⟨q1, q2⟩ := enode_setTextOrTailC hs.par s.hasLast (text := slice data s.offset s.pos)
            (by rw [hslice]; exact hpiece)
          refine ih _ _ _ hrest ⟨Nat.le_refl _, g2, enode_appendC q1 hel, ?_⟩ h
          show (Node.append _ el).tail = none
          simp only [Node.append]
          rw [q2]; exact hs.ptail

theorem subLoopC_spec {k : Nat} {c : Char} (hc : DelimB c) {b : List Str → EmItem → Nat → Option Node}
    (hb : BuildOKC k b) {data : Str} (hd : GrpOKC k data) (idx : Nat) :
    ∀ (g : Nat) (s s' : SubSt), SubOKC k data s → subLoop b data c idx g s = some s' → SubOKC k data s' := by
  intro g
  induction g with
  | zero => intro s s' _ h; simp [subLoop] at h
  | succ g ih =>
    intro s s' hs h
    simp only [subLoop] at h
    split at h
    · split at h
      · cases ht : subTry b data c idx (emPatterns c) 0 { s with matched := false } with
        | none => simp [ht] at h
        | some s1 =>
          simp only [ht] at h
          have hs0 : SubOKC k data { s with matched := false } := ⟨hs.le, hs.wf, hs.par, hs.ptail⟩
          have hs1 := subTryC_spec hc hb hd idx (emPatterns c) 0 _ s1 (emPatterns_goodB c) hs0 ht
          refine ih _ _ ?_ h
          split
          · exact hs1
          · exact ⟨Nat.le_succ_of_le hs1.le, hs1.wf, hs1.par, hs1.ptail⟩
      · exact ih { s with pos := s.pos + 1 } _ ⟨Nat.le_succ_of_le hs.le, hs.wf, hs.par, hs.ptail⟩ h
    · simp only [Option.some.injEq] at h
      subst h; exact hs

theorem parseSubC_spec {k : Nat} {c : Char} (hc : DelimB c) {b : List Str → EmItem → Nat → Option Node}
    (hb : BuildOKC k b) {data : Str} (hs : GrpOKC k data) {parent : Node} (hp : parent.Forall (ENodeC k))
    (hpt : parent.tail = none) (hasLast : Bool) (idx : Nat) {el : Node}
    (h : parseSub b data parent hasLast idx c = some el) : el.Forall (ENodeC k) ∧ el.tail = none := by
  unfold parseSub at h
  cases hl : subLoop b data c idx (data.length + 1) ⟨0, 0, parent, hasLast, false⟩ with
  | none => simp [hl] at h
  | some s =>
    simp only [hl, Option.some.injEq] at h
    subst h
    have := subLoopC_spec hc hb hs idx _ _ _ ⟨Nat.le_refl _, by simpa using hs.1, hp, hpt⟩ hl
    have hpiece : GrpOKC k (data.drop s.offset) := by
      have hdata : data = data.take s.offset ++ data.drop s.offset ++ [] := by simp
      have hs' := hs
      rw [hdata] at hs'
      exact hs'.cut this.wf (by simp)
    obtain ⟨q1, q2⟩ := enode_setTextOrTailC this.par s.hasLast hpiece
    exact ⟨q1, by rw [q2]; exact this.ptail⟩

theorem buildC_spec {k : Nat} {c : Char} (hc : DelimB c) : ∀ f, BuildOKC k (build c f) := by
  intro f
  induction f with
  | zero => intro groups item idx el _ _ h; simp [build] at h
  | succ f ih =>
    intro groups item idx el hg hig h
    have hg0 : GrpOKC k (groups.headD []) := by
      cases groups with
      | nil => exact grpOK_nilC k
      | cons g r => exact hg g (by simp)
    have hsub : ∀ (d : Str) (p : Node) (hl : Bool) (r : Node), GrpOKC k d → p.Forall (ENodeC k) → p.tail = none →
        parseSub (fun g i j => build c f g i j) d p hl idx c = some r → r.Forall (ENodeC k) ∧ r.tail = none :=
      fun d p hl r hd hp hpt hr => parseSubC_spec hc ih hd hp hpt hl idx hr
    obtain ⟨t1, t1'⟩ := enode_mkElC k hig.1.2.2.1 hig.1.2.2.2.2.1
    obtain ⟨t2, t2'⟩ := enode_mkElC k hig.1.2.2.2.1 hig.1.2.2.2.2.2
    simp only [build] at h
    split at h
    · exact hsub _ _ _ _ hg0 t1 t1' h
    · split at h
      · cases h
      · rename_i el2 h2
        obtain ⟨hel2, -⟩ := hsub _ _ _ _ hg0 t2 t2' h2
        have hel1 := enode_appendC t1 hel2
        have hel1t : ((mkEl item.tag1).append el2).tail = none := rfl
        split at h
        · rename_i x g1
          exact hsub _ _ _ _ (hg g1 (by simp)) hel1 hel1t h
        · simp only [Option.some.injEq] at h
          subst h; exact ⟨hel1, hel1t⟩
    · split at h
      · rename_i el1 el2 h1 h2
        simp only [Option.some.injEq] at h
        subst h
        have hg1 : GrpOKC k (groups.getD 1 []) := by
          cases hx : groups[1]? with
          | none => simp [List.getD, hx]; exact grpOK_nilC k
          | some g => simp [List.getD, hx]; exact hg g (List.mem_of_getElem? hx)
        obtain ⟨a1, a2⟩ := hsub _ _ _ _ hg0 t1 t1' h1
        obtain ⟨b1, -⟩ := hsub _ _ _ _ hg1 t2 t2' h2
        exact ⟨enode_appendC a1 b1, by simp only [Node.append]; exact a2⟩
      · cases h

/-! ### splicing at a match, after the backtick pattern -/

/-- the data around a match `M` that starts and ends with characters that are neither inside a token nor backticks -/
theorem spliceC_of_span {pi k : Nat} (hpi : 1 ≤ pi) {data pre M post : Str} {si : Nat} (hd : DataC pi k data)
    (hsuf : data.drop si = pre ++ M ++ post) (hM : M ≠ [])
    (hh : ∀ c, M.head? = some c → inner c = false ∧ c ≠ ETX ∧ c ≠ '`')
    (hl : ∀ c, M.getLast? = some c → inner c = false ∧ c ≠ STX ∧ c ≠ '`') (hbr : breaks M = true) :
    SpliceC k pi data (si + pre.length) ((si + pre.length + M.length : Nat) : Int) := by
  obtain ⟨sp, -⟩ := splice_of_span hd.wf hsuf hM (fun c hc => ⟨(hh c hc).1, (hh c hc).2.1⟩)
    (fun c hc => ⟨(hl c hc).1, (hl c hc).2.1⟩)
  obtain ⟨h1, h2, -, h4⟩ := span_of_suffix hsuf hM
  refine ⟨sp.1, sp.2, ?_⟩
  intro T hT
  rw [pyDrop_natCast, h1, h2]
  have hadj := hd.adj
  have hbt := (btInv_succ hpi).1 hd.bt
  rw [h4] at hadj hbt
  refine ⟨adjC_replace hadj hbr hT, (btInv_succ hpi).2 (btDone_replace hadj.1 hbt hM ?_ ?_ hT.1)⟩
  · intro hc; exact (hh _ hc).2.2 rfl
  · intro hc; exact (hl _ hc).2.2 rfl

/-! ### `emHandle`, `emScan` -/

theorem emHandleC_spec {pi k : Nat} (hpi : 1 ≤ pi) {c : Char} (hc : DelimB c) (hbk : breaker c = true) {data : Str} (hd : DataC pi k data)
    (i : Nat) :
    ∀ (items : List EmItem) (idx : Nat) (el : Node) (e : Nat), (∀ item ∈ items, ItemGoodB item) →
      emHandle data i c items idx = some (some (el, e)) →
      el.Forall (ENodeC k) ∧ el.tail = none ∧ SpliceC k pi data i (e : Int) := by
  intro items
  induction items with
  | nil => intro idx el e _ h; simp [emHandle] at h
  | cons item rest ih =>
    intro idx el e hgood h
    simp only [emHandle] at h
    cases hm : seqMatch data i c item.steps with
    | none => simp only [hm] at h; exact ih _ _ _ (fun it hit => hgood it (by simp [hit])) h
    | some r =>
      obtain ⟨e', groups⟩ := r
      simp only [hm] at h
      cases hb : build c (data.length + 2) groups item idx with
      | none => simp [hb] at h
      | some el' =>
        simp only [hb, Option.some.injEq, Prod.mk.injEq] at h
        obtain ⟨rfl, rfl⟩ := h
        have hig := hgood item (by simp)
        obtain ⟨m1, m2, ⟨t, m3⟩, ⟨M, hM, hMe, hMh, hMl, hMlen⟩, m4⟩ :=
          seqMatch_specC (k := k) hc hig.1.1 hig.1.2.1 hig.2 hm
        have hgrp : GrpOKC k data := ⟨hd.wf, hd.dom, hd.adj, (btInv_succ hpi).1 hd.bt⟩
        have hw' := hd.wf
        rw [← List.take_append_drop i data, m3] at hw'
        obtain ⟨w1, w2⟩ := hw'.split (bnd_cons_right _ t hc.1.1 hc.1.2.2)
        rw [← m3] at w2
        obtain ⟨g1, g2⟩ := m4 hgrp w2
        obtain ⟨b1, b2⟩ := buildC_spec hc _ groups item idx el' g1 hig hb
        refine ⟨b1, b2, ?_⟩
        have hsuf : data.drop i = [] ++ M ++ data.drop e' := by simpa using hMe
        have := spliceC_of_span (pi := pi) (k := k) hpi hd hsuf hM
          (by intro x hx; rw [hMh] at hx; cases hx; exact ⟨hc.1.1, hc.1.2.2, hc.2.1⟩)
          (by intro x hx; rw [hMl] at hx; cases hx; exact ⟨hc.1.1, hc.1.2.1, hc.2.1⟩)
          (by cases M with
              | nil => exact absurd rfl hM
              | cons m0 M' => simp only [List.head?_cons, Option.some.injEq] at hMh; subst hMh; exact breaks_of_head hbk _)
        simp only [List.length_nil, Nat.add_zero] at this
        have he : i + M.length = e' := by omega
        rw [he] at this
        exact this

theorem emScanC_spec {pi k : Nat} (hpi : 1 ≤ pi) {c : Char} (hc : DelimB c) (hbk : breaker c = true) {data : Str} (hd : DataC pi k data) :
    ∀ (suf : Str) (i : Nat) (el : Node) (s e : Nat), emScan data c suf i = some (some (el, s, e)) →
      el.Forall (ENodeC k) ∧ el.tail = none ∧ SpliceC k pi data s (e : Int) := by
  intro suf
  induction suf with
  | nil => intro i el s e h; simp [emScan] at h
  | cons ch r ih =>
    intro i el s e h
    simp only [emScan] at h
    split at h
    · cases hh : emHandle data i c (emPatterns c) 0 with
      | none => simp [hh] at h
      | some x =>
        cases x with
        | none => simp only [hh] at h; exact ih _ _ _ _ h
        | some p =>
          obtain ⟨el', e'⟩ := p
          simp only [hh, Option.some.injEq, Prod.mk.injEq] at h
          obtain ⟨rfl, rfl, rfl⟩ := h
          exact emHandleC_spec hpi hc hbk hd i _ _ _ _ (emPatterns_goodB c) hh
    · exact ih _ _ _ _ h

theorem em_stash_okC {pi k : Nat} (hpi : 1 ≤ pi) {c : Char} (hc : DelimB c) (hbk : breaker c = true) {data : Str} (hd : DataC pi k data)
    {suf : Str} {i : Nat} {el : Node} {s e : Nat} (h : emScan data c suf i = some (some (el, s, e))) :
    FoundOKC k pi data ⟨.el el, s, e⟩ := by
  obtain ⟨h1, h2, h3⟩ := emScanC_spec hpi hc hbk hd _ _ _ _ _ h
  exact ⟨h3, Node.Forall.mono (fun _ hn => hn.toS) el h1, h2, fun h0 => by omega⟩

/-! ### escape, line break, not_strong -/

theorem escape_stash_okC {cfg : Cfg} (hcfg : EscOK cfg.esc) {pi k : Nat} (hpi : 1 ≤ pi) {data : Str} {si j : Nat}
    {ch : Char} (hd : DataC pi k data) (h : escScan (data.drop si) si = some (j, ch)) :
    FoundOKC k pi data ⟨if cfg.esc.contains ch then .str (STX :: natToDec ch.toNat ++ [ETX]) else .none, j, j + 2⟩ := by
  obtain ⟨pre, post, h1, rfl⟩ := escScan_spec _ _ _ _ h
  unfold FoundOKC
  simp only
  split
  · exact hpi
  · rename_i s hn
    split at hn
    · rename_i hmem
      simp only [PNode.str.injEq] at hn
      subst hn
      have hch := hcfg ch (by simpa using hmem)
      have hbt : ch ≠ '`' := by
        rintro rfl
        have := hd.adj.1
        rw [noAdj_iff] at this
        have hdata : data = (data.take si ++ pre) ++ '\\' :: '`' :: post := by
          have := List.take_append_drop si data
          rw [h1] at this
          exact this.symm.trans (by simp)
        exact this _ _ hdata
      have hsp := spliceC_of_span (M := ['\\', ch]) hpi hd h1 (by simp)
        (by intro c hc; simp at hc; subst hc; decide)
        (by intro c hc; simp at hc; subst hc; exact ⟨hch.2.2, hch.1, hbt⟩)
        (breaks_of_head (by decide) _)
      have e : ((si + pre.length : Nat) : Int) + 2 = ((si + pre.length + ['\\', ch].length : Nat) : Int) := by simp
      refine ⟨by rw [e]; exact hsp, ?_, ?_, ?_⟩
      · exact wf_escToken (okCode_toNat hch.1 hch.2.1)
      · exact domB_escToken _
      · exact sepOK3_escToken _
    · cases hn
  · rename_i n hn
    split at hn <;> cases hn

theorem brNode_snodeC (k : Nat) : (mkEl "br").Forall (SNodeC k) ∧ (mkEl "br").tail = none := by
  obtain ⟨h1, h2⟩ := enode_mkElC k (tag := "br") (by decide) (by decide)
  exact ⟨Node.Forall.mono (fun _ hn => hn.toS) _ h1, h2⟩

theorem linebreak_stash_okC {pi k : Nat} (hpi : 1 ≤ pi) {data : Str} {si off : Nat} (hd : DataC pi k data)
    (h : find [' ', ' ', '\n'] (data.drop si) = some off) :
    FoundOKC k pi data ⟨.el (mkEl "br"), si + off, si + off + 3⟩ := by
  obtain ⟨pre, post, hsuf, rfl, -⟩ := find_some_iff.1 h
  have := spliceC_of_span (M := [' ', ' ', '\n']) hpi hd hsuf (by simp)
    (by intro c hc; simp at hc; subst hc; decide) (by intro c hc; simp at hc; subst hc; decide) (by decide)
  have e : ((si + pre.length : Nat) : Int) + 3 = ((si + pre.length + [' ', ' ', '\n'].length : Nat) : Int) := by
    simp
  refine ⟨?_, (brNode_snodeC k).1, (brNode_snodeC k).2, fun h0 => by omega⟩
  show SpliceC k pi data (si + pre.length) (((si + pre.length : Nat) : Int) + 3)
  rw [e]; exact this

theorem not_strong_stash_okC {pi k : Nat} (hpi : 1 ≤ pi) {data : Str} {si s e : Nat} (hd : DataC pi k data)
    (h : nsFind data si = some (s, e)) : FoundOKC k pi data ⟨.str (slice data s e), s, e⟩ := by
  unfold nsFind at h
  split at h
  · cases h
  · obtain ⟨pre, M, post, h1, rfl, rfl, h4, h5⟩ := nsScan_spec _ _ _ _ _ h
    have hin : ∀ x ∈ M, inner x = false ∧ x ≠ ETX ∧ x ≠ STX ∧ x ≠ '`' ∧ x ≠ '\\' ∧ x ≠ '!' ∧ x ≠ '[' ∧ x ≠ ']' ∧
        x ≠ '(' := by
      intro x hx
      rcases h5 x hx with rfl | rfl <;> decide
    have hsp := spliceC_of_span hpi hd h1 h4
      (by intro c hc; have := hin c (List.mem_of_mem_head? hc); exact ⟨this.1, this.2.1, this.2.2.2.1⟩)
      (by intro c hc; have := hin c (List.mem_of_mem_getLast? hc); exact ⟨this.1, this.2.2.1, this.2.2.2.1⟩)
      (by cases M with
          | nil => exact absurd rfl h4
          | cons m0 M' => exact breaks_of_head (by rcases h5 m0 (by simp) with rfl | rfl <;> decide) _)
    obtain ⟨-, -, hsl, hdata⟩ := span_of_suffix h1 h4
    refine ⟨hsp, ?_, ?_, ?_⟩
    · show WF true 0 (slice data (si + pre.length) (si + pre.length + M.length))
      rw [hsl]
      exact WF.of_noCtl (noCtl_iff.2 fun x hx => ⟨(hin x hx).2.2.1, (hin x hx).2.1⟩)
    · show DomB (slice data (si + pre.length) (si + pre.length + M.length))
      rw [hsl]
      exact hd.dom.subset (fun c hc => by rw [hdata]; simp [hc])
    · show SepOK3 (slice data (si + pre.length) (si + pre.length + M.length))
      rw [hsl]
      exact ⟨⟨h4, fun hm => (hin _ hm).2.2.2.1 rfl, fun hm => (hin _ hm).2.2.2.2.1 rfl⟩,
        fun hm => (hin _ hm).2.2.2.2.2.1 rfl, fun hm => (hin _ hm).2.2.2.2.2.2.1 rfl,
        fun hm => (hin _ hm).2.2.2.2.2.2.2.1 rfl, fun hm => (hin _ hm).2.2.2.2.2.2.2.2 rfl⟩

end MdVerif.NoCtl
