/-
Helper lemmas for C14 (serializer / reader).  Core Lean only.
-/
import MdVerif.Spec.Reader

namespace MdVerif.Ser
open Py

theorem onepass_cdata (s : Str) : escCdata s = esc1 false false s := by
  sorry

theorem onepass_attr (s : Str) : escAttrHtml s = esc1 true false s := by
  sorry

theorem onepass_attrib (s : Str) : escAttrib s = esc1 true true s := by
  sorry

/-- the strict reader accepts every escaped text and reads what the tolerant reader reads in the source -/
theorem strict_esc1 (m : Mode) (s : Str) : strict m 0 (esc1 m.quot m.nl s) = some (lenient m 0 s) := by
  sorry

theorem esc1_no_markup (q n : Bool) (s : Str) : ∀ c ∈ esc1 q n s, c ≠ '<' ∧ c ≠ '>' ∧ (q = true → c ≠ '"') := by
  sorry

theorem esc1_entity (q n : Bool) (r : Str) (k : Nat) (h : entLen r = some k) :
    esc1 q n ('&' :: r) = '&' :: r.take k ++ esc1 q n (r.drop k) := by
  sorry

theorem esc1_idem (q n : Bool) (s : Str) : esc1 q n (esc1 q n s) = esc1 q n s := by
  sorry

theorem lenient_plain (m : Mode) (s : Str) (h : ∀ c ∈ s, c ≠ '&') : lenient m 0 s = s.map Tok.ch := by
  sorry

theorem roundtrip (fmt : Fmt) (t : Node) (h : WFTree t = true) :
    readForest fmt (serialize fmt t) = some (canon t) := by
  sorry

end MdVerif.Ser
