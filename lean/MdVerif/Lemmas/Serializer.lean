/-
Helper lemmas for C14 (serializer / reader).  Core Lean only.
The proofs are in `MdVerif/Lemmas/SerializerEsc.lean` (strings) and `MdVerif/Lemmas/SerializerTree.lean` (trees).
-/
import MdVerif.Spec.Reader
import MdVerif.Lemmas.SerializerEsc
import MdVerif.Lemmas.SerializerTree

namespace MdVerif.Ser
open Py

theorem onepass_cdata (s : Str) : escCdata s = esc1 false false s := onepass_cdata' s

theorem onepass_attr (s : Str) : escAttrHtml s = esc1 true false s := onepass_attr' s

theorem onepass_attrib (s : Str) : escAttrib s = esc1 true true s := onepass_attrib' s

/-- the strict reader accepts every escaped text and reads what the tolerant reader reads in the source -/
theorem strict_esc1 (m : Mode) (s : Str) : strict m 0 (esc1 m.quot m.nl s) = some (lenient m 0 s) :=
  strict_esc1' m s

theorem esc1_no_markup (q n : Bool) (s : Str) : ∀ c ∈ esc1 q n s, c ≠ '<' ∧ c ≠ '>' ∧ (q = true → c ≠ '"') :=
  esc1_no_markup' q n s

theorem esc1_entity (q n : Bool) (r : Str) (k : Nat) (h : entLen r = some k) :
    esc1 q n ('&' :: r) = '&' :: r.take k ++ esc1 q n (r.drop k) := esc1_entity' q n r k h

theorem esc1_idem (q n : Bool) (s : Str) : esc1 q n (esc1 q n s) = esc1 q n s :=
  esc1_idem' q n s.length s (Nat.le_refl _)

theorem lenient_plain (m : Mode) (s : Str) (h : ∀ c ∈ s, c ≠ '&') : lenient m 0 s = s.map Tok.ch :=
  lenient_plain' m s h

theorem roundtrip (fmt : Fmt) (t : Node) (h : WFTree t = true) :
    readForest fmt (serialize fmt t) = some (canon t) := roundtrip' fmt t h

end MdVerif.Ser
