/-
`Sep Ok N`, part 3: `__processPlaceholders`.  The pieces of the text and the strings taken out of the stash are
appended to one receiving string (`accOf`); the loop invariant is that the receiving string followed by the rest of
the text is `Ok` — a stash string is non-empty and neutral and takes the place of a non-empty part of the text; an
element out of the stash has no tail, so after it the receiving string is empty.  Core Lean only.
-/
import MdVerif.Lemmas.InlineXInvP2

namespace MdVerif.InlineX
open Py Inline

variable {Ok : Str → Prop} {N : Char → Prop}

/-- the string the next `linkText` appends to -/
def accOf (isText : Bool) (result : List Node) (parent : Node) : Str :=
  match result with
  | l :: _ => l.tail.getD []
  | [] => if isText then parent.text.getD [] else parent.tail.getD []

theorem getD_of_not_truthy {t : Option Str} (h : ¬ Node.truthy t = true) : t.getD [] = [] := by
  cases t with
  | none => rfl
  | some s =>
    cases s with
    | nil => rfl
    | cons _ _ => simp [Node.truthy] at h

theorem linkText_P (hs : Sep Ok N) {text rest : Str} {atomic isText : Bool} {result : List Node} {parent : Node}
    (hr : ∀ n ∈ result, DeepP Ok n) (hp : DeepP Ok parent)
    (hok : Ok (accOf isText result parent ++ (text ++ rest))) :
    (∀ n ∈ (linkText text atomic isText result parent).1, DeepP Ok n) ∧
      DeepP Ok (linkText text atomic isText result parent).2 ∧
      accOf isText (linkText text atomic isText result parent).1 (linkText text atomic isText result parent).2 =
        accOf isText result parent ++ text ∧
      (isText = true → (linkText text atomic isText result parent).2.tail = parent.tail) := by
  have hacc : Ok (accOf isText result parent ++ text) :=
    hs.sub ⟨[], rest, by simp⟩ hok
  unfold linkText
  split
  · rename_i he
    have : text = [] := List.isEmpty_iff.mp he
    subst this
    exact ⟨hr, hp, by simp, fun _ => rfl⟩
  · split
    · rename_i l r
      have hl := hr l List.mem_cons_self
      have hr' : ∀ n ∈ r, DeepP Ok n := fun n hn => hr n (List.mem_cons_of_mem _ hn)
      simp only [accOf] at hacc ⊢
      split
      · refine ⟨?_, hp, rfl, fun _ => rfl⟩
        intro n hn
        rcases List.mem_cons.mp hn with hn | hn
        · rw [hn]; exact DeepP_withTail _ hl hacc
        · exact hr' n hn
      · rename_i htr
        have e0 : l.tail.getD [] = [] := getD_of_not_truthy htr
        rw [e0] at hacc ⊢
        refine ⟨?_, hp, by simp, fun _ => rfl⟩
        intro n hn
        rcases List.mem_cons.mp hn with hn | hn
        · rw [hn]; exact DeepP_withTail _ hl (by simpa using hacc)
        · exact hr' n hn
    · simp only [accOf] at hacc ⊢
      cases isText with
      | false =>
        simp only [Bool.not_false, if_true, Bool.false_eq_true, if_false] at hacc ⊢
        split
        · exact ⟨hr, DeepP_withTail _ hp hacc, rfl, fun h => by cases h⟩
        · rename_i htr
          have e0 : parent.tail.getD [] = [] := getD_of_not_truthy htr
          rw [e0] at hacc ⊢
          exact ⟨hr, DeepP_withTail _ hp (by simpa using hacc), by simp, fun h => by cases h⟩
      | true =>
        simp only [Bool.not_true, Bool.false_eq_true, if_false, if_true] at hacc ⊢
        split
        · exact ⟨hr, DeepP_withText _ hp hacc, rfl, fun _ => rfl⟩
        · rename_i htr
          have e0 : parent.text.getD [] = [] := getD_of_not_truthy htr
          rw [e0] at hacc ⊢
          exact ⟨hr, DeepP_withText _ hp (by simpa using hacc), by simp, fun _ => rfl⟩

/-- `data[a:]` is `data[a:b]` followed by `data[b:]` -/
theorem drop_eq_slice_append (data : Str) {a b : Nat} (h : a ≤ b) :
    data.drop a = Inline.slice data a b ++ data.drop b := by
  simp only [Inline.slice]
  by_cases hl : a ≤ data.length
  · have h1 : a ≤ (data.take b).length := by rw [List.length_take]; omega
    conv => lhs; rw [← List.take_append_drop b data]
    rw [List.drop_append_of_le_length h1]
  · have h1 : data.drop a = [] := List.drop_eq_nil_of_le (by omega)
    have h2 : (data.take b).drop a = [] := List.drop_eq_nil_of_le (by rw [List.length_take]; omega)
    have h3 : data.drop b = [] := List.drop_eq_nil_of_le (by omega)
    rw [h1, h2, h3]; rfl

/-- the state of the `while data` loop -/
structure LoopP (Ok : Str → Prop) (isText : Bool) (parent0 : Node) (result : List Node) (parent : Node) (rest : Str) :
    Prop where
  res : ∀ n ∈ result, DeepP Ok n
  par : DeepP Ok parent
  acc : Ok (accOf isText result parent ++ rest)
  tail : isText = true → parent.tail = parent0.tail

theorem LoopP.link (hs : Sep Ok N) {isText : Bool} {parent0 : Node} {result : List Node} {parent : Node}
    {text rest : Str} (atomic : Bool) (h : LoopP Ok isText parent0 result parent (text ++ rest)) :
    LoopP Ok isText parent0 (linkText text atomic isText result parent).1 (linkText text atomic isText result parent).2
      rest := by
  obtain ⟨h1, h2, h3, h4⟩ := linkText_P hs (atomic := atomic) h.res h.par h.acc
  exact ⟨h1, h2, by rw [h3, List.append_assoc]; exact h.acc, fun ht => (h4 ht).trans (h.tail ht)⟩

theorem ppLoop_P (hs : Sep Ok N) {stash : List StashItem} {nested : Node → Option Node} {data : Str}
    {atomic isText : Bool} {parent0 : Node} (hst : StashP Ok N stash)
    (hn : ∀ n n', DeepP Ok n → n.tail = none → nested n = some n' → DeepP Ok n' ∧ n'.tail = none) :
    ∀ (g start : Nat) (result : List Node) (parent : Node) {res : List Node} {p' : Node},
      LoopP Ok isText parent0 result parent (data.drop start) →
      ppLoop stash nested data atomic isText g start result parent = some (res, p') →
      (∀ n ∈ res, DeepP Ok n) ∧ DeepP Ok p' ∧ (isText = true → p'.tail = parent0.tail) := by
  intro g
  induction g with
  | zero => intro start result parent res p' _ h; simp [ppLoop] at h
  | succ g ih =>
    intro start result parent res p' hI h
    unfold ppLoop at h
    simp only at h
    split at h
    · rename_i off _
      -- the text up to the prefix
      have hle : start ≤ start + off := Nat.le_add_right _ _
      have hI1 : LoopP Ok isText parent0
          (if start + off > 0 then linkText (Inline.slice data start (start + off)) false isText result parent
            else (result, parent)).1
          (if start + off > 0 then linkText (Inline.slice data start (start + off)) false isText result parent
            else (result, parent)).2 (data.drop (start + off)) := by
        have hI' : LoopP Ok isText parent0 result parent
            (Inline.slice data start (start + off) ++ data.drop (start + off)) := by
          rw [← drop_eq_slice_append data hle]; exact hI
        split
        · exact hI'.link hs false
        · rename_i h0
          have e0 : start + off = 0 := by omega
          have e1 : start = 0 := by omega
          rw [e0]
          rw [e1] at hI
          exact hI
      split at h
      · rename_i item hitem
        have hfp : ∃ id', (findPh data (start + off)).1 = some id' ∧ stashGet stash id' = some item := by
          cases hfp : (findPh data (start + off)).1 with
          | none => rw [hfp] at hitem; simp at hitem
          | some id' => rw [hfp] at hitem; exact ⟨id', rfl, by simpa using hitem⟩
        obtain ⟨id', hid, hget⟩ := hfp
        have hitemP : ItemP Ok N item := by
          simp only [stashGet] at hget
          split at hget
          · exact hst item (List.mem_of_getElem? hget)
          · cases hget
        have hend : start + off ≤ (findPh data (start + off)).2 := by
          have := (findPh_ok (data := data) (index := start + off) (id := id')
            (e := (findPh data (start + off)).2) (by rw [← hid])).2
          omega
        -- the rest of the text after the placeholder
        have hsplit := drop_eq_slice_append data hend
        cases item with
        | node n =>
          simp only at h
          split at h
          · cases h
          · rename_i n' hn'
            obtain ⟨hnD, hnT⟩ := hn n n' hitemP.1 hitemP.2 hn'
            refine ih _ _ _ ?_ h
            refine ⟨?_, hI1.par, ?_, hI1.tail⟩
            · intro m hm
              rcases List.mem_cons.mp hm with hm | hm
              · exact hm ▸ hnD
              · exact hI1.res m hm
            · simp only [accOf, hnT, Option.getD_none, List.nil_append]
              have := hI1.acc
              rw [hsplit] at this
              exact hs.sub ((List.suffix_append _ _).trans (List.suffix_append _ _)).isInfix this
        | str s =>
          simp only at h
          have hacc2 := hI1.acc
          rw [hsplit, ← List.append_assoc] at hacc2
          have hacc3 := hs.swap hacc2 hitemP
          rw [List.append_assoc] at hacc3
          exact ih _ _ _ (LoopP.link hs false ⟨hI1.res, hI1.par, hacc3, hI1.tail⟩) h
      · -- a prefix without a stash entry: the text up to the end of the prefix
        have hle2 : start ≤ start + off + phPrefixLen := by omega
        have hI' : LoopP Ok isText parent0 result parent
            (Inline.slice data start (start + off + phPrefixLen) ++ data.drop (start + off + phPrefixLen)) := by
          rw [← drop_eq_slice_append data hle2]; exact hI
        exact ih _ _ _ (hI'.link hs false) h
    · have hI' : LoopP Ok isText parent0 result parent (data.drop start ++ []) := by simpa using hI
      have h2 := hI'.link hs atomic
      injection h with h
      injection h with h3 h4
      subst h3; subst h4
      exact ⟨(by intro n hn'; exact h2.res n (List.mem_reverse.mp hn')), h2.par, h2.tail⟩

/-- a `processPlaceholders` that keeps elements good, called on an empty receiving string -/
def PPp (Ok : Str → Prop) (pp : PP) : Prop :=
  ∀ data atomic parent isText res p', Ok data → DeepP Ok parent → accOf isText [] parent = [] →
    pp data atomic parent isText = some (res, p') →
    (∀ n ∈ res, DeepP Ok n) ∧ DeepP Ok p' ∧ (isText = true → p'.tail = parent.tail)

theorem petTail_P (hs : Sep Ok N) {pp : PP} (hpp : PPp Ok pp) {k k' : Node} {res : List Node} (hk : DeepP Ok k)
    (h : petTail pp k = some (k', res)) : DeepP Ok k' ∧ ∀ n ∈ res, DeepP Ok n := by
  unfold petTail at h
  split at h
  · split at h
    · rename_i res' c' hp
      injection h with h
      injection h with h1 h2
      subst h1; subst h2
      have := hpp _ _ _ _ _ _ (okP_tail hs hk) (DeepP_noTail hk) rfl hp
      exact ⟨this.2.1, this.1⟩
    · cases h
  · injection h with h
    injection h with h1 h2
    subst h1; subst h2
    exact ⟨hk, (by intro n hn; cases hn)⟩

theorem petTail_none {pp : PP} {k k' : Node} {res : List Node} (hk : k.tail = none)
    (h : petTail pp k = some (k', res)) : k' = k ∧ res = [] := by
  unfold petTail at h
  rw [hk] at h
  simp only [Node.truthy, Bool.false_and, Bool.false_eq_true, if_false] at h
  injection h with h
  injection h with h1 h2
  exact ⟨h1.symm, h2.symm⟩

theorem petText_P (hs : Sep Ok N) {pp : PP} (hpp : PPp Ok pp) {k k' : Node} (hk : DeepP Ok k)
    (h : petText pp k = some k') : DeepP Ok k' ∧ k'.tail = k.tail := by
  unfold petText at h
  split at h
  · split at h
    · rename_i res c' hp
      injection h with h
      subst h
      have := hpp _ _ _ _ _ _ (okP_text hs hk) (DeepP_noText hk) rfl hp
      refine ⟨?_, this.2.2 rfl⟩
      apply DeepP_children _ this.2.1
      intro n hn
      rcases List.mem_append.mp hn with hn | hn
      · exact this.1 n hn
      · exact DeepP_kids this.2.1 n hn
    · cases h
  · injection h with h
    exact h ▸ ⟨hk, rfl⟩

theorem procKids_P (hs : Sep Ok N) {pp : PP} (hpp : PPp Ok pp) : ∀ (l : List Node) {l' : List Node},
    (∀ n ∈ l, DeepP Ok n) → procKids pp l = some l' → ∀ n ∈ l', DeepP Ok n := by
  intro l
  induction l with
  | nil => intro l' _ h; simp only [procKids] at h; cases h; intro n hn; cases hn
  | cons k r ih =>
    intro l' hl h
    simp only [procKids] at h
    split at h
    · cases h
    · rename_i c1 res hpt
      have h1 := petTail_P hs hpp (hl k List.mem_cons_self) hpt
      split at h
      · cases h
      · rename_i c2 hpx
        have h2 := petText_P hs hpp h1.1 hpx
        split at h
        · cases h
        · rename_i r' hr'
          injection h with h
          subst h
          intro n hn
          rcases List.mem_cons.mp hn with hn | hn
          · exact hn ▸ h2.1
          · rcases List.mem_append.mp hn with hn | hn
            · exact h1.2 n hn
            · exact ih (fun m hm => hl m (List.mem_cons_of_mem _ hm)) hr' n hn

theorem procNode_P (hs : Sep Ok N) {pp : PP} (hpp : PPp Ok pp) {node node' : Node} (hn : DeepP Ok node)
    (ht : node.tail = none) (h : procNode pp node = some node') : DeepP Ok node' ∧ node'.tail = none := by
  unfold procNode at h
  simp only at h
  split at h
  · cases h
  · rename_i n1 tailRes hpt
    obtain ⟨e1, e2⟩ := petTail_none (k := { node with children := [] }) ht hpt
    subst e1; subst e2
    have hn1 : DeepP Ok { node with children := [] } := DeepP_children [] hn (by intro k hk; cases hk)
    split at h
    · cases h
    · rename_i n2 hpx
      have h2 := petText_P hs hpp hn1 hpx
      split at h
      · cases h
      · rename_i kids hk
        injection h with h
        subst h
        have h3 := procKids_P hs hpp _ (DeepP_kids hn) hk
        refine ⟨?_, h2.2.trans ht⟩
        apply DeepP_children _ h2.1
        intro n hn'
        rcases List.mem_append.mp hn' with hn' | hn'
        · rcases List.mem_append.mp hn' with hn' | hn'
          · exact DeepP_kids h2.1 n hn'
          · cases hn'
        · exact h3 n hn'

theorem processPlaceholders_P (hs : Sep Ok N) {stash : List StashItem} (hst : StashP Ok N stash) :
    ∀ f, PPp Ok (processPlaceholders stash f) := by
  intro f
  induction f with
  | zero => intro data atomic parent isText res p' _ _ _ h; simp [processPlaceholders] at h
  | succ f ih =>
    intro data atomic parent isText res p' hd hp hacc h
    simp only [processPlaceholders] at h
    split at h
    · injection h with h
      injection h with h1 h2
      subst h1; subst h2
      exact ⟨(by intro n hn; cases hn), hp, fun _ => rfl⟩
    · exact ppLoop_P (parent0 := parent) hs hst (fun n n' hn ht hn' => procNode_P hs ih hn ht hn') _ _ _ _
        ⟨(by intro n hn; cases hn), hp, by rw [hacc]; simpa using hd, fun _ => rfl⟩ h

theorem ppTop_P (hs : Sep Ok N) {st : St} (hst : StashP Ok N st.stash) {data : Str} {atomic isText : Bool}
    {parent : Node} {res : List Node} {p' : Node} (hd : Ok data) (hp : DeepP Ok parent)
    (hacc : accOf isText [] parent = []) (h : ppTop st data atomic parent isText = some (res, p')) :
    (∀ n ∈ res, DeepP Ok n) ∧ DeepP Ok p' ∧ (isText = true → p'.tail = parent.tail) :=
  processPlaceholders_P hs hst _ _ _ _ _ _ _ hd hp hacc h

end MdVerif.InlineX
