/-
Helper lemmas for C02 (inline part), `InlineProcessor.run`: one visit of a child satisfies the contract `VisitOK`
(`Lemmas/InlineFuelRun.lean`) with the potential of `Lemmas/InlineFuelPot.lean`; hence `run` terminates.
Core Lean only.
-/
import MdVerif.Lemmas.InlineFuelPP
import MdVerif.Lemmas.Placeholders

namespace MdVerif.Inline
open Py NoCtl

theorem handleInlineTop_spec (cfg : Cfg) {data : Str} {st : St} {d : Str} {st' : St}
    (h : handleInlineTop cfg data st = some (d, st')) (hs : SOK st.stash) (hd : IdsLt st.stash.length data) :
    SOK st'.stash ∧ IdsLt st'.stash.length d ∧ st.stash <+: st'.stash ∧ nuS st' d ≤ nuS st data :=
  handleInline_spec cfg _ _ _ _ _ _ h hs hd

/-- the text half of a visit -/
theorem textStep_acc (cfg : Cfg) {child : Node} {st : St} {c1 : Node} {lst : List Node} {st1 : St}
    (h : textStep cfg child st = some (c1, lst, st1)) (hs : SOK st.stash)
    (ht : IdsLt st.stash.length (child.text.getD [])) :
    SOK st1.stash ∧ st.stash <+: st1.stash ∧ c1.tail = child.tail ∧ c1.children = child.children ∧
      (∀ n ∈ lst, Deep (IdsLt st1.stash.length) n) ∧ IdsLt st1.stash.length (c1.text.getD []) ∧
      lpot (ownW (wts st1.stash)) lst + nuS st1 (c1.text.getD []) ≤ nuS st (child.text.getD []) := by
  unfold textStep at h
  split at h
  · split at h
    · cases h
    · next data sta hh =>
      obtain ⟨a1, a2, a3, a4⟩ := handleInlineTop_spec cfg hh hs ht
      split at h
      · cases h
      · next lst' c1' hp =>
        cases h
        obtain ⟨o1, o2, o3, o4⟩ := ppTop_acc st1 a1 hp a2 (show slot true _ = [] from rfl)
        refine ⟨a1, a3, o4.2.1 rfl, o4.2.2, o2, by simpa [slot] using o3, ?_⟩
        simp only [slot, if_true, nuS] at o1 a4 ⊢
        omega
  · cases h
    exact ⟨hs, List.prefix_refl _, rfl, rfl, (by intro n hn; cases hn), ht, by simp⟩

/-- the tail half of a visit -/
theorem tailStep_acc (cfg : Cfg) {c1 : Node} {st1 : St} {c2 : Node} {tr : List Node} {st2 : St}
    (h : tailStep cfg c1 st1 = some (c2, tr, st2)) (hs : SOK st1.stash)
    (ht : IdsLt st1.stash.length (c1.tail.getD [])) :
    SOK st2.stash ∧ st1.stash <+: st2.stash ∧ c2.text = c1.text ∧ c2.children = c1.children ∧
      (∀ n ∈ tr, Deep (IdsLt st2.stash.length) n) ∧ IdsLt st2.stash.length (c2.tail.getD []) ∧
      lpot (ownW (wts st2.stash)) tr + nuS st2 (c2.tail.getD []) ≤ nuS st1 (c1.tail.getD []) := by
  -- the element that receives the tail: what is left in the dummy goes back to the child
  have hback : ∀ (dumby : Node),
      ((if Node.truthy dumby.tail then { c1 with tail := dumby.tail, tailAtomic := dumby.tailAtomic }
        else { c1 with tail := none, tailAtomic := false } : Node).tail.getD []) = dumby.tail.getD [] := by
    intro dumby
    split
    · rfl
    · next hnt =>
      cases hdt : dumby.tail with
      | none => rfl
      | some x =>
        cases x with
        | nil => rfl
        | cons c r => simp [Node.truthy, hdt] at hnt
  unfold tailStep at h
  split at h
  · simp only at h
    by_cases hat : c1.tailAtomic = true
    · simp only [hat, if_true] at h
      split at h
      · cases h
      · next tr' dumby hp =>
        cases h
        obtain ⟨o1, o2, o3, o4⟩ := ppTop_acc st1 hs hp ht (show slot false (mkEl "d") = [] from rfl)
        refine ⟨hs, List.prefix_refl _, by split <;> rfl, by split <;> rfl, o2, ?_, ?_⟩
        · rw [hback]; simpa [slot] using o3
        · rw [hback]; simpa [slot, nuS] using o1
    · simp only [hat] at h
      split at h
      · cases h
      · next data stb hh =>
        simp only [Bool.false_eq_true, if_false] at hh
        obtain ⟨a1, a2, a3, a4⟩ := handleInlineTop_spec cfg hh hs ht
        split at h
        · cases h
        · next tr' dumby hp =>
          cases h
          obtain ⟨o1, o2, o3, o4⟩ := ppTop_acc st2 a1 hp a2 (show slot false (mkEl "d") = [] from rfl)
          refine ⟨a1, a3, by split <;> rfl, by split <;> rfl, o2, ?_, ?_⟩
          · rw [hback]; simpa [slot] using o3
          · rw [hback]
            simp only [slot, nuS, Bool.false_eq_true, if_false] at o1 a4 ⊢
            omega
  · cases h
    exact ⟨hs, List.prefix_refl _, rfl, rfl, (by intro n hn; cases hn), ht, by simp⟩

/-! ### the contract -/

/-- potential of an element in a state (without its children) -/
def ownSt (st : St) (n : Node) : Nat := ownW (wts st.stash) n
/-- invariant of an element in a state: its text and tail only hold ids of existing entries -/
def okSt (st : St) (n : Node) : Prop := TopQ (IdsLt st.stash.length) n
/-- invariant of the state -/
def sokSt (st : St) : Prop := SOK st.stash
/-- the stash only grows -/
def extSt (st st' : St) : Prop := st.stash <+: st'.stash

theorem lpotS_frame' {st st' : St} (hp : st.stash <+: st'.stash) {l : List Node}
    (h : ∀ c ∈ l, Deep (IdsLt st.stash.length) c) :
    lpot (ownW (wts st'.stash)) l = lpot (ownW (wts st.stash)) l := lpotS_frame hp l h

/-- **one visit of a child satisfies the contract** -/
theorem visitOK_inline (cfg : Cfg) : VisitOK cfg ownSt okSt sokSt extSt where
  own_pos := by intro st n; simp only [ownSt, ownW]; omega
  own_children := by intro st n l; rfl
  ok_children := by intro st n l h; exact h
  ext_refl := fun st => List.prefix_refl _
  ext_trans := fun a b c h1 h2 => h1.trans h2
  frame := by
    intro st st' n he hok
    exact ⟨topQ_mono he.length_le hok, ownS_frame he hok⟩
  visit := by
    intro child v hs hok
    have hdeep : Deep (IdsLt v.st.stash.length) child := hok
    have hdc := (deep_iff _ _).1 hdeep
    obtain ⟨c, tr, v', hv, _, _⟩ := visitChild_total cfg child v hs.stashOK hdc.1.1 hdc.1.2
    refine ⟨c, tr, v', hv, ?_⟩
    rw [visitChild_eq] at hv
    split at hv
    · cases hv
    · next c1 lst st1 h1 =>
      obtain ⟨a1, a2, a3, a4, a5, a6, a7⟩ := textStep_acc cfg h1 hs (optQ_getD (IdsLt.nil _) hdc.1.1)
      split at hv
      · cases hv
      · next c2 tr' st2 h2 =>
        have htl : IdsLt st1.stash.length (c1.tail.getD []) := by
          rw [a3]; exact (optQ_getD (IdsLt.nil _) hdc.1.2).mono a2.length_le
        obtain ⟨b1, b2, b3, b4, b5, b6, b7⟩ := tailStep_acc cfg h2 a1 htl
        simp only [Option.some.injEq, Prod.mk.injEq] at hv
        obtain ⟨rfl, rfl, rfl⟩ := hv
        have hkids1 : ∀ d ∈ child.children, Deep (IdsLt v.st.stash.length) d := hdc.2
        refine ⟨b1, a2.trans b2, ?_, b5, ?_⟩
        · -- the rebuilt child
          show Deep (IdsLt st2.stash.length) _
          rw [deep_iff]
          refine ⟨⟨?_, ?_⟩, ?_⟩
          · intro s hs'
            have : c2.text = some s := hs'
            rw [b3] at this
            have h6 := a6; rw [this] at h6
            exact h6.mono b2.length_le
          · intro s hs'
            have : c2.tail = some s := hs'
            rw [this] at b6; exact b6
          · intro d hd
            simp only [b4, a4] at hd
            rcases List.mem_append.1 hd with hd | hd
            · exact deep_mono b2.length_le (a5 d hd)
            · exact deep_mono (a2.trans b2).length_le (hkids1 d hd)
        · -- the potential
          have f1 := nuS_frame b2 a6
          have f2 := lpotS_frame' b2 a5
          have f3 := lpotS_frame' (a2.trans b2) hkids1
          have f4 := nuS_frame a2 (optQ_getD (IdsLt.nil _) hdc.1.2)
          have e2 : ownSt st2 = ownW (wts st2.stash) := rfl
          have e0 : ownSt v.st = ownW (wts v.st.stash) := rfl
          rw [e2, e0]
          rw [npot_def (ownW (wts st2.stash)), npot_def (ownW (wts v.st.stash)) child]
          simp only [b4, a4, lpot_append, f2, f3]
          simp only [ownW, b3]
          simp only [nuS] at f1 f4 a7 b7
          rw [a3] at b7
          omega

/-! ### `run` terminates -/

theorem idW_nil_acc (s : Str) : idW [] s = 0 := by
  simp only [idW]
  generalize idsOf s = l
  induction l with
  | nil => rfl
  | cons id r ih => simp [idWt, ih]

theorem nuW_nil_acc_le (s : Str) : nuW [] s ≤ s.length := by
  simp only [nuW, idW_nil_acc, phiC]
  have := List.countP_le_length (p := isTrigC) (l := s)
  omega

mutual
theorem npot_le_size : ∀ (n : Node), npot (ownW []) n ≤ size n
  | ⟨tag, attrs, text, ta, children, tail, tla⟩ => by
    have := lpot_le_sizeList children
    have h1 := nuW_nil_acc_le (text.getD [])
    have h2 := nuW_nil_acc_le (tail.getD [])
    simp only [npot_def, ownW, size]
    omega
theorem lpot_le_sizeList : ∀ (l : List Node), lpot (ownW []) l ≤ sizeList l
  | [] => by simp [sizeList]
  | c :: r => by
    have := npot_le_size c
    have := lpot_le_sizeList r
    simp only [lpot_cons, sizeList]
    omega
end

/-- a tree without `STX` holds no placeholder -/
theorem deep_of_treeNoCtl {t : Node} (h : TreeNoCtl t) : Deep (IdsLt 0) t := by
  apply Node.Forall.mono _ t h
  intro m hm
  obtain ⟨_, _, h3, h4⟩ := hm
  exact ⟨fun s hs => IdsLt.of_no_stx 0 (by have := h3.1; simp only [NoCtlO, hs, Option.getD_some] at this; exact this),
    fun s hs => IdsLt.of_no_stx 0 (by have := h4.1; simp only [NoCtlO, hs, Option.getD_some] at this; exact this)⟩

/-- the provable fuel of the stack loop -/
def bigFuel (tree : Node) : Nat := (size tree + 1) ^ (size tree + 2) + 1

/-- **the two loops of `run` terminate**: the live loop over the children within the model's fuel, the stack loop
    within `bigFuel` -/
theorem run_total_big (cfg : Cfg) (tree : Node) (html : List Str) (h : Deep (IdsLt 0) tree) (g2 : Nat)
    (hg2 : size tree < g2) (g : Nat) (hg : bigFuel tree ≤ g) :
    (runLoop cfg g2 g tree [[]] { html := html }).isSome = true := by
  apply runLoop_total (visitOK_inline cfg) (size tree) g2 hg2 g tree [[]] { html := html }
  · exact sok_nil
  · exact h
  · exact npot_le_size tree
  · intro q hq; simp only [List.mem_singleton] at hq; subst hq; simp
  · simp only [phi, List.length_nil, Nat.sub_zero, Nat.add_zero]
    unfold bigFuel at hg; omega

/-! ### the HTML stash only receives entity references -/

def HtmlOK (st : St) : Prop := ∀ e ∈ st.html, entityLike e = true

theorem findMatch_html {cfg : Cfg} {pi : Nat} {data : Str} {si : Nat} {st : St} {r : Option Found} {st' : St}
    (h : findMatch cfg pi data si st = some (r, st')) (hs : HtmlOK st) : HtmlOK st' := by
  have h0 := h
  unfold findMatch at h
  simp only at h
  have hnone : ∀ {x : Option Found × St}, some (none, st) = some x → HtmlOK x.2 := by
    intro x hx; cases hx; exact hs
  split at h
  · cases h; exact hs
  · split at h
    · split at h
      · split at h <;> (cases h; exact hs)
      · cases h; exact hs
    · split at h <;> (cases h; exact hs)
    · split at h <;> (cases h; exact hs)
    · split at h
      · cases h
        obtain ⟨raw, e1, e2, _⟩ := entity_entry_entityLike h0
        intro e he
        rw [e1] at he
        rcases List.mem_append.1 he with he | he
        · exact hs e he
        · simp only [List.mem_singleton] at he; rw [he]; exact e2
      · cases h; exact hs
    · split at h <;> (cases h; exact hs)
    · split at h
      · cases h
      · cases h; exact hs
      · cases h; exact hs
    · split at h
      · cases h
      · cases h; exact hs
      · cases h; exact hs
    · cases h; exact hs
    · cases h; exact hs
    · cases h; exact hs
    · split at h <;> (cases h; exact hs)

/-- the nested `__handleInline` keeps the HTML stash well shaped -/
def HiHtml (hi : HI) : Prop := ∀ t pi st d st', hi t pi st = some (d, st') → HtmlOK st → HtmlOK st'

theorem hiOpt_html {hi : HI} (hhi : HiHtml hi) {t : Option Str} {atomic : Bool} {pi : Nat} {st : St}
    {r : Option Str} {st' : St} (h : hiOpt hi t atomic pi st = some (r, st')) (hs : HtmlOK st) : HtmlOK st' := by
  unfold hiOpt at h
  split at h
  · split at h
    · next d st1 hx => cases h; exact hhi _ _ _ _ _ hx hs
    · cases h
  · cases h; exact hs

theorem hiNode_html {hi : HI} (hhi : HiHtml hi) {pi : Nat} {n : Node} {st : St} {n' : Node} {st' : St}
    (h : hiNode hi pi n st = some (n', st')) (hs : HtmlOK st) : HtmlOK st' := by
  unfold hiNode at h
  split at h
  · cases h
  · next t st1 h1 =>
    split at h
    · cases h
    · next tl st2 h2 => cases h; exact hiOpt_html hhi h2 (hiOpt_html hhi h1 hs)

theorem hiNodes_html {hi : HI} (hhi : HiHtml hi) {pi : Nat} : ∀ (l : List Node) {st : St} {l' : List Node}
    {st' : St}, hiNodes hi pi l st = some (l', st') → HtmlOK st → HtmlOK st' := by
  intro l
  induction l with
  | nil => intro st l' st' h hs; simp only [hiNodes, Option.some.injEq, Prod.mk.injEq] at h; rw [← h.2]; exact hs
  | cons n r ih =>
    intro st l' st' h hs
    unfold hiNodes at h
    split at h
    · cases h
    · next n1 st1 h1 =>
      split at h
      · cases h
      · next r' st2 h2 => cases h; exact ih h2 (hiNode_html hhi h1 hs)

theorem applyPattern_html (cfg : Cfg) {hi : HI} (hhi : HiHtml hi) {pi : Nat} {data : Str} {si : Nat} {st : St}
    {d : Str} {m : Bool} {si' : Nat} {st' : St}
    (h : applyPattern cfg hi pi data si st = some (d, m, si', st')) (hs : HtmlOK st) : HtmlOK st' := by
  unfold applyPattern at h
  split at h
  · cases h
  · cases h
    next _ hfm => exact findMatch_html hfm hs
  · next f st0 hfm =>
    have hs0 := findMatch_html hfm hs
    split at h
    · cases h; exact hs0
    · simp only [stashNode, Option.some.injEq, Prod.mk.injEq] at h
      obtain ⟨_, _, _, rfl⟩ := h
      exact hs0
    · next n hnode =>
      split at h
      · simp only [stashNode, Option.some.injEq, Prod.mk.injEq] at h
        obtain ⟨_, _, _, rfl⟩ := h
        exact hs0
      · split at h
        · cases h
        · next n1 sta h1 =>
          split at h
          · cases h
          · next kids stb h2 =>
            simp only [stashNode, Option.some.injEq, Prod.mk.injEq] at h
            obtain ⟨_, _, _, rfl⟩ := h
            exact fun e he => (hiNodes_html hhi n.children h2 (hiNode_html hhi h1 hs0)) e he

theorem hiLoop_html {ap : Nat → Str → Nat → St → Option (Str × Bool × Nat × St)}
    (hap : ∀ pi data si st d m si' st', ap pi data si st = some (d, m, si', st') → HtmlOK st → HtmlOK st') :
    ∀ (g : Nat) (data : Str) (pi si : Nat) (st : St) (d : Str) (st' : St),
      hiLoop ap g data pi si st = some (d, st') → HtmlOK st → HtmlOK st' := by
  intro g
  induction g with
  | zero => intro data pi si st d st' h; simp [hiLoop] at h
  | succ g ih =>
    intro data pi si st d st' h hs
    unfold hiLoop at h
    split at h
    · split at h
      · cases h
      · next d1 m si1 st1 hx => exact ih _ _ _ _ _ _ h (hap _ _ _ _ _ _ _ _ hx hs)
    · cases h; exact hs

theorem handleInline_html (cfg : Cfg) : ∀ f, HiHtml (handleInline cfg f) := by
  intro f
  induction f with
  | zero => intro t pi st d st' h; simp [handleInline] at h
  | succ f ih =>
    intro t pi st d st' h hs
    unfold handleInline at h
    exact hiLoop_html (fun pi data si st d m si' st' hx hs' => applyPattern_html cfg ih hx hs') _ _ _ _ _ _ _ h hs

theorem visitChild_html (cfg : Cfg) {child : Node} {v : Visit} {c : Node} {tr : List Node} {v' : Visit}
    (h : visitChild cfg child v = some (c, tr, v')) (hs : HtmlOK v.st) : HtmlOK v'.st := by
  rw [visitChild_eq] at h
  split at h
  · cases h
  · next c1 lst st1 h1 =>
    have hs1 : HtmlOK st1 := by
      unfold textStep at h1
      split at h1
      · split at h1
        · cases h1
        · next data sta hh =>
          split at h1
          · cases h1
          · cases h1; exact handleInline_html cfg _ _ _ _ _ _ hh hs
      · cases h1; exact hs
    split at h
    · cases h
    · next c2 tr' st2 h2 =>
      simp only [Option.some.injEq, Prod.mk.injEq] at h
      obtain ⟨_, _, rfl⟩ := h
      show HtmlOK st2
      unfold tailStep at h2
      split at h2
      · simp only at h2
        by_cases hat : c1.tailAtomic = true
        · simp only [hat, if_true] at h2
          split at h2
          · cases h2
          · cases h2; exact hs1
        · simp only [hat] at h2
          split at h2
          · cases h2
          · next data stb hh =>
            simp only [Bool.false_eq_true, if_false] at hh
            split at h2
            · cases h2
            · cases h2; exact handleInline_html cfg _ _ _ _ _ _ hh hs1
      · cases h2; exact hs1

theorem visitLoop_html (cfg : Cfg) : ∀ (g : Nat) (todo : List (Node × Option Nat)) (v r : Visit),
    visitLoop cfg g todo v = some r → HtmlOK v.st → HtmlOK r.st := by
  intro g
  induction g with
  | zero => intro todo v r h; simp [visitLoop] at h
  | succ g ih =>
    intro todo v r h hs
    cases todo with
    | nil => simp only [visitLoop, Option.some.injEq] at h; rw [← h]; exact hs
    | cons x rest =>
      obtain ⟨child, orig⟩ := x
      simp only [visitLoop] at h
      split at h
      · cases h
      · next c tr v1 hx => exact ih _ _ _ h (show HtmlOK v1.st from visitChild_html cfg hx hs)

theorem runLoop_html (cfg : Cfg) (g2 : Nat) : ∀ (g : Nat) (root : Node) (stack : List Path) (st : St)
    (r : Node × St), runLoop cfg g2 g root stack st = some r → HtmlOK st → HtmlOK r.2 := by
  intro g
  induction g with
  | zero => intro root stack st r h; simp [runLoop] at h
  | succ g ih =>
    intro root stack st r h hs
    cases stack with
    | nil => simp only [runLoop, Option.some.injEq] at h; rw [← h]; exact hs
    | cons p stack =>
      simp only [runLoop] at h
      split at h
      · exact ih _ _ _ _ h hs
      · split at h
        · cases h
        · next v hv => exact ih _ _ _ _ h (visitLoop_html cfg _ _ _ _ hv hs)

theorem run_html (cfg : Cfg) {tree t : Node} {st : St} (h : run cfg tree = some (t, st)) : HtmlOK st := by
  unfold run at h
  exact runLoop_html cfg _ _ _ _ _ _ h (by intro e he; cases he)

end MdVerif.Inline
