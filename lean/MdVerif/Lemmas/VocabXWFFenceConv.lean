/-
Lemmas for C05 on the extension model, output level with fenced_code, part 5: `convertX` end to end with fenced code
blocks in the stash (`finishX_reads_fencedF` of `Lemmas/VocabXWFFenceFinish.lean` along `convertX`).  Core Lean only.
-/
import MdVerif.Lemmas.VocabXWFFenceFinish
import MdVerif.Lemmas.VocabXWFFenceHtml
import MdVerif.Lemmas.VocabXWFConv

namespace MdVerif.VocabXFence
open Py Ser Vocab2 PipelineX VocabX VocabXOut
open BlockExt (NI NI_iff allNodes allKids)

/-- **`convertX` on a `<`-free source with fenced code blocks**: given the well-formedness of the tree, that no
    attribute value holds the placeholder of a fenced block, and that the serialised tree holds no ampersand
    substitute, the output reads back inside the vocabulary of the enabled extensions enlarged by `pre`, `code`,
    `class`, `id` -/
theorem convertX_reads_fenced (x : Exts) (cfg : Pipeline.Cfg) (src out : Str)
    (hnames : ∀ u html, treeX x cfg src = .ok u html → NI VocabXWF.keysNamed u)
    (hwf : ∀ u html, treeX x cfg src = .ok u html → VocabXWF.WF u ∧ u.tag = .name "div".toList ∧ u.attrs = [])
    (hattr : ∀ u html text stash, treeX x cfg src = .ok u html → prepareX x cfg src = .ok (text, stash) →
      NoFencedInAttrs stash.length u)
    (hamp : ∀ u html, treeX x cfg src = .ok u html → contains (inner cfg.fmt u) Post.ampSubstitute = false)
    (hc : convertX x cfg src = .ok out) :
    ∃ forest, readForest cfg.fmt out = some forest ∧
      RXL (tagOkF (tagOkX x)) (keyOkF (keyOkX x)) forest = true := by
  unfold convertX at hc
  split at hc
  · cases hc
  · split at hc
    · cases hc
    · split at hc
      · simp only [Pipeline.Outcome.ok.injEq] at hc
        subst hc
        exact ⟨[], readForest_nil _, rfl⟩
      · split at hc
        · cases hc
        · cases hc
        · cases hc
        · rename_i u html ht
          obtain ⟨hw, htag, hattrs⟩ := hwf u html ht
          have hq := treeX_NI x cfg src u html ht
          have hn := hnames u html ht
          have hgn := VocabXWF.gn_of x u hq hn hw
          have hk : GNL u.children = true := by
            obtain ⟨tag, attrs, text, ta, children, tail, tla⟩ := u
            cases tag <;> simp only [GN, Bool.and_eq_true] at hgn
            · exact hgn.2
            all_goals exact absurd hgn.1 (by simp)
          have hqk : allKids (qtOf (tagOkX x) (keyOkX x)) u.children = true := by
            rw [← qtX_eq]; exact allKids_of_NI hq
          have hd : C14X.rootDiv u = true := by simp [C14X.rootDiv, htag, hattrs]
          obtain ⟨text, fenced, ents, hprep, rfl, hf, he⟩ := treeX_html_fenced ht
          obtain ⟨out', forest, h1, h2, h3⟩ :=
            finishX_reads_fencedF x cfg hf he u hd hk hqk (hattr u _ text fenced ht hprep) (hamp u _ ht)
          rw [h1] at hc
          simp only [Pipeline.Outcome.ok.injEq] at hc
          subst hc
          exact ⟨forest, h2, h3⟩

/-- the same without any hypothesis on the ampersand substitute -/
theorem convertX_shape_fenced (x : Exts) (cfg : Pipeline.Cfg) (src out : Str)
    (hnames : ∀ u html, treeX x cfg src = .ok u html → NI VocabXWF.keysNamed u)
    (hwf : ∀ u html, treeX x cfg src = .ok u html → VocabXWF.WF u ∧ u.tag = .name "div".toList ∧ u.attrs = [])
    (hattr : ∀ u html text stash, treeX x cfg src = .ok u html → prepareX x cfg src = .ok (text, stash) →
      NoFencedInAttrs stash.length u)
    (hc : convertX x cfg src = .ok out) :
    ∃ X forest, out = strip (Post.ampSub X) ∧ readForest cfg.fmt X = some forest ∧
      RXL (tagOkF (tagOkX x)) (keyOkF (keyOkX x)) forest = true := by
  unfold convertX at hc
  split at hc
  · cases hc
  · split at hc
    · cases hc
    · split at hc
      · simp only [Pipeline.Outcome.ok.injEq] at hc
        subst hc
        exact ⟨[], [], by decide, readForest_nil _, rfl⟩
      · split at hc
        · cases hc
        · cases hc
        · cases hc
        · rename_i u html ht
          obtain ⟨hw, htag, hattrs⟩ := hwf u html ht
          have hq := treeX_NI x cfg src u html ht
          have hn := hnames u html ht
          have hgn := VocabXWF.gn_of x u hq hn hw
          have hk : GNL u.children = true := by
            obtain ⟨tag, attrs, text, ta, children, tail, tla⟩ := u
            cases tag <;> simp only [GN, Bool.and_eq_true] at hgn
            · exact hgn.2
            all_goals exact absurd hgn.1 (by simp)
          have hqk : allKids (qtOf (tagOkX x) (keyOkX x)) u.children = true := by
            rw [← qtX_eq]; exact allKids_of_NI hq
          have hd : C14X.rootDiv u = true := by simp [C14X.rootDiv, htag, hattrs]
          obtain ⟨text, fenced, ents, hprep, rfl, hf, he⟩ := treeX_html_fenced ht
          obtain ⟨X, forest, h1, h2, h3⟩ :=
            finishX_shape_fencedF x cfg hf he u hd hk hqk (hattr u _ text fenced ht hprep)
          rw [h1] at hc
          simp only [Pipeline.Outcome.ok.injEq] at hc
          subst hc
          exact ⟨X, forest, rfl, h2, h3⟩

end MdVerif.VocabXFence
