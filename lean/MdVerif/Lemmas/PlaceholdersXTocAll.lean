/-
Helper lemmas for C10 on the extension model (`Props/C10XToc.lean`), part 3: the composition of the stage lemmas along
`PipelineX.convertX` when `toc` is enabled, possibly together with the inline-stage extensions `nl2br` and
`wikilinks` (every other extension off): block parser = `Block.parseDocument`, inline stage = `InlineX.runX`,
`prettify`, `TocTree.run`, `unescapeTree`, serialiser, `Post.finish`.  Core Lean only.
-/
import MdVerif.Lemmas.PlaceholdersXToc2
import MdVerif.Lemmas.PlaceholdersXTree
import MdVerif.Lemmas.PlaceholdersX

namespace MdVerif.NoCtlX
open MdVerif.NoCtl Py InlineX

/-- `toc`, and possibly the inline-stage extensions `nl2br` / `wikilinks`; every other flag is off -/
def TocFlagsOnly (x : PipelineX.Exts) : Prop :=
  x.fencedCode = false ∧ x.tables = false ∧ x.admonition = false ∧ x.defList = false ∧ x.abbr = false ∧
  x.footnotes = false ∧ x.saneLists = false ∧ x.attrList = false

instance (x : PipelineX.Exts) : Decidable (TocFlagsOnly x) := by unfold TocFlagsOnly; infer_instance

/-- how `convertX` unfolds when `toc` is on and only `nl2br` / `wikilinks` may be on besides -/
theorem convertX_toc_ok {nl wl : Bool} {cfg : Pipeline.Cfg} {src out : Str}
    (h : PipelineX.convertX { nl2br := nl, wikilinks := wl, toc := true } cfg src = .ok out) :
    out = [] ∨
    ∃ root refs t xs t2 u o,
      Block.parseDocument cfg.tab (Pipeline.prepare cfg src) = some (root, refs) ∧
      runX (xcOf cfg refs wl nl) root [] = some (t, xs) ∧
      TocTree.run { fmt := cfg.fmt,
                    post := PipelineX.postX { nl2br := nl, wikilinks := wl, toc := true } cfg xs.st.html }
        cfg.blockLevel (TreeProc.prettify t cfg.blockLevel) = .ok t2 ∧
      TreeProc.unescapeTree t2 = some u ∧
      Post.finish cfg.blockLevel xs.st.html (Ser.serialize cfg.fmt u) = some (some o) ∧ out = o := by
  simp only [PipelineX.convertX, PipelineX.Exts.unsupported] at h
  split at h
  · cases h
  · simp only [Bool.false_eq_true, if_false] at h
    split at h
    · cases h; exact .inl rfl
    · right
      simp only [PipelineX.treeX, PipelineX.prepareX, PipelineX.Exts.blockCfg, parseDocumentXT_core,
        PipelineX.refsX, PipelineX.escX, Bool.false_eq_true, if_false, if_true, Bool.or_self, Bool.false_and] at h
      have hprep : Extract.extract (Normalize.normalize cfg.tab src) = Pipeline.prepare cfg src := rfl
      rw [hprep] at h
      cases hb : Block.parseDocument cfg.tab (Pipeline.prepare cfg src) with
      | none => simp [hb] at h
      | some br =>
        obtain ⟨root, refs⟩ := br
        simp only [hb] at h
        cases hr : runX (xcOf cfg refs wl nl) root [] with
        | none => simp [hr] at h
        | some ir =>
          obtain ⟨t, xs⟩ := ir
          simp only [hr] at h
          generalize ht : (TocTree.run
              ⟨cfg.fmt, PipelineX.postX { nl2br := nl, wikilinks := wl, toc := true } cfg xs.st.html⟩
              cfg.blockLevel (TreeProc.prettify t cfg.blockLevel)) = rt at h
          cases rt with
          | oof => simp at h
          | err => simp at h
          | ood => simp at h
          | ok t2 =>
            simp only at h
            cases hu : TreeProc.unescapeTree t2 with
            | none => simp [hu] at h
            | some u =>
              simp only [hu, PipelineX.finishX] at h
              cases hs : Post.topLevelStrip (Ser.serialize cfg.fmt u) with
              | none => rw [hs] at h; cases h
              | some o1 =>
                rw [hs] at h
                simp only [PipelineX.postX, Bool.false_eq_true, if_false] at h
                cases hraw : Post.rawHtml cfg.blockLevel xs.st.html (Post.rawHtmlFuel xs.st.html) o1 with
                | none => rw [hraw] at h; cases h
                | some r =>
                  rw [hraw] at h
                  simp only [Option.map_some, Pipeline.Outcome.ok.injEq] at h
                  subst h
                  refine ⟨root, refs, t, xs, t2, u, _, rfl, hr, ht, hu, ?_, rfl⟩
                  simp only [Post.finish, Post.post, hs, hraw, Option.map_some]

/-- end to end with toc (and nl2br, wikilinks) on the domain of `C10_partial_links`; with wikilinks the normalised
    text has no `[` immediately before a blank -/
theorem convertX_noctl_toc {x : PipelineX.Exts} (hx : TocFlagsOnly x)
    {cfg : Pipeline.Cfg} (hcfg : EscOK cfg.esc) {src out : Str} (hd : C10DomainL cfg.tab src)
    (hq : Qw x.wikilinks (Normalize.normalize cfg.tab src))
    (h : PipelineX.convertX x cfg src = .ok out) : NoCtl out := by
  obtain ⟨fc, tb, ad, dl, ab, fnn, sl, nl, wl, al, toc⟩ := x
  obtain ⟨h1, h2, h3, h4, h5, h6, h7, h8⟩ := hx
  simp only at h1 h2 h3 h4 h5 h6 h7 h8 hq
  subst h1 h2 h3 h4 h5 h6 h7 h8
  cases toc with
  | false => exact convertX_noctl_inline ⟨rfl, rfl, rfl, rfl, rfl, rfl, rfl, rfl, rfl⟩ hcfg hd hq h
  | true =>
    rcases convertX_toc_ok h with rfl | ⟨root, refs, t, xs, t2, u, o, hb, hr, ht, hu, hf, rfl⟩
    · exact noCtl_nil
    · have hP : (Blk.AllC (fun c => Blk.okc c && domCharB c) (Pipeline.prepare cfg src) ∧
          Adj3 (Pipeline.prepare cfg src)) ∧ Qw wl (Pipeline.prepare cfg src) :=
        ⟨prepare_domB cfg hd, by rw [prepare_eq_normalize cfg hd]; exact hq⟩
      obtain ⟨hroot, hrefs, -⟩ := BlkB.parseDocument_strs (strDom_adj3q wl) cfg.tab _ hP hb
      have htree : root.Forall (WNodeB 0) := Node.Forall.mono (fun _ hn => (bnodeP_split hn).1) root hroot
      have htreeq : root.Forall (QN wl) := Node.Forall.mono (fun _ hn => (bnodeP_split hn).2) root hroot
      have hhi := hiSpecXB_inline (xc := xcOf cfg refs wl nl) (wl := wl) (nl := nl) hcfg
        (refsOK_of_refsC cfg.esc hrefs) rfl
      obtain ⟨ht', hhtml⟩ := runX_specB hhi htree htreeq hr
      have hfn : t.Forall FNode := Node.Forall.mono (fun _ hn => fnode_of_wnodeB hn) t ht'
      have hpx := forall_fnodeX_of_fnode (prettify_fnode hfn cfg.blockLevel)
      rw [hhtml] at ht hf
      have htoc := toc_run_fnodeX hpx ht (postX_noctl _ cfg)
      have hun := unescapeTree_fnodeX htoc hu
      have hser := serialize_noctl cfg.fmt hun
      exact finish_noctl hser hf

end MdVerif.NoCtlX
