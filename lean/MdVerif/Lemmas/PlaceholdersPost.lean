/-
Helper lemmas for C10 (`Props/C10.lean`), part: post-conditions of the three restore steps
(`UnescapeTreeprocessor`, `AndSubstitutePostprocessor`, `RawHtmlPostprocessor`).  Core Lean only.

A. `unescapeText_post` / `unescapeTree_post`: when every replaced code yields a character that is not a decimal
   digit, STX or ETX, no `STX \d+ ETX` is left (false without the hypothesis: kernel-checked counterexample);
   `unescapeText_wf` / `unescapeTree_fnode`: on the trees the inline engine hands over, nothing of STX/ETX is left.
B. `ampSub_post`: no `AMP_SUBSTITUTE` is left; `ampSub_noctl`.
C. `subPass_post`, `rawHtml_post`, `rawHtml_total`: when every stash entry has the shape `&…;` without STX (what
   the entity pattern stores: `entity_entry_entityLike`), one pass removes every placeholder of the stash, the
   second pass is the identity, and `rawHtmlFuel` suffices.  Without the shape hypothesis both fail (examples).
-/
import MdVerif.Lemmas.PlaceholdersBasic

namespace MdVerif.NoCtl
open Py

/-! ## A. `UnescapeTreeprocessor` -/

theorem unescapeText_drop (k : Nat) (s : Str) : TreeProc.unescapeText k s = TreeProc.unescapeText 0 (s.drop k) := by
  induction k generalizing s with
  | zero => rfl
  | succ k ih =>
    cases s with
    | nil => cases k <;> rfl
    | cons c s => simp only [TreeProc.unescapeText, List.drop_succ_cons]; exact ih s

theorem codesOk_drop (k : Nat) (s : Str) : codesOk k s = codesOk 0 (s.drop k) := by
  induction k generalizing s with
  | zero => rfl
  | succ k ih =>
    cases s with
    | nil => cases k <;> rfl
    | cons c s => simp only [codesOk, List.drop_succ_cons]; exact ih s

private theorem isDecimal_STX : isDecimal STX = false := by decide
private theorem isDecimal_ETX : isDecimal ETX = false := by decide

/-- step at a match -/
theorem unescapeText_match {c : Char} {s : Str} (h : escSeqAt (c :: s) = true) :
    TreeProc.unescapeText 0 (c :: s) =
      if decToNat (s.take (spanLen isDecimal s)) < 0x110000 then
        (TreeProc.unescapeText 0 (s.drop (spanLen isDecimal s + 1))).map
          (Char.ofNat (decToNat (s.take (spanLen isDecimal s))) :: ·)
      else none := by
  simp only [escSeqAt, Bool.and_eq_true, decide_eq_true_eq] at h
  obtain ⟨hc, h2⟩ := h
  have hc' : c = TreeProc.STX := hc
  have h2' : (spanLen isDecimal s > 0 && s[spanLen isDecimal s]? == some TreeProc.ETX) = true := by
    show (spanLen isDecimal s > 0 && s[spanLen isDecimal s]? == some ETX) = true
    simpa using h2
  rw [TreeProc.unescapeText]
  simp only [hc', if_true, h2', unescapeText_drop (spanLen isDecimal s + 1)]

theorem unescapeText_nomatch {c : Char} {s : Str} (h : escSeqAt (c :: s) = false) :
    TreeProc.unescapeText 0 (c :: s) = (TreeProc.unescapeText 0 s).map (c :: ·) := by
  rw [TreeProc.unescapeText]
  by_cases hc : c = TreeProc.STX
  · have h2 : (spanLen isDecimal s > 0 && s[spanLen isDecimal s]? == some TreeProc.ETX) = false := by
      have hc' : c = STX := hc
      show (spanLen isDecimal s > 0 && s[spanLen isDecimal s]? == some ETX) = false
      simpa [escSeqAt, hc'] using h
    simp only [hc, if_true, h2, Bool.false_eq_true, if_false]
  · simp only [hc, if_false]

theorem codesOk_match {c : Char} {s : Str} (h : escSeqAt (c :: s) = true) :
    codesOk 0 (c :: s) =
      (codeCharOk (decToNat (s.take (spanLen isDecimal s))) && codesOk 0 (s.drop (spanLen isDecimal s + 1))) := by
  simp only [escSeqAt, Bool.and_eq_true, decide_eq_true_eq] at h
  obtain ⟨hc, h2⟩ := h
  have h2' : (spanLen isDecimal s > 0 && s[spanLen isDecimal s]? == some ETX) = true := by
    simpa using h2
  rw [codesOk]
  simp only [hc, if_true, h2', codesOk_drop (spanLen isDecimal s + 1)]

theorem codesOk_nomatch {c : Char} {s : Str} (h : escSeqAt (c :: s) = false) :
    codesOk 0 (c :: s) = codesOk 0 s := by
  rw [codesOk]
  by_cases hc : c = STX
  · have h2 : (spanLen isDecimal s > 0 && s[spanLen isDecimal s]? == some ETX) = false := by
      simpa [escSeqAt, hc] using h
    simp only [hc, if_true, h2, Bool.false_eq_true, if_false]
  · simp only [hc, if_false]

private theorem spanLen_digits_etx {ds : Str} (hd : ds.all isDecimal = true) (rest : Str) :
    spanLen isDecimal (ds ++ ETX :: rest) = ds.length := by
  rw [spanLen_append_of_all hd, spanLen_cons, isDecimal_ETX]; rfl

theorem escSeqAt_of_digits {ds rest : Str} (hne : ds ≠ []) (hd : ds.all isDecimal = true) :
    escSeqAt (STX :: (ds ++ ETX :: rest)) = true := by
  have hsp := spanLen_digits_etx hd rest
  have hpos : 0 < ds.length := List.length_pos_iff.2 hne
  simp only [escSeqAt, hsp, decide_true, Bool.true_and]
  simp [hpos]

theorem escSeqAt_digits {r : Str} (h : escSeqAt (STX :: r) = true) :
    ∃ ds rest, ds ≠ [] ∧ ds.all isDecimal = true ∧ r = ds ++ ETX :: rest := by
  simp only [escSeqAt, decide_true, Bool.true_and, Bool.and_eq_true, decide_eq_true_eq, beq_iff_eq] at h
  obtain ⟨hpos, hd⟩ := h
  obtain ⟨hlt, hget⟩ := List.getElem?_eq_some_iff.1 hd
  refine ⟨r.take (spanLen isDecimal r), r.drop (spanLen isDecimal r + 1), ?_, ?_, ?_⟩
  · intro h0
    have := congrArg List.length h0
    simp only [List.length_take, List.length_nil] at this; omega
  · exact List.all_eq_true.2 (spanLen_prefix_all isDecimal r)
  · rw [← hget, List.getElem_cons_drop, List.take_append_drop]

theorem escSeqAt_head {c : Char} {s : Str} (h : escSeqAt (c :: s) = true) : c = STX := by
  simp only [escSeqAt, Bool.and_eq_true, decide_eq_true_eq] at h
  exact h.1

theorem codeCharOk_iff {v : Nat} : codeCharOk v = true ↔
    isDecimal (Char.ofNat v) = false ∧ Char.ofNat v ≠ STX ∧ Char.ofNat v ≠ ETX := by
  simp [codeCharOk, and_assoc]

/-- a decimal digit or ETX at the head of the output was copied from the head of the input -/
theorem unesc_copy {s t : Str} {x : Char} (hx : isDecimal x = true ∨ x = ETX) (h : codesOk 0 s = true)
    (hr : TreeProc.unescapeText 0 s = some (x :: t)) :
    ∃ s', s = x :: s' ∧ codesOk 0 s' = true ∧ TreeProc.unescapeText 0 s' = some t := by
  cases s with
  | nil => simp [TreeProc.unescapeText] at hr
  | cons c s =>
    by_cases hm : escSeqAt (c :: s) = true
    · exfalso
      rw [codesOk_match hm, Bool.and_eq_true, codeCharOk_iff] at h
      rw [unescapeText_match hm] at hr
      split at hr
      · simp only [Option.map_eq_some_iff, List.cons.injEq] at hr
        obtain ⟨_, _, hxe, _⟩ := hr
        rw [hxe] at h
        rcases hx with hx | hx
        · rw [h.1.1] at hx; cases hx
        · exact h.1.2.2 hx
      · cases hr
    · have hm' : escSeqAt (c :: s) = false := by simpa using hm
      rw [codesOk_nomatch hm'] at h
      rw [unescapeText_nomatch hm'] at hr
      simp only [Option.map_eq_some_iff, List.cons.injEq] at hr
      obtain ⟨t', ht', rfl, rfl⟩ := hr
      exact ⟨s, rfl, h, ht'⟩

theorem unesc_copy_digits {ds : Str} (hd : ds.all isDecimal = true) {s rest : Str} (h : codesOk 0 s = true)
    (hr : TreeProc.unescapeText 0 s = some (ds ++ ETX :: rest)) : ∃ rest', s = ds ++ ETX :: rest' := by
  induction ds generalizing s with
  | nil =>
    obtain ⟨s', rfl, _, _⟩ := unesc_copy (.inr rfl) h hr
    exact ⟨s', rfl⟩
  | cons d ds ih =>
    simp only [List.all_cons, Bool.and_eq_true] at hd
    obtain ⟨s', rfl, h', hr'⟩ := unesc_copy (.inl hd.1) h hr
    obtain ⟨rest', rfl⟩ := ih hd.2 h' hr'
    exact ⟨rest', rfl⟩

theorem unescapeText_post_aux (n : Nat) : ∀ {s t : Str}, s.length ≤ n → codesOk 0 s = true →
    TreeProc.unescapeText 0 s = some t → hasEscSeq t = false := by
  induction n with
  | zero =>
    intro s t hl _ hr
    have : s = [] := List.length_eq_zero_iff.1 (by omega)
    subst this
    simp only [TreeProc.unescapeText, Option.some.injEq] at hr
    subst hr; rfl
  | succ n ih =>
    intro s t hl h hr
    cases s with
    | nil =>
      simp only [TreeProc.unescapeText, Option.some.injEq] at hr
      subst hr; rfl
    | cons c s =>
      by_cases hm : escSeqAt (c :: s) = true
      · rw [codesOk_match hm, Bool.and_eq_true, codeCharOk_iff] at h
        rw [unescapeText_match hm] at hr
        split at hr
        · simp only [Option.map_eq_some_iff] at hr
          obtain ⟨t', ht', rfl⟩ := hr
          have hl' : (s.drop (spanLen isDecimal s + 1)).length ≤ n := by
            simp only [List.length_drop, List.length_cons] at hl ⊢; omega
          have := ih hl' h.2 ht'
          simp only [hasEscSeq, this, Bool.or_false]
          cases hq : escSeqAt (Char.ofNat (decToNat (List.take (spanLen isDecimal s) s)) :: t') with
          | false => rfl
          | true => exact absurd (escSeqAt_head hq) h.1.2.1
        · cases hr
      · have hm' : escSeqAt (c :: s) = false := by simpa using hm
        rw [codesOk_nomatch hm'] at h
        rw [unescapeText_nomatch hm'] at hr
        simp only [Option.map_eq_some_iff] at hr
        obtain ⟨t', ht', rfl⟩ := hr
        have hl' : s.length ≤ n := by simp only [List.length_cons] at hl; omega
        have := ih hl' h ht'
        simp only [hasEscSeq, this, Bool.or_false]
        cases hq : escSeqAt (c :: t') with
        | false => rfl
        | true =>
          exfalso
          have hc := escSeqAt_head hq
          subst hc
          obtain ⟨ds, rest, hne, hd, rfl⟩ := escSeqAt_digits hq
          obtain ⟨rest', rfl⟩ := unesc_copy_digits hd h ht'
          rw [escSeqAt_of_digits hne hd] at hm'
          cases hm'

/-- every code that is replaced yields a character that is not a decimal digit, STX or ETX ⇒ no `STX \d+ ETX` is
    left.  (Without the hypothesis this is false: unescape("\x02\x0248\x03\x03") = "\x020\x03".) -/
theorem unescapeText_post {s t : Str} (h : codesOk 0 s = true) (hr : TreeProc.unescapeText 0 s = some t) :
    hasEscSeq t = false := unescapeText_post_aux s.length (Nat.le_refl _) h hr

example : TreeProc.unescapeText 0 [STX, STX, '4', '8', ETX, ETX] = some [STX, '0', ETX] := by decide   -- the counterexample, kernel-checked

private theorem toNat_ofNat_cases (v : Nat) : (Char.ofNat v).toNat = v ∨ (Char.ofNat v).toNat = 0 := by
  unfold Char.ofNat
  split
  · left; simp [Char.ofNatAux, Char.toNat]
  · right; rfl

/-- `chr v` of an acceptable code is neither STX nor ETX (for a surrogate `Char.ofNat v` is `'\0'`) -/
theorem chr_okCode_ne_ctl {v : Nat} (h : okCode v) : Char.ofNat v ≠ STX ∧ Char.ofNat v ≠ ETX := by
  obtain ⟨_, h2, h3⟩ := h
  have e2 : STX.toNat = 2 := by decide
  have e3 : ETX.toNat = 3 := by decide
  constructor <;> intro he <;> have := congrArg Char.toNat he <;> rcases toNat_ofNat_cases v with hv | hv <;>
    rw [hv] at this <;> omega

private theorem natToDec_all_decimal (v : Nat) : (natToDec v).all isDecimal = true :=
  List.all_eq_true.2 fun c hc => isDecimal_of_isAsciiDigit (natToDec_digits v c hc)

/-- the scanner on an escape token -/
theorem unescapeText_escToken {v : Nat} (hv : v < 0x110000) (s : Str) :
    TreeProc.unescapeText 0 (escToken v ++ s) = (TreeProc.unescapeText 0 s).map (Char.ofNat v :: ·) := by
  have hd := natToDec_all_decimal v
  have e : escToken v ++ s = STX :: (natToDec v ++ ETX :: s) := by simp [escToken]
  rw [e, unescapeText_match (escSeqAt_of_digits (natToDec_ne_nil v) hd), spanLen_digits_etx hd]
  simp only [List.take_left', decToNat_natToDec, hv, if_true]
  congr 2
  rw [show (natToDec v).length + 1 = (natToDec v ++ [ETX]).length by simp,
    show natToDec v ++ ETX :: s = (natToDec v ++ [ETX]) ++ s by simp, List.drop_left]

theorem escSeqAt_of_ne {c : Char} (h : c ≠ STX) (s : Str) : escSeqAt (c :: s) = false := by
  simp [escSeqAt, h]

/-- on strings made of ordinary characters and escape tokens the result has no STX/ETX at all -/
theorem unescapeText_wf {s t : Str} (h : WF true 0 s) (hr : TreeProc.unescapeText 0 s = some t) : NoCtl t := by
  induction h generalizing t with
  | nil =>
    simp only [TreeProc.unescapeText, Option.some.injEq] at hr
    subst hr; exact noCtl_nil
  | plain c s h1 h2 _ ih =>
    rw [unescapeText_nomatch (escSeqAt_of_ne h1 s)] at hr
    simp only [Option.map_eq_some_iff] at hr
    obtain ⟨t', ht', rfl⟩ := hr
    exact noCtl_cons.2 ⟨⟨h1, h2⟩, ih ht'⟩
  | ph i s hi _ _ => omega
  | tok v s _ hv _ ih =>
    rw [unescapeText_escToken hv.1] at hr
    simp only [Option.map_eq_some_iff] at hr
    obtain ⟨t', ht', rfl⟩ := hr
    exact noCtl_cons.2 ⟨chr_okCode_ne_ctl hv, ih ht'⟩

/-- a well-formed string is always restored (`chr` does not raise) -/
theorem unescapeText_wf_some {s : Str} (h : WF true 0 s) : ∃ t, TreeProc.unescapeText 0 s = some t := by
  induction h with
  | nil => exact ⟨[], rfl⟩
  | plain c s h1 h2 _ ih =>
    obtain ⟨t, ht⟩ := ih
    exact ⟨c :: t, by rw [unescapeText_nomatch (escSeqAt_of_ne h1 s), ht]; rfl⟩
  | ph i s hi _ _ => omega
  | tok v s _ hv _ ih =>
    obtain ⟨t, ht⟩ := ih
    exact ⟨Char.ofNat v :: t, by rw [unescapeText_escToken hv.1, ht]; rfl⟩

theorem unescapeText_noctl {s : Str} (h : NoCtl s) : TreeProc.unescapeText 0 s = some s := by
  induction s with
  | nil => rfl
  | cons c s ih =>
    obtain ⟨⟨h1, _⟩, h3⟩ := noCtl_cons.1 h
    rw [unescapeText_nomatch (escSeqAt_of_ne h1 s), ih h3]; rfl

/-! ### the tree walk -/

theorem unescAttrs_forall {R P Q : Str → Prop}
    (hPQ : ∀ v v', P v → TreeProc.unescapeText 0 v = some v' → Q v') :
    ∀ {attrs a : List (Str × Str)}, TreeProc.unescAttrs attrs = some a → (∀ kv ∈ attrs, R kv.1 ∧ P kv.2) →
      ∀ kv ∈ a, R kv.1 ∧ Q kv.2
  | [], a, hr, _ => by
    simp only [TreeProc.unescAttrs, Option.some.injEq] at hr
    subst hr; simp
  | (k, v) :: r, a, hr, h => by
    simp only [TreeProc.unescAttrs] at hr
    split at hr
    · next v' r' hv hr' =>
      simp only [Option.some.injEq] at hr
      subst hr
      intro kv hkv
      rcases List.mem_cons.1 hkv with rfl | hkv
      · exact ⟨(h (k, v) (by simp)).1, hPQ v v' (h (k, v) (by simp)).2 hv⟩
      · exact unescAttrs_forall hPQ hr' (fun kv hkv => h kv (List.mem_cons_of_mem _ hkv)) kv hkv
    · cases hr

/-- what `UnescapeTreeprocessor.run` does to the strings of one element -/
def UnescStep (n u : Node) : Prop :=
  u.tag = n.tag ∧ TreeProc.unescAttrs n.attrs = some u.attrs ∧
  (if (Node.truthy n.text && !isCode n) = true then
     ∃ t, TreeProc.unescapeText 0 (n.text.getD []) = some t ∧ u.text = some t
   else u.text = n.text) ∧
  (if Node.truthy n.tail = true then ∃ t, TreeProc.unescapeText 0 (n.tail.getD []) = some t ∧ u.tail = some t
   else u.tail = n.tail)

mutual
theorem unescapeTree_forall {P Q : Node → Prop} (hstep : ∀ n u, P n → UnescStep n u → Q u) :
    ∀ {t u : Node}, t.Forall P → TreeProc.unescapeTree t = some u → u.Forall Q
  | ⟨tag, attrs, text, ta, children, tail, tla⟩, u, h, hr => by
    simp only [Node.Forall] at h
    simp only [TreeProc.unescapeTree] at hr
    split at hr
    · next t tl a ks htext htail hattrs hkids =>
      simp only [Option.some.injEq] at hr
      subst hr
      simp only [Node.Forall]
      refine ⟨hstep _ _ h.1 ⟨rfl, hattrs, ?_, ?_⟩, unescapeKids_forall hstep h.2 hkids⟩
      · show (if (Node.truthy text && !(tag == .name "code".toList)) = true then _ else _)
        split
        · next hc =>
          rw [if_pos hc] at htext
          simp only [Option.map_eq_some_iff] at htext
          obtain ⟨t', ht', rfl⟩ := htext
          exact ⟨t', ht', rfl⟩
        · next hc =>
          rw [if_neg hc] at htext
          simp only [Option.some.injEq] at htext
          exact htext.symm
      · show (if Node.truthy tail = true then _ else _)
        split
        · next hc =>
          rw [if_pos hc] at htail
          simp only [Option.map_eq_some_iff] at htail
          obtain ⟨t', ht', rfl⟩ := htail
          exact ⟨t', ht', rfl⟩
        · next hc =>
          rw [if_neg hc] at htail
          simp only [Option.some.injEq] at htail
          exact htail.symm
    · cases hr
theorem unescapeKids_forall {P Q : Node → Prop} (hstep : ∀ n u, P n → UnescStep n u → Q u) :
    ∀ {l l' : List Node}, Node.ForallL P l → TreeProc.unescapeKids l = some l' → Node.ForallL Q l'
  | [], l', _, hr => by
    simp only [TreeProc.unescapeKids, Option.some.injEq] at hr
    subst hr; simp [Node.ForallL]
  | c :: r, l', h, hr => by
    simp only [Node.ForallL] at h
    simp only [TreeProc.unescapeKids] at hr
    split at hr
    · next c' r' hc hr' =>
      simp only [Option.some.injEq] at hr
      subst hr
      simp only [Node.ForallL]
      exact ⟨unescapeTree_forall hstep h.1 hc, unescapeKids_forall hstep h.2 hr'⟩
    · cases hr
end

private theorem getD_of_not_truthy {t : Option Str} (h : ¬ Node.truthy t = true) : t.getD [] = [] := by
  cases t with
  | none => rfl
  | some s => cases s with
    | nil => rfl
    | cons c s => exact absurd rfl h

private theorem isCode_congr {n u : Node} (h : u.tag = n.tag) : isCode u = isCode n := by simp [isCode, h]

theorem unescStep_post {n u : Node} (h : CodesOkNode n) (hs : UnescStep n u) : UnescPostNode u := by
  obtain ⟨htag, hattrs, htext, htail⟩ := hs
  obtain ⟨h1, h2, h3⟩ := h
  refine ⟨?_, ?_, ?_⟩
  · intro hc
    rw [isCode_congr htag] at hc
    simp only [hc, Bool.not_false, Bool.and_true] at htext
    split at htext
    · obtain ⟨t, ht, hu⟩ := htext
      rw [hu]; exact unescapeText_post (h1 hc) ht
    · next hnt => rw [htext, getD_of_not_truthy hnt]; rfl
  · split at htail
    · obtain ⟨t, ht, hu⟩ := htail
      rw [hu]; exact unescapeText_post h2 ht
    · next hnt => rw [htail, getD_of_not_truthy hnt]; rfl
  · intro kv hkv
    exact (unescAttrs_forall (R := fun _ => True) (P := fun v => codesOk 0 v = true)
      (Q := fun v => hasEscSeq v = false) (fun v v' hv hr => unescapeText_post hv hr) hattrs
      (fun kv hkv => ⟨trivial, h3 kv hkv⟩) kv hkv).2

theorem unescapeTree_post {t u : Node} (h : t.Forall CodesOkNode) (hr : TreeProc.unescapeTree t = some u) :
    u.Forall UnescPostNode :=
  unescapeTree_forall (fun _ _ => unescStep_post) h hr

theorem unescStep_fnode {n u : Node} (h : FNode n) (hs : UnescStep n u) : NodeNoCtl u := by
  obtain ⟨htag, hattrs, htext, htail⟩ := hs
  obtain ⟨h1, h2, h3, h4, h5⟩ := h
  refine ⟨by rw [htag]; exact h1, ?_, ?_, ?_⟩
  · exact unescAttrs_forall (R := NoCtl) (P := NoCtl) (Q := NoCtl)
      (fun v v' hv hr => by rw [unescapeText_noctl hv] at hr; cases hr; exact hv) hattrs h2
  · split at htext
    · obtain ⟨t, ht, hu⟩ := htext
      rw [hu]; exact unescapeText_wf h4 ht
    · next hc =>
      rw [htext]
      simp only [Bool.and_eq_true, Bool.not_eq_true', not_and, Bool.not_eq_false] at hc
      by_cases hnt : Node.truthy n.text = true
      · exact h5 (hc hnt)
      · show NoCtl _
        rw [getD_of_not_truthy hnt]; exact noCtl_nil
  · split at htail
    · obtain ⟨t, ht, hu⟩ := htail
      rw [hu]; exact unescapeText_wf h3 ht
    · next hnt =>
      rw [htail]
      show NoCtl _
      rw [getD_of_not_truthy hnt]; exact noCtl_nil

theorem unescapeTree_fnode {t u : Node} (h : t.Forall FNode) (hr : TreeProc.unescapeTree t = some u) :
    TreeNoCtl u :=
  unescapeTree_forall (fun _ _ => unescStep_fnode) h hr

theorem unescAttrs_noctl {attrs : List (Str × Str)} (h : attrsNoCtl attrs) :
    TreeProc.unescAttrs attrs = some attrs := by
  induction attrs with
  | nil => rfl
  | cons kv r ih =>
    obtain ⟨k, v⟩ := kv
    have h1 := (h (k, v) (by simp)).2
    have h2 := ih (fun kv hkv => h kv (List.mem_cons_of_mem _ hkv))
    simp only [TreeProc.unescAttrs, unescapeText_noctl h1, h2]

mutual
/-- on the trees handed to it, `UnescapeTreeprocessor.run` does not raise -/
theorem unescapeTree_fnode_some : ∀ {t : Node}, t.Forall FNode → ∃ u, TreeProc.unescapeTree t = some u
  | ⟨tag, attrs, text, ta, children, tail, tla⟩, h => by
    simp only [Node.Forall] at h
    obtain ⟨⟨_, h2, h3, h4, _⟩, hk⟩ := h
    obtain ⟨ks, hks⟩ := unescapeKids_fnode_some hk
    obtain ⟨t1, ht1⟩ := unescapeText_wf_some h4
    obtain ⟨t2, ht2⟩ := unescapeText_wf_some h3
    simp only at ht1 ht2
    simp only [TreeProc.unescapeTree, unescAttrs_noctl h2, hks, ht1, ht2, Option.map_some]
    split
    · exact ⟨_, rfl⟩
    · next hx =>
      exfalso
      exact hx (if (Node.truthy text && !(tag == Tag.name "code".toList)) = true then some t1 else text)
        (if Node.truthy tail = true then some t2 else tail) attrs ks (by split <;> rfl) (by split <;> rfl) rfl rfl
theorem unescapeKids_fnode_some : ∀ {l : List Node}, Node.ForallL FNode l → ∃ l', TreeProc.unescapeKids l = some l'
  | [], _ => ⟨[], rfl⟩
  | c :: r, h => by
    simp only [Node.ForallL] at h
    obtain ⟨c', hc⟩ := unescapeTree_fnode_some h.1
    obtain ⟨r', hr⟩ := unescapeKids_fnode_some h.2
    exact ⟨c' :: r', by simp only [TreeProc.unescapeKids, hc, hr]⟩
end

/-- the counterexample to `unescapeText_post` without `codesOk`, kernel-checked: the replaced code 48 yields the
    digit `0`, which completes a new sequence with the surrounding STX and ETX -/
example : TreeProc.unescapeText 0 [STX, STX, '4', '8', ETX, ETX] = some [STX, '0', ETX] ∧
    hasEscSeq [STX, '0', ETX] = true ∧ codesOk 0 [STX, STX, '4', '8', ETX, ETX] = false := by decide

/-- the hypotheses are satisfiable on non-trivial inputs -/
example : codesOk 0 ('a' :: escToken 42 ++ 'b' :: escToken 92) = true := by decide
example : WF true 0 ('a' :: (escToken 42 ++ ['b'])) := .plain _ _ (by decide) (by decide) (.tok 42 _ rfl (by decide) (.plain _ _ (by decide) (by decide) .nil))

/-! ## B. `AndSubstitutePostprocessor` -/

private theorem contains_cons (c : Char) (s pat : Str) :
    contains (c :: s) pat = (startsWith (c :: s) pat || contains s pat) := by
  unfold contains
  rw [find_cons]
  split
  · next h => simp [h]
  · next h =>
    have : startsWith (c :: s) pat = false := by simpa using h
    rw [this]; cases find pat s <;> rfl

/-- a prefix of the output made of characters that are neither written nor start a match was copied -/
theorem startsWith_replaceAux {p0 b : Char} {pat' : Str} : ∀ (q s : Str),
    startsWith (replaceAux (p0 :: pat') [b] 0 s) q = true → (∀ c ∈ q, c ≠ p0 ∧ c ≠ b) → startsWith s q = true
  | [], s, _, _ => startsWith_nil s
  | x :: q, [], h, _ => by simp at h
  | x :: q, c :: s, h, hq => by
    rw [replaceAux_zero_cons] at h
    split at h
    · next hm =>
      simp only [List.singleton_append, startsWith_cons_cons, Bool.and_eq_true, decide_eq_true_eq] at h
      exact absurd h.1.symm (hq x (by simp)).2
    · simp only [startsWith_cons_cons, Bool.and_eq_true, decide_eq_true_eq] at h ⊢
      exact ⟨h.1, startsWith_replaceAux q s h.2 (fun c hc => hq c (List.mem_cons_of_mem _ hc))⟩

theorem ampSub_post_aux (k : Nat) (s : Str) :
    contains (replaceAux Post.ampSubstitute ['&'] k s) Post.ampSubstitute = false := by
  fun_induction replaceAux Post.ampSubstitute ['&'] k s with
  | case1 => rfl
  | case2 k c s ih => exact ih
  | case3 c s hm ih =>
    rw [List.singleton_append, contains_cons, ih, Bool.or_false]
    rfl
  | case4 c s hm ih =>
    rw [contains_cons, ih, Bool.or_false]
    cases hq : startsWith (c :: replaceAux Post.ampSubstitute ['&'] 0 s) Post.ampSubstitute with
    | false => rfl
    | true =>
      exfalso
      apply hm
      simp only [Post.ampSubstitute, startsWith_cons_cons, Bool.and_eq_true, decide_eq_true_eq] at hq ⊢
      refine ⟨hq.1, ?_⟩
      have := startsWith_replaceAux (p0 := Post.STX) (b := '&') (pat' := ['a', 'm', 'p', Post.ETX])
        ['a', 'm', 'p', Post.ETX] s (by simpa [startsWith_cons_cons] using hq.2) (by decide)
      simpa [startsWith_cons_cons] using this

theorem ampSub_post (s : Str) : hasAmpSub (Post.ampSub s) = false := ampSub_post_aux 0 s

theorem mem_replaceAux {pat b : Str} {k : Nat} {s : Str} {c : Char} (h : c ∈ replaceAux pat b k s) :
    c ∈ s ∨ c ∈ b := by
  fun_induction replaceAux pat b k s with
  | case1 => simp at h
  | case2 k d s ih => rcases ih h with h | h <;> simp [h]
  | case3 d s hm ih =>
    rcases List.mem_append.1 h with h | h
    · exact .inr h
    · rcases ih h with h | h <;> simp [h]
  | case4 d s hm ih =>
    rcases List.mem_cons.1 h with h | h
    · simp [h]
    · rcases ih h with h | h <;> simp [h]

theorem mem_ampSub {s : Str} {c : Char} (h : c ∈ Post.ampSub s) : c ∈ s ∨ c = '&' := by
  rcases mem_replaceAux (k := 0) h with h | h
  · exact .inl h
  · exact .inr (by simpa using h)

theorem ampSub_noctl {s : Str} (h : NoCtl s) : NoCtl (Post.ampSub s) := by
  rw [noCtl_iff] at h ⊢
  intro c hc
  rcases mem_ampSub hc with hc | rfl
  · exact h c hc
  · decide

/-! ## C. `RawHtmlPostprocessor` -/

theorem subPass_drop (bl stash : List Str) (k : Nat) (s : Str) :
    Post.subPass bl stash k s = Post.subPass bl stash 0 (s.drop k) := by
  induction k generalizing s with
  | zero => rfl
  | succ k ih =>
    cases s with
    | nil => cases k <;> rfl
    | cons c s => simp only [Post.subPass, List.drop_succ_cons]; exact ih s

theorem rawHtml_nil (bl : List Str) (f : Nat) (text : Str) : Post.rawHtml bl [] (f + 1) text = some text := rfl

/-- the digits of a placeholder -/
def PhDigits (ds : Str) : Prop := ds ≠ [] ∧ ds.all isAsciiDigit = true

/-- `STX wzxhzdk:<digits> ETX` -/
def phStr (ds : Str) : Str := Post.htmlPrefix ++ ds ++ [ETX]

theorem phStr_eq (ds : Str) : phStr ds = STX :: ('w' :: 'z' :: 'x' :: 'h' :: 'z' :: 'd' :: 'k' :: ':' :: (ds ++ [ETX])) := rfl

private theorem isAsciiDigit_ETX : isAsciiDigit ETX = false := by decide

theorem htmlPhAt_phStr {ds : Str} (h : PhDigits ds) (rest : Str) :
    Post.htmlPhAt (phStr ds ++ rest) = some (ds, 10 + ds.length) := by
  have hsp : spanLen isAsciiDigit (ds ++ ETX :: rest) = ds.length := by
    rw [spanLen_append_of_all h.2, spanLen_cons, isAsciiDigit_ETX]; rfl
  have hpos : 0 < ds.length := List.length_pos_iff.2 h.1
  have e : phStr ds ++ rest = Post.htmlPrefix ++ (ds ++ ETX :: rest) := by simp [phStr]
  have hdrop : (Post.htmlPrefix ++ (ds ++ ETX :: rest)).drop Post.htmlPrefixLen = ds ++ ETX :: rest := by
    rfl
  rw [e]
  simp only [Post.htmlPhAt, startsWith_append, if_true, hdrop, hsp]
  simp [hpos, Post.htmlPrefixLen]
  exact ⟨rfl, by omega⟩

theorem htmlPhAt_some {suf ds : Str} {l : Nat} (h : Post.htmlPhAt suf = some (ds, l)) :
    PhDigits ds ∧ l = 10 + ds.length ∧ ∃ rest, suf = phStr ds ++ rest := by
  unfold Post.htmlPhAt at h
  split at h
  · next hsw =>
    have e := startsWith_drop hsw
    simp only at h
    split at h
    · next hc =>
      simp only [Bool.and_eq_true, decide_eq_true_eq, beq_iff_eq] at hc
      simp only [Option.some.injEq, Prod.mk.injEq] at h
      obtain ⟨hd, hl⟩ := h
      obtain ⟨hlt, hget⟩ := List.getElem?_eq_some_iff.1 hc.2
      have hlen : ds.length = spanLen isAsciiDigit (suf.drop Post.htmlPrefixLen) := by
        rw [← hd, List.length_take]; omega
      refine ⟨⟨?_, ?_⟩, ?_, suf.drop (Post.htmlPrefixLen + ds.length + 1), ?_⟩
      · intro h0; rw [h0] at hlen; simp at hlen; omega
      · rw [← hd]; exact List.all_eq_true.2 (spanLen_prefix_all _ _)
      · rw [← hl, hlen]; simp [Post.htmlPrefixLen]; omega
      · have e2 : suf.drop Post.htmlPrefixLen = ds ++ ETX :: (suf.drop Post.htmlPrefixLen).drop (ds.length + 1) := by
          rw [hlen, ← hd]
          have : ETX = (suf.drop Post.htmlPrefixLen)[spanLen isAsciiDigit (suf.drop Post.htmlPrefixLen)] := hget.symm
          rw [this, List.getElem_cons_drop, List.take_append_drop]
        have e3 : Post.htmlPrefix.length = Post.htmlPrefixLen := rfl
        rw [e3] at e
        rw [List.drop_drop] at e2
        conv => lhs; rw [e, e2]
        simp [phStr, Nat.add_assoc]
    · cases h
  · cases h

/-- first alternative of the pattern (`<p>` placeholder `</p>`) at a state-0 position -/
def subAlt1 (bl stash : List Str) (c : Char) (s : Str) : Option (Str × Nat) :=
  let suf := c :: s
  if c = '<' && startsWith suf "<p>".toList then
    match Post.htmlPhAt (suf.drop 3) with
    | some (digits, l) =>
      if startsWith (suf.drop (3 + l)) "</p>".toList then
        let len := 3 + l + 4
        match Post.stashLookup stash digits with
        | some html =>
          if Post.isBlockLevelHtml bl html then some (html, len)
          else some ("<p>".toList ++ html ++ "</p>".toList, len)
        | none => some (suf.take len, len)
      else none
    | none => none
  else none

theorem subPass_zero_cons (bl stash : List Str) (c : Char) (s : Str) :
    Post.subPass bl stash 0 (c :: s) =
      match subAlt1 bl stash c s with
      | some (out, len) => out ++ Post.subPass bl stash (len - 1) s
      | none =>
        match (if c = STX then Post.htmlPhAt (c :: s) else none) with
        | some (digits, l) =>
          match Post.stashLookup stash digits with
          | some html => html ++ Post.subPass bl stash (l - 1) s
          | none => (c :: s).take l ++ Post.subPass bl stash (l - 1) s
        | none => c :: Post.subPass bl stash 0 s := rfl

/-- what is written for a bare placeholder -/
def phOut (stash : List Str) (ds : Str) : Str :=
  match Post.stashLookup stash ds with
  | some html => html
  | none => phStr ds

/-- what is written for `<p>` placeholder `</p>` -/
def pOut (bl stash : List Str) (ds : Str) : Str :=
  match Post.stashLookup stash ds with
  | some html => if Post.isBlockLevelHtml bl html then html else "<p>".toList ++ html ++ "</p>".toList
  | none => "<p>".toList ++ (phStr ds ++ "</p>".toList)

theorem phStr_length (ds : Str) : (phStr ds).length = 10 + ds.length := by
  simp [phStr_eq]; omega

theorem subAlt1_some {bl stash : List Str} {c : Char} {s out : Str} {len : Nat}
    (h : subAlt1 bl stash c s = some (out, len)) :
    ∃ ds rest, PhDigits ds ∧ c :: s = "<p>".toList ++ (phStr ds ++ ("</p>".toList ++ rest)) ∧
      len = 17 + ds.length ∧ out = pOut bl stash ds := by
  unfold subAlt1 at h
  simp only at h
  split at h
  · next hc =>
    simp only [Bool.and_eq_true, decide_eq_true_eq] at hc
    have e1 := startsWith_drop hc.2
    split at h
    · next ds l hph =>
      obtain ⟨hds, hl, rest1, e2⟩ := htmlPhAt_some hph
      split at h
      · next hsw =>
        have e3 := startsWith_drop hsw
        generalize c :: s = X at *
        have e4 : X.drop (3 + l) = rest1 := by
          rw [← List.drop_drop, e2, List.drop_left' (by rw [phStr_length, hl])]
        rw [e4] at e3
        have e1' : X = "<p>".toList ++ X.drop 3 := e1
        have e3' : rest1 = "</p>".toList ++ rest1.drop 4 := e3
        have e5 : X = "<p>".toList ++ (phStr ds ++ ("</p>".toList ++ rest1.drop 4)) := by
          rw [← e3', ← e2]; exact e1'
        refine ⟨ds, rest1.drop 4, hds, e5, ?_⟩
        have hlen : 3 + l + 4 = ("<p>".toList ++ (phStr ds ++ "</p>".toList)).length := by
          simp [phStr_length, hl]; omega
        unfold pOut
        cases hlk : Post.stashLookup stash ds with
        | some html =>
          rw [hlk] at h
          simp only at h ⊢
          split at h
          · next hb =>
            simp only [Option.some.injEq, Prod.mk.injEq] at h
            obtain ⟨rfl, rfl⟩ := h
            exact ⟨by omega, by rw [if_pos hb]⟩
          · next hb =>
            simp only [Option.some.injEq, Prod.mk.injEq] at h
            obtain ⟨rfl, rfl⟩ := h
            exact ⟨by omega, by rw [if_neg hb]⟩
        | none =>
          rw [hlk] at h
          simp only [Option.some.injEq, Prod.mk.injEq] at h ⊢
          obtain ⟨rfl, rfl⟩ := h
          refine ⟨by omega, ?_⟩
          rw [hlen]
          conv => lhs; rw [e5]
          simp only [← List.append_assoc]
          rw [List.take_left' rfl]
      · cases h
    · cases h
  · cases h

private theorem drop_pred_cons {n : Nat} (h : 0 < n) (c : Char) (s : Str) : s.drop (n - 1) = (c :: s).drop n := by
  cases n with
  | zero => omega
  | succ n => rfl

/-- the three things that can happen at a state-0 position -/
theorem subPass_cases (bl stash : List Str) (c : Char) (s : Str) :
    (∃ ds rest, PhDigits ds ∧ c :: s = "<p>".toList ++ (phStr ds ++ ("</p>".toList ++ rest)) ∧
      Post.subPass bl stash 0 (c :: s) = pOut bl stash ds ++ Post.subPass bl stash 0 rest) ∨
    (∃ ds rest, PhDigits ds ∧ c :: s = phStr ds ++ rest ∧
      Post.subPass bl stash 0 (c :: s) = phOut stash ds ++ Post.subPass bl stash 0 rest) ∨
    ((c = STX → Post.htmlPhAt (c :: s) = none) ∧
      Post.subPass bl stash 0 (c :: s) = c :: Post.subPass bl stash 0 s) := by
  rw [subPass_zero_cons]
  cases h1 : subAlt1 bl stash c s with
  | some p =>
    obtain ⟨out, len⟩ := p
    obtain ⟨ds, rest, hds, e, rfl, rfl⟩ := subAlt1_some h1
    left
    refine ⟨ds, rest, hds, e, ?_⟩
    simp only
    rw [subPass_drop]
    congr 2
    have : List.drop (17 + ds.length) (c :: s) = rest := by
      rw [e, show 17 + ds.length = ("<p>".toList ++ (phStr ds ++ "</p>".toList)).length by
        simp [phStr_length]; omega]
      simp only [← List.append_assoc]
      rw [List.drop_left]
    rw [← this]; exact drop_pred_cons (by omega) c s
  | none =>
    simp only
    right
    by_cases hc : c = STX
    · rw [if_pos hc]
      cases h2 : Post.htmlPhAt (c :: s) with
      | none => right; exact ⟨fun _ => rfl, rfl⟩
      | some p =>
        obtain ⟨ds, l⟩ := p
        obtain ⟨hds, rfl, rest, e⟩ := htmlPhAt_some h2
        left
        refine ⟨ds, rest, hds, e, ?_⟩
        have hd : List.drop (10 + ds.length) (c :: s) = rest := by
          rw [e, ← phStr_length, List.drop_left]
        have hd' : s.drop (10 + ds.length - 1) = rest := by rw [← hd]; exact drop_pred_cons (by omega) c s
        unfold phOut
        simp only
        cases Post.stashLookup stash ds with
        | some html => simp only; rw [subPass_drop, hd']
        | none =>
          simp only; rw [subPass_drop, hd']
          congr 1
          rw [e, ← phStr_length, List.take_left]
    · rw [if_neg hc]
      right
      exact ⟨fun h => absurd h hc, rfl⟩

/-! ### occurrences of live placeholders -/

theorem liveHtmlPhAt_some {stash : List Str} {s : Str} (h : liveHtmlPhAt stash s = true) :
    ∃ ds rest, PhDigits ds ∧ s = phStr ds ++ rest ∧ (Post.stashLookup stash ds).isSome = true := by
  unfold liveHtmlPhAt at h
  split at h
  · next ds l hph =>
    obtain ⟨hds, _, rest, e⟩ := htmlPhAt_some hph
    exact ⟨ds, rest, hds, e, h⟩
  · cases h

theorem liveHtmlPhAt_phStr {stash : List Str} {ds : Str} (hds : PhDigits ds) (rest : Str) :
    liveHtmlPhAt stash (phStr ds ++ rest) = (Post.stashLookup stash ds).isSome := by
  unfold liveHtmlPhAt
  rw [htmlPhAt_phStr hds]

theorem liveHtmlPhAt_head {stash : List Str} {c : Char} {r : Str} (h : liveHtmlPhAt stash (c :: r) = true) :
    c = STX := by
  obtain ⟨ds, rest, _, e, _⟩ := liveHtmlPhAt_some h
  rw [phStr_eq, List.cons_append, List.cons.injEq] at e
  exact e.1

theorem liveHtmlPhAt_of_ne {stash : List Str} {c : Char} (hc : c ≠ STX) (r : Str) :
    liveHtmlPhAt stash (c :: r) = false := by
  cases h : liveHtmlPhAt stash (c :: r) with
  | false => rfl
  | true => exact absurd (liveHtmlPhAt_head h) hc

theorem hasLive_cons (stash : List Str) (c : Char) (r : Str) :
    hasLiveHtmlPh stash (c :: r) = (liveHtmlPhAt stash (c :: r) || hasLiveHtmlPh stash r) := rfl

theorem hasLive_append_noSTX {stash : List Str} {w : Str} (h : STX ∉ w) (r : Str) :
    hasLiveHtmlPh stash (w ++ r) = hasLiveHtmlPh stash r := by
  induction w with
  | nil => rfl
  | cons c w ih =>
    rw [List.cons_append, hasLive_cons, liveHtmlPhAt_of_ne (fun e => h (by simp [e])), Bool.false_or]
    exact ih (fun hm => h (List.mem_cons_of_mem _ hm))

private theorem stx_not_mem_of_digits {ds : Str} (h : ds.all isAsciiDigit = true) : STX ∉ ds := by
  intro hm
  have := List.all_eq_true.1 h STX hm
  revert this; decide

theorem hasLive_phStr {stash : List Str} {ds : Str} (hds : PhDigits ds) (r : Str) :
    hasLiveHtmlPh stash (phStr ds ++ r) = ((Post.stashLookup stash ds).isSome || hasLiveHtmlPh stash r) := by
  have e : phStr ds ++ r = STX :: ((['w', 'z', 'x', 'h', 'z', 'd', 'k', ':'] ++ ds ++ [ETX]) ++ r) := by
    simp [phStr_eq]
  have hn : STX ∉ ['w', 'z', 'x', 'h', 'z', 'd', 'k', ':'] ++ ds ++ [ETX] := by
    intro hm
    rcases List.mem_append.1 hm with hm | hm
    · rcases List.mem_append.1 hm with hm | hm
      · revert hm; decide
      · exact stx_not_mem_of_digits hds.2 hm
    · revert hm; decide
  rw [e, hasLive_cons, ← e, liveHtmlPhAt_phStr hds, hasLive_append_noSTX hn]

theorem hasLive_p_phStr {stash : List Str} {ds : Str} (hds : PhDigits ds) (r : Str) :
    hasLiveHtmlPh stash ("<p>".toList ++ (phStr ds ++ ("</p>".toList ++ r))) =
      ((Post.stashLookup stash ds).isSome || hasLiveHtmlPh stash r) := by
  rw [hasLive_append_noSTX (by decide), hasLive_phStr hds, hasLive_append_noSTX (by decide)]

/-- a text without placeholder of the stash is left alone -/
theorem subPass_id_aux {bl stash : List Str} (n : Nat) : ∀ {t : Str}, t.length ≤ n →
    hasLiveHtmlPh stash t = false → Post.subPass bl stash 0 t = t := by
  induction n with
  | zero =>
    intro t hl _
    have : t = [] := List.length_eq_zero_iff.1 (by omega)
    subst this; rfl
  | succ n ih =>
    intro t hl h
    cases t with
    | nil => rfl
    | cons c s =>
      rcases subPass_cases bl stash c s with ⟨ds, rest, hds, e, hr⟩ | ⟨ds, rest, hds, e, hr⟩ | ⟨_, hr⟩
      · rw [hr, e]
        rw [e, hasLive_p_phStr hds, Bool.or_eq_false_iff] at h
        have hl' : rest.length ≤ n := by
          have := congrArg List.length e
          simp [phStr_length] at this hl; omega
        rw [ih hl' h.2]
        unfold pOut
        cases hlk : Post.stashLookup stash ds with
        | some html => rw [hlk] at h; simp at h
        | none => simp only [List.append_assoc]
      · rw [hr, e]
        rw [e, hasLive_phStr hds, Bool.or_eq_false_iff] at h
        have hl' : rest.length ≤ n := by
          have := congrArg List.length e
          simp [phStr_length] at this hl; omega
        rw [ih hl' h.2]
        unfold phOut
        cases hlk : Post.stashLookup stash ds with
        | some html => rw [hlk] at h; simp at h
        | none => rfl
      · rw [hr]
        rw [hasLive_cons, Bool.or_eq_false_iff] at h
        rw [ih (by simp at hl; omega) h.2]

theorem subPass_id {bl stash : List Str} {t : Str} (h : hasLiveHtmlPh stash t = false) :
    Post.subPass bl stash 0 t = t := subPass_id_aux t.length (Nat.le_refl _) h

/-! ### entries of the shape `&…;` -/

theorem entityLike_iff {e : Str} : entityLike e = true ↔ e.head? = some '&' ∧ e.getLast? = some ';' ∧ STX ∉ e := by
  simp [entityLike, and_assoc]

theorem entityLike_cons {e : Str} (h : entityLike e = true) : ∃ e', e = '&' :: e' ∧ STX ∉ e := by
  obtain ⟨h1, _, h3⟩ := entityLike_iff.1 h
  cases e with
  | nil => cases h1
  | cons c e' =>
    simp only [List.head?_cons, Option.some.injEq] at h1
    subst h1
    exact ⟨e', rfl, h3⟩

theorem isBlockLevelHtml_amp (bl : List Str) (e : Str) : Post.isBlockLevelHtml bl ('&' :: e) = false := by
  have : Post.blockLevelGroup ('&' :: e) = none := by
    unfold Post.blockLevelGroup
    split
    · next h => cases h
    · next h => cases h
    · rfl
  simp [Post.isBlockLevelHtml, this]

private theorem stashLookup_mem {stash : List Str} {ds html : Str} (h : Post.stashLookup stash ds = some html) :
    html ∈ stash := by
  unfold Post.stashLookup at h
  simp only at h
  split at h
  · exact List.mem_of_getElem? h
  · cases h

/-- the word written for a bare placeholder: `&…` without STX, or the dead placeholder itself -/
theorem phOut_cases {stash : List Str} (he : ∀ e ∈ stash, entityLike e = true) (ds : Str) :
    (∃ e', phOut stash ds = '&' :: e' ∧ STX ∉ phOut stash ds ∧ (Post.stashLookup stash ds).isSome = true) ∨
    (phOut stash ds = phStr ds ∧ Post.stashLookup stash ds = none) := by
  unfold phOut
  cases hlk : Post.stashLookup stash ds with
  | some html =>
    left
    obtain ⟨e', rfl, hn⟩ := entityLike_cons (he _ (stashLookup_mem hlk))
    exact ⟨e', rfl, hn, rfl⟩
  | none => right; exact ⟨rfl, rfl⟩

theorem pOut_cases {bl stash : List Str} (he : ∀ e ∈ stash, entityLike e = true) (ds : Str) :
    (∃ e', pOut bl stash ds = '<' :: 'p' :: '>' :: '&' :: e' ∧ STX ∉ pOut bl stash ds ∧
      (Post.stashLookup stash ds).isSome = true) ∨
    (pOut bl stash ds = '<' :: 'p' :: '>' :: (phStr ds ++ "</p>".toList) ∧ Post.stashLookup stash ds = none) := by
  unfold pOut
  cases hlk : Post.stashLookup stash ds with
  | some html =>
    left
    obtain ⟨e', rfl, hn⟩ := entityLike_cons (he _ (stashLookup_mem hlk))
    simp only [isBlockLevelHtml_amp, Bool.false_eq_true, if_false]
    refine ⟨e' ++ "</p>".toList, rfl, ?_, rfl⟩
    intro hm
    rcases List.mem_append.1 hm with hm | hm
    · rcases List.mem_append.1 hm with hm | hm
      · revert hm; decide
      · exact hn hm
    · revert hm; decide
  | none => right; exact ⟨rfl, rfl⟩

/-- a prefix of the output made of characters that no replacement starts with was copied -/
theorem startsWith_subPass {bl stash : List Str} (he : ∀ e ∈ stash, entityLike e = true) : ∀ (q s : Str),
    startsWith (Post.subPass bl stash 0 s) q = true → (∀ x ∈ q, x ≠ '&' ∧ x ≠ '<' ∧ x ≠ STX) →
    startsWith s q = true
  | [], s, _, _ => startsWith_nil s
  | x :: q, [], h, _ => by simp [Post.subPass] at h
  | x :: q, c :: s, h, hq => by
    have hx := hq x (by simp)
    rcases subPass_cases bl stash c s with ⟨ds, rest, hds, e, hr⟩ | ⟨ds, rest, hds, e, hr⟩ | ⟨_, hr⟩
    · exfalso
      rw [hr] at h
      rcases pOut_cases (bl := bl) he ds with ⟨e', hp, _⟩ | ⟨hp, _⟩ <;> rw [hp] at h <;>
        simp only [List.cons_append, startsWith_cons_cons, Bool.and_eq_true, decide_eq_true_eq] at h <;>
        exact hx.2.1 h.1.symm
    · exfalso
      rw [hr] at h
      rcases phOut_cases he ds with ⟨e', hp, _⟩ | ⟨hp, _⟩ <;> rw [hp] at h
      · simp only [List.cons_append, startsWith_cons_cons, Bool.and_eq_true, decide_eq_true_eq] at h
        exact hx.1 h.1.symm
      · simp only [phStr_eq, List.cons_append, startsWith_cons_cons, Bool.and_eq_true, decide_eq_true_eq] at h
        exact hx.2.2 h.1.symm
    · rw [hr] at h
      simp only [startsWith_cons_cons, Bool.and_eq_true, decide_eq_true_eq] at h ⊢
      exact ⟨h.1, startsWith_subPass he q s h.2 (fun y hy => hq y (List.mem_cons_of_mem _ hy))⟩

theorem subPass_post_aux {bl stash : List Str} (he : ∀ e ∈ stash, entityLike e = true) (n : Nat) :
    ∀ t : Str, t.length ≤ n → hasLiveHtmlPh stash (Post.subPass bl stash 0 t) = false := by
  induction n with
  | zero =>
    intro t hl
    have : t = [] := List.length_eq_zero_iff.1 (by omega)
    subst this; rfl
  | succ n ih =>
    intro t hl
    cases t with
    | nil => rfl
    | cons c s =>
      rcases subPass_cases bl stash c s with ⟨ds, rest, hds, e, hr⟩ | ⟨ds, rest, hds, e, hr⟩ | ⟨hno, hr⟩
      · have hl' : rest.length ≤ n := by
          have := congrArg List.length e
          simp [phStr_length] at this hl; omega
        rw [hr]
        rcases pOut_cases (bl := bl) he ds with ⟨_, _, hn, _⟩ | ⟨hp, hlk⟩
        · rw [hasLive_append_noSTX hn]; exact ih rest hl'
        · rw [hp]
          have := hasLive_p_phStr (stash := stash) hds (Post.subPass bl stash 0 rest)
          rw [hlk, ih rest hl'] at this
          have e2 : '<' :: 'p' :: '>' :: (phStr ds ++ "</p>".toList) ++ Post.subPass bl stash 0 rest =
              "<p>".toList ++ (phStr ds ++ ("</p>".toList ++ Post.subPass bl stash 0 rest)) := by
            simp only [List.cons_append, List.append_assoc]; rfl
          rw [e2, this]; rfl
      · have hl' : rest.length ≤ n := by
          have := congrArg List.length e
          simp [phStr_length] at this hl; omega
        rw [hr]
        rcases phOut_cases he ds with ⟨_, _, hn, _⟩ | ⟨hp, hlk⟩
        · rw [hasLive_append_noSTX hn]; exact ih rest hl'
        · rw [hp, hasLive_phStr hds, hlk, ih rest hl']; rfl
      · rw [hr, hasLive_cons, ih s (by simp at hl; omega), Bool.or_false]
        cases hq : liveHtmlPhAt stash (c :: Post.subPass bl stash 0 s) with
        | false => rfl
        | true =>
          exfalso
          obtain ⟨ds, rest, hds, e, _⟩ := liveHtmlPhAt_some hq
          rw [phStr_eq, List.cons_append, List.cons.injEq] at e
          obtain ⟨hc, e⟩ := e
          have hsw : startsWith (Post.subPass bl stash 0 s)
              ('w' :: 'z' :: 'x' :: 'h' :: 'z' :: 'd' :: 'k' :: ':' :: (ds ++ [ETX])) = true := by
            rw [e]; exact startsWith_append _ _
          have hs := startsWith_subPass he _ s hsw (by
            intro x hx
            simp only [List.mem_cons, List.mem_append, List.not_mem_nil, or_false] at hx
            have hdig : ∀ y, isAsciiDigit y = true → y ≠ '&' ∧ y ≠ '<' ∧ y ≠ STX := by
              intro y hy
              refine ⟨?_, ?_, ?_⟩ <;> rintro rfl <;> revert hy <;> decide
            rcases hx with rfl | rfl | rfl | rfl | rfl | rfl | rfl | rfl | hx | rfl
            all_goals first | decide | exact hdig _ (List.all_eq_true.1 hds.2 _ hx))
          obtain ⟨rest', e'⟩ := startsWith_iff_prefix.1 hs
          have : Post.htmlPhAt (c :: s) = some (ds, 10 + ds.length) := by
            rw [hc, e']
            exact htmlPhAt_phStr hds rest'
          rw [hno hc] at this; cases this

/-- one pass removes every placeholder of the stash (no new one can form: an entry holds no STX and begins with
    `&`, which is not a placeholder character) -/
theorem subPass_post {bl stash : List Str} (he : ∀ e ∈ stash, entityLike e = true) (t : Str) :
    hasLiveHtmlPh stash (Post.subPass bl stash 0 t) = false := subPass_post_aux he t.length t (Nat.le_refl _)

/-- a fixed point of the substitution pass holds no placeholder of the stash, when every entry starts with `&` -/
theorem subPass_fix_post {bl stash : List Str} (he : ∀ e ∈ stash, entityLike e = true) {t : Str}
    (h : Post.subPass bl stash 0 t = t) : hasLiveHtmlPh stash t = false := by
  rw [← h]; exact subPass_post he t

private theorem stashLookup_nil (ds : Str) : Post.stashLookup [] ds = none := by
  unfold Post.stashLookup; simp

theorem hasLive_nil_stash (t : Str) : hasLiveHtmlPh [] t = false := by
  induction t with
  | nil => rfl
  | cons c r ih =>
    rw [hasLive_cons, ih, Bool.or_false]
    cases hq : liveHtmlPhAt [] (c :: r) with
    | false => rfl
    | true =>
      obtain ⟨ds, _, _, _, h⟩ := liveHtmlPhAt_some hq
      rw [stashLookup_nil] at h; cases h

theorem rawHtml_post {bl stash : List Str} (he : ∀ e ∈ stash, entityLike e = true) {f : Nat} {text out : Str}
    (h : Post.rawHtml bl stash f text = some out) : hasLiveHtmlPh stash out = false := by
  induction f generalizing text with
  | zero => cases h
  | succ f ih =>
    unfold Post.rawHtml at h
    split at h
    · next hemp =>
      have : stash = [] := by simpa using hemp
      subst this
      exact hasLive_nil_stash out
    · simp only at h
      split at h
      · next heq =>
        simp only [Option.some.injEq] at h
        subst h
        exact subPass_post he text
      · exact ih h

theorem rawHtml_total {bl stash : List Str} (he : ∀ e ∈ stash, entityLike e = true) (text : Str) :
    ∃ out, Post.rawHtml bl stash (Post.rawHtmlFuel stash) text = some out := by
  have hf : Post.rawHtmlFuel stash = (stash.length + 1) + 1 + 1 := rfl
  rw [hf]
  unfold Post.rawHtml
  split
  · exact ⟨_, rfl⟩
  · simp only
    split
    · exact ⟨_, rfl⟩
    · unfold Post.rawHtml
      split
      · exact ⟨_, rfl⟩
      · simp only
        rw [if_pos (subPass_id (subPass_post he text))]
        exact ⟨_, rfl⟩

/-! ### the shape hypothesis is needed -/

/-- a self-referencing entry: `run` returns a fixed point that still holds the placeholder -/
example :
    let e : Str := Post.htmlPrefix ++ ['0', ETX]
    Post.rawHtml [] [e] (Post.rawHtmlFuel [e]) e = some e ∧ hasLiveHtmlPh [e] e = true ∧ entityLike e = false := by
  decide

/-- nested placeholder text over the stash `["0"]` (`0` is not of the shape `&…;`): every pass forms a new
    placeholder, depth 4 needs five passes, `rawHtmlFuel ["0"] = 4`.  (The implementation just recurses once more
    and returns `0`; here the fuel of the model is too small, not the recursion limit of Python.) -/
example :
    let p : Str → Str := fun x => Post.htmlPrefix ++ x ++ [ETX]
    Post.rawHtml [] [['0']] (Post.rawHtmlFuel [['0']]) (p (p (p (p ['0'])))) = none ∧
    Post.rawHtml [] [['0']] 6 (p (p (p (p ['0'])))) = some ['0'] ∧ entityLike ['0'] = false := by
  decide

example : entityLike "&amp;".toList = true ∧ entityLike "&#x3C;".toList = true := by decide

/-! ### the entries stored by the entity pattern -/

private theorem backslashUnescape_of_no_stx {x : Str} (h : STX ∉ x) : Inline.backslashUnescape 0 x = x := by
  induction x with
  | nil => rfl
  | cons c x ih =>
    have hc : c ≠ Inline.STX := fun e => h (by rw [e]; exact List.mem_cons_self)
    rw [Inline.backslashUnescape, if_neg hc, ih (fun hm => h (List.mem_cons_of_mem _ hm))]

/-- body of an entity: characters other than STX, then `;` -/
def EntBody (b : Str) : Prop := ∃ b', b = b' ++ [';'] ∧ STX ∉ b'

private theorem runSemi_spec {p : Char → Bool} (hp : p STX = false) {r : Str} {m : Nat}
    (h : Inline.runSemi p r = some m) : EntBody (r.take m) ∧ 0 < m := by
  unfold Inline.runSemi at h
  simp only at h
  split at h
  · next hc =>
    simp only [Bool.and_eq_true, decide_eq_true_eq, beq_iff_eq] at hc
    simp only [Option.some.injEq] at h
    subst h
    obtain ⟨hlt, hget⟩ := List.getElem?_eq_some_iff.1 hc.2
    refine ⟨⟨r.take (spanLen p r), ?_, ?_⟩, by omega⟩
    · rw [List.take_succ_eq_append_getElem hlt, hget]
    · intro hm
      have := spanLen_prefix_all p r STX hm
      rw [hp] at this; cases this
  · cases h

theorem EntBody.cons {b : Str} (h : EntBody b) {c : Char} (hc : c ≠ STX) : EntBody (c :: b) := by
  obtain ⟨b', rfl, hn⟩ := h
  refine ⟨c :: b', rfl, ?_⟩
  intro hm
  rcases List.mem_cons.1 hm with hm | hm
  · exact hc hm.symm
  · exact hn hm

private theorem entityBody_spec {r : Str} {n : Nat} (h : Inline.entityBody r = some n) : EntBody (r.take n) := by
  unfold Inline.entityBody at h
  split at h
  · next r1 =>
    split at h
    · next m hm =>
      simp only [Option.some.injEq] at h
      subst h
      exact (runSemi_spec (by decide) hm).1.cons (by decide)
    · split at h
      · next r2 =>
        simp only [Option.map_eq_some_iff] at h
        obtain ⟨m, hm, rfl⟩ := h
        exact ((runSemi_spec (by decide) hm).1.cons (by decide)).cons (by decide)
      · cases h
  · exact (runSemi_spec (by decide) h).1

private theorem entityScan_spec {suf : Str} {i s e : Nat} (h : Inline.entityScan suf i = some (s, e)) :
    ∃ k r n, s = i + k ∧ suf.drop k = '&' :: r ∧ Inline.entityBody r = some n ∧ e = s + 1 + n := by
  induction suf generalizing i with
  | nil => cases h
  | cons c r ih =>
    unfold Inline.entityScan at h
    split at h
    · next hc =>
      split at h
      · next n hn =>
        simp only [Option.some.injEq, Prod.mk.injEq] at h
        obtain ⟨rfl, rfl⟩ := h
        exact ⟨0, r, n, rfl, by rw [hc]; rfl, hn, rfl⟩
      · obtain ⟨k, r', n, rfl, hd, hb, rfl⟩ := ih h
        exact ⟨k + 1, r', n, by omega, hd, hb, rfl⟩
    · obtain ⟨k, r', n, rfl, hd, hb, rfl⟩ := ih h
      exact ⟨k + 1, r', n, by omega, hd, hb, rfl⟩

private theorem entityFind_spec {data : Str} {si s e : Nat} (h : Inline.entityFind data si = some (s, e)) :
    ∃ b, Inline.slice data s e = '&' :: b ∧ EntBody b := by
  unfold Inline.entityFind at h
  split at h
  · cases h
  · obtain ⟨k, r, n, rfl, hd, hb, rfl⟩ := entityScan_spec h
    refine ⟨r.take n, ?_, entityBody_spec hb⟩
    rw [List.drop_drop] at hd
    unfold Inline.slice
    rw [List.drop_take, hd, show si + k + 1 + n - (si + k) = n + 1 by omega]
    rfl

private theorem entityLike_of_entBody {b : Str} (h : EntBody b) : entityLike ('&' :: b) = true := by
  obtain ⟨b', rfl, hn⟩ := h
  have h1 : ('&' :: (b' ++ [';'])).getLast? = some ';' := by
    rw [← List.cons_append, List.getLast?_append]; rfl
  have h2 : STX ∉ '&' :: (b' ++ [';']) := by
    intro hm
    rcases List.mem_cons.1 hm with hm | hm
    · revert hm; decide
    · rcases List.mem_append.1 hm with hm | hm
      · exact hn hm
      · revert hm; decide
  unfold entityLike
  rw [h1]
  simp only [List.head?_cons, BEq.rfl, Bool.true_and, Bool.not_eq_eq_eq_not, Bool.not_true]
  simpa using h2

private theorem not_stx_of_entityLike {e : Str} (h : entityLike e = true) : STX ∉ e := by
  simp only [entityLike, Bool.and_eq_true, Bool.not_eq_eq_eq_not, Bool.not_true] at h
  simpa using h.2

/-- the entries stored by the entity pattern (pattern 12) have that shape -/
theorem entity_entry_entityLike {cfg : Inline.Cfg} {data : Str} {si : Nat} {st st' : Inline.St} {f : Inline.Found}
    (h : Inline.findMatch cfg 12 data si st = some (some f, st')) :
    ∃ raw, st'.html = st.html ++ [raw] ∧ entityLike raw = true ∧ st'.stash = st.stash := by
  unfold Inline.findMatch at h
  simp only at h
  split at h
  · cases h
  · split at h
    · next s e hf =>
      simp only [Option.some.injEq, Prod.mk.injEq] at h
      obtain ⟨_, rfl⟩ := h
      obtain ⟨b, hs, hb⟩ := entityFind_spec hf
      have hl := entityLike_of_entBody hb
      rw [← hs] at hl
      refine ⟨_, rfl, ?_, rfl⟩
      rw [backslashUnescape_of_no_stx (not_stx_of_entityLike hl)]
      exact hl
    · cases h

end MdVerif.NoCtl
