/-
Helper lemmas for C14 on the extension pipeline (`Props/C14X.lean`), part 2: *marked strings*.

The html and the xhtml serialisation of one tree are two renderings `rH m`, `rX m` of ONE string with marks
`m : List Sym`: ordinary characters, `void` marks (`>` in html, ` />` in xhtml) and `bool k` marks (` k` in html,
` k="k"` in xhtml).  The invariant `InvA` says what stands in front of a mark (the last character of a tag name — never
`p` in front of a `void` mark, void tags do not end in `p` —, a closing quote, or another `bool` mark).  Under it the
string functions of the postprocessors (`strip`, `str.replace` with an `STX…ETX` pattern, and — `Lemmas/C14XPost.lean`
— the raw-HTML restore) act on both renderings *in lockstep*: they rewrite the plain segments and never touch, split
or create a mark.  Hence the two outputs of `convertX` are again two renderings of one marked string, i.e.
`Ser.Respell`.  Core Lean only.
-/
import MdVerif.Spec.Spelling
import MdVerif.Lemmas.PyBasic

namespace MdVerif.C14X
open Py Ser

inductive Sym
  | ch (c : Char)
  | void
  | bool (k : Str)

abbrev M := List Sym

def lit (s : Str) : M := s.map Sym.ch

/-- the html rendering -/
def rH : M → Str
  | [] => []
  | .ch c :: r => c :: rH r
  | .void :: r => '>' :: rH r
  | .bool k :: r => ' ' :: (k ++ rH r)

/-- the xhtml rendering -/
def rX : M → Str
  | [] => []
  | .ch c :: r => c :: rX r
  | .void :: r => ' ' :: '/' :: '>' :: rX r
  | .bool k :: r => ' ' :: (k ++ '=' :: '"' :: (k ++ '"' :: rX r))

@[simp] theorem lit_nil : lit [] = [] := rfl
@[simp] theorem lit_cons (c : Char) (s : Str) : lit (c :: s) = .ch c :: lit s := rfl
@[simp] theorem lit_append (a b : Str) : lit (a ++ b) = lit a ++ lit b := by simp [lit]

@[simp] theorem rH_nil : rH [] = [] := rfl
@[simp] theorem rX_nil : rX [] = [] := rfl

@[simp] theorem rH_append (a b : M) : rH (a ++ b) = rH a ++ rH b := by
  induction a with
  | nil => rfl
  | cons s r ih => cases s <;> simp [rH, ih]

@[simp] theorem rX_append (a b : M) : rX (a ++ b) = rX a ++ rX b := by
  induction a with
  | nil => rfl
  | cons s r ih => cases s <;> simp [rX, ih]

@[simp] theorem rH_lit (s : Str) : rH (lit s) = s := by
  induction s with
  | nil => rfl
  | cons c s ih => simp [rH, ih]

@[simp] theorem rX_lit (s : Str) : rX (lit s) = s := by
  induction s with
  | nil => rfl
  | cons c s ih => simp [rX, ih]

/-! ### the invariant -/

/-- a character after which a `bool` mark may stand -/
def solidB (c : Char) : Bool := isNameChar c || c = '"'
/-- a character after which a `void` mark may stand -/
def solidV (c : Char) : Bool := (isNameChar c && c != 'p') || c = '"'

def okB : Option Sym → Bool
  | none => true
  | some (.ch c) => solidB c
  | some (.bool _) => true
  | some .void => false

def okV : Option Sym → Bool
  | none => true
  | some (.ch c) => solidV c
  | some (.bool _) => true
  | some .void => false

/-- every mark stands behind an allowed symbol (`p`: the symbol in front of the string; `none`: anything goes) -/
def InvA : Option Sym → M → Bool
  | _, [] => true
  | _, .ch c :: r => InvA (some (.ch c)) r
  | p, .void :: r => okV p && InvA (some .void) r
  | p, .bool k :: r => okB p && isName k && InvA (some (.bool k)) r

/-- in front: something after which no mark may stand -/
def bad : Option Sym := some (.ch ' ')

theorem solidV_solidB {c : Char} (h : solidV c = true) : solidB c = true := by
  simp only [solidV, solidB, Bool.or_eq_true, Bool.and_eq_true] at h ⊢
  rcases h with h | h
  · exact Or.inl h.1
  · exact Or.inr h

/-- behind a character that is not solid, no mark stands: the invariant holds with anything in front -/
theorem invA_nonsolid {c : Char} (hc : solidB c = false) {m : M} (h : InvA (some (.ch c)) m = true) (q : Option Sym) :
    InvA q m = true := by
  cases m with
  | nil => rfl
  | cons s r =>
    cases s with
    | ch d => exact h
    | void =>
      simp only [InvA, okV, Bool.and_eq_true] at h
      rw [solidV_solidB h.1] at hc; cases hc
    | bool k =>
      simp only [InvA, okB, Bool.and_eq_true] at h
      rw [h.1.1] at hc; cases hc

theorem invA_bad {m : M} (h : InvA bad m = true) (q : Option Sym) : InvA q m = true :=
  invA_nonsolid (by decide) h q

theorem invA_lit (p : Option Sym) (s : Str) : InvA p (lit s) = true := by
  induction s generalizing p with
  | nil => rfl
  | cons c s ih => exact ih _

/-- the symbol in front of what follows `a` -/
def lastP (p : Option Sym) (a : M) : Option Sym :=
  match a.getLast? with
  | some s => some s
  | none => p

@[simp] theorem lastP_nil (p : Option Sym) : lastP p [] = p := rfl
theorem lastP_cons (p : Option Sym) (s : Sym) (a : M) : lastP p (s :: a) = lastP (some s) a := by
  cases a with
  | nil => rfl
  | cons t r =>
    simp only [lastP, List.getLast?_cons_cons]
    cases h : (t :: r).getLast? with
    | none => simp at h
    | some u => rfl

theorem invA_append (p : Option Sym) (a b : M) :
    InvA p (a ++ b) = (InvA p a && InvA (lastP p a) b) := by
  induction a generalizing p with
  | nil => simp [InvA]
  | cons s r ih =>
    cases s with
    | ch c => simp only [List.cons_append, InvA, ih, lastP_cons]
    | void => simp only [List.cons_append, InvA, ih, lastP_cons, Bool.and_assoc]
    | bool k => simp only [List.cons_append, InvA, ih, lastP_cons, Bool.and_assoc]

theorem lastP_lit_snoc (p : Option Sym) (s : Str) (c : Char) : lastP p (lit (s ++ [c])) = some (.ch c) := by
  simp [lastP, lit]

/-- two pieces that start with a plain character -/
theorem invA_bad_append {a b : M} (ha : InvA bad a = true) (hb : InvA bad b = true) : InvA bad (a ++ b) = true := by
  rw [invA_append, ha, invA_bad hb]; rfl

theorem invA_lit_append {p : Option Sym} (s : Str) {b : M} (hb : InvA bad b = true) : InvA p (lit s ++ b) = true := by
  rw [invA_append, invA_lit, invA_bad hb]; rfl

/-! ### the two renderings differ only in spelling -/

theorem respell_M : ∀ (m : M) (p : Option Sym), InvA p m = true → Respell (rH m) (rX m)
  | [], _, _ => .nil
  | .ch c :: r, _, h => .same c (respell_M r _ h)
  | .void :: r, p, h => by
    simp only [InvA, Bool.and_eq_true] at h
    exact .void (respell_M r _ h.2)
  | .bool k :: r, p, h => by
    simp only [InvA, Bool.and_eq_true] at h
    exact .bool k h.1.2 (respell_M r _ h.2)

/-! ### a plain prefix of a rendering is a plain prefix of the marked string -/

theorem rH_prefix_safe : ∀ (P : Str), (∀ c ∈ P, c ≠ ' ' ∧ c ≠ '>') → ∀ (m : M) (R : Str), rH m = P ++ R →
    ∃ m', m = lit P ++ m' ∧ R = rH m'
  | [], _, m, R, h => ⟨m, rfl, h.symm⟩
  | p :: P, hP, m, R, h => by
    have hp := hP p (by simp)
    cases m with
    | nil => simp [rH] at h
    | cons s r =>
      cases s with
      | ch c =>
        simp only [rH, List.cons_append, List.cons.injEq] at h
        obtain ⟨m', e, hr⟩ := rH_prefix_safe P (fun c hc => hP c (by simp [hc])) r R h.2
        exact ⟨m', by rw [e, h.1]; rfl, hr⟩
      | void => simp only [rH, List.cons_append, List.cons.injEq] at h; exact absurd h.1.symm hp.2
      | bool k => simp only [rH, List.cons_append, List.cons.injEq] at h; exact absurd h.1.symm hp.1

theorem rX_prefix_safe : ∀ (P : Str), (∀ c ∈ P, c ≠ ' ') → ∀ (m : M) (R : Str), rX m = P ++ R →
    ∃ m', m = lit P ++ m' ∧ R = rX m'
  | [], _, m, R, h => ⟨m, rfl, h.symm⟩
  | p :: P, hP, m, R, h => by
    have hp := hP p (by simp)
    cases m with
    | nil => simp [rX] at h
    | cons s r =>
      cases s with
      | ch c =>
        simp only [rX, List.cons_append, List.cons.injEq] at h
        obtain ⟨m', e, hr⟩ := rX_prefix_safe P (fun c hc => hP c (by simp [hc])) r R h.2
        exact ⟨m', by rw [e, h.1]; rfl, hr⟩
      | void => simp only [rX, List.cons_append, List.cons.injEq] at h; exact absurd h.1.symm hp
      | bool k => simp only [rX, List.cons_append, List.cons.injEq] at h; exact absurd h.1.symm hp

/-- a `>` of the html rendering behind a `p` is a plain character -/
theorem rH_gt_after_p {m : M} {R : Str} (hi : InvA (some (.ch 'p')) m = true) (h : rH m = '>' :: R) :
    ∃ m', m = .ch '>' :: m' ∧ R = rH m' := by
  cases m with
  | nil => simp [rH] at h
  | cons s r =>
    cases s with
    | ch c =>
      simp only [rH, List.cons.injEq] at h
      exact ⟨r, by rw [h.1], h.2.symm⟩
    | void =>
      simp only [InvA, okV, Bool.and_eq_true] at hi
      exact absurd hi.1 (by decide)
    | bool k => simp only [rH, List.cons.injEq] at h; exact absurd h.1 (by decide)


/-! ### characters -/

theorem char_eq_iff (c d : Char) : c = d ↔ c.toNat = d.toNat := by
  constructor
  · intro h; rw [h]
  · intro h; exact Char.ext (UInt32.toNat_inj.1 h)

theorem char_le_iff (a b : Char) : a ≤ b ↔ a.toNat ≤ b.toNat := Char.le_def

/-- white space is not solid -/
theorem space_nonsolid {c : Char} (h : isSpace c = true) : solidB c = false := by
  cases hs : solidB c with
  | false => rfl
  | true =>
    exfalso
    have hr : (48 ≤ c.toNat ∧ c.toNat < 128) ∨ c.toNat = 45 ∨ c.toNat = 46 ∨ c.toNat = 34 := by
      simp only [solidB, isNameChar, isAsciiAlnum, isAsciiAlpha, isAsciiLower, isAsciiUpper, isAsciiDigit,
        Bool.or_eq_true, Bool.and_eq_true, decide_eq_true_eq, char_le_iff, char_eq_iff] at hs
      have e1 : 'a'.toNat = 97 := rfl
      have e2 : 'z'.toNat = 122 := rfl
      have e3 : 'A'.toNat = 65 := rfl
      have e4 : 'Z'.toNat = 90 := rfl
      have e5 : '0'.toNat = 48 := rfl
      have e6 : '9'.toNat = 57 := rfl
      have e7 : '-'.toNat = 45 := rfl
      have e8 : '_'.toNat = 95 := rfl
      have e9 : ':'.toNat = 58 := rfl
      have e10 : '.'.toNat = 46 := rfl
      have e11 : '"'.toNat = 34 := rfl
      rw [e1, e2, e3, e4, e5, e6, e7, e8, e9, e10, e11] at hs
      omega
    have hlt : c.toNat < 128 := by omega
    rw [isSpace_ascii_iff hlt] at h
    simp only [char_eq_iff] at h
    have f1 : ' '.toNat = 32 := rfl
    have f2 : '\n'.toNat = 10 := rfl
    have f3 : '\t'.toNat = 9 := rfl
    have f4 : '\r'.toNat = 13 := rfl
    rw [f1, f2, f3, f4] at h
    omega

theorem name_last_nonspace {k : Str} (hk : isName k = true) : ∀ c, k.getLast? = some c → isSpace c = false := by
  intro c hc
  simp only [isName, Bool.and_eq_true, List.all_eq_true] at hk
  have hm : c ∈ k := List.mem_of_getLast? hc
  have hn := hk.2 c hm
  cases hs : isSpace c with
  | false => rfl
  | true =>
    have := space_nonsolid hs
    simp [solidB, hn] at this

/-! ### `strip` in lockstep -/

theorem lstrip_sim : ∀ (m : M), InvA bad m = true →
    ∃ m', lstrip (rH m) = rH m' ∧ lstrip (rX m) = rX m' ∧ InvA bad m' = true
  | [], _ => ⟨[], rfl, rfl, rfl⟩
  | .void :: r, h => by simp [InvA, bad, okV, solidV, isNameChar, isAsciiAlnum, isAsciiAlpha, isAsciiLower, isAsciiUpper, isAsciiDigit] at h
  | .bool k :: r, h => by simp [InvA, bad, okB, solidB, isNameChar, isAsciiAlnum, isAsciiAlpha, isAsciiLower, isAsciiUpper, isAsciiDigit] at h
  | .ch c :: r, h => by
    by_cases hc : isSpace c = true
    · have hr : InvA bad r = true := invA_nonsolid (space_nonsolid hc) h bad
      obtain ⟨m', h1, h2, h3⟩ := lstrip_sim r hr
      refine ⟨m', ?_, ?_, h3⟩
      · simp only [rH, lstrip, lstripP, hc, if_true]; exact h1
      · simp only [rX, lstrip, lstripP, hc, if_true]; exact h2
    · refine ⟨.ch c :: r, ?_, ?_, h⟩
      · simp only [rH, lstrip, lstripP, hc, Bool.false_eq_true, if_false]
      · simp only [rX, lstrip, lstripP, hc, Bool.false_eq_true, if_false]

theorem rstrip_snoc_space (s : Str) {c : Char} (hc : isSpace c = true) : rstrip (s ++ [c]) = rstrip s :=
  rstripP_append_of_all (by simp [hc]) s

theorem rstrip_of_last (s t : Str) (ht : t ≠ []) (h : ∀ c, t.getLast? = some c → isSpace c = false) :
    rstrip (s ++ t) = s ++ t := by
  apply (rstripP_eq_self_iff _ _).2
  intro c hc
  rw [List.getLast?_append] at hc
  cases hl : t.getLast? with
  | none => exact absurd (List.getLast?_eq_none_iff.1 hl) ht
  | some d =>
    rw [hl] at hc
    simp at hc
    subst hc
    exact h _ hl

theorem rstrip_sim : ∀ (n : Nat) (m : M), m.length ≤ n → InvA bad m = true →
    ∃ m', rstrip (rH m) = rH m' ∧ rstrip (rX m) = rX m' ∧ InvA bad m' = true := by
  intro n
  induction n with
  | zero =>
    intro m hl _
    have : m = [] := List.length_eq_zero_iff.1 (by omega)
    subst this
    exact ⟨[], rfl, rfl, rfl⟩
  | succ n ih =>
    intro m hl hi
    rcases List.eq_nil_or_concat m with rfl | ⟨m0, s, rfl⟩
    · exact ⟨[], rfl, rfl, rfl⟩
    · rw [List.concat_eq_append] at hl hi ⊢
      have hi' := hi
      rw [invA_append, Bool.and_eq_true] at hi'
      have hkeep : (∀ c, (rH [s]).getLast? = some c → isSpace c = false) →
          (∀ c, (rX [s]).getLast? = some c → isSpace c = false) → rH [s] ≠ [] → rX [s] ≠ [] →
          ∃ m', rstrip (rH (m0 ++ [s])) = rH m' ∧ rstrip (rX (m0 ++ [s])) = rX m' ∧ InvA bad m' = true := by
        intro a b c d
        refine ⟨m0 ++ [s], ?_, ?_, hi⟩
        · rw [rH_append]; exact rstrip_of_last _ _ c a
        · rw [rX_append]; exact rstrip_of_last _ _ d b
      cases s with
      | ch c =>
        by_cases hc : isSpace c = true
        · obtain ⟨m', h1, h2, h3⟩ := ih m0 (by simp at hl; omega) hi'.1
          refine ⟨m', ?_, ?_, h3⟩
          · rw [rH_append]; simp only [rH]; rw [rstrip_snoc_space _ hc]; exact h1
          · rw [rX_append]; simp only [rX]; rw [rstrip_snoc_space _ hc]; exact h2
        · apply hkeep
          · intro d hd; simp [rH] at hd; subst hd; simpa using hc
          · intro d hd; simp [rX] at hd; subst hd; simpa using hc
          · simp [rH]
          · simp [rX]
      | void =>
        apply hkeep
        · intro d hd; simp [rH] at hd; subst hd; decide
        · intro d hd; simp [rX] at hd; subst hd; decide
        · simp [rH]
        · simp [rX]
      | bool k =>
        have hk : isName k = true := by
          have := hi'.2
          simp only [InvA, Bool.and_eq_true] at this
          exact this.1.2
        have hkne : k ≠ [] := by
          intro e; subst e; simp [isName] at hk
        apply hkeep
        · intro d hd
          simp only [rH, List.append_nil] at hd
          rw [List.getLast?_cons_of_ne_nil hkne] at hd  
          exact name_last_nonspace hk d hd
        · intro d hd
          have e : rX [Sym.bool k] = (' ' :: (k ++ '=' :: '"' :: k)) ++ ['"'] := by simp [rX]
          rw [e, List.getLast?_append] at hd
          simp at hd; subst hd; decide
        · simp [rH]
        · simp [rX]

theorem strip_sim (m : M) (h : InvA bad m = true) :
    ∃ m', strip (rH m) = rH m' ∧ strip (rX m) = rX m' ∧ InvA bad m' = true := by
  obtain ⟨m1, a1, b1, c1⟩ := lstrip_sim m h
  obtain ⟨m2, a2, b2, c2⟩ := rstrip_sim _ m1 (Nat.le_refl _) c1
  refine ⟨m2, ?_, ?_, c2⟩
  · show rstrip (lstrip (rH m)) = _; rw [a1, a2]
  · show rstrip (lstrip (rX m)) = _; rw [b1, b2]


/-! ### `str.replace` with an `STX…ETX` pattern in lockstep -/

/-- a pattern that cannot touch a mark: no blank, no `>`; its first character is none of those a mark is rendered
    with; its last character is not solid -/
structure PatOK (pat : Str) : Prop where
  safe : ∀ c ∈ pat, c ≠ ' ' ∧ c ≠ '>'
  head : ∀ c, pat.head? = some c → isNameChar c = false ∧ c ≠ '=' ∧ c ≠ '"' ∧ c ≠ '/'
  last : ∃ init l, pat = init ++ [l] ∧ solidB l = false

theorem PatOK.ne {pat : Str} (h : PatOK pat) : pat ≠ [] := by
  obtain ⟨i, l, e, _⟩ := h.last
  rw [e]; simp

theorem startsWith_false_of_head {pat : Str} (hne : pat ≠ []) {c : Char} (hc : pat.head? ≠ some c) (s : Str) :
    startsWith (c :: s) pat = false := by
  cases pat with
  | nil => exact absurd rfl hne
  | cons d p =>
    have : c ≠ d := fun e => hc (by simp [e])
    simp [startsWith, this]

/-- characters that do not start the pattern are copied -/
theorem replace_inert {pat : Str} (hne : pat ≠ []) (b : Str) : ∀ (q : Str), (∀ c ∈ q, pat.head? ≠ some c) → ∀ s,
    replace (q ++ s) pat b = q ++ replace s pat b
  | [], _, _ => rfl
  | c :: q, h, s => by
    rw [List.cons_append, replace_cons_of_not_startsWith (startsWith_false_of_head hne (h c (by simp)) _),
      replace_inert hne b q (fun d hd => h d (by simp [hd])) s]
    rfl

theorem PatOK.head_ne {pat : Str} (h : PatOK pat) {c : Char}
    (hc : c = ' ' ∨ c = '>' ∨ c = '=' ∨ c = '"' ∨ c = '/' ∨ isNameChar c = true) : pat.head? ≠ some c := by
  intro e
  have hm : c ∈ pat := List.mem_of_mem_head? (by rw [e]; rfl)
  have h1 := h.safe c hm
  have h2 := h.head c e
  rcases hc with hc | hc | hc | hc | hc | hc
  · exact h1.1 hc
  · exact h1.2 hc
  · exact h2.2.1 hc
  · exact h2.2.2.1 hc
  · exact h2.2.2.2 hc
  · rw [h2.1] at hc; cases hc

theorem replace_sim {pat : Str} (hp : PatOK pat) (b : Str) : ∀ (n : Nat) (m : M) (p : Option Sym), m.length ≤ n →
    InvA p m = true →
    ∃ m', replace (rH m) pat b = rH m' ∧ replace (rX m) pat b = rX m' ∧ InvA p m' = true := by
  intro n
  induction n with
  | zero =>
    intro m p hl _
    have : m = [] := List.length_eq_zero_iff.1 (by omega)
    subst this
    exact ⟨[], by simp, by simp, rfl⟩
  | succ n ih =>
    intro m p hl hi
    have hne := hp.ne
    cases m with
    | nil => exact ⟨[], by simp, by simp, rfl⟩
    | cons s r =>
      have hlr : r.length ≤ n := by simp at hl; omega
      cases s with
      | void =>
        simp only [InvA, Bool.and_eq_true] at hi
        obtain ⟨r', h1, h2, h3⟩ := ih r (some .void) hlr hi.2
        refine ⟨.void :: r', ?_, ?_, by simp only [InvA, hi.1, h3]; rfl⟩
        · have := replace_inert hne b ['>'] (by intro c hc; simp at hc; subst hc; exact hp.head_ne (by simp)) (rH r)
          simpa [rH, h1] using this
        · have := replace_inert hne b " />".toList (by
            intro c hc; simp at hc
            rcases hc with rfl | rfl | rfl <;> exact hp.head_ne (by simp)) (rX r)
          simpa [rX, h2] using this
      | bool k =>
        simp only [InvA, Bool.and_eq_true] at hi
        obtain ⟨r', h1, h2, h3⟩ := ih r (some (.bool k)) hlr hi.2
        have hk : ∀ c ∈ k, isNameChar c = true := by
          have := hi.1.2
          simp only [isName, Bool.and_eq_true, List.all_eq_true] at this
          exact this.2
        refine ⟨.bool k :: r', ?_, ?_, by simp only [InvA, hi.1.1, hi.1.2, h3]; rfl⟩
        · have := replace_inert hne b (' ' :: k) (by
            intro c hc; simp at hc
            rcases hc with rfl | hc
            · exact hp.head_ne (by simp)
            · exact hp.head_ne (Or.inr (Or.inr (Or.inr (Or.inr (Or.inr (hk c hc))))))) (rH r)
          simpa [rH, h1] using this
        · have := replace_inert hne b (' ' :: (k ++ '=' :: '"' :: (k ++ ['"']))) (by
            intro c hc; simp at hc
            rcases hc with rfl | hc | rfl | rfl | hc | rfl
            · exact hp.head_ne (by simp)
            · exact hp.head_ne (Or.inr (Or.inr (Or.inr (Or.inr (Or.inr (hk c hc))))))
            · exact hp.head_ne (by simp)
            · exact hp.head_ne (by simp)
            · exact hp.head_ne (Or.inr (Or.inr (Or.inr (Or.inr (Or.inr (hk c hc))))))
            · exact hp.head_ne (by simp)) (rX r)
          simpa [rX, h2] using this
      | ch c =>
        by_cases hf : ∃ m2, Sym.ch c :: r = lit pat ++ m2
        · obtain ⟨m2, e⟩ := hf
          obtain ⟨init, l, epat, hl'⟩ := hp.last
          have hlen : m2.length ≤ n := by
            have := congrArg List.length e
            have hpl : 0 < pat.length := List.length_pos_iff.2 hne
            simp [lit] at this
            simp at hl; omega
          rw [e] at hi ⊢
          rw [invA_append, Bool.and_eq_true] at hi
          have hlp : lastP p (lit pat) = some (.ch l) := by rw [epat]; exact lastP_lit_snoc p init l
          rw [hlp] at hi
          obtain ⟨m2', h1, h2, h3⟩ := ih m2 _ hlen hi.2
          refine ⟨lit b ++ m2', ?_, ?_, ?_⟩
          · rw [rH_append, rH_lit, replace_of_startsWith hne (startsWith_iff_prefix.2 ⟨_, rfl⟩),
              List.drop_left, h1, rH_append, rH_lit]
          · rw [rX_append, rX_lit, replace_of_startsWith hne (startsWith_iff_prefix.2 ⟨_, rfl⟩),
              List.drop_left, h2, rX_append, rX_lit]
          · rw [invA_append, invA_lit, invA_nonsolid hl' h3]; rfl
        · have hH : startsWith (c :: rH r) pat = false := by
            cases hs : startsWith (c :: rH r) pat with
            | false => rfl
            | true =>
              exfalso
              obtain ⟨t, ht⟩ := startsWith_iff_prefix.1 hs
              obtain ⟨m', e, _⟩ := rH_prefix_safe pat hp.safe (.ch c :: r) t ht
              exact hf ⟨m', e⟩
          have hX : startsWith (c :: rX r) pat = false := by
            cases hs : startsWith (c :: rX r) pat with
            | false => rfl
            | true =>
              exfalso
              obtain ⟨t, ht⟩ := startsWith_iff_prefix.1 hs
              obtain ⟨m', e, _⟩ := rX_prefix_safe pat (fun d hd => (hp.safe d hd).1) (.ch c :: r) t ht
              exact hf ⟨m', e⟩
          obtain ⟨r', h1, h2, h3⟩ := ih r (some (.ch c)) hlr hi
          refine ⟨.ch c :: r', ?_, ?_, h3⟩
          · simp only [rH]; rw [replace_cons_of_not_startsWith hH, h1]
          · simp only [rX]; rw [replace_cons_of_not_startsWith hX, h2]

end MdVerif.C14X
