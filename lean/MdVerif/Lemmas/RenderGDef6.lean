/-
Helper lemmas for `Props/C16RenderG.lean`, part 34: a definition list (several groups, loose definitions) FOLLOWED BY
ordinary paragraphs — the block stage, the tree stages, the serializer.

Core Lean only.
-/
import MdVerif.Lemmas.RenderGDef5

namespace MdVerif.RenderG
open Py Block BlockExt MdVerif.RenderX

/-- the source: the blocks of the groups, then the paragraphs, all separated by empty lines -/
def defSrcQ (tab : Nat) (g0 : DGroup) (gr : List DGroup) (qs : List Para) : Str :=
  DocParse.joinChunks ((g0 :: gr).flatMap (groupBlocks tab) ++ qs.map pText)

theorem length_le_sum_pText : ∀ (qs : List Para), (∀ p ∈ qs, ParaOK p) →
    qs.length ≤ ((qs.map pText).map List.length).sum := by
  intro qs
  induction qs with
  | nil => intro _; simp
  | cons p r ih =>
    intro h
    have h1 := ih (fun x hx => h x (List.mem_cons_of_mem _ hx))
    have h2 : 1 ≤ (pText p).length := by
      have := pText_ne p (h p List.mem_cons_self)
      cases hp : pText p with
      | nil => exact absurd hp this
      | cons a b => simp
    simp only [List.map_cons, List.sum_cons, List.length_cons]
    omega

theorem parseDocumentXT_defQ (cfg : XCfg) (hdef : cfg.defList = true) (tab : Nat) (htab : 0 < tab) (g0 : DGroup)
    (gr : List DGroup) (qs : List Para) (h0 : GroupOK g0) (hr : ∀ g ∈ gr, GroupOK g) (hqs : ∀ p ∈ qs, ParaOK p) :
    parseDocumentXT false cfg tab (defSrcQ tab g0 gr qs ++ ['\n', '\n']) =
      some (rootOf (dlOf ((g0 :: gr).flatMap groupKids) :: pNodes qs), []) := by
  have hall : ∀ g ∈ g0 :: gr, GroupOK g := by
    intro g hg
    rcases List.mem_cons.1 hg with rfl | hg
    · exact h0
    · exact hr g hg
  have hnel : ∀ x ∈ (g0 :: gr).flatMap (groupBlocks tab) ++ qs.map pText, Escape.noEmptyLineFrom true x = true := by
    intro x hx
    rcases List.mem_append.1 hx with hx | hx
    · obtain ⟨g, hg, hxg⟩ := List.mem_flatMap.1 hx
      rcases List.mem_cons.1 hxg with rfl | hxg
      · exact nel_defSrc g (hall g hg)
      · obtain ⟨p, hp, rfl⟩ := List.mem_map.1 hxg
        exact nel_bodyBlock tab p ((hall g hg).conts p hp)
    · obtain ⟨p, hp, rfl⟩ := List.mem_map.1 hx
      apply nel_block _ (by simp)
      intro l hl
      exact ⟨(hqs p hp l hl).ne, (hqs p hp l hl).noNl⟩
  have hsplit := DocParse.splitS_chunks _ (by simp [groupBlocks]) hnel
  have hcost := groupsCost_le tab htab (g0 :: gr) hall
  have hsum := sum_le_joinChunks ((g0 :: gr).flatMap (groupBlocks tab) ++ qs.map pText)
  have hql := length_le_sum_pText qs hqs
  obtain ⟨f, hf⟩ : ∃ f, fuelForX (defSrcQ tab g0 gr qs ++ ['\n', '\n']).length =
      f + qs.length + groupsCost gr + 2 + groupCost g0 := by
    refine ⟨fuelForX (defSrcQ tab g0 gr qs ++ ['\n', '\n']).length - (qs.length + groupsCost gr + groupCost g0 + 2), ?_⟩
    simp only [fuelForX, List.length_append, defSrcQ]
    simp only [groupsCost] at hcost
    simp only [List.map_append, List.sum_append] at hsum
    omega
  simp only [parseDocumentXT, parseChunk]
  rw [show defSrcQ tab g0 gr qs = DocParse.joinChunks ((g0 :: gr).flatMap (groupBlocks tab) ++ qs.map pText) from rfl]
    at hf ⊢
  rw [hsplit, hf]
  have h1 := parse_group cfg hdef tab htab g0 h0 none [] (f + qs.length + groupsCost gr)
    (gr.flatMap (groupBlocks tab) ++ (qs.map pText ++ [[]]))
  simp only [Option.getD_none, List.nil_append] at h1
  rw [show (Node.el "div" : Node) = rootOf [] from rfl]
  simp only [List.flatMap_cons, List.append_assoc]
  rw [h1, show f + qs.length + groupsCost gr + 2 = f + qs.length + 2 + groupsCost gr by omega,
    parse_groups cfg hdef tab htab gr _ [] (f + qs.length) (qs.map pText ++ [[]]) hr,
    show f + qs.length + 2 = (f + 2) + qs.length by omega,
    parse_paras cfg tab htab qs _ [] (f + 2) _ hqs,
    parse_end cfg tab htab f [] _ (by
      intro c hc
      simp only [rootOf, Node.last?, Node.el] at hc
      rcases List.mem_append.1 (List.mem_of_getLast? hc) with h | h
      · simp only [List.mem_singleton] at h
        subst h; exact preCode_dl _
      · obtain ⟨p, _, rfl⟩ := List.mem_map.1 h
        exact preCode_p _)]
  rfl

/-! ### the tree stages -/

def dlRootFinQ (items : List DItem) (qtexts : List Str) : Node :=
  ⟨.name "div".toList, [], some ['\n'], false,
    ⟨.name "dl".toList, [], some ['\n'], false, items.map DItem.fin, some ['\n'], false⟩ :: qtexts.map pFin,
    some ['\n'], false⟩

theorem prettify_dlQ (it0 : DItem) (r : List DItem) (qtexts : List Str) (h : ∀ it ∈ it0 :: r, it.ok) :
    TreeProc.prettify (rootOf (dlOf ((it0 :: r).map DItem.node) :: qtexts.map (mkText "p"))) =
      dlRootFinQ (it0 :: r) qtexts := by
  have hD := prettify_set (.name "dl".toList) [] false ((it0 :: r).map DItem.node) false bl_dl tn_dl.1 tn_dl.2
    (by simp only [firstBlock, List.map_cons, List.head?_cons, Option.map_some, Option.getD_some]
        exact item_block it0 (h it0 List.mem_cons_self))
  rw [prettifyKids_items _ h] at hD
  have hbD : TreeProc.isBlockLevel TreeProc.defaultBlockLevel (dlOf ((it0 :: r).map DItem.node)).tag = true := bl_dl
  have hk : TreeProc.prettifyKids TreeProc.defaultBlockLevel
      (dlOf ((it0 :: r).map DItem.node) :: qtexts.map (mkText "p")) =
      ⟨.name "dl".toList, [], some ['\n'], false, (it0 :: r).map DItem.fin, some ['\n'], false⟩ :: qtexts.map pFin := by
    simp only [TreeProc.prettifyKids, hbD, if_true, prettifyKids_ps]
    rw [show dlOf ((it0 :: r).map DItem.node) =
      ⟨.name "dl".toList, [], none, false, (it0 :: r).map DItem.node, none, false⟩ from rfl, hD]
  have hR := prettify_set (.name "div".toList) [] false
    (dlOf ((it0 :: r).map DItem.node) :: qtexts.map (mkText "p")) false bl_divS tn_div.1 tn_div.2
    (by simp only [firstBlock, List.head?_cons, Option.map_some, Option.getD_some]; exact bl_dl)
  rw [hk] at hR
  have hE : TreeProc.prettifyETree TreeProc.defaultBlockLevel
      (rootOf (dlOf ((it0 :: r).map DItem.node) :: qtexts.map (mkText "p"))) = dlRootFinQ (it0 :: r) qtexts := hR
  have hnb : noBP (dlRootFinQ (it0 :: r) qtexts) = true := by
    simp only [dlRootFinQ, noBP, noBPKids, noBPKids_items _ h, noBP_ps, Bool.and_true]; decide
  have h1 := mapTree_noBP TreeProc.brRule brRule_fix _ hnb
  have h2 := mapTree_noBP TreeProc.preRule preRule_fix _ hnb
  unfold TreeProc.prettify
  rw [hE, h1, h2]

theorem unescapeTree_dlQ (items : List DItem) (qtexts : List Str) (h : ∀ it ∈ items, it.ok)
    (hq : ∀ t ∈ qtexts, TreeProc.STX ∉ t) :
    TreeProc.unescapeTree (dlRootFinQ items qtexts) = some (dlRootFinQ items qtexts) := by
  have t3 : TreeProc.unescapeText 0 ['\n'] = some ['\n'] := by decide
  have hD : TreeProc.unescapeTree (⟨.name "dl".toList, [], some ['\n'], false, items.map DItem.fin, some ['\n'], false⟩ : Node) =
      some ⟨.name "dl".toList, [], some ['\n'], false, items.map DItem.fin, some ['\n'], false⟩ :=
    unescape_el _ _ _ _ _ rfl (unescapeKids_items items h) (fun s hs => by cases hs; exact t3)
      (fun s hs => by cases hs; exact t3)
  exact unescape_el _ _ _ _ _ rfl (by simp only [TreeProc.unescapeKids, hD, unescapeKids_ps qtexts hq])
    (fun s hs => by cases hs; exact t3) (fun s hs => by cases hs; exact t3)

/-- the rendering: the list, then the paragraphs after it -/
def defOutQ (items : List DItem) (qtexts : List Str) : Str := defOutG items ++ psHtmlAfter qtexts

theorem serialize_dlQ (fmt : Ser.Fmt) (items : List DItem) (qtexts : List Str) (h : ∀ it ∈ items, it.ok)
    (hq : ∀ t ∈ qtexts, Ser.escCdata t = t) :
    Ser.serialize fmt (dlRootFinQ items qtexts) =
      "<div>".toList ++ ('\n' :: defOutQ items qtexts ++ ['\n']) ++ "</div>\n".toList := by
  have hD : Ser.serialize fmt (⟨.name "dl".toList, [], some ['\n'], false, items.map DItem.fin, some ['\n'], false⟩ : Node) =
      defOutG items ++ ['\n'] := by
    rw [CodeLaw.serialize_plain fmt _ _ _ _ _ _ et_dl.1 et_dl.2, ifText_some _ ec_nl, serializeList_items fmt items h]
    unfold defOutG lDL1 lDL2
    generalize itemsHtml items = H
    simp only [String.reduceToList]
    simp only [List.cons_append, List.append_assoc, List.nil_append, List.append_nil]
  unfold dlRootFinQ
  rw [CodeLaw.serialize_plain fmt _ _ _ _ _ _ et_div.1 et_div.2, ifText_some _ ec_nl]
  simp only [Ser.serializeList, hD, serializeList_ps fmt qtexts hq]
  unfold defOutQ
  have hs := psHtml_shift qtexts
  generalize defOutG items = A at *
  generalize psHtml qtexts = P at *
  generalize psHtmlAfter qtexts = Q at *
  simp only [String.reduceToList]
  simp only [List.cons_append, List.append_assoc, List.nil_append, List.append_nil, List.singleton_append]
  simp only [List.cons.injEq, true_and, List.append_cancel_left_eq]
  rw [show '\n' :: (P ++ ['<', '/', 'd', 'i', 'v', '>', '\n']) = ('\n' :: P) ++ ['<', '/', 'd', 'i', 'v', '>', '\n'] from rfl, hs]
  simp only [List.append_assoc, List.cons_append, List.nil_append]

theorem defOutQ_ends (items : List DItem) (qtexts : List Str) :
    (defOutQ items qtexts).head? = some '<' ∧ (defOutQ items qtexts).getLast? = some '>' := by
  obtain ⟨e1, e2⟩ := defOutG_ends items
  have h3 : ∃ r, lP2 = r ++ ['>'] := ⟨"</p".toList, by decide +kernel⟩
  obtain ⟨r3, e3⟩ := h3
  constructor
  · unfold defOutQ
    cases hA : defOutG items with
    | nil => rw [hA] at e1; simp at e1
    | cons a b => rw [hA] at e1; simpa using e1
  · have hlast : ∀ (ts : List Str) (X : Str), X.getLast? = some '>' → (X ++ psHtmlAfter ts).getLast? = some '>' := by
      intro ts
      induction ts with
      | nil => intro X hX; simpa [psHtmlAfter] using hX
      | cons t r ih =>
        intro X hX
        have : X ++ psHtmlAfter (t :: r) = (X ++ ('\n' :: lP1 ++ t ++ lP2)) ++ psHtmlAfter r := by
          simp [psHtmlAfter, List.append_assoc]
        rw [this]
        apply ih
        rw [e3, ← List.append_assoc, ← List.append_assoc, List.getLast?_append]
        simp
    unfold defOutQ
    exact hlast _ _ e2

theorem noFnDiv_dlDocQ (items : List DItem) (qs : List Para) :
    noFnDiv (rootOf (dlOf (items.map DItem.node) :: pNodes qs)) = true := by
  have h0 := noFnDiv_dlDoc items
  have h3 : noFnDivKids (pNodes qs) = true := by
    have := noFnKids_txt "p" (qs.map pText)
    simpa [pNodes, Function.comp_def] using this
  simp only [rootOf, Node.el, noFnDiv, noFnDivKids, Bool.and_true] at h0 ⊢
  simp only [h3, Bool.and_true]
  exact h0

end MdVerif.RenderG
