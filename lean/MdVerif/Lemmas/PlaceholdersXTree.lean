/-
Helper lemmas for C10 on the extension model (`Props/C10XTree.lean`), part 1: the late tree processors on trees whose
attribute VALUES may hold escape tokens (`FNodeX`, `Spec/NoCtlX.lean`) — the state of the tree once
`AttrListTreeprocessor` has moved text into attributes.

* `fnodeX_of_fnode`       `FNode → FNodeX`
* `prettify_fnodeX`       `PrettifyTreeprocessor` keeps `FNodeX` (it never touches attributes)
* `unescapeTree_fnodeX`   `UnescapeTreeprocessor` restores the tokens of texts, tails AND attribute values: no STX/ETX left
* `unescapeTree_fnodeX_some`  and it does not raise
* `abbr_run_fnodeX`       `AbbrTreeprocessor` keeps `FNodeX` (port of `abbr_run_fnode`: the attributes of existing elements are
                          not touched, the new `abbr` elements are `FNode`)

Core Lean only.
-/
import MdVerif.Spec.NoCtlX
import MdVerif.Lemmas.PlaceholdersChain
import MdVerif.Lemmas.PlaceholdersXPost

namespace MdVerif.NoCtlX
open MdVerif.NoCtl Py Inline

/-! ### `FNode → FNodeX` -/

theorem attrsTok_of_noCtl {attrs : List (Str × Str)} (h : attrsNoCtl attrs) : attrsTok attrs :=
  fun kv hkv => ⟨(h kv hkv).1, WF.of_noCtl (h kv hkv).2⟩

theorem fnodeX_of_fnode {n : Node} (h : FNode n) : FNodeX n :=
  ⟨h.1, attrsTok_of_noCtl h.2.1, h.2.2.1, h.2.2.2.1, h.2.2.2.2⟩

theorem forall_fnodeX_of_fnode {t : Node} (h : t.Forall FNode) : t.Forall FNodeX :=
  Node.Forall.mono (fun _ => fnodeX_of_fnode) t h

theorem forallL_fnodeX_of_fnode {l : List Node} (h : Node.ForallL FNode l) : Node.ForallL FNodeX l :=
  Node.ForallL.mono (fun _ => fnodeX_of_fnode) l h

/-! ### `PrettifyTreeprocessor` -/

private theorem wfo_nl : WFO true 0 (some ['\n']) := WF.plain _ _ (by decide) (by decide) .nil

private theorem ite_pred {α : Type} (P : α → Prop) {c : Prop} [Decidable c] {a b : α} (ha : P a) (hb : P b) :
    P (if c then a else b) := by
  split
  · exact ha
  · exact hb

mutual
theorem prettifyETree_fnodeX (bl : List Str) : ∀ t : Node, t.Forall FNodeX → (TreeProc.prettifyETree bl t).Forall FNodeX
  | ⟨tag, attrs, text, ta, children, tail, tla⟩, h => by
    simp only [Node.Forall] at h
    obtain ⟨⟨h1, h2, h3, h4, h5⟩, hk⟩ := h
    simp only at h1 h2 h3 h4 h5
    unfold TreeProc.prettifyETree
    simp only [Node.Forall]
    refine ⟨⟨h1, h2, ?_, ?_, ?_⟩, ?_⟩
    · exact ite_pred (WFO true 0) wfo_nl h3
    · exact ite_pred (WFO true 0) wfo_nl h4
    · intro hc
      exact ite_pred NoCtlO (show NoCtl ['\n'] by decide) (h5 hc)
    · split
      · exact prettifyKids_fnodeX bl children hk
      · exact hk
theorem prettifyKids_fnodeX (bl : List Str) : ∀ l : List Node, Node.ForallL FNodeX l →
    Node.ForallL FNodeX (TreeProc.prettifyKids bl l)
  | [], _ => by simp [TreeProc.prettifyKids, Node.ForallL]
  | c :: r, h => by
    simp only [Node.ForallL] at h
    unfold TreeProc.prettifyKids
    simp only [Node.ForallL]
    refine ⟨?_, prettifyKids_fnodeX bl r h.2⟩
    split
    · exact prettifyETree_fnodeX bl c h.1
    · exact h.1
end

mutual
/-- `mapTree f` keeps the invariant when `f` does on every subtree -/
theorem mapTree_fnodeX {f : Node → Node} (hf : ∀ n : Node, n.Forall FNodeX → (f n).Forall FNodeX) :
    ∀ t : Node, t.Forall FNodeX → (TreeProc.mapTree f t).Forall FNodeX
  | ⟨tag, attrs, text, ta, children, tail, tla⟩, h => by
    simp only [Node.Forall] at h
    unfold TreeProc.mapTree
    apply hf
    simp only [Node.Forall]
    exact ⟨h.1, mapKids_fnodeX hf children h.2⟩
theorem mapKids_fnodeX {f : Node → Node} (hf : ∀ n : Node, n.Forall FNodeX → (f n).Forall FNodeX) :
    ∀ l : List Node, Node.ForallL FNodeX l → Node.ForallL FNodeX (TreeProc.mapKids f l)
  | [], _ => by simp [TreeProc.mapKids, Node.ForallL]
  | c :: r, h => by
    simp only [Node.ForallL] at h
    unfold TreeProc.mapKids
    simp only [Node.ForallL]
    exact ⟨mapTree_fnodeX hf c h.1, mapKids_fnodeX hf r h.2⟩
end

theorem brRule_fnodeX {n : Node} (h : n.Forall FNodeX) : (TreeProc.brRule n).Forall FNodeX := by
  unfold TreeProc.brRule
  split
  · rw [Node.forall_iff] at h
    obtain ⟨⟨h1, h2, h3, h4, h5⟩, hk⟩ := h
    split
    · rw [Node.forall_iff]
      exact ⟨⟨h1, h2, wfo_nl, h4, h5⟩, hk⟩
    · rw [Node.forall_iff]
      exact ⟨⟨h1, h2, WF.plain _ _ (by decide) (by decide) h3, h4, h5⟩, hk⟩
  · exact h

theorem preRule_fnodeX {n : Node} (h : n.Forall FNodeX) : (TreeProc.preRule n).Forall FNodeX := by
  unfold TreeProc.preRule
  split
  · split
    · next code rest hch =>
      split
      · next hcode =>
        split
        · next t ht =>
          rw [Node.forall_iff] at h ⊢
          obtain ⟨hn, hk⟩ := h
          refine ⟨hn, ?_⟩
          intro c hc
          rw [hch] at hk
          rcases List.mem_cons.1 hc with rfl | hc
          · have hcd := hk code List.mem_cons_self
            rw [Node.forall_iff] at hcd ⊢
            obtain ⟨⟨h1, h2, h3, h4, h5⟩, hkk⟩ := hcd
            simp only [Bool.and_eq_true] at hcode
            have hnc : NoCtl t := by
              have := h5 hcode.1
              rw [ht] at this; exact this
            have hnew : NoCtl (rstrip t ++ ['\n']) :=
              noCtl_append.2 ⟨hnc.subset fun _ hc => (rstrip_prefix t).subset hc, by decide⟩
            exact ⟨⟨h1, h2, h3, WF.of_noCtl hnew, fun _ => hnew⟩, hkk⟩
          · exact hk c (List.mem_cons_of_mem _ hc)
        · exact h
      · exact h
    · exact h
  · exact h

/-- **`PrettifyTreeprocessor.run` keeps `FNodeX`** -/
theorem prettify_fnodeX {t : Node} (h : t.Forall FNodeX) (bl : List Str) : (TreeProc.prettify t bl).Forall FNodeX := by
  unfold TreeProc.prettify
  exact mapTree_fnodeX (fun _ => preRule_fnodeX) _ (mapTree_fnodeX (fun _ => brRule_fnodeX) _ (prettifyETree_fnodeX bl t h))

/-! ### `UnescapeTreeprocessor` -/

private theorem getD_of_not_truthy {t : Option Str} (h : ¬ Node.truthy t = true) : t.getD [] = [] := by
  cases t with
  | none => rfl
  | some s => cases s with
    | nil => rfl
    | cons c s => exact absurd rfl h

theorem unescStep_fnodeX {n u : Node} (h : FNodeX n) (hs : UnescStep n u) : NodeNoCtl u := by
  obtain ⟨htag, hattrs, htext, htail⟩ := hs
  obtain ⟨h1, h2, h3, h4, h5⟩ := h
  refine ⟨by rw [htag]; exact h1, ?_, ?_, ?_⟩
  · exact unescAttrs_forall (R := NoCtl) (P := WF true 0) (Q := NoCtl)
      (fun v v' hv hr => unescapeText_wf hv hr) hattrs h2
  · split at htext
    · obtain ⟨t, ht, hu⟩ := htext
      rw [hu]; exact unescapeText_wf h4 ht
    · next hc =>
      rw [htext]
      simp only [Bool.and_eq_true, Bool.not_eq_true', not_and, Bool.not_eq_false] at hc
      by_cases hnt : Node.truthy n.text = true
      · exact h5 (hc hnt)
      · show NoCtl _
        rw [getD_of_not_truthy hnt]; exact noCtl_nil
  · split at htail
    · obtain ⟨t, ht, hu⟩ := htail
      rw [hu]; exact unescapeText_wf h3 ht
    · next hnt =>
      rw [htail]
      show NoCtl _
      rw [getD_of_not_truthy hnt]; exact noCtl_nil

/-- **`UnescapeTreeprocessor.run` on a tree of `FNodeX` elements leaves no STX/ETX**: texts, tails and attribute
    values -/
theorem unescapeTree_fnodeX {t u : Node} (h : t.Forall FNodeX) (hr : TreeProc.unescapeTree t = some u) :
    TreeNoCtl u :=
  unescapeTree_forall (fun _ _ => unescStep_fnodeX) h hr

theorem unescAttrs_tok_some : ∀ {attrs : List (Str × Str)}, attrsTok attrs → ∃ a, TreeProc.unescAttrs attrs = some a
  | [], _ => ⟨[], rfl⟩
  | (k, v) :: r, h => by
    obtain ⟨v', hv⟩ := unescapeText_wf_some (h (k, v) (by simp)).2
    obtain ⟨r', hr⟩ := unescAttrs_tok_some (attrs := r) (fun kv hkv => h kv (List.mem_cons_of_mem _ hkv))
    exact ⟨(k, v') :: r', by simp only [TreeProc.unescAttrs, hv, hr]⟩

mutual
/-- on the trees handed to it, `UnescapeTreeprocessor.run` does not raise -/
theorem unescapeTree_fnodeX_some : ∀ {t : Node}, t.Forall FNodeX → ∃ u, TreeProc.unescapeTree t = some u
  | ⟨tag, attrs, text, ta, children, tail, tla⟩, h => by
    simp only [Node.Forall] at h
    obtain ⟨⟨_, h2, h3, h4, _⟩, hk⟩ := h
    obtain ⟨ks, hks⟩ := unescapeKids_fnodeX_some hk
    obtain ⟨t1, ht1⟩ := unescapeText_wf_some h4
    obtain ⟨t2, ht2⟩ := unescapeText_wf_some h3
    obtain ⟨a, ha⟩ := unescAttrs_tok_some h2
    simp only at ht1 ht2 ha
    simp only [TreeProc.unescapeTree, ha, hks, ht1, ht2, Option.map_some]
    split
    · exact ⟨_, rfl⟩
    · next hx =>
      exfalso
      exact hx (if (Node.truthy text && !(tag == Tag.name "code".toList)) = true then some t1 else text)
        (if Node.truthy tail = true then some t2 else tail) a ks (by split <;> rfl) (by split <;> rfl) rfl rfl
theorem unescapeKids_fnodeX_some : ∀ {l : List Node}, Node.ForallL FNodeX l → ∃ l', TreeProc.unescapeKids l = some l'
  | [], _ => ⟨[], rfl⟩
  | c :: r, h => by
    simp only [Node.ForallL] at h
    obtain ⟨c', hc⟩ := unescapeTree_fnodeX_some h.1
    obtain ⟨r', hr⟩ := unescapeKids_fnodeX_some h.2
    exact ⟨c' :: r', by simp only [TreeProc.unescapeKids, hc, hr]⟩
end

/-! ### `AbbrTreeprocessor` -/

mutual
theorem abbrNode_fnodeX {abbrs : List (Str × Str)} {keys : List Str} (ha : AbbrsOK abbrs)
    (hk : ∀ key ∈ keys, ∃ kv ∈ abbrs, kv.1 = key) (isRoot : Bool) : ∀ (n : Node), n.Forall FNodeX →
    (AbbrTree.abbrNode abbrs keys isRoot n).1.Forall FNodeX ∧
      Node.ForallL FNodeX (AbbrTree.abbrNode abbrs keys isRoot n).2
  | ⟨tag, attrs, text, ta, children, tail, tla⟩, h => by
    simp only [Node.Forall] at h
    obtain ⟨⟨h1, h2, h3, h4, h5⟩, hkids⟩ := h
    rw [abbrNode_eq]
    obtain ⟨t1, t2, t3⟩ := abbrSlot_spec ha hk true text ta h4
    obtain ⟨l1, _, l3⟩ := abbrSlot_spec ha hk (!isRoot) tail tla h3
    refine ⟨?_, forallL_fnodeX_of_fnode l3⟩
    rw [Node.forall_def]
    exact ⟨⟨h1, h2, l1, t1, fun hc => t2 (h5 hc)⟩,
      forallL_append (forallL_fnodeX_of_fnode t3) (abbrKids_fnodeX ha hk children hkids)⟩
theorem abbrKids_fnodeX {abbrs : List (Str × Str)} {keys : List Str} (ha : AbbrsOK abbrs)
    (hk : ∀ key ∈ keys, ∃ kv ∈ abbrs, kv.1 = key) : ∀ (l : List Node), Node.ForallL FNodeX l →
    Node.ForallL FNodeX (AbbrTree.abbrKids abbrs keys l)
  | [], _ => by simp [AbbrTree.abbrKids, Node.ForallL]
  | c :: r, h => by
    simp only [Node.ForallL] at h
    rw [AbbrTree.abbrKids]
    obtain ⟨c1, c2⟩ := abbrNode_fnodeX ha hk false c h.1
    have : Node.ForallL FNodeX ((AbbrTree.abbrNode abbrs keys false c).1 ::
        ((AbbrTree.abbrNode abbrs keys false c).2 ++ AbbrTree.abbrKids abbrs keys r)) := by
      simp only [Node.ForallL]
      exact ⟨c1, forallL_append c2 (abbrKids_fnodeX ha hk r h.2)⟩
    exact this
end

theorem abbr_run_fnodeX_of {abbrs : List (Str × Str)} {t : Node} (h : t.Forall FNodeX) (ha : AbbrsOK abbrs) :
    (AbbrTree.run abbrs t).Forall FNodeX := by
  unfold AbbrTree.run
  split
  · exact h
  · refine (abbrNode_fnodeX ha ?_ true t h).1
    intro key hkey
    obtain ⟨kv, hkv, e⟩ := List.mem_map.1 (mem_sortKeys hkey)
    exact ⟨kv, hkv, e⟩

/-- **`AbbrTreeprocessor.run` keeps `FNodeX`** when no abbreviation or title holds STX or ETX and no abbreviation is
    a number (for a number the statement is false: F-C10-6) -/
theorem abbr_run_fnodeX {abbrs : List (Str × Str)} {t : Node} (h : t.Forall FNodeX)
    (hn : ∀ kv ∈ abbrs, NoCtl kv.1 ∧ NoCtl kv.2) (hd : noDigitsAbbr abbrs = true) :
    (AbbrTree.run abbrs t).Forall FNodeX :=
  abbr_run_fnodeX_of h (abbrsOK_of hn hd)

end MdVerif.NoCtlX
