/-
Helper lemmas for C01 with inline links, inline images AND hard breaks in one paragraph (`Props/C01i.lean`, last part),
the pattern loop: `__handleInline` from pattern 0 on a text `C₀ U₁ C₁ … Uₘ Cₘ` (`bRaw` of `Lemmas/DocParse6NDef.lean`)
whose uses are inline links, inline images and hard breaks in any order.  `Lemmas/DocParse6MLoop.lean` with the third
kind of use: the link pattern (3) takes the links out, the image pattern (4) the images, the line-break pattern (10) the
hard breaks.  Result: `LoopOKB`.  Core Lean only.
-/
import MdVerif.Lemmas.DocParse6NDef
import MdVerif.Lemmas.DocParse6MLoop

namespace MdVerif.DocMixB
open Py Inline Escape DocSpec CodeLaw DocParse Block DocParse2 RefText DocLink DocImg
open DocMix (SkipA skipA_nil skipA_append skipA_quiet skipA_bang skipA_placeholder skipA_stage skipA_openerM
  linkScan_link_atS findMatch3_atS applyPattern_inlAtS)

/-! ### unfolding the stages -/

theorem bStage_lk (esc : List Char) (lv : Nat) (pe : Bool) (m n0 : Nat) (u : IUse) (r : List BUse) :
    bStage esc lv pe m n0 (.lk u :: r) =
      ['['] ++ (u.T.stage esc lv pe m n0 0 0 ++ (closerI u ++
        (u.C.stage esc lv pe (m + u.T.escs esc) (n0 + u.T.cnt 0) 0 0 ++
          bStage esc lv pe (m + u.T.escs esc + u.C.escs esc) (n0 + u.T.cnt 0 + u.C.cnt 0) r))) := by
  simp [bStage, BUse.head, BUse.C, BUse.tEscs, BUse.tCnt, List.append_assoc]

theorem bStage_im (esc : List Char) (lv : Nat) (pe : Bool) (m n0 : Nat) (u : DocImg.MUse) (r : List BUse) :
    bStage esc lv pe m n0 (.im u :: r) =
      openerM u ++ (u.C.stage esc lv pe m n0 0 0 ++ bStage esc lv pe (m + u.C.escs esc) (n0 + u.C.cnt 0) r) := by
  simp [bStage, BUse.head, BUse.C, BUse.tEscs, BUse.tCnt]

theorem bStage_br (esc : List Char) (lv : Nat) (pe : Bool) (m n0 : Nat) (C : Chunk) (r : List BUse) :
    bStage esc lv pe m n0 (.br C :: r) =
      brS ++ (C.stage esc lv pe m n0 0 0 ++ bStage esc lv pe (m + C.escs esc) (n0 + C.cnt 0) r) := by
  simp [bStage, BUse.head, BUse.C, BUse.tEscs, BUse.tCnt]

theorem bStage_head (esc : List Char) (lv : Nat) (pe : Bool) (m n0 : Nat) (gs : List BUse) :
    (bStage esc lv pe m n0 gs).head? ≠ some '`' := by
  cases gs with
  | nil => simp [bStage]
  | cons g r =>
    cases g with
    | lk u => simp [bStage, BUse.head]
    | im u => simp [bStage, BUse.head, openerM]
    | br C => simp [bStage, BUse.head, brS]

theorem bOK_lk {esc : List Char} {u : IUse} {r : List BUse} (h : ∀ g ∈ BUse.lk u :: r, BUseOK esc g) :
    IUseOK esc u := (h _ List.mem_cons_self).lk u rfl

theorem bOK_im {esc : List Char} {u : DocImg.MUse} {r : List BUse} (h : ∀ g ∈ BUse.im u :: r, BUseOK esc g) :
    DocImg.MUseOK esc u := (h _ List.mem_cons_self).im u rfl

theorem bOK_br {esc : List Char} {C : Chunk} {r : List BUse} (h : ∀ g ∈ BUse.br C :: r, BUseOK esc g) :
    ChunkOK esc C := ((h _ List.mem_cons_self).br C rfl).1

theorem bOK_tl {esc : List Char} {g : BUse} {r : List BUse} (h : ∀ x ∈ g :: r, BUseOK esc x) :
    ∀ x ∈ r, BUseOK esc x := fun x hx => h x (List.mem_cons_of_mem _ hx)

/-- number of links: the turns of the link pass -/
def bLinks : List BUse → Nat
  | [] => 0
  | .lk _ :: r => bLinks r + 1
  | .im _ :: r => bLinks r
  | .br _ :: r => bLinks r

theorem noTickBs_brS : noTickBs brS := by
  intro c hc
  simp only [brS, List.mem_cons, List.not_mem_nil, or_false] at hc
  rcases hc with rfl | rfl | rfl <;> exact ⟨by decide, by decide⟩

theorem brS_ne : brS ≠ [] := by simp [brS]

theorem bs_not_mem_brS : '\\' ∉ brS := by decide

theorem lbr_not_mem_brS : '[' ∉ brS := by decide

theorem bang_not_mem_brS : '!' ∉ brS := by decide

theorem skipA_brS : SkipA brS := skipA_quiet _ lbr_not_mem_brS bang_not_mem_brS

/-! ### patterns 0 and 1 -/

/-- **the backtick pass on the uses**: the code spans of all the chunks, left to right -/
theorem code_pass_b (cfg : Inline.Cfg) (hi : HI) (hb : '\\' ∈ cfg.esc) (ht : '`' ∈ cfg.esc) (gs : List BUse) :
    ∀ (A : Str) (m n0 : Nat) (st : St) (g : Nat), BtOK A → (∀ x ∈ gs, BUseOK cfg.esc x) →
      hiLoop (applyPattern cfg hi) (g + bCnt0 gs) (A ++ bStage cfg.esc 0 false m n0 gs) 0 0 st =
        hiLoop (applyPattern cfg hi) g (A ++ bStage cfg.esc 1 false m st.stash.length gs) 0 0
          { st with stash := st.stash ++ bNodes0 gs } ∧
      BtOK (A ++ bStage cfg.esc 1 false m st.stash.length gs) := by
  induction gs with
  | nil => intro A m n0 st g hA _; simp [bStage, bCnt0, bNodes0, hA]
  | cons x r ih =>
    cases x with
    | lk u =>
      intro A m n0 st g hA hus
      have hu := bOK_lk hus
      have hur := bOK_tl hus
      -- the opening bracket
      have hA1 := btOK_item hA (show noTickBs ['['] from fun c hc => by simp at hc; subst hc; exact ⟨by decide, by decide⟩)
      have hA1l := hA1.2 (by simp)
      -- the text
      have e1 := code_pass_chunk cfg hi hb ht
        (closerI u ++ (u.C.stage cfg.esc 0 false (m + u.T.escs cfg.esc) (n0 + u.T.cnt 0) 0 0 ++
          bStage cfg.esc 0 false (m + u.T.escs cfg.esc + u.C.escs cfg.esc) (n0 + u.T.cnt 0 + u.C.cnt 0) r))
        (by simp [closerI]) u.T (A ++ ['[']) m n0 0 0 st (g + bCnt0 r + u.C.cnt 0) hA1.1 hA1l hu.text.ok hu.text.junctions
      have hA2 := btOK_chunk1 hb ht u.T.segs (A ++ ['[']) u.T.t0 (m + escCount cfg.esc u.T.t0) st.stash.length 0 0
        hA1.1 hA1l hu.text.ok
      have hA3 := btOK_item hA2 (noTickBs_closerI hu)
      have hA3l := hA3.2 (by simp [closerI])
      -- the content after the use
      generalize hst1 : ({ st with stash := st.stash ++ nodesOf 0 u.T.segs } : St) = st1 at e1
      have hst1l : st1.stash.length = st.stash.length + u.T.cnt 0 := by rw [← hst1]; simp [Chunk.cnt]
      have e2 := code_pass_chunk cfg hi hb ht
        (bStage cfg.esc 0 false (m + u.T.escs cfg.esc + u.C.escs cfg.esc) (n0 + u.T.cnt 0 + u.C.cnt 0) r)
        (bStage_head _ _ _ _ _ _) u.C
        (A ++ ['['] ++ (escAll cfg.esc u.T.t0 ++ stageM cfg.esc 1 false (m + escCount cfg.esc u.T.t0) st.stash.length 0 0
          u.T.segs) ++ closerI u) (m + u.T.escs cfg.esc) (n0 + u.T.cnt 0) 0 0 st1 (g + bCnt0 r) hA3.1 hA3l
        hu.after.ok hu.after.junctions
      have hA4 := btOK_chunk1 hb ht u.C.segs _ u.C.t0 (m + u.T.escs cfg.esc + escCount cfg.esc u.C.t0) st1.stash.length 0 0
        hA3.1 hA3l hu.after.ok
      generalize hst2 : ({ st1 with stash := st1.stash ++ nodesOf 0 u.C.segs } : St) = st2 at e2
      have hst2l : st2.stash.length = st.stash.length + u.T.cnt 0 + u.C.cnt 0 := by
        rw [← hst2]; simp [Chunk.cnt, hst1l]
      obtain ⟨e3, hA5⟩ := ih (A ++ ['['] ++ (escAll cfg.esc u.T.t0 ++ stageM cfg.esc 1 false (m + escCount cfg.esc u.T.t0)
          st.stash.length 0 0 u.T.segs) ++ closerI u ++ (escAll cfg.esc u.C.t0 ++ stageM cfg.esc 1 false
          (m + u.T.escs cfg.esc + escCount cfg.esc u.C.t0) st1.stash.length 0 0 u.C.segs))
        (m + u.T.escs cfg.esc + u.C.escs cfg.esc) (n0 + u.T.cnt 0 + u.C.cnt 0) st2 g hA4 hur
      have hstage1T : u.T.stage cfg.esc 1 false m st.stash.length 0 0 =
          escAll cfg.esc u.T.t0 ++ stageM cfg.esc 1 false (m + escCount cfg.esc u.T.t0) st.stash.length 0 0 u.T.segs := by
        simp [Chunk.stage]
      have hstage1C : u.C.stage cfg.esc 1 false (m + u.T.escs cfg.esc) st1.stash.length 0 0 =
          escAll cfg.esc u.C.t0 ++ stageM cfg.esc 1 false (m + u.T.escs cfg.esc + escCount cfg.esc u.C.t0)
            st1.stash.length 0 0 u.C.segs := by
        simp [Chunk.stage]
      refine ⟨?_, ?_⟩
      · rw [bStage_lk, bStage_lk]
        rw [show g + bCnt0 (.lk u :: r) = g + bCnt0 r + u.C.cnt 0 + u.T.cnt 0 by
          simp [bCnt0, BUse.tCnt, BUse.C]; omega]
        simp only [List.append_assoc] at e1 e2 e3 ⊢
        rw [e1]
        rw [hstage1T]
        simp only [List.append_assoc]
        rw [e2, hstage1C]
        simp only [List.append_assoc]
        rw [e3, ← hst2, ← hst1]
        simp [bNodes0, List.append_assoc, Chunk.cnt, Chunk.stage, Nat.add_assoc]
      · rw [bStage_lk, hstage1T]
        rw [hst1l] at hstage1C
        rw [hstage1C]
        rw [hst2l] at hA5
        rw [hst1l] at hA5
        simpa only [List.append_assoc] using hA5
    | im u =>
      intro A m n0 st g hA hus
      have hu := bOK_im hus
      have hur := bOK_tl hus
      have hA1 := btOK_item hA (noTickBs_openerM hu)
      have hA1l := hA1.2 (openerM_ne u)
      have e1 := code_pass_chunk cfg hi hb ht
        (bStage cfg.esc 0 false (m + u.C.escs cfg.esc) (n0 + u.C.cnt 0) r) (bStage_head _ _ _ _ _ _) u.C
        (A ++ openerM u) m n0 0 0 st (g + bCnt0 r) hA1.1 hA1l hu.after.ok hu.after.junctions
      have hA2 := btOK_chunk1 hb ht u.C.segs (A ++ openerM u) u.C.t0 (m + escCount cfg.esc u.C.t0) st.stash.length 0 0
        hA1.1 hA1l hu.after.ok
      generalize hst1 : ({ st with stash := st.stash ++ nodesOf 0 u.C.segs } : St) = st1 at e1
      have hst1l : st1.stash.length = st.stash.length + u.C.cnt 0 := by rw [← hst1]; simp [Chunk.cnt]
      have hstage1C : u.C.stage cfg.esc 1 false m st.stash.length 0 0 =
          escAll cfg.esc u.C.t0 ++ stageM cfg.esc 1 false (m + escCount cfg.esc u.C.t0) st.stash.length 0 0 u.C.segs := by
        simp [Chunk.stage]
      rw [← hstage1C] at hA2
      obtain ⟨e3, hA5⟩ := ih (A ++ openerM u ++ u.C.stage cfg.esc 1 false m st.stash.length 0 0)
        (m + u.C.escs cfg.esc) (n0 + u.C.cnt 0) st1 g hA2 hur
      refine ⟨?_, ?_⟩
      · rw [bStage_im, bStage_im]
        rw [show g + bCnt0 (.im u :: r) = g + bCnt0 r + u.C.cnt 0 by simp [bCnt0, BUse.tCnt, BUse.C]; omega]
        simp only [List.append_assoc] at e1 e3 ⊢
        rw [e1, e3, ← hst1]
        simp [bNodes0, List.append_assoc, Chunk.cnt]
      · rw [bStage_im]
        rw [hst1l] at hA5
        simpa only [List.append_assoc] using hA5
    | br C =>
      intro A m n0 st g hA hus
      have hu := bOK_br hus
      have hur := bOK_tl hus
      have hA1 := btOK_item hA (noTickBs_brS)
      have hA1l := hA1.2 (brS_ne)
      have e1 := code_pass_chunk cfg hi hb ht
        (bStage cfg.esc 0 false (m + C.escs cfg.esc) (n0 + C.cnt 0) r) (bStage_head _ _ _ _ _ _) C
        (A ++ brS) m n0 0 0 st (g + bCnt0 r) hA1.1 hA1l hu.ok hu.junctions
      have hA2 := btOK_chunk1 hb ht C.segs (A ++ brS) C.t0 (m + escCount cfg.esc C.t0) st.stash.length 0 0
        hA1.1 hA1l hu.ok
      generalize hst1 : ({ st with stash := st.stash ++ nodesOf 0 C.segs } : St) = st1 at e1
      have hst1l : st1.stash.length = st.stash.length + C.cnt 0 := by rw [← hst1]; simp [Chunk.cnt]
      have hstage1C : C.stage cfg.esc 1 false m st.stash.length 0 0 =
          escAll cfg.esc C.t0 ++ stageM cfg.esc 1 false (m + escCount cfg.esc C.t0) st.stash.length 0 0 C.segs := by
        simp [Chunk.stage]
      rw [← hstage1C] at hA2
      obtain ⟨e3, hA5⟩ := ih (A ++ brS ++ C.stage cfg.esc 1 false m st.stash.length 0 0)
        (m + C.escs cfg.esc) (n0 + C.cnt 0) st1 g hA2 hur
      refine ⟨?_, ?_⟩
      · rw [bStage_br, bStage_br]
        rw [show g + bCnt0 (.br C :: r) = g + bCnt0 r + C.cnt 0 by simp [bCnt0, BUse.tCnt, BUse.C]; omega]
        simp only [List.append_assoc] at e1 e3 ⊢
        rw [e1, e3, ← hst1]
        simp [bNodes0, List.append_assoc, Chunk.cnt]
      · rw [bStage_br]
        rw [hst1l] at hA5
        simpa only [List.append_assoc] using hA5

/-- **the escape pass on the uses** -/
theorem esc_pass_b (cfg : Inline.Cfg) (hi : HI) (hE : EscOK cfg.esc) (hrb : ']' ∈ cfg.esc) (gs : List BUse) :
    ∀ (A : Str) (m n0 : Nat) (st : St) (g : Nat), '\\' ∉ A → (∀ x ∈ gs, BUseOK cfg.esc x) →
      hiLoop (applyPattern cfg hi) (g + bEscs cfg.esc gs) (A ++ bStage cfg.esc 1 false m n0 gs) 1 0 st =
        hiLoop (applyPattern cfg hi) g (A ++ bStage cfg.esc 1 true st.stash.length n0 gs) 1 0
          { st with stash := st.stash ++ bEscStash cfg.esc gs } := by
  induction gs with
  | nil => intro A m n0 st g _ _; simp [bStage, bEscs, bEscStash]
  | cons x r ih =>
    cases x with
    | lk u =>
      intro A m n0 st g hA hus
      have hu := bOK_lk hus
      have hur := bOK_tl hus
      have hA1 : '\\' ∉ A ++ ['['] := by
        intro h; rcases List.mem_append.1 h with h | h
        · exact hA h
        · simp at h
      have e1 := esc_pass_chunk cfg hi hE.bs 1 (by omega)
        (closerI u ++ (u.C.stage cfg.esc 1 false (m + u.T.escs cfg.esc) (n0 + u.T.cnt 0) 0 0 ++
          bStage cfg.esc 1 false (m + u.T.escs cfg.esc + u.C.escs cfg.esc) (n0 + u.T.cnt 0 + u.C.cnt 0) r))
        u.T (A ++ ['[']) m n0 0 0 st (g + bEscs cfg.esc r + u.C.escs cfg.esc) hA1 hu.text.ok
      generalize hst1 : ({ st with stash := st.stash ++ u.T.escStash cfg.esc } : St) = st1 at e1
      have hst1l : st1.stash.length = st.stash.length + u.T.escs cfg.esc := by
        rw [← hst1]; simp [Chunk.escStash_length]
      have hA2 : '\\' ∉ A ++ ['['] ++ u.T.stage cfg.esc 1 true st.stash.length n0 0 0 ++ closerI u := by
        intro h
        rcases List.mem_append.1 h with h | h
        · rcases List.mem_append.1 h with h | h
          · exact hA1 h
          · exact bs_not_mem_stage hE hrb 1 (by omega) u.T hu.text.ok hu.text.plain _ _ _ _ h
        · exact bs_not_mem_closerI hu h
      have e2 := esc_pass_chunk cfg hi hE.bs 1 (by omega)
        (bStage cfg.esc 1 false (m + u.T.escs cfg.esc + u.C.escs cfg.esc) (n0 + u.T.cnt 0 + u.C.cnt 0) r)
        u.C (A ++ ['['] ++ u.T.stage cfg.esc 1 true st.stash.length n0 0 0 ++ closerI u) (m + u.T.escs cfg.esc)
        (n0 + u.T.cnt 0) 0 0 st1 (g + bEscs cfg.esc r) hA2 hu.after.ok
      generalize hst2 : ({ st1 with stash := st1.stash ++ u.C.escStash cfg.esc } : St) = st2 at e2
      have hst2l : st2.stash.length = st.stash.length + u.T.escs cfg.esc + u.C.escs cfg.esc := by
        rw [← hst2]; simp [Chunk.escStash_length, hst1l]
      have hA3 : '\\' ∉ A ++ ['['] ++ u.T.stage cfg.esc 1 true st.stash.length n0 0 0 ++ closerI u ++
          u.C.stage cfg.esc 1 true st1.stash.length (n0 + u.T.cnt 0) 0 0 := by
        intro h
        rcases List.mem_append.1 h with h | h
        · exact hA2 h
        · exact bs_not_mem_stage hE hrb 1 (by omega) u.C hu.after.ok hu.after.plain _ _ _ _ h
      have e3 := ih _ (m + u.T.escs cfg.esc + u.C.escs cfg.esc) (n0 + u.T.cnt 0 + u.C.cnt 0) st2 g hA3 hur
      rw [bStage_lk, bStage_lk]
      rw [show g + bEscs cfg.esc (.lk u :: r) = g + bEscs cfg.esc r + u.C.escs cfg.esc + u.T.escs cfg.esc by
        simp [bEscs, BUse.tEscs, BUse.C]; omega]
      simp only [List.append_assoc] at e1 e2 e3 ⊢
      rw [e1, e2, e3, ← hst2, ← hst1]
      simp [bEscStash, List.append_assoc, Chunk.escStash_length, Nat.add_assoc]
    | im u =>
      intro A m n0 st g hA hus
      have hu := bOK_im hus
      have hur := bOK_tl hus
      have hA1 : '\\' ∉ A ++ openerM u := by
        intro h; rcases List.mem_append.1 h with h | h
        · exact hA h
        · exact bs_not_mem_openerM hu h
      have e1 := esc_pass_chunk cfg hi hE.bs 1 (by omega)
        (bStage cfg.esc 1 false (m + u.C.escs cfg.esc) (n0 + u.C.cnt 0) r)
        u.C (A ++ openerM u) m n0 0 0 st (g + bEscs cfg.esc r) hA1 hu.after.ok
      generalize hst1 : ({ st with stash := st.stash ++ u.C.escStash cfg.esc } : St) = st1 at e1
      have hst1l : st1.stash.length = st.stash.length + u.C.escs cfg.esc := by
        rw [← hst1]; simp [Chunk.escStash_length]
      have hA2 : '\\' ∉ A ++ openerM u ++ u.C.stage cfg.esc 1 true st.stash.length n0 0 0 := by
        intro h
        rcases List.mem_append.1 h with h | h
        · exact hA1 h
        · exact bs_not_mem_stage hE hrb 1 (by omega) u.C hu.after.ok hu.after.plain _ _ _ _ h
      have e3 := ih _ (m + u.C.escs cfg.esc) (n0 + u.C.cnt 0) st1 g hA2 hur
      rw [bStage_im, bStage_im]
      rw [show g + bEscs cfg.esc (.im u :: r) = g + bEscs cfg.esc r + u.C.escs cfg.esc by
        simp [bEscs, BUse.tEscs, BUse.C]; omega]
      simp only [List.append_assoc] at e1 e3 ⊢
      rw [e1, e3, ← hst1]
      simp [bEscStash, List.append_assoc, Chunk.escStash_length]
    | br C =>
      intro A m n0 st g hA hus
      have hu := bOK_br hus
      have hur := bOK_tl hus
      have hA1 : '\\' ∉ A ++ brS := by
        intro h; rcases List.mem_append.1 h with h | h
        · exact hA h
        · exact bs_not_mem_brS h
      have e1 := esc_pass_chunk cfg hi hE.bs 1 (by omega)
        (bStage cfg.esc 1 false (m + C.escs cfg.esc) (n0 + C.cnt 0) r)
        C (A ++ brS) m n0 0 0 st (g + bEscs cfg.esc r) hA1 hu.ok
      generalize hst1 : ({ st with stash := st.stash ++ C.escStash cfg.esc } : St) = st1 at e1
      have hst1l : st1.stash.length = st.stash.length + C.escs cfg.esc := by
        rw [← hst1]; simp [Chunk.escStash_length]
      have hA2 : '\\' ∉ A ++ brS ++ C.stage cfg.esc 1 true st.stash.length n0 0 0 := by
        intro h
        rcases List.mem_append.1 h with h | h
        · exact hA1 h
        · exact bs_not_mem_stage hE hrb 1 (by omega) C hu.ok hu.plain _ _ _ _ h
      have e3 := ih _ (m + C.escs cfg.esc) (n0 + C.cnt 0) st1 g hA2 hur
      rw [bStage_br, bStage_br]
      rw [show g + bEscs cfg.esc (.br C :: r) = g + bEscs cfg.esc r + C.escs cfg.esc by
        simp [bEscs, BUse.tEscs, BUse.C]; omega]
      simp only [List.append_assoc] at e1 e3 ⊢
      rw [e1, e3, ← hst1]
      simp [bEscStash, List.append_assoc, Chunk.escStash_length]

/-! ### pattern 2 finds nothing: every `[text]` is followed by `(`, every other `[` stands behind `!` -/

theorem linkScan2_b (cfg : Inline.Cfg) (hE : EscOK cfg.esc) (hrb : ']' ∈ cfg.esc) (stash : List StashItem)
    (gs : List BUse) : ∀ (P A : Str) (m n0 : Nat) (prev : Option Char), SkipA A → prev ≠ some '!' →
      (∀ x ∈ gs, BUseOK cfg.esc x) →
      linkScan cfg stash 2 (P ++ (A ++ bStage cfg.esc 1 true m n0 gs)) prev (A ++ bStage cfg.esc 1 true m n0 gs)
        P.length = none := by
  induction gs with
  | nil =>
    intro P A m n0 prev hA hprev _
    obtain ⟨p', _, e⟩ := hA cfg stash 2 (by decide) (P ++ (A ++ bStage cfg.esc 1 true m n0 [])) prev [] P.length hprev
    simp only [bStage] at e ⊢
    rw [e]; rfl
  | cons x r ih =>
    cases x with
    | lk u =>
      intro P A m n0 prev hA hprev hus
      have hu := bOK_lk hus
      have hT := not_mem_of_charOK (charOK_stage hE hrb 1 (by omega) u.T hu.text.ok hu.text.plain m n0 0 0)
      have hC := not_mem_of_charOK (charOK_stage hE hrb 1 (by omega) u.C hu.after.ok hu.after.plain
        (m + u.T.escs cfg.esc) (n0 + u.T.cnt 0) 0 0)
      generalize hrest : bStage cfg.esc 1 true (m + u.T.escs cfg.esc + u.C.escs cfg.esc) (n0 + u.T.cnt 0 + u.C.cnt 0) r = R
      have hscan := linkScan_link_atS cfg stash 2 (by decide)
        (P ++ (A ++ bStage cfg.esc 1 true m n0 (.lk u :: r))) A
        (u.T.stage cfg.esc 1 true m n0 0 0 ++ (']' :: '(' :: (destSrc u.url u.dtitle ++ (')' ::
          (u.C.stage cfg.esc 1 true (m + u.T.escs cfg.esc) (n0 + u.T.cnt 0) 0 0 ++ R)))))
        prev P.length hA hprev
      have hdata : P ++ (A ++ bStage cfg.esc 1 true m n0 (.lk u :: r)) =
          (P ++ A ++ ['[']) ++ u.T.stage cfg.esc 1 true m n0 0 0 ++ ']' :: '(' :: (destSrc u.url u.dtitle ++ (')' ::
            (u.C.stage cfg.esc 1 true (m + u.T.escs cfg.esc) (n0 + u.T.cnt 0) 0 0 ++ R))) := by
        rw [bStage_lk, hrest]; simp [closerI, List.append_assoc]
      have hrej := linkHandle_ref_rejectParen cfg stash (P ++ A ++ ['[']) (u.T.stage cfg.esc 1 true m n0 0 0)
        (destSrc u.url u.dtitle ++ (')' :: (u.C.stage cfg.esc 1 true (m + u.T.escs cfg.esc) (n0 + u.T.cnt 0) 0 0 ++ R)))
        (P.length + A.length) hT.1 hT.2.1
      rw [← hdata] at hrej
      have hlen : (P ++ A ++ ['[']).length = P.length + A.length + 1 := by simp; omega
      rw [hlen] at hrej
      have hS : A ++ bStage cfg.esc 1 true m n0 (.lk u :: r) = A ++ '[' :: (u.T.stage cfg.esc 1 true m n0 0 0 ++
          (']' :: '(' :: (destSrc u.url u.dtitle ++ (')' ::
            (u.C.stage cfg.esc 1 true (m + u.T.escs cfg.esc) (n0 + u.T.cnt 0) 0 0 ++ R))))) := by
        rw [bStage_lk, hrest]; simp [closerI, List.append_assoc]
      rw [hS] at hscan ⊢
      rw [hscan, ← hS, hrej]
      simp only
      -- the rest: the text, the closing part and the content have no `[`
      have hA1' : '[' ∉ u.T.stage cfg.esc 1 true m n0 0 0 ++ (closerI u ++
          u.C.stage cfg.esc 1 true (m + u.T.escs cfg.esc) (n0 + u.T.cnt 0) 0 0) := by
        intro h
        rcases List.mem_append.1 h with h | h
        · exact hT.1 h
        · rcases List.mem_append.1 h with h | h
          · exact (closerI_chars hu _ h).2.2.1 rfl
          · exact hC.1 h
      have hA2' : '!' ∉ u.T.stage cfg.esc 1 true m n0 0 0 ++ (closerI u ++
          u.C.stage cfg.esc 1 true (m + u.T.escs cfg.esc) (n0 + u.T.cnt 0) 0 0) := by
        intro h
        rcases List.mem_append.1 h with h | h
        · exact hT.2.2.1 h
        · rcases List.mem_append.1 h with h | h
          · exact (closerI_chars hu _ h).2.2.2 rfl
          · exact hC.2.2.1 h
      have := ih (P ++ A ++ ['[']) (u.T.stage cfg.esc 1 true m n0 0 0 ++ (closerI u ++
          u.C.stage cfg.esc 1 true (m + u.T.escs cfg.esc) (n0 + u.T.cnt 0) 0 0))
        (m + u.T.escs cfg.esc + u.C.escs cfg.esc) (n0 + u.T.cnt 0 + u.C.cnt 0) (some '[')
        (skipA_quiet _ hA1' hA2') (by simp) (bOK_tl hus)
      rw [hrest, hlen] at this
      have e1 : P ++ A ++ ['['] ++ (u.T.stage cfg.esc 1 true m n0 0 0 ++ (closerI u ++
          u.C.stage cfg.esc 1 true (m + u.T.escs cfg.esc) (n0 + u.T.cnt 0) 0 0) ++ R) =
          P ++ (A ++ bStage cfg.esc 1 true m n0 (.lk u :: r)) := by
        rw [bStage_lk, hrest]; simp [closerI, List.append_assoc]
      have e2 : u.T.stage cfg.esc 1 true m n0 0 0 ++ (closerI u ++
          u.C.stage cfg.esc 1 true (m + u.T.escs cfg.esc) (n0 + u.T.cnt 0) 0 0) ++ R =
          u.T.stage cfg.esc 1 true m n0 0 0 ++ (']' :: '(' :: (destSrc u.url u.dtitle ++ (')' ::
            (u.C.stage cfg.esc 1 true (m + u.T.escs cfg.esc) (n0 + u.T.cnt 0) 0 0 ++ R)))) := by
        simp [closerI, List.append_assoc]
      rw [e1, e2] at this
      exact this
    | im u =>
      intro P A m n0 prev hA hprev hus
      have hu := bOK_im hus
      have := ih P (A ++ (openerM u ++ u.C.stage cfg.esc 1 true m n0 0 0)) (m + u.C.escs cfg.esc) (n0 + u.C.cnt 0) prev
        (skipA_append hA (skipA_append (skipA_openerM hu) (skipA_stage hE hrb u.C hu.after m n0))) hprev (bOK_tl hus)
      rw [bStage_im]
      simpa only [List.append_assoc] using this
    | br C =>
      intro P A m n0 prev hA hprev hus
      have hu := bOK_br hus
      have := ih P (A ++ (brS ++ C.stage cfg.esc 1 true m n0 0 0)) (m + C.escs cfg.esc) (n0 + C.cnt 0) prev
        (skipA_append hA (skipA_append (skipA_brS) (skipA_stage hE hrb C hu m n0))) hprev (bOK_tl hus)
      rw [bStage_br]
      simpa only [List.append_assoc] using this

/-! ### pattern 3: the inline links, left to right; every `![` is skipped -/

/-- **the link pass**: one turn of the pattern loop per inline link; the images stay as they are -/
theorem link_pass_b (cfg : Inline.Cfg) (hE : EscOK cfg.esc) (hrb : ']' ∈ cfg.esc) (f : Nat) (gs : List BUse) :
    ∀ (A : Str) (m n0 : Nat) (st : St) (g : Nat), SkipA A → (∀ x ∈ gs, BUseOK cfg.esc x) →
      hiLoop (applyPattern cfg (fun d p s => handleInline cfg (f + 2) d p s)) (g + bLinks gs)
        (A ++ bStage cfg.esc 1 true m n0 gs) 3 0 st =
      hiLoop (applyPattern cfg (fun d p s => handleInline cfg (f + 2) d p s)) g
        (A ++ bStageL cfg.esc m n0 st.stash.length gs) 3 0
        { st with stash := st.stash ++ bLinkStash cfg.esc m n0 st.stash.length gs } := by
  induction gs with
  | nil => intro A m n0 st g _ _; simp [bStage, bStageL, bLinkStash, bLinks]
  | cons x r ih =>
    cases x with
    | lk u =>
      intro A m n0 st g hA hus
      have hu := bOK_lk hus
      have hur := bOK_tl hus
      have hT := not_mem_of_charOK (charOK_stage hE hrb 1 (by omega) u.T hu.text.ok hu.text.plain m n0 0 0)
      have hnest := handleInline_tail cfg hE hrb f u.T m n0 0 0 st 4 (by omega) hu.text.ok hu.text.plain hu.text.under
      have hstep := applyPattern_inlAtS cfg (fun d p s => handleInline cfg (f + 2) d p s) st
        { st with stash := st.stash ++ (nodesOf 1 u.T.segs ++ nodesOf 2 u.T.segs) } A
        (u.T.stage cfg.esc 1 true m n0 0 0)
        (u.T.stage cfg.esc 3 true m n0 st.stash.length (st.stash.length + u.T.cnt 1)) u.url
        (u.C.stage cfg.esc 1 true (m + u.T.escs cfg.esc) (n0 + u.T.cnt 0) 0 0 ++
          bStage cfg.esc 1 true (m + u.T.escs cfg.esc + u.C.escs cfg.esc) (n0 + u.T.cnt 0 + u.C.cnt 0) r)
        u.dtitle hA hT.1 hT.2.1 hu.dest
        (stage_ne_nil cfg.esc 1 u.T m n0 0 0 hu.text.ok (by omega) hu.textNe) hnest
      have hA' : SkipA (A ++ (placeholder (st.stash.length + u.T.cnt 1 + u.T.cnt 2) ++
          u.C.stage cfg.esc 1 true (m + u.T.escs cfg.esc) (n0 + u.T.cnt 0) 0 0)) :=
        skipA_append hA (skipA_append (skipA_placeholder _) (skipA_stage hE hrb u.C hu.after _ _))
      have e3 := ih _ (m + u.T.escs cfg.esc + u.C.escs cfg.esc) (n0 + u.T.cnt 0 + u.C.cnt 0)
        { st with stash := st.stash ++ (nodesOf 1 u.T.segs ++ nodesOf 2 u.T.segs) ++
          [.node (InlineRef.linkEl u.url (titleOf u.dtitle) (u.T.stage cfg.esc 3 true m n0 st.stash.length
            (st.stash.length + u.T.cnt 1)))] } g hA' hur
      have hlen2 : (st.stash ++ (nodesOf 1 u.T.segs ++ nodesOf 2 u.T.segs)).length =
          st.stash.length + u.T.cnt 1 + u.T.cnt 2 := by simp [Chunk.cnt]; omega
      have hlen3 : (st.stash ++ (nodesOf 1 u.T.segs ++ nodesOf 2 u.T.segs) ++
          [StashItem.node (InlineRef.linkEl u.url (titleOf u.dtitle) (u.T.stage cfg.esc 3 true m n0 st.stash.length
            (st.stash.length + u.T.cnt 1)))]).length = st.stash.length + u.T.cnt 1 + u.T.cnt 2 + 1 := by
        rw [List.length_append, hlen2]; rfl
      simp only [hlen3] at e3
      simp only [hlen2] at hstep
      rw [show g + bLinks (.lk u :: r) = (g + bLinks r) + 1 by simp [bLinks]; omega]
      rw [bStage_lk]
      simp only [bStageL, bLinkStash, closerI]
      simp only [List.append_assoc, List.cons_append, List.nil_append] at hstep e3 ⊢
      rw [hiLoop_step _ _ _ 3 0 st (by omega) _ _ _ _ hstep]
      simp only [if_true]
      rw [e3]
    | im u =>
      intro A m n0 st g hA hus
      have hu := bOK_im hus
      have e3 := ih (A ++ (openerM u ++ u.C.stage cfg.esc 1 true m n0 0 0)) (m + u.C.escs cfg.esc) (n0 + u.C.cnt 0)
        st g (skipA_append hA (skipA_append (skipA_openerM hu) (skipA_stage hE hrb u.C hu.after m n0))) (bOK_tl hus)
      rw [bStage_im]
      simp only [bStageL, bLinkStash, bLinks]
      simp only [List.append_assoc] at e3 ⊢
      exact e3
    | br C =>
      intro A m n0 st g hA hus
      have hu := bOK_br hus
      have e3 := ih (A ++ (brS ++ C.stage cfg.esc 1 true m n0 0 0)) (m + C.escs cfg.esc) (n0 + C.cnt 0)
        st g (skipA_append hA (skipA_append (skipA_brS) (skipA_stage hE hrb C hu m n0))) (bOK_tl hus)
      rw [bStage_br]
      simp only [bStageL, bLinkStash, bLinks]
      simp only [List.append_assoc] at e3 ⊢
      exact e3

/-! ### after the link pass pattern 3 finds nothing more: every `[` stands behind a `!` -/

theorem bStageL_lk (esc : List Char) (m n0 s : Nat) (u : IUse) (r : List BUse) :
    bStageL esc m n0 s (.lk u :: r) =
      placeholder (s + u.T.cnt 1 + u.T.cnt 2) ++ (u.C.stage esc 1 true (m + u.T.escs esc) (n0 + u.T.cnt 0) 0 0 ++
        bStageL esc (m + u.T.escs esc + u.C.escs esc) (n0 + u.T.cnt 0 + u.C.cnt 0) (s + u.T.cnt 1 + u.T.cnt 2 + 1) r) :=
  rfl

theorem bStageL_im (esc : List Char) (m n0 s : Nat) (u : DocImg.MUse) (r : List BUse) :
    bStageL esc m n0 s (.im u :: r) =
      openerM u ++ (u.C.stage esc 1 true m n0 0 0 ++ bStageL esc (m + u.C.escs esc) (n0 + u.C.cnt 0) s r) := rfl

theorem bStageL_br (esc : List Char) (m n0 s : Nat) (C : Chunk) (r : List BUse) :
    bStageL esc m n0 s (.br C :: r) =
      brS ++ (C.stage esc 1 true m n0 0 0 ++ bStageL esc (m + C.escs esc) (n0 + C.cnt 0) s r) := rfl

theorem linkScan_skip_bL (cfg : Inline.Cfg) (hE : EscOK cfg.esc) (hrb : ']' ∈ cfg.esc) (stash : List StashItem)
    (pi : Nat) (hpi : ¬ (pi = 4 ∨ pi = 5 ∨ pi = 7)) (data : Str) (gs : List BUse) :
    ∀ (A : Str) (m n0 s : Nat) (prev : Option Char) (i : Nat), '[' ∉ A → (∀ x ∈ gs, BUseOK cfg.esc x) →
      linkScan cfg stash pi data prev (A ++ bStageL cfg.esc m n0 s gs) i = none := by
  induction gs with
  | nil =>
    intro A m n0 s prev i hA _
    simp only [bStageL, List.append_nil]
    exact linkScan_nobracket cfg stash pi hpi data A hA _ _
  | cons x r ih =>
    cases x with
    | lk u =>
      intro A m n0 s prev i hA hus
      have hu := bOK_lk hus
      have hC := not_mem_of_charOK (charOK_stage hE hrb 1 (by omega) u.C hu.after.ok hu.after.plain
        (m + u.T.escs cfg.esc) (n0 + u.T.cnt 0) 0 0)
      have hA' : '[' ∉ A ++ (placeholder (s + u.T.cnt 1 + u.T.cnt 2) ++
          u.C.stage cfg.esc 1 true (m + u.T.escs cfg.esc) (n0 + u.T.cnt 0) 0 0) := by
        intro h
        rcases List.mem_append.1 h with h | h
        · exact hA h
        · rcases List.mem_append.1 h with h | h
          · exact InlineRef.not_mem_placeholder (by decide) h
          · exact hC.1 h
      have := ih _ (m + u.T.escs cfg.esc + u.C.escs cfg.esc) (n0 + u.T.cnt 0 + u.C.cnt 0) (s + u.T.cnt 1 + u.T.cnt 2 + 1)
        prev i hA' (bOK_tl hus)
      rw [bStageL_lk]
      simpa only [List.append_assoc] using this
    | im u =>
      intro A m n0 s prev i hA hus
      have hu := bOK_im hus
      have hC := not_mem_of_charOK (charOK_stage hE hrb 1 (by omega) u.C hu.after.ok hu.after.plain m n0 0 0)
      have hA' : '[' ∉ u.alt ++ (closerM u ++ u.C.stage cfg.esc 1 true m n0 0 0) := by
        intro h
        rcases List.mem_append.1 h with h | h
        · exact (alnumSp_quiet (hu.alt _ h)).2.2.1 rfl
        · rcases List.mem_append.1 h with h | h
          · exact (closerM_chars hu _ h).2.2.1 rfl
          · exact hC.1 h
      have e : A ++ bStageL cfg.esc m n0 s (.im u :: r) =
          A ++ '!' :: '[' :: ((u.alt ++ (closerM u ++ u.C.stage cfg.esc 1 true m n0 0 0)) ++
            bStageL cfg.esc (m + u.C.escs cfg.esc) (n0 + u.C.cnt 0) s r) := by
        simp [bStageL, openerM, List.append_assoc]
      rw [e, InlineRef.linkScan_skip_bang cfg stash pi hpi data A _ prev i hA]
      exact ih _ _ _ _ _ _ hA' (bOK_tl hus)
    | br C =>
      intro A m n0 s prev i hA hus
      have hu := bOK_br hus
      have hC := not_mem_of_charOK (charOK_stage hE hrb 1 (by omega) C hu.ok hu.plain m n0 0 0)
      have hA' : '[' ∉ A ++ (brS ++ C.stage cfg.esc 1 true m n0 0 0) := by
        intro h
        rcases List.mem_append.1 h with h | h
        · exact hA h
        · rcases List.mem_append.1 h with h | h
          · exact lbr_not_mem_brS h
          · exact hC.1 h
      have := ih _ (m + C.escs cfg.esc) (n0 + C.cnt 0) s prev i hA' (bOK_tl hus)
      rw [bStageL_br]
      simpa only [List.append_assoc] using this

/-! ### pattern 4: the images, left to right -/

/-- **the image pass** on the text the link pass leaves -/
theorem img_pass_b (cfg : Inline.Cfg) (hE : EscOK cfg.esc) (hrb : ']' ∈ cfg.esc) (hi : HI) (gs : List BUse) :
    ∀ (A : Str) (m n0 s : Nat) (st : St) (g : Nat), '!' ∉ A → (∀ x ∈ gs, BUseOK cfg.esc x) →
      hiLoop (applyPattern cfg hi) (g + bImgLen gs) (A ++ bStageL cfg.esc m n0 s gs) 4 0 st =
      hiLoop (applyPattern cfg hi) g (A ++ bStageI cfg.esc m n0 s st.stash.length gs) 4 0
        { st with stash := st.stash ++ bImgs gs } := by
  induction gs with
  | nil => intro A m n0 s st g _ _; simp [bStageL, bStageI, bImgs, bImgLen]
  | cons x r ih =>
    cases x with
    | lk u =>
      intro A m n0 s st g hA hus
      have hu := bOK_lk hus
      have hC := not_mem_of_charOK (charOK_stage hE hrb 1 (by omega) u.C hu.after.ok hu.after.plain
        (m + u.T.escs cfg.esc) (n0 + u.T.cnt 0) 0 0)
      have hA' : '!' ∉ A ++ (placeholder (s + u.T.cnt 1 + u.T.cnt 2) ++
          u.C.stage cfg.esc 1 true (m + u.T.escs cfg.esc) (n0 + u.T.cnt 0) 0 0) := by
        intro h
        rcases List.mem_append.1 h with h | h
        · exact hA h
        · rcases List.mem_append.1 h with h | h
          · exact InlineRef.not_mem_placeholder (by decide) h
          · exact hC.2.2.1 h
      have e3 := ih _ (m + u.T.escs cfg.esc + u.C.escs cfg.esc) (n0 + u.T.cnt 0 + u.C.cnt 0) (s + u.T.cnt 1 + u.T.cnt 2 + 1)
        st g hA' (bOK_tl hus)
      simp only [bStageL, bStageI, bImgs, bImgLen]
      simp only [List.append_assoc] at e3 ⊢
      rw [e3]
    | im u =>
      intro A m n0 s st g hA hus
      have hu := bOK_im hus
      have hur := bOK_tl hus
      have hC := not_mem_of_charOK (charOK_stage hE hrb 1 (by omega) u.C hu.after.ok hu.after.plain m n0 0 0)
      have ha1 : '[' ∉ u.alt := fun h => (alnumSp_quiet (hu.alt _ h)).2.2.1 rfl
      have ha2 : ']' ∉ u.alt := fun h => (alnumSp_quiet (hu.alt _ h)).2.2.2.1 rfl
      have ha3 : Inline.STX ∉ u.alt := fun h => (alnumSp_quiet (hu.alt _ h)).2.2.2.2.2 rfl
      have hstep := applyPattern_imgAt cfg hi st A u.alt u.url
        (u.C.stage cfg.esc 1 true m n0 0 0 ++ bStageL cfg.esc (m + u.C.escs cfg.esc) (n0 + u.C.cnt 0) s r)
        u.dtitle hA ha1 ha2 ha3 hu.dest
      have hA' : '!' ∉ A ++ (placeholder st.stash.length ++ u.C.stage cfg.esc 1 true m n0 0 0) := by
        intro h
        rcases List.mem_append.1 h with h | h
        · exact hA h
        · rcases List.mem_append.1 h with h | h
          · exact InlineRef.not_mem_placeholder (by decide) h
          · exact hC.2.2.1 h
      have e3 := ih _ (m + u.C.escs cfg.esc) (n0 + u.C.cnt 0) s
        { st with stash := st.stash ++ [.node (InlineRef.imgEl u.url (titleOf u.dtitle) u.alt)] } g hA' hur
      have hlen2 : (st.stash ++ [StashItem.node (InlineRef.imgEl u.url (titleOf u.dtitle) u.alt)]).length =
          st.stash.length + 1 := by simp
      simp only [hlen2] at e3
      rw [show g + bImgLen (.im u :: r) = (g + bImgLen r) + 1 by simp [bImgLen]; omega]
      simp only [bStageL, bStageI, bImgs, imgNode, openerM, closerM]
      simp only [List.append_assoc, List.cons_append, List.nil_append] at hstep e3 ⊢
      rw [hiLoop_step _ _ _ 4 0 st (by omega) _ _ _ _ hstep]
      simp only [if_true]
      rw [e3]
    | br C =>
      intro A m n0 s st g hA hus
      have hu := bOK_br hus
      have hC := not_mem_of_charOK (charOK_stage hE hrb 1 (by omega) C hu.ok hu.plain m n0 0 0)
      have hA' : '!' ∉ A ++ (brS ++ C.stage cfg.esc 1 true m n0 0 0) := by
        intro h
        rcases List.mem_append.1 h with h | h
        · exact hA h
        · rcases List.mem_append.1 h with h | h
          · exact bang_not_mem_brS h
          · exact hC.2.2.1 h
      have e3 := ih _ (m + C.escs cfg.esc) (n0 + C.cnt 0) s st g hA' (bOK_tl hus)
      simp only [bStageL, bStageI, bImgs, bImgLen]
      simp only [List.append_assoc] at e3 ⊢
      rw [e3]

/-! ### patterns 4–9 on a text with line feeds; pattern 10: the hard breaks, left to right -/

theorem nl_not_mem_of_charOK {lv : Nat} {D : Str} (h : ∀ ch ∈ D, CharOK lv ch) : '\n' ∉ D :=
  fun hm => (h _ hm).2.2.2.2.2.2.1 rfl

theorem midN_of_charOK {lv : Nat} {D : Str} (h : ∀ ch ∈ D, CharOK lv ch) : MidN D :=
  fun c hc => ⟨(h c hc).2.2.1, (h c hc).2.2.2.2.1, (h c hc).2.2.2.2.2.1⟩

theorem midN_append {A B : Str} (hA : MidN A) (hB : MidN B) : MidN (A ++ B) := by
  intro c hc
  rcases List.mem_append.1 hc with h | h
  · exact hA c h
  · exact hB c h

theorem midN_brS : MidN brS := by
  intro c hc
  simp only [brS, List.mem_cons, List.not_mem_nil, or_false] at hc
  rcases hc with rfl | rfl | rfl <;> exact ⟨by decide, by decide, by decide⟩

theorem midN_bStageI {cfg : Inline.Cfg} (hE : EscOK cfg.esc) (hrb : ']' ∈ cfg.esc) (gs : List BUse)
    (hgs : ∀ x ∈ gs, BUseOK cfg.esc x) : ∀ (m n0 s t : Nat), MidN (bStageI cfg.esc m n0 s t gs) := by
  induction gs with
  | nil => intro _ _ _ _ c hc; simp [bStageI] at hc
  | cons x r ih =>
    cases x with
    | lk u =>
      intro m n0 s t
      have hu := bOK_lk hgs
      simp only [bStageI]
      exact midN_append (midN_of_charOK (charOK_placeholder 1 _))
        (midN_append (midN_of_charOK (charOK_stage hE hrb 1 (by omega) u.C hu.after.ok hu.after.plain _ _ 0 0))
          (ih (bOK_tl hgs) _ _ _ _))
    | im u =>
      intro m n0 s t
      have hu := bOK_im hgs
      simp only [bStageI]
      exact midN_append (midN_of_charOK (charOK_placeholder 1 _))
        (midN_append (midN_of_charOK (charOK_stage hE hrb 1 (by omega) u.C hu.after.ok hu.after.plain _ _ 0 0))
          (ih (bOK_tl hgs) _ _ _ _))
    | br C =>
      intro m n0 s t
      have hu := bOK_br hgs
      simp only [bStageI]
      exact midN_append midN_brS
        (midN_append (midN_of_charOK (charOK_stage hE hrb 1 (by omega) C hu.ok hu.plain _ _ 0 0))
          (ih (bOK_tl hgs) _ _ _ _))

/-- **the line-break pass** on the text the image pass leaves -/
theorem br_pass_b (cfg : Inline.Cfg) (hE : EscOK cfg.esc) (hrb : ']' ∈ cfg.esc) (hi : HI) (gs : List BUse) :
    ∀ (A : Str) (m n0 s t : Nat) (st : St) (g : Nat), '\n' ∉ A → (∀ x ∈ gs, BUseOK cfg.esc x) →
      hiLoop (applyPattern cfg hi) (g + bBrLen gs) (A ++ bStageI cfg.esc m n0 s t gs) 10 0 st =
      hiLoop (applyPattern cfg hi) g (A ++ outStage cfg.esc 1 0 0 (bOuter cfg.esc m n0 s t st.stash.length gs)) 10 0
        { st with stash := st.stash ++ brItems (bBrLen gs) } := by
  induction gs with
  | nil => intro A m n0 s t st g _ _; simp [bStageI, bOuter, outStage, brItems, bBrLen]
  | cons x r ih =>
    cases x with
    | lk u =>
      intro A m n0 s t st g hA hus
      have hu := bOK_lk hus
      have hC := nl_not_mem_of_charOK (charOK_stage hE hrb 1 (by omega) u.C hu.after.ok hu.after.plain
        (m + u.T.escs cfg.esc) (n0 + u.T.cnt 0) 0 0)
      have hA' : '\n' ∉ A ++ (placeholder (s + u.T.cnt 1 + u.T.cnt 2) ++
          u.C.stage cfg.esc 1 true (m + u.T.escs cfg.esc) (n0 + u.T.cnt 0) 0 0) := by
        intro h
        rcases List.mem_append.1 h with h | h
        · exact hA h
        · rcases List.mem_append.1 h with h | h
          · exact nl_not_mem_of_charOK (charOK_placeholder 1 _) h
          · exact hC h
      have e3 := ih _ (m + u.T.escs cfg.esc + u.C.escs cfg.esc) (n0 + u.T.cnt 0 + u.C.cnt 0) (s + u.T.cnt 1 + u.T.cnt 2 + 1)
        t st g hA' (bOK_tl hus)
      simp only [bStageI, bOuter, outStage, bBrLen]
      simp only [List.append_assoc] at e3 ⊢
      rw [e3, outStage1_indep cfg.esc _ (0 + u.C.cnt 1) (0 + u.C.cnt 2) 0 0]
    | im u =>
      intro A m n0 s t st g hA hus
      have hu := bOK_im hus
      have hC := nl_not_mem_of_charOK (charOK_stage hE hrb 1 (by omega) u.C hu.after.ok hu.after.plain m n0 0 0)
      have hA' : '\n' ∉ A ++ (placeholder t ++ u.C.stage cfg.esc 1 true m n0 0 0) := by
        intro h
        rcases List.mem_append.1 h with h | h
        · exact hA h
        · rcases List.mem_append.1 h with h | h
          · exact nl_not_mem_of_charOK (charOK_placeholder 1 _) h
          · exact hC h
      have e3 := ih _ (m + u.C.escs cfg.esc) (n0 + u.C.cnt 0) s (t + 1) st g hA' (bOK_tl hus)
      simp only [bStageI, bOuter, outStage, bBrLen]
      simp only [List.append_assoc] at e3 ⊢
      rw [e3, outStage1_indep cfg.esc _ (0 + u.C.cnt 1) (0 + u.C.cnt 2) 0 0]
    | br C =>
      intro A m n0 s t st g hA hus
      have hu := bOK_br hus
      have hC := nl_not_mem_of_charOK (charOK_stage hE hrb 1 (by omega) C hu.ok hu.plain m n0 0 0)
      have hstep := applyPattern_br cfg hi A
        (C.stage cfg.esc 1 true m n0 0 0 ++ bStageI cfg.esc (m + C.escs cfg.esc) (n0 + C.cnt 0) s t r) hA st
      have hA' : '\n' ∉ A ++ (placeholder st.stash.length ++ C.stage cfg.esc 1 true m n0 0 0) := by
        intro h
        rcases List.mem_append.1 h with h | h
        · exact hA h
        · rcases List.mem_append.1 h with h | h
          · exact nl_not_mem_of_charOK (charOK_placeholder 1 _) h
          · exact hC h
      have e3 := ih _ (m + C.escs cfg.esc) (n0 + C.cnt 0) s t
        { st with stash := st.stash ++ [.node (mkEl "br")] } g hA' (bOK_tl hus)
      have hlen2 : (st.stash ++ [StashItem.node (mkEl "br")]).length = st.stash.length + 1 := by simp
      simp only [hlen2] at e3
      rw [show g + bBrLen (.br C :: r) = (g + bBrLen r) + 1 by simp [bBrLen]; omega]
      simp only [bStageI, bOuter, outStage, bBrLen]
      simp only [List.append_assoc] at hstep e3 ⊢
      rw [hiLoop_step _ _ _ 10 0 st (by omega) _ _ _ _ hstep]
      simp only [if_true]
      rw [e3, outStage1_indep cfg.esc _ (0 + C.cnt 1) (0 + C.cnt 2) 0 0]
      simp [brItems, List.replicate_succ]

/-! ### the whole loop -/

theorem outOK_bOuter {esc : List Char} (gs : List BUse) (h : ∀ x ∈ gs, BUseOK esc x) :
    ∀ (m n0 s t b : Nat), OutOK esc (bOuter esc m n0 s t b gs) := by
  induction gs with
  | nil => intro _ _ _ _ _ o ho; simp [bOuter] at ho
  | cons x r ih =>
    cases x with
    | lk u =>
      intro m n0 s t b o ho
      simp only [bOuter, List.mem_cons] at ho
      rcases ho with rfl | ho
      · exact (bOK_lk h).after
      · exact ih (bOK_tl h) _ _ _ _ _ o ho
    | im u =>
      intro m n0 s t b o ho
      simp only [bOuter, List.mem_cons] at ho
      rcases ho with rfl | ho
      · exact (bOK_im h).after
      · exact ih (bOK_tl h) _ _ _ _ _ o ho
    | br C =>
      intro m n0 s t b o ho
      simp only [bOuter, List.mem_cons] at ho
      rcases ho with rfl | ho
      · exact bOK_br h
      · exact ih (bOK_tl h) _ _ _ _ _ o ho

theorem outCnt_bOuterL (esc : List Char) (k : Nat) (gs : List BUse) :
    ∀ (m n0 s t b : Nat), outCnt k (bOuter esc m n0 s t b gs) = bOutCnt k gs := by
  induction gs with
  | nil => intro _ _ _ _ _; rfl
  | cons x r ih =>
    cases x with
    | lk u => intro m n0 s t b; simp only [bOuter, outCnt, bOutCnt, BUse.C, ih]
    | im u => intro m n0 s t b; simp only [bOuter, outCnt, bOutCnt, BUse.C, ih]
    | br C => intro m n0 s t b; simp only [bOuter, outCnt, bOutCnt, BUse.C, ih]

theorem brItems_lengthL (n : Nat) : (brItems n).length = n := by simp [brItems]

theorem bNodes0_lengthL (gs : List BUse) : (bNodes0 gs).length = bCnt0 gs := by
  induction gs with
  | nil => rfl
  | cons x r ih =>
    cases x with
    | lk u => simp [bNodes0, bCnt0, BUse.tCnt, BUse.C, ih, Chunk.cnt, Nat.add_assoc]
    | im u => simp [bNodes0, bCnt0, BUse.tCnt, BUse.C, ih, Chunk.cnt]
    | br C => simp [bNodes0, bCnt0, BUse.tCnt, BUse.C, ih, Chunk.cnt]

theorem bEscStash_lengthL (esc : List Char) (gs : List BUse) : (bEscStash esc gs).length = bEscs esc gs := by
  induction gs with
  | nil => rfl
  | cons x r ih =>
    cases x with
    | lk u => simp [bEscStash, bEscs, BUse.tEscs, BUse.C, ih, Chunk.escStash_length, Nat.add_assoc]
    | im u => simp [bEscStash, bEscs, BUse.tEscs, BUse.C, ih, Chunk.escStash_length]
    | br C => simp [bEscStash, bEscs, BUse.tEscs, BUse.C, ih, Chunk.escStash_length]

theorem bLinkStash_lengthL (esc : List Char) (gs : List BUse) :
    ∀ (m n0 s : Nat), (bLinkStash esc m n0 s gs).length = bLinkLen gs := by
  induction gs with
  | nil => intro _ _ _; rfl
  | cons x r ih =>
    cases x with
    | lk u => intro m n0 s; simp [bLinkStash, bLinkLen, ih, Chunk.cnt]; omega
    | im u => intro m n0 s; simp [bLinkStash, bLinkLen, ih]
    | br C => intro m n0 s; simp [bLinkStash, bLinkLen, ih]

theorem bImgs_lengthL (gs : List BUse) : (bImgs gs).length = bImgLen gs := by
  induction gs with
  | nil => rfl
  | cons x r ih =>
    cases x with
    | lk u => simp [bImgs, bImgLen, ih]
    | im u => simp [bImgs, bImgLen, ih]
    | br C => simp [bImgs, bImgLen, ih]

theorem bLinks_le (gs : List BUse) : bLinks gs ≤ bLinkLen gs := by
  induction gs with
  | nil => simp [bLinks, bLinkLen]
  | cons x r ih =>
    cases x with
    | lk u => simp only [bLinks, bLinkLen]; omega
    | im u => simp only [bLinks, bLinkLen]; omega
    | br C => simp only [bLinks, bLinkLen]; omega

/-- the line is long enough for the fuel of the loop -/
theorem bRaw_length {esc : List Char} (gs : List BUse) (h : ∀ x ∈ gs, BUseOK esc x) : ∀ (m n0 : Nat),
    bEscs esc gs + bCnt0 gs + bLinkLen gs + bImgLen gs + bBrLen gs + bOutCnt 1 gs + bOutCnt 2 gs ≤
      (bStage esc 0 false m n0 gs).length := by
  induction gs with
  | nil => intro _ _; simp [bEscs, bCnt0, bLinkLen, bImgLen, bBrLen, bOutCnt, bStage]
  | cons x r ih =>
    cases x with
    | lk u =>
      intro m n0
      have hu := bOK_lk h
      have h1 := chunk_raw_length esc u.T hu.text.ok
      have h2 := chunk_raw_length esc u.C hu.after.ok
      have h3 := ih (bOK_tl h) (m + u.T.escs esc + u.C.escs esc) (n0 + u.T.cnt 0 + u.C.cnt 0)
      rw [bStage_lk]
      simp only [bEscs, bCnt0, bLinkLen, bImgLen, bBrLen, bOutCnt, BUse.tEscs, BUse.tCnt, BUse.C, Chunk.stage_raw,
        List.length_cons, List.length_append, List.length_nil]
      omega
    | im u =>
      intro m n0
      have hu := bOK_im h
      have h2 := chunk_raw_length esc u.C hu.after.ok
      have h3 := ih (bOK_tl h) (m + u.C.escs esc) (n0 + u.C.cnt 0)
      rw [bStage_im]
      simp only [bEscs, bCnt0, bLinkLen, bImgLen, bBrLen, bOutCnt, BUse.tEscs, BUse.tCnt, BUse.C, Chunk.stage_raw,
        List.length_cons, List.length_append, openerM]
      omega
    | br C =>
      intro m n0
      have hu := bOK_br h
      have h2 := chunk_raw_length esc C hu.ok
      have h3 := ih (bOK_tl h) (m + C.escs esc) (n0 + C.cnt 0)
      rw [bStage_br]
      simp only [bEscs, bCnt0, bLinkLen, bImgLen, bBrLen, bOutCnt, BUse.tEscs, BUse.tCnt, BUse.C, Chunk.stage_raw,
        List.length_cons, List.length_append, brS]
      omega

theorem bs_not_mem_bStage1 {cfg : Inline.Cfg} (hE : EscOK cfg.esc) (hrb : ']' ∈ cfg.esc) (gs : List BUse)
    (hgs : ∀ x ∈ gs, BUseOK cfg.esc x) : ∀ (m n0 : Nat), '\\' ∉ bStage cfg.esc 1 true m n0 gs := by
  induction gs with
  | nil => intro _ _ h; simp [bStage] at h
  | cons x r ih =>
    cases x with
    | lk u =>
      intro m n0 h
      have hu := bOK_lk hgs
      rw [bStage_lk] at h
      simp only [List.mem_append, List.mem_singleton] at h
      rcases h with h | h | h | h | h
      · exact absurd h (by decide)
      · exact bs_not_mem_stage hE hrb 1 (by omega) u.T hu.text.ok hu.text.plain _ _ _ _ h
      · exact bs_not_mem_closerI hu h
      · exact bs_not_mem_stage hE hrb 1 (by omega) u.C hu.after.ok hu.after.plain _ _ _ _ h
      · exact ih (bOK_tl hgs) _ _ h
    | im u =>
      intro m n0 h
      have hu := bOK_im hgs
      rw [bStage_im] at h
      simp only [List.mem_append] at h
      rcases h with h | h | h
      · exact bs_not_mem_openerM hu h
      · exact bs_not_mem_stage hE hrb 1 (by omega) u.C hu.after.ok hu.after.plain _ _ _ _ h
      · exact ih (bOK_tl hgs) _ _ h
    | br C =>
      intro m n0 h
      have hu := bOK_br hgs
      rw [bStage_br] at h
      simp only [List.mem_append] at h
      rcases h with h | h | h
      · exact bs_not_mem_brS h
      · exact bs_not_mem_stage hE hrb 1 (by omega) C hu.ok hu.plain _ _ _ _ h
      · exact ih (bOK_tl hgs) _ _ h

/-- **the pattern loop on the text**: the code spans of all chunks, the escapes of all chunks, the links left to right
    (each with the emphases of its text), the images left to right, the hard breaks left to right, the `*` emphases
    and the `_` emphases of the contents outside -/
theorem loopOK_mixedBr (cfg : Inline.Cfg) (hE : EscOK cfg.esc) (hrb : ']' ∈ cfg.esc) (C0 : Chunk) (gs : List BUse)
    (h0 : ChunkOK cfg.esc C0) (hgs : ∀ g ∈ gs, BUseOK cfg.esc g) : LoopOKB cfg C0 gs := by
  intro st
  generalize hraw : bRaw cfg.esc C0 gs = raw
  have hlen : C0.escs cfg.esc + C0.cnt 0 + C0.cnt 1 + C0.cnt 2 +
      (bEscs cfg.esc gs + bCnt0 gs + bLinkLen gs + bImgLen gs + bBrLen gs + bOutCnt 1 gs + bOutCnt 2 gs) ≤ raw.length := by
    have h1 := chunk_raw_length cfg.esc C0 h0.ok
    have h2 := bRaw_length gs hgs 0 0
    rw [← hraw, bRaw, List.length_append]; omega
  have hul := bLinks_le gs
  obtain ⟨x, hx⟩ : ∃ x, loopFuel raw.length =
      x + 1 + 1 + bOutCnt 2 gs + C0.cnt 2 + 1 + bOutCnt 1 gs + C0.cnt 1 + 1 + 2 + 1 + bBrLen gs + 6 + bImgLen gs + 1 + bLinks gs + 1 + 1 +
        bEscs cfg.esc gs + C0.escs cfg.esc + 1 + bCnt0 gs + C0.cnt 0 :=
    ⟨loopFuel raw.length - (bOutCnt 2 gs + C0.cnt 2 + bOutCnt 1 gs + C0.cnt 1 + bBrLen gs + bImgLen gs + bLinks gs +
      bEscs cfg.esc gs + C0.escs cfg.esc + bCnt0 gs + C0.cnt 0 + 17), by
      have := CodeLaw.loopFuel_ge raw.length; omega⟩
  unfold handleInlineTop depthFuel
  rw [show raw.length + 20 = ((raw.length + 18) + 1) + 1 from rfl]
  unfold handleInline
  rw [hx]
  generalize hhi : (fun d p s => handleInline cfg ((raw.length + 18) + 1) d p s) = hi
  generalize hs0 : st.stash.length = s0
  rw [← hraw, bRaw, ← Chunk.stage_raw cfg.esc 0 0 0 0 C0]
  -- pattern 0
  have e0 := code_pass_chunk cfg hi hE.bs hE.tick (bStage cfg.esc 0 false 0 0 gs) (bStage_head _ _ _ _ _ _) C0 []
    0 0 0 0 st (x + 1 + 1 + bOutCnt 2 gs + C0.cnt 2 + 1 + bOutCnt 1 gs + C0.cnt 1 + 1 + 2 + 1 + bBrLen gs + 6 + bImgLen gs + 1 + bLinks gs + 1 + 1 +
        bEscs cfg.esc gs + C0.escs cfg.esc + 1 + bCnt0 gs) btOK_nil (by simp) h0.ok h0.junctions
  simp only [List.nil_append] at e0
  rw [e0, hs0]
  have hb1 := btOK_chunk1 hE.bs hE.tick C0.segs [] C0.t0 (0 + escCount cfg.esc C0.t0) s0 0 0 btOK_nil (by simp) h0.ok
  simp only [List.nil_append] at hb1
  obtain ⟨e0', hb2⟩ := code_pass_b cfg hi hE.bs hE.tick gs (C0.stage cfg.esc 1 false 0 s0 0 0) 0 0
    { st with stash := st.stash ++ nodesOf 0 C0.segs }
    (x + 1 + 1 + bOutCnt 2 gs + C0.cnt 2 + 1 + bOutCnt 1 gs + C0.cnt 1 + 1 + 2 + 1 + bBrLen gs + 6 + bImgLen gs + 1 + bLinks gs + 1 + 1 +
        bEscs cfg.esc gs + C0.escs cfg.esc + 1)
    (by simpa [Chunk.stage] using hb1) hgs
  rw [e0']
  have hl1 : (st.stash ++ nodesOf 0 C0.segs).length = s0 + C0.cnt 0 := by simp [hs0, Chunk.cnt]
  simp only [hl1] at hb2 ⊢
  rw [hiLoop_step _ _ _ 0 0 _ (by omega) _ _ _ _ (applyPattern_zero_none cfg _ _ _ (btFind_of_btOK _ hb2))]
  simp only [Bool.false_eq_true, if_false, Nat.zero_add]
  -- pattern 1
  have e1 := esc_pass_chunk cfg hi hE.bs 1 (by omega) (bStage cfg.esc 1 false 0 (s0 + C0.cnt 0) gs) C0 [] 0 s0 0 0
    { st with stash := st.stash ++ nodesOf 0 C0.segs ++ bNodes0 gs }
    (x + 1 + 1 + bOutCnt 2 gs + C0.cnt 2 + 1 + bOutCnt 1 gs + C0.cnt 1 + 1 + 2 + 1 + bBrLen gs + 6 + bImgLen gs + 1 + bLinks gs + 1 + 1 +
        bEscs cfg.esc gs) (by simp) h0.ok
  simp only [List.nil_append] at e1
  rw [e1]
  have hl2 : (st.stash ++ nodesOf 0 C0.segs ++ bNodes0 gs).length = mStartB s0 C0 gs := by
    simp [hs0, Chunk.cnt, mStartB, bNodes0_lengthL, Nat.add_assoc]
  simp only [hl2]
  have hbs0 : '\\' ∉ C0.stage cfg.esc 1 true (mStartB s0 C0 gs) s0 0 0 :=
    bs_not_mem_stage hE hrb 1 (by omega) C0 h0.ok h0.plain _ _ _ _
  have e1' := esc_pass_b cfg hi hE hrb gs (C0.stage cfg.esc 1 true (mStartB s0 C0 gs) s0 0 0) 0 (s0 + C0.cnt 0)
    { st with stash := st.stash ++ nodesOf 0 C0.segs ++ bNodes0 gs ++ C0.escStash cfg.esc }
    (x + 1 + 1 + bOutCnt 2 gs + C0.cnt 2 + 1 + bOutCnt 1 gs + C0.cnt 1 + 1 + 2 + 1 + bBrLen gs + 6 + bImgLen gs + 1 + bLinks gs + 1 + 1) hbs0 hgs
  rw [e1']
  have hl3 : (st.stash ++ nodesOf 0 C0.segs ++ bNodes0 gs ++ C0.escStash cfg.esc).length = mStartB s0 C0 gs + C0.escs cfg.esc := by
    rw [List.length_append, hl2, Chunk.escStash_length]
  simp only [hl3]
  have hbsD : '\\' ∉ C0.stage cfg.esc 1 true (mStartB s0 C0 gs) s0 0 0 ++
      bStage cfg.esc 1 true (mStartB s0 C0 gs + C0.escs cfg.esc) (s0 + C0.cnt 0) gs := by
    intro h; rcases List.mem_append.1 h with h | h
    · exact hbs0 h
    · exact bs_not_mem_bStage1 hE hrb gs hgs _ _ h
  rw [hiLoop_step _ _ _ 1 0 _ (by omega) _ _ _ _ (applyPattern_esc_none cfg hi _ _ hbsD)]
  simp only [Bool.false_eq_true, if_false]
  -- pattern 2: the reference pattern finds nothing
  have hc0 := charOK_stage hE hrb 1 (by omega) C0 h0.ok h0.plain (mStartB s0 C0 gs) s0 0 0
  have hn0 := not_mem_of_charOK hc0
  have hsk0 : SkipA (C0.stage cfg.esc 1 true (mStartB s0 C0 gs) s0 0 0) := skipA_quiet _ hn0.1 hn0.2.2.1
  have hscan2 := linkScan2_b cfg hE hrb
    (st.stash ++ nodesOf 0 C0.segs ++ bNodes0 gs ++ C0.escStash cfg.esc ++ bEscStash cfg.esc gs)
    gs [] (C0.stage cfg.esc 1 true (mStartB s0 C0 gs) s0 0 0)
    (mStartB s0 C0 gs + C0.escs cfg.esc) (s0 + C0.cnt 0) none hsk0 (by simp) hgs
  simp only [List.nil_append, List.length_nil] at hscan2
  rw [show (1 : Nat) + 1 = 2 from rfl,
    hiLoop_step _ _ _ 2 0 _ (by omega) _ _ _ _ (InlineRef.applyPattern_none cfg hi 2 _ 0 _ (by
      rw [findMatch2_eq]; simp only [hscan2]))]
  simp only [Bool.false_eq_true, if_false]
  -- pattern 3: the inline links
  have hhi2 : hi = fun d p s => handleInline cfg ((raw.length + 17) + 2) d p s := hhi.symm
  have e2 := link_pass_b cfg hE hrb (raw.length + 17) gs (C0.stage cfg.esc 1 true (mStartB s0 C0 gs) s0 0 0)
    (mStartB s0 C0 gs + C0.escs cfg.esc) (s0 + C0.cnt 0)
    { st with stash := st.stash ++ nodesOf 0 C0.segs ++ bNodes0 gs ++ C0.escStash cfg.esc ++ bEscStash cfg.esc gs }
    (x + 1 + 1 + bOutCnt 2 gs + C0.cnt 2 + 1 + bOutCnt 1 gs + C0.cnt 1 + 1 + 2 + 1 + bBrLen gs + 6 + bImgLen gs + 1) hsk0 hgs
  have hl4 : (st.stash ++ nodesOf 0 C0.segs ++ bNodes0 gs ++ C0.escStash cfg.esc ++ bEscStash cfg.esc gs).length = lStartB cfg.esc s0 C0 gs := by
    rw [List.length_append, hl3, bEscStash_lengthL]; rfl
  simp only [hl4] at e2
  rw [show (2 : Nat) + 1 = 3 from rfl, hhi2, e2, ← hhi2]
  have hfold2 : bLinkStash cfg.esc (mStartB s0 C0 gs + C0.escs cfg.esc) (s0 + C0.cnt 0) (lStartB cfg.esc s0 C0 gs) gs =
      lineLinksB cfg.esc s0 C0 gs := rfl
  rw [hfold2]
  -- pattern 3 once more: every `[` left stands behind `!`
  generalize hD2 : C0.stage cfg.esc 1 true (mStartB s0 C0 gs) s0 0 0 ++
      bStageL cfg.esc (mStartB s0 C0 gs + C0.escs cfg.esc) (s0 + C0.cnt 0) (lStartB cfg.esc s0 C0 gs) gs = D2
  have hscan3 : ∀ (stash : List StashItem), linkScan cfg stash 3 D2 none D2 0 = none := by
    intro stash
    have := linkScan_skip_bL cfg hE hrb stash 3 (by decide) D2 gs (C0.stage cfg.esc 1 true (mStartB s0 C0 gs) s0 0 0)
      (mStartB s0 C0 gs + C0.escs cfg.esc) (s0 + C0.cnt 0) (lStartB cfg.esc s0 C0 gs) none 0 hn0.1 hgs
    rw [hD2] at this; exact this
  rw [hiLoop_step _ _ _ 3 0 _ (by omega) _ _ _ _ (InlineRef.applyPattern_none cfg hi 3 _ 0 _ (by
      rw [findMatch3_eq']; simp only [hscan3]))]
  simp only [Bool.false_eq_true, if_false]
  rw [← hD2]
  -- pattern 4: the images
  have e4 := img_pass_b cfg hE hrb hi gs (C0.stage cfg.esc 1 true (mStartB s0 C0 gs) s0 0 0)
    (mStartB s0 C0 gs + C0.escs cfg.esc) (s0 + C0.cnt 0) (lStartB cfg.esc s0 C0 gs)
    { st with stash := st.stash ++ nodesOf 0 C0.segs ++ bNodes0 gs ++ C0.escStash cfg.esc ++ bEscStash cfg.esc gs ++ lineLinksB cfg.esc s0 C0 gs }
    (x + 1 + 1 + bOutCnt 2 gs + C0.cnt 2 + 1 + bOutCnt 1 gs + C0.cnt 1 + 1 + 2 + 1 + bBrLen gs + 6) hn0.2.2.1 hgs
  have hl5 : (st.stash ++ nodesOf 0 C0.segs ++ bNodes0 gs ++ C0.escStash cfg.esc ++ bEscStash cfg.esc gs ++ lineLinksB cfg.esc s0 C0 gs).length = iStartB cfg.esc s0 C0 gs := by
    rw [List.length_append, hl4]; simp [lineLinksB, bLinkStash_lengthL, iStartB]
  simp only [hl5] at e4
  rw [show (3 : Nat) + 1 = 4 from rfl, e4]
  have hl5' : (st.stash ++ nodesOf 0 C0.segs ++ bNodes0 gs ++ C0.escStash cfg.esc ++ bEscStash cfg.esc gs ++ lineLinksB cfg.esc s0 C0 gs ++ bImgs gs).length = rStartB cfg.esc s0 C0 gs := by
    rw [List.length_append, hl5, bImgs_lengthL]; rfl
  -- patterns 4–9
  have hmidN : MidN (C0.stage cfg.esc 1 true (mStartB s0 C0 gs) s0 0 0 ++
      bStageI cfg.esc (mStartB s0 C0 gs + C0.escs cfg.esc) (s0 + C0.cnt 0) (lStartB cfg.esc s0 C0 gs) (iStartB cfg.esc s0 C0 gs) gs) :=
    midN_append (midN_of_charOK hc0) (midN_bStageI hE hrb gs hgs _ _ _ _)
  rw [hiLoop_midN cfg hi _ _ hmidN _ 10 6 4 rfl (by omega) (by omega) (by intro j h1 h2; omega)]
  -- pattern 10: the hard breaks
  have e10 := br_pass_b cfg hE hrb hi gs (C0.stage cfg.esc 1 true (mStartB s0 C0 gs) s0 0 0)
    (mStartB s0 C0 gs + C0.escs cfg.esc) (s0 + C0.cnt 0) (lStartB cfg.esc s0 C0 gs) (iStartB cfg.esc s0 C0 gs)
    { st with stash := st.stash ++ nodesOf 0 C0.segs ++ bNodes0 gs ++ C0.escStash cfg.esc ++ bEscStash cfg.esc gs ++ lineLinksB cfg.esc s0 C0 gs ++ bImgs gs }
    (x + 1 + 1 + bOutCnt 2 gs + C0.cnt 2 + 1 + bOutCnt 1 gs + C0.cnt 1 + 1 + 2 + 1) (nl_not_mem_of_charOK hc0) hgs
  simp only [hl5'] at e10
  rw [e10]
  have hos : OutOK cfg.esc (lineOuterB cfg.esc s0 C0 gs) := outOK_bOuter gs hgs _ _ _ _ _
  have hfold : bOuter cfg.esc (mStartB s0 C0 gs + C0.escs cfg.esc) (s0 + C0.cnt 0) (lStartB cfg.esc s0 C0 gs) (iStartB cfg.esc s0 C0 gs) (rStartB cfg.esc s0 C0 gs) gs =
      lineOuterB cfg.esc s0 C0 gs := rfl
  rw [hfold]
  generalize hos' : lineOuterB cfg.esc s0 C0 gs = os at hos
  have hcD : ∀ ch ∈ C0.stage cfg.esc 1 true (mStartB s0 C0 gs) s0 0 0 ++ outStage cfg.esc 1 0 0 os, CharOK 1 ch := by
    intro ch h
    rcases List.mem_append.1 h with h | h
    · exact hc0 ch h
    · exact charOK_outStage hE hrb 1 (by omega) os hos 0 0 ch h
  -- pattern 10 once more
  rw [hiLoop_step _ _ _ 10 0 _ (by omega) _ _ _ _ (applyPattern_br_none cfg hi _ _ (nl_not_mem_of_charOK hcD))]
  simp only [Bool.false_eq_true, if_false]
  -- patterns 11, 12
  have hmid : Mid (C0.stage cfg.esc 1 true (mStartB s0 C0 gs) s0 0 0 ++ outStage cfg.esc 1 0 0 os) := mid_of_charOK hcD
  rw [show (10 : Nat) + 1 = 11 from rfl, hiLoop_mid cfg hi _ _ hmid _ 2 11 rfl (by omega)]
  -- pattern 13
  have hns : nsFind (C0.stage cfg.esc 1 true (mStartB s0 C0 gs) s0 0 0 ++ outStage cfg.esc 1 0 0 os) 0 = none :=
    nsFind_of_nsSkip _ (nsSkip_append (nsSkip_stage hE.star hE.under 1 (by omega) C0 h0.ok _ _ _ _)
      (nsSkip_outStage hE.star hE.under 1 (by omega) os hos 0 0))
  rw [hiLoop_step _ _ _ 13 0 _ (by omega) _ _ _ _ (applyPattern_13 cfg hi _ _ hns)]
  simp only [Bool.false_eq_true, if_false]
  have hoc : ∀ k, outCnt k os = bOutCnt k gs := by
    intro k; rw [← hos']; exact outCnt_bOuterL cfg.esc k gs _ _ _ _ _
  -- pattern 14
  have hl5b : (st.stash ++ nodesOf 0 C0.segs ++ bNodes0 gs ++ C0.escStash cfg.esc ++ bEscStash cfg.esc gs ++ lineLinksB cfg.esc s0 C0 gs ++ bImgs gs ++ brItems (bBrLen gs)).length = o1StartB cfg.esc s0 C0 gs := by
    rw [List.length_append, hl5', brItems_lengthL]; rfl
  have e14 := star_pass_chunk cfg (raw.length + 18) hE.star hE.under (outStage cfg.esc 1 0 0 os) C0 []
    (mStartB s0 C0 gs) s0 0 0
    { st with stash := st.stash ++ nodesOf 0 C0.segs ++ bNodes0 gs ++ C0.escStash cfg.esc ++ bEscStash cfg.esc gs ++ lineLinksB cfg.esc s0 C0 gs ++ bImgs gs ++ brItems (bBrLen gs) } (x + 1 + 1 + bOutCnt 2 gs + C0.cnt 2 + 1 + bOutCnt 1 gs) (by simp) h0.ok
  simp only [List.nil_append, hl5b] at e14
  rw [show 13 + 1 = 14 from rfl, ← hhi, e14]
  have e14' := star_pass_outer cfg (raw.length + 18) hE hrb os
    (C0.stage cfg.esc 2 true (mStartB s0 C0 gs) s0 (o1StartB cfg.esc s0 C0 gs) 0) 0 0
    { st with stash := st.stash ++ nodesOf 0 C0.segs ++ bNodes0 gs ++ C0.escStash cfg.esc ++ bEscStash cfg.esc gs ++ lineLinksB cfg.esc s0 C0 gs ++ bImgs gs ++ brItems (bBrLen gs) ++ nodesOf 1 C0.segs } (x + 1 + 1 + bOutCnt 2 gs + C0.cnt 2 + 1)
    (star_not_mem_stage2 hE hrb C0 h0.ok h0.plain _ _ _ _) hos
  have hl6 : (st.stash ++ nodesOf 0 C0.segs ++ bNodes0 gs ++ C0.escStash cfg.esc ++ bEscStash cfg.esc gs ++ lineLinksB cfg.esc s0 C0 gs ++ bImgs gs ++ brItems (bBrLen gs) ++ nodesOf 1 C0.segs).length = o1StartB cfg.esc s0 C0 gs + C0.cnt 1 := by
    rw [List.length_append, hl5b]; rfl
  simp only [hl6, hoc] at e14'
  rw [outStage1_indep cfg.esc os 0 0 (0 + C0.cnt 1) (0 + C0.cnt 2)] at e14
  rw [outStage1_indep cfg.esc os (0 + C0.cnt 1) (0 + C0.cnt 2) 0 0] at e14
  rw [e14']
  have hstar2 : '*' ∉ C0.stage cfg.esc 2 true (mStartB s0 C0 gs) s0 (o1StartB cfg.esc s0 C0 gs) 0 ++
      outStage cfg.esc 2 (o1StartB cfg.esc s0 C0 gs + C0.cnt 1) 0 os := by
    intro h; rcases List.mem_append.1 h with h | h
    · exact star_not_mem_stage2 hE hrb C0 h0.ok h0.plain _ _ _ _ h
    · have := (charOK_outStage hE hrb 2 (by omega) os hos _ _ _ h).2.2.2.2.2.2.2.1 rfl
      omega
  rw [hhi, hiLoop_step _ _ _ 14 0 _ (by omega) _ _ _ _
    (applyPattern_em_none cfg hi 14 (Or.inl rfl) _ _ (by simpa using hstar2))]
  simp only [Bool.false_eq_true, if_false]
  -- pattern 15
  have hl7 : (st.stash ++ nodesOf 0 C0.segs ++ bNodes0 gs ++ C0.escStash cfg.esc ++ bEscStash cfg.esc gs ++ lineLinksB cfg.esc s0 C0 gs ++ bImgs gs ++ brItems (bBrLen gs) ++ nodesOf 1 C0.segs ++ outNodes 1 os).length = o2StartB cfg.esc s0 C0 gs := by
    rw [List.length_append, hl6, outNodes_length, hoc]; simp [o2StartB, Nat.add_assoc]
  have e15 := under_pass_chunk cfg (raw.length + 18) hE.star hE.under
    (outStage cfg.esc 2 (o1StartB cfg.esc s0 C0 gs + C0.cnt 1) 0 os) (outStage_head _ _ _ _ _)
    (noTriple_outStage2 hE.star hE.under os hos _ _) C0 [] (mStartB s0 C0 gs) s0 (o1StartB cfg.esc s0 C0 gs) 0
    { st with stash := st.stash ++ nodesOf 0 C0.segs ++ bNodes0 gs ++ C0.escStash cfg.esc ++ bEscStash cfg.esc gs ++ lineLinksB cfg.esc s0 C0 gs ++ bImgs gs ++ brItems (bBrLen gs) ++ nodesOf 1 C0.segs ++ outNodes 1 os } (x + 1 + 1 + bOutCnt 2 gs) (by simp) h0.ok
    (by
      by_cases ht : C0.t0 = []
      · simp only [ht, if_true]; have := h0.under; rw [ht] at this; simpa [lastOr, isW, lastW] using this
      · simp only [ht, if_false]; exact h0.under)
  simp only [List.nil_append, hl7] at e15
  rw [show 14 + 1 = 15 from rfl, ← hhi, e15]
  have e15' := under_pass_outer cfg (raw.length + 18) hE hrb os
    (C0.stage cfg.esc 3 true (mStartB s0 C0 gs) s0 (o1StartB cfg.esc s0 C0 gs) (o2StartB cfg.esc s0 C0 gs))
    (o1StartB cfg.esc s0 C0 gs + C0.cnt 1) 0
    { st with stash := st.stash ++ nodesOf 0 C0.segs ++ bNodes0 gs ++ C0.escStash cfg.esc ++ bEscStash cfg.esc gs ++ lineLinksB cfg.esc s0 C0 gs ++ bImgs gs ++ brItems (bBrLen gs) ++ nodesOf 1 C0.segs ++ outNodes 1 os ++ nodesOf 2 C0.segs } (x + 1 + 1)
    (under_not_mem_stage3 hE hrb C0 h0.ok h0.plain _ _ _ _) hos
  have hl8 : (st.stash ++ nodesOf 0 C0.segs ++ bNodes0 gs ++ C0.escStash cfg.esc ++ bEscStash cfg.esc gs ++ lineLinksB cfg.esc s0 C0 gs ++ bImgs gs ++ brItems (bBrLen gs) ++ nodesOf 1 C0.segs ++ outNodes 1 os ++ nodesOf 2 C0.segs).length =
      o2StartB cfg.esc s0 C0 gs + C0.cnt 2 := by
    rw [List.length_append, hl7]; rfl
  simp only [hl8, hoc] at e15'
  rw [e15']
  have hund3 : '_' ∉ C0.stage cfg.esc 3 true (mStartB s0 C0 gs) s0 (o1StartB cfg.esc s0 C0 gs) (o2StartB cfg.esc s0 C0 gs) ++
      outStage cfg.esc 3 (o1StartB cfg.esc s0 C0 gs + C0.cnt 1) (o2StartB cfg.esc s0 C0 gs + C0.cnt 2) os := by
    intro h; rcases List.mem_append.1 h with h | h
    · exact under_not_mem_stage3 hE hrb C0 h0.ok h0.plain _ _ _ _ h
    · have := (charOK_outStage hE hrb 3 (by omega) os hos _ _ _ h).2.2.2.2.2.2.2.2 rfl
      omega
  rw [hhi, hiLoop_step _ _ _ 15 0 _ (by omega) _ _ _ _
    (applyPattern_em_none cfg hi 15 (Or.inr rfl) _ _ (by simpa using hund3))]
  simp only [Bool.false_eq_true, if_false]
  simp only [hiLoop, patternCount, show ¬ (15 + 1 < 16) by omega, if_false]
  subst hos'
  simp [bRes, bStash, List.append_assoc]

end MdVerif.DocMixB
