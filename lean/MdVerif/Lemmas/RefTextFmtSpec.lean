/-
Helper lemmas for `Props/C15Text.lean` and `Props/C06Links.lean`: the theorems on printed lines with reference-style
uses (`Lemmas/RefTextSpec.lean`, `Lemmas/LettersLinksSpec.lean`) and with inline links (`Lemmas/LettersLinksInl.lean`)
for **either output format**, in the vocabulary of `Spec/Doc.lean`.  Core Lean only.
-/
import MdVerif.Lemmas.RefTextFmt

namespace MdVerif.RefText
open Py Inline DocSpec DocParse2 Flat

/-! ### the expected output in format `fmt` -/

/-- the expected output of the uses in format `fmt`: `<a` + attributes in the spelling of `fmt` (`InlineRef.attrHtml`)
    + `>` + rendered text + `</a>` + rendered content after -/
def specUsesF (fmt : Ser.Fmt) : List MUse → Str
  | [] => []
  | u :: r => aOpenF fmt u.url u.title ++ (specInlines u.text ++ (aClose ++ specInlines u.after)) ++ specUsesF fmt r

theorem specUsesF_cons (fmt : Ser.Fmt) (u : MUse) (r : List MUse) :
    specUsesF fmt (u :: r) =
      aOpenF fmt u.url u.title ++ (specInlines u.text ++ (aClose ++ specInlines u.after)) ++ specUsesF fmt r := rfl

/-- the same for inline links -/
def specLinksF (fmt : Ser.Fmt) : List MLink → Str
  | [] => []
  | u :: r => aOpenF fmt u.url (titleOf u.dtitle) ++ (specInlines u.text ++ (aClose ++ specInlines u.after)) ++
      specLinksF fmt r

theorem specLinksF_cons (fmt : Ser.Fmt) (u : MLink) (r : List MLink) :
    specLinksF fmt (u :: r) =
      aOpenF fmt u.url (titleOf u.dtitle) ++ (specInlines u.text ++ (aClose ++ specInlines u.after)) ++
        specLinksF fmt r := rfl

theorem specUsesF_xhtml : ∀ us : List MUse, specUsesF .xhtml us = specUses us
  | [] => rfl
  | u :: r => by rw [specUsesF_cons, specUses_cons, specUsesF_xhtml r, aOpenF_eq .xhtml _ _ (Or.inl rfl)]

theorem specLinksF_xhtml : ∀ us : List MLink, specLinksF .xhtml us = specLinks us
  | [] => rfl
  | u :: r => by rw [specLinksF_cons, specLinks_cons, specLinksF_xhtml r, aOpenF_eq .xhtml _ _ (Or.inl rfl)]

/-! ### the printed uses are uses of chunks (all the facts at once) -/

theorem uses_bridgeF (defs : List InlineRef.DefSpec) : ∀ (us : List MUse) (st : PSt), (∀ u ∈ us, u.ok = true) →
    (∀ u ∈ us, Block.lookupRef (defs.map InlineRef.DefSpec.entry) (RefDef.normUse u.label) = some (u.url, u.title)) →
    ∃ rs : List RUse, (∀ m n0, usStage ESC 0 false m n0 rs = (printUses us st).1) ∧
      (∀ r ∈ rs, UseSpec ESC defs r) ∧ (∀ fmt, usOutF fmt rs = specUsesF fmt us) ∧
      visRest ESC rs = (visUses us st).1 ∧ rs.length = us.length
  | [], st, _, _ => ⟨[], fun _ _ => rfl, fun r hr => (by cases hr), fun _ => rfl, rfl, rfl⟩
  | u :: r, st, hok, hlook => by
    have hu := hok u List.mem_cons_self
    simp only [MUse.ok, Bool.and_eq_true, Bool.or_eq_true, beq_iff_eq, Bool.not_eq_true',
      List.isEmpty_eq_false_iff] at hu
    obtain ⟨⟨⟨⟨⟨hT, hTs⟩, hC⟩, hsp⟩, hlab⟩, hlne⟩ := hu
    obtain ⟨segsT, st1, hpT, hokT, houtT, hmT⟩ := chunk_of_content u.text hT st
    obtain ⟨segsC, st2, hpC, hokC, houtC, _⟩ := chunk_of_content u.after hC st1
    obtain ⟨rs, hrs1, hrs2, hrs3, hrs4, hrs5⟩ := uses_bridgeF defs r st2 (fun x hx => hok x (List.mem_cons_of_mem _ hx))
      (fun x hx => hlook x (List.mem_cons_of_mem _ hx))
    have hTitems : mixItemsOK u.text = true := by
      simp only [mixOK, Bool.and_eq_true] at hT; exact hT.1.1
    refine ⟨⟨⟨(splitMix u.text).1, segsT⟩, u.sp, u.label, u.url, u.title, ⟨(splitMix u.after).1, segsC⟩⟩ :: rs,
      ?_, ?_, ?_, ?_, by simp [hrs5]⟩
    · intro m n0
      simp only [usStage, printUses, Chunk.stage_raw, hpT, hpC, hrs1]
    · intro x hx
      rcases List.mem_cons.1 hx with rfl | hx
      · exact ⟨hokT, vis_of_startsOk u.text hTitems hTs segsT hmT, hokC, hsp, hlab, hlne, hlook u List.mem_cons_self⟩
      · exact hrs2 x hx
    · intro fmt
      rw [usOutF_cons, specUsesF_cons, hrs3 fmt]
      simp only [useOutF, houtT, houtC]
    · simp only [visRest, visUses, hpT, hpC, hrs4]

theorem links_bridgeF : ∀ (ls : List MLink) (st : PSt), (∀ u ∈ ls, u.ok = true) →
    ∃ is : List IUse, (∀ m n0, usStageI ESC 0 false m n0 is = (printLinks ls st).1) ∧
      (∀ i ∈ is, IUseOK ESC i ∧ i.T.Vis) ∧ (∀ fmt, usOutF fmt (is.map IUse.toR) = specLinksF fmt ls) ∧
      visRest ESC (is.map IUse.toR) = (visLinks ls st).1 ∧ is.length = ls.length
  | [], st, _ => ⟨[], fun _ _ => rfl, fun r hr => (by cases hr), fun _ => rfl, rfl, rfl⟩
  | u :: r, st, hok => by
    have hu := hok u List.mem_cons_self
    simp only [MLink.ok, Bool.and_eq_true] at hu
    obtain ⟨⟨⟨hT, hTs⟩, hC⟩, hd⟩ := hu
    obtain ⟨segsT, st1, hpT, hokT, houtT, hmT⟩ := chunk_of_content u.text hT st
    obtain ⟨segsC, st2, hpC, hokC, houtC, _⟩ := chunk_of_content u.after hC st1
    obtain ⟨is, h1, h2, h3, h4, h5⟩ := links_bridgeF r st2 (fun x hx => hok x (List.mem_cons_of_mem _ hx))
    have hTitems : mixItemsOK u.text = true := by
      simp only [mixOK, Bool.and_eq_true] at hT; exact hT.1.1
    have hvis := vis_of_startsOk u.text hTitems hTs segsT hmT
    refine ⟨⟨⟨(splitMix u.text).1, segsT⟩, u.url, u.dtitle, ⟨(splitMix u.after).1, segsC⟩⟩ :: is, ?_, ?_, ?_, ?_,
      by simp [h5]⟩
    · intro m n0
      simp only [usStageI, printLinks, Chunk.stage_raw, hpT, hpC, h1]
    · intro x hx
      rcases List.mem_cons.1 hx with rfl | hx
      · exact ⟨⟨hokT, vis_ne hvis, hokC, destOK_of_b hd⟩, hvis⟩
      · exact h2 x hx
    · intro fmt
      rw [List.map_cons, usOutF_cons, specLinksF_cons, h3 fmt]
      simp only [useOutF, IUse.toR, houtT, houtC]
    · simp only [List.map_cons, IUse.toR, visRest, visLinks, hpT, hpC, h4]

/-! ### reference-style uses -/

/-- what the theorems need of a printed line with reference-style uses -/
theorem mixLine_chunks (defs : List InlineRef.DefSpec) (c0 : List DocSpec.Inline) (us : List MUse) (st : PSt)
    (hne : us ≠ []) (h0 : mixOK c0 = true) (hus : ∀ u ∈ us, u.ok = true)
    (hlook : ∀ u ∈ us, Block.lookupRef (defs.map InlineRef.DefSpec.entry) (RefDef.normUse u.label) =
      some (u.url, u.title)) :
    ∃ (C0 : Chunk) (rs : List RUse), rs ≠ [] ∧ printLine c0 us st = lineRaw ESC C0 rs ∧ ChunkOK ESC C0 ∧
      (∀ r ∈ rs, UseSpec ESC defs r) ∧ (∀ fmt, C0.out ++ usOutF fmt rs = specInlines c0 ++ specUsesF fmt us) ∧
      visibleSrc ESC C0 rs = visibleLine c0 us st := by
  obtain ⟨segs0, st1, hp0, hok0, hout0, _⟩ := chunk_of_content c0 h0 st
  obtain ⟨rs, h1, h2, h3, h4, h5⟩ := uses_bridgeF defs us st1 hus hlook
  refine ⟨⟨(splitMix c0).1, segs0⟩, rs, ?_, ?_, hok0, h2, fun fmt => by rw [hout0, h3 fmt], ?_⟩
  · intro e; rw [e] at h5
    cases us with
    | nil => exact hne rfl
    | cons a b => simp at h5
  · simp only [printLine, lineRaw, hp0, h1]
  · rw [visibleSrc_eq]
    simp only [visibleLine, hp0, h4]

/-- **From the source to the output, either format**, reference-style uses, vocabulary of `Spec/Doc.lean` -/
theorem convert_mixLine_fmt (cfg : Pipeline.Cfg)
    (hbl : cfg.blockLevel = TreeProc.defaultBlockLevel) (htab : 0 < cfg.tab) (hesc : cfg.esc = ESC)
    (before after : List InlineRef.DefSpec) (hb : ∀ d ∈ before, d.ok cfg.tab = true)
    (ha : ∀ d ∈ after, d.ok cfg.tab = true) (c0 : List DocSpec.Inline) (us : List MUse) (st : PSt)
    (hne : us ≠ []) (h0 : mixOK c0 = true) (hus : ∀ u ∈ us, u.ok = true)
    (hlook : ∀ u ∈ us, Block.lookupRef ((before ++ after).map InlineRef.DefSpec.entry) (RefDef.normUse u.label) =
      some (u.url, u.title))
    (hstart : startPlain (printLine c0 us st) = true) (hchars : (printLine c0 us st).all lineCh = true)
    (hnoref : Block.refMatchAt (printLine c0 us st) 0 = none) :
    Pipeline.convert cfg (InlineRef.docOf before (printLine c0 us st) after) =
      .ok ("<p>".toList ++ (specInlines c0 ++ specUsesF cfg.fmt us) ++ "</p>".toList) := by
  obtain ⟨C0, rs, hrne, hline, hok0, hrs, hout, _⟩ := mixLine_chunks (before ++ after) c0 us st hne h0 hus hlook
  rw [hline] at hstart hchars hnoref ⊢
  rw [← hout]
  rw [← hesc] at hstart hchars hnoref ⊢
  exact convert_line_fmt cfg hbl htab (hesc ▸ escOK_ESC) (hesc ▸ rbr_ESC) before after hb ha C0 rs hrne
    (hesc ▸ hok0) (fun u hu => hesc ▸ hrs u hu) hstart hchars hnoref

/-- **conservation for a printed line with references, either format** -/
theorem letters_mixLine_fmt {L : Char → Bool} (hL : LetterClass L) (cfg : Pipeline.Cfg)
    (hbl : cfg.blockLevel = TreeProc.defaultBlockLevel) (htab : 0 < cfg.tab) (hesc : cfg.esc = ESC)
    (before after : List InlineRef.DefSpec) (hb : ∀ d ∈ before, d.ok cfg.tab = true)
    (ha : ∀ d ∈ after, d.ok cfg.tab = true) (c0 : List DocSpec.Inline) (us : List MUse) (st : PSt)
    (hne : us ≠ []) (h0 : mixOK c0 = true) (hus : ∀ u ∈ us, u.ok = true)
    (hlook : ∀ u ∈ us, Block.lookupRef ((before ++ after).map InlineRef.DefSpec.entry) (RefDef.normUse u.label) =
      some (u.url, u.title))
    (hstart : startPlain (printLine c0 us st) = true) (hchars : (printLine c0 us st).all lineCh = true)
    (hgt : '>' ∉ printLine c0 us st) (hnoref : Block.refMatchAt (printLine c0 us st) 0 = none) :
    ∃ out, Pipeline.convert cfg (InlineRef.docOf before (printLine c0 us st) after) = .ok out ∧
      (Ser.readForest cfg.fmt out).isSome = true ∧
      C06.visibleLetters L cfg.fmt out = letters L (visibleLine c0 us st) := by
  obtain ⟨C0, rs, hrne, hline, hok0, hrs, _, hvis⟩ := mixLine_chunks (before ++ after) c0 us st hne h0 hus hlook
  rw [hline] at hstart hchars hnoref hgt ⊢
  rw [← hvis]
  have hclean : ∀ ch ∈ lineRaw ESC C0 rs, ch ≠ '&' ∧ ch ≠ '<' ∧ ch ≠ '>' := by
    intro ch hch
    have := List.all_eq_true.mp hchars ch hch
    simp only [lineCh, InlineRef.docCh, Bool.and_eq_true, bne_iff_ne, ne_eq] at this
    exact ⟨this.1.1.1.1.1.2, this.1.1.1.1.1.1, fun e => hgt (e ▸ hch)⟩
  obtain ⟨hc0, hcu⟩ := codeClean_line ESC C0 rs hclean
  have hch : ∀ u ∈ rs, UseCh ESC u := fun u hu => ⟨(hrs u hu).text, (hrs u hu).after⟩
  obtain ⟨hr, hv⟩ := visible_line_fmt hL cfg.fmt C0 rs hok0 hch hc0 hcu
  rw [← hesc] at hstart hchars hnoref ⊢
  exact ⟨_, convert_line_fmt cfg hbl htab (hesc ▸ escOK_ESC) (hesc ▸ rbr_ESC) before after hb ha C0 rs hrne
    (hesc ▸ hok0) (fun u hu => hesc ▸ hrs u hu) hstart hchars hnoref, hr, by rw [hv, hesc]⟩

/-! ### inline links -/

theorem mem_usStageI0 (esc : List Char) : ∀ (is' : List IUse) (m n0 : Nat) (u : IUse), u ∈ is' →
    (∀ ch ∈ u.T.raw esc, ch ∈ usStageI esc 0 false m n0 is') ∧ (∀ ch ∈ u.C.raw esc, ch ∈ usStageI esc 0 false m n0 is') := by
  intro is'
  induction is' with
  | nil => intro _ _ u hu; cases hu
  | cons a r ih =>
    intro m n0 u hu
    rcases List.mem_cons.1 hu with rfl | hu
    · refine ⟨fun ch hch => ?_, fun ch hch => ?_⟩
      · simp only [usStageI, Chunk.stage_raw, List.mem_cons, List.mem_append]
        exact Or.inr (Or.inl hch)
      · simp only [usStageI, Chunk.stage_raw, List.mem_cons, List.mem_append]
        exact Or.inr (Or.inr (Or.inr (Or.inr (Or.inr (Or.inr (Or.inl hch))))))
    · obtain ⟨h1, h2⟩ := ih (m + a.T.escs esc + a.C.escs esc) (n0 + a.T.cnt 0 + a.C.cnt 0) u hu
      refine ⟨fun ch hch => ?_, fun ch hch => ?_⟩
      · simp only [usStageI, List.mem_cons, List.mem_append]
        exact Or.inr (Or.inr (Or.inr (Or.inr (Or.inr (Or.inr (Or.inr (h1 ch hch)))))))
      · simp only [usStageI, List.mem_cons, List.mem_append]
        exact Or.inr (Or.inr (Or.inr (Or.inr (Or.inr (Or.inr (Or.inr (h2 ch hch)))))))

theorem codeClean_lineI (esc : List Char) (C0 : Chunk) (is : List IUse)
    (h : ∀ ch ∈ lineRawI esc C0 is, ch ≠ '&' ∧ ch ≠ '<' ∧ ch ≠ '>') :
    C0.CodeClean ∧ ∀ u ∈ is.map IUse.toR, u.T.CodeClean ∧ u.C.CodeClean := by
  refine ⟨codeClean_of_raw esc C0 (fun ch hch => h ch (by simp [lineRawI, hch])), fun r hr => ?_⟩
  obtain ⟨u, hu, rfl⟩ := List.mem_map.1 hr
  obtain ⟨h1, h2⟩ := mem_usStageI0 esc is 0 0 u hu
  exact ⟨codeClean_of_raw esc u.T (fun ch hch => h ch (by
      simp only [lineRawI, List.mem_append]; exact Or.inr (h1 ch hch))),
    codeClean_of_raw esc u.C (fun ch hch => h ch (by
      simp only [lineRawI, List.mem_append]; exact Or.inr (h2 ch hch)))⟩

theorem mixLineI_chunksF (c0 : List DocSpec.Inline) (ls : List MLink) (st : PSt) (hne : ls ≠ []) (h0 : mixOK c0 = true)
    (hls : ∀ u ∈ ls, u.ok = true) :
    ∃ (C0 : Chunk) (is : List IUse), is ≠ [] ∧ printLineI c0 ls st = lineRawI ESC C0 is ∧ ChunkOK ESC C0 ∧
      (∀ i ∈ is, IUseOK ESC i ∧ i.T.Vis) ∧
      (∀ fmt, C0.out ++ usOutF fmt (is.map IUse.toR) = specInlines c0 ++ specLinksF fmt ls) ∧
      visibleSrc ESC C0 (is.map IUse.toR) = visibleLineI c0 ls st := by
  obtain ⟨segs0, st1, hp0, hok0, hout0, _⟩ := chunk_of_content c0 h0 st
  obtain ⟨is, h1, h2, h3, h4, h5⟩ := links_bridgeF ls st1 hls
  refine ⟨⟨(splitMix c0).1, segs0⟩, is, ?_, ?_, hok0, h2, fun fmt => by rw [hout0, h3 fmt], ?_⟩
  · intro e; rw [e] at h5
    cases ls with
    | nil => exact hne rfl
    | cons a b => simp at h5
  · simp only [printLineI, lineRawI, hp0, h1]
  · rw [visibleSrc_eq]
    simp only [visibleLineI, hp0, h4]

/-- **From the source to the output, either format**, inline links, vocabulary of `Spec/Doc.lean` -/
theorem convert_mixLineI_fmt (cfg : Pipeline.Cfg)
    (hbl : cfg.blockLevel = TreeProc.defaultBlockLevel) (htab : 0 < cfg.tab) (hesc : cfg.esc = ESC)
    (before after : List InlineRef.DefSpec) (hb : ∀ d ∈ before, d.ok cfg.tab = true)
    (ha : ∀ d ∈ after, d.ok cfg.tab = true) (c0 : List DocSpec.Inline) (ls : List MLink) (st : PSt)
    (hne : ls ≠ []) (h0 : mixOK c0 = true) (hls : ∀ u ∈ ls, u.ok = true)
    (hstart : startPlain (printLineI c0 ls st) = true) (hchars : (printLineI c0 ls st).all lineCh = true)
    (hnoref : Block.refMatchAt (printLineI c0 ls st) 0 = none) :
    Pipeline.convert cfg (InlineRef.docOf before (printLineI c0 ls st) after) =
      .ok ("<p>".toList ++ (specInlines c0 ++ specLinksF cfg.fmt ls) ++ "</p>".toList) := by
  obtain ⟨C0, is, hine, hline, hok0, his, hout, _⟩ := mixLineI_chunksF c0 ls st hne h0 hls
  rw [hline] at hstart hchars hnoref ⊢
  rw [← hout]
  rw [← hesc] at hstart hchars hnoref ⊢
  exact convert_lineI_fmt cfg hbl htab (hesc ▸ escOK_ESC) (hesc ▸ rbr_ESC) before after hb ha C0 is hine
    (hesc ▸ hok0) (fun u hu => hesc ▸ (his u hu).1) (fun u hu => (his u hu).2) hstart hchars hnoref

/-- **conservation for a printed line with inline links, either format** -/
theorem letters_mixLineI_fmt {L : Char → Bool} (hL : LetterClass L) (cfg : Pipeline.Cfg)
    (hbl : cfg.blockLevel = TreeProc.defaultBlockLevel) (htab : 0 < cfg.tab) (hesc : cfg.esc = ESC)
    (before after : List InlineRef.DefSpec) (hb : ∀ d ∈ before, d.ok cfg.tab = true)
    (ha : ∀ d ∈ after, d.ok cfg.tab = true) (c0 : List DocSpec.Inline) (ls : List MLink) (st : PSt)
    (hne : ls ≠ []) (h0 : mixOK c0 = true) (hls : ∀ u ∈ ls, u.ok = true)
    (hstart : startPlain (printLineI c0 ls st) = true) (hchars : (printLineI c0 ls st).all lineCh = true)
    (hgt : '>' ∉ printLineI c0 ls st) (hnoref : Block.refMatchAt (printLineI c0 ls st) 0 = none) :
    ∃ out, Pipeline.convert cfg (InlineRef.docOf before (printLineI c0 ls st) after) = .ok out ∧
      (Ser.readForest cfg.fmt out).isSome = true ∧
      C06.visibleLetters L cfg.fmt out = letters L (visibleLineI c0 ls st) := by
  obtain ⟨C0, is, hine, hline, hok0, his, _, hvis⟩ := mixLineI_chunksF c0 ls st hne h0 hls
  rw [hline] at hstart hchars hnoref hgt ⊢
  rw [← hvis]
  have hclean : ∀ ch ∈ lineRawI ESC C0 is, ch ≠ '&' ∧ ch ≠ '<' ∧ ch ≠ '>' := by
    intro ch hch
    have := List.all_eq_true.mp hchars ch hch
    simp only [lineCh, InlineRef.docCh, Bool.and_eq_true, bne_iff_ne, ne_eq] at this
    exact ⟨this.1.1.1.1.1.2, this.1.1.1.1.1.1, fun e => hgt (e ▸ hch)⟩
  obtain ⟨hc0, hcu⟩ := codeClean_lineI ESC C0 is hclean
  have hch := useCh_map (fun u hu => (his u hu).1)
  obtain ⟨hr, hv⟩ := visible_line_fmt hL cfg.fmt C0 (is.map IUse.toR) hok0 hch hc0 hcu
  rw [← hesc] at hstart hchars hnoref ⊢
  exact ⟨_, convert_lineI_fmt cfg hbl htab (hesc ▸ escOK_ESC) (hesc ▸ rbr_ESC) before after hb ha C0 is hine
    (hesc ▸ hok0) (fun u hu => hesc ▸ (his u hu).1) (fun u hu => (his u hu).2) hstart hchars hnoref, hr,
    by rw [hv, hesc]⟩

end MdVerif.RefText
