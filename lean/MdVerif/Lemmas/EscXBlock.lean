/-
Helper lemmas for `Props/C07X.lean` (a fully escaped text with bundled extensions enabled), block-parser stage:
the recognisers of the block processors that the extensions register — admonition, def_list, footnotes, abbr,
sane_lists, tables — find nothing in an escaped text, so that the extended block parser `parseDocumentXT` makes a
single paragraph of it.  Core Lean only.

The domain predicate for `def_list` (`:` is not escapable) is defined here: `noDefLine`.
-/
import MdVerif.Model.BlockExtT
import MdVerif.Lemmas.BlockEsc
import MdVerif.Lemmas.InlineEsc

namespace MdVerif.EscX
open Py Block BlockExt Escape

/-! ### searches anchored at a line start find nothing when every line start is safe -/

theorem lineSearchAux_safe {α : Type} {esc : List Char} (f : Str → Option α)
    (hf : ∀ r, startOk esc r = true → f r = none) :
    ∀ (s : Str) (atStart : Bool) (i : Nat), (atStart = true → startOk esc s = true) → startsOkNl esc s = true →
      lineSearchAux f atStart i s = none := by
  intro s
  induction s with
  | nil =>
    intro atStart i h0 _
    simp only [lineSearchAux]
    split
    · rw [hf [] rfl]; rfl
    · rfl
  | cons c r ih =>
    intro atStart i h0 h
    simp only [startsOkNl, Bool.and_eq_true, Bool.or_eq_true, bne_iff_ne, ne_eq] at h
    simp only [lineSearchAux]
    have e : (if atStart = true then f (c :: r) else none) = none := by
      split
      · rename_i ha; exact hf _ (h0 ha)
      · rfl
    rw [e]
    refine ih _ _ ?_ h.2
    intro hc
    have hc' : c = '\n' := by simpa using hc
    subst hc'
    simpa using h.1

theorem lineSearch_safe {α : Type} {esc : List Char} (f : Str → Option α)
    (hf : ∀ r, startOk esc r = true → f r = none) (s : Str) (h : LineStartsOk esc s = true) :
    lineSearch f s = none := by
  simp only [LineStartsOk, Bool.and_eq_true] at h
  exact lineSearchAux_safe f hf s true 0 (fun _ => h.1) h.2

theorem nlSearchAux_safe {α : Type} {esc : List Char} (f : Str → Option α)
    (hf : ∀ r, startOk esc r = true → f r = none) :
    ∀ (s : Str) (i : Nat), startsOkNl esc s = true → nlSearchAux f i s = none := by
  intro s
  induction s with
  | nil => intro i _; rfl
  | cons c r ih =>
    intro i h
    simp only [startsOkNl, Bool.and_eq_true, Bool.or_eq_true, bne_iff_ne, ne_eq] at h
    simp only [nlSearchAux]
    split
    · rename_i hc
      subst hc
      have h1 : startOk esc r = true := by simpa using h.1
      rw [hf r h1]
      exact ih _ h.2
    · exact ih _ h.2

theorem nlSearch_safe {α : Type} {esc : List Char} (f : Str → Option α)
    (hf : ∀ r, startOk esc r = true → f r = none) (s : Str) (h : LineStartsOk esc s = true) :
    nlSearch f s = none := by
  simp only [LineStartsOk, Bool.and_eq_true] at h
  simp only [nlSearch, hf s h.1]
  exact nlSearchAux_safe f hf s 0 h.2

/-! ### admonition (`!!!`), footnote definitions (`[^`), abbreviation definitions (`*[`) -/

theorem startsWith_cons_ne {c p : Char} {r ps : Str} (h : (c :: r).head? ≠ some p) :
    startsWith (c :: r) (p :: ps) = false := by
  have : c ≠ p := by simpa using h
  simp [startsWith, this]

theorem startsWith_head_ne {s : Str} {p : Char} {ps : Str} (h : s.head? ≠ some p) :
    startsWith s (p :: ps) = false := by
  cases s with
  | nil => rfl
  | cons c r => exact startsWith_cons_ne h

theorem admAt_safe {esc : List Char} (hm : '!' ∈ esc) (r : Str) (h : startOk esc r = true) : admAt r = none := by
  have := head_of_startOk h hm (by decide) (by decide)
  simp [admAt, startsWith_head_ne this]

theorem admSearch_safe {esc : List Char} (hm : '!' ∈ esc) (s : Str) (h : LineStartsOk esc s = true) :
    admSearch s = none := by
  simp only [admSearch, nlSearch_safe admAt (admAt_safe hm) s h]

theorem fnAt_safe {esc : List Char} (hm : '[' ∈ esc) (r : Str) (h : startOk esc r = true) : fnAt r = none := by
  have := head_after_spaces h hm (by decide) (by decide) (some 3)
  simp [fnAt, startsWith_head_ne this]

theorem fnSearch_safe {esc : List Char} (hm : '[' ∈ esc) (s : Str) (h : LineStartsOk esc s = true) :
    fnSearch s = none :=
  lineSearch_safe fnAt (fnAt_safe hm) s h

theorem abbrAt_safe {esc : List Char} (hm : '*' ∈ esc) (r : Str) (h : startOk esc r = true) : abbrAt r = none := by
  have := head_of_startOk h hm (by decide) (by decide)
  simp [BlockExt.abbrAt, startsWith_head_ne this]

theorem abbrSearch_safe {esc : List Char} (hm : '*' ∈ esc) (s : Str) (h : LineStartsOk esc s = true) :
    abbrSearch s = none :=
  lineSearch_safe BlockExt.abbrAt (abbrAt_safe hm) s h

/-! ### def_list: `:` is not escapable — the domain -/

/-- `[ ]{0,3}:[ ]` at the start of `r`: what `DefListProcessor.RE` needs after a line feed -/
def isDefStart (r : Str) : Bool := startsWith (r.drop (countPrefix ' ' (some 3) r)) [':', ' ']

/-- no line feed of the text is followed by `[ ]{0,3}:[ ]` -/
def defFreeNl : Str → Bool
  | [] => true
  | c :: r => (c != '\n' || !isDefStart r) && defFreeNl r

theorem defAt_of_not_start (r : Str) (h : isDefStart r = false) : defAt r = none := by
  unfold isDefStart at h
  simp only [defAt]
  cases hd : r.drop (countPrefix ' ' (some 3) r) with
  | nil => rfl
  | cons c x =>
    rw [hd] at h
    simp only []
    by_cases hc : c = ':'
    · subst hc
      cases x with
      | nil => simp
      | cons d y =>
        have hd' : d ≠ ' ' := by
          intro e; subst e; simp [startsWith] at h
        simp [countPrefix_eq_zero (r := d :: y) (ch := ' ') (by simpa using hd')]
    · simp [hc]

theorem startsWith_def_escAll {esc : List Char} (r : Str)
    (h : startsWith (escAll esc r) [':', ' '] = true) : startsWith r [':', ' '] = true := by
  cases r with
  | nil => simp [escAll] at h
  | cons c x =>
    by_cases hc : c ∈ esc
    · rw [escAll_cons_mem hc] at h; simp [startsWith] at h
    · rw [escAll_cons_not_mem hc] at h
      cases x with
      | nil => simp [escAll, startsWith] at h
      | cons d y =>
        by_cases hd : d ∈ esc
        · rw [escAll_cons_mem hd] at h; simp [startsWith] at h
        · rw [escAll_cons_not_mem hd] at h
          simp only [startsWith, Bool.and_eq_true, decide_eq_true_eq] at h ⊢
          exact ⟨h.1, h.2.1, trivial⟩

theorem defStart_escAll {esc : List Char} (hsp : ' ' ∉ esc) (r : Str) : ∀ (lim : Option Nat),
    startsWith ((escAll esc r).drop (countPrefix ' ' lim (escAll esc r))) [':', ' '] = true →
    startsWith (r.drop (countPrefix ' ' lim r)) [':', ' '] = true := by
  induction r with
  | nil => intro lim h; simp [escAll] at h
  | cons c x ih =>
    intro lim h
    by_cases hc : c = ' '
    · subst hc
      rw [escAll_cons_not_mem hsp] at h
      cases lim with
      | none =>
        simp only [countPrefix, if_true, List.drop_succ_cons, Option.map_none] at h ⊢
        exact ih none h
      | some n =>
        cases n with
        | zero => simp at h
        | succ n =>
          simp only [countPrefix, if_true, List.drop_succ_cons, Option.map_some, Nat.add_sub_cancel] at h ⊢
          exact ih (some n) h
    · have e1 : countPrefix ' ' lim (c :: x) = 0 := countPrefix_eq_zero (by simpa using hc) lim
      have e2 : countPrefix ' ' lim (escAll esc (c :: x)) = 0 := by
        apply countPrefix_eq_zero
        by_cases hm : c ∈ esc
        · rw [escAll_cons_mem hm]; simp
        · rw [escAll_cons_not_mem hm]; simpa using hc
      rw [e2] at h
      rw [e1]
      exact startsWith_def_escAll _ h

theorem isDefStart_escAll {esc : List Char} (hsp : ' ' ∉ esc) (r : Str) (h : isDefStart r = false) :
    isDefStart (escAll esc r) = false := by
  cases h' : isDefStart (escAll esc r) with
  | false => rfl
  | true =>
    have := defStart_escAll hsp r (some 3) h'
    unfold isDefStart at h
    rw [h] at this; cases this

theorem defFreeNl_escAll {esc : List Char} (hsp : ' ' ∉ esc) (hnl : '\n' ∉ esc) (t : Str)
    (h : defFreeNl t = true) : defFreeNl (escAll esc t) = true := by
  induction t with
  | nil => rfl
  | cons c r ih =>
    simp only [defFreeNl, Bool.and_eq_true, Bool.or_eq_true, bne_iff_ne, ne_eq, Bool.not_eq_true'] at h
    by_cases hc : c ∈ esc
    · have : c ≠ '\n' := fun e => hnl (e ▸ hc)
      rw [escAll_cons_mem hc]
      simp [defFreeNl, ih h.2, this]
    · rw [escAll_cons_not_mem hc]
      simp only [defFreeNl, Bool.and_eq_true, Bool.or_eq_true, bne_iff_ne, ne_eq, Bool.not_eq_true']
      refine ⟨?_, ih h.2⟩
      rcases h.1 with h1 | h1
      · exact Or.inl h1
      · exact Or.inr (isDefStart_escAll hsp r h1)

theorem nlSearchAux_defFree : ∀ (s : Str) (i : Nat), defFreeNl s = true → nlSearchAux defAt i s = none := by
  intro s
  induction s with
  | nil => intro i _; rfl
  | cons c r ih =>
    intro i h
    simp only [defFreeNl, Bool.and_eq_true, Bool.or_eq_true, bne_iff_ne, ne_eq, Bool.not_eq_true'] at h
    simp only [nlSearchAux]
    split
    · rename_i hc
      have h1 : isDefStart r = false := by
        rcases h.1 with h1 | h1
        · exact absurd hc h1
        · exact h1
      rw [defAt_of_not_start r h1]
      exact ih _ h.2
    · exact ih _ h.2

/-- on a text whose later lines do not start a definition, `DefListProcessor.RE` matches at offset 0 or not at all -/
theorem defSearch_defFree (s : Str) (h : defFreeNl s = true) :
    defSearch s = none ∨ ∃ en g, defSearch s = some (0, en, g) := by
  unfold defSearch nlSearch
  cases hd : defAt s with
  | some a => exact Or.inr ⟨_, _, rfl⟩
  | none => simp [nlSearchAux_defFree s 0 h]

/-- a match at offset 0 in an empty parent: no terms, `DefListProcessor.run` returns `False` -/
theorem defListP_at_zero (tab : Nat) (pb : PB) (state : List BState) (refs : Refs) (b : Str) (rest : List Str)
    (en : Nat) (g : Str) : defListP tab pb state refs (Node.el "div") b rest (0, en, g) = none := by
  simp [defListP, Node.last?, Node.el, lines, strip, stripP, lstripP, rstripP]

/-! ### the `def_list` domain, line by line -/

theorem defStart_firstLine (r : Str) : ∀ (lim : Option Nat),
    startsWith ((firstLine r).drop (countPrefix ' ' lim (firstLine r))) [':', ' '] =
      startsWith (r.drop (countPrefix ' ' lim r)) [':', ' '] := by
  induction r with
  | nil => intro lim; rfl
  | cons c x ih =>
    intro lim
    rw [firstLine_cons]
    by_cases h1 : c = '\n'
    · subst h1
      have e : countPrefix ' ' lim ('\n' :: x) = 0 := countPrefix_eq_zero (by simp) lim
      have e' : countPrefix ' ' lim ([] : Str) = 0 := countPrefix_eq_zero (by simp) lim
      simp [e, e']
    · simp only [h1, if_false]
      by_cases hc : c = ' '
      · subst hc
        cases lim with
        | none =>
          simp only [countPrefix, if_true, List.drop_succ_cons, Option.map_none]
          exact ih none
        | some n =>
          cases n with
          | zero => simp
          | succ n =>
            simp only [countPrefix, if_true, List.drop_succ_cons, Option.map_some, Nat.add_sub_cancel]
            exact ih (some n)
      · have e1 : countPrefix ' ' lim (c :: x) = 0 := countPrefix_eq_zero (by simpa using hc) lim
        have e2 : countPrefix ' ' lim (c :: firstLine x) = 0 := countPrefix_eq_zero (by simpa using hc) lim
        rw [e1, e2]
        simp only [List.drop_zero, startsWith]
        cases x with
        | nil => rfl
        | cons d y =>
          rw [firstLine_cons]
          by_cases hd : d = '\n'
          · subst hd; simp [startsWith]
          · simp [hd, startsWith]

theorem isDefStart_firstLine (r : Str) : isDefStart (firstLine r) = isDefStart r :=
  defStart_firstLine r (some 3)

/-- `defFreeNl`, line by line: no line after the first starts with `[ ]{0,3}:[ ]` -/
theorem defFreeNl_eq_lines (t : Str) : defFreeNl t = ((lines t).tail).all (fun l => !isDefStart l) := by
  induction t with
  | nil => rfl
  | cons c r ih =>
    rw [lines_tail_cons]
    by_cases hc : c = '\n'
    · subst hc
      simp only [defFreeNl, if_true, ih]
      rw [lines_head r]
      simp [isDefStart_firstLine]
    · simp [defFreeNl, hc, ih]

end MdVerif.EscX
