/-
Helper lemmas for C10b, part 7: the link patterns on the widened domain.  Without `](` the inline-link pattern never
matches, without `![` the three image patterns never match; the reference patterns (`[text][label]`, `[text][]`,
`[label]`) make an `a` element whose attributes come from the reference definitions and whose text is cut out of the
data between its brackets.  Core Lean only.
-/
import MdVerif.Lemmas.PlaceholdersBEm

namespace MdVerif.NoCtl
open Py Inline

/-! ### `getText`, `evalId` -/

theorem getTextLoop_cons (c : Char) (r : Str) (bc index : Nat) (acc : Str) :
    getTextLoop (c :: r) bc index acc =
      if (if c = ']' then bc - 1 else if c = '[' then bc + 1 else bc) = 0 then (acc.reverse, index + 1, true)
      else getTextLoop r (if c = ']' then bc - 1 else if c = '[' then bc + 1 else bc) (index + 1) (c :: acc) := rfl

theorem getTextLoop_spec : ∀ (suf : Str) (bc index : Nat) (acc text : Str) (idx : Nat), 1 ≤ bc →
    getTextLoop suf bc index acc = (text, idx, true) →
    ∃ T rest, suf = T ++ ']' :: rest ∧ text = acc.reverse ++ T ∧ idx = index + T.length + 1 := by
  intro suf
  induction suf with
  | nil => intro bc index acc text idx _ h; simp [getTextLoop] at h
  | cons c r ih =>
    intro bc index acc text idx hbc h
    rw [getTextLoop_cons] at h
    by_cases hz : (if c = ']' then bc - 1 else if c = '[' then bc + 1 else bc) = 0
    · rw [if_pos hz] at h
      simp only [Prod.mk.injEq, and_true] at h
      obtain ⟨rfl, rfl⟩ := h
      have hc : c = ']' := by
        by_cases h1 : c = ']'
        · exact h1
        · rw [if_neg h1] at hz
          by_cases h2 : c = '['
          · rw [if_pos h2] at hz; omega
          · rw [if_neg h2] at hz; omega
      subst hc
      exact ⟨[], r, rfl, by simp, by simp⟩
    · rw [if_neg hz] at h
      obtain ⟨T, rest, h1, h2, h3⟩ := ih _ _ _ _ _ (by omega) h
      refine ⟨c :: T, rest, by simp [h1], by simp [h2], ?_⟩
      simp only [List.length_cons]; omega

theorem getText_spec {data : Str} {index : Nat} {text : Str} {idx : Nat}
    (h : getText data index = (text, idx, true)) :
    ∃ rest, data.drop index = text ++ ']' :: rest ∧ idx = index + text.length + 1 := by
  unfold getText at h
  obtain ⟨T, rest, h1, h2, h3⟩ := getTextLoop_spec _ _ _ _ _ _ (Nat.le_refl 1) h
  simp only [List.reverse_nil, List.nil_append] at h2
  subst h2
  exact ⟨rest, h1, h3⟩

theorem evalId_spec {data : Str} {index : Nat} {text id : Str} {e2 : Nat} (h : evalId data index text = some (id, e2)) :
    ∃ W I rest, data.drop index = W ++ '[' :: I ++ ']' :: rest ∧ e2 = index + W.length + 1 + I.length + 1 ∧
      ('`' ∉ W) := by
  unfold evalId at h
  simp only at h
  have hgo : ∀ (r : Str) (p : Nat),
      (match r with
        | '[' :: r1 =>
          match find [']'] r1 with
          | some q => some (if (lower (r1.take q)).isEmpty then lower text else lower (r1.take q), p + 1 + q + 1)
          | none => none
        | _ => none) = some (id, e2) →
      ∃ I rest, r = '[' :: I ++ ']' :: rest ∧ e2 = p + 1 + I.length + 1 := by
    intro r p hr
    split at hr
    · rename_i r1
      cases hf : find [']'] r1 with
      | none => simp [hf] at hr
      | some q =>
        simp only [hf, Option.some.injEq, Prod.mk.injEq] at hr
        obtain ⟨pre, post, hsplit, hlen, -⟩ := find_some_iff.1 hf
        refine ⟨pre, post, by rw [hsplit]; simp, by rw [← hr.2, hlen]⟩
    · cases hr
  cases hsuf : data.drop index with
  | nil => simp [hsuf] at h
  | cons c r =>
    simp only [hsuf] at h
    split at h
    · rename_i hsp
      obtain ⟨I, rest, h1, h2⟩ := hgo r (index + 1) h
      refine ⟨[c], I, rest, by rw [h1]; simp, by simp [h2], ?_⟩
      simp only [List.mem_singleton]
      rintro rfl
      exact absurd hsp (by decide)
    · obtain ⟨I, rest, h1, h2⟩ := hgo (c :: r) index h
      exact ⟨[], I, rest, by rw [h1]; simp, by simp [h2], by simp⟩

/-! ### the element of a reference link -/

theorem attrsNoCtl_setAttr {n : Node} {k v : Str} (h : attrsNoCtl n.attrs) (hk : NoCtl k) (hv : NoCtl v) :
    attrsNoCtl (n.setAttr k v).attrs := by
  unfold Node.setAttr
  split
  · intro kv hkv
    simp only [List.mem_map] at hkv
    obtain ⟨x, hx, rfl⟩ := hkv
    split
    · exact ⟨hk, hv⟩
    · exact h x hx
  · intro kv hkv
    simp only [List.mem_append, List.mem_singleton] at hkv
    rcases hkv with hkv | rfl
    · exact h kv hkv
    · exact ⟨hk, hv⟩

theorem setAttr_frame (n : Node) (k v : Str) :
    (n.setAttr k v).tag = n.tag ∧ (n.setAttr k v).text = n.text ∧ (n.setAttr k v).textAtomic = n.textAtomic ∧
    (n.setAttr k v).children = n.children ∧ (n.setAttr k v).tail = n.tail ∧
    (n.setAttr k v).tailAtomic = n.tailAtomic := by
  unfold Node.setAttr
  split <;> exact ⟨rfl, rfl, rfl, rfl, rfl, rfl⟩

/-- an `a` element with harmless attributes and a good text -/
theorem aNode_snodeB {k : Nat} {e : Node} {text : Str} (a1 : attrsNoCtl e.attrs) (a2 : e.tag = .name "a".toList)
    (a3 : e.textAtomic = false) (a4 : e.children = []) (a5 : e.tail = none) (a6 : e.tailAtomic = false)
    (hx : GrpOK k text) :
    (({ e with text := some text } : Node).Forall (SNodeB k)) ∧ ({ e with text := some text } : Node).tail = none := by
  refine ⟨?_, a5⟩
  rw [Node.forall_iff]
  refine ⟨⟨by show tagNoCtl e.tag; rw [a2]; show NoCtl "a".toList; decide, a1, a6,
    by show StrB k e.tail; rw [a5]; exact strB_none k, ?_⟩,
    by show ∀ c ∈ e.children, _; rw [a4]; intro c hc; cases hc⟩
  have hc : ¬ isCode ({ e with text := some text } : Node) = true := by
    show ¬ (e.tag == Tag.name "code".toList) = true
    rw [a2]; decide
  rw [if_neg hc]
  exact ⟨a3, hx⟩

/-- the element that the reference patterns build, before its text is set -/
theorem refEl_frame {href : Str} {title : Option Str} (hh : NoCtl href) (ht : NoCtl (title.getD [])) :
    let e := if Node.truthy title then ((mkEl "a").setAttr "href".toList href).setAttr "title".toList (title.getD [])
             else (mkEl "a").setAttr "href".toList href
    attrsNoCtl e.attrs ∧ e.tag = .name "a".toList ∧ e.textAtomic = false ∧ e.children = [] ∧ e.tail = none ∧
      e.tailAtomic = false := by
  have h0 : attrsNoCtl ((mkEl "a").setAttr "href".toList href).attrs :=
    attrsNoCtl_setAttr (n := mkEl "a") (by intro kv hkv; simp [mkEl] at hkv) (by decide) hh
  obtain ⟨f1, f2, f3, f4, f5, f6⟩ := setAttr_frame (mkEl "a") "href".toList href
  by_cases htr : Node.truthy title = true
  · simp only [htr, if_true]
    obtain ⟨g1, g2, g3, g4, g5, g6⟩ := setAttr_frame ((mkEl "a").setAttr "href".toList href) "title".toList (title.getD [])
    exact ⟨attrsNoCtl_setAttr h0 (by decide) ht, by rw [g1, f1]; rfl, by rw [g3, f3]; rfl, by rw [g4, f4]; rfl,
      by rw [g5, f5]; rfl, by rw [g6, f6]; rfl⟩
  · have htr' : Node.truthy title = false := by simpa using htr
    simp only [htr', Bool.false_eq_true, if_false]
    exact ⟨h0, by rw [f1]; rfl, by rw [f3]; rfl, by rw [f4]; rfl, by rw [f5]; rfl, by rw [f6]; rfl⟩

/-! ### `linkHandle` -/

/-- the element of a reference link, before the text is set -/
def refEl (href : Str) (title : Option Str) : Node :=
  if Node.truthy title then ((mkEl "a").setAttr "href".toList href).setAttr "title".toList (title.getD [])
  else (mkEl "a").setAttr "href".toList href

theorem linkHandle_ref_eq (cfg : Cfg) (stash : List StashItem) {pi : Nat} (hpi : pi = 2 ∨ pi = 6) (data : Str)
    (mstart mend : Nat) :
    linkHandle cfg stash pi data mstart mend =
      if !(getText data mend).2.2 then none
      else
        match (if pi = 6 then some (lower (getText data mend).1, (getText data mend).2.1)
               else evalId data (getText data mend).2.1 (getText data mend).1) with
        | none => none
        | some (id, e2) =>
          match cfg.refs.find? (fun x => x.1 = wsClean id) with
          | none => some ⟨.none, mstart, e2⟩
          | some (_, href, title) =>
            some ⟨.el { refEl href title with text := some (getText data mend).1 }, mstart, e2⟩ := by
  rcases hpi with rfl | rfl <;> rfl

theorem linkHandle_inline_eq (cfg : Cfg) (stash : List StashItem) (data : Str) (mstart mend : Nat)
    (h : (getLinkRaw data (getText data mend).2.1).2.2.2 = false) :
    linkHandle cfg stash 3 data mstart mend = none := by
  unfold linkHandle
  simp only
  split
  · rfl
  · simp only [getLink, h]
    rfl


/-! ### the reference patterns -/

theorem refEl_ok {cfg : Cfg} (hrefs : RefsOK cfg) {id : Str} {x : Str × Str × Option Str}
    (h : cfg.refs.find? (fun x => x.1 = id) = some x) : NoCtl x.2.1 ∧ NoCtl (x.2.2.getD []) :=
  hrefs x (List.mem_of_find?_eq_some h)

theorem linkHandle_ref_ok {cfg : Cfg} (hrefs : RefsOK cfg) (stash : List StashItem) {pi k : Nat}
    (hpi : pi = 2 ∨ pi = 6) {data : Str} (hd : DataB pi k data) {i : Nat} {t : Str}
    (hbr : data.drop i = '[' :: t) {f : Found} (h : linkHandle cfg stash pi data i (i + 1) = some f) :
    FoundOKB k pi data f := by
  have hpi1 : 1 ≤ pi := by rcases hpi with rfl | rfl <;> omega
  rw [linkHandle_ref_eq cfg stash hpi] at h
  rcases hgt : getText data (i + 1) with ⟨text, index, handled⟩
  simp only [hgt] at h
  cases handled with
  | false => simp at h
  | true =>
    simp only [Bool.not_true, Bool.false_eq_true, if_false] at h
    obtain ⟨restT, ht1, ht2⟩ := getText_spec hgt
    have hdrop1 : data.drop (i + 1) = t := by
      have := congrArg (List.drop 1) hbr
      simpa [List.drop_drop, Nat.add_comm] using this
    have ht : t = text ++ ']' :: restT := by rw [← hdrop1]; exact ht1
    have hrestT : data.drop index = restT := by
      rw [ht2, show i + 1 + text.length + 1 = (i + 1) + (text.length + 1) by omega, ← List.drop_drop, ht1]
      simp
    -- the text between the brackets
    have hdata : data = (data.take i ++ ['[']) ++ text ++ (']' :: restT) := by
      have := List.take_append_drop i data
      rw [hbr, ht] at this
      exact this.symm.trans (by simp)
    have hwtext : WF true k text := by
      have hw := hd.wf
      rw [hdata, List.append_assoc] at hw
      have b1 : Bnd (data.take i ++ ['[']) (text ++ ']' :: restT) := bnd_snoc_left _ _ (by decide) (by decide)
      have w2 := (hw.split b1).2
      exact (w2.split (bnd_cons_right _ _ (by decide) (by decide))).1
    have hgtext : GrpOK k text := by
      have hg : GrpOK k data := ⟨hd.wf, hd.dom, hd.adj, (btInv_succ hpi1).1 hd.bt⟩
      rw [hdata] at hg
      exact hg.cut hwtext (by simp)
    -- the stretch that is replaced, given where the match ends
    have hsplice : ∀ (M Y : Str) (e2 : Nat), data.drop i = M ++ Y → M ≠ [] → M.head? = some '[' →
        M.getLast? = some ']' → e2 = i + M.length → SpliceB k pi data i (e2 : Int) := by
      intro M Y e2 hM hne hh hl he
      have := spliceB_of_span (pi := pi) (k := k) hpi1 hd (si := i) (pre := []) (M := M) (post := Y) (by simpa using hM) hne
        (by intro c hc; rw [hh] at hc; cases hc; decide) (by intro c hc; rw [hl] at hc; cases hc; decide)
      simp only [List.length_nil, Nat.add_zero] at this
      rw [he]; exact this
    have hfinal : ∀ (id : Str) (e2 : Nat), SpliceB k pi data i (e2 : Int) →
        (match cfg.refs.find? (fun x => x.1 = wsClean id) with
          | none => some (⟨.none, i, e2⟩ : Found)
          | some (_, href, title) => some ⟨.el { refEl href title with text := some text }, i, e2⟩) = some f →
        FoundOKB k pi data f := by
      intro id e2 hsp hm
      cases hfind : cfg.refs.find? (fun x => x.1 = wsClean id) with
      | none =>
        simp only [hfind, Option.some.injEq] at hm
        subst hm
        exact hpi1
      | some x =>
        obtain ⟨xid, href, title⟩ := x
        simp only [hfind, Option.some.injEq] at hm
        subst hm
        obtain ⟨r1, r2⟩ := refEl_ok hrefs hfind
        obtain ⟨a1, a2, a3, a4, a5, a6⟩ := refEl_frame (href := href) (title := title) r1 r2
        obtain ⟨n1, n2⟩ := aNode_snodeB (e := refEl href title) a1 a2 a3 a4 a5 a6 hgtext
        exact ⟨hsp, n1, n2, fun h0 => by omega⟩
    rcases hpi with rfl | rfl
    · -- `[text][label]`
      simp only [show ¬ ((2 : Nat) = 6) by decide, if_false] at h
      cases hev : evalId data index text with
      | none => simp [hev] at h
      | some r =>
        obtain ⟨id, e2⟩ := r
        simp only [hev] at h
        obtain ⟨W, I, rest, he1, he2, -⟩ := evalId_spec hev
        rw [hrestT] at he1
        refine hfinal id e2 (hsplice (('[' :: text ++ ']' :: W ++ '[' :: I) ++ [']']) rest e2 ?_ (by simp) (by simp)
          List.getLast?_concat ?_) h
        · rw [hbr, ht, he1]; simp
        · rw [he2, ht2]; simp; omega
    · -- `[label]`
      simp only [if_true] at h
      refine hfinal (lower text) index (hsplice (('[' :: text) ++ [']']) restT index ?_ (by simp) (by simp)
        List.getLast?_concat ?_) h
      · rw [hbr, ht]; simp
      · rw [ht2]; simp; omega

/-- without `](` the inline-link pattern does not match -/
theorem linkHandle_inline_none (cfg : Cfg) (stash : List StashItem) {data : Str} (hp : NoPair ']' '(' data)
    (i : Nat) : linkHandle cfg stash 3 data i (i + 1) = none := by
  by_cases hh : (getText data (i + 1)).2.2 = true
  · apply linkHandle_inline_eq
    rcases hgt : getText data (i + 1) with ⟨text, index, handled⟩
    simp only [hgt] at hh ⊢
    subst hh
    obtain ⟨restT, ht1, ht2⟩ := getText_spec hgt
    have hne : data[index]? ≠ some '(' := by
      intro hc
      rw [noPair_iff] at hp
      have hdata : data = (data.take (i + 1) ++ text) ++ ']' :: restT := by
        rw [List.append_assoc, ← ht1, List.take_append_drop]
      have hrest : data.drop index = restT := by
        rw [ht2, show i + 1 + text.length + 1 = (i + 1) + (text.length + 1) by omega, ← List.drop_drop, ht1]
        simp
      have : restT.head? = some '(' := by
        rw [← hrest, List.head?_drop]; exact hc
      cases restT with
      | nil => simp at this
      | cons x r =>
        simp at this; subst this
        exact hp _ _ hdata
    unfold getLinkRaw
    simp [hne]
  · unfold linkHandle
    simp only
    have : (getText data (i + 1)).2.2 = false := by simpa using hh
    rcases hgt : getText data (i + 1) with ⟨text, index, handled⟩
    simp only [hgt] at this
    subst this
    simp


/-! ### `linkScan` -/

theorem linkScan_cons (cfg : Cfg) (stash : List StashItem) (pi : Nat) (data : Str) (prev : Option Char) (ch : Char)
    (r : Str) (i : Nat) :
    linkScan cfg stash pi data prev (ch :: r) i =
      match (if (pi = 4 || pi = 5 || pi = 7) then
               (if ch = '!' && r.head? == some '[' then linkHandle cfg stash pi data i (i + 2) else none)
             else (if ch = '[' && prev != some '!' then linkHandle cfg stash pi data i (i + 1) else none)) with
      | some f => some f
      | none => linkScan cfg stash pi data (some ch) r (i + 1) := rfl

/-- without `![` the image patterns do not match -/
theorem linkScan_image_none (cfg : Cfg) (stash : List StashItem) {pi : Nat} (hpi : pi = 4 ∨ pi = 5 ∨ pi = 7)
    (data : Str) : ∀ (suf : Str) (prev : Option Char) (i : Nat), NoPair '!' '[' suf →
      linkScan cfg stash pi data prev suf i = none := by
  intro suf
  induction suf with
  | nil => intro prev i _; rfl
  | cons ch r ih =>
    intro prev i hp
    rw [linkScan_cons]
    have him : (pi = 4 || pi = 5 || pi = 7) = true := by rcases hpi with rfl | rfl | rfl <;> rfl
    have hno : (ch = '!' && r.head? == some '[') = false := by
      cases hc : (decide (ch = '!') && r.head? == some '[') with
      | false => rfl
      | true =>
        simp only [Bool.and_eq_true, decide_eq_true_eq, beq_iff_eq] at hc
        obtain ⟨rfl, hr⟩ := hc
        cases r with
        | nil => simp at hr
        | cons x r' =>
          simp at hr; subst hr
          rw [noPair_iff] at hp
          exact absurd rfl (hp [] r')
    simp only [him, if_true, hno, Bool.false_eq_true, if_false]
    exact ih _ _ (hp.infix ⟨[ch], [], by simp⟩)

theorem linkScan_inline_none (cfg : Cfg) (stash : List StashItem) {data : Str} (hp : NoPair ']' '(' data) :
    ∀ (suf : Str) (prev : Option Char) (i : Nat), linkScan cfg stash 3 data prev suf i = none := by
  intro suf
  induction suf with
  | nil => intro prev i; rfl
  | cons ch r ih =>
    intro prev i
    rw [linkScan_cons]
    have him : ((3 : Nat) = 4 || (3 : Nat) = 5 || (3 : Nat) = 7) = false := by decide
    simp only [him, Bool.false_eq_true, if_false, linkHandle_inline_none cfg stash hp i]
    have : (if (ch = '[' && prev != some '!') = true then (none : Option Found) else none) = none := by split <;> rfl
    rw [this]
    exact ih _ _

theorem linkScan_ref_some (cfg : Cfg) (stash : List StashItem) {pi : Nat} (hpi : pi = 2 ∨ pi = 6) (data : Str) :
    ∀ (suf : Str) (prev : Option Char) (i : Nat) (f : Found), data.drop i = suf →
      linkScan cfg stash pi data prev suf i = some f →
      ∃ j t, data.drop j = '[' :: t ∧ linkHandle cfg stash pi data j (j + 1) = some f := by
  intro suf
  induction suf with
  | nil => intro prev i f _ h; simp [linkScan] at h
  | cons ch r ih =>
    intro prev i f hdrop h
    rw [linkScan_cons] at h
    have him : (pi = 4 || pi = 5 || pi = 7) = false := by rcases hpi with rfl | rfl <;> rfl
    simp only [him, Bool.false_eq_true, if_false] at h
    have hnext : data.drop (i + 1) = r := by
      have := congrArg (List.drop 1) hdrop
      simpa [List.drop_drop, Nat.add_comm] using this
    by_cases hc : (ch = '[' && prev != some '!') = true
    · rw [if_pos hc] at h
      simp only [Bool.and_eq_true, decide_eq_true_eq] at hc
      cases hl : linkHandle cfg stash pi data i (i + 1) with
      | some f' =>
        simp only [hl, Option.some.injEq] at h
        subst h
        exact ⟨i, r, by rw [hdrop, hc.1], hl⟩
      | none =>
        simp only [hl] at h
        exact ih _ _ _ hnext h
    · rw [if_neg hc] at h
      exact ih _ _ _ hnext h


end MdVerif.NoCtl
