/-
Lemmas for `Props/C02Big.lean`, sections 8 and 11 (fenced_code) WITHOUT the restriction to sources without `&`:
`HtmlBlockPreprocessor` on a `<`-free text (`Extract.extract`) re-spells character references — `&#38x` comes back as
`&#38;x` — and that keeps "every raw-HTML placeholder is a block of its own" (`NoCtlF.OwnBlock`).

* `InsR`, `extract_insR` — the output is the input with `;` inserted only immediately behind `&#` + a non-empty run of
  hexadecimal digits / `x` (c10x's `Ins`/`extract_ins` with the place of the insertion recorded);
* `ownBlock_ins` — one such insertion keeps `OwnBlock`: the `;` lands neither inside a placeholder (no `&` there) nor
  inside or next to the blank line around one (the character before it is a digit);
* `ownBlock_extract`.
Core Lean only.
-/
import MdVerif.Lemmas.PipelineXInertPrep
import MdVerif.Spec.F.OwnBlock

namespace MdVerif.C02BigAmp
open Py Extract
open MdVerif.NoCtl (STX ETX)
open MdVerif.NoCtlF (nn BeforeTok AfterTok OwnBlock)

/-- the characters between `&#` and the end of a character reference -/
def RefCh (c : Char) : Bool := isHexDigit c || c == 'x' || c == 'X'

/-- `o` is `s` with `;` inserted behind some `&#` + reference characters -/
inductive InsR : Str → Str → Prop
  | nil : InsR [] []
  | cons (c : Char) {s o : Str} : InsR s o → InsR (c :: s) (c :: o)
  | ref (ds : Str) {s o : Str} : ds ≠ [] → (∀ c ∈ ds, RefCh c = true) → InsR s o →
      InsR ('&' :: '#' :: (ds ++ s)) ('&' :: '#' :: (ds ++ ';' :: o))

theorem InsR.refl : ∀ (s : Str), InsR s s
  | [] => .nil
  | c :: s => .cons c (InsR.refl s)

theorem InsR.append {a a' b b' : Str} (h1 : InsR a a') (h2 : InsR b b') : InsR (a ++ b) (a' ++ b') := by
  induction h1 with
  | nil => exact h2
  | cons c _ ih => exact .cons c ih
  | ref ds hne hds _ ih =>
    have := InsR.ref ds hne hds ih
    simpa [List.append_assoc] using this

/-! ### `Extract.goahead` -/

theorem refCh_of_digit {c : Char} (h : isAsciiDigit c = true) : RefCh c = true := by
  simp [RefCh, isHexDigit, h]

theorem refCh_of_hex {c : Char} (h : isHexDigit c = true) : RefCh c = true := by
  simp [RefCh, h]

theorem mem_take_span (p : Char → Bool) : ∀ (l : Str), ∀ c ∈ l.take (spanLen p l), p c = true := by
  intro l
  induction l with
  | nil => intro c hc; simp at hc
  | cons x l ih =>
    intro c hc
    simp only [spanLen] at hc
    split at hc
    · next hx =>
      simp only [List.take_succ_cons, List.mem_cons] at hc
      rcases hc with rfl | hc
      · exact hx
      · exact ih c hc
    · simp at hc

theorem span_le (p : Char → Bool) : ∀ (l : Str), spanLen p l ≤ l.length := by
  intro l
  induction l with
  | nil => simp [spanLen]
  | cons x l ih =>
    simp only [spanLen]
    split
    · simp only [List.length_cons]; omega
    · omega

/-- a character reference: `&#` + a non-empty run of reference characters + the terminator -/
theorem charrefAt_spec {s : Str} {en : Nat} (h : charrefAt s = some en) :
    ∃ ds, ds ≠ [] ∧ (∀ c ∈ ds, RefCh c = true) ∧ s.take (en - 1) = '&' :: '#' :: ds ∧ 3 ≤ en := by
  cases s with
  | nil => simp [charrefAt] at h
  | cons a s =>
    cases s with
    | nil => simp [charrefAt] at h
    | cons b r =>
      simp only [charrefAt] at h
      split at h
      · next hab =>
        simp only [Bool.and_eq_true, decide_eq_true_eq] at hab
        obtain ⟨rfl, rfl⟩ := hab
        split at h
        · next hq =>
          simp only [Bool.and_eq_true, decide_eq_true_eq] at hq
          injection h with h; subst h
          refine ⟨r.take (spanLen isAsciiDigit r), ?_, ?_, ?_, by omega⟩
          · intro he
            have := congrArg List.length he
            have hle := span_le isAsciiDigit r
            simp only [List.length_take, List.length_nil] at this
            omega
          · intro c hc; exact refCh_of_digit (mem_take_span _ _ c hc)
          · simp [show spanLen isAsciiDigit r + 3 - 1 = spanLen isAsciiDigit r + 1 + 1 by omega]
        · cases r with
          | nil => cases h
          | cons x r2 =>
            simp only at h
            split at h
            · next hx =>
              split at h
              · next hk =>
                simp only [Bool.and_eq_true, decide_eq_true_eq] at hk
                injection h with h; subst h
                refine ⟨x :: r2.take (spanLen isHexDigit r2), by simp, ?_, ?_, by omega⟩
                · intro c hc
                  rcases List.mem_cons.1 hc with rfl | hc
                  · simp only [Bool.or_eq_true, decide_eq_true_eq] at hx
                    rcases hx with rfl | rfl <;> decide
                  · exact refCh_of_hex (mem_take_span _ _ c hc)
                · simp [show spanLen isHexDigit r2 + 4 - 1 = spanLen isHexDigit r2 + 1 + 1 + 1 by omega]
              · cases h
            · cases h
      · cases h

theorem goahead_insR (e : Bool) : ∀ (f : Nat) (s : Str), ∃ consumed, s = consumed ++ (goahead e f s).2 ∧
    InsR consumed (goahead e f s).1 := by
  intro f
  induction f with
  | zero => intro s; exact ⟨[], by simp [goahead], by simp [goahead]; exact InsR.nil⟩
  | succ f ih =>
    intro s
    cases s with
    | nil => exact ⟨[], by simp [goahead], by simp [goahead]; exact InsR.nil⟩
    | cons c r =>
      simp only [goahead]
      by_cases hc : (c != '&') = true
      · simp only [hc, if_true]
        obtain ⟨cons', h1, h2⟩ := ih r
        exact ⟨c :: cons', by simp [← h1], .cons c h2⟩
      · simp only [hc, Bool.false_eq_true, if_false]
        have hleave : ∀ (out rem pre : Str), c :: r = pre ++ rem → InsR pre out →
            ∃ consumed, c :: r = consumed ++ (leave e out rem).2 ∧ InsR consumed (leave e out rem).1 := by
          intro out rem pre hs hi
          simp only [leave]
          cases e with
          | true => exact ⟨pre ++ rem, by simp [hs], by simpa using InsR.append hi (InsR.refl rem)⟩
          | false => exact ⟨pre, by simpa using hs, by simpa using hi⟩
        by_cases hsw : startsWith r ['#'] = true
        · -- `&#`
          simp only [hsw, if_true]
          split
          · rename_i en hen
            obtain ⟨ds, hne, hds, htake, hen3⟩ := charrefAt_spec hen
            have hslice : Extract.slice (c :: r) 2 (en - 1) = ds := by
              have : Extract.slice (c :: r) 2 (en - 1) = ((c :: r).take (en - 1)).drop 2 := by
                rw [Extract.slice, List.drop_take]
              rw [this, htake]; rfl
            rw [hslice]
            generalize hk : (if (c :: r)[en - 1]? == some ';' then en else en - 1) = k
            obtain ⟨cons', h1, h2⟩ := ih ((c :: r).drop k)
            refine ⟨(c :: r).take k ++ cons', ?_, ?_⟩
            · rw [List.append_assoc, ← h1, List.take_append_drop]
            · split at hk
              · rename_i hsemi
                -- the terminator is `;`: nothing is inserted
                subst hk
                have hlt : en - 1 < (c :: r).length := by
                  rcases List.getElem?_eq_some_iff.mp (by simpa using hsemi) with ⟨hl, _⟩
                  exact hl
                have : (c :: r).take en = '&' :: '#' :: (ds ++ [';']) := by
                  have h1' : en = (en - 1) + 1 := by omega
                  conv => lhs; rw [h1']
                  rw [List.take_succ_eq_append_getElem hlt, htake]
                  rcases List.getElem?_eq_some_iff.mp (by simpa using hsemi) with ⟨_, he⟩
                  rw [he]; rfl
                rw [this]
                have := InsR.append (InsR.refl ('&' :: '#' :: (ds ++ [';']))) h2
                simpa [List.append_assoc] using this
              · subst hk
                rw [htake]
                have := InsR.ref ds hne hds h2
                simpa using this
          · split
            · exact hleave ['&', '#'] ((c :: r).drop 2) ((c :: r).take 2) (List.take_append_drop 2 _).symm
                (by
                  have : (c :: r).take 2 = ['&', '#'] := by
                    have hc' : c = '&' := by simpa using hc
                    cases r with
                    | nil => simp [startsWith] at hsw
                    | cons h r' =>
                      simp only [startsWith, Bool.and_eq_true, decide_eq_true_eq] at hsw
                      simp [hc', hsw.1]
                  rw [this]; exact InsR.refl _)
            · exact hleave [] (c :: r) [] (by simp) InsR.nil
        · simp only [hsw, Bool.false_eq_true, if_false]
          split
          · rename_i en hen
            obtain ⟨cons', h1, h2⟩ := ih ((c :: r).drop en)
            refine ⟨(c :: r).take en ++ cons', ?_, InsR.append (InsR.refl _) h2⟩
            rw [List.append_assoc, ← h1, List.take_append_drop]
          · split
            · exact hleave [] (c :: r) [] (by simp) InsR.nil
            · obtain ⟨cons', h1, h2⟩ := ih r
              have hc' : c = '&' := by simpa using hc
              exact ⟨c :: cons', by simp [← h1], hc' ▸ .cons '&' h2⟩

/-- **`HtmlBlockPreprocessor` on a `<`-free text inserts `;` behind `&#` + reference characters only** -/
theorem extract_insR (s : Str) : InsR s (Extract.extract s) := by
  simp only [Extract.extract]
  obtain ⟨c1, h1, i1⟩ := goahead_insR false (s.length + 1) s
  obtain ⟨c2, h2, i2⟩ := goahead_insR true ((Extract.goahead false (s.length + 1) s).2.length + 1)
    (Extract.goahead false (s.length + 1) s).2
  have : s = c1 ++ (c2 ++ (Extract.goahead true ((Extract.goahead false (s.length + 1) s).2.length + 1)
      (Extract.goahead false (s.length + 1) s).2).2) := by rw [← h2, ← h1]
  conv => lhs; rw [this]
  rw [List.append_assoc]
  exact InsR.append i1 (InsR.append i2 (InsR.refl _))

/-! ### one insertion keeps `OwnBlock` -/

theorem amp_not_mem_placeholder (n : Nat) : '&' ∉ Fenced.placeholder n := by
  intro hm
  have := PipelineX.placeholder_chars n '&' hm
  revert this; decide

theorem refCh_ne_nl {c : Char} (h : RefCh c = true) : c ≠ '\n' := by
  rintro rfl; revert h; decide

theorem refCh_ne_stx {c : Char} (h : RefCh c = true) : c ≠ STX := by
  rintro rfl; revert h; decide

/-- a blank line at the end of `X ++ y` lies in `y` when `X` does not end with a line feed -/
theorem nn_suffix_right {X y : Str} (hX : ∃ t c, X = t ++ [c] ∧ c ≠ '\n') (h : nn <:+ X ++ y) : nn <:+ y := by
  obtain ⟨t, c, rfl, hc⟩ := hX
  match y, h with
  | [], h =>
    exfalso
    obtain ⟨p, hp⟩ := h
    have : p ++ ['\n'] ++ ['\n'] = t ++ [c] := by simpa [nn] using hp
    have h2 := (List.append_inj' this rfl).2
    simp only [List.cons.injEq, and_true] at h2
    exact hc h2.symm
  | [a], h =>
    exfalso
    obtain ⟨p, hp⟩ := h
    have h1 : (p ++ ['\n']) ++ ['\n'] = (t ++ [c]) ++ [a] := by simpa [nn] using hp
    have h2 := (List.append_inj' h1 rfl).1
    have h3 := (List.append_inj' h2 rfl).2
    simp only [List.cons.injEq, and_true] at h3
    exact hc h3.symm
  | a :: b :: y', h =>
    exact List.suffix_of_suffix_length_le h (List.suffix_append _ _) (by simp [nn])

/-- a blank line at the start of `z ++ '&' :: rest` lies in `z` -/
theorem nn_prefix_left {z rest : Str} (h : nn <+: z ++ '&' :: rest) : nn <+: z := by
  match z, h with
  | [], h =>
    exfalso
    obtain ⟨p, hp⟩ := h
    simp only [nn, List.cons_append, List.nil_append, List.cons.injEq] at hp
    exact absurd hp.1 (by decide)
  | [a], h =>
    exfalso
    obtain ⟨p, hp⟩ := h
    simp only [nn, List.cons_append, List.nil_append, List.cons.injEq] at hp
    exact absurd hp.2.1 (by decide)
  | a :: b :: z', h =>
    exact List.prefix_of_prefix_length_le h (List.prefix_append _ _) (by simp [nn])

/-- **one insertion of `;` behind `&#` + reference characters keeps "every placeholder is a block of its own"** -/
theorem ownBlock_ins {h : Nat} {Y ds o : Str} (hne : ds ≠ []) (hds : ∀ c ∈ ds, RefCh c = true)
    (ho : OwnBlock h (Y ++ '&' :: '#' :: (ds ++ o))) : OwnBlock h (Y ++ '&' :: '#' :: (ds ++ ';' :: o)) := by
  -- `X` is everything in front of the insertion
  obtain ⟨dt, dc, rfl⟩ : ∃ dt dc, ds = dt ++ [dc] := ⟨ds.dropLast, ds.getLast hne, (List.dropLast_concat_getLast hne).symm⟩
  have hdc : RefCh dc = true := hds dc (by simp)
  generalize hA : '&' :: '#' :: (dt ++ [dc]) = A at *
  have hAX : ∀ t : Str, Y ++ '&' :: '#' :: ((dt ++ [dc]) ++ t) = (Y ++ A) ++ t := by
    intro t; rw [← hA]; simp
  rw [hAX] at ho ⊢
  have hlast : ∃ t c, Y ++ A = t ++ [c] ∧ c ≠ '\n' :=
    ⟨Y ++ '&' :: '#' :: dt, dc, by rw [← hA]; simp, refCh_ne_nl hdc⟩
  have hAstx : STX ∉ A := by
    rw [← hA]
    intro hm
    simp only [List.mem_cons, List.mem_append, List.not_mem_nil, or_false] at hm
    rcases hm with hm | hm | hm | hm
    · revert hm; decide
    · revert hm; decide
    · exact refCh_ne_stx (hds _ (by simp [hm])) rfl
    · exact refCh_ne_stx hdc hm.symm
  have hAamp : ∃ a, A = '&' :: a := ⟨_, hA.symm⟩
  -- a part of `X` behind an STX ends with `A`
  have hF2 : ∀ u x2, Y ++ A = u ++ STX :: x2 → ∃ x2', x2 = x2' ++ A := by
    intro u x2 e
    rcases List.append_eq_append_iff.1 e with ⟨z, _, hz2⟩ | ⟨z, _, hz2⟩
    · exact absurd (hz2 ▸ List.mem_append_right z List.mem_cons_self) hAstx
    · cases z with
      | nil =>
        exfalso
        simp only [List.nil_append] at hz2
        exact hAstx (hz2 ▸ List.mem_cons_self)
      | cons z0 z' =>
        simp only [List.cons_append, List.cons.injEq] at hz2
        exact ⟨z', hz2.2⟩
  refine ⟨?_, ?_⟩
  · intro u w e
    rcases List.append_eq_append_iff.1 e with ⟨y, hy1, hy2⟩ | ⟨y, hy1, hy2⟩
    · -- the STX lies behind the insertion
      cases y with
      | nil => simp only [List.nil_append, List.cons.injEq] at hy2; exact absurd hy2.1 (by decide)
      | cons y0 y' =>
        simp only [List.cons_append, List.cons.injEq] at hy2
        obtain ⟨rfl, rfl⟩ := hy2
        obtain ⟨n, r, hn, hph, hbef, haft⟩ := ho.1 ((Y ++ A) ++ y') w (by simp)
        refine ⟨n, r, hn, hph, ?_, haft⟩
        rw [hy1]
        have hsuf : nn <:+ (Y ++ A) ++ y' := by
          obtain ⟨t, c, ht, _⟩ := hlast
          rcases hbef with h0 | h0 | h0
          · rw [ht] at h0; simp at h0
          · exfalso
            rw [ht] at h0
            have := congrArg List.length h0
            cases t with
            | nil =>
              simp only [List.nil_append] at ht
              have := congrArg List.length ht
              rw [← hA] at this
              simp at this
              omega
            | cons t0 t' => simp at this
          · exact h0
        obtain ⟨p, hp⟩ := nn_suffix_right hlast hsuf
        exact .inr (.inr ⟨(Y ++ A) ++ ';' :: p, by rw [← hp]; simp⟩)
    · -- the STX lies in front of the insertion
      cases y with
      | nil => simp only [List.nil_append, List.cons.injEq] at hy2; exact absurd hy2.1 (by decide)
      | cons y0 y' =>
        simp only [List.cons_append, List.cons.injEq] at hy2
        obtain ⟨rfl, rfl⟩ := hy2
        obtain ⟨x2', rfl⟩ := hF2 u y' hy1
        obtain ⟨n, r, hn, hph, hbef, haft⟩ := ho.1 u ((x2' ++ A) ++ o) (by rw [hy1]; simp)
        -- the placeholder ends in front of `A`
        obtain ⟨z, hz1, hz2⟩ : ∃ z, STX :: x2' = Fenced.placeholder n ++ z ∧ r = z ++ (A ++ o) := by
          have e3 : (STX :: x2') ++ (A ++ o) = Fenced.placeholder n ++ r := by rw [← hph]; simp
          rcases List.append_eq_append_iff.1 e3 with ⟨z, hz1, hz2⟩ | ⟨z, hz1, hz2⟩
          · cases z with
            | nil => exact ⟨[], by simpa using hz1.symm, by simpa using hz2.symm⟩
            | cons z0 z' =>
              exfalso
              obtain ⟨a, ha⟩ := hAamp
              rw [ha] at hz2
              simp only [List.cons_append, List.cons.injEq] at hz2
              apply amp_not_mem_placeholder n
              rw [hz1, ← hz2.1]; simp
          · exact ⟨z, hz1, hz2⟩
        refine ⟨n, z ++ (A ++ ';' :: o), hn, ?_, hbef, ?_⟩
        · have : STX :: ((x2' ++ A) ++ ';' :: o) = (STX :: x2') ++ (A ++ ';' :: o) := by simp
          rw [this, hz1]; simp
        · obtain ⟨a, ha⟩ := hAamp
          rcases haft with h0 | h0 | h0
          · rw [hz2, ha] at h0; simp at h0
          · exfalso
            rw [hz2, ha] at h0
            have := congrArg List.length h0
            rw [← hA] at ha
            simp only [List.cons.injEq, true_and] at ha
            rw [← ha] at this
            simp at this
            omega
          · rw [hz2, ha] at h0
            have h0' : nn <+: z ++ '&' :: (a ++ o) := by simpa using h0
            obtain ⟨q, hq⟩ := nn_prefix_left h0'
            exact .inr (.inr ⟨q ++ (A ++ ';' :: o), by rw [← hq]; simp⟩)
  · intro u w e
    rcases List.append_eq_append_iff.1 e with ⟨y, hy1, hy2⟩ | ⟨y, hy1, hy2⟩
    · cases y with
      | nil => simp only [List.nil_append, List.cons.injEq] at hy2; exact absurd hy2.1 (by decide)
      | cons y0 y' =>
        simp only [List.cons_append, List.cons.injEq] at hy2
        obtain ⟨rfl, rfl⟩ := hy2
        obtain ⟨n, u', hn, hq⟩ := ho.2 ((Y ++ A) ++ y') w (by simp)
        have hq' : (Y ++ A) ++ (y' ++ [ETX]) = u' ++ Fenced.placeholder n := by rw [← hq]; simp
        rcases List.append_eq_append_iff.1 hq' with ⟨z, hz1, hz2⟩ | ⟨z, hz1, hz2⟩
        · exact ⟨n, (Y ++ A) ++ ';' :: z, hn, by rw [hy1]; simp [hz2]⟩
        · cases z with
          | nil =>
            simp only [List.nil_append] at hz2
            exact ⟨n, (Y ++ A) ++ [';'], hn, by rw [hy1, hz2]; simp⟩
          | cons z0 z' =>
            exfalso
            obtain ⟨w', hw'⟩ : ∃ w', Fenced.placeholder n = STX :: w' := ⟨_, rfl⟩
            rw [hw'] at hz2
            simp only [List.cons_append, List.cons.injEq] at hz2
            obtain ⟨rfl, hz3⟩ := hz2
            obtain ⟨x2', hx2⟩ := hF2 u' z' hz1
            obtain ⟨a, ha⟩ := hAamp
            apply amp_not_mem_placeholder n
            rw [hw', hz3, hx2, ha]; simp
    · cases y with
      | nil => simp only [List.nil_append, List.cons.injEq] at hy2; exact absurd hy2.1 (by decide)
      | cons y0 y' =>
        simp only [List.cons_append, List.cons.injEq] at hy2
        obtain ⟨rfl, rfl⟩ := hy2
        exact ho.2 u (y' ++ o) (by rw [hy1]; simp)

theorem ownBlock_insR {h : Nat} {s o : Str} (hi : InsR s o) : ∀ L : Str, OwnBlock h (L ++ s) → OwnBlock h (L ++ o) := by
  induction hi with
  | nil => intro L hL; exact hL
  | cons c _ ih =>
    intro L hL
    have := ih (L ++ [c]) (by simpa using hL)
    simpa using this
  | ref ds hne hds _ ih =>
    intro L hL
    have h1 := ih (L ++ '&' :: '#' :: ds) (by simpa using hL)
    exact ownBlock_ins hne hds (by simpa using h1)

/-- **`HtmlBlockPreprocessor` keeps "every raw-HTML placeholder is a block of its own"** (`<`-free text) -/
theorem ownBlock_extract {h : Nat} {s : Str} (ho : OwnBlock h s) : OwnBlock h (Extract.extract s) := by
  have := ownBlock_insR (extract_insR s) [] (by simpa using ho)
  simpa using this

end MdVerif.C02BigAmp
