/-
Units at text level (C04): constructs that, at a line start, the tokenizer consumes as ONE `handle_empty_tag(text, True)`
call -- comments, processing instructions, `<!DOCTYPE …>`, `<hr>`, self-closing block tags -- and the extractor
state after a document `p1 ¶ unit ¶ p2` (`extract_unit_state`).  Core Lean only.
-/
import MdVerif.Lemmas.HtmlTokDoc

namespace MdVerif.HtmlTok
open Py Extract HtmlFrag
set_option linter.unusedSimpArgs false
set_option linter.unnecessarySimpa false

/-! ### units: comments, processing instructions, declarations, `<hr>` as blocks of their own -/

/-- a construct that, at a line start, is consumed as ONE `handle_empty_tag(text, is_block=True)` call:
    `ev bf` is the event it fires when the blank-line look-ahead answers `bf` -/
structure Unit where
  text : Str
  ev : Bool → Event

structure Unit.OK (u : Unit) : Prop where
  /-- it starts with `<` -/
  head : ∃ r, u.text = '<' :: r
  /-- one loop iteration at a line start -/
  go : ∀ (raw : Str) (f : Nat) (k : Str) (pos : Pos) (ex : ExSt), atLineStart raw pos = true →
    go1 raw (f + 1) (u.text ++ k) pos ex =
      consEvs [u.ev (look raw pos u.text)] (go1 raw f k (updatePos pos u.text) (step ex (u.ev (look raw pos u.text))))
  /-- the callback is `handle_empty_tag(text, True)` at a line start -/
  step : ∀ (st : ExSt) (bf : Bool), Extract.step st (u.ev bf) = handleEmpty st u.text true true bf

theorem endsWith_append_self (a b : Str) : endsWith (a ++ b) b = true := by
  simp [endsWith, List.reverse_append]

/-- the extractor state after a document `p1 ¶ unit ¶ p2` -/
theorem extract_unit_state (u : Unit) (hu : u.OK) (p1 p2 : Str) (hp1 : plainOk p1 = true) (hp2 : plainOk p2 = true) :
    extractText (p1 ++ nn ++ u.text ++ nn ++ p2) =
      some { cleandoc := [p1 ++ nn, placeholder 0, nn, nn ++ p2], stash := [u.text ++ ['\n']] } := by
  obtain ⟨r, hr⟩ := hu.head
  have ht1 : (Tok.text (p1 ++ nn)).ok = true := plain_text_ok _ (plain_append_nn p1 hp1).1 (by simp [nn])
  have ht2 : (Tok.text (nn ++ p2)).ok = true := plain_text_ok _ (plain_append_nn p2 hp2).2 (by simp [nn])
  generalize hdoc : p1 ++ nn ++ u.text ++ nn ++ p2 = doc
  have hsplit : doc = (p1 ++ nn) ++ (u.text ++ (nn ++ p2)) := by rw [← hdoc]; simp
  have hlen : (p1 ++ nn).length + 1 + 1 + 1 ≤ doc.length + 1 := by
    rw [hsplit, hr]; simp [nn]; omega
  obtain ⟨f, hf⟩ : ∃ f, doc.length + 1 = (((f + 1) + 1) + 1) + 1 := ⟨doc.length - 3, by
    rw [hsplit, hr] at *; simp [nn] at *; omega⟩
  -- first the paragraph text
  have hd1 : Delim (u.text ++ (nn ++ p2)) := by intro c hc; rw [hr] at hc; simp at hc; exact Or.inl hc.symm
  have h1 := go1_tok doc ((f + 1) + 1 + 1) (.text (p1 ++ nn)) (u.text ++ (nn ++ p2)) (posOf []) init ht1 (fun _ => hd1)
  have hals : atLineStart doc (posOf ([] ++ (p1 ++ nn))) = true := by
    have : ([] : Str) ++ (p1 ++ nn) = (p1 ++ ['\n']) ++ ['\n'] := by simp [nn]
    rw [this]; exact atLineStart_after_nl doc _
  have hpos1 : updatePos (posOf []) (Tok.text (p1 ++ nn)).render = posOf ([] ++ (p1 ++ nn)) := posOf_append [] _
  have h2 := hu.go doc ((f + 1) + 1) (nn ++ p2) (posOf ([] ++ (p1 ++ nn)))
    (step init (tokEvent doc (posOf []) (.text (p1 ++ nn)))) hals
  have hlook : look doc (posOf ([] ++ (p1 ++ nn))) u.text = true := by
    have : doc = ([] ++ (p1 ++ nn)) ++ (u.text ++ (nn ++ p2)) := by rw [hsplit]; simp
    rw [this, look_posOf, blankLine_nn]
  have hd3 : Delim ([] : Str) := by intro c hc; simp at hc
  have h3 := go1_tok doc (f + 1) (.text (nn ++ p2)) [] (updatePos (posOf ([] ++ (p1 ++ nn))) u.text)
    (step (step init (tokEvent doc (posOf []) (.text (p1 ++ nn)))) (u.ev true)) ht2 (fun _ => hd3)
  have hgo : go1 doc (doc.length + 1) doc {} init = some ([.data (p1 ++ nn), u.ev true, .data (nn ++ p2)],
      runFrom init [.data (p1 ++ nn), u.ev true, .data (nn ++ p2)], []) := by
    have e : go1 doc (doc.length + 1) doc {} init =
        go1 doc ((f + 1) + 1 + 1 + 1) ((Tok.text (p1 ++ nn)).render ++ (u.text ++ (nn ++ p2))) (posOf []) init := by
      rw [hf]; congr 1
    rw [e, h1, hpos1, h2, hlook]
    simp only [List.append_nil, Tok.render] at h3
    rw [h3]
    simp [go1, consEvs, tokEvent, runFrom]
  have hev : events doc = some ([.data (p1 ++ nn), u.ev true, .data (nn ++ p2)] ++ [.close []]) := by
    unfold events
    rw [hgo]
    simp [go2]
  unfold extractText
  rw [hev]
  simp only [Option.map_some, Option.some.injEq]
  unfold runEvents
  simp only [List.cons_append, List.nil_append, runFrom, List.foldl_cons, List.foldl_nil]
  rw [hu.step]
  have hnn : needsNewline [p1 ++ ['\n', '\n']] = false := by
    simp [needsNewline, endsWith_append_self]
  simp [step, handleData, handleEmpty, handleClose, init, hnn, storeAppend, nn]

/-! #### comments, `<hr>`, self-closing block tags -/

def commentUnit (c : Str) : Unit :=
  { text := (Tok.comment c).render, ev := fun bf => .empty (Tok.comment c).render true true bf }

theorem commentUnit_ok (c : Str) (hc : Py.contains c ['-', '-'] = false) : (commentUnit c).OK where
  head := ⟨_, rfl⟩
  go := by
    intro raw f k pos ex hals
    have := go1_tok raw f (.comment c) k pos ex (by simpa [Tok.ok] using hc) (by intro h; cases h)
    simpa [commentUnit, tokEvent, hals] using this
  step := by intro st bf; rfl

/-- a start tag whose name is `hr` (any case, any attributes): `handle_starttag` passes it to `handle_startendtag` -/
def hrUnit (name : Str) (attrs : List Attr) (trail : Str) : Unit :=
  { text := (Tok.open_ name attrs trail).render
    ev := fun bf => .start (lower name) (Tok.open_ name attrs trail).render true true true bf }

theorem hrUnit_ok (name : Str) (attrs : List Attr) (trail : Str) (hok : (Tok.open_ name attrs trail).ok = true)
    (hhr : lower name = hrTag) : (hrUnit name attrs trail).OK where
  head := ⟨_, rfl⟩
  go := by
    intro raw f k pos ex hals
    have := go1_tok raw f (.open_ name attrs trail) k pos ex hok (by intro h; cases h)
    have hb : isBlockLevelTag ['h', 'r'] = true := by decide
    have hh : (lower name = ['h', 'r']) := hhr
    simpa [hrUnit, tokEvent, tagEvent, hals, hb, hh] using this
  step := by intro st bf; simp [hrUnit, Extract.step, handleStart]

/-- a self-closing tag with a block-level name: `<hr />`, `<div/>`, … -/
def selfCloseUnit (name : Str) (attrs : List Attr) (trail : Str) : Unit :=
  { text := (Tok.selfClose name attrs trail).render
    ev := fun bf => .empty (Tok.selfClose name attrs trail).render true true bf }

theorem selfCloseUnit_ok (name : Str) (attrs : List Attr) (trail : Str)
    (hok : (Tok.selfClose name attrs trail).ok = true) (hb : isBlockLevelTag (lower name) = true) :
    (selfCloseUnit name attrs trail).OK where
  head := ⟨_, rfl⟩
  go := by
    intro raw f k pos ex hals
    have := go1_tok raw f (.selfClose name attrs trail) k pos ex hok (by intro h; cases h)
    simpa [selfCloseUnit, tokEvent, tagEvent, hals, hb] using this
  step := by intro st bf; rfl


/-! #### processing instructions and `<!DOCTYPE …>` -/

/-- first occurrence of a two-character pattern `xy` (`x ≠ y`) behind a text that does not contain it -/
theorem find_two (x y : Char) (hxy : x ≠ y) (b k : Str) (hb : Py.contains b [x, y] = false) :
    find [x, y] (b ++ x :: y :: k) = some b.length := by
  induction b with
  | nil => simp [find_cons]
  | cons c b ih =>
    obtain ⟨h1, h2⟩ := contains_cons_eq_false hb
    have hs : startsWith (c :: (b ++ x :: y :: k)) [x, y] = false := by
      cases b with
      | nil =>
        simp only [List.nil_append, startsWith_cons_cons, startsWith_nil, Bool.and_true]
        simp [hxy]
      | cons d b' =>
        simp only [List.cons_append, startsWith_cons_cons, startsWith_nil, Bool.and_true] at h1 ⊢
        exact h1
    rw [List.cons_append, find_cons, if_neg (by rw [hs]; simp), ih h2]
    simp

def piUnit (b : Str) : Unit :=
  { text := '<' :: '?' :: b ++ ['?', '>'], ev := fun bf => .empty ('<' :: '?' :: b ++ ['?', '>']) true true bf }

theorem piUnit_ok (b : Str) (hb : Py.contains b ['?', '>'] = false) : (piUnit b).OK where
  head := ⟨_, rfl⟩
  go := by
    intro raw f k pos ex hals
    have hfind : findStr ['?', '>'] ('<' :: '?' :: (b ++ '?' :: '>' :: k)) 2 = some (b.length + 2) := by
      simp [findStr, find_two '?' '>' (by decide) b k hb]
    have hsl : slice ('<' :: '?' :: (b ++ '?' :: '>' :: k)) 2 (b.length + 2) = b := by
      simp [slice]
    have hp : parseLt ((piUnit b).text ++ k) (atLineStart raw pos) (look raw pos) ex.intail =
        .ok (piUnit b).text.length [(piUnit b).ev (look raw pos (piUnit b).text)] := by
      have e : (piUnit b).text ++ k = '<' :: '?' :: (b ++ '?' :: '>' :: k) := by simp [piUnit]
      rw [e]
      simp only [parseLt, show isAsciiAlpha '?' = false by decide, Bool.false_eq_true, if_false,
        show ('?' = '/') = False by decide, cmtOpen, startsWith_cons_cons, show decide ('?' = '!') = false by decide,
        Bool.false_and, Bool.and_false, if_true, parsePi, hals, Bool.true_or, Bool.not_true, hfind, hsl]
      simp [piUnit]
    have := go1_lt raw f (piUnit b).text k pos ex [(piUnit b).ev (look raw pos (piUnit b).text)] '?'
      (b ++ '?' :: '>' :: k) (by simp [piUnit]) hp rfl
    simpa [runFrom] using this
  step := by intro st bf; rfl

/-- `<!DOCTYPE` or `<!doctype` -/
def doctypeOpen (upper : Bool) : Str := if upper then "<!DOCTYPE".toList else "<!doctype".toList

def doctypeUnit (upper : Bool) (b : Str) : Unit :=
  { text := doctypeOpen upper ++ b ++ ['>'], ev := fun bf => .empty (doctypeOpen upper ++ b ++ ['>']) true true bf }

theorem doctypeUnit_ok (upper : Bool) (b : Str) (hb : b.contains '>' = false) : (doctypeUnit upper b).OK where
  head := by cases upper <;> exact ⟨_, rfl⟩
  go := by
    intro raw f k pos ex hals
    obtain ⟨d, hd, hlen, hlow⟩ : ∃ d : Str, doctypeOpen upper = '<' :: '!' :: d ∧ d.length = 7 ∧
        lower ('<' :: '!' :: d) = doctypeLit ∧ True := by
      cases upper
      · exact ⟨"doctype".toList, rfl, rfl, by decide, trivial⟩
      · exact ⟨"DOCTYPE".toList, rfl, rfl, by decide, trivial⟩
    have hd0 : ∃ c0 d', d = c0 :: d' ∧ c0 ≠ '-' ∧ c0 ≠ '[' ∧ isAsciiAlpha '!' = false := by
      cases upper
      · simp [doctypeOpen] at hd; subst hd; exact ⟨'d', _, rfl, by decide, by decide, by decide⟩
      · simp [doctypeOpen] at hd; subst hd; exact ⟨'D', _, rfl, by decide, by decide, by decide⟩
    obtain ⟨c0, d', hd', hc1, hc2, _⟩ := hd0
    have e : (doctypeUnit upper b).text ++ k = '<' :: '!' :: (d ++ (b ++ '>' :: k)) := by
      simp [doctypeUnit, hd]
    have htake : List.take 9 ('<' :: '!' :: (d ++ (b ++ '>' :: k))) = '<' :: '!' :: d := by
      have := take_len_add ('<' :: '!' :: d) (b ++ '>' :: k) 0
      rw [show ('<' :: '!' :: d).length + 0 = 9 by simp [hlen]] at this
      simpa using this
    have hall : b.all (· != '>') = true := by
      simp only [List.all_eq_true]; intro x hx
      simp only [List.contains_eq_mem, decide_eq_false_iff_not] at hb
      simp; rintro rfl; exact hb hx
    have hfind : findChar '>' ('<' :: '!' :: (d ++ (b ++ '>' :: k))) 9 = some (9 + b.length) := by
      have hdrop : List.drop 9 ('<' :: '!' :: (d ++ (b ++ '>' :: k))) = b ++ '>' :: k := by
        have := drop_len_add ('<' :: '!' :: d) (b ++ '>' :: k) 0
        rw [show ('<' :: '!' :: d).length + 0 = 9 by simp [hlen]] at this
        simpa using this
      have hs : spanLen (· != '>') (b ++ '>' :: k) = b.length :=
        spanLen_stop hall (by intro x hx; simp at hx; subst hx; simp)
      simp [findChar, hdrop, hs]
    have hsl : slice ('<' :: '!' :: (d ++ (b ++ '>' :: k))) 2 (9 + b.length) = d ++ b := by
      unfold slice
      simp only [List.drop_succ_cons, List.drop_zero]
      have := take_len_add (d ++ b) ('>' :: k) 0
      rw [show 9 + b.length - 2 = (d ++ b).length + 0 by simp [hlen]; omega]
      simpa using this
    have hp : parseLt ((doctypeUnit upper b).text ++ k) (atLineStart raw pos) (look raw pos) ex.intail =
        .ok (doctypeUnit upper b).text.length [(doctypeUnit upper b).ev (look raw pos (doctypeUnit upper b).text)] := by
      rw [e]
      have hcm : startsWith ('<' :: '!' :: (d ++ (b ++ '>' :: k))) cmtOpen = false := by
        rw [hd']; simp [cmtOpen, hc1]
      have hms : startsWith ('<' :: '!' :: (d ++ (b ++ '>' :: k))) ['<', '!', '['] = false := by
        rw [hd']; simp [hc2]
      simp only [parseLt, show isAsciiAlpha '!' = false by decide, Bool.false_eq_true, if_false,
        show ('!' = '/') = False by decide, hcm, show ('!' = '?') = False by decide, if_true, parseDecl, hals,
        Bool.true_or, Bool.not_true, hms, htake, hlow, hfind, hsl]
      simp [doctypeUnit, hd, hlen]; omega
    have := go1_lt raw f (doctypeUnit upper b).text k pos ex
      [(doctypeUnit upper b).ev (look raw pos (doctypeUnit upper b).text)] '!' (d ++ (b ++ '>' :: k)) e hp rfl
    simpa [runFrom] using this
  step := by intro st bf; rfl

end MdVerif.HtmlTok
