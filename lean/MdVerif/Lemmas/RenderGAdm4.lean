/-
Helper lemmas for `Props/C16RenderG.lean`, part 15: an admonition whose body has several paragraphs, followed by
ordinary paragraphs — `convertX` end to end.

Core Lean only.
-/
import MdVerif.Lemmas.RenderGAdm3

namespace MdVerif.RenderG
open Py Block BlockExt MdVerif.RenderX

theorem mem_pText (p : Para) (hp : ParaOK p) {c : Char} (hc : c ∈ pText p) : c = '\n' ∨ DocSpec.isAlnumSp c = true :=
  mem_joinLines_plain hp hc

theorem pText_facts (p : Para) (hp : ParaOK p) :
    TreeProc.STX ∉ pText p ∧ Ser.escCdata (pText p) = pText p ∧ Post.STX ∉ pText p := by
  have hch : ∀ c ∈ pText p, c ≠ Inline.STX ∧ c ≠ '&' ∧ c ≠ '<' ∧ c ≠ '>' := by
    intro c hc
    rcases mem_pText p hp hc with rfl | h
    · decide
    · have f := alnumSp_quiet h
      exact ⟨f.2.2.1, f.2.2.2.1, f.2.2.2.2.1, f.2.2.2.2.2.1⟩
  exact ⟨fun hm => (hch _ hm).1 rfl, CodeLaw.escCdata_plain _ (fun c hc => (hch c hc).2), fun hm => (hch _ hm).1 rfl⟩

theorem noFnDiv_admDoc (kl : Str) (ttl : Option Str) (texts : List Str) (qs : List Para) :
    noFnDiv (rootOf (admDivG kl ttl texts :: pNodes qs)) = true := by
  have hcls : ¬ strAdmonition ++ ' ' :: kl = ['f', 'o', 'o', 't', 'n', 'o', 't', 'e'] := by
    have hsa : strAdmonition = 'a' :: "dmonition".toList := by decide +kernel
    rw [hsa]
    intro e
    simp only [List.cons_append, List.cons.injEq] at e
    exact absurd e.1 (by decide)
  have h1 : noFnDivKids (titleKids ttl) = true := by
    unfold titleKids
    split
    · simp [titleNode, noFnDivKids, noFnDiv, mkText, Node.el]
    · rfl
  have h2 : noFnDivKids (texts.map (mkText "p")) = true := noFnKids_txt "p" texts
  have h3 : noFnDivKids (pNodes qs) = true := by
    have := noFnKids_txt "p" (qs.map pText)
    simpa [pNodes, Function.comp_def] using this
  have hD : noFnDiv (admDivG kl ttl texts) = true := by
    rw [admDivG_eq]
    simp only [noFnDiv, noFnKids_append, h1, h2, Bool.and_self, Bool.and_true]
    simp [strClass, hcls]
  simp only [rootOf, Node.el, noFnDiv, noFnDivKids, hD, h3, Bool.and_self, Bool.and_true]
  simp

theorem stx_psHtmlAfter (ts : List Str) (h : ∀ t ∈ ts, Post.STX ∉ t) : Post.STX ∉ psHtmlAfter ts := by
  have s1 : Post.STX ∉ lP1 := by decide +kernel
  have s2 : Post.STX ∉ lP2 := by decide +kernel
  induction ts with
  | nil => simp [psHtmlAfter]
  | cons t r ih =>
    unfold psHtmlAfter
    intro hm
    rcases List.mem_cons.1 hm with hm | hm
    · exact absurd hm (by decide)
    · exact stx_app (stx_app (stx_app s1 (h t List.mem_cons_self)) s2) (ih (fun x hx => h x (List.mem_cons_of_mem _ hx))) hm

theorem stx_psHtml (ts : List Str) (h : ∀ t ∈ ts, Post.STX ∉ t) : Post.STX ∉ psHtml ts := by
  have s1 : Post.STX ∉ lP1 := by decide +kernel
  have s2 : Post.STX ∉ lP2 := by decide +kernel
  induction ts with
  | nil => simp [psHtml]
  | cons t r ih =>
    unfold psHtml
    refine stx_app (stx_app (stx_app s1 (h t List.mem_cons_self)) s2) ?_
    intro hm
    rcases List.mem_cons.1 hm with hm | hm
    · exact absurd hm (by decide)
    · exact ih (fun x hx => h x (List.mem_cons_of_mem _ hx)) hm

theorem stx_admOutG (kl : Str) (ttl : Option Str) (texts qtexts : List Str) (hk : Post.STX ∉ kl)
    (ht : Post.STX ∉ ttl.getD []) (hb : ∀ t ∈ texts, Post.STX ∉ t) (hq : ∀ t ∈ qtexts, Post.STX ∉ t) :
    Post.STX ∉ admOutG kl ttl texts qtexts := by
  have s1 : Post.STX ∉ lV1 := by decide +kernel
  have s2 : Post.STX ∉ lV2 := by decide +kernel
  have s3 : Post.STX ∉ lV3 := by decide +kernel
  have s4 : Post.STX ∉ lT1 := by decide +kernel
  have s5 : Post.STX ∉ lP2 := by decide +kernel
  have hT : Post.STX ∉ titleHtml ttl := by
    unfold titleHtml
    split
    · exact stx_app (stx_app (stx_app s4 ht) s5) (by decide)
    · simp
  unfold admOutG admHtml
  exact stx_app (stx_app (stx_app (stx_app (stx_app (stx_app s1 hk) s2) hT) (stx_psHtml texts hb)) s3)
    (stx_psHtmlAfter qtexts hq)

theorem admOutG_ends (kl : Str) (ttl : Option Str) (texts qtexts : List Str) :
    (admOutG kl ttl texts qtexts).head? = some '<' ∧ (admOutG kl ttl texts qtexts).getLast? = some '>' := by
  have h1 : ∃ r, lV1 = '<' :: r := ⟨"div class=\"admonition ".toList, by decide +kernel⟩
  have h2 : ∃ r, lV3 = r ++ ['>'] := ⟨"</div".toList, by decide +kernel⟩
  have h3 : ∃ r, lP2 = r ++ ['>'] := ⟨"</p".toList, by decide +kernel⟩
  obtain ⟨r1, e1⟩ := h1
  obtain ⟨r2, e2⟩ := h2
  obtain ⟨r3, e3⟩ := h3
  constructor
  · unfold admOutG admHtml
    rw [e1]; simp
  · have hlast : ∀ (ts : List Str) (X : Str), X.getLast? = some '>' → (X ++ psHtmlAfter ts).getLast? = some '>' := by
      intro ts
      induction ts with
      | nil => intro X hX; simpa [psHtmlAfter] using hX
      | cons t r ih =>
        intro X hX
        have : X ++ psHtmlAfter (t :: r) = (X ++ ('\n' :: lP1 ++ t ++ lP2)) ++ psHtmlAfter r := by
          simp [psHtmlAfter, List.append_assoc]
        rw [this]
        apply ih
        rw [e3, ← List.append_assoc, ← List.append_assoc, List.getLast?_append]
        simp
    unfold admOutG
    apply hlast
    unfold admHtml
    rw [e2, ← List.append_assoc, List.getLast?_append]
    simp

theorem convertX_admG (x : PipelineX.Exts) (hadm : x.admonition = true) (hnl : x.nl2br = false)
    (hf : x.fencedCode = false) (htb : x.tables = false) (hal : x.attrList = false) (htoc : x.toc = false)
    (cfg : Pipeline.Cfg) (hbl : cfg.blockLevel = TreeProc.defaultBlockLevel) (htab : 0 < cfg.tab)
    (kl : Str) (title ttl : Option Str) (b : Para) (bs qs : List Para) (hk : PlainFacts kl)
    (ht : ∀ t, title = some t → ∀ c ∈ t, DocSpec.isAlnumSp c = true)
    (httl : ∀ c ∈ ttl.getD [], DocSpec.isAlnumSp c = true)
    (hb : ParaOK b) (hbs : ∀ p ∈ bs, ParaOK p) (hqs : ∀ p ∈ qs, ParaOK p)
    (hcl : admClassTitle kl title = (kl, ttl)) :
    PipelineX.convertX x cfg (admSrcG cfg.tab kl title b bs qs) =
      .ok (admOutG kl ttl (pText b :: bs.map pText) (qs.map pText)) := by
  have ht' : ∀ t, title = some t → ∀ c ∈ t, c ≠ '\n' ∧ c ≠ '"' := by
    intro t h c hc
    have f := alnumSp_quiet (ht t h c hc)
    exact ⟨f.2.1, f.2.2.2.2.2.2.1⟩
  -- the front
  have hblocks : ∀ bl ∈ admBlockLines cfg.tab kl title b bs qs, bl ≠ [] := by
    intro bl hbl'
    simp only [admBlockLines, List.mem_cons, List.mem_append, List.mem_map] at hbl'
    rcases hbl' with rfl | ⟨p, _, rfl⟩ | ⟨p, _, rfl⟩ <;> simp [CodeLaw.indentLines, pLines]
  obtain ⟨s1, s2, s3, s4, s5⟩ := front_lines cfg.tab (chunkLines (admBlockLines cfg.tab kl title b bs qs))
    (chunkLines_ne _ _ (by simp))
    (by
      intro l hl
      rcases mem_chunkLines _ l hl with rfl | ⟨bl, hbl', hlb⟩
      · exact safeLine_nil
      · simp only [admBlockLines, List.mem_cons, List.mem_append, List.mem_map] at hbl'
        rcases hbl' with rfl | ⟨p, hp, rfl⟩ | ⟨p, hp, rfl⟩
        · rcases List.mem_cons.1 hlb with rfl | hlb
          · exact safeLine_header kl title hk ht
          · obtain ⟨y, hy, rfl⟩ := List.mem_map.1 hlb
            exact safeLine_indent cfg.tab y (hb y hy)
        · obtain ⟨y, hy, rfl⟩ := List.mem_map.1 hlb
          exact safeLine_indent cfg.tab y (hbs p hp y hy)
        · exact (hqs p hp l hlb).safeLine)
    ⟨'!', by
      rw [← joinChunks_joinLines _ hblocks, ← admSrcG_blocks]
      have : ∀ (L : Str) (r : List Str), '!' ∈ L → '!' ∈ DocParse.joinChunks (L :: r) := by
        intro L r h
        cases r with
        | nil => simpa [DocParse.joinChunks] using h
        | cons y ys => simp [DocParse.joinChunks, h]
      apply this
      rw [show admSrc cfg.tab kl title (pLines b) = admSrc cfg.tab kl title (b.1 :: b.2) from rfl, admSrc_eq]
      simp [admHeader], by decide⟩
  rw [← joinChunks_joinLines _ hblocks, ← admSrcG_blocks] at s1 s2 s3 s4 s5
  rw [show DocParse.joinChunks (admSrc cfg.tab kl title (pLines b) :: (bs.map (bodyBlock cfg.tab) ++ qs.map pText)) =
    admSrcG cfg.tab kl title b bs qs from rfl] at s1 s2 s3 s4 s5
  -- the block stage
  have hblk := parseDocumentXT_admG x.blockCfg (by simpa [PipelineX.Exts.blockCfg] using hadm) cfg.tab htab kl title ttl
    b bs qs hk ht' hb hbs hqs hcl
  -- the inline stage
  have hps : ∀ p ∈ b :: bs, ParaOK p := by
    intro p hp
    rcases List.mem_cons.1 hp with rfl | hp
    · exact hb
    · exact hbs p hp
  have hquiet := quietKids_admDoc kl ttl (b :: bs) qs httl hps hqs
  rw [show (b :: bs).map pText = pText b :: bs.map pText from rfl] at hquiet
  have hrun := fun (ic : Inline.Cfg) (keys : List Str) =>
    runX_quiet { cfg := ic, table := InlineX.table x.footnotes x.wikilinks false, fnKeys := keys } false
      (fun hm => nl_mem_table _ _ false hm) (Nat.le_trans (by decide) (table_length _ _ false)) _ [] hquiet
  -- the tree stages
  have hpre := prettify_admG kl ttl (pText b) (bs.map pText) (qs.map pText)
  rw [show (qs.map pText).map (mkText "p") = pNodes qs by simp [pNodes]] at hpre
  have hkstx : TreeProc.STX ∉ kl := fun hm => (alnumSp_quiet (hk.chars _ hm)).2.2.1 rfl
  have htstx : TreeProc.STX ∉ ttl.getD [] := fun hm => (alnumSp_quiet (httl _ hm)).2.2.1 rfl
  have hbtexts : ∀ t ∈ pText b :: bs.map pText, TreeProc.STX ∉ t ∧ Ser.escCdata t = t ∧ Post.STX ∉ t := by
    intro t htm
    rcases List.mem_cons.1 htm with rfl | htm
    · exact pText_facts b hb
    · obtain ⟨p, hp, rfl⟩ := List.mem_map.1 htm
      exact pText_facts p (hbs p hp)
  have hqtexts : ∀ t ∈ qs.map pText, TreeProc.STX ∉ t ∧ Ser.escCdata t = t ∧ Post.STX ∉ t := by
    intro t htm
    obtain ⟨p, hp, rfl⟩ := List.mem_map.1 htm
    exact pText_facts p (hqs p hp)
  have hun := unescapeTree_admG kl ttl (pText b :: bs.map pText) (qs.map pText) hkstx htstx
    (fun t h => (hbtexts t h).1) (fun t h => (hqtexts t h).1)
  have hser := serialize_admG cfg.fmt kl ttl (pText b :: bs.map pText) (qs.map pText)
    (fun c hc => let f := alnumSp_quiet (hk.chars c hc); ⟨f.2.2.2.1, f.2.2.2.2.1, f.2.2.2.2.2.1, f.2.2.2.2.2.2.1⟩)
    (CodeLaw.escCdata_plain _ (fun c hc => let f := alnumSp_quiet (httl c hc); ⟨f.2.2.2.1, f.2.2.2.2.1, f.2.2.2.2.2.1⟩))
    (fun t h => (hbtexts t h).2.1) (fun t h => (hqtexts t h).2.1)
  have hJ := stx_admOutG kl ttl (pText b :: bs.map pText) (qs.map pText) hkstx htstx
    (fun t h => (hbtexts t h).2.2) (fun t h => (hqtexts t h).2.2)
  obtain ⟨e1, e2⟩ := admOutG_ends kl ttl (pText b :: bs.map pText) (qs.map pText)
  have hfin := finishX_wrapped' x cfg (admOutG kl ttl (pText b :: bs.map pText) (qs.map pText)) hJ
    (fun c hc => by rw [e1] at hc; cases hc; decide)
    (fun c hc => by rw [e2] at hc; cases hc; decide)
  have hfo : BlockExt.footnotesOf [] = [] := rfl
  have hab : BlockExt.abbrsOf [] = [] := rfl
  have hmk : ∀ p fc, FootnotesTree.makeDiv p fc [] [] = .ok (none, []) := fun _ _ => rfl
  have habbr : ∀ t, AbbrTree.run [] t = t := fun _ => rfl
  have hdup := fun fn => duplicates_noFn fn _ (noFnDiv_admDoc kl ttl (pText b :: bs.map pText) qs)
  simp only [PipelineX.convertX, s1, s2, PipelineX.Exts.unsupported, Bool.false_eq_true, if_false,
    PipelineX.treeX, PipelineX.prepareX, s3, s4, s5, Bool.and_false, hf, htb, hblk, hfo, hmk, hnl, hal, htoc]
  cases hfn : x.footnotes <;> cases hab' : x.abbr <;>
    simp only [hfn, hab', Bool.false_eq_true, if_false, if_true, List.map_nil, PipelineX.refsX, Bool.or_self,
      Bool.or_true, Bool.or_false, Bool.true_or, BlockExt.refsOf, List.filter_nil, PipelineX.escX, htb, Bool.false_and] <;>
    (rw [hfn] at hrun; rw [hrun]; simp only [hdup, hbl, hpre, hab, habbr, hun, hser]; exact hfin)

end MdVerif.RenderG
