/-
Helper lemmas for `Props/C16RenderG.lean`, part 29: footnotes with references in several paragraphs — the inline tree
processor over the paragraphs (the stash and the reference bookkeeping are threaded from one paragraph to the next).

Core Lean only.
-/
import MdVerif.Lemmas.RenderGMP1

namespace MdVerif.RenderG
open Py Block BlockExt MdVerif.RenderX Inline InlineX

/-- the paragraphs after the inline stage, the stash entries they make, the bookkeeping after them -/
def procPs (keys : List Str) : List FPara → Footnotes.State → List Node × List StashItem × Footnotes.State
  | [], fs => ([], [], fs)
  | p :: r, fs =>
    let it := refItems keys p.2 fs
    let rest := procPs keys r it.2
    ({ mkText "p" p.1 with children := supKids it.1 } :: rest.1, it.1.map (fun i => .node i.1) ++ rest.2.1, rest.2.2)

/-- the visit of one paragraph -/
def stepP (keys : List Str) (p : FPara) (v : VisitX) : VisitX :=
  { done := { mkText "p" p.1 with children := supKids (refItems keys p.2 v.x.fn).1 } :: v.done,
    posmap := (v.done.length, v.done.length) :: v.posmap,
    pushes := ((List.range p.2.length).map (fun k => [v.done.length, k])).reverse ++ v.pushes,
    x := { st := { v.x.st with stash := v.x.st.stash ++ (refItems keys p.2 v.x.fn).1.map (fun i => .node i.1) },
           fn := (refItems keys p.2 v.x.fn).2 } }

def vps (keys : List Str) : List FPara → VisitX → VisitX
  | [], v => v
  | p :: r, v => vps keys r (stepP keys p v)

theorem withIdx_append (A B : List Node) (i : Nat) : withIdx (A ++ B) i = withIdx A i ++ withIdx B (i + A.length) := by
  induction A generalizing i with
  | nil => simp [withIdx]
  | cons a r ih => simp only [List.cons_append, withIdx, ih, List.length_cons]; rw [show i + 1 + r.length = i + (r.length + 1) by omega]

/-- the child loop over the paragraphs -/
theorem visitLoopX_ps (ic : Inline.Cfg) (T : List PatK) (nlb : Bool) (hT : FnTab T nlb) (keys : List Str) :
    ∀ (ps : List FPara) (v : VisitX) (g : Nat) (REST : List (Node × Option Nat)),
      (∀ p ∈ ps, FParaOK p ∧ ∀ s ∈ p.2, keys.contains s.1 = true) →
      visitLoopX (fnXcG ic T keys) (g + ps.length) (withIdx (ps.map (fun p => mkText "p" (fpLine p))) v.done.length ++ REST) v =
        visitLoopX (fnXcG ic T keys) g REST (vps keys ps v) := by
  intro ps
  induction ps with
  | nil => intro v g REST _; rfl
  | cons p r ih =>
    intro v g REST hp
    obtain ⟨hq, hk⟩ := hp p List.mem_cons_self
    have h1 := visitChildX_refs ic T nlb hT keys p.1 p.2 hq.text hq.segs hk v
    rw [show g + (p :: r).length = (g + r.length) + 1 by simp; omega]
    simp only [List.map_cons, withIdx, List.cons_append, visitLoopX]
    rw [show fpLine p = fnPara p.1 p.2 from rfl, h1]
    simp only [List.map_nil, List.nil_append]
    have hih := ih (stepP keys p v) g REST (fun x hx => hp x (List.mem_cons_of_mem _ hx))
    rw [show (stepP keys p v).done.length = v.done.length + 1 by simp [stepP]] at hih
    rw [vps, ← hih]
    rfl

theorem vps_done (keys : List Str) : ∀ (ps : List FPara) (v : VisitX),
    (vps keys ps v).done.reverse = v.done.reverse ++ (procPs keys ps v.x.fn).1 ∧
    (vps keys ps v).x = { st := { v.x.st with stash := v.x.st.stash ++ (procPs keys ps v.x.fn).2.1 },
                          fn := (procPs keys ps v.x.fn).2.2 } := by
  intro ps
  induction ps with
  | nil => intro v; simp [vps, procPs, st_stash_nil]
  | cons p r ih =>
    intro v
    obtain ⟨h1, h2⟩ := ih (stepP keys p v)
    refine ⟨?_, ?_⟩
    · rw [vps, h1]; simp [stepP, procPs]
    · rw [vps, h2]; simp [stepP, procPs, List.append_assoc]

/-- a `sup` element with its tail, of bounded size -/
def GoodSup (B : Nat) (c : Node) : Prop :=
  (∃ refId id n u, c = withTail (supG refId id (natToDec n)) u) ∧ Inline.size c ≤ B

theorem goodSup_facts (nlb : Bool) {B : Nat} {c : Node} (h : GoodSup B c) :
    quietKids nlb c.children = true ∧ CodeLaw.below c = 1 := by
  obtain ⟨⟨refId, id, n, u, rfl⟩, _⟩ := h
  refine ⟨by rw [withTail_children]; exact quietKids_supG nlb refId id n, ?_⟩
  rw [below_withTail]
  simp [supG, CodeLaw.below, CodeLaw.belowKids]

/-- what the pushed paths lead to -/
theorem vps_pushes (keys : List Str) (B : Nat) : ∀ (ps : List FPara) (v : VisitX),
    (∀ p ∈ ps, FParaOK p ∧ (refSegs p.2).length + keys.length + 4 ≤ B) →
    ∀ q ∈ (vps keys ps v).pushes, q ∈ v.pushes ∨
      ∃ i k P c, q = [i, k] ∧ ((vps keys ps v).done.reverse)[i]? = some P ∧ P.children[k]? = some c ∧ GoodSup B c := by
  intro ps
  induction ps with
  | nil => intro v _ q hq; exact Or.inl hq
  | cons p r ih =>
    intro v hp q hq
    obtain ⟨hpo, hpB⟩ := hp p List.mem_cons_self
    rcases ih (stepP keys p v) (fun x hx => hp x (List.mem_cons_of_mem _ hx)) q hq with h | h
    · simp only [stepP, List.mem_append, List.mem_reverse, List.mem_map, List.mem_range] at h
      rcases h with ⟨k, hk, rfl⟩ | h
      · right
        have hd := (vps_done keys r (stepP keys p v)).1
        have hI := itemsOK_refItems keys p.2 v.x.fn hpo.segs
        have hlen := refItems_length keys p.2 v.x.fn
        obtain ⟨it, hit⟩ : ∃ it, (refItems keys p.2 v.x.fn).1[k]? = some it := by
          cases hx : (refItems keys p.2 v.x.fn).1[k]? with
          | none => rw [List.getElem?_eq_none_iff] at hx; omega
          | some it => exact ⟨it, rfl⟩
        refine ⟨v.done.length, k, { mkText "p" p.1 with children := supKids (refItems keys p.2 v.x.fn).1 },
          withTail it.1 it.2, rfl, ?_, ?_, ?_⟩
        · rw [vps, hd]
          simp [stepP]
        · simp [supKids, hit]
        · obtain ⟨refId, id, n, e⟩ := hI.sup it (List.mem_of_getElem? hit)
          refine ⟨⟨refId, id, n, it.2, by rw [e]⟩, ?_⟩
          have := size_refItems keys p.2 v.x.fn it (List.mem_of_getElem? hit)
          omega
      · exact Or.inl h
    · exact Or.inr h

theorem vps_pushes_length (keys : List Str) : ∀ (ps : List FPara) (v : VisitX),
    (vps keys ps v).pushes.length = v.pushes.length + (ps.map (fun p => p.2.length)).sum := by
  intro ps
  induction ps with
  | nil => intro v; simp [vps]
  | cons p r ih =>
    intro v
    rw [vps, ih]
    simp [stepP]
    omega

theorem vps_done_length (keys : List Str) : ∀ (ps : List FPara) (v : VisitX),
    (vps keys ps v).done.length = v.done.length + ps.length := by
  intro ps
  induction ps with
  | nil => intro v; simp [vps]
  | cons p r ih => intro v; rw [vps, ih]; simp [stepP]; omega

theorem mStack_const (root : Node) (qs : List Path) (h : ∀ q ∈ qs, CodeLaw.wPath root q = 2) :
    CodeLaw.mStack root qs = 2 * qs.length := by
  induction qs with
  | nil => simp [CodeLaw.mStack]
  | cons q r ih =>
    rw [CodeLaw.mStack_cons, h q List.mem_cons_self, ih (fun x hx => h x (List.mem_cons_of_mem _ hx))]
    simp only [List.length_cons]; omega

end MdVerif.RenderG
