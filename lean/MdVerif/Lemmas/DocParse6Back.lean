/-
Helper lemmas for C01 with inline images (`Props/C01i.lean`): the stages after the pattern loop on a line
`C₀ ![alt₁](d₁) C₁ … ![altₘ](dₘ) Cₘ` (definitions in `Lemmas/DocParse6Def.lean`) — where the pieces are in the stash,
`__processPlaceholders`, the element through the inline processor, prettify, unescape, the serializer; the element
as an `Elem` (`iElem`, `iElem_ok`).  The pattern loop itself is a hypothesis (`LoopOK`).  Mirrors
`Lemmas/RefTextStash.lean`, `RefTextPP.lean`, `RefTextRun.lean`, `RefTextBack.lean`, `RefTextInlDoc.lean`,
`DocParse5.lean` §7.  Core Lean only.
-/
import MdVerif.Lemmas.DocParse6Def

set_option linter.unusedSimpArgs false

namespace MdVerif.DocImg
open Py Inline Escape DocSpec CodeLaw DocParse Block DocParse2 RefText DocLink

/-! ### 1. where the pieces are in the stash -/

theorem imNodes0_length (us : List MUse) : (imNodes0 us).length = imCnt0 us := by
  induction us with
  | nil => rfl
  | cons u r ih => simp [imNodes0, imCnt0, ih, Chunk.cnt]

theorem imEscStash_length (esc : List Char) (us : List MUse) : (imEscStash esc us).length = imEscs esc us := by
  induction us with
  | nil => rfl
  | cons u r ih => simp [imEscStash, imEscs, ih, Chunk.escStash_length]

theorem outCnt_imOuter (esc : List Char) (k : Nat) (us : List MUse) :
    ∀ (m n0 s : Nat), outCnt k (imOuter esc m n0 s us) = imOutCnt k us := by
  induction us with
  | nil => intro _ _ _; rfl
  | cons u r ih => intro m n0 s; simp [imOuter, outCnt, imOutCnt, ih]

theorem outNodes_imOuter_length (esc : List Char) (k : Nat) (us : List MUse) (m n0 s : Nat) :
    (outNodes k (imOuter esc m n0 s us)).length = imOutCnt k us := by
  rw [outNodes_length, outCnt_imOuter]

theorem outNodes_imOuter_cons (esc : List Char) (k : Nat) (u : MUse) (r : List MUse) (m n0 s : Nat) :
    outNodes k (imOuter esc m n0 s (u :: r)) = nodesOf k u.C.segs ++
      outNodes k (imOuter esc (m + u.C.escs esc) (n0 + u.C.cnt 0) (s + 1) r) := rfl

/-- where the stash holds the pieces of the images: the `<img>` element of each (number `s`), the content after it
    (escapes from `m`, code spans from `n0`, emphases from `n1`, `n2`) -/
def ImAt (esc : List Char) (S : List StashItem) : Nat → Nat → Nat → Nat → Nat → List MUse → Prop
  | _, _, _, _, _, [] => True
  | m, n0, s, n1, n2, u :: r =>
    S[s]? = some (.node (imgNode u)) ∧
    ChunkAt esc S u.C m n0 n1 n2 ∧
    ImAt esc S (m + u.C.escs esc) (n0 + u.C.cnt 0) (s + 1) (n1 + u.C.cnt 1) (n2 + u.C.cnt 2) r

/-- **where the pieces of the images are** in a stash of the shape
    `P0, code spans, P1, escapes, P2, <img> elements, P3, * emphases, P4, _ emphases, E` -/
theorem imAt_layout (esc : List Char) (us : List MUse) :
    ∀ (P0 P1 P2 P3 P4 E : List StashItem) (m n0 s n1 n2 : Nat), n0 = P0.length →
      m = P0.length + imCnt0 us + P1.length → s = m + imEscs esc us + P2.length →
      n1 = s + us.length + P3.length → n2 = n1 + imOutCnt 1 us + P4.length →
      ImAt esc (P0 ++ imNodes0 us ++ P1 ++ imEscStash esc us ++ P2 ++ us.map (fun u => StashItem.node (imgNode u)) ++
        P3 ++ outNodes 1 (imOuter esc m n0 s us) ++ P4 ++ outNodes 2 (imOuter esc m n0 s us) ++ E) m n0 s n1 n2 us := by
  induction us with
  | nil => intro _ _ _ _ _ _ _ _ _ _ _ _ _ _ _ _; trivial
  | cons u r ih =>
    intro P0 P1 P2 P3 P4 E m n0 s n1 n2 h0 hm hs h1 h2
    generalize hS : P0 ++ imNodes0 (u :: r) ++ P1 ++ imEscStash esc (u :: r) ++ P2 ++
      (u :: r).map (fun u => StashItem.node (imgNode u)) ++
      P3 ++ outNodes 1 (imOuter esc m n0 s (u :: r)) ++ P4 ++ outNodes 2 (imOuter esc m n0 s (u :: r)) ++ E = S
    generalize hm' : m + u.C.escs esc = m' at *
    generalize hn0' : n0 + u.C.cnt 0 = n0' at *
    have hO1 := outNodes_imOuter_length esc 1 r m' n0' (s + 1)
    have hO2 := outNodes_imOuter_length esc 2 r m' n0' (s + 1)
    have hN0 := imNodes0_length r
    have hEr := imEscStash_length esc r
    have hEC := Chunk.escStash_length esc u.C
    simp only [imCnt0, imEscs, imOutCnt, List.length_cons] at hm hs h1 h2
    refine ⟨?_, ⟨?_, ?_⟩, ?_⟩
    · -- the `<img>` element
      rw [← hS]
      have hpre : (P0 ++ imNodes0 (u :: r) ++ P1 ++ imEscStash esc (u :: r) ++ P2).length = s := by
        simp only [List.length_append, List.length_cons, List.length_nil, imNodes0_length, imEscStash_length,
          outNodes_imOuter_length, Chunk.escStash_length, cnt_len, imCnt0, imEscs, imOutCnt]; omega
      have hform : P0 ++ imNodes0 (u :: r) ++ P1 ++ imEscStash esc (u :: r) ++ P2 ++
          (u :: r).map (fun u => StashItem.node (imgNode u)) ++
          P3 ++ outNodes 1 (imOuter esc m n0 s (u :: r)) ++ P4 ++ outNodes 2 (imOuter esc m n0 s (u :: r)) ++ E =
          (P0 ++ imNodes0 (u :: r) ++ P1 ++ imEscStash esc (u :: r) ++ P2) ++
          (.node (imgNode u) :: (r.map (fun u => StashItem.node (imgNode u)) ++ P3 ++
            outNodes 1 (imOuter esc m n0 s (u :: r)) ++ P4 ++ outNodes 2 (imOuter esc m n0 s (u :: r)) ++ E)) := by
        simp [List.append_assoc]
      rw [hform, ← hpre, List.getElem?_append_right (Nat.le_refl _)]
      simp
    · -- escapes of the content after the image
      have := escs_at esc u.C (P0 ++ imNodes0 (u :: r) ++ P1)
        (imEscStash esc r ++ P2 ++ (u :: r).map (fun u => StashItem.node (imgNode u)) ++ P3 ++
          outNodes 1 (imOuter esc m n0 s (u :: r)) ++ P4 ++ outNodes 2 (imOuter esc m n0 s (u :: r)) ++ E) m
        (by simp only [List.length_append, List.length_cons, List.length_nil, imNodes0_length, imEscStash_length,
              outNodes_imOuter_length, Chunk.escStash_length, cnt_len, imCnt0, imEscs, imOutCnt]; omega)
      rw [← hS]
      simpa [imEscStash, List.append_assoc] using this
    · -- items of the content after the image
      have := mStash_at u.C.segs P0
        (imNodes0 r ++ P1 ++ imEscStash esc (u :: r) ++ P2 ++ (u :: r).map (fun u => StashItem.node (imgNode u)) ++ P3)
        (outNodes 1 (imOuter esc m' n0' (s + 1) r) ++ P4)
        (outNodes 2 (imOuter esc m' n0' (s + 1) r) ++ E) n0 n1 n2 h0
        (by simp only [List.length_append, List.length_cons, List.length_nil, List.length_map, imNodes0_length,
              imEscStash_length, outNodes_imOuter_length, Chunk.escStash_length, cnt_len, imCnt0, imEscs, imOutCnt]; omega)
        (by simp only [List.length_append, List.length_cons, List.length_nil, List.length_map, imNodes0_length,
              imEscStash_length, outNodes_imOuter_length, Chunk.escStash_length, cnt_len, imCnt0, imEscs, imOutCnt]; omega)
      rw [← hS]
      simpa [imNodes0, outNodes_imOuter_cons, List.append_assoc, hm', hn0'] using this
    · -- the other images
      have := ih (P0 ++ nodesOf 0 u.C.segs) (P1 ++ u.C.escStash esc) (P2 ++ [.node (imgNode u)])
        (P3 ++ nodesOf 1 u.C.segs) (P4 ++ nodesOf 2 u.C.segs) E m' n0' (s + 1) (n1 + u.C.cnt 1) (n2 + u.C.cnt 2)
        (by simp only [List.length_append, List.length_cons, List.length_nil, imNodes0_length, imEscStash_length,
              outNodes_imOuter_length, Chunk.escStash_length, cnt_len, imCnt0, imEscs, imOutCnt]; omega)
        (by simp only [List.length_append, List.length_cons, List.length_nil, imNodes0_length, imEscStash_length,
              outNodes_imOuter_length, Chunk.escStash_length, cnt_len, imCnt0, imEscs, imOutCnt]; omega)
        (by simp only [List.length_append, List.length_cons, List.length_nil, imNodes0_length, imEscStash_length,
              outNodes_imOuter_length, Chunk.escStash_length, cnt_len, imCnt0, imEscs, imOutCnt]; omega)
        (by simp only [List.length_append, List.length_cons, List.length_nil, imNodes0_length, imEscStash_length,
              outNodes_imOuter_length, Chunk.escStash_length, cnt_len, imCnt0, imEscs, imOutCnt]; omega)
        (by simp only [List.length_append, List.length_cons, List.length_nil, imNodes0_length, imEscStash_length,
              outNodes_imOuter_length, Chunk.escStash_length, cnt_len, imCnt0, imEscs, imOutCnt]; omega)
      rw [← hS]
      simpa [imNodes0, imEscStash, outNodes_imOuter_cons, List.append_assoc, hm', hn0'] using this

/-- **where the pieces of the line are** in the stash the pattern loop leaves -/
theorem imAt (esc : List Char) (S0 : List StashItem) (C0 : Chunk) (us : List MUse) :
    ChunkAt esc (S0 ++ imStash esc S0.length C0 us) C0 (mStartM S0.length C0 us) S0.length
        (o1StartM esc S0.length C0 us) (o2StartM esc S0.length C0 us) ∧
    ImAt esc (S0 ++ imStash esc S0.length C0 us) (mStartM S0.length C0 us + C0.escs esc) (S0.length + C0.cnt 0)
        (lStartM esc S0.length C0 us) (o1StartM esc S0.length C0 us + C0.cnt 1) (o2StartM esc S0.length C0 us + C0.cnt 2)
        us := by
  refine ⟨⟨?_, ?_⟩, ?_⟩
  · have := escs_at esc C0 (S0 ++ nodesOf 0 C0.segs ++ imNodes0 us)
      (imEscStash esc us ++ us.map (fun u => StashItem.node (imgNode u)) ++
        (nodesOf 1 C0.segs ++ outNodes 1 (lineOuterM esc S0.length C0 us)) ++
        (nodesOf 2 C0.segs ++ outNodes 2 (lineOuterM esc S0.length C0 us))) (mStartM S0.length C0 us)
      (by simp only [List.length_append, imNodes0_length, cnt_len, mStartM])
    simpa [imStash, List.append_assoc] using this
  · have := mStash_at C0.segs S0 (imNodes0 us ++ C0.escStash esc ++ imEscStash esc us ++
        us.map (fun u => StashItem.node (imgNode u)))
      (outNodes 1 (lineOuterM esc S0.length C0 us)) (outNodes 2 (lineOuterM esc S0.length C0 us)) S0.length
      (o1StartM esc S0.length C0 us) (o2StartM esc S0.length C0 us) rfl
      (by simp only [List.length_append, List.length_map, imNodes0_length, imEscStash_length, Chunk.escStash_length,
            cnt_len, o1StartM, lStartM, mStartM]; try omega)
      (by simp only [List.length_append, List.length_map, imNodes0_length, imEscStash_length, Chunk.escStash_length,
            cnt_len, lineOuterM, outNodes_imOuter_length, o2StartM, o1StartM, lStartM, mStartM]; try omega)
    simpa [imStash, List.append_assoc] using this
  · have := imAt_layout esc us (S0 ++ nodesOf 0 C0.segs) (C0.escStash esc) [] (nodesOf 1 C0.segs) (nodesOf 2 C0.segs) []
      (mStartM S0.length C0 us + C0.escs esc) (S0.length + C0.cnt 0) (lStartM esc S0.length C0 us)
      (o1StartM esc S0.length C0 us + C0.cnt 1) (o2StartM esc S0.length C0 us + C0.cnt 2)
      (by simp only [List.length_append, cnt_len])
      (by simp only [List.length_append, Chunk.escStash_length, cnt_len, mStartM]; try omega)
      (by simp only [List.length_nil, lStartM]; try omega)
      (by simp only [cnt_len, o1StartM]; try omega)
      (by simp only [cnt_len, o2StartM]; try omega)
    simpa [imStash, lineOuterM, List.append_assoc] using this

/-! ### 2. `__processPlaceholders` on the residue of the line -/

/-- the `<img>` element has no text, no tail, no children: `__processPlaceholders` leaves it as it is -/
theorem procNode_img (pp : PP) (u : MUse) : procNode pp (imgNode u) = some (imgNode u) := by
  unfold imgNode
  rw [InlineRef.imgEl_eq]
  unfold procNode
  simp only [petTail, Node.truthy, Bool.false_eq_true, Bool.false_and, if_false]
  unfold petText
  simp [procKids, Node.truthy]

theorem imgNode_tail (u : MUse) : (imgNode u).tail = none ∧ (imgNode u).tailAtomic = false ∧
    (imgNode u).children = [] ∧ (imgNode u).text = none := by
  obtain ⟨e1, e2, _, e4, e5, _⟩ := InlineRef.imgEl_fields u.url (titleOf u.dtitle) u.alt
  exact ⟨e2, e5, e1, e4⟩

/-- the state of the loop after the images -/
def foldI (esc : List Char) : List MUse → List Node × Node → List Node × Node
  | [], rp => rp
  | u :: r, rp => foldI esc r (foldM esc u.C.segs (lt (coded esc u.C.t0) (imgNode u :: rp.1, rp.2)))

def costI (esc : List Char) : List MUse → Nat
  | [] => 1
  | u :: r => 1 + costC esc u.C.t0 u.C.segs + costI esc r

/-- what `__processPlaceholders` needs of the texts: no STX, clean items -/
structure ImPP (u : MUse) : Prop where
  c0 : Inline.STX ∉ u.C.t0
  csegs : ∀ s ∈ u.C.segs, Inline.STX ∉ s.t ∧ s.k.clean

theorem nextOK_imgs (esc : List Char) (S : List StashItem) (f : Nat) (us : List MUse) :
    ∀ (m n0 s n1 n2 g : Nat), ImAt esc S m n0 s n1 n2 us → (∀ u ∈ us, ImPP u) →
      NextOK S (procNode fun d a p i => processPlaceholders S (f + 2) d a p i)
        (outStage esc 3 n1 n2 (imOuter esc m n0 s us)) (g + costI esc us)
        (fun _ st => some ((foldI esc us st).1.reverse, (foldI esc us st).2)) := by
  induction us with
  | nil =>
    intro m n0 s n1 n2 g _ _
    simpa [outStage, imOuter, costI, foldI] using nextOK_end S _ g
  | cons u r ih =>
    intro m n0 s n1 n2 g hat hpp
    obtain ⟨hL, hC, hR⟩ := hat
    have hu := hpp u List.mem_cons_self
    have hKr := ih (m + u.C.escs esc) (n0 + u.C.cnt 0) (s + 1)
      (n1 + u.C.cnt 1) (n2 + u.C.cnt 2) g hR (fun x hx => hpp x (List.mem_cons_of_mem _ hx))
    have himg := procNode_img (fun d a p i => processPlaceholders S (f + 2) d a p i) u
    intro P' B' rp' hB
    have hnode := nextOK_node' S (procNode fun d a p i => processPlaceholders S (f + 2) d a p i)
      (g + costI esc r + costC esc u.C.t0 u.C.segs) s
      (u.C.stage esc 3 true m n0 n1 n2 ++
        outStage esc 3 (n1 + u.C.cnt 1) (n2 + u.C.cnt 2)
          (imOuter esc (m + u.C.escs esc) (n0 + u.C.cnt 0) (s + 1) r))
      _ _ hL himg P' B' rp' hB
    obtain ⟨⟨rest, hdrop⟩, hst⟩ := hC
    have hchunk := ppLoop_chunk_ctx esc S (procNode fun d a p i => processPlaceholders S (f + 2) d a p i)
      (outStage esc 3 (n1 + u.C.cnt 1) (n2 + u.C.cnt 2)
        (imOuter esc (m + u.C.escs esc) (n0 + u.C.cnt 0) (s + 1) r))
      (g + costI esc r) _ hKr u.C.segs (P' ++ B' ++ placeholder s) u.C.t0
      m n0 n1 n2 (imgNode u :: (lt B' rp').1, (lt B' rp').2) rest hu.c0
      (fun x hx => ⟨(hu.csegs x hx).1, procNode_knode S (f + 2) (by omega) x.k (hu.csegs x hx).2⟩) hdrop hst
    simp only [imOuter, outStage, costI, foldI]
    rw [show g + (1 + costC esc u.C.t0 u.C.segs + costI esc r) = (g + costI esc r + costC esc u.C.t0 u.C.segs) + 1
      by omega]
    simp only [Chunk.stage, if_true, List.append_assoc] at hnode hchunk ⊢
    rw [hnode, hchunk]

theorem foldI_closed (esc : List Char) (us : List MUse) :
    ∀ (res : List Node) (par : Node), foldI esc us (res, par) = ((imKids esc us).reverse ++ res, par) := by
  induction us with
  | nil => intro res par; rfl
  | cons u r ih =>
    intro res par
    simp only [foldI, lt_node _ (imgNode u) res par (imgNode_tail u).1 (imgNode_tail u).2.1, foldM_closed, ih, imKids,
      List.reverse_cons, List.reverse_append, List.append_assoc, List.singleton_append]

theorem costI_le (esc : List Char) (us : List MUse) : ∀ (m n0 s n1 n2 : Nat),
    costI esc us ≤ (outStage esc 3 n1 n2 (imOuter esc m n0 s us)).length + 1 := by
  induction us with
  | nil => intro _ _ _ _ _; simp [costI]
  | cons u r ih =>
    intro m n0 s n1 n2
    have h1 := costC_le esc u.C m n0 n1 n2
    have h2 := ih (m + u.C.escs esc) (n0 + u.C.cnt 0) (s + 1) (n1 + u.C.cnt 1) (n2 + u.C.cnt 2)
    have h3 := placeholder_length_pos s
    simp only [costI, imOuter, outStage, List.length_append]
    omega

/-- **`__processPlaceholders` on the residue of the line**: the items of the first content, then for each image its
    `<img>` element and the items of the content after it -/
theorem ppTop_imgLine (esc : List Char) (st : St) (f : Nat) (hf : st.stash.length = f + 1) (C0 : Chunk) (us : List MUse)
    (hne : us ≠ []) (parent : Node) (hp1 : parent.text = none) (hp2 : parent.textAtomic = false)
    (m n0 s n1 n2 : Nat) (h0 : ChunkAt esc st.stash C0 m n0 n1 n2)
    (hus : ImAt esc st.stash (m + C0.escs esc) (n0 + C0.cnt 0) s (n1 + C0.cnt 1) (n2 + C0.cnt 2) us)
    (hc0 : Inline.STX ∉ C0.t0) (hcs : ∀ x ∈ C0.segs, Inline.STX ∉ x.t ∧ x.k.clean) (hpp : ∀ u ∈ us, ImPP u) :
    ppTop st (C0.stage esc 3 true m n0 n1 n2 ++
        outStage esc 3 (n1 + C0.cnt 1) (n2 + C0.cnt 2) (imOuter esc (m + C0.escs esc) (n0 + C0.cnt 0) s us))
      false parent true =
      some (C0.segs.map (tailedM esc) ++ imKids esc us, { parent with text := optStr (coded esc C0.t0) }) := by
  generalize hD : C0.stage esc 3 true m n0 n1 n2 ++
    outStage esc 3 (n1 + C0.cnt 1) (n2 + C0.cnt 2) (imOuter esc (m + C0.escs esc) (n0 + C0.cnt 0) s us) = D
  have hDne : D.isEmpty = false := by
    rw [← hD]
    cases us with
    | nil => exact absurd rfl hne
    | cons u r =>
      have := placeholder_length_pos s
      cases hx : C0.stage esc 3 true m n0 n1 n2 with
      | nil =>
        simp only [imOuter, outStage, List.nil_append]
        cases hy : placeholder s with
        | nil => rw [hy] at this; simp at this
        | cons a b => rfl
      | cons a b => rfl
  have hc1 := costC_le esc C0 m n0 n1 n2
  have hc2 := costI_le esc us (m + C0.escs esc) (n0 + C0.cnt 0) s (n1 + C0.cnt 1) (n2 + C0.cnt 2)
  have hlen : D.length = (C0.stage esc 3 true m n0 n1 n2).length +
      (outStage esc 3 (n1 + C0.cnt 1) (n2 + C0.cnt 2) (imOuter esc (m + C0.escs esc) (n0 + C0.cnt 0) s us)).length := by
    rw [← hD, List.length_append]
  obtain ⟨g, hg⟩ : ∃ g, D.length + 2 = (g + costI esc us) + costC esc C0.t0 C0.segs :=
    ⟨D.length + 2 - (costI esc us + costC esc C0.t0 C0.segs), by omega⟩
  obtain ⟨⟨rest, hdrop⟩, hst⟩ := h0
  have hK := nextOK_imgs esc st.stash f us (m + C0.escs esc) (n0 + C0.cnt 0) s (n1 + C0.cnt 1) (n2 + C0.cnt 2) g hus hpp
  have hloop := ppLoop_chunk_ctx esc st.stash (procNode fun d a p i => processPlaceholders st.stash (f + 2) d a p i)
    _ _ _ hK C0.segs [] C0.t0 m n0 n1 n2 ([], parent) rest hc0
    (fun x hx => ⟨(hcs x hx).1, procNode_knode st.stash (f + 2) (by omega) x.k (hcs x hx).2⟩) hdrop hst
  have hlt : lt (coded esc C0.t0) ([], parent) = ([], { parent with text := optStr (coded esc C0.t0) }) := by
    simp only [lt]; exact CodeLaw.linkText_text _ _ hp1 hp2
  simp only [List.nil_append, List.length_nil, hlt, foldM_closed, foldI_closed] at hloop
  have hD' : resid esc m C0.t0 ++ stageM esc 3 true (m + escCount esc C0.t0) n0 n1 n2 C0.segs ++
      outStage esc 3 (n1 + C0.cnt 1) (n2 + C0.cnt 2) (imOuter esc (m + C0.escs esc) (n0 + C0.cnt 0) s us) = D := by
    rw [← hD]; simp [Chunk.stage]
  rw [hD'] at hloop
  unfold ppTop
  rw [hf, show f + 1 + 2 = (f + 2) + 1 from rfl]
  unfold processPlaceholders
  simp only [hDne, Bool.false_eq_true, if_false, hg, hloop]
  simp

/-! ### 3. the element through `__handleInline` and `__processPlaceholders` -/

theorem imgRaw_ne_nil (esc : List Char) (C0 : Chunk) (us : List MUse) (hne : us ≠ []) : imgRaw esc C0 us ≠ [] := by
  cases us with
  | nil => exact absurd rfl hne
  | cons u r => simp [imgRaw, imStage]

theorem imStash_length_pos (esc : List Char) (s0 : Nat) (C0 : Chunk) (us : List MUse) (hne : us ≠ []) :
    0 < (imStash esc s0 C0 us).length := by
  cases us with
  | nil => exact absurd rfl hne
  | cons u r =>
    simp only [imStash, List.map_cons, List.length_append, List.length_cons]
    omega

theorem imPP_of {esc : List Char} {u : MUse} (h : MUseOK esc u) : ImPP u :=
  ⟨(chunkOK_pp h.after).1, (chunkOK_pp h.after).2⟩

set_option linter.unusedVariables false in
/-- **the element through `__handleInline` and `__processPlaceholders`** (the pattern loop is the hypothesis
    `hloop`; `hE`, `hrb` are kept for the shape of `RefText.visitChild_lineI`) -/
theorem visitChild_imgLine (cfg : Inline.Cfg) (hE : EscOK cfg.esc) (hrb : ']' ∈ cfg.esc) (tg : Str) (C0 : Chunk)
    (us : List MUse) (h0 : ChunkOK cfg.esc C0) (hus : ∀ u ∈ us, MUseOK cfg.esc u) (hne : us ≠ [])
    (hloop : LoopOK cfg C0 us) (v : Visit) :
    visitChild cfg { tag := .name tg, text := some (imgRaw cfg.esc C0 us) } v =
      some (iMid tg cfg.esc C0 us, [],
        { v with pushes := ((List.range (C0.segs.map (tailedM cfg.esc) ++ imKids cfg.esc us).length).map
                    (fun k => [v.done.length, k])).reverse ++ v.pushes,
                 st := { v.st with stash := v.st.stash ++ imStash cfg.esc v.st.stash.length C0 us } }) := by
  have h1 := hloop v.st
  obtain ⟨hat0, hatU⟩ := imAt cfg.esc v.st.stash C0 us
  obtain ⟨f, hf⟩ : ∃ f, (v.st.stash ++ imStash cfg.esc v.st.stash.length C0 us).length = f + 1 := by
    have := imStash_length_pos cfg.esc v.st.stash.length C0 us hne
    exact ⟨(v.st.stash ++ imStash cfg.esc v.st.stash.length C0 us).length - 1, by
      rw [List.length_append]; omega⟩
  have h2 := ppTop_imgLine cfg.esc { v.st with stash := v.st.stash ++ imStash cfg.esc v.st.stash.length C0 us }
    f hf C0 us hne { tag := .name tg, text := none, textAtomic := false }
    rfl rfl (mStartM v.st.stash.length C0 us) v.st.stash.length
    (lStartM cfg.esc v.st.stash.length C0 us)
    (o1StartM cfg.esc v.st.stash.length C0 us) (o2StartM cfg.esc v.st.stash.length C0 us)
    hat0 hatU (chunkOK_pp h0).1 (chunkOK_pp h0).2 (fun u hu => imPP_of (hus u hu))
  have hres : imRes cfg.esc v.st.stash.length C0 us =
      C0.stage cfg.esc 3 true (mStartM v.st.stash.length C0 us) v.st.stash.length
        (o1StartM cfg.esc v.st.stash.length C0 us) (o2StartM cfg.esc v.st.stash.length C0 us) ++
      outStage cfg.esc 3 (o1StartM cfg.esc v.st.stash.length C0 us + C0.cnt 1)
        (o2StartM cfg.esc v.st.stash.length C0 us + C0.cnt 2)
        (imOuter cfg.esc (mStartM v.st.stash.length C0 us + C0.escs cfg.esc) (v.st.stash.length + C0.cnt 0)
          (lStartM cfg.esc v.st.stash.length C0 us) us) := rfl
  rw [← hres] at h2
  have htr := truthy_some (imgRaw_ne_nil cfg.esc C0 us hne)
  simp only [visitChild, htr, Bool.not_false, Bool.and_self, if_true, Option.getD_some, h1]
    at h2 ⊢
  rw [h2]
  simp [iMid, Node.truthy]

/-! ### 4. the tags `p`, `h1` … `h6` -/

/-- the closed facts the later stages need of the tag of the element -/
structure TgOK (tg : Str) : Prop where
  block : TreeProc.isBlockLevel TreeProc.defaultBlockLevel (.name tg) = true
  br : (Tag.name tg == Tag.name "br".toList) = false
  pre : (Tag.name tg == Tag.name "pre".toList) = false
  code : (Tag.name tg == Tag.name "code".toList) = false
  empty : Ser.isEmptyTag tg = false
  raw : Ser.isRawTextTag tg = false
  stx : Post.STX ∉ tg

theorem tgOK_of (tg : Str) (htg : tg ∈ ["p", "h1", "h2", "h3", "h4", "h5", "h6"].map String.toList) : TgOK tg := by
  simp only [List.map_cons, List.map_nil, List.mem_cons, List.not_mem_nil, or_false] at htg
  rcases htg with rfl | rfl | rfl | rfl | rfl | rfl | rfl <;>
    exact ⟨by decide, by decide, by decide, by decide, by decide, by decide, by decide⟩

theorem tg_header (lv : Nat) (h1 : 1 ≤ lv) (h6 : lv ≤ 6) :
    'h' :: natToDec lv ∈ ["p", "h1", "h2", "h3", "h4", "h5", "h6"].map String.toList := by
  have : lv = 1 ∨ lv = 2 ∨ lv = 3 ∨ lv = 4 ∨ lv = 5 ∨ lv = 6 := by omega
  rcases this with rfl | rfl | rfl | rfl | rfl | rfl <;> decide

/-! ### 5. prettify -/

/-- the `<img>` element of an image with the text after the image as tail -/
def iKid (esc : List Char) (u : MUse) : Node := { imgNode u with tail := optStr (coded esc u.C.t0) }

/-- the attributes of the `<img>` element -/
def imgAttrs (u : MUse) : List (Str × Str) :=
  ("src".toList, u.url) ::
    (if Node.truthy (titleOf u.dtitle) then [("title".toList, (titleOf u.dtitle).getD [])] else []) ++
    [("alt".toList, u.alt)]

theorem iKid_eq (esc : List Char) (u : MUse) :
    iKid esc u = ⟨.name "img".toList, imgAttrs u, none, false, [], optStr (coded esc u.C.t0), false⟩ := by
  unfold iKid imgNode imgAttrs
  rw [InlineRef.imgEl_eq]

theorem imKids_cons (esc : List Char) (u : MUse) (r : List MUse) :
    imKids esc (u :: r) = iKid esc u :: (u.C.segs.map (tailedM esc) ++ imKids esc r) := rfl

theorem bl_iKid (esc : List Char) (u : MUse) :
    TreeProc.isBlockLevel TreeProc.defaultBlockLevel (iKid esc u).tag = false := by
  rw [iKid_eq]; exact InlineRef.inl_img.1

theorem prettifyKids_imKids (esc : List Char) (us : List MUse) :
    TreeProc.prettifyKids TreeProc.defaultBlockLevel (imKids esc us) = imKids esc us := by
  induction us with
  | nil => rfl
  | cons u r ih =>
    rw [imKids_cons]
    simp only [TreeProc.prettifyKids, bl_iKid, Bool.false_eq_true, if_false, prettifyKids_append, prettifyKids_tailedM, ih]

theorem mapTree_iKid (esc : List Char) (u : MUse) :
    TreeProc.mapTree TreeProc.preRule (TreeProc.mapTree TreeProc.brRule (iKid esc u)) = iKid esc u := by
  have hbr := InlineRef.inl_img.2.1
  have hpre := InlineRef.inl_img.2.2
  rw [iKid_eq]
  simp only [TreeProc.mapTree, TreeProc.mapKids, TreeProc.brRule, TreeProc.preRule, TreeProc.tagIs, hbr, hpre,
    Bool.false_eq_true, if_false]

theorem mapKids_imKids (esc : List Char) (us : List MUse) :
    TreeProc.mapKids TreeProc.preRule (TreeProc.mapKids TreeProc.brRule (imKids esc us)) = imKids esc us := by
  induction us with
  | nil => rfl
  | cons u r ih =>
    rw [imKids_cons]
    simp only [TreeProc.mapKids, mapKids_append, mapTree_iKid, mapKids_tailedM, ih]

/-- the element after prettify -/
def iPretty (tg : Str) (esc : List Char) (C0 : Chunk) (us : List MUse) : Node :=
  { tag := .name tg, text := optStr (coded esc C0.t0),
    children := C0.segs.map (tailedM esc) ++ imKids esc us, tail := some ['\n'] }

theorem pretty_iMid (tg : Str) (htg : TgOK tg) (esc : List Char) (C0 : Chunk) (us : List MUse) :
    TreeProc.mapTree TreeProc.preRule (TreeProc.mapTree TreeProc.brRule
      (TreeProc.prettifyETree TreeProc.defaultBlockLevel (iMid tg esc C0 us))) = iPretty tg esc C0 us := by
  have hp := htg.block
  have hbr := htg.br
  have hpre := htg.pre
  have hcode := htg.code
  have hkids : TreeProc.prettifyKids TreeProc.defaultBlockLevel (C0.segs.map (tailedM esc) ++ imKids esc us) =
      C0.segs.map (tailedM esc) ++ imKids esc us := by
    rw [prettifyKids_append, prettifyKids_tailedM, prettifyKids_imKids]
  have hfirst : ∀ c r, C0.segs.map (tailedM esc) ++ imKids esc us = c :: r →
      TreeProc.isBlockLevel TreeProc.defaultBlockLevel c.tag = false := by
    intro c r h
    cases hs : C0.segs with
    | nil =>
      cases us with
      | nil => simp [hs, imKids] at h
      | cons u r' =>
        simp only [hs, List.map_nil, List.nil_append, imKids_cons, List.cons.injEq] at h
        rw [← h.1]; exact bl_iKid esc u
    | cons s r' =>
      simp only [hs, List.map_cons, List.cons_append, List.cons.injEq] at h
      rw [← h.1]; exact bl_tailedM esc s
  have h1 : TreeProc.prettifyETree TreeProc.defaultBlockLevel (iMid tg esc C0 us) = iPretty tg esc C0 us := by
    simp only [iMid, iPretty]
    generalize hK : C0.segs.map (tailedM esc) ++ imKids esc us = K at hkids hfirst
    cases K with
    | nil => simp [TreeProc.prettifyETree, TreeProc.prettifyKids, TreeProc.blankOrNone, Node.truthy]
    | cons c r =>
      have hb := hfirst c r rfl
      simp only [TreeProc.prettifyETree, hp, hcode, hpre, Bool.not_false, Bool.and_self, if_true, hkids, hb,
        Bool.and_false, Bool.false_eq_true, if_false, TreeProc.blankOrNone, Node.truthy, Bool.true_or]
  rw [h1]
  simp only [iPretty, TreeProc.mapTree, TreeProc.brRule, TreeProc.preRule, TreeProc.tagIs, hbr, hpre,
    Bool.false_eq_true, if_false, mapKids_append, mapKids_tailedM, mapKids_imKids]

/-! ### 6. unescape -/

/-- the `<img>` element of an image after unescape -/
def iKidFin (u : MUse) : Node := { imgNode u with tail := optStr u.C.t0 }

theorem iKidFin_eq (u : MUse) :
    iKidFin u = ⟨.name "img".toList, imgAttrs u, none, false, [], optStr u.C.t0, false⟩ := by
  unfold iKidFin imgNode imgAttrs
  rw [InlineRef.imgEl_eq]

def imKidsFin : List MUse → List Node
  | [] => []
  | u :: r => iKidFin u :: (u.C.segs.map tailedFinM ++ imKidsFin r)

theorem imKidsFin_nil : imKidsFin [] = [] := rfl
theorem imKidsFin_cons (u : MUse) (r : List MUse) :
    imKidsFin (u :: r) = iKidFin u :: (u.C.segs.map tailedFinM ++ imKidsFin r) := rfl

/-- destination, title and alt text without STX -/
def ImAttrOK (u : MUse) : Prop :=
  Inline.STX ∉ u.url ∧ (∀ t, titleOf u.dtitle = some t → Inline.STX ∉ t) ∧ Inline.STX ∉ u.alt

theorem imAttrOK_of {esc : List Char} {u : MUse} (h : MUseOK esc u) : ImAttrOK u := by
  obtain ⟨h1, _, _, h4⟩ := h.dest
  refine ⟨stx_not_mem_dest (fun c hc => urlCh_dest (h1 c hc)), ?_, ?_⟩
  · intro t ht
    cases hd : u.dtitle with
    | none => simp [titleOf, hd] at ht
    | some qt =>
      obtain ⟨q, t'⟩ := qt
      rw [hd] at h4
      simp only [titleOf, hd, Option.map_some, Option.some.injEq] at ht
      subst ht
      exact stx_not_mem_dest (fun c hc => (titleCh_facts (h4.2.1 c hc)).1)
  · intro hm
    have := h.alt _ hm
    revert this; decide

theorem unescAttrs_img (u : MUse) (ha : ImAttrOK u) : TreeProc.unescAttrs (imgAttrs u) = some (imgAttrs u) := by
  apply InlineRef.unescAttrs_id
  intro kv hkv
  simp only [imgAttrs, List.cons_append, List.mem_cons, List.mem_append, List.not_mem_nil, or_false] at hkv
  rcases hkv with rfl | hkv | rfl
  · exact ha.1
  · split at hkv
    · simp only [List.mem_cons, List.not_mem_nil, or_false] at hkv
      subst hkv
      cases ht : titleOf u.dtitle with
      | none => simp [ht, Node.truthy] at *
      | some t =>
        show TreeProc.STX ∉ (some t).getD []
        exact ha.2.1 t ht
    · cases hkv
  · exact ha.2.2

theorem unescapeTree_iKid {esc : List Char} (u : MUse) (hu : MUseOK esc u) :
    TreeProc.unescapeTree (iKid esc u) = some (iKidFin u) := by
  have hcode : (Tag.name "img".toList == Tag.name "code".toList) = false := by decide
  have h2 := unescOpt_coded esc u.C.t0 (chunkOK_pp hu.after).1
  have hattr := unescAttrs_img u (imAttrOK_of hu)
  have t0 : Node.truthy (none : Option Str) = false := rfl
  rw [iKid_eq, iKidFin_eq]
  simp only [TreeProc.unescapeTree, TreeProc.unescapeKids, hcode, Bool.not_false, Bool.and_true, h2, hattr, t0,
    Bool.false_eq_true, if_false]
  by_cases ht2 : Node.truthy (optStr (coded esc u.C.t0)) = true <;> simp [ht2]

theorem unescapeKids_imKids {esc : List Char} (us : List MUse) (hus : ∀ u ∈ us, MUseOK esc u) :
    TreeProc.unescapeKids (imKids esc us) = some (imKidsFin us) := by
  induction us with
  | nil => rfl
  | cons u r ih =>
    have hu := hus u List.mem_cons_self
    have hkC := unescapeKids_tailedM esc u.C.segs
      (fun s hs => ⟨((chunkOK_pp hu.after).2 s hs).1, fine_of_ok s.k (hu.after.ok s hs) (hu.after.clean s hs)⟩)
    have hr := ih (fun x hx => hus x (List.mem_cons_of_mem _ hx))
    rw [imKids_cons]
    simp only [TreeProc.unescapeKids, unescapeTree_iKid u hu, unescapeKids_append _ _ _ _ hkC hr, imKidsFin_cons]

/-- the element after unescape -/
def iFin (tg : Str) (C0 : Chunk) (us : List MUse) : Node :=
  { tag := .name tg, text := optStr C0.t0, children := C0.segs.map tailedFinM ++ imKidsFin us,
    tail := some ['\n'] }

theorem unesc_iPretty (tg : Str) (htg : TgOK tg) {esc : List Char} (C0 : Chunk) (us : List MUse) (h0 : ChunkOK esc C0)
    (hus : ∀ u ∈ us, MUseOK esc u) :
    TreeProc.unescapeTree (iPretty tg esc C0 us) = some (iFin tg C0 us) := by
  have hcode := htg.code
  have hnl : TreeProc.unescapeText 0 ['\n'] = some ['\n'] := by decide
  have h := unescOpt_coded esc C0.t0 (chunkOK_pp h0).1
  have hk0 := unescapeKids_tailedM esc C0.segs
    (fun s hs => ⟨((chunkOK_pp h0).2 s hs).1, fine_of_ok s.k (h0.ok s hs) (h0.clean s hs)⟩)
  have hk := unescapeKids_append _ _ _ _ hk0 (unescapeKids_imKids us hus)
  have t1 : Node.truthy (some ['\n']) = true := rfl
  simp only [iPretty, iFin, TreeProc.unescapeTree, hcode, Bool.not_false, Bool.and_true, h, hk, TreeProc.unescAttrs, t1,
    if_true, Option.getD_some, hnl, Option.map_some]
  by_cases ht : Node.truthy (optStr (coded esc C0.t0)) = true <;> simp [ht]

/-! ### 7. the serializer -/

theorem serialize_iKidFin (u : MUse) :
    Ser.serialize .xhtml (iKidFin u) = imgHtml u ++ Ser.escCdata u.C.t0 := by
  have h2a : Ser.isEmptyTag "img".toList = true := by decide
  rw [iKidFin_eq, InlineRef.serialize_name, optEsc_optStr, InlineRef.serializeList_nil]
  unfold Ser.element imgAttrs
  rw [InlineRef.sortAttrs_img]
  unfold imgHtml InlineRef.imgHtmlF
  simp only [h2a, InlineRef.writeAttrs_cons, Bool.and_true, decide_true, if_true]
  split <;> simp only [Ser.writeAttrs, List.append_assoc, List.append_nil] <;> rfl

theorem serializeList_imKidsFin {esc : List Char} : ∀ (us : List MUse), (∀ u ∈ us, MUseOK esc u) →
    Ser.serializeList .xhtml (imKidsFin us) = imOut us
  | [], _ => by rw [imKidsFin_nil, InlineRef.serializeList_nil, imOut_nil]
  | u :: r, hus => by
    have hu := hus u List.mem_cons_self
    have hkC := serializeList_tailedM u.C.segs
      (fun s hs => fine_of_ok s.k (hu.after.ok s hs) (hu.after.clean s hs))
    have hr := serializeList_imKidsFin r (fun x hx => hus x (List.mem_cons_of_mem _ hx))
    rw [imKidsFin_cons, serializeList_cons, serializeList_append, serialize_iKidFin u, hkC, hr, imOut_cons]
    simp only [Chunk.out, List.append_assoc]

theorem ser_iFin (tg : Str) (htg : TgOK tg) {esc : List Char} (C0 : Chunk) (us : List MUse) (h0 : ChunkOK esc C0)
    (hus : ∀ u ∈ us, MUseOK esc u) :
    Ser.serialize .xhtml (iFin tg C0 us) = iOut tg C0 us ++ ['\n'] := by
  have h2 := htg.empty
  have h4 := htg.raw
  have e7 : Ser.escCdata ['\n'] = ['\n'] := by decide
  have t1 : Node.truthy (some ['\n']) = true := rfl
  have hk0 := serializeList_tailedM C0.segs (fun s hs => fine_of_ok s.k (h0.ok s hs) (h0.clean s hs))
  simp only [iFin]
  rw [serialize_plain _ _ _ _ _ _ _ h2 h4, serializeList_append, hk0, serializeList_imKidsFin us hus, optEsc_optStr]
  simp [t1, e7, iOut, Chunk.out, List.append_assoc]

/-! ### 8. the element as an `Elem` -/

theorem stx_not_mem_imOut {esc : List Char} : ∀ (us : List MUse), (∀ u ∈ us, MUseOK esc u) → Post.STX ∉ imOut us
  | [], _ => by rw [imOut_nil]; simp
  | u :: r, hus => by
    have hu := hus u List.mem_cons_self
    have ha := imAttrOK_of hu
    have hr := stx_not_mem_imOut r (fun x hx => hus x (List.mem_cons_of_mem _ hx))
    have h1 : Post.STX ∉ imgHtml u := InlineRef.stx_not_mem_imgHtmlF _ _ _ _ ha.1 ha.2.1 ha.2.2
    have h3 := stx_not_mem_chunkOut u.C hu.after
    rw [imOut_cons]
    intro hm
    simp only [List.mem_append] at hm
    rcases hm with hm | hm | hm
    · exact h1 hm
    · exact h3 hm
    · exact hr hm

theorem imKids_childless (esc : List Char) (us : List MUse) : ∀ c ∈ imKids esc us, c.children = [] := by
  induction us with
  | nil => intro c hc; simp [imKids] at hc
  | cons u r ih =>
    intro c hc
    rw [imKids_cons] at hc
    simp only [List.mem_cons, List.mem_append, List.mem_map] at hc
    rcases hc with rfl | ⟨s, _, rfl⟩ | hc
    · rw [iKid_eq]
    · exact tailedM_childless esc s
    · exact ih c hc

/-- every child of the element is childless -/
theorem iKids_childless (esc : List Char) (C0 : Chunk) (us : List MUse) :
    ∀ c ∈ C0.segs.map (tailedM esc) ++ imKids esc us, c.children = [] := by
  intro c hc
  rcases List.mem_append.1 hc with hc | hc
  · obtain ⟨s, _, rfl⟩ := List.mem_map.1 hc
    exact tailedM_childless esc s
  · exact imKids_childless esc us c hc

/-- each image contributes at least the five characters `![]()`, each item of the content after it at least one -/
theorem imKids_length {esc : List Char} (us : List MUse) (hus : ∀ u ∈ us, MUseOK esc u) : ∀ (m n0 : Nat),
    (imKids esc us).length ≤ (imStage esc 0 false m n0 us).length := by
  induction us with
  | nil => intro _ _; simp [imKids]
  | cons u r ih =>
    intro m n0
    have hu := hus u List.mem_cons_self
    have h1 := ih (fun x hx => hus x (List.mem_cons_of_mem _ hx)) (m + u.C.escs esc) (n0 + u.C.cnt 0)
    have h2 := chunk_raw_length esc u.C hu.after.ok
    have h3 := nodes_length u.C.segs hu.after.ok
    rw [imKids_cons]
    simp only [imStage, Chunk.stage_raw, List.length_cons, List.length_append, List.length_map]
    simp only [Chunk.cnt] at h2
    omega

theorem iKids_length {esc : List Char} (C0 : Chunk) (us : List MUse) (h0 : ChunkOK esc C0)
    (hus : ∀ u ∈ us, MUseOK esc u) :
    (C0.segs.map (tailedM esc) ++ imKids esc us).length ≤ (imgRaw esc C0 us).length := by
  have h1 := imKids_length us hus 0 0
  have h2 := chunk_raw_length esc C0 h0.ok
  have h3 := nodes_length C0.segs h0.ok
  simp only [imgRaw, List.length_append, List.length_map]
  simp only [Chunk.cnt] at h2
  omega

/-- the element `<tg>C₀ ![alt₁](d₁) C₁ … </tg>` at every stage -/
def iElem (tg : Str) (esc : List Char) (C0 : Chunk) (us : List MUse) : Elem :=
  ⟨{ tag := .name tg, text := some (imgRaw esc C0 us) }, iMid tg esc C0 us, fun n => imStash esc n C0 us,
   fun i => ((List.range (C0.segs.map (tailedM esc) ++ imKids esc us).length).map (fun k => [i, k])).reverse,
   iPretty tg esc C0 us, iFin tg C0 us, iOut tg C0 us⟩

theorem iElem_ok (cfg : Inline.Cfg) (hE : EscOK cfg.esc) (hrb : ']' ∈ cfg.esc) (tg : Str)
    (htg : tg ∈ ["p", "h1", "h2", "h3", "h4", "h5", "h6"].map String.toList) (C0 : Chunk) (us : List MUse)
    (h0 : ChunkOK cfg.esc C0) (hus : ∀ u ∈ us, MUseOK cfg.esc u) (hne : us ≠ []) (hloop : LoopOK cfg C0 us) :
    ElemOK cfg (iElem tg cfg.esc C0 us) := by
  have ht := tgOK_of tg htg
  have hsize : Inline.size (iElem tg cfg.esc C0 us).src = 1 + (imgRaw cfg.esc C0 us).length := by
    simp [iElem, Inline.size, Inline.sizeList]
  have hklen := iKids_length C0 us h0 hus
  have hchl := iKids_childless cfg.esc C0 us
  refine ⟨fun v => visitChild_imgLine cfg hE hrb tg C0 us h0 hus hne hloop v, fun i => ?_, fun i => ?_,
    fun i q hq => ?_, ht.block, pretty_iMid tg ht cfg.esc C0 us, unesc_iPretty tg ht C0 us h0 hus,
    ser_iFin tg ht C0 us h0 hus, ?_⟩
  · rw [hsize]
    simp only [iElem, List.length_reverse, List.length_map, List.length_range]
    omega
  · rw [hsize]
    have := mStack_range_all (iMid tg cfg.esc C0 us) i
    have e1 : (iMid tg cfg.esc C0 us).children = C0.segs.map (tailedM cfg.esc) ++ imKids cfg.esc us := rfl
    rw [e1, sum_childless _ hchl] at this
    show mStack (iMid tg cfg.esc C0 us) _ ≤ _
    simp only [iElem]
    rw [this]
    omega
  · simp only [iElem, List.mem_reverse, List.mem_map, List.mem_range] at hq
    obtain ⟨k, hk, rfl⟩ := hq
    obtain ⟨kid, hkid⟩ : ∃ kid, (C0.segs.map (tailedM cfg.esc) ++ imKids cfg.esc us)[k]? = some kid := by
      cases hx : (C0.segs.map (tailedM cfg.esc) ++ imKids cfg.esc us)[k]? with
      | none => rw [List.getElem?_eq_none_iff] at hx; omega
      | some kid => exact ⟨kid, rfl⟩
    have hcl := hchl kid (List.mem_of_getElem? hkid)
    refine ⟨[k], kid, rfl, ?_, ?_⟩
    · simp only [iElem, iMid, getAt]
      rw [hkid]
    · apply stillBelow_of_childless cfg _ kid
      · rw [hcl]; simp
      · intro c hc
        rw [hcl] at hc; cases hc
  · refine ⟨?_, rfl, ?_⟩
    · intro hm
      have hm' : Post.STX ∈ '<' :: tg ++ ['>'] ++ (C0.out ++ imOut us) ++ ('<' :: '/' :: tg ++ ['>']) := hm
      simp only [List.mem_append, List.mem_cons, List.not_mem_nil, or_false] at hm'
      have hs := ht.stx
      rcases hm' with ((hm' | hm') | hm') | hm' | hm'
      · rcases hm' with hm' | hm'
        · revert hm'; decide
        · exact hs hm'
      · revert hm'; decide
      · rcases hm' with hm' | hm'
        · exact stx_not_mem_chunkOut C0 h0 hm'
        · exact stx_not_mem_imOut us hus hm'
      · rcases hm' with hm' | hm' | hm'
        · revert hm'; decide
        · revert hm'; decide
        · exact hs hm'
      · revert hm'; decide
    · have e : (iElem tg cfg.esc C0 us).out =
          ('<' :: tg ++ ['>'] ++ (C0.out ++ imOut us) ++ ('<' :: '/' :: tg)) ++ ['>'] := by
        simp [iElem, iOut]
      rw [e, List.getLast?_append]; rfl

end MdVerif.DocImg
