/-
GENERATED (work/portN.py) COPY of `MdVerif/Lemmas/InlineFuelPot.lean` in the namespace `MdVerif.InlineN`, where the weight `isTrigC` of a
character (hence `phiC`, `nuW`, `ownW`, the weights of the stash entries and the potential of a tree) ALSO COUNTS THE
LINE FEED AND `^`: with nl2br the pattern `\n` turns every line feed of a text into a `br` element, which costs one unit
of potential; the footnote pattern `[^id]` makes two elements (`sup`, `a`), paid by `[` and `^`.
Everything that does not depend on the weight is used from `MdVerif.Inline`.  Needed for `Props/C02Big.lean`, section 6
(termination of `InlineX.runX` for the pattern tables of the extensions).  Core Lean only.
-/
import MdVerif.Lemmas.InlineFuelRun

namespace MdVerif.InlineN
open MdVerif.Inline
open Py
open NoCtl hiding STX ETX

/-- weight of a character: triggers, and the two characters `code_escape` rewrites with a trigger -/
def isTrigC (c : Char) : Bool := isTrig c || c = '<' || c = '>' || c = '\n' || c = '^'

def phiC (s : Str) : Nat := s.countP isTrigC

/-- weight of the entry a placeholder id refers to (`0` for an id that is not canonically spelt or unknown) -/
def idWt (acc : List Nat) (id : Str) : Nat := if canon id then acc[decToNat id]?.getD 0 else 0

/-- sum of the weights of the placeholders of the text -/
def idW (acc : List Nat) (s : Str) : Nat := ((idsOf s).map (idWt acc)).sum

/-- potential of a text -/
def nuW (acc : List Nat) (s : Str) : Nat := phiC s + idW acc s

/-- potential of an element without its children -/
def ownW (acc : List Nat) (n : Node) : Nat := 1 + nuW acc (n.text.getD []) + nuW acc (n.tail.getD [])

/-- weight of a stash entry -/
def itemW (acc : List Nat) : StashItem → Nat
  | .str x => nuW acc x
  | .node n => npot (ownW acc) n

/-- weights of the entries, from the left -/
def wtsAux : List Nat → List StashItem → List Nat
  | acc, [] => acc
  | acc, it :: r => wtsAux (acc ++ [itemW acc it]) r

def wts (stash : List StashItem) : List Nat := wtsAux [] stash

/-- potential of a text / an element / a list of elements in a state -/
def nuS (st : St) (s : Str) : Nat := nuW (wts st.stash) s
def potS (st : St) (n : Node) : Nat := npot (ownW (wts st.stash)) n

/-! ### `phiC` -/

@[simp] theorem phiC_nil : phiC [] = 0 := rfl
@[simp] theorem phiC_append (a b : Str) : phiC (a ++ b) = phiC a + phiC b := by simp [phiC, List.countP_append]
theorem phiC_cons (c : Char) (s : Str) : phiC (c :: s) = (if isTrigC c then 1 else 0) + phiC s := by
  simp only [phiC, List.countP_cons]; omega

theorem phiC_infix {a b : Str} (h : a <:+: b) : phiC a ≤ phiC b := h.sublist.countP_le

theorem phiC_zero_of {s : Str} (h : ∀ c ∈ s, isTrigC c = false) : phiC s = 0 := by
  simp only [phiC, List.countP_eq_zero]
  intro c hc; simp [h c hc]

theorem isTrigC_digit {c : Char} (h : isAsciiDigit c = true) : isTrigC c = false := by
  simp only [isAsciiDigit, Bool.and_eq_true, decide_eq_true_eq] at h
  have h0 : (48 : Nat) ≤ c.toNat := h.1
  have h9 : c.toNat ≤ 57 := h.2
  cases hh : isTrigC c with
  | false => rfl
  | true =>
    exfalso
    simp only [isTrigC, isTrig, Bool.or_eq_true, decide_eq_true_eq] at hh
    rcases hh with (((((((((((e | e) | e) | e) | e) | e) | e) | e)) | e) | e) | e) | e <;> (subst e; revert h0 h9; decide)

theorem phiC_placeholder (k : Nat) : phiC (placeholder k) = 0 := by
  apply phiC_zero_of
  intro c hc
  simp only [placeholder, List.mem_append, List.mem_singleton] at hc
  rcases hc with (hc | hc) | hc
  · revert c; decide
  · exact isTrigC_digit (pad4_digits k c hc)
  · subst hc; decide

theorem isTrig_le_isTrigC (c : Char) : isTrig c = true → isTrigC c = true := by
  intro h; simp [isTrigC, h]

theorem tau_le_phiC (s : Str) : tau s ≤ phiC s := by
  induction s with
  | nil => simp
  | cons c r ih =>
    rw [tau_cons, phiC_cons]
    by_cases h : isTrig c = true
    · simp [h, isTrig_le_isTrigC c h]; omega
    · simp [h]; split <;> omega

/-! ### `idW`: the weight of the placeholders of a text -/

@[simp] theorem idW_nil (acc : List Nat) : idW acc [] = 0 := by simp [idW, idsOf]

theorem idW_cons (acc : List Nat) (c : Char) (r : Str) :
    idW acc (c :: r) = (match phHere (c :: r) with | some (id, _) => idWt acc id | none => 0) + idW acc r := by
  simp only [idW, idsOf, List.map_append, List.sum_append]
  cases phHere (c :: r) with
  | none => simp
  | some p => simp

/-- the placeholders of the parts are placeholders of the whole -/
theorem idW_append_ge (acc : List Nat) (a b : Str) : idW acc a + idW acc b ≤ idW acc (a ++ b) := by
  induction a with
  | nil => simp
  | cons c r ih =>
    rw [List.cons_append, idW_cons, idW_cons]
    cases hh : phHere (c :: r) with
    | none => simp only; omega
    | some p =>
      obtain ⟨id, l⟩ := p
      have := phHere_append hh b
      simp only [List.cons_append] at this
      simp only [this]; omega

theorem idW_drop_le (acc : List Nat) (s : Str) (k : Nat) : idW acc (s.drop k) ≤ idW acc s := by
  have := idW_append_ge acc (s.take k) (s.drop k)
  rw [List.take_append_drop] at this; omega

theorem idW_infix (acc : List Nat) {a b : Str} (h : a <:+: b) : idW acc a ≤ idW acc b := by
  obtain ⟨pre, post, rfl⟩ := h
  have h1 := idW_append_ge acc (pre ++ a) post
  have h2 := idW_append_ge acc pre a
  omega

/-- characters that can stand inside a placeholder, after its `STX` -/
def isInner (c : Char) : Bool := c = ETX || isAsciiDigit c || "klzzwxh:".toList.contains c

/-- no occurrence reaches over a character that cannot stand inside a placeholder -/
theorem phHere_of_append_ninner {x b : Str} {id : Str} {l : Nat} (hx : x ≠ [])
    (hb : b = [] ∨ ∃ c r, b = c :: r ∧ isInner c = false) (h : phHere (x ++ b) = some (id, l)) :
    phHere x = some (id, l) := by
  obtain ⟨h1, h2, h3, h4⟩ := phHere_decomp h
  have hP : (phPrefix ++ id ++ [ETX]).length = phPrefixLen + l := by
    simp only [List.length_append, List.length_singleton]; rw [h2]; rfl
  have hlen : phPrefixLen + l ≤ x.length := by
    rcases hb with hb | ⟨c0, r0, hb, hc0⟩
    · subst hb
      have := congrArg List.length h1
      simp only [List.append_nil, List.length_append, List.length_cons, List.length_drop] at this
      have hp : phPrefix.length = phPrefixLen := rfl
      omega
    · rcases Nat.lt_or_ge x.length (phPrefixLen + l) with hlt | hge
      · exfalso
        have hget : (x ++ b)[x.length]? = some c0 := by
          rw [List.getElem?_append_right (Nat.le_refl _), Nat.sub_self, hb]; rfl
        rw [h1] at hget
        rw [show phPrefix ++ id ++ ETX :: (x ++ b).drop (phPrefixLen + l) =
          (phPrefix ++ id ++ [ETX]) ++ (x ++ b).drop (phPrefixLen + l) by simp] at hget
        rw [List.getElem?_append_left (by rw [hP]; exact hlt)] at hget
        have hpos : 0 < x.length := List.length_pos_iff.2 hx
        have hshape : phPrefix ++ id ++ [ETX] = STX :: ("klzzwxh:".toList ++ id ++ [ETX]) := by simp [phPrefix]
        rw [hshape] at hget
        cases hxl : x.length with
        | zero => omega
        | succ k =>
          rw [hxl] at hget
          simp only [List.getElem?_cons_succ] at hget
          have hmem' := List.mem_of_getElem? hget
          simp only [List.mem_append, List.mem_singleton] at hmem'
          rcases hmem' with (hm | hm) | hm
          · have : isInner c0 = true := by
              simp only [isInner, Bool.or_eq_true]; right; exact List.contains_iff_mem.2 hm
            rw [hc0] at this; cases this
          · have : isInner c0 = true := by simp [isInner, h4 _ hm]
            rw [hc0] at this; cases this
          · have : isInner c0 = true := by simp [isInner, hm]
            rw [hc0] at this; cases this
      · exact hge
  exact phHere_of_take h (by rw [List.take_append_of_le_length hlen]) hlen

/-- at such a seam the placeholders of the whole are those of the parts -/
theorem idsOf_append_ninner {a b : Str} (hb : b = [] ∨ ∃ c r, b = c :: r ∧ isInner c = false) :
    idsOf (a ++ b) = idsOf a ++ idsOf b := by
  induction a with
  | nil => rfl
  | cons c r ih =>
    simp only [List.cons_append, idsOf, List.append_assoc]
    rw [ih]
    congr 1
    cases hh : phHere (c :: r) with
    | some p =>
      obtain ⟨id, l⟩ := p
      have := phHere_append hh b
      simp only [List.cons_append] at this
      simp only [this]
    | none =>
      cases hh2 : phHere (c :: (r ++ b)) with
      | none => rfl
      | some p =>
        obtain ⟨id, l⟩ := p
        have := phHere_of_append_ninner (x := c :: r) (by simp) hb (by simpa using hh2)
        rw [hh] at this; cases this

theorem idW_append_ninner (acc : List Nat) {a b : Str} (hb : b = [] ∨ ∃ c r, b = c :: r ∧ isInner c = false) :
    idW acc (a ++ b) = idW acc a + idW acc b := by
  simp only [idW, idsOf_append_ninner hb, List.map_append, List.sum_append]

theorem stx_not_inner : isInner STX = false := by decide

theorem idW_placeholder (acc : List Nat) (k : Nat) (b : Str) :
    idW acc (placeholder k ++ b) = idWt acc (pad4 k) + idW acc b := by
  simp only [idW, idsOf_placeholder, List.map_cons, List.sum_cons]

theorem idWt_pad4 (acc : List Nat) (k : Nat) : idWt acc (pad4 k) = acc[k]?.getD 0 := by
  simp [idWt, canon_pad4]

/-- a text without placeholder start (`STX k`) has no placeholders -/
theorem idsOf_nil_of {s : Str} (h : ∀ r, ¬ (STX :: 'k' :: r) <:+ s) : idsOf s = [] := by
  induction s with
  | nil => rfl
  | cons c r ih =>
    have hr : ∀ t, ¬ (STX :: 'k' :: t) <:+ r := fun t ht => h t (ht.trans (List.suffix_cons _ _))
    simp only [idsOf, ih hr, List.append_nil]
    cases hh : phHere (c :: r) with
    | none => rfl
    | some p =>
      exfalso
      obtain ⟨id, l⟩ := p
      obtain ⟨h1, _⟩ := phHere_decomp hh
      have : c :: r = STX :: 'k' :: ("lzzwxh:".toList ++ id ++ ETX :: (c :: r).drop (phPrefixLen + l)) := by
        conv => lhs; rw [h1]
        simp [phPrefix]
      exact h _ (by rw [this]; exact List.suffix_refl _)

/-- frame: the weights only matter up to the ids the text holds -/
theorem idW_frame {acc acc' : List Nat} (hp : acc <+: acc') {s : Str} (h : IdsLt acc.length s) :
    idW acc' s = idW acc s := by
  simp only [idW]
  congr 1
  apply List.map_congr_left
  intro id hid
  simp only [idWt]
  split
  · next hc =>
    have hlt := h id hid hc
    obtain ⟨t, rfl⟩ := hp
    rw [List.getElem?_append_left hlt]
  · rfl

theorem nuW_frame {acc acc' : List Nat} (hp : acc <+: acc') {s : Str} (h : IdsLt acc.length s) :
    nuW acc' s = nuW acc s := by simp only [nuW, idW_frame hp h]

theorem nuW_append_ge (acc : List Nat) (a b : Str) : nuW acc a + nuW acc b ≤ nuW acc (a ++ b) := by
  have := idW_append_ge acc a b
  simp only [nuW, phiC_append]; omega

theorem nuW_infix (acc : List Nat) {a b : Str} (h : a <:+: b) : nuW acc a ≤ nuW acc b := by
  have := idW_infix acc h
  have := phiC_infix h
  simp only [nuW]; omega

theorem nuW_append_ninner (acc : List Nat) {a b : Str} (hb : b = [] ∨ ∃ c r, b = c :: r ∧ isInner c = false) :
    nuW acc (a ++ b) = nuW acc a + nuW acc b := by
  simp only [nuW, phiC_append, idW_append_ninner acc hb]; omega

@[simp] theorem nuW_nil (acc : List Nat) : nuW acc [] = 0 := by simp [nuW]

/-! ### the weights of the stash -/

theorem wtsAux_append (acc : List Nat) (a b : List StashItem) :
    wtsAux acc (a ++ b) = wtsAux (wtsAux acc a) b := by
  induction a generalizing acc with
  | nil => rfl
  | cons it r ih => simp only [List.cons_append, wtsAux, ih]

theorem wts_snoc (stash : List StashItem) (it : StashItem) :
    wts (stash ++ [it]) = wts stash ++ [itemW (wts stash) it] := by
  simp only [wts, wtsAux_append, wtsAux]

theorem wtsAux_length (acc : List Nat) (l : List StashItem) : (wtsAux acc l).length = acc.length + l.length := by
  induction l generalizing acc with
  | nil => simp [wtsAux]
  | cons it r ih => simp [wtsAux, ih]; omega

@[simp] theorem wts_length (stash : List StashItem) : (wts stash).length = stash.length := by
  simp [wts, wtsAux_length]

theorem wtsAux_prefix (acc : List Nat) (l : List StashItem) : acc <+: wtsAux acc l := by
  induction l generalizing acc with
  | nil => exact List.prefix_refl _
  | cons it r ih => exact (List.prefix_append _ _).trans (ih _)

theorem wts_prefix {a b : List StashItem} (h : a <+: b) : wts a <+: wts b := by
  obtain ⟨t, rfl⟩ := h
  simp only [wts, wtsAux_append]
  exact wtsAux_prefix _ _

end MdVerif.InlineN
