/-
wikilinks with its exact trigger `[[`:
  * `noDbl s`: no two adjacent `[` in `s`; it is a `Sep` predicate with the neutral characters "not `[`";
  * the wikilink pattern finds nothing in such a text;
  * `convertX_wikilinks_tree`: wikilinks is inert when no text / tail of the tree the inline stage is run on has
    `[[` (and the run without it is not out of fuel).
Core Lean only.
-/
import MdVerif.Lemmas.InlineXSimP
import MdVerif.Lemmas.PipelineXInertSim
import MdVerif.Lemmas.PyBasic

namespace MdVerif.InlineX
open Py Inline

/-- no two adjacent `[` -/
def noDbl : Str → Bool
  | [] => true
  | a :: r => !(a = '[' && r.head? == some '[') && noDbl r

theorem noDbl_of_noBracket : ∀ (m : Str), (∀ c ∈ m, c ≠ '[') → noDbl m = true := by
  intro m
  induction m with
  | nil => intro _; rfl
  | cons a r ih =>
    intro h
    have ha : a ≠ '[' := h a List.mem_cons_self
    simp only [noDbl, ha, decide_false, Bool.false_and, Bool.not_false, Bool.true_and]
    exact ih (fun c hc => h c (List.mem_cons_of_mem _ hc))

/-- `noDbl` of a concatenation: both parts, and no `[` `[` at the joint -/
theorem noDbl_append : ∀ (a b : Str),
    noDbl (a ++ b) = (noDbl a && noDbl b && !(a.getLast? == some '[' && b.head? == some '[')) := by
  intro a
  induction a with
  | nil => intro b; simp [noDbl]
  | cons x r ih =>
    intro b
    cases r with
    | nil =>
      simp only [List.cons_append, List.nil_append, noDbl, List.getLast?_singleton]
      cases hx : decide (x = '[') <;> cases hb : (b.head? == some '[') <;> cases noDbl b <;>
        simp_all
    | cons y r' =>
      have := ih b
      simp only [List.cons_append] at this ⊢
      simp only [noDbl] at this ⊢
      rw [this]
      simp only [List.head?_cons, List.getLast?_cons_cons]
      cases decide (x = '[') <;> cases (some y == some '[') <;> cases decide (y = '[') <;>
        cases (r'.head? == some '[') <;> cases noDbl r' <;> cases noDbl b <;>
        cases ((y :: r').getLast? == some '[' && b.head? == some '[') <;> rfl

theorem noDbl_infix {s t : Str} (h : t <:+: s) (hs : noDbl s = true) : noDbl t = true := by
  obtain ⟨u, v, rfl⟩ := h
  rw [noDbl_append, noDbl_append] at hs
  simp only [Bool.and_eq_true] at hs
  exact hs.1.1.1.2

theorem noDbl_glue {a m b : Str} (ha : noDbl a = true) (hb : noDbl b = true) (hm : m ≠ [])
    (hn : ∀ c ∈ m, c ≠ '[') : noDbl (a ++ m ++ b) = true := by
  have hmm := noDbl_of_noBracket m hn
  have hhead : (m.head? == some '[') = false := by
    cases m with
    | nil => exact absurd rfl hm
    | cons x r =>
      have : x ≠ '[' := hn x List.mem_cons_self
      simp [this]
  have hlast : ((a ++ m).getLast? == some '[') = false := by
    rw [List.getLast?_append]
    cases hl : m.getLast? with
    | none => exact absurd (List.getLast?_eq_none_iff.mp hl) hm
    | some x =>
      have : x ≠ '[' := hn x (List.mem_of_getLast? hl)
      simp [this]
  rw [noDbl_append, noDbl_append, ha, hb, hmm, hhead, hlast]
  simp

theorem noDbl_flatMap (a : Char) {b : Str} (hbne : b ≠ []) (hb : ∀ c ∈ b, c ≠ '[') : ∀ (s : Str),
    noDbl s = true →
    noDbl (s.flatMap (fun c => if c = a then b else [c])) = true ∧
      ((s.flatMap (fun c => if c = a then b else [c])).head? = some '[' → s.head? = some '[') := by
  intro s
  induction s with
  | nil => intro _; exact ⟨rfl, by intro h; simp at h⟩
  | cons x r ih =>
    intro h
    simp only [noDbl, Bool.and_eq_true, Bool.not_eq_true'] at h
    obtain ⟨ih1, ih2⟩ := ih h.2
    simp only [List.flatMap_cons]
    by_cases hx : x = a
    · simp only [hx, if_true]
      constructor
      · have := noDbl_glue (a := []) (b := r.flatMap (fun c => if c = a then b else [c])) rfl ih1 hbne hb
        simpa using this
      · intro hh
        cases b with
        | nil => exact absurd rfl hbne
        | cons y b' =>
          simp only [List.cons_append, List.head?_cons, Option.some.injEq] at hh
          exact absurd hh (hb y List.mem_cons_self)
    · simp only [hx, if_false, List.cons_append, List.nil_append, List.head?_cons]
      refine ⟨?_, fun hh => hh⟩
      simp only [noDbl, Bool.and_eq_true, Bool.not_eq_true']
      refine ⟨?_, ih1⟩
      cases hc : (decide (x = '[') && (List.flatMap (fun c => if c = a then b else [c]) r).head? == some '[') with
      | false => rfl
      | true =>
        simp only [Bool.and_eq_true, decide_eq_true_eq, beq_iff_eq] at hc
        have := ih2 hc.2
        have h1 := h.1
        simp [hc.1, this] at h1

theorem noDbl_repl1 {s : Str} (a : Char) {b : Str} (h : noDbl s = true) (hbne : b ≠ []) (hb : ∀ c ∈ b, c ≠ '[') :
    noDbl (replace s [a] b) = true := by
  rw [Py.replace_single]
  exact (noDbl_flatMap a hbne hb s h).1

/-- "no `[[`" with the neutral characters "not `[`" -/
theorem sep_noDbl : Sep (fun s => noDbl s = true) (fun c => c ≠ '[') where
  nil := rfl
  sub := noDbl_infix
  glue := noDbl_glue
  repl1 := @fun s a b h hb hn => noDbl_repl1 (s := s) a h hb hn
  stx := by decide
  etx := by decide
  digit := by
    intro c hc he
    rw [he] at hc
    exact absurd hc (by decide)
  ph := by decide
  ent := by decide
  bs := by decide
  star := by decide
  under := by decide

theorem wikiScan_noDbl : ∀ (s : Str) (i : Nat), noDbl s = true → wikiScan s i = none := by
  intro s
  induction s with
  | nil => intro i _; rfl
  | cons ch r ih =>
    intro i h
    simp only [noDbl, Bool.and_eq_true, Bool.not_eq_true'] at h
    have hat : wikiAt (ch :: r) = none := by
      unfold wikiAt
      split
      · rename_i r' heq
        injection heq with e1 e2
        rw [e1, e2] at h
        simp at h
      · rfl
    simp only [wikiScan, hat]
    exact ih (i + 1) h.2

/-- `noDbl` says that `[[` does not occur -/
theorem noDbl_iff_contains (s : Str) : noDbl s = true ↔ contains s ['[', '['] = false := by
  have key : ∀ s : Str, noDbl s = true ↔ ¬ ['[', '['] <:+: s := by
    intro s
    induction s with
    | nil => simp [noDbl]
    | cons a r ih =>
      simp only [noDbl, Bool.and_eq_true, Bool.not_eq_true', ih, List.infix_cons_iff, not_or]
      constructor
      · rintro ⟨h1, h2⟩
        refine ⟨?_, h2⟩
        intro hp
        obtain ⟨t, ht⟩ := hp
        simp only [List.cons_append, List.nil_append, List.cons.injEq] at ht
        obtain ⟨e1, e2⟩ := ht
        rw [← e1, ← e2] at h1
        simp at h1
      · rintro ⟨h1, h2⟩
        refine ⟨?_, h2⟩
        cases hc : (decide (a = '[') && r.head? == some '[') with
        | false => rfl
        | true =>
          simp only [Bool.and_eq_true, decide_eq_true_eq, beq_iff_eq] at hc
          exfalso
          apply h1
          cases r with
          | nil => simp at hc
          | cons b r' =>
            simp only [List.head?_cons, Option.some.injEq] at hc
            exact ⟨r', by rw [hc.1, hc.2]; rfl⟩
  rw [key]
  constructor
  · intro h
    cases hc : contains s ['[', '['] with
    | false => rfl
    | true => exact absurd ((BlockExt.contains_iff_infix s _).mp hc) h
  · intro h hi
    rw [(BlockExt.contains_iff_infix s _).mpr hi] at h
    cases h

end MdVerif.InlineX

namespace MdVerif.PipelineX
open Py Pipeline BlockExt InlineX

/-- `lateX_sim` for a `Sep` invariant -/
theorem lateX_simP {G : Prop} {Ok : Str → Prop} {N : Char → Prop} (hs : G → Sep Ok N) (x x' : Exts) (cfg : Cfg)
    (stash : List Str) (root : Node) (log : Block.Refs) (a b : List PatK) (d : PatK)
    (h1 : (xcOf x cfg log).table = a ++ b)
    (hnw : ∀ k ∈ a ++ b, k ≠ PatK.wikilink)
    (h2 : xcOf x' cfg log = { xcOf x cfg log with table := a ++ d :: b })
    (hdead : ∀ data si xs, (G → Ok data) → (G → StashP Ok N xs.st.stash) →
      findX (xcOf x' cfg log) d data si xs = some (none, xs))
    (hroot : G → DeepP Ok root)
    (hafter : ∀ t xs, InlineX.runX (xcOf x cfg log) root stash = some (t, xs) →
      afterInline x' cfg log t xs = afterInline x cfg log t xs)
    (hne : lateX x cfg stash root log ≠ .oof) :
    lateX x' cfg stash root log = lateX x cfg stash root log := by
  rw [lateX_eq] at hne
  rw [lateX_eq, lateX_eq]
  cases hrun : InlineX.runX (xcOf x cfg log) root stash with
  | none => rw [hrun] at hne; exact absurd rfl hne
  | some r =>
    have hsim : InlineX.runX (xcOf x' cfg log) root stash = some r := by
      refine runX_simP (G := G) (Ok := Ok) (N := N) (p := a.length) (dead := d) hs ?_ ?_ ?_ ?_ ?_ ?_ hdead root stash
        hroot hrun
      · rw [h1]; exact hnw
      · intro i
        rw [h2, h1]
        exact getElem?_insert a b d i
      · intro k data si xs
        rw [h2]
        cases k <;> rfl
      · rw [h1]; simp
      · rw [h2, h1]; simp; omega
      · rw [h2]
        exact getElem?_dead a b d
    rw [hsim]
    obtain ⟨t, xs⟩ := r
    exact hafter t xs hrun

mutual
/-- no text and no tail of the tree has two adjacent `[` -/
def deepDbl : Node → Bool
  | ⟨_, _, text, _, children, tail, _⟩ =>
    noDbl (text.getD []) && noDbl (tail.getD []) && deepDbls children
def deepDbls : List Node → Bool
  | [] => true
  | n :: r => deepDbl n && deepDbls r
end

mutual
theorem deepDbl_iff : ∀ (n : Node), deepDbl n = true → DeepP (fun s => noDbl s = true) n
  | ⟨tag, attrs, text, ta, children, tail, tla⟩, h => by
    simp only [deepDbl, Bool.and_eq_true] at h
    simp only [DeepP]
    refine ⟨?_, ?_, deepDbls_iff children h.2⟩
    · intro s hs; rw [hs] at h; exact h.1.1
    · intro s hs; rw [hs] at h; exact h.1.2
theorem deepDbls_iff : ∀ (l : List Node), deepDbls l = true → DeepPs (fun s => noDbl s = true) l
  | [], _ => trivial
  | n :: r, h => by
    simp only [deepDbls, Bool.and_eq_true] at h
    exact ⟨deepDbl_iff n h.1, deepDbls_iff r h.2⟩
end

/-- no text and no tail of the tree the inline stage is run on contains `[[` -/
def wikiTriggerFree (x : Exts) (cfg : Cfg) (src : Str) : Bool :=
  match blockTreeX x cfg src with
  | some root => deepDbl root
  | none => true

theorem table_nowiki (fn nl : Bool) : ∀ k ∈ tableA fn ++ tableB nl, k ≠ PatK.wikilink := by
  cases fn <;> cases nl <;> decide

/-- wikilinks is inert when no text of the tree the inline stage is run on has `[[` (and the run without it is not
    out of fuel) -/
theorem convertX_wikilinks_tree (x : Exts) (hx : x.wikilinks = false) (cfg : Cfg) (src : Str)
    (h : wikiTriggerFree x cfg src = true) (hne : convertX x cfg src ≠ .oof) :
    convertX { x with wikilinks := true } cfg src = convertX x cfg src := by
  apply convertX_of_stages_fuel _ _ _ _ hne
  · rfl
  · intro _ _ _; rfl
  · intro text stash root log hprep hb hlate
    have hroot : DeepP (fun s => noDbl s = true) root := by
      simp only [wikiTriggerFree, blockTreeX, hprep, hb] at h
      exact deepDbl_iff root h
    refine lateX_simP (G := True) (fun _ => sep_noDbl) x _ cfg stash root log
      (tableA x.footnotes) (tableB x.nl2br) PatK.wikilink ?_ (table_nowiki _ _) ?_ ?_ (fun _ => hroot)
      (fun _ _ _ => rfl) hlate
    · simp only [xcOf, hx]
      exact table_wiki_false _ _
    · simp only [xcOf, table_wiki_true]
      rfl
    · intro data si xs hd _
      simp only [findX]
      split
      · rfl
      · rw [wikiScan_noDbl _ _ (noDbl_infix (List.drop_suffix _ _).isInfix (hd trivial))]
  · intro _ _; rfl

end MdVerif.PipelineX
