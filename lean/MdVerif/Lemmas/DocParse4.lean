/-
Helper lemmas for C01 with hard line breaks (`Props/C01g.lean`): paragraphs whose content is several lines of the
vocabulary of `Lemmas/DocParse3.lean` (`Seg2`: words, escapes, code spans, emphasis to two levels), separated by hard
breaks (two spaces and a line feed).  Core Lean only.
-/
import MdVerif.Lemmas.DocParse3

namespace MdVerif.DocParse2
open Py Inline Escape DocSpec CodeLaw DocParse Block

/-! ### 58. patterns 14 and 15 on a line that is followed by more text -/

theorem star_pass2Z (cfg : Inline.Cfg) (f : Nat) (hs : EscSup cfg.esc) (h1 : '*' ∈ cfg.esc) (h2 : '_' ∈ cfg.esc)
    (segs : List Seg2) :
    ∀ (A Z : Str) (m n0 n1 n2 : Nat) (st : St) (g : Nat), '*' ∉ A → Segs2OK cfg.esc segs →
      hiLoop (applyPattern cfg (fun d p s => handleInline cfg (f + 1 + 1) d p s))
        (g + itS segs)
        (A ++ (stage2L cfg.esc 1 m n0 n1 n2 segs ++ Z)) 14 0 st =
      hiLoop (applyPattern cfg (fun d p s => handleInline cfg (f + 1 + 1) d p s)) g
        (A ++ (stage2L cfg.esc 2 m n0 st.stash.length n2 segs ++ Z)) 14 0
        { st with stash := st.stash ++ nodesS cfg.esc m n0 st.stash.length segs } := by
  induction segs with
  | nil => intro A Z m n0 n1 n2 st g _ _; simp [stage2L, nodesS, itS]
  | cons s r ih =>
    intro A Z m n0 n1 n2 st g hA hok
    have hokr : Segs2OK cfg.esc r := fun x hx => hok x (List.mem_cons_of_mem _ hx)
    have hs' := hok s List.mem_cons_self
    have hres : ∀ m', '*' ∉ resid cfg.esc m' s.t := fun m' h => (resid_no_delim h1 h2 s.t m' _ h).1 rfl
    cases hk : s.k with
    | code n b =>
      have := ih (A ++ (placeholder n0 ++ resid cfg.esc m s.t)) Z (m + escCount cfg.esc s.t) (n0 + 1) n1 n2 st g
        (by
          have := not_mem_of_append3 hA (not_mem_placeholder (c := '*') (by decide) n0) (hres m)
          exact this) hokr
      simp only [stage2L, item2, nodesS, itS, hk, K2.esc, K2.codes, K2.stars, K2.unders, Nat.add_zero, Nat.zero_add,
        List.nil_append, List.append_assoc] at this ⊢
      exact this
    | em st' d β =>
      rw [hk] at hs'
      obtain ⟨hd, hβ⟩ := hs'
      by_cases hds : d = '*'
      · subst hds
        have hcl1 : ¬ ((K2.em st' '*' β).cls < 1) := by simp [K2.cls]
        have hcl2 : (K2.em st' '*' β).cls < 2 := by simp [K2.cls]
        generalize hL : st.stash.length = L
        obtain ⟨hne, _, _, _⟩ := body2_facts hs '*' hd β hβ 1 m n0 L
        have hnd := body2_no_d hs '*' hd β hβ 1 m n0 L
        generalize hm'' : m + (K2.em st' '*' β).esc cfg.esc + escCount cfg.esc s.t = m''
        generalize hZ' : resid cfg.esc (m + (K2.em st' '*' β).esc cfg.esc) s.t ++
          (stage2L cfg.esc 1 m'' (n0 + (K2.em st' '*' β).codes) (n1 + (K2.em st' '*' β).stars)
            (n2 + (K2.em st' '*' β).unders) r ++ Z) = Z'
        have hhm := emHandle_body' st' '*' (body2 cfg.esc 1 m n0 L β) (Or.inl rfl) hne hnd A Z'
          (fun e => absurd e (by decide))
        have hin : handleInline cfg (f + 1 + 1) (body2 cfg.esc 1 m n0 L β) (14 + 1) st =
            some (body2 cfg.esc 3 m n0 L β,
              { st with stash := st.stash ++ nodes1 2 cfg.esc (m + escCount cfg.esc β.u0) n0 β.segs }) := by
          have := hi15_line1 cfg f hs h1 h2 β.u0 β.segs m (m + escCount cfg.esc β.u0) n0 L L st hβ.segs
            (fun x hx => by simpa using hβ.alt x hx) (hβ.under rfl)
          rw [hL] at this
          exact this
        obtain ⟨q, hq⟩ := delim_cons ⟨st', '*', body2 cfg.esc 1 m n0 L β, []⟩
        have hE : emSrc ⟨st', '*', body2 cfg.esc 1 m n0 L β, []⟩ =
            '*' :: (q ++ (body2 cfg.esc 1 m n0 L β ++ EmSeg.delim ⟨st', '*', body2 cfg.esc 1 m n0 L β, []⟩)) := by
          rw [emSrc, hq]; rfl
        have hstep := applyPattern_emG cfg (f + 1) 14 (Or.inl rfl) '*' rfl A _ Z' hA _ hE st' _ hne _ st _ hin hhm
        have hc2 := nodes1_count 2 (by omega) cfg.esc β.segs (m + escCount cfg.esc β.u0) n0
        have hA' : '*' ∉ A ++ (placeholder (L + count1 2 β.segs) ++
            resid cfg.esc (m + (K2.em st' '*' β).esc cfg.esc) s.t) :=
          not_mem_of_append3 hA (not_mem_placeholder (by decide) _) (hres _)
        have := ih (A ++ (placeholder (L + count1 2 β.segs) ++ resid cfg.esc (m + (K2.em st' '*' β).esc cfg.esc) s.t))
          Z m'' (n0 + (K2.em st' '*' β).codes) (n1 + (K2.em st' '*' β).stars) (n2 + (K2.em st' '*' β).unders)
          { st with stash := st.stash ++ nodes1 2 cfg.esc (m + escCount cfg.esc β.u0) n0 β.segs ++
              [.node (emEl st' (body2 cfg.esc 3 m n0 L β))] } g hA' hokr
        have hlen2 : (st.stash ++ nodes1 2 cfg.esc (m + escCount cfg.esc β.u0) n0 β.segs ++
            [StashItem.node (emEl st' (body2 cfg.esc 3 m n0 L β))]).length = L + (K2.em st' '*' β).stars := by
          simp only [List.length_append, hc2, hL, List.length_cons, List.length_nil, K2.stars, if_true]; omega
        simp only [hlen2] at this
        simp only [stage2L, item2_em, hcl1, hcl2, if_false, if_true, nodesS, itS, hk, hm'', List.append_assoc]
        rw [body2_lv1_irrel cfg.esc m n0 n1 L β, hZ']
        rw [show g + (1 + itS r) = (g + itS r) + 1 by omega]
        have hdata : A ++ (dl st' '*' ++ (body2 cfg.esc 1 m n0 L β ++ (dl st' '*' ++ Z'))) =
            A ++ (emSrc ⟨st', '*', body2 cfg.esc 1 m n0 L β, []⟩ ++ Z') := by
          rw [← dl_eq]; simp only [List.append_assoc]
        rw [hdata, hiLoop_step _ _ _ 14 0 st (by omega) _ _ _ _ hstep]
        simp only [if_true, List.length_append, hc2, hL]
        rw [← hZ']
        simp only [List.append_assoc] at this ⊢
        exact this
      · have hdu : d = '_' := by rcases hd with e | e; exact absurd e hds; exact e
        subst hdu
        have hcl1 : ¬ ((K2.em st' '_' β).cls < 1) := by simp [K2.cls]
        have hcl2 : ¬ ((K2.em st' '_' β).cls < 2) := by simp [K2.cls]
        generalize hL : st.stash.length = L
        generalize hm'' : m + (K2.em st' '_' β).esc cfg.esc + escCount cfg.esc s.t = m''
        generalize hZ' : resid cfg.esc (m + (K2.em st' '_' β).esc cfg.esc) s.t ++
          (stage2L cfg.esc 1 m'' (n0 + (K2.em st' '_' β).codes) (n1 + (K2.em st' '_' β).stars)
            (n2 + (K2.em st' '_' β).unders) r ++ Z) = Z'
        have hdl : '*' ∉ dl st' '_' := by cases st' <;> simp [dl]
        have hu0 : '*' ∉ resid cfg.esc m β.u0 := fun h => (resid_no_delim h1 h2 β.u0 m _ h).1 rfl
        have hA1 : '*' ∉ A ++ (dl st' '_' ++ resid cfg.esc m β.u0) := by
          have := not_mem_of_append3 (C := []) hA hdl (by simp)
          intro h
          rcases List.mem_append.1 h with h | h
          · exact hA h
          · rcases List.mem_append.1 h with h | h
            · exact hdl h
            · exact hu0 h
        have hc1 := nodes1_count 1 (by omega) cfg.esc β.segs (m + escCount cfg.esc β.u0) n0
        have e1 := star_pass1 cfg (f + 1) hs h1 h2 β.segs (A ++ (dl st' '_' ++ resid cfg.esc m β.u0)) (dl st' '_' ++ Z')
          (m + escCount cfg.esc β.u0) n0 n1 n1 st
          (g + itS r) hA1 hβ.segs
        rw [hL, stageL1_lv2_irrel cfg.esc β.segs _ _ _ n1 L] at e1
        have hbody : '*' ∉ body2 cfg.esc 2 m n0 L β := fun h =>
          (bodyCh_facts (body2_bodyCh hs β hβ 2 (by omega) m n0 L _ h)).1 rfl
        have hA2 : '*' ∉ A ++ ((dl st' '_' ++ (body2 cfg.esc 2 m n0 L β ++ dl st' '_')) ++
            resid cfg.esc (m + (K2.em st' '_' β).esc cfg.esc) s.t) := by
          intro h
          rcases List.mem_append.1 h with h | h
          · exact hA h
          · rcases List.mem_append.1 h with h | h
            · rcases List.mem_append.1 h with h | h
              · exact hdl h
              · rcases List.mem_append.1 h with h | h
                · exact hbody h
                · exact hdl h
            · exact hres _ h
        have := ih (A ++ ((dl st' '_' ++ (body2 cfg.esc 2 m n0 L β ++ dl st' '_')) ++
            resid cfg.esc (m + (K2.em st' '_' β).esc cfg.esc) s.t))
          Z m'' (n0 + (K2.em st' '_' β).codes) (n1 + (K2.em st' '_' β).stars) (n2 + (K2.em st' '_' β).unders)
          { st with stash := st.stash ++ nodes1 1 cfg.esc (m + escCount cfg.esc β.u0) n0 β.segs } g hA2 hokr
        have hlen2 : (st.stash ++ nodes1 1 cfg.esc (m + escCount cfg.esc β.u0) n0 β.segs).length =
            L + (K2.em st' '_' β).stars := by
          simp only [List.length_append, hc1, hL, K2.stars, show ¬ ('_' = '*') by decide, if_false]
        simp only [hlen2] at this
        simp only [stage2L, item2_em, hcl1, hcl2, if_false, nodesS, itS, hk, hm'',
          show ¬ ('_' = '*') by decide, List.append_assoc]
        rw [hZ', show g + (count1 1 β.segs + itS r) =
          (g + itS r) + (nodes1 1 cfg.esc (m + escCount cfg.esc β.u0) n0 β.segs).length by rw [hc1]; omega]
        have hdata : A ++ (dl st' '_' ++ (body2 cfg.esc 1 m n0 n1 β ++ (dl st' '_' ++ Z'))) =
            (A ++ (dl st' '_' ++ resid cfg.esc m β.u0)) ++
              (stageL1 cfg.esc 1 (m + escCount cfg.esc β.u0) n0 n1 n1 β.segs ++ (dl st' '_' ++ Z')) := by
          simp only [body2, List.append_assoc]
        rw [hdata, e1, ← hZ']
        simp only [body2, List.append_assoc] at this ⊢
        exact this

theorem isW_head_next2Z (esc : List Char) (t : Str) (m m' n0 n1 n2 : Nat) (r : List Seg2) (Z : Str)
    (h : nextNW2 esc t r) (hz : isW Z.head? = false) :
    isW (resid esc m t ++ (stage2L esc 2 m' n0 n1 n2 r ++ Z)).head? = false := by
  cases t with
  | cons c t' =>
    by_cases hc : c ∈ esc
    · simp only [resid, List.contains_eq_mem, hc, decide_true, if_true, List.append_assoc]
      rw [head_placeholder]; decide
    · have : isWord c = false := by
        rcases h with h | h
        · exact absurd h hc
        · exact h
      simp [resid, hc, isW, this]
  | nil =>
    cases r with
    | nil => simpa [resid, stage2L] using hz
    | cons s' r' =>
      have hs : s'.k.cls ≠ 2 := h
      have hlt : s'.k.cls < 2 := by have := s'.k.cls_lt3; omega
      obtain ⟨n, hn⟩ := item2_ph esc 2 m' n0 n1 n2 s'.k hlt
      simp only [resid, List.nil_append, stage2L, hn, List.append_assoc]
      rw [head_placeholder]; decide

theorem noTriple_stage2LZ {esc : List Char} (hs : EscSup esc) (h1 : '*' ∈ esc) (h2 : '_' ∈ esc) (segs : List Seg2)
    (Z : Str) (hz1 : isW Z.head? = false) (hz2 : NoTriple '_' Z) :
    ∀ (m n0 n1 n2 : Nat) (pw : Bool), Segs2OK esc segs → UnderOK2 esc pw segs →
      NoTriple '_' (stage2L esc 2 m n0 n1 n2 segs ++ Z) := by
  induction segs with
  | nil => intro _ _ _ _ _ _ _; simpa [stage2L] using hz2
  | cons s r ih =>
    intro m n0 n1 n2 pw hok hu
    have hokr : Segs2OK esc r := fun x hx => hok x (List.mem_cons_of_mem _ hx)
    have hrest := ih (m + s.k.esc esc + escCount esc s.t) (n0 + s.k.codes) (n1 + s.k.stars) (n2 + s.k.unders) _ hokr hu.2
    have hres : '_' ∉ resid esc (m + s.k.esc esc) s.t := fun h => (resid_no_delim h1 h2 s.t _ _ h).2 rfl
    have hZ := noTriple_of_no_c '_' _ _ hres hrest
    simp only [stage2L, List.append_assoc]
    by_cases hc : s.k.cls < 2
    · obtain ⟨n, hn⟩ := item2_ph esc 2 m n0 n1 n2 s.k hc
      rw [hn]
      exact noTriple_of_no_c '_' _ _ (not_mem_placeholder (by decide) _) hZ
    · cases hk : s.k with
      | code n b => rw [hk] at hc; simp [K2.cls] at hc
      | em st d β =>
        have hs' := hok s List.mem_cons_self
        rw [hk] at hs' hc
        obtain ⟨hd, hβ⟩ := hs'
        have hdu : d = '_' := by
          rcases hd with e | e
          · rw [e] at hc; simp [K2.cls] at hc
          · exact e
        subst hdu
        have hc2 : s.k.cls = 2 := by rw [hk]; simp [K2.cls]
        have hnext := (hu.1 hc2).2
        have hhead := isW_under_head (isW_head_next2Z esc s.t (m + s.k.esc esc)
          (m + s.k.esc esc + escCount esc s.t) (n0 + s.k.codes) (n1 + s.k.stars) (n2 + s.k.unders) r Z hnext hz1)
        simp only [item2_em, hc, if_false, dl, List.append_assoc]
        have hm : (if st then 2 else 1) ≤ 2 := by cases st <;> simp
        rw [hk] at hhead hZ
        have hbch := body2_bodyCh hs β hβ 2 (by omega) m n0 n1
        obtain ⟨hne, _, _, _⟩ := body2_facts hs '_' (Or.inr rfl) β hβ 2 m n0 n1
        refine noTriple_delim '_' _ ?_ (noTriple_of_no_c '_' _ _
          (fun h => (bodyCh_facts (hbch _ h)).2.1 rfl) (noTriple_delim '_' _ hhead hZ _ hm)) _ hm
        cases hwc : body2 esc 2 m n0 n1 β with
        | nil => exact absurd hwc hne
        | cons x w' =>
          have := (bodyCh_facts (hbch x (by rw [hwc]; simp))).2.1
          simpa using this

theorem under_pass2Z (cfg : Inline.Cfg) (f : Nat) (hs : EscSup cfg.esc) (h1 : '*' ∈ cfg.esc) (h2 : '_' ∈ cfg.esc)
    (segs : List Seg2) :
    ∀ (A Z : Str) (m n0 n1 n2 : Nat) (st : St) (g : Nat), '_' ∉ A → Segs2OK cfg.esc segs →
      UnderOK2 cfg.esc (isW (lastOr none A)) segs → isW Z.head? = false → NoTriple '_' Z →
      hiLoop (applyPattern cfg (fun d p s => handleInline cfg (f + 1) d p s)) (g + itU segs)
        (A ++ (stage2L cfg.esc 2 m n0 n1 n2 segs ++ Z)) 15 0 st =
      hiLoop (applyPattern cfg (fun d p s => handleInline cfg (f + 1) d p s)) g
        (A ++ (stage2L cfg.esc 3 m n0 n1 st.stash.length segs ++ Z)) 15 0
        { st with stash := st.stash ++ nodesU cfg.esc m n0 n1 segs } := by
  induction segs with
  | nil => intro A Z m n0 n1 n2 st g _ _ _ _ _; simp [stage2L, nodesU, itU]
  | cons s r ih =>
    intro A Z m n0 n1 n2 st g hA hok hu hz1 hz2
    have hokr : Segs2OK cfg.esc r := fun x hx => hok x (List.mem_cons_of_mem _ hx)
    have hs' := hok s List.mem_cons_self
    have hres : ∀ m', '_' ∉ resid cfg.esc m' s.t := fun m' h => (resid_no_delim h1 h2 s.t m' _ h).2 rfl
    by_cases hc : s.k.cls < 2
    · -- a placeholder already
      have hne2 : ¬ s.k.cls = 2 := by omega
      obtain ⟨n, hn⟩ := item2_ph cfg.esc 2 m n0 n1 n2 s.k hc
      have hn3 : item2 cfg.esc 3 m n0 n1 st.stash.length s.k = placeholder n := by
        rw [← hn]
        cases hk : s.k with
        | code _ _ => rfl
        | em st' d β =>
          rw [hk] at hc
          have hd : d = '*' := Decidable.by_contra (fun hd => by simp [K2.cls, hd] at hc)
          subst hd
          have h3 : (K2.em st' '*' β).cls < 3 := K2.cls_lt3 _
          simp only [item2_em, hc, h3, if_true]
      have hnodes : nodesU cfg.esc m n0 n1 (s :: r) =
          nodesU cfg.esc (m + s.k.esc cfg.esc + escCount cfg.esc s.t) (n0 + s.k.codes) (n1 + s.k.stars) r := by
        rw [nodesU]
        cases hk : s.k with
        | code _ _ => simp
        | em st' d β =>
          rw [hk] at hne2
          by_cases hd : d = '*'
          · simp [hd]
          · simp [K2.cls, hd] at hne2
      have hun : s.k.unders = 0 := by
        cases hk : s.k with
        | code _ _ => rfl
        | em st' d β =>
          rw [hk] at hne2
          by_cases hd : d = '*'
          · simp [K2.unders, hd]
          · simp [K2.cls, hd] at hne2
      have hu' : UnderOK2 cfg.esc (isW (lastOr none (A ++ (placeholder n ++ resid cfg.esc (m + s.k.esc cfg.esc) s.t)))) r := by
        rw [isW_lastOr_seg]; exact hu.2
      have := ih (A ++ (placeholder n ++ resid cfg.esc (m + s.k.esc cfg.esc) s.t)) Z
        (m + s.k.esc cfg.esc + escCount cfg.esc s.t) (n0 + s.k.codes) (n1 + s.k.stars) n2 st g
        (not_mem_of_append3 hA (not_mem_placeholder (by decide) _) (hres _)) hokr hu' hz1 hz2
      rw [hnodes]
      simp only [stage2L, itU, hn, hn3, hne2, if_false, Nat.zero_add, hun, Nat.add_zero,
        List.append_assoc] at this ⊢
      exact this
    · cases hk : s.k with
      | code n b => rw [hk] at hc; simp [K2.cls] at hc
      | em st' d β =>
        rw [hk] at hs' hc
        obtain ⟨hd, hβ⟩ := hs'
        have hdu : d = '_' := by
          rcases hd with e | e
          · rw [e] at hc; simp [K2.cls] at hc
          · exact e
        subst hdu
        have hcl : (K2.em st' '_' β).cls = 2 := by simp [K2.cls]
        have hc2 : s.k.cls = 2 := by rw [hk]; exact hcl
        obtain ⟨hpw, hnext⟩ := hu.1 hc2
        obtain ⟨hne, _, _, _⟩ := body2_facts hs '_' (Or.inr rfl) β hβ 2 m n0 n1
        have hch := body2_bodyCh hs β hβ 2 (by omega) m n0 n1
        generalize hW : body2 cfg.esc 2 m n0 n1 β = W at *
        obtain ⟨q, hq⟩ := delim_cons ⟨st', '_', W, []⟩
        have hE : emSrc ⟨st', '_', W, []⟩ = '_' :: (q ++ (W ++ EmSeg.delim ⟨st', '_', W, []⟩)) := by
          rw [emSrc, hq]; rfl
        generalize hZ' : resid cfg.esc (m + (K2.em st' '_' β).esc cfg.esc) s.t ++
          (stage2L cfg.esc 2 (m + (K2.em st' '_' β).esc cfg.esc + escCount cfg.esc s.t) (n0 + (K2.em st' '_' β).codes)
            (n1 + (K2.em st' '_' β).stars) (n2 + (K2.em st' '_' β).unders) r ++ Z) = Z'
        have hhm := emHandle_body st' '_' W (Or.inr rfl) hne
          (fun x hx => ⟨(bodyCh_facts (hch x hx)).1, (bodyCh_facts (hch x hx)).2.1⟩) A Z'
          (fun _ => ⟨hpw, by rw [← hZ', ← hk]; exact isW_head_next2Z cfg.esc s.t _ _ _ _ _ r Z hnext hz1, by
            rw [← hZ']
            have hnt := noTriple_stage2LZ hs h1 h2 r Z hz1 hz2
              (m + (K2.em st' '_' β).esc cfg.esc + escCount cfg.esc s.t) (n0 + (K2.em st' '_' β).codes)
              (n1 + (K2.em st' '_' β).stars) (n2 + (K2.em st' '_' β).unders) _ hokr hu.2
            exact noTriple_of_no_c '_' _ _ (hres _) hnt⟩)
        have hin := handleInline_word cfg f W (bodyCh_quiet hch) 16 (Or.inr rfl) st
        have hstep := applyPattern_emG cfg f 15 (Or.inr rfl) '_' rfl A _ Z' hA _ hE st' _ hne _ st st hin hhm
        have hu' : UnderOK2 cfg.esc (isW (lastOr none (A ++ (placeholder st.stash.length ++
            resid cfg.esc (m + (K2.em st' '_' β).esc cfg.esc) s.t)))) r := by
          rw [isW_lastOr_seg]; exact hu.2
        have := ih (A ++ (placeholder st.stash.length ++ resid cfg.esc (m + (K2.em st' '_' β).esc cfg.esc) s.t)) Z
          (m + (K2.em st' '_' β).esc cfg.esc + escCount cfg.esc s.t) (n0 + (K2.em st' '_' β).codes)
          (n1 + (K2.em st' '_' β).stars) (n2 + (K2.em st' '_' β).unders)
          { st with stash := st.stash ++ [.node (emEl st' W)] } g
          (not_mem_of_append3 hA (not_mem_placeholder (by decide) _) (hres _)) hokr hu' hz1 hz2
        have hun : (K2.em st' '_' β).unders = 1 := by simp [K2.unders]
        simp only [stage2L, item2_em, nodesU, itU, hk, hcl, if_true, Nat.lt_irrefl, if_false,
          show (2 : Nat) < 3 by omega, show ¬ ('_' = '*') by decide,
          List.length_append, List.length_cons, List.length_nil, hW, List.append_assoc] at this ⊢
        rw [hZ', show g + (1 + itU r) = (g + itU r) + 1 by omega]
        have hdata : A ++ (dl st' '_' ++ (W ++ (dl st' '_' ++ Z'))) = A ++ (emSrc ⟨st', '_', W, []⟩ ++ Z') := by
          rw [← dl_eq]; simp only [List.append_assoc]
        rw [hdata, hiLoop_step _ _ _ 15 0 st (by omega) _ _ _ _ hstep]
        simp only [if_true]
        rw [← hZ']
        simp only [hun] at this ⊢
        exact this

/-! ### 59. paragraphs of several lines separated by hard breaks: the stages of the pattern loop -/

/-- a further line of a paragraph: the text before its first item, and the items -/
structure Ln where
  t0 : Str
  segs : List Seg2

/-- two spaces and a line feed -/
def brS : Str := [' ', ' ', '\n']

/-- the flat view of the lines after the first: a hard break is a run of ordinary characters -/
def flatLs : List Ln → List FSeg
  | [] => []
  | l :: r => ⟨.junk brS, l.t0⟩ :: (flatten2 l.segs ++ flatLs r)

/-- what a line adds to the counters -/
def escT (esc : List Char) (segs : List Seg2) : Nat := (escs2 esc segs).length
def codesT (segs : List Seg2) : Nat := (codes2 segs).length
def starsT : List Seg2 → Nat
  | [] => 0
  | s :: r => s.k.stars + starsT r
def undersT : List Seg2 → Nat
  | [] => 0
  | s :: r => s.k.unders + undersT r

/-- the lines after the first once code spans and escapes are out (`pb`: the hard breaks are placeholders, from `nb`)
    and the top-level emphasis classes below `lv` are collapsed -/
def stageLs (esc : List Char) (pb : Bool) (lv : Nat) : Nat → Nat → Nat → Nat → Nat → List Ln → Str
  | _, _, _, _, _, [] => []
  | m, n0, nb, n1, n2, l :: r =>
    (if pb then placeholder nb else brS) ++ (resid esc m l.t0 ++
      (stage2L esc lv (m + escCount esc l.t0) n0 n1 n2 l.segs ++
        stageLs esc pb lv (m + escCount esc l.t0 + escT esc l.segs) (n0 + codesT l.segs) (nb + 1)
          (n1 + starsT l.segs) (n2 + undersT l.segs) r))

theorem flat2_counts (esc : List Char) (segs : List Seg2) :
    escCountF esc (flatten2 segs) = escT esc segs ∧ (codesF (flatten2 segs)).length = codesT segs := by
  obtain ⟨h1, h2⟩ := flat2_codes_escs esc segs
  exact ⟨by rw [← stashOfF_length, h2]; rfl, by rw [h1]; rfl⟩

/-- the flat lines after patterns 0 and 1 are the structured lines at level 1, hard breaks still in the text -/
theorem stageF_flatLs (esc : List Char) (more : List Ln) :
    ∀ m n0 nb n1 n2, stageF esc true true m n0 (flatLs more) = stageLs esc false 1 m n0 nb n1 n2 more := by
  induction more with
  | nil => intro _ _ _ _ _; rfl
  | cons l r ih =>
    intro m n0 nb n1 n2
    obtain ⟨hc1, hc2⟩ := flat2_counts esc l.segs
    simp only [flatLs, stageF, stageF_append, itemF, FKind.bump, FKind.isCode, Bool.false_eq_true, if_false, if_true,
      stageLs, hc1, hc2, stageF_flatten2 esc l.segs _ _ n1 n2,
      ih _ _ (nb + 1) (n1 + starsT l.segs) (n2 + undersT l.segs)]

theorem nodesS_length (esc : List Char) (segs : List Seg2) :
    ∀ m n0 n1, (nodesS esc m n0 n1 segs).length = starsT segs := by
  induction segs with
  | nil => intro _ _ _; rfl
  | cons s r ih =>
    intro m n0 n1
    obtain ⟨k, t⟩ := s
    cases k with
    | code n b => simp only [nodesS, starsT, K2.stars, List.nil_append, ih, Nat.zero_add]
    | em st d β =>
      have c1 := nodes1_count 1 (by omega) esc β.segs (m + escCount esc β.u0) n0
      have c2 := nodes1_count 2 (by omega) esc β.segs (m + escCount esc β.u0) n0
      simp only [nodesS, starsT, K2.stars, List.length_append, ih]
      split <;> simp [c1, c2]

theorem nodesU_length (esc : List Char) (segs : List Seg2) :
    ∀ m n0 n1, (nodesU esc m n0 n1 segs).length = undersT segs := by
  induction segs with
  | nil => intro _ _ _; rfl
  | cons s r ih =>
    intro m n0 n1
    obtain ⟨k, t⟩ := s
    cases k with
    | code n b => simp only [nodesU, undersT, K2.unders, List.nil_append, ih, Nat.zero_add]
    | em st d β =>
      simp only [nodesU, undersT, K2.unders, List.length_append, ih]
      split <;> simp

/-- what the stages need of the lines after the first -/
structure LnOK (esc : List Char) (l : Ln) : Prop where
  hsegs : Segs2OK esc l.segs
  tplain : ∀ c, (c ∈ l.t0 ∨ ∃ s ∈ l.segs, c ∈ s.t) → plainCh c
  under : UnderOK2 esc (lastW esc l.t0) l.segs
  first : l.t0 ≠ [] → startsVisible l.t0 = true

/-- the stash entries of patterns 14 and 15 over the lines -/
def nodesSLs (esc : List Char) : Nat → Nat → Nat → List Ln → List StashItem
  | _, _, _, [] => []
  | m, n0, n1, l :: r =>
    nodesS esc (m + escCount esc l.t0) n0 n1 l.segs ++
      nodesSLs esc (m + escCount esc l.t0 + escT esc l.segs) (n0 + codesT l.segs) (n1 + starsT l.segs) r

def nodesULs (esc : List Char) : Nat → Nat → Nat → List Ln → List StashItem
  | _, _, _, [] => []
  | m, n0, n1, l :: r =>
    nodesU esc (m + escCount esc l.t0) n0 n1 l.segs ++
      nodesULs esc (m + escCount esc l.t0 + escT esc l.segs) (n0 + codesT l.segs) (n1 + starsT l.segs) r

def itSLs : List Ln → Nat
  | [] => 0
  | l :: r => itS l.segs + itSLs r

def itULs : List Ln → Nat
  | [] => 0
  | l :: r => itU l.segs + itULs r

theorem star_passLs (cfg : Inline.Cfg) (f : Nat) (hs : EscSup cfg.esc) (h1 : '*' ∈ cfg.esc) (h2 : '_' ∈ cfg.esc)
    (more : List Ln) :
    ∀ (A : Str) (m n0 nb n1 n2 : Nat) (st : St) (g : Nat), '*' ∉ A → (∀ l ∈ more, LnOK cfg.esc l) →
      hiLoop (applyPattern cfg (fun d p s => handleInline cfg (f + 1 + 1) d p s)) (g + itSLs more)
        (A ++ stageLs cfg.esc true 1 m n0 nb n1 n2 more) 14 0 st =
      hiLoop (applyPattern cfg (fun d p s => handleInline cfg (f + 1 + 1) d p s)) g
        (A ++ stageLs cfg.esc true 2 m n0 nb st.stash.length n2 more) 14 0
        { st with stash := st.stash ++ nodesSLs cfg.esc m n0 st.stash.length more } := by
  induction more with
  | nil => intro A m n0 nb n1 n2 st g _ _; simp [stageLs, nodesSLs, itSLs]
  | cons l r ih =>
    intro A m n0 nb n1 n2 st g hA hok
    have hl := hok l List.mem_cons_self
    have hokr : ∀ x ∈ r, LnOK cfg.esc x := fun x hx => hok x (List.mem_cons_of_mem _ hx)
    have hA1 : '*' ∉ A ++ (placeholder nb ++ resid cfg.esc m l.t0) :=
      not_mem_of_append3 hA (not_mem_placeholder (by decide) _) (fun h => (resid_no_delim h1 h2 l.t0 m _ h).1 rfl)
    have e1 := star_pass2Z cfg f hs h1 h2 l.segs (A ++ (placeholder nb ++ resid cfg.esc m l.t0))
      (stageLs cfg.esc true 1 (m + escCount cfg.esc l.t0 + escT cfg.esc l.segs) (n0 + codesT l.segs) (nb + 1)
        (n1 + starsT l.segs) (n2 + undersT l.segs) r)
      (m + escCount cfg.esc l.t0) n0 n1 n2 st (g + itSLs r) hA1 hl.hsegs
    have hstar2 : '*' ∉ stage2L cfg.esc 2 (m + escCount cfg.esc l.t0) n0 st.stash.length n2 l.segs := by
      intro h
      rcases mem_stage2L hs 2 l.segs _ _ _ _ hl.hsegs h with hb | ⟨s, hs', hc, hn⟩ | ⟨_, hlv⟩
      · exact (bodyCh_facts hb).1 rfl
      · exact hn h1
      · simp at hlv
    have hA2 : '*' ∉ A ++ (placeholder nb ++ resid cfg.esc m l.t0) ++
        stage2L cfg.esc 2 (m + escCount cfg.esc l.t0) n0 st.stash.length n2 l.segs := by
      intro h
      rcases List.mem_append.1 h with h | h
      · exact hA1 h
      · exact hstar2 h
    have e2 := ih (A ++ (placeholder nb ++ resid cfg.esc m l.t0) ++
        stage2L cfg.esc 2 (m + escCount cfg.esc l.t0) n0 st.stash.length n2 l.segs)
      (m + escCount cfg.esc l.t0 + escT cfg.esc l.segs) (n0 + codesT l.segs) (nb + 1) (n1 + starsT l.segs)
      (n2 + undersT l.segs)
      { st with stash := st.stash ++ nodesS cfg.esc (m + escCount cfg.esc l.t0) n0 st.stash.length l.segs } g hA2 hokr
    have hlen : (st.stash ++ nodesS cfg.esc (m + escCount cfg.esc l.t0) n0 st.stash.length l.segs).length =
        st.stash.length + starsT l.segs := by rw [List.length_append, nodesS_length]
    simp only [hlen] at e2
    simp only [stageLs, nodesSLs, itSLs, if_true, List.append_assoc] at e1 e2 ⊢
    rw [show g + (itS l.segs + itSLs r) = (g + itSLs r) + itS l.segs by omega, e1, e2]

theorem head_stageLs (esc : List Char) (lv m n0 nb n1 n2 : Nat) (more : List Ln) :
    isW (stageLs esc true lv m n0 nb n1 n2 more).head? = false := by
  cases more with
  | nil => rfl
  | cons l r => simp only [stageLs, if_true]; rw [head_placeholder]; decide

theorem noTriple_stageLs {esc : List Char} (hs : EscSup esc) (h1 : '*' ∈ esc) (h2 : '_' ∈ esc) (more : List Ln) :
    ∀ (m n0 nb n1 n2 : Nat), (∀ l ∈ more, LnOK esc l) → NoTriple '_' (stageLs esc true 2 m n0 nb n1 n2 more) := by
  induction more with
  | nil => intro _ _ _ _ _ _; exact noTriple_nil _
  | cons l r ih =>
    intro m n0 nb n1 n2 hok
    have hl := hok l List.mem_cons_self
    have hrest := ih (m + escCount esc l.t0 + escT esc l.segs) (n0 + codesT l.segs) (nb + 1) (n1 + starsT l.segs)
      (n2 + undersT l.segs) (fun x hx => hok x (List.mem_cons_of_mem _ hx))
    simp only [stageLs, if_true]
    exact noTriple_of_no_c '_' _ _ (not_mem_placeholder (by decide) _)
      (noTriple_of_no_c '_' _ _ (fun h => (resid_no_delim h1 h2 l.t0 m _ h).2 rfl)
        (noTriple_stage2LZ hs h1 h2 l.segs _ (head_stageLs esc 2 _ _ _ _ _ r) hrest _ _ _ _ _ hl.hsegs hl.under))

theorem under_passLs (cfg : Inline.Cfg) (f : Nat) (hs : EscSup cfg.esc) (h1 : '*' ∈ cfg.esc) (h2 : '_' ∈ cfg.esc)
    (more : List Ln) :
    ∀ (A : Str) (m n0 nb n1 n2 : Nat) (st : St) (g : Nat), '_' ∉ A → (∀ l ∈ more, LnOK cfg.esc l) →
      hiLoop (applyPattern cfg (fun d p s => handleInline cfg (f + 1) d p s)) (g + itULs more)
        (A ++ stageLs cfg.esc true 2 m n0 nb n1 n2 more) 15 0 st =
      hiLoop (applyPattern cfg (fun d p s => handleInline cfg (f + 1) d p s)) g
        (A ++ stageLs cfg.esc true 3 m n0 nb n1 st.stash.length more) 15 0
        { st with stash := st.stash ++ nodesULs cfg.esc m n0 n1 more } := by
  induction more with
  | nil => intro A m n0 nb n1 n2 st g _ _; simp [stageLs, nodesULs, itULs]
  | cons l r ih =>
    intro A m n0 nb n1 n2 st g hA hok
    have hl := hok l List.mem_cons_self
    have hokr : ∀ x ∈ r, LnOK cfg.esc x := fun x hx => hok x (List.mem_cons_of_mem _ hx)
    have hA1 : '_' ∉ A ++ (placeholder nb ++ resid cfg.esc m l.t0) :=
      not_mem_of_append3 hA (not_mem_placeholder (by decide) _) (fun h => (resid_no_delim h1 h2 l.t0 m _ h).2 rfl)
    have e1 := under_pass2Z cfg f hs h1 h2 l.segs (A ++ (placeholder nb ++ resid cfg.esc m l.t0))
      (stageLs cfg.esc true 2 (m + escCount cfg.esc l.t0 + escT cfg.esc l.segs) (n0 + codesT l.segs) (nb + 1)
        (n1 + starsT l.segs) (n2 + undersT l.segs) r)
      (m + escCount cfg.esc l.t0) n0 n1 n2 st (g + itULs r) hA1 hl.hsegs
      (by rw [isW_lastOr_seg]; exact hl.under) (head_stageLs cfg.esc 2 _ _ _ _ _ r)
      (noTriple_stageLs hs h1 h2 r _ _ _ _ _ hokr)
    have hund3 : '_' ∉ stage2L cfg.esc 3 (m + escCount cfg.esc l.t0) n0 n1 st.stash.length l.segs := by
      intro h
      rcases mem_stage2L hs 3 l.segs _ _ _ _ hl.hsegs h with hb | ⟨s, hs', hc, hn⟩ | ⟨_, hlv⟩
      · exact (bodyCh_facts hb).2.1 rfl
      · exact hn h2
      · simp at hlv
    have hA2 : '_' ∉ A ++ (placeholder nb ++ resid cfg.esc m l.t0) ++
        stage2L cfg.esc 3 (m + escCount cfg.esc l.t0) n0 n1 st.stash.length l.segs := by
      intro h
      rcases List.mem_append.1 h with h | h
      · exact hA1 h
      · exact hund3 h
    have e2 := ih (A ++ (placeholder nb ++ resid cfg.esc m l.t0) ++
        stage2L cfg.esc 3 (m + escCount cfg.esc l.t0) n0 n1 st.stash.length l.segs)
      (m + escCount cfg.esc l.t0 + escT cfg.esc l.segs) (n0 + codesT l.segs) (nb + 1) (n1 + starsT l.segs)
      (n2 + undersT l.segs)
      { st with stash := st.stash ++ nodesU cfg.esc (m + escCount cfg.esc l.t0) n0 n1 l.segs } g hA2 hokr
    have hlen : (st.stash ++ nodesU cfg.esc (m + escCount cfg.esc l.t0) n0 n1 l.segs).length =
        st.stash.length + undersT l.segs := by rw [List.length_append, nodesU_length]
    simp only [hlen] at e2
    simp only [stageLs, nodesULs, itULs, if_true, List.append_assoc] at e1 e2 ⊢
    rw [show g + (itU l.segs + itULs r) = (g + itULs r) + itU l.segs by omega, e1, e2]

/-! #### pattern 10: the hard breaks -/

theorem find_brS (X R : Str) (hX : '\n' ∉ X) : find brS (X ++ (brS ++ R)) = some X.length := by
  induction X with
  | nil => simp [brS, find_cons]
  | cons c r ih =>
    have hr : '\n' ∉ r := fun h => hX (List.mem_cons_of_mem _ h)
    have hc : c ≠ '\n' := fun e => hX (e ▸ List.mem_cons_self)
    have hno : startsWith (c :: r ++ (brS ++ R)) brS = false := by
      cases hsw : startsWith (c :: r ++ (brS ++ R)) brS with
      | false => rfl
      | true =>
        exfalso
        cases r with
        | nil => simp [brS, startsWith] at hsw
        | cons d r' =>
          cases r' with
          | nil => simp [brS, startsWith] at hsw
          | cons e r'' =>
            simp only [brS, List.cons_append, startsWith_cons_cons, Bool.and_eq_true, decide_eq_true_eq] at hsw
            exact hr (by rw [hsw.2.2.1]; simp)
    have := ih hr
    simp only [List.cons_append] at hno ⊢
    rw [find_cons, hno, this]
    rfl

theorem find_brS_none (D : Str) (hD : '\n' ∉ D) : find brS D = none := by
  induction D with
  | nil => simp [brS]
  | cons c r ih =>
    rw [find_cons_none_iff]
    refine ⟨?_, ih (fun h => hD (List.mem_cons_of_mem _ h))⟩
    cases hsw : startsWith (c :: r) brS with
    | false => rfl
    | true =>
      exfalso
      cases r with
      | nil => simp [brS, startsWith] at hsw
      | cons d r' =>
        cases r' with
        | nil => simp [brS, startsWith] at hsw
        | cons e r'' =>
          simp only [brS, startsWith_cons_cons, Bool.and_eq_true, decide_eq_true_eq] at hsw
          exact hD (by rw [hsw.2.2.1]; simp)

/-- one turn of the pattern loop at a hard break: the three characters become a placeholder, a `br` element is
    stashed -/
theorem applyPattern_br (cfg : Inline.Cfg) (hi : HI) (A R : Str) (hA : '\n' ∉ A) (st : St) :
    applyPattern cfg hi 10 (A ++ (brS ++ R)) 0 st =
      some (A ++ (placeholder st.stash.length ++ R), true, 0,
        { st with stash := st.stash ++ [.node (mkEl "br")] }) := by
  have hf : find [' ', ' ', '\n'] (A ++ ' ' :: ' ' :: '\n' :: R) = some A.length := by
    simpa [brS] using find_brS A R hA
  have hfm : findMatch cfg 10 (A ++ (brS ++ R)) 0 st =
      some (some ⟨.el (mkEl "br"), A.length, (A.length : Int) + 3⟩, st) := by
    simp only [findMatch, List.drop_zero]
    simp [brS, hf]
  have hd : pyDrop (A ++ ' ' :: ' ' :: '\n' :: R) ((A.length : Int) + 3) = R := by
    have := pyDrop_append (A ++ brS) R
    simpa [List.append_assoc, brS] using this
  have t0 : Node.truthy none = false := rfl
  simp only [applyPattern, hfm]
  simp [mkEl, hiNode, hiOpt, hiNodes, stashNode, t0, hd, brS]

theorem nl_not_mem_stage2L {esc : List Char} (hs : EscSup esc) (lv : Nat) (segs : List Seg2) (hok : Segs2OK esc segs)
    (hpl : ∀ s ∈ segs, ∀ c ∈ s.t, plainCh c) (m n0 n1 n2 : Nat) : '\n' ∉ stage2L esc lv m n0 n1 n2 segs := by
  intro h
  rcases mem_stage2L hs lv segs _ _ _ _ hok h with hb | ⟨s, hs', hc, _⟩ | ⟨hd, _⟩
  · exact (bodyCh_facts hb).2.2.2.2.2.2.2 rfl
  · exact (plainCh_facts (hpl s hs' _ hc)).2.1 rfl
  · rcases hd with e | e <;> exact absurd e (by decide)

theorem nl_not_mem_resid {esc : List Char} (t : Str) (ht : ∀ c ∈ t, plainCh c) (m : Nat) : '\n' ∉ resid esc m t := by
  intro h
  rcases mem_resid h with ⟨h1, _⟩ | h1
  · exact (plainCh_facts (ht _ h1)).2.1 rfl
  · exact (phChar_facts h1).2.2.2.2.2.2.2 rfl

/-- pattern 10 on the lines: every hard break becomes a placeholder, in order -/
theorem break_passLs (cfg : Inline.Cfg) (hi : HI) (hs : EscSup cfg.esc) (more : List Ln) :
    ∀ (A : Str) (m n0 nb n1 n2 : Nat) (st : St) (g : Nat), '\n' ∉ A → (∀ l ∈ more, LnOK cfg.esc l) →
      hiLoop (applyPattern cfg hi) (g + more.length) (A ++ stageLs cfg.esc false 1 m n0 nb n1 n2 more) 10 0 st =
      hiLoop (applyPattern cfg hi) g (A ++ stageLs cfg.esc true 1 m n0 st.stash.length n1 n2 more) 10 0
        { st with stash := st.stash ++ List.replicate more.length (.node (mkEl "br")) } := by
  induction more with
  | nil => intro A m n0 nb n1 n2 st g _ _; simp [stageLs]
  | cons l r ih =>
    intro A m n0 nb n1 n2 st g hA hok
    have hl := hok l List.mem_cons_self
    have hokr : ∀ x ∈ r, LnOK cfg.esc x := fun x hx => hok x (List.mem_cons_of_mem _ hx)
    have hstep := applyPattern_br cfg hi A (resid cfg.esc m l.t0 ++
      (stage2L cfg.esc 1 (m + escCount cfg.esc l.t0) n0 n1 n2 l.segs ++
        stageLs cfg.esc false 1 (m + escCount cfg.esc l.t0 + escT cfg.esc l.segs) (n0 + codesT l.segs) (nb + 1)
          (n1 + starsT l.segs) (n2 + undersT l.segs) r)) hA st
    have hA' : '\n' ∉ A ++ (placeholder st.stash.length ++ (resid cfg.esc m l.t0 ++
        stage2L cfg.esc 1 (m + escCount cfg.esc l.t0) n0 n1 n2 l.segs)) := by
      intro h
      rcases List.mem_append.1 h with h | h
      · exact hA h
      · rcases List.mem_append.1 h with h | h
        · exact (phChar_facts (phChar_of_mem_placeholder h)).2.2.2.2.2.2.2 rfl
        · rcases List.mem_append.1 h with h | h
          · exact nl_not_mem_resid l.t0 (fun c hc => hl.tplain c (Or.inl hc)) m h
          · exact nl_not_mem_stage2L hs 1 l.segs hl.hsegs (fun s hs' c hc => hl.tplain c (Or.inr ⟨s, hs', hc⟩)) _ _ _ _ h
    have := ih (A ++ (placeholder st.stash.length ++ (resid cfg.esc m l.t0 ++
        stage2L cfg.esc 1 (m + escCount cfg.esc l.t0) n0 n1 n2 l.segs)))
      (m + escCount cfg.esc l.t0 + escT cfg.esc l.segs) (n0 + codesT l.segs) (nb + 1) (n1 + starsT l.segs)
      (n2 + undersT l.segs) { st with stash := st.stash ++ [.node (mkEl "br")] } g hA' hokr
    simp only [stageLs, Bool.false_eq_true, if_false, if_true, List.length_cons, List.length_append, List.length_nil,
      List.append_assoc] at this ⊢
    rw [show g + (r.length + 1) = (g + r.length) + 1 by omega, hiLoop_step _ _ _ 10 0 st (by omega) _ _ _ _ hstep]
    simp only [if_true]
    rw [this]
    simp [List.replicate_succ]

/-! #### patterns 2–9, 11 and 12 on a text with line feeds -/

/-- no bracket, no `!`, no `&` -/
def MidN (D : Str) : Prop := ∀ c ∈ D, c ≠ '[' ∧ c ≠ '!' ∧ c ≠ '&'

theorem MidN.tail {c : Char} {D : Str} (h : MidN (c :: D)) : MidN D := fun d hd => h d (List.mem_cons_of_mem _ hd)

theorem linkScan_midN (cfg : Inline.Cfg) (stash : List StashItem) (pi : Nat) (data : Str) (s : Str)
    (h : MidN s) (prev : Option Char) (i : Nat) : linkScan cfg stash pi data prev s i = none := by
  induction s generalizing prev i with
  | nil => rfl
  | cons c r ih =>
    have hc := h c List.mem_cons_self
    simp only [linkScan, hc.1, hc.2.1, decide_false, Bool.false_and, Bool.false_eq_true, if_false, ite_self]
    exact ih h.tail _ _

theorem entityScan_midN (s : Str) (h : MidN s) (i : Nat) : entityScan s i = none := by
  induction s generalizing i with
  | nil => rfl
  | cons c r ih =>
    have hc := h c List.mem_cons_self
    simp only [entityScan, hc.2.2, if_false]
    exact ih h.tail _

theorem applyPattern_midN (cfg : Inline.Cfg) (hi : HI) (pi : Nat) (h2 : 2 ≤ pi) (h13 : pi < 13) (h10 : pi ≠ 10)
    (D : Str) (st : St) (hD : MidN D) : applyPattern cfg hi pi D 0 st = some (D, false, 0, st) := by
  have : pi = 2 ∨ pi = 3 ∨ pi = 4 ∨ pi = 5 ∨ pi = 6 ∨ pi = 7 ∨ pi = 8 ∨ pi = 9 ∨ pi = 11 ∨ pi = 12 := by
    omega
  rcases this with rfl | rfl | rfl | rfl | rfl | rfl | rfl | rfl | rfl | rfl <;>
    simp [applyPattern, findMatch, linkScan_midN cfg _ _ D D hD, entityFind, entityScan_midN D hD]

theorem hiLoop_midN (cfg : Inline.Cfg) (hi : HI) (D : Str) (st : St) (hD : MidN D) (g : Nat) (stop : Nat) :
    ∀ (k pi : Nat), pi + k = stop → 2 ≤ pi → stop ≤ 13 → (∀ j, pi ≤ j → j < stop → j ≠ 10) →
      hiLoop (applyPattern cfg hi) (g + k) D pi 0 st = hiLoop (applyPattern cfg hi) g D stop 0 st := by
  intro k
  induction k with
  | zero => intro pi h _ _ _; have : pi = stop := by omega
            subst this; rfl
  | succ k ih =>
    intro pi h h2 hst h10
    rw [show g + (k + 1) = (g + k) + 1 by omega,
      hiLoop_step _ _ D pi 0 st (by omega) _ _ _ _
        (applyPattern_midN cfg hi pi h2 (by omega) (h10 pi (Nat.le_refl _) (by omega)) D st hD)]
    simp only [Bool.false_eq_true, if_false]
    exact ih (pi + 1) (by omega) (by omega) hst (fun j hj1 hj2 => h10 j (by omega) hj2)

theorem applyPattern_br_none (cfg : Inline.Cfg) (hi : HI) (D : Str) (st : St) (hD : '\n' ∉ D) :
    applyPattern cfg hi 10 D 0 st = some (D, false, 0, st) := by
  have := find_brS_none D hD
  simp only [brS] at this
  simp [applyPattern, findMatch, this]

/-! #### pattern 13, and the whole pattern loop -/

theorem nsScan_stageLs {esc : List Char} (hs : EscSup esc) (h1 : '*' ∈ esc) (h2 : '_' ∈ esc) (lv : Nat)
    (more : List Ln) :
    ∀ (m n0 nb n1 n2 : Nat) (prev : Option Char) (i : Nat) (X : Str), (∀ l ∈ more, LnOK esc l) →
      nsScan prev (stageLs esc true lv m n0 nb n1 n2 more ++ X) i =
        nsScan (lastOr prev (stageLs esc true lv m n0 nb n1 n2 more)) X
          (i + (stageLs esc true lv m n0 nb n1 n2 more).length) := by
  induction more with
  | nil => intro _ _ _ _ _ prev i X _; simp [stageLs, lastOr]
  | cons l r ih =>
    intro m n0 nb n1 n2 prev i X hok
    have hl := hok l List.mem_cons_self
    have hph : ∀ n, ∀ c ∈ placeholder n, c ≠ '*' ∧ c ≠ '_' := fun n c hc =>
      ⟨(phChar_facts (phChar_of_mem_placeholder hc)).2.2.2.1, (phChar_facts (phChar_of_mem_placeholder hc)).2.2.2.2.1⟩
    simp only [stageLs, if_true, List.append_assoc]
    rw [nsScan_text _ (hph nb), nsScan_text _ (resid_no_delim h1 h2 l.t0 m),
      nsScan_stage2L hs h1 h2 lv l.segs _ _ _ _ _ _ _ hl.hsegs,
      ih _ _ _ _ _ _ _ _ (fun x hx => hok x (List.mem_cons_of_mem _ hx))]
    simp only [lastOr_append, List.length_append]
    congr 1; omega

theorem its_leLs (more : List Ln) : itSLs more + itULs more + more.length ≤ (flatLs more).length := by
  induction more with
  | nil => simp [itSLs, itULs, flatLs]
  | cons l r ih =>
    have := its_le l.segs
    simp only [itSLs, itULs, flatLs, List.length_cons, List.length_append]
    omega

theorem mem_stageLs {esc : List Char} (hs : EscSup esc) {c : Char} (pb : Bool) (lv : Nat) (more : List Ln) :
    ∀ m n0 nb n1 n2, (∀ l ∈ more, LnOK esc l) → c ∈ stageLs esc pb lv m n0 nb n1 n2 more →
      BodyCh c ∨ (plainCh c ∧ c ∉ esc) ∨ ((c = '*' ∨ c = '_') ∧ lv ≤ (if c = '*' then 1 else 2)) ∨
        (pb = false ∧ (c = ' ' ∨ c = '\n')) := by
  induction more with
  | nil => intro _ _ _ _ _ _ h; simp [stageLs] at h
  | cons l r ih =>
    intro m n0 nb n1 n2 hok h
    have hl := hok l List.mem_cons_self
    simp only [stageLs, List.mem_append] at h
    rcases h with h | h | h | h
    · cases pb with
      | true => exact Or.inl (Or.inr (phChar_of_mem_placeholder (by simpa using h)))
      | false =>
        have : c = ' ' ∨ c = '\n' := by simpa [brS] using h
        exact Or.inr (Or.inr (Or.inr ⟨rfl, this⟩))
    · rcases mem_resid h with ⟨h', hn⟩ | h'
      · exact Or.inr (Or.inl ⟨hl.tplain c (Or.inl h'), hn⟩)
      · exact Or.inl (Or.inr h')
    · rcases mem_stage2L hs lv l.segs _ _ _ _ hl.hsegs h with hb | ⟨s, hs', hc, hn⟩ | hd
      · exact Or.inl hb
      · exact Or.inr (Or.inl ⟨hl.tplain c (Or.inr ⟨s, hs', hc⟩), hn⟩)
      · exact Or.inr (Or.inr (Or.inl hd))
    · exact ih _ _ _ _ _ (fun x hx => hok x (List.mem_cons_of_mem _ hx)) h

/-- the stash entries of the hard breaks -/
def brItems (n : Nat) : List StashItem := List.replicate n (.node (mkEl "br"))

/-- **the pattern loop** on a paragraph of several lines separated by hard breaks -/
theorem handleInlineTop_P (cfg : Inline.Cfg) (hE : EscOK cfg.esc) (hs : EscSup cfg.esc) (t0 : Str)
    (segs : List Seg2) (more : List Ln) (st : St) (hok : Segs2OK cfg.esc segs) (hmore : ∀ l ∈ more, LnOK cfg.esc l)
    (hF : FSegsOK (flatten2 segs ++ flatLs more)) (hj : junctionsF t0 false (flatten2 segs ++ flatLs more))
    (hu : UnderOK2 cfg.esc (lastW cfg.esc t0) segs)
    (hplain : ∀ c, (c ∈ t0 ∨ ∃ s ∈ segs, c ∈ s.t) → plainCh c) :
    ∃ n0 ne m1 nb n1 n2 mL nL, n0 = st.stash.length ∧ ne = n0 + (codesF (flatten2 segs ++ flatLs more)).length ∧
      m1 = ne + escCount cfg.esc t0 ∧ nb = m1 + escCountF cfg.esc (flatten2 segs ++ flatLs more) ∧
      n1 = nb + more.length ∧ n2 = n1 + starsT segs + (nodesSLs cfg.esc mL nL (n1 + starsT segs) more).length ∧
      mL = m1 + escT cfg.esc segs ∧ nL = n0 + codesT segs ∧
    handleInlineTop cfg (escAll cfg.esc t0 ++ stageF cfg.esc false false 0 0 (flatten2 segs ++ flatLs more)) st =
      some (resid cfg.esc ne t0 ++ (stage2L cfg.esc 3 m1 n0 n1 n2 segs ++
          stageLs cfg.esc true 3 mL nL nb (n1 + starsT segs) (n2 + undersT segs) more),
        { st with stash := st.stash ++ (codesF (flatten2 segs ++ flatLs more) ++
            (stashOf cfg.esc t0 ++ stashOfF cfg.esc (flatten2 segs ++ flatLs more)) ++ brItems more.length ++
            (nodesS cfg.esc m1 n0 n1 segs ++ nodesSLs cfg.esc mL nL (n1 + starsT segs) more) ++
            (nodesU cfg.esc m1 n0 n1 segs ++ nodesULs cfg.esc mL nL (n1 + starsT segs) more)) }) := by
  refine ⟨st.stash.length, _, _, _, _, _, _, _, rfl, rfl, rfl, rfl, rfl, rfl, rfl, rfl, ?_⟩
  generalize hFl : flatten2 segs ++ flatLs more = F at *
  generalize hraw : escAll cfg.esc t0 ++ stageF cfg.esc false false 0 0 F = raw
  generalize hn0 : st.stash.length = n0
  generalize hne : n0 + (codesF F).length = ne
  generalize hm1 : ne + escCount cfg.esc t0 = m1
  generalize hnb : m1 + escCountF cfg.esc F = nb
  generalize hn1 : nb + more.length = n1
  generalize hmL : m1 + escT cfg.esc segs = mL
  generalize hnL : n0 + codesT segs = nL
  generalize hN1 : nodesS cfg.esc m1 n0 n1 segs = N1
  generalize hN1L : nodesSLs cfg.esc mL nL (n1 + starsT segs) more = N1L
  generalize hn2 : n1 + starsT segs + N1L.length = n2
  generalize hN2 : nodesU cfg.esc m1 n0 n1 segs = N2
  generalize hN2L : nodesULs cfg.esc mL nL (n1 + starsT segs) more = N2L
  have hplain' : ∀ c, (c ∈ t0 ∨ ∃ s ∈ segs, c ∈ s.t) → c ≠ '&' ∧ c ≠ '\n' := fun c hc =>
    ⟨(plainCh_facts (hplain c hc)).2.2.1, (plainCh_facts (hplain c hc)).2.1⟩
  have hlen : escCount cfg.esc t0 + escCountF cfg.esc F + F.length ≤ raw.length := by
    have h1 := escCount_le cfg.esc t0
    have h2 := stageF_length cfg.esc F hF 0 0
    rw [← hraw, List.length_append]; omega
  have hcl := codesF_le F
  have hnl : itS segs + itU segs + (itSLs more + itULs more + more.length) ≤ F.length := by
    have a1 := its_le segs
    have a2 := its_leLs more
    rw [← hFl, List.length_append]; omega
  obtain ⟨x, hx⟩ : ∃ x, loopFuel raw.length =
      ((((((((((((((((x + 1) + 1) + itULs more) + itU segs) + 1) + itSLs more) + itS segs) + 1) + 2) + 1) + more.length) + 8) + 1) +
        escCountF cfg.esc F) + escCount cfg.esc t0) + 1) + (codesF F).length :=
    ⟨loopFuel raw.length - (escCount cfg.esc t0 + escCountF cfg.esc F + (codesF F).length + itS segs + itU segs +
        itSLs more + itULs more + more.length + 17), by
      have := CodeLaw.loopFuel_ge raw.length; omega⟩
  unfold handleInlineTop depthFuel
  rw [show raw.length + 20 = ((raw.length + 17) + 1 + 1) + 1 from rfl]
  unfold handleInline
  rw [hx]
  generalize hhi : (fun d p s => handleInline cfg ((raw.length + 17) + 1 + 1) d p s) = hi
  rw [← hraw]
  -- pattern 0
  have e0 := code_passF cfg hi hE.bs hE.tick F [] t0 false 0 0 st
    (((((((((((((((((x + 1) + 1) + itULs more) + itU segs) + 1) + itSLs more) + itS segs) + 1) + 2) + 1) + more.length) + 8) + 1) +
        escCountF cfg.esc F) + escCount cfg.esc t0) + 1)) btOK_nil (by simp) hF hj
  simp only [List.nil_append] at e0
  rw [e0, hn0]
  have hbt : btFind (escAll cfg.esc t0 ++ stageF cfg.esc true false 0 n0 F) 0 = none := by
    simp only [btFind, show ¬ (0 > (escAll cfg.esc t0 ++ stageF cfg.esc true false 0 n0 F).length) by omega,
      if_false, if_true, List.drop_zero]
    have := btScan_stageF hE.bs hE.tick F [] t0 0 n0 none 0 btOK_nil (by simp) hF
    simpa using this
  rw [hiLoop_step _ _ _ 0 0 _ (by omega) _ _ _ _ (applyPattern_zero_none cfg _ _ _ hbt)]
  simp only [Bool.false_eq_true, if_false, Nat.zero_add]
  -- pattern 1
  have e1 := escape_chunk cfg hi hE.bs (stageF cfg.esc true false 0 n0 F) t0 []
    { st with stash := st.stash ++ codesF F }
    ((((((((((((((x + 1) + 1) + itULs more) + itU segs) + 1) + itSLs more) + itS segs) + 1) + 2) + 1) + more.length) + 8) + 1) +
      escCountF cfg.esc F) (by simp)
  simp only [List.nil_append] at e1
  rw [e1]
  simp only [List.length_append, hn0, hne]
  have hbs0 : '\\' ∉ resid cfg.esc ne t0 := bs_not_mem_resid hE.bs _ _
  rw [esc_passF cfg hi hE.bs F _ _ _ _ _ hbs0 hF]
  simp only [List.length_append, hn0, hne]
  have hlen0 : (stashOf cfg.esc t0).length = escCount cfg.esc t0 := rfl
  obtain ⟨hc1, hc2⟩ := flat2_counts cfg.esc segs
  rw [hlen0, hm1, ← hFl, stageF_append, stageF_flatten2 cfg.esc segs m1 n0 0 0, hc1, hc2, hmL, hnL,
    stageF_flatLs cfg.esc more mL nL 0 0 0, hFl]
  -- the facts about the characters, at every later stage
  have hfacts : ∀ (pb : Bool) (lv : Nat) (a b c a' b' c' d' e' : Nat) (ch : Char),
      ch ∈ resid cfg.esc ne t0 ++ (stage2L cfg.esc lv m1 a b c segs ++ stageLs cfg.esc pb lv a' b' c' d' e' more) →
      ch ≠ '\\' ∧ ch ≠ '[' ∧ ch ≠ '!' ∧ ch ≠ '&' ∧ (ch = '\n' → pb = false) ∧ (ch = '*' → lv ≤ 1) ∧
        (ch = '_' → lv ≤ 2) := by
    intro pb lv a b c a' b' c' d' e' ch hc
    have hplainf : ∀ ch, plainCh ch → ch ∉ cfg.esc →
        ch ≠ '\\' ∧ ch ≠ '[' ∧ ch ≠ '!' ∧ ch ≠ '&' ∧ (ch = '\n' → pb = false) ∧ (ch = '*' → lv ≤ 1) ∧
          (ch = '_' → lv ≤ 2) := by
      intro ch h hn
      have := plainCh_facts h
      exact ⟨fun e => hn (e ▸ hE.bs), fun e => hn (e ▸ hE.lbr), fun e => hn (e ▸ hE.bang), this.2.2.1,
        fun e => absurd e this.2.1, fun e => absurd (e ▸ hE.star) hn, fun e => absurd (e ▸ hE.under) hn⟩
    have hbody : ∀ ch, BodyCh ch →
        ch ≠ '\\' ∧ ch ≠ '[' ∧ ch ≠ '!' ∧ ch ≠ '&' ∧ (ch = '\n' → pb = false) ∧ (ch = '*' → lv ≤ 1) ∧
          (ch = '_' → lv ≤ 2) := by
      intro ch h
      have := bodyCh_facts h
      exact ⟨this.2.2.2.1, this.2.2.2.2.1, this.2.2.2.2.2.1, this.2.2.2.2.2.2.1, fun e => absurd e this.2.2.2.2.2.2.2,
        fun e => absurd e this.1, fun e => absurd e this.2.1⟩
    have hdel : ∀ ch : Char, (ch = '*' ∨ ch = '_') → lv ≤ (if ch = '*' then 1 else 2) →
        ch ≠ '\\' ∧ ch ≠ '[' ∧ ch ≠ '!' ∧ ch ≠ '&' ∧ (ch = '\n' → pb = false) ∧ (ch = '*' → lv ≤ 1) ∧
          (ch = '_' → lv ≤ 2) := by
      intro ch hd hl
      rcases hd with e | e <;> subst e
      · exact ⟨by decide, by decide, by decide, by decide, fun e => absurd e (by decide), fun _ => by simpa using hl,
          fun e => absurd e (by decide)⟩
      · exact ⟨by decide, by decide, by decide, by decide, fun e => absurd e (by decide),
          fun e => absurd e (by decide), fun _ => by simpa using hl⟩
    rcases List.mem_append.1 hc with h | h
    · rcases mem_resid h with ⟨h, hn⟩ | h
      · exact hplainf ch (hplain ch (Or.inl h)) hn
      · exact hbody ch (Or.inr h)
    · rcases List.mem_append.1 h with h | h
      · rcases mem_stage2L hs lv segs _ _ _ _ hok h with h | ⟨s, hs', h, hn⟩ | ⟨hd, hl⟩
        · exact hbody ch h
        · exact hplainf ch (hplain ch (Or.inr ⟨s, hs', h⟩)) hn
        · exact hdel ch hd hl
      · rcases mem_stageLs hs pb lv more _ _ _ _ _ hmore h with h | ⟨h, hn⟩ | ⟨hd, hl⟩ | ⟨hp, hsp⟩
        · exact hbody ch h
        · exact hplainf ch h hn
        · exact hdel ch hd hl
        · rcases hsp with e | e <;> subst e
          · exact ⟨by decide, by decide, by decide, by decide, fun e => absurd e (by decide),
              fun e => absurd e (by decide), fun e => absurd e (by decide)⟩
          · exact ⟨by decide, by decide, by decide, by decide, fun _ => hp, fun e => absurd e (by decide),
              fun e => absurd e (by decide)⟩
  generalize hD1 : resid cfg.esc ne t0 ++ (stage2L cfg.esc 1 m1 n0 0 0 segs ++
    stageLs cfg.esc false 1 mL nL 0 0 0 more) = D1
  have hbs1 : '\\' ∉ D1 := by
    intro h; rw [← hD1] at h; exact (hfacts false 1 _ _ _ _ _ _ _ _ _ h).1 rfl
  rw [hiLoop_step _ _ _ 1 0 _ (by omega) _ _ _ _ (applyPattern_esc_none cfg hi D1 _ hbs1)]
  simp only [Bool.false_eq_true, if_false]
  -- patterns 2–9
  have hmid : MidN D1 := by
    intro c hc
    rw [← hD1] at hc
    have := hfacts false 1 _ _ _ _ _ _ _ _ _ hc
    exact ⟨this.2.1, this.2.2.1, this.2.2.2.1⟩
  rw [show 1 + 1 = 2 from rfl, hiLoop_midN cfg hi D1 _ hmid _ 10 8 2 rfl (by omega) (by omega)
    (fun j h1 h2 => by omega)]
  -- pattern 10
  have hnlA : '\n' ∉ resid cfg.esc ne t0 ++ stage2L cfg.esc 1 m1 n0 0 0 segs := by
    intro h
    rcases List.mem_append.1 h with h | h
    · exact nl_not_mem_resid t0 (fun c hc => hplain c (Or.inl hc)) ne h
    · exact nl_not_mem_stage2L hs 1 segs hok (fun s hs' c hc => hplain c (Or.inr ⟨s, hs', hc⟩)) _ _ _ _ h
  have ebr := break_passLs cfg hi hs more (resid cfg.esc ne t0 ++ stage2L cfg.esc 1 m1 n0 0 0 segs) mL nL 0 0 0
    { st with stash := st.stash ++ codesF F ++ stashOf cfg.esc t0 ++ stashOfF cfg.esc F }
    (x + 1 + 1 + itULs more + itU segs + 1 + itSLs more + itS segs + 1 + 2 + 1) hnlA hmore
  simp only [List.length_append, hlen0, stashOfF_length, hn0, List.append_assoc,
    show n0 + ((codesF F).length + (escCount cfg.esc t0 + escCountF cfg.esc F)) = nb by omega] at ebr
  rw [← hD1]
  simp only [List.append_assoc]
  rw [ebr]
  generalize hD2 : resid cfg.esc ne t0 ++ (stage2L cfg.esc 1 m1 n0 0 0 segs ++
    stageLs cfg.esc true 1 mL nL nb 0 0 more) = D2
  have hnl2 : '\n' ∉ D2 := by
    intro h; rw [← hD2] at h
    have := (hfacts true 1 _ _ _ _ _ _ _ _ _ h).2.2.2.2.1 rfl
    cases this
  rw [hiLoop_step _ _ _ 10 0 _ (by omega) _ _ _ _ (applyPattern_br_none cfg hi D2 _ hnl2)]
  simp only [Bool.false_eq_true, if_false]
  -- patterns 11 and 12
  have hmid2 : MidN D2 := by
    intro c hc
    rw [← hD2] at hc
    have := hfacts true 1 _ _ _ _ _ _ _ _ _ hc
    exact ⟨this.2.1, this.2.2.1, this.2.2.2.1⟩
  rw [show 10 + 1 = 11 from rfl, hiLoop_midN cfg hi D2 _ hmid2 _ 13 2 11 rfl (by omega) (by omega)
    (fun j h1 h2 => by omega)]
  -- pattern 13
  have hns : nsFind D2 0 = none := by
    rw [← hD2]
    simp only [nsFind, show ¬ (0 > (resid cfg.esc ne t0 ++ (stage2L cfg.esc 1 m1 n0 0 0 segs ++
      stageLs cfg.esc true 1 mL nL nb 0 0 more)).length) by omega, if_false, if_true, List.drop_zero]
    rw [nsScan_text _ (resid_no_delim hE.star hE.under t0 ne),
      nsScan_stage2L hs hE.star hE.under 1 segs m1 n0 0 0 _ _ _ hok]
    have := nsScan_stageLs hs hE.star hE.under 1 more mL nL nb 0 0
      (lastOr (lastOr none (resid cfg.esc ne t0)) (stage2L cfg.esc 1 m1 n0 0 0 segs))
      (0 + (resid cfg.esc ne t0).length + (stage2L cfg.esc 1 m1 n0 0 0 segs).length) [] hmore
    simp only [List.append_nil] at this
    rw [this]; rfl
  rw [hiLoop_step _ _ _ 13 0 _ (by omega) _ _ _ _ (applyPattern_13 cfg hi D2 _ hns)]
  simp only [Bool.false_eq_true, if_false]
  -- pattern 14
  have hs0 : '*' ∉ resid cfg.esc ne t0 := fun h => (resid_no_delim hE.star hE.under t0 ne _ h).1 rfl
  have esp := star_pass2Z cfg (raw.length + 17) hs hE.star hE.under segs (resid cfg.esc ne t0)
    (stageLs cfg.esc true 1 mL nL nb 0 0 more) m1 n0 0 0
    { st with stash := st.stash ++ (codesF F ++ (stashOf cfg.esc t0 ++ (stashOfF cfg.esc F ++
        List.replicate more.length (.node (mkEl "br"))))) }
    (x + 1 + 1 + itULs more + itU segs + 1 + itSLs more) hs0 hok
  simp only [List.length_append, hlen0, stashOfF_length, hn0, hN1, List.length_replicate,
    show n0 + ((codesF F).length + (escCount cfg.esc t0 + (escCountF cfg.esc F + more.length))) = n1 by omega] at esp
  rw [show 13 + 1 = 14 from rfl, ← hD2, ← hhi, esp]
  have hstar2 : '*' ∉ resid cfg.esc ne t0 ++ stage2L cfg.esc 2 m1 n0 n1 0 segs := by
    intro h
    have h' : '*' ∈ resid cfg.esc ne t0 ++ (stage2L cfg.esc 2 m1 n0 n1 0 segs ++
        stageLs cfg.esc true 2 0 0 0 0 0 more) := by
      rcases List.mem_append.1 h with h | h
      · exact List.mem_append_left _ h
      · exact List.mem_append_right _ (List.mem_append_left _ h)
    have := (hfacts true 2 _ _ _ _ _ _ _ _ _ h').2.2.2.2.2.1 rfl
    omega
  have hlenS : (st.stash ++ (codesF F ++ (stashOf cfg.esc t0 ++ (stashOfF cfg.esc F ++
      (List.replicate more.length (StashItem.node (mkEl "br")) ++ N1))))).length = n1 + starsT segs := by
    rw [← hN1]
    simp only [List.length_append, hlen0, stashOfF_length, List.length_replicate, nodesS_length]
    omega
  have espL := star_passLs cfg (raw.length + 17) hs hE.star hE.under more
    (resid cfg.esc ne t0 ++ stage2L cfg.esc 2 m1 n0 n1 0 segs) mL nL nb 0 0
    { st with stash := st.stash ++ (codesF F ++ (stashOf cfg.esc t0 ++ (stashOfF cfg.esc F ++
        List.replicate more.length (.node (mkEl "br"))))) ++ N1 }
    (x + 1 + 1 + itULs more + itU segs + 1) hstar2 hmore
  simp only [List.append_assoc] at espL
  simp only [hlenS, hN1L] at espL
  simp only [List.append_assoc]
  rw [espL]
  have hstarAll : '*' ∉ resid cfg.esc ne t0 ++ (stage2L cfg.esc 2 m1 n0 n1 0 segs ++
      stageLs cfg.esc true 2 mL nL nb (n1 + starsT segs) 0 more) := by
    intro h
    have := (hfacts true 2 _ _ _ _ _ _ _ _ _ h).2.2.2.2.2.1 rfl
    omega
  rw [hhi, hiLoop_step _ _ _ 14 0 _ (by omega) _ _ _ _
    (applyPattern_em_none cfg hi 14 (Or.inl rfl) _ _ (by simpa using hstarAll))]
  simp only [Bool.false_eq_true, if_false]
  -- pattern 15
  have hu0 : '_' ∉ resid cfg.esc ne t0 := fun h => (resid_no_delim hE.star hE.under t0 ne _ h).2 rfl
  have hpw : isW (lastOr none (resid cfg.esc ne t0)) = lastW cfg.esc t0 := by
    rw [isW_lastOr_resid]
    by_cases ht : t0 = []
    · subst ht; rfl
    · simp [ht]
  have hlenU : (st.stash ++ (codesF F ++ (stashOf cfg.esc t0 ++ (stashOfF cfg.esc F ++
      (List.replicate more.length (StashItem.node (mkEl "br")) ++ (N1 ++ N1L)))))).length = n2 := by
    rw [← hn2, ← hN1]
    simp only [List.length_append, hlen0, stashOfF_length, List.length_replicate, nodesS_length]
    omega
  have eup := under_pass2Z cfg (raw.length + 17 + 1) hs hE.star hE.under segs (resid cfg.esc ne t0)
    (stageLs cfg.esc true 2 mL nL nb (n1 + starsT segs) 0 more) m1 n0 n1 0
    { st with stash := st.stash ++ (codesF F ++ (stashOf cfg.esc t0 ++ (stashOfF cfg.esc F ++
        (List.replicate more.length (.node (mkEl "br")) ++ (N1 ++ N1L))))) }
    (x + 1 + 1 + itULs more) hu0 hok (by rw [hpw]; exact hu) (head_stageLs cfg.esc 2 _ _ _ _ _ more)
    (noTriple_stageLs hs hE.star hE.under more _ _ _ _ _ hmore)
  simp only [hlenU, hN2] at eup
  rw [show 14 + 1 = 15 from rfl, ← hhi, eup]
  have hund3 : '_' ∉ resid cfg.esc ne t0 ++ stage2L cfg.esc 3 m1 n0 n1 n2 segs := by
    intro h
    have h' : '_' ∈ resid cfg.esc ne t0 ++ (stage2L cfg.esc 3 m1 n0 n1 n2 segs ++
        stageLs cfg.esc true 3 0 0 0 0 0 more) := by
      rcases List.mem_append.1 h with h | h
      · exact List.mem_append_left _ h
      · exact List.mem_append_right _ (List.mem_append_left _ h)
    have := (hfacts true 3 _ _ _ _ _ _ _ _ _ h').2.2.2.2.2.2 rfl
    omega
  have hlenU2 : (st.stash ++ (codesF F ++ (stashOf cfg.esc t0 ++ (stashOfF cfg.esc F ++
      (List.replicate more.length (StashItem.node (mkEl "br")) ++ (N1 ++ (N1L ++ N2))))))).length =
      n2 + undersT segs := by
    have := hlenU
    rw [← hN2]
    simp only [List.length_append, nodesU_length] at this ⊢
    omega
  have eupL := under_passLs cfg (raw.length + 17 + 1) hs hE.star hE.under more
    (resid cfg.esc ne t0 ++ stage2L cfg.esc 3 m1 n0 n1 n2 segs) mL nL nb (n1 + starsT segs) 0
    { st with stash := st.stash ++ (codesF F ++ (stashOf cfg.esc t0 ++ (stashOfF cfg.esc F ++
        (List.replicate more.length (.node (mkEl "br")) ++ (N1 ++ N1L))))) ++ N2 }
    (x + 1 + 1) hund3 hmore
  simp only [List.append_assoc] at eupL
  simp only [hlenU2, hN2L] at eupL
  simp only [List.append_assoc]
  rw [eupL]
  have hundAll : '_' ∉ resid cfg.esc ne t0 ++ (stage2L cfg.esc 3 m1 n0 n1 n2 segs ++
      stageLs cfg.esc true 3 mL nL nb (n1 + starsT segs) (n2 + undersT segs) more) := by
    intro h
    have := (hfacts true 3 _ _ _ _ _ _ _ _ _ h).2.2.2.2.2.2 rfl
    omega
  rw [hhi, hiLoop_step _ _ _ 15 0 _ (by omega) _ _ _ _
    (applyPattern_em_none cfg hi 15 (Or.inr rfl) _ _ (by simpa using hundAll))]
  simp only [Bool.false_eq_true, if_false]
  simp only [hiLoop, patternCount, show ¬ (15 + 1 < 16) by omega, if_false]
  simp [brItems]

/-! ### 60. `__processPlaceholders` on the residue of a paragraph with hard breaks -/

/-- the turns the loop takes on a line, without the last one -/
def costK (esc : List Char) : Str → List Seg2 → Nat
  | t, [] => escCount esc t
  | t, s :: r => escCount esc t + 1 + costK esc s.t r

/-- the loop over the residue of a line that is followed by more text -/
theorem ppLoop_L2K (esc : List Char) (S : List StashItem) (nested : Node → Option Node) (Z : Str) (g : Nat)
    (K : Str → List Node × Node → Option (List Node × Node)) (hK : NextOK S nested Z g K) (segs : List Seg2) :
    ∀ (P t : Str) (m n0 n1 n2 : Nat) (rp : List Node × Node) (rest : List StashItem), STX ∉ t →
      (∀ s ∈ segs, STX ∉ s.t) →
      S.drop m = stashOf esc t ++ escs2 esc segs ++ rest → Lay2 esc S nested (m + escCount esc t) n0 n1 n2 segs →
      ppLoop S nested (P ++ resid esc m t ++ (stage2L esc 3 (m + escCount esc t) n0 n1 n2 segs ++ Z)) false true
        (g + costK esc t segs) P.length rp.1 rp.2 =
        K (P ++ resid esc m t ++ stage2L esc 3 (m + escCount esc t) n0 n1 n2 segs)
          (foldL2 esc segs (lt (coded esc t) rp)) := by
  induction segs with
  | nil =>
    intro P t m n0 n1 n2 rp rest ht _ hS _
    have := ppLoop_seg esc S nested Z g K hK t P [] m rp (escs2 esc [] ++ rest)
      (by simp) ht (by simpa [List.append_assoc] using hS)
    simp only [List.append_nil, List.nil_append] at this
    simp only [stage2L, List.append_nil, List.nil_append, costK, foldL2]
    exact this
  | cons s r ih =>
    intro P t m n0 n1 n2 rp rest ht hsegs hS hst
    have hs1 := hsegs s List.mem_cons_self
    obtain ⟨⟨hst1, hst2⟩, hst3⟩ := hst
    have hK' := nextOK_nodeG S nested (g + costK esc s.t r) (idx2 n0 n1 n2 s.k)
      (resid esc (m + escCount esc t + s.k.esc esc) s.t ++
        (stage2L esc 3 (m + escCount esc t + s.k.esc esc + escCount esc s.t) (n0 + s.k.codes)
          (n1 + s.k.stars) (n2 + s.k.unders) r ++ Z))
      _ _ hst1 hst2
    have := ppLoop_seg esc S nested _ _ _ hK' t P [] m rp (escs2 esc (s :: r) ++ rest)
      (by simp) ht (by simpa [List.append_assoc] using hS)
    simp only [List.append_nil, List.nil_append] at this
    simp only [stage2L, item2_3, costK, foldL2, List.append_assoc]
    rw [show g + (escCount esc t + 1 + costK esc s.t r) = g + costK esc s.t r + 1 + escCount esc t by omega]
    simp only [List.append_assoc] at this
    rw [this]
    have hS' : S.drop (m + escCount esc t + s.k.esc esc) = stashOf esc s.t ++ escs2 esc r ++ rest := by
      have : S.drop (m + escCount esc t + s.k.esc esc) = ((S.drop m).drop (escCount esc t)).drop (s.k.esc esc) := by
        rw [List.drop_drop, List.drop_drop, Nat.add_assoc]
      rw [this, hS, escs2_cons]
      have e1 : (stashOf esc t).length = escCount esc t := rfl
      simp only [List.append_assoc]
      rw [← e1, List.drop_left, ← bodyEscs2_length esc s.k, List.drop_left]
    have := ih (P ++ resid esc m t ++ placeholder (idx2 n0 n1 n2 s.k)) s.t (m + escCount esc t + s.k.esc esc)
      (n0 + s.k.codes) (n1 + s.k.stars) (n2 + s.k.unders)
      (kfin2 esc s.k :: (lt (coded esc t) rp).1, (lt (coded esc t) rp).2) rest hs1
      (fun x hx => hsegs x (List.mem_cons_of_mem _ hx)) hS' hst3
    simp only [List.append_assoc] at this ⊢
    exact this

theorem procNode_br (f : Str → Bool → Node → Bool → Option (List Node × Node)) :
    procNode f (mkEl "br") = some (mkEl "br") := by
  simp [procNode, petTail, petText, procKids, mkEl, Node.truthy]

/-- every line's hard break and items are where the placeholders say, and `nested` resolves them -/
def LayLs (esc : List Char) (S : List StashItem) (nested : Node → Option Node) :
    Nat → Nat → Nat → Nat → Nat → List Ln → Prop
  | _, _, _, _, _, [] => True
  | m, n0, nb, n1, n2, l :: r =>
    S[nb]? = some (.node (mkEl "br")) ∧ nested (mkEl "br") = some (mkEl "br") ∧
    (∃ rest, S.drop m = stashOf esc l.t0 ++ escs2 esc l.segs ++ rest) ∧
    Lay2 esc S nested (m + escCount esc l.t0) n0 n1 n2 l.segs ∧
    LayLs esc S nested (m + escCount esc l.t0 + escT esc l.segs) (n0 + codesT l.segs) (nb + 1)
      (n1 + starsT l.segs) (n2 + undersT l.segs) r

def foldLs (esc : List Char) : List Ln → List Node × Node → List Node × Node
  | [], rp => rp
  | l :: r, rp => foldLs esc r (foldL2 esc l.segs (lt (coded esc l.t0) (mkEl "br" :: rp.1, rp.2)))

def costLs (esc : List Char) : List Ln → Nat
  | [] => 1
  | l :: r => 1 + costK esc l.t0 l.segs + costLs esc r

/-- the loop over the lines after the first, as what follows the first line -/
theorem nextOK_Ls (esc : List Char) (S : List StashItem) (nested : Node → Option Node) (g : Nat) (more : List Ln) :
    ∀ (m n0 nb n1 n2 : Nat), (∀ l ∈ more, STX ∉ l.t0 ∧ ∀ s ∈ l.segs, STX ∉ s.t) →
      LayLs esc S nested m n0 nb n1 n2 more →
      NextOK S nested (stageLs esc true 3 m n0 nb n1 n2 more) (g + costLs esc more)
        (fun _ st => some ((foldLs esc more st).1.reverse, (foldLs esc more st).2)) := by
  induction more with
  | nil =>
    intro m n0 nb n1 n2 _ _
    simpa [stageLs, costLs, foldLs] using nextOK_end S nested g
  | cons l r ih =>
    intro m n0 nb n1 n2 hstx hlay
    obtain ⟨hb1, hb2, ⟨rest, hdrop⟩, hl2, hlr⟩ := hlay
    have hrest := ih (m + escCount esc l.t0 + escT esc l.segs) (n0 + codesT l.segs) (nb + 1)
      (n1 + starsT l.segs) (n2 + undersT l.segs) (fun x hx => hstx x (List.mem_cons_of_mem _ hx)) hlr
    have hK := nextOK_nodeG S nested (g + costLs esc r + costK esc l.t0 l.segs) nb
      (resid esc m l.t0 ++ (stage2L esc 3 (m + escCount esc l.t0) n0 n1 n2 l.segs ++
        stageLs esc true 3 (m + escCount esc l.t0 + escT esc l.segs) (n0 + codesT l.segs) (nb + 1)
          (n1 + starsT l.segs) (n2 + undersT l.segs) r))
      _ _ hb1 hb2
    intro P' B' rp' hB
    have h1 := hK P' B' rp' hB
    simp only [stageLs, if_true, costLs, foldLs]
    rw [show g + (1 + costK esc l.t0 l.segs + costLs esc r) = g + costLs esc r + costK esc l.t0 l.segs + 1 by omega,
      h1]
    have h2 := ppLoop_L2K esc S nested _ _ _ hrest l.segs (P' ++ B' ++ placeholder nb) l.t0 m n0 n1 n2
      (mkEl "br" :: (lt B' rp').1, (lt B' rp').2) rest (hstx l List.mem_cons_self).1 (hstx l List.mem_cons_self).2
      hdrop hl2
    simp only [List.append_assoc] at h2 ⊢
    rw [h2]

/-- the code elements and the escape codes of the lines after the first, in stash order -/
def codesLs (more : List Ln) : List StashItem := codesF (flatLs more)
def escsLs (esc : List Char) (more : List Ln) : List StashItem := stashOfF esc (flatLs more)

theorem codesLs_cons (l : Ln) (r : List Ln) : codesLs (l :: r) = codes2 l.segs ++ codesLs r := by
  simp only [codesLs, flatLs, codesF_cons_junk, codesF_append, (flat2_codes_escs [] l.segs).1]

theorem escsLs_cons (esc : List Char) (l : Ln) (r : List Ln) :
    escsLs esc (l :: r) = stashOf esc l.t0 ++ (escs2 esc l.segs ++ escsLs esc r) := by
  simp only [escsLs, flatLs, stashOfF, stashOfF_append, (flat2_codes_escs esc l.segs).2]

theorem brItems_succ (n : Nat) : brItems (n + 1) = .node (mkEl "br") :: brItems n := by
  simp [brItems, List.replicate_succ]

theorem getElem?_at (A : List StashItem) (x : StashItem) (B : List StashItem) (n : Nat) (h : n = A.length) :
    (A ++ x :: B)[n]? = some x := by
  subst h; simp

theorem drop_at (A B : List StashItem) (n : Nat) (h : n = A.length) : (A ++ B).drop n = B := by
  subst h; simp

theorem layLs_of (esc : List Char) (hs : EscSup esc) (S : List StashItem) (f : Nat) (more : List Ln) :
    ∀ (m nL nb n1 n2 : Nat) (P1 P2 P3 P4 P5 P6 : List StashItem),
      S = P1 ++ (codesLs more ++ (P2 ++ (escsLs esc more ++ (P3 ++ (brItems more.length ++ (P4 ++
        (nodesSLs esc m nL n1 more ++ (P5 ++ (nodesULs esc m nL n1 more ++ P6))))))))) →
      nL = P1.length → m = P1.length + (codesLs more).length + P2.length →
      nb = m + (escsLs esc more).length + P3.length → n1 = nb + more.length + P4.length →
      n2 = n1 + (nodesSLs esc m nL n1 more).length + P5.length →
      (∀ l ∈ more, LnOK esc l ∧ ∀ s ∈ l.segs, s.k.clean) →
      (∀ l ∈ more, ∀ s ∈ l.segs, ∀ st d β, s.k = .em st d β → β.segs ≠ [] → 0 < f) →
      LayLs esc S (procNode fun d a p i => processPlaceholders S (f + 1 + 1) d a p i) m nL nb n1 n2 more := by
  induction more with
  | nil => intro _ _ _ _ _ _ _ _ _ _ _ _ _ _ _ _ _ _ _; trivial
  | cons l r ih =>
    intro m nL nb n1 n2 P1 P2 P3 P4 P5 P6 hS hnL hm hnb hn1 hn2 hok hf
    obtain ⟨hl, hcl⟩ := hok l List.mem_cons_self
    have hc2 : (codes2 l.segs).length = codesT l.segs := rfl
    have he2 : (escs2 esc l.segs).length = escT esc l.segs := rfl
    have hst0 : (stashOf esc l.t0).length = escCount esc l.t0 := rfl
    simp only [List.length_cons] at hS hn1
    rw [codesLs_cons, escsLs_cons, brItems_succ, nodesSLs, nodesULs] at hS
    rw [codesLs_cons, List.length_append] at hm
    rw [escsLs_cons] at hnb
    simp only [List.length_append] at hnb
    rw [nodesSLs, List.length_append, nodesS_length] at hn2
    have hflat : S = P1 ++ (codes2 l.segs ++ (codesLs r ++ (P2 ++ (stashOf esc l.t0 ++ (escs2 esc l.segs ++ (escsLs esc r ++ (P3 ++ ([StashItem.node (mkEl "br")] ++ (brItems r.length ++ (P4 ++ (nodesS esc (m + escCount esc l.t0) nL n1 l.segs ++ (nodesSLs esc (m + escCount esc l.t0 + escT esc l.segs) (nL + codesT l.segs) (n1 + starsT l.segs) r ++ (P5 ++ (nodesU esc (m + escCount esc l.t0) nL n1 l.segs ++ (nodesULs esc (m + escCount esc l.t0 + escT esc l.segs) (nL + codesT l.segs) (n1 + starsT l.segs) r ++ (P6)))))))))))))))) := by
      rw [hS]; simp only [List.append_assoc, List.cons_append, List.nil_append]
    refine ⟨?_, procNode_br _, ?_, ?_, ?_⟩
    · -- the `br` element
      have e : S = (P1 ++ codes2 l.segs ++ codesLs r ++ P2 ++ stashOf esc l.t0 ++ escs2 esc l.segs ++ escsLs esc r ++ P3) ++ (StashItem.node (mkEl "br") :: (brItems r.length ++ (P4 ++ (nodesS esc (m + escCount esc l.t0) nL n1 l.segs ++ (nodesSLs esc (m + escCount esc l.t0 + escT esc l.segs) (nL + codesT l.segs) (n1 + starsT l.segs) r ++ (P5 ++ (nodesU esc (m + escCount esc l.t0) nL n1 l.segs ++ (nodesULs esc (m + escCount esc l.t0 + escT esc l.segs) (nL + codesT l.segs) (n1 + starsT l.segs) r ++ (P6))))))))) := by
        rw [hflat]; simp only [List.append_assoc, List.cons_append, List.nil_append]
      rw [e]
      exact getElem?_at _ _ _ _ (by simp only [List.length_append, hst0]; omega)
    · -- the escape codes of the line
      have e : S = (P1 ++ codes2 l.segs ++ codesLs r ++ P2) ++ (stashOf esc l.t0 ++ escs2 esc l.segs ++ (escsLs esc r ++ (P3 ++ ([StashItem.node (mkEl "br")] ++ (brItems r.length ++ (P4 ++ (nodesS esc (m + escCount esc l.t0) nL n1 l.segs ++ (nodesSLs esc (m + escCount esc l.t0 + escT esc l.segs) (nL + codesT l.segs) (n1 + starsT l.segs) r ++ (P5 ++ (nodesU esc (m + escCount esc l.t0) nL n1 l.segs ++ (nodesULs esc (m + escCount esc l.t0 + escT esc l.segs) (nL + codesT l.segs) (n1 + starsT l.segs) r ++ (P6)))))))))))) := by
        rw [hflat]; simp only [List.append_assoc]
      refine ⟨escsLs esc r ++ (P3 ++ ([StashItem.node (mkEl "br")] ++ (brItems r.length ++ (P4 ++ (nodesS esc (m + escCount esc l.t0) nL n1 l.segs ++ (nodesSLs esc (m + escCount esc l.t0 + escT esc l.segs) (nL + codesT l.segs) (n1 + starsT l.segs) r ++ (P5 ++ (nodesU esc (m + escCount esc l.t0) nL n1 l.segs ++ (nodesULs esc (m + escCount esc l.t0 + escT esc l.segs) (nL + codesT l.segs) (n1 + starsT l.segs) r ++ (P6)))))))))), ?_⟩
      rw [e]
      exact drop_at _ _ _ (by simp only [List.length_append]; omega)
    · -- the items of the line
      have hcode : CodeLay2 S nL l.segs := by
        have := codeLay2_ok l.segs P1 (codesLs r ++ (P2 ++ (stashOf esc l.t0 ++ (escs2 esc l.segs ++ (escsLs esc r ++ (P3 ++ ([StashItem.node (mkEl "br")] ++ (brItems r.length ++ (P4 ++ (nodesS esc (m + escCount esc l.t0) nL n1 l.segs ++ (nodesSLs esc (m + escCount esc l.t0 + escT esc l.segs) (nL + codesT l.segs) (n1 + starsT l.segs) r ++ (P5 ++ (nodesU esc (m + escCount esc l.t0) nL n1 l.segs ++ (nodesULs esc (m + escCount esc l.t0 + escT esc l.segs) (nL + codesT l.segs) (n1 + starsT l.segs) r ++ (P6)))))))))))))))
        rw [← hnL] at this
        have e : S = P1 ++ codes2 l.segs ++ (codesLs r ++ (P2 ++ (stashOf esc l.t0 ++ (escs2 esc l.segs ++ (escsLs esc r ++ (P3 ++ ([StashItem.node (mkEl "br")] ++ (brItems r.length ++ (P4 ++ (nodesS esc (m + escCount esc l.t0) nL n1 l.segs ++ (nodesSLs esc (m + escCount esc l.t0 + escT esc l.segs) (nL + codesT l.segs) (n1 + starsT l.segs) r ++ (P5 ++ (nodesU esc (m + escCount esc l.t0) nL n1 l.segs ++ (nodesULs esc (m + escCount esc l.t0 + escT esc l.segs) (nL + codesT l.segs) (n1 + starsT l.segs) r ++ (P6))))))))))))))) := by
          rw [hflat]; simp only [List.append_assoc]
        rw [e]; exact this
      generalize hB : (P1 ++ codes2 l.segs ++ codesLs r ++ P2 ++ stashOf esc l.t0 ++ escs2 esc l.segs ++ escsLs esc r ++ P3 ++ [StashItem.node (mkEl "br")] ++ brItems r.length ++ P4) = B
      have hBlen : B.length = n1 := by
        rw [← hB]
        simp only [List.length_append, List.length_cons, List.length_nil, hst0, brItems, List.length_replicate]
        omega
      have hem : EmLay2 esc S (m + escCount esc l.t0) nL n1 n2 l.segs := by
        have := emLay2_ok esc l.segs (m + escCount esc l.t0) nL B (nodesSLs esc (m + escCount esc l.t0 + escT esc l.segs) (nL + codesT l.segs) (n1 + starsT l.segs) r ++ P5) (nodesULs esc (m + escCount esc l.t0 + escT esc l.segs) (nL + codesT l.segs) (n1 + starsT l.segs) r ++ P6) hl.hsegs
        rw [hBlen, nodesS_length] at this
        have e : S = B ++ nodesS esc (m + escCount esc l.t0) nL n1 l.segs ++ (nodesSLs esc (m + escCount esc l.t0 + escT esc l.segs) (nL + codesT l.segs) (n1 + starsT l.segs) r ++ P5) ++ nodesU esc (m + escCount esc l.t0) nL n1 l.segs ++ (nodesULs esc (m + escCount esc l.t0 + escT esc l.segs) (nL + codesT l.segs) (n1 + starsT l.segs) r ++ P6) := by
          rw [hflat, ← hB]; simp only [List.append_assoc]
        rw [e]
        have hn2' : n2 = n1 + starsT l.segs + (nodesSLs esc (m + escCount esc l.t0 + escT esc l.segs) (nL + codesT l.segs) (n1 + starsT l.segs) r ++ P5).length := by
          rw [List.length_append]; omega
        rw [hn2']; exact this
      have hdrop : S.drop (m + escCount esc l.t0) = escs2 esc l.segs ++ (escsLs esc r ++ (P3 ++ ([StashItem.node (mkEl "br")] ++ (brItems r.length ++ (P4 ++ (nodesS esc (m + escCount esc l.t0) nL n1 l.segs ++ (nodesSLs esc (m + escCount esc l.t0 + escT esc l.segs) (nL + codesT l.segs) (n1 + starsT l.segs) r ++ (P5 ++ (nodesU esc (m + escCount esc l.t0) nL n1 l.segs ++ (nodesULs esc (m + escCount esc l.t0 + escT esc l.segs) (nL + codesT l.segs) (n1 + starsT l.segs) r ++ (P6))))))))))) := by
        have e : S = (P1 ++ codes2 l.segs ++ codesLs r ++ P2 ++ stashOf esc l.t0) ++ (escs2 esc l.segs ++ (escsLs esc r ++ (P3 ++ ([StashItem.node (mkEl "br")] ++ (brItems r.length ++ (P4 ++ (nodesS esc (m + escCount esc l.t0) nL n1 l.segs ++ (nodesSLs esc (m + escCount esc l.t0 + escT esc l.segs) (nL + codesT l.segs) (n1 + starsT l.segs) r ++ (P5 ++ (nodesU esc (m + escCount esc l.t0) nL n1 l.segs ++ (nodesULs esc (m + escCount esc l.t0 + escT esc l.segs) (nL + codesT l.segs) (n1 + starsT l.segs) r ++ (P6)))))))))))) := by
          rw [hflat]; simp only [List.append_assoc]
        rw [e]
        exact drop_at _ _ _ (by simp only [List.length_append, hst0]; omega)
      exact lay2_of esc hs S f l.segs _ _ _ _ _ (hf l List.mem_cons_self) hcode hem hdrop hl.hsegs hcl
    · -- the lines that follow
      apply ih (m + escCount esc l.t0 + escT esc l.segs) (nL + codesT l.segs) (nb + 1) (n1 + starsT l.segs)
        (n2 + undersT l.segs) (P1 ++ codes2 l.segs) (P2 ++ (stashOf esc l.t0 ++ escs2 esc l.segs))
        (P3 ++ [.node (mkEl "br")]) (P4 ++ nodesS esc (m + escCount esc l.t0) nL n1 l.segs)
        (P5 ++ nodesU esc (m + escCount esc l.t0) nL n1 l.segs) P6
      · rw [hflat]; simp only [List.append_assoc, List.cons_append, List.nil_append]
      · simp only [List.length_append]; omega
      · simp only [List.length_append, hst0]; omega
      · simp only [List.length_append, List.length_cons, List.length_nil]; omega
      · simp only [List.length_append, nodesS_length]; omega
      · simp only [List.length_append, nodesU_length]; omega
      · exact fun x hx => hok x (List.mem_cons_of_mem _ hx)
      · exact fun x hx => hf x (List.mem_cons_of_mem _ hx)

/-- a hard break with the text that follows it as its tail -/
def brT (esc : List Char) (t : Str) : Node := { mkEl "br" with tail := optStr (coded esc t) }

/-- the children the lines after the first contribute -/
def linesKids (esc : List Char) : List Ln → List Node
  | [] => []
  | l :: r => brT esc l.t0 :: (l.segs.map (tailed2 esc) ++ linesKids esc r)

theorem lt_br (x : Str) (res : List Node) (par : Node) :
    lt x (mkEl "br" :: res, par) = ({ mkEl "br" with tail := optStr x } :: res, par) := by
  cases x with
  | nil => simp [lt, linkText, optStr, mkEl]
  | cons c r => simp [lt, linkText, optStr, mkEl, Node.truthy]

theorem foldLs_closed (esc : List Char) (more : List Ln) :
    ∀ (res : List Node) (par : Node), foldLs esc more (res, par) = ((linesKids esc more).reverse ++ res, par) := by
  induction more with
  | nil => intro res par; rfl
  | cons l r ih =>
    intro res par
    simp only [foldLs, lt_br, foldL2_closed, ih, linesKids, List.reverse_cons, List.reverse_append, List.append_assoc,
      brT, List.cons_append, List.nil_append]

theorem costK_le (esc : List Char) (segs : List Seg2) (t : Str) (m m' n0 n1 n2 : Nat) :
    costK esc t segs ≤ (resid esc m t ++ stage2L esc 3 m' n0 n1 n2 segs).length := by
  have h := costL2_le esc segs t m m' n0 n1 n2
  have e : ∀ (segs : List Seg2) (t : Str), costL2 esc t segs = costK esc t segs + 1 := by
    intro segs
    induction segs with
    | nil => intro t; rfl
    | cons s r ih => intro t; simp only [costL2, costK, ih]; omega
  rw [e] at h; omega

theorem costLs_le (esc : List Char) (more : List Ln) :
    ∀ m n0 nb n1 n2, costLs esc more ≤ (stageLs esc true 3 m n0 nb n1 n2 more).length + 1 := by
  induction more with
  | nil => intro _ _ _ _ _; simp [costLs, stageLs]
  | cons l r ih =>
    intro m n0 nb n1 n2
    have h1 := costK_le esc l.segs l.t0 m (m + escCount esc l.t0) n0 n1 n2
    have h2 := ih (m + escCount esc l.t0 + escT esc l.segs) (n0 + codesT l.segs) (nb + 1) (n1 + starsT l.segs)
      (n2 + undersT l.segs)
    have h3 := placeholder_length_pos nb
    simp only [costLs, stageLs, if_true, List.length_append] at h1 h2 ⊢
    omega

theorem line_sizes (esc : List Char) (more : List Ln) (l : Ln) (hl : l ∈ more) :
    ∀ m n0 n1, codesT l.segs + starsT l.segs + undersT l.segs ≤
      (codesLs more).length + (nodesSLs esc m n0 n1 more).length + (nodesULs esc m n0 n1 more).length := by
  induction more with
  | nil => cases hl
  | cons x r ih =>
    intro m n0 n1
    simp only [codesLs_cons, nodesSLs, nodesULs, List.length_append, nodesS_length, nodesU_length]
    have hx : (codes2 x.segs).length = codesT x.segs := rfl
    rcases List.mem_cons.1 hl with e | e
    · subst e; omega
    · have := ih e (m + escCount esc x.t0 + escT esc x.segs) (n0 + codesT x.segs) (n1 + starsT x.segs)
      omega

/-- **`__processPlaceholders`** on the residue of a paragraph of several lines -/
theorem ppTop_P (esc : List Char) (hs : EscSup esc) (S0 : List StashItem) (html : List Str)
    (t0 : Str) (segs : List Seg2) (more : List Ln) (parent : Node) (hp1 : parent.text = none)
    (hp2 : parent.textAtomic = false) (ht0 : STX ∉ t0) (hsegs : ∀ s ∈ segs, STX ∉ s.t)
    (hstxL : ∀ l ∈ more, STX ∉ l.t0 ∧ ∀ s ∈ l.segs, STX ∉ s.t)
    (hok : Segs2OK esc segs) (hcl : ∀ s ∈ segs, s.k.clean)
    (hmore : ∀ l ∈ more, LnOK esc l ∧ ∀ s ∈ l.segs, s.k.clean) (hne : t0 ≠ [] ∨ segs ≠ [])
    (ne m1 nb n1 n2 mL nL : Nat) (hne' : ne = S0.length + (codes2 segs).length + (codesLs more).length)
    (hm1 : m1 = ne + escCount esc t0) (hmL : mL = m1 + escT esc segs) (hnL : nL = S0.length + codesT segs)
    (hnb : nb = mL + (escsLs esc more).length) (hn1 : n1 = nb + more.length)
    (hn2 : n2 = n1 + starsT segs + (nodesSLs esc mL nL (n1 + starsT segs) more).length) :
    ppTop { stash := S0 ++ (codes2 segs ++ (codesLs more ++ (stashOf esc t0 ++ (escs2 esc segs ++ (escsLs esc more ++
              (brItems more.length ++ (nodesS esc m1 S0.length n1 segs ++
                (nodesSLs esc mL nL (n1 + starsT segs) more ++ (nodesU esc m1 S0.length n1 segs ++
                  nodesULs esc mL nL (n1 + starsT segs) more))))))))), html := html }
        (resid esc ne t0 ++ (stage2L esc 3 m1 S0.length n1 n2 segs ++
          stageLs esc true 3 mL nL nb (n1 + starsT segs) (n2 + undersT segs) more)) false parent true =
      some (segs.map (tailed2 esc) ++ linesKids esc more, { parent with text := optStr (coded esc t0) }) := by
  generalize hS : S0 ++ (codes2 segs ++ (codesLs more ++ (stashOf esc t0 ++ (escs2 esc segs ++ (escsLs esc more ++
      (brItems more.length ++ (nodesS esc m1 S0.length n1 segs ++
        (nodesSLs esc mL nL (n1 + starsT segs) more ++ (nodesU esc m1 S0.length n1 segs ++
          nodesULs esc mL nL (n1 + starsT segs) more))))))))) = S
  have hlen0 : (stashOf esc t0).length = escCount esc t0 := rfl
  have hc2 : (codes2 segs).length = codesT segs := rfl
  have he2 : (escs2 esc segs).length = escT esc segs := rfl
  have hbl : (brItems more.length).length = more.length := by simp [brItems]
  have hdrop : S.drop ne = stashOf esc t0 ++ escs2 esc segs ++ (escsLs esc more ++ (brItems more.length ++
      (nodesS esc m1 S0.length n1 segs ++ (nodesSLs esc mL nL (n1 + starsT segs) more ++
        (nodesU esc m1 S0.length n1 segs ++ nodesULs esc mL nL (n1 + starsT segs) more))))) := by
    have e : S = (S0 ++ codes2 segs ++ codesLs more) ++ (stashOf esc t0 ++ escs2 esc segs ++ (escsLs esc more ++
        (brItems more.length ++ (nodesS esc m1 S0.length n1 segs ++ (nodesSLs esc mL nL (n1 + starsT segs) more ++
          (nodesU esc m1 S0.length n1 segs ++ nodesULs esc mL nL (n1 + starsT segs) more)))))) := by
      rw [← hS]; simp only [List.append_assoc]
    rw [e]
    exact drop_at _ _ _ (by simp only [List.length_append]; omega)
  have hdrop1 : S.drop m1 = escs2 esc segs ++ (escsLs esc more ++ (brItems more.length ++
      (nodesS esc m1 S0.length n1 segs ++ (nodesSLs esc mL nL (n1 + starsT segs) more ++
        (nodesU esc m1 S0.length n1 segs ++ nodesULs esc mL nL (n1 + starsT segs) more))))) := by
    have : S.drop m1 = (S.drop ne).drop (escCount esc t0) := by rw [List.drop_drop, hm1]
    rw [this, hdrop, List.append_assoc, ← hlen0, List.drop_left]
  have hcode : CodeLay2 S S0.length segs := by
    rw [← hS]
    have := codeLay2_ok segs S0 (codesLs more ++ (stashOf esc t0 ++ (escs2 esc segs ++ (escsLs esc more ++
      (brItems more.length ++ (nodesS esc m1 S0.length n1 segs ++
        (nodesSLs esc mL nL (n1 + starsT segs) more ++ (nodesU esc m1 S0.length n1 segs ++
          nodesULs esc mL nL (n1 + starsT segs) more))))))))
    simpa [List.append_assoc] using this
  generalize hB : S0 ++ codes2 segs ++ codesLs more ++ stashOf esc t0 ++ escs2 esc segs ++ escsLs esc more ++
      brItems more.length = B
  have hBlen : B.length = n1 := by
    rw [← hB]; simp only [List.length_append, hlen0, hbl]; omega
  have hem : EmLay2 esc S m1 S0.length n1 n2 segs := by
    have := emLay2_ok esc segs m1 S0.length B (nodesSLs esc mL nL (n1 + starsT segs) more)
      (nodesULs esc mL nL (n1 + starsT segs) more) hok
    rw [hBlen, nodesS_length] at this
    have e : S = B ++ nodesS esc m1 S0.length n1 segs ++ nodesSLs esc mL nL (n1 + starsT segs) more ++
        nodesU esc m1 S0.length n1 segs ++ nodesULs esc mL nL (n1 + starsT segs) more := by
      rw [← hS, ← hB]; simp only [List.append_assoc]
    rw [e, hn2]; exact this
  obtain ⟨hpos1, hpos2⟩ := stash2_sizes esc segs hok m1 S0.length n1
  have hSl : S.length = S0.length + ((codes2 segs).length + ((codesLs more).length + (escCount esc t0 +
      ((escs2 esc segs).length + ((escsLs esc more).length + (more.length +
        ((nodesS esc m1 S0.length n1 segs).length + ((nodesSLs esc mL nL (n1 + starsT segs) more).length +
          ((nodesU esc m1 S0.length n1 segs).length +
            (nodesULs esc mL nL (n1 + starsT segs) more).length))))))))) := by
    rw [← hS]; simp only [List.length_append, hlen0, hbl]
  generalize hRR : resid esc ne t0 ++ (stage2L esc 3 m1 S0.length n1 n2 segs ++
      stageLs esc true 3 mL nL nb (n1 + starsT segs) (n2 + undersT segs) more) = R
  have hRne : R.isEmpty = false := by
    rw [← hRR]
    rcases hne with h | h
    · have := resid_ne_nil esc t0 h ne
      cases hx : resid esc ne t0 with
      | nil => exact absurd hx this
      | cons a b => simp
    · cases segs with
      | nil => exact absurd rfl h
      | cons s r =>
        simp only [stage2L, item2_3]
        generalize idx2 _ _ _ s.k = k
        cases hx : placeholder k with
        | nil => exact absurd hx (placeholder_ne_nil _)
        | cons a b => cases resid esc ne t0 <;> simp
  have hcost1 := costK_le esc segs t0 ne m1 S0.length n1 n2
  have hcost2 := costLs_le esc more mL nL nb (n1 + starsT segs) (n2 + undersT segs)
  obtain ⟨g, hg⟩ : ∃ g, R.length + 2 = (g + costLs esc more) + costK esc t0 segs := by
    refine ⟨R.length + 2 - costLs esc more - costK esc t0 segs, ?_⟩
    rw [← hRR]
    simp only [List.length_append] at hcost1 hcost2 ⊢
    omega
  have hlt : lt (coded esc t0) ([], parent) = ([], { parent with text := optStr (coded esc t0) }) := by
    simp only [lt]; exact CodeLaw.linkText_text _ parent hp1 hp2
  -- what is left is the same for any resolver that satisfies the layout conditions
  have main : ∀ nested : Node → Option Node, Lay2 esc S nested m1 S0.length n1 n2 segs →
      LayLs esc S nested mL nL nb (n1 + starsT segs) (n2 + undersT segs) more →
      ppLoop S nested R false true (R.length + 2) 0 [] parent =
        some (segs.map (tailed2 esc) ++ linesKids esc more, { parent with text := optStr (coded esc t0) }) := by
    intro nested hl2 hlL
    have hK := nextOK_Ls esc S nested g more mL nL nb (n1 + starsT segs) (n2 + undersT segs) hstxL hlL
    have := ppLoop_L2K esc S nested _ _ _ hK segs [] t0 ne S0.length n1 n2 ([], parent) _ ht0 hsegs hdrop
      (by rw [← hm1]; exact hl2)
    simp only [List.nil_append, List.length_nil] at this
    rw [← hm1, hRR] at this
    rw [hg, this, hlt, foldL2_closed, foldLs_closed]
    simp
  simp only [ppTop]
  by_cases hall : segs = [] ∧ more = []
  · obtain ⟨e1, e2⟩ := hall
    subst e1; subst e2
    rw [show S.length + 2 = (S.length + 1) + 1 from rfl]
    unfold processPlaceholders
    simp only [hRne, Bool.false_eq_true, if_false]
    exact main _ trivial trivial
  · have hS1 : 1 ≤ S.length := by
      by_cases hseg : segs = []
      · have : more ≠ [] := fun e => hall ⟨hseg, e⟩
        cases more with
        | nil => exact absurd rfl this
        | cons a b => rw [hSl]; simp only [List.length_cons]; omega
      · have := hpos1 hseg; rw [hSl]; omega
    obtain ⟨f, hf⟩ : ∃ f, S.length = f + 1 := ⟨S.length - 1, by omega⟩
    have hl2 : Lay2 esc S (procNode fun d a p i => processPlaceholders S (f + 1 + 1) d a p i) m1 S0.length n1 n2 segs :=
      lay2_of esc hs S f segs m1 S0.length n1 n2 _
        (fun s hs' st d β hk hne' => by have := hpos2 s hs' st d β hk hne'; rw [hSl] at hf; omega) hcode hem hdrop1 hok hcl
    have hlL : LayLs esc S (procNode fun d a p i => processPlaceholders S (f + 1 + 1) d a p i) mL nL nb
        (n1 + starsT segs) (n2 + undersT segs) more := by
      apply layLs_of esc hs S f more mL nL nb (n1 + starsT segs) (n2 + undersT segs) (S0 ++ codes2 segs)
        (stashOf esc t0 ++ escs2 esc segs) [] (nodesS esc m1 S0.length n1 segs) (nodesU esc m1 S0.length n1 segs) []
      · rw [← hS]; simp only [List.append_assoc, List.nil_append, List.append_nil]
      · simp only [List.length_append]; omega
      · simp only [List.length_append, hlen0]; omega
      · simp only [List.length_nil]; omega
      · simp only [nodesS_length]; omega
      · simp only [nodesU_length]; omega
      · exact hmore
      · intro l hl s hs' st d β hk hne'
        have h1 := (stash2_sizes esc l.segs (hmore l hl).1.hsegs 0 0 0).2 s hs' st d β hk hne'
        have h2 := line_sizes esc more l hl mL nL (n1 + starsT segs)
        simp only [nodesS_length, nodesU_length] at h1
        have hcx : (codes2 l.segs).length = codesT l.segs := rfl
        rw [hSl] at hf
        omega
    rw [hf, show f + 1 + 2 = (f + 1 + 1) + 1 from rfl]
    unfold processPlaceholders
    simp only [hRne, Bool.false_eq_true, if_false]
    exact main _ hl2 hlL

/-! ### 61. a paragraph with hard breaks through the inline processor, prettify, unescape and the serializer -/

def pSrc (esc : List Char) (t0 : Str) (segs : List Seg2) (more : List Ln) : Node :=
  { tag := .name "p".toList, text := some (escAll esc t0 ++ stageF esc false false 0 0 (flatten2 segs ++ flatLs more)) }

def pMid (esc : List Char) (t0 : Str) (segs : List Seg2) (more : List Ln) : Node :=
  { tag := .name "p".toList, text := optStr (coded esc t0), children := segs.map (tailed2 esc) ++ linesKids esc more }

/-- what the inline stage adds to a stash of `n` entries -/
def pItems (esc : List Char) (t0 : Str) (segs : List Seg2) (more : List Ln) (n : Nat) : List StashItem :=
  codes2 segs ++ (codesLs more ++ (stashOf esc t0 ++ (escs2 esc segs ++ (escsLs esc more ++
    (brItems more.length ++
      (nodesS esc (n + (codes2 segs).length + (codesLs more).length + escCount esc t0) n
          (n + (codes2 segs).length + (codesLs more).length + escCount esc t0 + escT esc segs +
            (escsLs esc more).length + more.length) segs ++
        (nodesSLs esc (n + (codes2 segs).length + (codesLs more).length + escCount esc t0 + escT esc segs)
            (n + codesT segs)
            (n + (codes2 segs).length + (codesLs more).length + escCount esc t0 + escT esc segs +
              (escsLs esc more).length + more.length + starsT segs) more ++
          (nodesU esc (n + (codes2 segs).length + (codesLs more).length + escCount esc t0) n
              (n + (codes2 segs).length + (codesLs more).length + escCount esc t0 + escT esc segs +
                (escsLs esc more).length + more.length) segs ++
            nodesULs esc (n + (codes2 segs).length + (codesLs more).length + escCount esc t0 + escT esc segs)
              (n + codesT segs)
              (n + (codes2 segs).length + (codesLs more).length + escCount esc t0 + escT esc segs +
                (escsLs esc more).length + more.length + starsT segs) more))))))))

/-- what the stages need of such a paragraph -/
structure PTxtOK (esc : List Char) (t0 : Str) (segs : List Seg2) (more : List Ln) : Prop where
  ok : Segs2OK esc segs
  lines : ∀ l ∈ more, LnOK esc l ∧ ∀ s ∈ l.segs, s.k.clean
  flat : FSegsOK (flatten2 segs ++ flatLs more)
  junctions : junctionsF t0 false (flatten2 segs ++ flatLs more)
  under : UnderOK2 esc (lastW esc t0) segs
  tplain : ∀ c, (c ∈ t0 ∨ ∃ s ∈ segs, c ∈ s.t) → plainCh c
  clean : ∀ s ∈ segs, s.k.clean
  ne : t0 ≠ [] ∨ segs ≠ []
  first : t0 ≠ [] → startsVisible t0 = true

theorem flatP_codes_escs (esc : List Char) (segs : List Seg2) (more : List Ln) :
    codesF (flatten2 segs ++ flatLs more) = codes2 segs ++ codesLs more ∧
    stashOfF esc (flatten2 segs ++ flatLs more) = escs2 esc segs ++ escsLs esc more ∧
    escCountF esc (flatten2 segs ++ flatLs more) = escT esc segs + (escsLs esc more).length := by
  obtain ⟨h1, h2⟩ := flat2_codes_escs esc segs
  refine ⟨by rw [codesF_append, h1]; rfl, by rw [stashOfF_append, h2]; rfl, ?_⟩
  rw [← stashOfF_length, stashOfF_append, h2, List.length_append]; rfl

theorem visitChild_P (cfg : Inline.Cfg) (hE : EscOK cfg.esc) (hs : EscSup cfg.esc) (t0 : Str) (segs : List Seg2)
    (more : List Ln) (h : PTxtOK cfg.esc t0 segs more) (v : Visit) :
    visitChild cfg (pSrc cfg.esc t0 segs more) v =
      some (pMid cfg.esc t0 segs more, [],
        { v with pushes := ((List.range (segs.map (tailed2 cfg.esc) ++ linesKids cfg.esc more).length).map
                   (fun k => [v.done.length, k])).reverse ++ v.pushes,
                 st := { v.st with stash := v.st.stash ++ pItems cfg.esc t0 segs more v.st.stash.length } }) := by
  have hraw : escAll cfg.esc t0 ++ stageF cfg.esc false false 0 0 (flatten2 segs ++ flatLs more) ≠ [] := by
    rcases h.ne with h' | h'
    · have := escAll_ne_nil (esc := cfg.esc) h'
      cases hx : escAll cfg.esc t0 with
      | nil => exact absurd hx this
      | cons a b => simp
    · intro e
      have h1 := stageF_length cfg.esc _ h.flat 0 0
      have h2 := flatten2_length segs
      rw [(List.append_eq_nil_iff.1 e).2] at h1
      cases segs with
      | nil => exact h' rfl
      | cons s r => simp only [List.length_nil, List.length_cons, List.length_append] at h1 h2; omega
  obtain ⟨hc1, hc2, hc3⟩ := flatP_codes_escs cfg.esc segs more
  obtain ⟨n0, ne, m1, nb, n1, n2, mL, nL, e1, e2, e3, e4, e5, e6, e7, e8, h1⟩ :=
    handleInlineTop_P cfg hE hs t0 segs more v.st h.ok (fun l hl => (h.lines l hl).1) h.flat h.junctions h.under h.tplain
  rw [hc1, hc2] at h1
  rw [hc1, List.length_append] at e2
  rw [hc3] at e4
  have hstx : ∀ c, plainCh c → c ≠ STX := fun c hc => (plainCh_facts hc).2.2.2.2
  have h2 := ppTop_P cfg.esc hs v.st.stash v.st.html t0 segs more
    { tag := .name "p".toList } rfl rfl (fun hm => hstx _ (h.tplain _ (Or.inl hm)) rfl)
    (fun s hs' hm => hstx _ (h.tplain _ (Or.inr ⟨s, hs', hm⟩)) rfl)
    (fun l hl => ⟨fun hm => hstx _ ((h.lines l hl).1.tplain _ (Or.inl hm)) rfl,
      fun s hs' hm => hstx _ ((h.lines l hl).1.tplain _ (Or.inr ⟨s, hs', hm⟩)) rfl⟩)
    h.ok h.clean h.lines h.ne ne m1 nb n1 n2 mL nL (by omega) e3 e7 (by omega) (by omega) e5 e6
  subst e1
  simp only [pSrc, visitChild, truthy_some hraw, Bool.not_false, Bool.and_self, if_true, Option.getD_some, h1]
  have hst : v.st.stash ++ (codes2 segs ++ codesLs more ++ (stashOf cfg.esc t0 ++ (escs2 cfg.esc segs ++ escsLs cfg.esc more)) ++
      brItems more.length ++ (nodesS cfg.esc m1 v.st.stash.length n1 segs ++ nodesSLs cfg.esc mL nL (n1 + starsT segs) more) ++
      (nodesU cfg.esc m1 v.st.stash.length n1 segs ++ nodesULs cfg.esc mL nL (n1 + starsT segs) more)) =
      v.st.stash ++ (codes2 segs ++ (codesLs more ++ (stashOf cfg.esc t0 ++ (escs2 cfg.esc segs ++ (escsLs cfg.esc more ++
        (brItems more.length ++ (nodesS cfg.esc m1 v.st.stash.length n1 segs ++
          (nodesSLs cfg.esc mL nL (n1 + starsT segs) more ++ (nodesU cfg.esc m1 v.st.stash.length n1 segs ++
            nodesULs cfg.esc mL nL (n1 + starsT segs) more))))))))) := by
    simp only [List.append_assoc]
  rw [hst, h2]
  have hc2' : (codes2 segs).length = codesT segs := rfl
  have hI : pItems cfg.esc t0 segs more v.st.stash.length = codes2 segs ++ (codesLs more ++ (stashOf cfg.esc t0 ++
      (escs2 cfg.esc segs ++ (escsLs cfg.esc more ++ (brItems more.length ++ (nodesS cfg.esc m1 v.st.stash.length n1 segs ++
        (nodesSLs cfg.esc mL nL (n1 + starsT segs) more ++ (nodesU cfg.esc m1 v.st.stash.length n1 segs ++
          nodesULs cfg.esc mL nL (n1 + starsT segs) more)))))))) := by
    have a1 : v.st.stash.length + (codes2 segs).length + (codesLs more).length + escCount cfg.esc t0 = m1 := by omega
    have a2 : v.st.stash.length + (codes2 segs).length + (codesLs more).length + escCount cfg.esc t0 + escT cfg.esc segs +
        (escsLs cfg.esc more).length + more.length = n1 := by omega
    have a3 : v.st.stash.length + (codes2 segs).length + (codesLs more).length + escCount cfg.esc t0 + escT cfg.esc segs =
        mL := by omega
    have a4 : v.st.stash.length + codesT segs = nL := by omega
    simp only [pItems, a1, a4]
    rw [show m1 + escT cfg.esc segs + (escsLs cfg.esc more).length + more.length = n1 by omega,
      show m1 + escT cfg.esc segs = mL by omega]
  rw [hI]
  simp [pMid, Node.truthy]

/-- a hard break after `prettify`: a line feed before the text that follows -/
def brP (esc : List Char) (t : Str) : Node := { mkEl "br" with tail := some ('\n' :: coded esc t) }

def linesKidsP (esc : List Char) : List Ln → List Node
  | [] => []
  | l :: r => brP esc l.t0 :: (l.segs.map (tailed2 esc) ++ linesKidsP esc r)

def pPretty (esc : List Char) (t0 : Str) (segs : List Seg2) (more : List Ln) : Node :=
  { tag := .name "p".toList, text := optStr (coded esc t0), children := segs.map (tailed2 esc) ++ linesKidsP esc more,
    tail := some ['\n'] }

/-- a hard break after unescape -/
def brF (t : Str) : Node := { mkEl "br" with tail := some ('\n' :: t) }

def linesKidsF : List Ln → List Node
  | [] => []
  | l :: r => brF l.t0 :: (l.segs.map fin2 ++ linesKidsF r)

def pFin (t0 : Str) (segs : List Seg2) (more : List Ln) : Node :=
  { tag := .name "p".toList, text := optStr t0, children := segs.map fin2 ++ linesKidsF more, tail := some ['\n'] }

def linesOut : List Ln → Str
  | [] => []
  | l :: r => ['<', 'b', 'r', ' ', '/', '>', '\n'] ++ (Ser.escCdata l.t0 ++ (out2 l.segs ++ linesOut r))

def pOut (t0 : Str) (segs : List Seg2) (more : List Ln) : Str :=
  ['<', 'p', '>'] ++ (Ser.escCdata t0 ++ (out2 segs ++ (linesOut more ++ ['<', '/', 'p', '>'])))

theorem bl_br : TreeProc.isBlockLevel TreeProc.defaultBlockLevel (mkEl "br").tag = false := by decide

theorem prettifyKids_nonblock (L : List Node)
    (h : ∀ c ∈ L, TreeProc.isBlockLevel TreeProc.defaultBlockLevel c.tag = false) :
    TreeProc.prettifyKids TreeProc.defaultBlockLevel L = L := by
  induction L with
  | nil => rfl
  | cons c r ih =>
    simp only [TreeProc.prettifyKids, h c List.mem_cons_self, Bool.false_eq_true, if_false,
      ih (fun x hx => h x (List.mem_cons_of_mem _ hx))]

theorem bl_linesKids (esc : List Char) (more : List Ln) :
    ∀ c ∈ linesKids esc more, TreeProc.isBlockLevel TreeProc.defaultBlockLevel c.tag = false := by
  induction more with
  | nil => intro c hc; cases hc
  | cons l r ih =>
    intro c hc
    simp only [linesKids, List.mem_cons, List.mem_append, List.mem_map] at hc
    rcases hc with rfl | ⟨s, _, rfl⟩ | hc
    · exact bl_br
    · exact bl_tailed2 esc s
    · exact ih c hc

theorem mapTree_brT (esc : List Char) (t : Str) (ht : t ≠ [] → startsVisible t = true) :
    TreeProc.mapTree TreeProc.preRule (TreeProc.mapTree TreeProc.brRule (brT esc t)) = brP esc t := by
  have hbl : TreeProc.blankOrNone (optStr (coded esc t)) = (t == []) := by
    cases t with
    | nil => rfl
    | cons c r =>
      have hv := ht (by simp)
      have hc : isSpace c = false := by simpa [startsVisible] using hv
      by_cases hm : c ∈ esc
      · simp [coded, hm, escCode, optStr, TreeProc.blankOrNone, Node.truthy, isBlank,
          show isSpace Inline.STX = false by decide]
      · simp [coded, hm, optStr, TreeProc.blankOrNone, Node.truthy, isBlank, hc]
  cases t with
  | nil => simp [brT, brP, mkEl, TreeProc.mapTree, TreeProc.mapKids, TreeProc.brRule, TreeProc.preRule,
      TreeProc.tagIs, optStr, coded, TreeProc.blankOrNone, Node.truthy]
  | cons c r =>
    have hb := hbl
    simp only [show ((c :: r) == ([] : Str)) = false from rfl] at hb
    have hne : coded esc (c :: r) ≠ [] := coded_ne_nil (by simp)
    obtain ⟨a, b, hab⟩ : ∃ a b, coded esc (c :: r) = a :: b := by
      cases hx : coded esc (c :: r) with
      | nil => exact absurd hx hne
      | cons a b => exact ⟨a, b, rfl⟩
    rw [hab] at hb
    have hb' : TreeProc.blankOrNone (some (a :: b)) = false := hb
    simp [brT, brP, mkEl, TreeProc.mapTree, TreeProc.mapKids, TreeProc.brRule, TreeProc.preRule,
      TreeProc.tagIs, optStr, hab, hb']

theorem mapKids_comp (f g : Node → Node) (L : List Node) :
    TreeProc.mapKids f (TreeProc.mapKids g L) = L.map (fun c => TreeProc.mapTree f (TreeProc.mapTree g c)) := by
  simp [mapKids_eq_map, List.map_map, Function.comp_def]

theorem map_linesKids (esc : List Char) (more : List Ln) (h : ∀ l ∈ more, l.t0 ≠ [] → startsVisible l.t0 = true) :
    (linesKids esc more).map (fun c => TreeProc.mapTree TreeProc.preRule (TreeProc.mapTree TreeProc.brRule c)) =
      linesKidsP esc more := by
  induction more with
  | nil => rfl
  | cons l r ih =>
    simp only [linesKids, linesKidsP, List.map_cons, List.map_append, List.map_map, Function.comp_def,
      mapTree_brT esc l.t0 (h l List.mem_cons_self), mapTree_tailed2, ih (fun x hx => h x (List.mem_cons_of_mem _ hx))]

theorem pretty_P (esc : List Char) (t0 : Str) (segs : List Seg2) (more : List Ln)
    (_hne : t0 ≠ [] ∨ segs ≠ []) (_hfirst : t0 ≠ [] → startsVisible t0 = true)
    (hl : ∀ l ∈ more, l.t0 ≠ [] → startsVisible l.t0 = true) :
    TreeProc.mapTree TreeProc.preRule (TreeProc.mapTree TreeProc.brRule
      (TreeProc.prettifyETree TreeProc.defaultBlockLevel (pMid esc t0 segs more))) = pPretty esc t0 segs more := by
  have hkb : ∀ c ∈ segs.map (tailed2 esc) ++ linesKids esc more,
      TreeProc.isBlockLevel TreeProc.defaultBlockLevel c.tag = false := by
    intro c hc
    rcases List.mem_append.1 hc with hc | hc
    · obtain ⟨s, _, rfl⟩ := List.mem_map.1 hc; exact bl_tailed2 esc s
    · exact bl_linesKids esc more c hc
  have hk := prettifyKids_nonblock _ hkb
  have hp : TreeProc.isBlockLevel TreeProc.defaultBlockLevel (.name "p".toList) = true := by decide
  have h1 : TreeProc.prettifyETree TreeProc.defaultBlockLevel (pMid esc t0 segs more) =
      { tag := .name "p".toList, text := optStr (coded esc t0), children := segs.map (tailed2 esc) ++ linesKids esc more,
        tail := some ['\n'] } := by
    cases hkids : segs.map (tailed2 esc) ++ linesKids esc more with
    | nil =>
      simp [pMid, hkids, TreeProc.prettifyETree, TreeProc.prettifyKids, TreeProc.blankOrNone, Node.truthy]
    | cons c r =>
      have hb := hkb c (by rw [hkids]; simp)
      rw [hkids] at hk
      simp only [pMid, hkids, TreeProc.prettifyETree, hp, hb, hk, Bool.and_false, Bool.false_eq_true, if_false,
        Bool.not_false, Bool.and_self, if_true, TreeProc.blankOrNone, Node.truthy, Bool.true_or,
        show (Tag.name "p".toList == Tag.name "code".toList) = false by decide,
        show (Tag.name "p".toList == Tag.name "pre".toList) = false by decide]
  rw [h1]
  simp only [TreeProc.mapTree, TreeProc.brRule, TreeProc.preRule, TreeProc.tagIs,
    show (Tag.name "p".toList == Tag.name "br".toList) = false by decide,
    show (Tag.name "p".toList == Tag.name "pre".toList) = false by decide, Bool.false_eq_true, if_false, mapKids_comp,
    List.map_append, List.map_map, Function.comp_def, mapTree_tailed2, map_linesKids esc more hl, pPretty]

theorem unescapeKids_app (a b a' b' : List Node) (ha : TreeProc.unescapeKids a = some a')
    (hb : TreeProc.unescapeKids b = some b') : TreeProc.unescapeKids (a ++ b) = some (a' ++ b') := by
  induction a generalizing a' with
  | nil => simp only [TreeProc.unescapeKids, Option.some.injEq] at ha; subst ha; simpa using hb
  | cons c r ih =>
    simp only [TreeProc.unescapeKids] at ha
    cases hc : TreeProc.unescapeTree c with
    | none => rw [hc] at ha; simp at ha
    | some c' =>
      cases hr : TreeProc.unescapeKids r with
      | none => rw [hc, hr] at ha; simp at ha
      | some r' =>
        rw [hc, hr] at ha
        simp only [Option.some.injEq] at ha
        subst ha
        simp only [List.cons_append, TreeProc.unescapeKids, hc, ih r' hr]

theorem unescapeTree_brP (esc : List Char) (t : Str) (ht : Inline.STX ∉ t) :
    TreeProc.unescapeTree (brP esc t) = some (brF t) := by
  have hu := unescapeText_coded (esc := esc) t ht
  have h1 : TreeProc.unescapeText 0 ('\n' :: coded esc t) = some ('\n' :: t) := by
    simp only [TreeProc.unescapeText, show ¬ ('\n' = TreeProc.STX) by decide, if_false, hu, Option.map_some]
  have t1 : Node.truthy (some ('\n' :: coded esc t)) = true := rfl
  have t0 : Node.truthy none = false := rfl
  simp [brP, brF, mkEl, TreeProc.unescapeTree, TreeProc.unescAttrs, TreeProc.unescapeKids, t1, t0, h1]

/-- no STX in the texts of the lines -/
def NoStxLs (more : List Ln) : Prop := ∀ l ∈ more, Inline.STX ∉ l.t0 ∧ NoStx2 l.segs

theorem unescapeKids_lines (esc : List Char) (more : List Ln) (h : NoStxLs more) :
    TreeProc.unescapeKids (linesKidsP esc more) = some (linesKidsF more) := by
  induction more with
  | nil => rfl
  | cons l r ih =>
    obtain ⟨h1, h2⟩ := h l List.mem_cons_self
    have hk := unescapeKids_app _ _ _ _ (unescapeKids_tailed2 esc l.segs h2)
      (ih (fun x hx => h x (List.mem_cons_of_mem _ hx)))
    simp only [linesKidsP, linesKidsF, TreeProc.unescapeKids, unescapeTree_brP esc l.t0 h1, hk]

theorem unesc_P (esc : List Char) (t0 : Str) (segs : List Seg2) (more : List Ln) (h0 : Inline.STX ∉ t0)
    (hs : NoStx2 segs) (hl : NoStxLs more) :
    TreeProc.unescapeTree (pPretty esc t0 segs more) = some (pFin t0 segs more) := by
  have hnl : TreeProc.unescapeText 0 ['\n'] = some ['\n'] := by decide
  have h := unescOpt_coded esc t0 h0
  have t1 : Node.truthy (some ['\n']) = true := rfl
  have hk := unescapeKids_app _ _ _ _ (unescapeKids_tailed2 esc segs hs) (unescapeKids_lines esc more hl)
  simp only [pPretty, pFin, TreeProc.unescapeTree, show (Tag.name "p".toList == Tag.name "code".toList) = false by decide,
    Bool.not_false, Bool.and_true, h, hk, TreeProc.unescAttrs, t1, if_true, Option.getD_some, hnl, Option.map_some]
  by_cases ht : Node.truthy (optStr (coded esc t0)) = true <;> simp [ht]

theorem escCdata_nl (t : Str) : Ser.escCdata ('\n' :: t) = '\n' :: Ser.escCdata t := by
  rw [Ser.onepass_cdata', Ser.onepass_cdata']
  simp [Ser.esc1]

def brOutS : Str := ['<', 'b', 'r', ' ', '/', '>', '\n']

theorem serialize_brF (t : Str) : Ser.serialize .xhtml (brF t) = brOutS ++ Ser.escCdata t := by
  have h1 : Ser.isEmptyTag ['b', 'r'] = true := by decide
  have t1 : Node.truthy (some ('\n' :: t)) = true := rfl
  simp [brF, mkEl, Ser.serialize, Ser.element, Ser.sortAttrs, Ser.writeAttrs, h1, t1, escCdata_nl, brOutS]

theorem serializeList_app (fmt : Ser.Fmt) (a b : List Node) :
    Ser.serializeList fmt (a ++ b) = Ser.serializeList fmt a ++ Ser.serializeList fmt b := by
  induction a with
  | nil => simp [Ser.serializeList]
  | cons c r ih => simp [serializeList_cons, ih, List.append_assoc]

theorem linesOut_cons (l : Ln) (r : List Ln) :
    linesOut (l :: r) = brOutS ++ (Ser.escCdata l.t0 ++ (out2 l.segs ++ linesOut r)) := rfl

theorem serializeList_lines (more : List Ln) : Ser.serializeList .xhtml (linesKidsF more) = linesOut more := by
  induction more with
  | nil => rfl
  | cons l r ih =>
    rw [linesOut_cons, linesKidsF, serializeList_cons, serialize_brF, serializeList_app, serializeList_fin2, ih]
    simp only [List.append_assoc]

theorem ser_P (t0 : Str) (segs : List Seg2) (more : List Ln) :
    Ser.serialize .xhtml (pFin t0 segs more) = pOut t0 segs more ++ ['\n'] := by
  have e7 : Ser.escCdata ['\n'] = ['\n'] := by decide
  have t1 : Node.truthy (some ['\n']) = true := rfl
  simp only [pFin]
  rw [serialize_plain _ _ _ _ _ _ _ (by decide) (by decide)]
  simp only [serializeList_app, serializeList_fin2, serializeList_lines, optEsc, t1, if_true, Option.getD_some, e7, pOut]
  simp [List.append_assoc]

/-! #### the element of the composition -/

def pKids (esc : List Char) (segs : List Seg2) (more : List Ln) : List Node :=
  segs.map (tailed2 esc) ++ linesKids esc more

def pElem (esc : List Char) (t0 : Str) (segs : List Seg2) (more : List Ln) : Elem :=
  ⟨pSrc esc t0 segs more, pMid esc t0 segs more, pItems esc t0 segs more,
   fun i => ((List.range (pKids esc segs more).length).map (fun k => [i, k])).reverse,
   pPretty esc t0 segs more, pFin t0 segs more, pOut t0 segs more⟩

theorem below_brT (esc : List Char) (t : Str) : below (brT esc t) = 0 := by rw [below_eq]; rfl

theorem weight_lines (esc : List Char) (more : List Ln) :
    ((linesKids esc more).map (fun c => 1 + below c)).sum ≤ (flatLs more).length ∧
      (linesKids esc more).length ≤ (flatLs more).length := by
  induction more with
  | nil => simp [linesKids, flatLs]
  | cons l r ih =>
    have h1 := weight_flatten2 esc l.segs
    have h2 := flatten2_length l.segs
    simp only [linesKids, flatLs, List.map_cons, List.map_append, List.sum_cons, List.sum_append, List.length_cons,
      List.length_append, List.length_map, below_brT]
    omega

theorem kids_still {cfg : Inline.Cfg} (hs : EscSup cfg.esc) (b : Nat) (segs : List Seg2) (hok : Segs2OK cfg.esc segs)
    (_hpl : ∀ s ∈ segs, ∀ x ∈ s.t, plainCh x) (hb : (flatten2 segs).length ≤ b) :
    ∀ c ∈ segs.map (tailed2 cfg.esc), StillBelow cfg b c := by
  intro c hc
  obtain ⟨s, hs', rfl⟩ := List.mem_map.1 hc
  apply stillBelow_tailed2 hs b s (hok s hs')
  · rw [tailed2_children]
    cases hkk : s.k with
    | code n b => simp
    | em st d β =>
      have := flatten1_le_flatten2 segs s hs' st d β hkk
      have h3 := flatten1_length β.segs
      simp only [List.length_map]; omega
  · intro c hc
    rw [tailed2_children] at hc
    cases hkk : s.k with
    | code n b => rw [hkk] at hc; cases hc
    | em st d β =>
      rw [hkk] at hc
      obtain ⟨x, hx, rfl⟩ := List.mem_map.1 hc
      have := flatten1_le_flatten2 segs s hs' st d β hkk
      have h3 := kids_le_flatten1 cfg.esc β.segs x hx
      omega

theorem lines_still {cfg : Inline.Cfg} (hs : EscSup cfg.esc) (b : Nat) (more : List Ln)
    (hok : ∀ l ∈ more, LnOK cfg.esc l) (hb : (flatLs more).length ≤ b) :
    ∀ c ∈ linesKids cfg.esc more, StillBelow cfg b c := by
  induction more with
  | nil => intro c hc; cases hc
  | cons l r ih =>
    intro c hc
    have hl := hok l List.mem_cons_self
    simp only [flatLs, List.length_cons, List.length_append] at hb
    simp only [linesKids, List.mem_cons, List.mem_append] at hc
    rcases hc with rfl | hc | hc
    · exact stillBelow_of_childless cfg b _ (by simp [brT, mkEl]) (fun x hx => by simp [brT, mkEl] at hx)
    · exact kids_still hs b l.segs hl.hsegs (fun s hs' x hx => hl.tplain x (Or.inr ⟨s, hs', hx⟩)) (by omega) c hc
    · exact ih (fun x hx => hok x (List.mem_cons_of_mem _ hx)) (by omega) c hc

theorem stx_not_mem_linesOut (esc : List Char) (more : List Ln) (hok : ∀ l ∈ more, LnOK esc l ∧ ∀ s ∈ l.segs, s.k.clean) :
    Post.STX ∉ linesOut more := by
  induction more with
  | nil => intro h; cases h
  | cons l r ih =>
    obtain ⟨hl, hcl⟩ := hok l List.mem_cons_self
    have hstx : ∀ c, plainCh c → c ≠ Post.STX := fun c hc => (plainCh_facts hc).2.2.2.2
    rw [linesOut_cons]
    intro hm
    simp only [List.mem_append] at hm
    rcases hm with hm | hm | hm | hm
    · revert hm; decide
    · exact stx_not_mem_escCdata _ (fun h => hstx _ (hl.tplain _ (Or.inl h)) rfl) hm
    · exact stx_not_mem_out2 esc l.segs hl.hsegs hcl (fun s hs' h => hstx _ (hl.tplain _ (Or.inr ⟨s, hs', h⟩)) rfl) hm
    · exact ih (fun x hx => hok x (List.mem_cons_of_mem _ hx)) hm

theorem pElem_ok (cfg : Inline.Cfg) (hE : EscOK cfg.esc) (hs : EscSup cfg.esc) (t0 : Str) (segs : List Seg2)
    (more : List Ln) (h : PTxtOK cfg.esc t0 segs more) (hstx : NoStx2 segs) (hstxL : NoStxLs more) :
    ElemOK cfg (pElem cfg.esc t0 segs more) where
  visit := fun v => visitChild_P cfg hE hs t0 segs more h v
  pushBound := fun i => by
    have h1 := stageF_length cfg.esc _ h.flat 0 0
    have h2 := flatten2_length segs
    have h3 := (weight_lines cfg.esc more).2
    simp only [pElem, pKids, List.length_reverse, List.length_map, List.length_range, pSrc, Inline.size,
      Option.getD_some, List.length_append, Inline.sizeList] at h1 ⊢
    omega
  weight := fun i => by
    have h1 := stageF_length cfg.esc _ h.flat 0 0
    have h2 := weight_flatten2 cfg.esc segs
    have h3 := (weight_lines cfg.esc more).1
    have hw := mStack_range_all (pMid cfg.esc t0 segs more) i
    have e1 : (pMid cfg.esc t0 segs more).children = pKids cfg.esc segs more := rfl
    rw [e1] at hw
    show mStack (pMid cfg.esc t0 segs more) _ ≤ _
    simp only [pElem]
    rw [hw]
    simp only [pKids, List.map_append, List.sum_append, pSrc, Inline.size, Option.getD_some, List.length_append,
      Inline.sizeList] at h1 ⊢
    omega
  pushOk := fun i q hq => by
    simp only [pElem, List.mem_reverse, List.mem_map, List.mem_range] at hq
    obtain ⟨k, hk, rfl⟩ := hq
    obtain ⟨c, hc⟩ : ∃ c, (pKids cfg.esc segs more)[k]? = some c := by
      cases hx : (pKids cfg.esc segs more)[k]? with
      | none => rw [List.getElem?_eq_none_iff] at hx; omega
      | some c => exact ⟨c, rfl⟩
    have hcm : c ∈ pKids cfg.esc segs more := List.mem_of_getElem? hc
    have h1 := stageF_length cfg.esc _ h.flat 0 0
    have hsize : (flatten2 segs ++ flatLs more).length ≤ Inline.size (pElem cfg.esc t0 segs more).src := by
      simp only [pElem, pSrc, Inline.size, Option.getD_some, List.length_append, Inline.sizeList] at h1 ⊢
      omega
    rw [List.length_append] at hsize
    refine ⟨[k], c, rfl, ?_, ?_⟩
    · simp only [pElem, pMid, getAt]
      have : (List.map (tailed2 cfg.esc) segs ++ linesKids cfg.esc more)[k]? = some c := hc
      rw [this]
    · rcases List.mem_append.1 hcm with hm | hm
      · exact kids_still hs _ segs h.ok (fun s hs' x hx => h.tplain x (Or.inr ⟨s, hs', hx⟩)) (by omega) c hm
      · exact lines_still hs _ more (fun l hl => (h.lines l hl).1) (by omega) c hm
  block := by
    show TreeProc.isBlockLevel TreeProc.defaultBlockLevel (.name "p".toList) = true
    decide
  pretty := pretty_P cfg.esc t0 segs more h.ne h.first (fun l hl => (h.lines l hl).1.first)
  unesc := unesc_P cfg.esc t0 segs more (fun hm => (plainCh_facts (h.tplain _ (Or.inl hm))).2.2.2.2 rfl) hstx hstxL
  ser := ser_P t0 segs more
  outOk := by
    refine ⟨?_, rfl, ?_⟩
    · intro hm
      have hstx' : ∀ c, plainCh c → c ≠ Post.STX := fun c hc => (plainCh_facts hc).2.2.2.2
      have hE0 : Post.STX ∉ Ser.escCdata t0 :=
        stx_not_mem_escCdata _ (fun hm' => hstx' _ (h.tplain _ (Or.inl hm')) rfl)
      have hEs : Post.STX ∉ out2 segs := stx_not_mem_out2 cfg.esc segs h.ok h.clean
        (fun s hs' hm' => hstx' _ (h.tplain _ (Or.inr ⟨s, hs', hm'⟩)) rfl)
      have hEl := stx_not_mem_linesOut cfg.esc more h.lines
      simp only [pElem, pOut, List.mem_append] at hm
      rcases hm with hm | hm | hm | hm | hm
      · revert hm; decide
      · exact hE0 hm
      · exact hEs hm
      · exact hEl hm
      · revert hm; decide
    · have e : (pElem cfg.esc t0 segs more).out =
          (['<', 'p', '>'] ++ (Ser.escCdata t0 ++ (out2 segs ++ (linesOut more ++ ['<', '/', 'p'])))) ++ ['>'] := by
        simp [pElem, pOut]
      rw [e, List.getLast?_append]; rfl

/-! ### 62. the block parser on a paragraph of several lines -/

/-- the start of a line that no block processor takes for anything but paragraph text -/
def LineStart (l : Str) : Prop :=
  ∃ c tail, l = c :: tail ∧ isSpace c = false ∧ c ≠ '=' ∧ (c ∉ lineEsc ∨ EmStart l)

theorem startOk_lineStart {l : Str} (h : LineStart l) (Z : Str) : startOk ['#', '>', '['] (l ++ Z) = true := by
  obtain ⟨c, tail, rfl, hcs, _, hce⟩ := h
  have hcsp : (c == ' ') = false := by
    have : c ≠ ' ' := by intro e; subst e; exact absurd hcs (by decide)
    simpa using this
  simp only [List.cons_append, startOk, List.dropWhile_cons, hcsp, Bool.false_eq_true, if_false]
  rcases hce with hce | ⟨d, m, x, tl, he, hd, hm1, _, _, _⟩
  · have h1 : c ≠ '#' := fun e => hce (by rw [e]; decide)
    have h2 : c ≠ '>' := fun e => hce (by rw [e]; decide)
    have h3 : c ≠ '[' := fun e => hce (by rw [e]; decide)
    simp [h1, h2, h3]
  · obtain ⟨m', rfl⟩ : ∃ m', m = m' + 1 := ⟨m - 1, by omega⟩
    simp only [List.replicate_succ, List.cons_append, List.cons.injEq] at he
    rw [he.1]
    rcases hd with e | e <;> rw [e] <;> decide

theorem hrLine_lineStart (i : Nat) (hi3 : i ≤ 3) {l : Str} (h : LineStart l) : hrLine (spaces i ++ l) = false := by
  obtain ⟨c, tail, rfl, hcs, _, hce⟩ := h
  have hcsp : c ≠ ' ' := by intro e; subst e; exact absurd hcs (by decide)
  have h0 : countPrefix ' ' (some 3) (spaces i ++ c :: tail) = i := countPrefix_spaces i 3 c tail hi3 hcsp
  have hdrop : (spaces i ++ c :: tail).drop i = c :: tail := by rw [List.drop_left' (by simp [spaces])]
  rcases hce with hce | ⟨d, m, x, tl, he, hd, hm1, hm2, hxd, hxsp⟩
  · have h1 : c ≠ '-' := fun e => hce (by rw [e]; decide)
    have h2 : c ≠ '_' := fun e => hce (by rw [e]; decide)
    have h3 : c ≠ '*' := fun e => hce (by rw [e]; decide)
    simp [hrLine, h0, hdrop, h1, h2, h3]
  · obtain ⟨m', rfl⟩ : ∃ m', m = m' + 1 := ⟨m - 1, by omega⟩
    have hX : List.replicate (m' + 1) d ++ x :: tl = d :: (List.replicate m' d ++ x :: tl) := by
      simp [List.replicate_succ]
    have hcd : c = d := by rw [hX] at he; simpa using (List.cons.inj he).1
    subst hcd
    simp only [hrLine, h0, hdrop]
    have hsc := hrScan_delims c x tl hxd hxsp (m' + 1) 0 0
    rw [← he] at hsc
    have hdd : (c = '-' || c = '_' || c = '*') = true := by rcases hd with e | e <;> rw [e] <;> decide
    simp only [hdd, if_true, hsc]
    have : decide (0 + (m' + 1) ≥ 3) = false := by simp; omega
    simp only [this, Bool.false_and]

theorem find_nl_app {a : Str} (h : '\n' ∉ a) (r : Str) : find ['\n'] (a ++ '\n' :: r) = some a.length := by
  induction a with
  | nil => simp [find_cons]
  | cons c a ih =>
    have hc : c ≠ '\n' := fun e => h (e ▸ List.mem_cons_self)
    simp only [List.cons_append, find_cons, startsWith_cons_cons, hc, decide_false, Bool.false_and,
      Bool.false_eq_true, if_false, ih (fun hm => h (List.mem_cons_of_mem _ hm)), Option.map_some, List.length_cons]

theorem firstLine_noNl {a : Str} (h : '\n' ∉ a) : firstLine a = a := by
  induction a with
  | nil => rfl
  | cons c r ih =>
    have hc : c ≠ '\n' := fun e => h (e ▸ List.mem_cons_self)
    rw [firstLine_cons]
    simp [hc, ih (fun hm => h (List.mem_cons_of_mem _ hm))]

theorem firstLine_app_nl {a : Str} (h : '\n' ∉ a) (r : Str) : firstLine (a ++ '\n' :: r) = a := by
  induction a with
  | nil => rw [List.nil_append, firstLine_cons]; simp
  | cons c a ih =>
    have hc : c ≠ '\n' := fun e => h (e ▸ List.mem_cons_self)
    rw [List.cons_append, firstLine_cons]
    simp [hc, ih (fun hm => h (List.mem_cons_of_mem _ hm))]

theorem startsOkNl_append_noNl (esc : List Char) (A B : Str) (hA : '\n' ∉ A) :
    startsOkNl esc (A ++ B) = startsOkNl esc B := by
  induction A with
  | nil => rfl
  | cons c r ih =>
    have hc : c ≠ '\n' := fun e => hA (e ▸ List.mem_cons_self)
    have hcb : (c != '\n') = true := by simpa using hc
    simp only [List.cons_append, startsOkNl, hcb, Bool.true_or, Bool.true_and]
    exact ih (fun h => hA (List.mem_cons_of_mem _ h))

theorem startsOkNl_lines (Ls : List Str) (h : ∀ l ∈ Ls, LineStart l ∧ '\n' ∉ l) :
    startsOkNl ['#', '>', '['] (joinLines Ls) = true := by
  induction Ls with
  | nil => rfl
  | cons a r ih =>
    cases r with
    | nil => exact startsOkNl_of_no_nl _ _ (h a List.mem_cons_self).2
    | cons b r' =>
      rw [joinLines_cons_cons, startsOkNl_append_noNl _ _ _ (h a List.mem_cons_self).2]
      have ihr := ih (fun x hx => h x (List.mem_cons_of_mem _ hx))
      have hb := h b (by simp)
      have hso : startOk ['#', '>', '['] (joinLines (b :: r')) = true := by
        cases r' with
        | nil => simpa [joinLines_single] using startOk_lineStart hb.1 []
        | cons c r'' => rw [joinLines_cons_cons]; exact startOk_lineStart hb.1 _
      simp only [startsOkNl, bne_self_eq_false, Bool.false_or, hso, ihr, Bool.and_self]

theorem lines_indent (i : Nat) (Ls : List Str) (hne : Ls ≠ []) (h : ∀ l ∈ Ls, '\n' ∉ l) :
    ∀ l ∈ lines (spaces i ++ joinLines Ls), ∃ j l', j ≤ i ∧ l' ∈ Ls ∧ l = spaces j ++ l' := by
  obtain ⟨a, r, rfl⟩ : ∃ a r, Ls = a :: r := by
    cases Ls with
    | nil => exact absurd rfl hne
    | cons a r => exact ⟨a, r, rfl⟩
  have e : spaces i ++ joinLines (a :: r) = joinLines ((spaces i ++ a) :: r) := by
    cases r with
    | nil => rfl
    | cons b r' => rw [joinLines_cons_cons, joinLines_cons_cons, List.append_assoc]
  rw [e, joinLines_lines (by simp) (by
    intro p hp
    rcases List.mem_cons.1 hp with rfl | hp
    · intro hm
      rcases List.mem_append.1 hm with hm | hm
      · exact absurd (List.eq_of_mem_replicate hm) (by decide)
      · exact h a List.mem_cons_self hm
    · exact h p (List.mem_cons_of_mem _ hp))]
  intro l hl
  rcases List.mem_cons.1 hl with rfl | hl
  · exact ⟨i, a, Nat.le_refl _, List.mem_cons_self, rfl⟩
  · exact ⟨0, l, Nat.zero_le _, List.mem_cons_of_mem _ hl, by simp [spaces]⟩

/-- **A paragraph of several lines**, indented by up to three spaces, becomes a `p` whose text is the lines -/
theorem produces_para_multi (i : Nat) (hi3 : i ≤ 3) (Ls : List Str) (hne : Ls ≠ [])
    (hL : ∀ l ∈ Ls, LineStart l ∧ '\n' ∉ l) (hol : olMarker (joinLines Ls) = none) :
    Produces 4 (spaces i ++ joinLines Ls) { tag := .name "p".toList, text := some (joinLines Ls) } := by
  intro pb refs parent rest
  obtain ⟨a, r, rfl⟩ : ∃ a r, Ls = a :: r := by
    cases Ls with
    | nil => exact absurd rfl hne
    | cons a r => exact ⟨a, r, rfl⟩
  obtain ⟨ha, hanl⟩ := hL a List.mem_cons_self
  obtain ⟨c, tail0, hac, hcs, hceq, hce⟩ := ha
  have hcsp : c ≠ ' ' := by intro e; subst e; exact absurd hcs (by decide)
  have hcnl : c ≠ '\n' := by intro e; subst e; exact absurd hcs (by decide)
  -- the block starts with `c`
  obtain ⟨tail, hX⟩ : ∃ tail, joinLines (a :: r) = c :: tail := by
    cases r with
    | nil => exact ⟨tail0, by rw [joinLines_single, hac]⟩
    | cons b r' => exact ⟨tail0 ++ '\n' :: joinLines (b :: r'), by rw [joinLines_cons_cons, hac]; rfl⟩
  have hl : LineStartsOk ['#', '>', '['] (spaces i ++ joinLines (a :: r)) = true := by
    have h0 : startOk ['#', '>', '['] (joinLines (a :: r)) = true := by
      cases r with
      | nil => simpa [joinLines_single] using startOk_lineStart (hL a List.mem_cons_self).1 []
      | cons b r' => rw [joinLines_cons_cons]; exact startOk_lineStart (hL a List.mem_cons_self).1 _
    have h1 : startsOkNl ['#', '>', '['] (spaces i ++ joinLines (a :: r)) = true := by
      rw [startsOkNl_append_noNl _ (spaces i) _ (fun hm => absurd (List.eq_of_mem_replicate hm) (by decide))]
      exact startsOkNl_lines _ hL
    simp only [LineStartsOk, startOk_spaces, h0, h1, Bool.and_self]
  have e1 := hashSearch_eq_none (esc := ['#', '>', '[']) (by decide) _ hl
  have e3 := quoteSearch_eq_none (esc := ['#', '>', '[']) (by decide) _ hl
  have e5 := refSearch_eq_none (esc := ['#', '>', '[']) (by decide) _ hl
  have e2 : hrSearch (spaces i ++ joinLines (a :: r)) = none := by
    apply hrSearchLines_eq_none
    intro l hl'
    obtain ⟨j, l', hj, hl'm, rfl⟩ := lines_indent i (a :: r) (by simp) (fun x hx => (hL x hx).2) l hl'
    exact hrLine_lineStart j (by omega) (hL l' hl'm).1
  have e4 : ∀ ol ul, listItemMatch 4 ol ul (spaces i ++ joinLines (a :: r)) = none := by
    intro ol ul
    rw [hX]
    have h0 : countPrefix ' ' (some (4 - 1)) (spaces i ++ c :: tail) = i :=
      countPrefix_spaces i _ c tail (by omega) hcsp
    have hd : (spaces i ++ c :: tail).drop i = c :: tail := by rw [List.drop_left' (by simp [spaces])]
    have hol' : olMarker (c :: tail) = none := by rw [← hX]; exact hol
    rcases hce with hce | ⟨d, m, x, tl, he, hd', hm1, hm2, hxd, hxsp⟩
    · have hmem : ∀ d ∈ lineEsc, c ≠ d := fun d hd e => hce (e ▸ hd)
      have hu : ulMarker (c :: tail) = none := by
        simp [ulMarker, hmem '*' (by decide), hmem '+' (by decide), hmem '-' (by decide)]
      simp only [listItemMatch, h0, hd, hol', hu]
      cases ol <;> cases ul <;> rfl
    · obtain ⟨m', rfl⟩ : ∃ m', m = m' + 1 := ⟨m - 1, by omega⟩
      have hXa : a = c :: (List.replicate m' c ++ x :: tl) ∧ d = c := by
        rw [hac] at he
        simp only [List.replicate_succ, List.cons_append, List.cons.injEq] at he
        exact ⟨by rw [hac, he.2, he.1], he.1.symm⟩
      obtain ⟨_, hdc⟩ := hXa
      subst hdc
      have htl : tail0 = List.replicate m' d ++ x :: tl := by
        rw [hac] at he
        simp only [List.replicate_succ, List.cons_append, List.cons.injEq] at he
        exact he.2
      have hsp : countSp tail = 0 := by
        unfold countSp
        apply countPrefix_zero_of_head
        have hdsp : d ≠ ' ' := hcsp
        have htail : ∃ Z, tail = List.replicate m' d ++ x :: (tl ++ Z) := by
          cases r with
          | nil =>
            rw [joinLines_single, hac] at hX
            exact ⟨[], by rw [← (List.cons.inj hX).2, htl]; simp⟩
          | cons b r' =>
            rw [joinLines_cons_cons, hac] at hX
            exact ⟨'\n' :: joinLines (b :: r'), by
              rw [← (List.cons.inj hX).2, htl]; simp [List.append_assoc]⟩
        obtain ⟨Z, hZ⟩ := htail
        rw [hZ]
        cases m' with
        | zero => simpa using hxsp
        | succ k => simpa [List.replicate_succ] using hdsp
      simp only [listItemMatch, h0, hd, hol']
      rcases hd' with e | e <;> subst e <;> cases ol <;> cases ul <;> simp [ulMarker, hsp]
  have e6 : setextMatch (spaces i ++ joinLines (a :: r)) = false := by
    cases r with
    | nil =>
      apply setextMatch_line
      intro hm
      rcases List.mem_append.1 hm with hm | hm
      · exact absurd (List.eq_of_mem_replicate hm) (by decide)
      · rw [joinLines_single] at hm; exact hanl hm
    | cons b r' =>
      obtain ⟨hb, hbnl⟩ := hL b (by simp)
      obtain ⟨cb, tb, hbc, _, hbeq, hbce⟩ := hb
      have hnla : '\n' ∉ spaces i ++ a := by
        intro hm
        rcases List.mem_append.1 hm with hm | hm
        · exact absurd (List.eq_of_mem_replicate hm) (by decide)
        · exact hanl hm
      have hfind : find ['\n'] (spaces i ++ joinLines (a :: b :: r')) = some (spaces i ++ a).length := by
        rw [joinLines_cons_cons, ← List.append_assoc]; exact find_nl_app hnla _
      have hdrop : (spaces i ++ joinLines (a :: b :: r')).drop ((spaces i ++ a).length + 1) = joinLines (b :: r') := by
        rw [joinLines_cons_cons, ← List.append_assoc, List.drop_append]
        simp
      have hcb : cb ≠ '-' := by
        rcases hbce with h | ⟨d, m, x, tl, he, hd, hm1, _, _, _⟩
        · exact fun e => h (by rw [e]; decide)
        · obtain ⟨m', rfl⟩ : ∃ m', m = m' + 1 := ⟨m - 1, by omega⟩
          rw [hbc] at he
          simp only [List.replicate_succ, List.cons_append, List.cons.injEq] at he
          rw [he.1]; rcases hd with e | e <;> rw [e] <;> decide
      have hfl : ∃ Y, firstLine (joinLines (b :: r')) = cb :: Y := by
        cases r' with
        | nil => exact ⟨tb, by rw [joinLines_single, firstLine_noNl hbnl, hbc]⟩
        | cons c2 r'' => exact ⟨tb, by rw [joinLines_cons_cons, firstLine_app_nl hbnl, hbc]⟩
      obtain ⟨Y, hY⟩ := hfl
      simp only [setextMatch, hfind, hdrop, hY]
      simp [spanLen, hbeq, hcb]
  have hlstrip := lstrip_indent i _ c tail hX hcs
  have hblank : isBlank (spaces i ++ joinLines (a :: r)) = false := by
    cases hb : isBlank (spaces i ++ joinLines (a :: r)) with
    | false => rfl
    | true =>
      rw [isBlank_iff] at hb
      have := hb c (by rw [hX]; simp)
      rw [hcs] at this; cases this
  generalize hb : spaces i ++ joinLines (a :: r) = b at *
  have h1 : b.isEmpty = false := by rw [← hb, hX]; cases i <;> simp [spaces, List.replicate_succ]
  have h2 : startsWith b ['\n'] = false := by
    rw [← hb, hX]; cases i <;> simp [spaces, List.replicate_succ, hcnl]
  have h3 : startsWith b (spaces 4) = false := by
    rw [← hb, hX]; exact startsWith_spaces_false _ 4 c _ (by omega) hcsp
  unfold dispatch
  simp only [h1, h2, h3, Bool.or_self, Bool.false_eq_true, if_false, Bool.false_and, e4, Option.isSome_none,
    e1, e6, e2, e3, e5]
  simp [paraP, hblank, hlstrip, isstate, mkText, Node.el]

/-! ### 63. the printed form of paragraph content with hard breaks -/

/-- the content up to the first hard break, and the runs between the further hard breaks -/
def brSplit : List DocSpec.Inline → List DocSpec.Inline × List (List DocSpec.Inline)
  | [] => ([], [])
  | x :: r => if isBr x then ([], (brSplit r).1 :: (brSplit r).2) else (x :: (brSplit r).1, (brSplit r).2)

/-- hard breaks, and items of the sub-grammar of `C01_em_nested` -/
def pItemsOK : List DocSpec.Inline → Bool
  | [] => true
  | x :: r => (isBr x || deep2ItemsOK [x]) && pItemsOK r

/-- the lines after the first, as printed, against the runs of the content -/
def LinesRel : List (List DocSpec.Inline) → List Ln → Prop
  | [], [] => True
  | ci :: cr, l :: r =>
    (l.t0 = (splitDeep2 ci).1 ∧ l.segs.map (fun s => (s.k.q, s.t)) = (splitDeep2 ci).2 ∧
      (∀ s ∈ l.segs, K2Printed s.k) ∧ UnderOK2 ESC (lastW ESC l.t0) l.segs) ∧ LinesRel cr r
  | _, _ => False

def PrintsP (c : List DocSpec.Inline) : Prop :=
  ∀ (prevB endB : Bool) (st : PSt), ∃ (t0 : Str) (segs : List Seg2) (more : List Ln) (st' : PSt),
    printInlines none prevB endB c st = (escAll ESC t0 ++ rawF ESC (flatten2 segs ++ flatLs more), st') ∧
    st'.defs = st.defs ∧ t0 = (splitDeep2 (brSplit c).1).1 ∧
    segs.map (fun s => (s.k.q, s.t)) = (splitDeep2 (brSplit c).1).2 ∧
    (∀ s ∈ segs, K2Printed s.k) ∧ UnderOK2 ESC (pwOf prevB t0) segs ∧ LinesRel (brSplit c).2 more

theorem brSplit_cons_of (x : DocSpec.Inline) (r : List DocSpec.Inline) (hx : isBr x = false) :
    brSplit (x :: r) = (x :: (brSplit r).1, (brSplit r).2) := by
  rw [brSplit]; simp [hx]

theorem brSplit_br (r : List DocSpec.Inline) : brSplit (.br :: r) = ([], (brSplit r).1 :: (brSplit r).2) := by
  rw [brSplit]; simp [isBr]

theorem rawF_flat_code (n : Nat) (b t : Str) (r : List Seg2) (X : List FSeg) :
    rawF ESC (flatten2 (⟨.code n b, t⟩ :: r) ++ X) = spanSrc n b ++ (escAll ESC t ++ rawF ESC (flatten2 r ++ X)) := by
  rw [rawF_append, rawF_flatten2_code, rawF_append]; simp only [List.append_assoc]

theorem rawF_flat_em (st : Bool) (d : Char) (β : Body1) (t : Str) (r : List Seg2) (X : List FSeg) :
    rawF ESC (flatten2 (⟨.em st d β, t⟩ :: r) ++ X) =
      dl st d ++ (escAll ESC β.u0 ++ (rawF ESC (flatten1 β.segs) ++ (dl st d ++ (escAll ESC t ++
        rawF ESC (flatten2 r ++ X))))) := by
  rw [rawF_append, rawF_flatten2_em, rawF_append]; simp only [List.append_assoc]

theorem nextNW2_of_boundaryP (r : List DocSpec.Inline) (h : pItemsOK r = true) (endB : Bool)
    (hb : nextBoundary endB r = true) (segs : List Seg2)
    (hm : segs.map (fun s => (s.k.q, s.t)) = (splitDeep2 (brSplit r).1).2) :
    nextNW2 ESC (splitDeep2 (brSplit r).1).1 segs := by
  cases r with
  | nil =>
    have : segs = [] := by simpa [brSplit, splitDeep2] using hm
    subst this; trivial
  | cons y r' =>
    by_cases hy : isBr y = true
    · have e : brSplit (y :: r') = ([], (brSplit r').1 :: (brSplit r').2) := by rw [brSplit]; simp [hy]
      rw [e] at hm ⊢
      have : segs = [] := by simpa [splitDeep2] using hm
      subst this; trivial
    · have hy' : isBr y = false := by simpa using hy
      rw [brSplit_cons_of y r' hy'] at hm ⊢
      simp only [pItemsOK, hy', Bool.false_or, Bool.and_eq_true] at h
      have hitem := h.1
      cases y with
      | text w' =>
        simp only [nextBoundary, startsBoundary, decide_eq_true_eq] at hb
        cases w' with
        | nil => simp at hb
        | cons a w'' =>
          have : a = ' ' := by simpa using hb
          subst this
          rw [splitDeep2_text]
          exact Or.inr (by decide)
      | esc ch =>
        simp only [deep2ItemsOK, Bool.and_eq_true] at hitem
        rw [splitDeep2_esc]
        exact Or.inl (List.contains_iff_mem.1 hitem.1)
      | code b =>
        rw [splitDeep2_code] at hm ⊢
        cases segs with
        | nil => simp at hm
        | cons s' segs' =>
          simp only [List.map_cons, List.cons.injEq, Prod.mk.injEq] at hm
          show s'.k.cls ≠ 2
          rw [q2_code_cls hm.1.1]; omega
      | em _ => simp [nextBoundary, startsBoundary] at hb
      | strong _ => simp [nextBoundary, startsBoundary] at hb
      | link _ _ _ => simp [deep2ItemsOK] at hitem
      | image _ _ _ => simp [deep2ItemsOK] at hitem
      | autolink _ => simp [deep2ItemsOK] at hitem
      | br => simp [isBr] at hy'

theorem printsP_em_step (strong : Bool) (c' : List DocSpec.Inline) (hc' : emBody2OK c' = true)
    (r : List DocSpec.Inline) (hr : pItemsOK r = true)
    (ih : PrintsP r) (prevB endB : Bool) (st : PSt) (x : DocSpec.Inline)
    (hx : x = (if strong then DocSpec.Inline.strong c' else DocSpec.Inline.em c')) :
    ∃ (segs : List Seg2) (more : List Ln) (st' : PSt),
      printInlines none prevB endB (x :: r) st = (rawF ESC (flatten2 segs ++ flatLs more), st') ∧
      st'.defs = st.defs ∧
      segs.map (fun s => (s.k.q, s.t)) =
        (.em strong (splitDeep c').1 (splitDeep c').2, (splitDeep2 (brSplit r).1).1) :: (splitDeep2 (brSplit r).1).2 ∧
      (∀ s ∈ segs, K2Printed s.k) ∧ UnderOK2 ESC (!prevB) segs ∧ LinesRel (brSplit r).2 more := by
  generalize hd : chooseDelim none (draw st).1 prevB (nextBoundary endB r) = d
  have hdc := chooseDelim_cases (draw st).1 prevB (nextBoundary endB r)
  rw [hd] at hdc
  have hdd : d = '*' ∨ d = '_' := by rcases hdc with ⟨h, _⟩ | h; exact Or.inr h; exact Or.inl h
  simp only [emBody2OK, Bool.and_eq_true] at hc'
  obtain ⟨segs1, st1, hps, hds, hms, hfs, hdel⟩ := printInlines_deepIn d c' hc'.1.1.1.1.1 (d = '*') (d = '*') (draw st).2
  generalize hbody : escAll ESC (splitDeep c').1 ++ rawF ESC (flatten1 segs1) = body at hps
  have hlast : ∀ X : Str, afterBoundary prevB (X ++ [d]) = !isWordCh d := fun X => afterBoundary_delims prevB d X
  obtain ⟨t0, segs, more, st', hp, hdf, ht0, hm, hpr, hu, hlr⟩ := ih (!isWordCh d) endB st1
  refine ⟨⟨.em strong d ⟨(splitDeep c').1, segs1⟩, t0⟩ :: segs, more, st', ?_,
    by rw [hdf, hds, draw_defs], by rw [List.map_cons, hm, ht0]; simp [K2.q, hms], ?_, ?_, hlr⟩
  · subst hx
    rw [rawF_flat_em]
    cases strong
    · simp only [Bool.false_eq_true, if_false, printInlines, printInline, hd, hps]
      have e : afterBoundary prevB (d :: body ++ [d]) = !isWordCh d := hlast (d :: body)
      rw [e, hp, ← hbody]
      simp [dl, List.append_assoc]
    · simp only [if_true, printInlines, printInline, hd, hps]
      have e : afterBoundary prevB (d :: d :: body ++ [d, d]) = !isWordCh d := by
        have := hlast (d :: d :: body ++ [d])
        simpa [List.append_assoc] using this
      rw [e, hp, ← hbody]
      simp [dl, List.append_assoc, List.replicate_succ]
  · intro s hs
    rcases List.mem_cons.1 hs with rfl | hs
    · exact ⟨hdd, hfs, hdel⟩
    · exact hpr s hs
  · refine ⟨fun hcl => ?_, underOK2_of_pw _ _ _ hu⟩
    have hdu : d = '_' := by
      rcases hdd with e | e
      · rw [e] at hcl; simp [K2.cls] at hcl
      · exact e
    rcases hdc with ⟨_, h1, h2⟩ | h
    · refine ⟨by simp [h1], ?_⟩
      rw [ht0]; exact nextNW2_of_boundaryP r hr endB h2 segs hm
    · rw [hdu] at h; exact absurd h (by decide)

/-- **the printed form** of paragraph content with hard breaks -/
theorem printInlines_P (c : List DocSpec.Inline) (h : pItemsOK c = true) : PrintsP c := by
  induction c with
  | nil =>
    intro prevB endB st
    exact ⟨[], [], [], st, by simp [printInlines, rawF, flatten2, flatLs, escAll], rfl, rfl, rfl, by simp, trivial,
      trivial⟩
  | cons x r ih =>
    simp only [pItemsOK, Bool.and_eq_true, Bool.or_eq_true] at h
    obtain ⟨hx, hr⟩ := h
    have ihr := ih hr
    by_cases hb : isBr x = true
    · -- a hard break
      have hxb : x = .br := by cases x <;> simp_all [isBr]
      subst hxb
      intro prevB endB st
      obtain ⟨t0, segs, more, st', hp, hd, ht0, hm, hds, hu, hlr⟩ := ihr (afterBoundary prevB (S "  \n")) endB st
      have hab : afterBoundary prevB (S "  \n") = true := by
        cases prevB <;> decide
      rw [hab, pwOf_true] at hu
      refine ⟨[], [], ⟨t0, segs⟩ :: more, st', ?_, hd, by rw [brSplit_br]; rfl, by rw [brSplit_br]; rfl, by simp,
        trivial, ?_⟩
      · simp only [printInlines, printInline, hp]
        simp [escAll, flatten2, flatLs, rawF, FKind.src, brS, S, rawF_append]
      · rw [brSplit_br]
        exact ⟨⟨ht0, hm, hds, hu⟩, hlr⟩
    · have hb' : isBr x = false := by simpa using hb
      have hitem : deep2ItemsOK [x] = true := by
        rcases hx with hx | hx
        · rw [hb'] at hx; cases hx
        · exact hx
      intro prevB endB st
      cases x with
      | text w =>
        simp only [deep2ItemsOK, Bool.and_eq_true] at hitem
        have hw := hitem.1
        simp only [wfWords, Bool.and_eq_true, Bool.not_eq_true', List.isEmpty_eq_false_iff] at hw
        obtain ⟨t0, segs, more, st', hp, hd, ht0, hm, hds, hu, hlr⟩ := ihr (afterBoundary prevB w) endB st
        refine ⟨w ++ t0, segs, more, st', ?_, hd, by rw [brSplit_cons_of _ _ hb', splitDeep2_text, ht0],
          by rw [brSplit_cons_of _ _ hb', splitDeep2_text]; exact hm, hds, ?_,
          by rw [brSplit_cons_of _ _ hb']; exact hlr⟩
        · simp only [printInlines, printInline, hp]
          rw [escAll_words w hw.1.2]; simp [List.append_assoc]
        · rw [pwOf_append prevB w _ hw.1.1 hw.1.2]; exact hu
      | esc ch =>
        simp only [deep2ItemsOK, Bool.and_eq_true] at hitem
        have hch : ch ∈ ESC := List.contains_iff_mem.1 hitem.1
        obtain ⟨t0, segs, more, st', hp, hd, ht0, hm, hds, hu, hlr⟩ := ihr (afterBoundary prevB ['\\', ch]) endB st
        refine ⟨ch :: t0, segs, more, st', ?_, hd, by rw [brSplit_cons_of _ _ hb', splitDeep2_esc, ht0],
          by rw [brSplit_cons_of _ _ hb', splitDeep2_esc]; exact hm, hds, ?_,
          by rw [brSplit_cons_of _ _ hb']; exact hlr⟩
        · simp only [printInlines, printInline, hp]
          rw [escAll_esc_cons ch hch]; simp
        · have hu' := underOK2_of_pw _ _ _ hu
          unfold pwOf
          cases ht : t0 with
          | nil =>
            rw [ht] at hu'
            simpa [hch, lastW] using hu'
          | cons a b =>
            rw [ht] at hu'
            have : (ch :: a :: b).getLast? = (a :: b).getLast? := List.getLast?_cons_cons
            rw [this]
            obtain ⟨z, hz⟩ : ∃ z, (a :: b).getLast? = some z := by
              cases hg : (a :: b).getLast? with
              | none => exact absurd (List.getLast?_eq_none_iff.1 hg) (by simp)
              | some z => exact ⟨z, rfl⟩
            simp only [lastW, hz] at hu' ⊢
            exact hu'
      | code b =>
        simp only [deep2ItemsOK, Bool.and_eq_true] at hitem
        have hw := hitem.1.1
        have hL : longestTickRun b ≤ 2 := (wfCodeSpan_facts hw).2.2.2.2.1
        generalize hn : longestTickRun b + 1 + (draw st).1 % (4 - (longestTickRun b + 1)) = n
        have hnb : fenceOK n b := by
          have : (draw st).1 % (4 - (longestTickRun b + 1)) < 4 - (longestTickRun b + 1) := Nat.mod_lt _ (by omega)
          constructor <;> omega
        obtain ⟨j, hj⟩ : ∃ j, n = j + 1 := ⟨n - 1, by have := hnb.1; omega⟩
        have hab : afterBoundary prevB (rep n '`' ++ codePad b ++ b ++ codePad b ++ rep n '`') = true := by
          have : rep n '`' ++ codePad b ++ b ++ codePad b ++ rep n '`' =
              (rep n '`' ++ codePad b ++ b ++ codePad b ++ rep j '`') ++ ['`'] := by
            rw [hj]; simp [rep, List.replicate_succ', List.append_assoc]
          rw [this, afterBoundary_tick]
        obtain ⟨t0, segs, more, st', hp, hd, ht0, hm, hds, hu, hlr⟩ := ihr true endB (draw st).2
        refine ⟨[], ⟨.code n b, t0⟩ :: segs, more, st', ?_, by rw [hd, draw_defs],
          by rw [brSplit_cons_of _ _ hb', splitDeep2_code],
          by rw [brSplit_cons_of _ _ hb', splitDeep2_code, List.map_cons, hm, ht0]; rfl, ?_, ?_,
          by rw [brSplit_cons_of _ _ hb']; exact hlr⟩
        · rw [rawF_flat_code]
          simp only [printInlines, printInline, hn, hab, hp]
          simp [escAll, spanSrc, padded, rep, ticks, List.append_assoc]
        · intro s hs
          rcases List.mem_cons.1 hs with rfl | hs
          · exact hnb
          · exact hds s hs
        · refine ⟨fun hcl => ?_, ?_⟩
          · simp [K2.cls] at hcl
          · rw [pwOf_true] at hu; exact hu
      | em c' =>
        simp only [deep2ItemsOK, Bool.and_eq_true] at hitem
        obtain ⟨segs, more, st', hp, hd, hm, hds, hu, hlr⟩ :=
          printsP_em_step false c' hitem.1 r hr ihr prevB endB st _ rfl
        refine ⟨[], segs, more, st', ?_, hd, by rw [brSplit_cons_of _ _ hb', splitDeep2_em],
          by rw [brSplit_cons_of _ _ hb', splitDeep2_em]; exact hm, hds, ?_, by rw [brSplit_cons_of _ _ hb']; exact hlr⟩
        · simp only [Bool.false_eq_true, if_false] at hp
          rw [hp]; simp [escAll]
        · simpa [pwOf] using hu
      | strong c' =>
        simp only [deep2ItemsOK, Bool.and_eq_true] at hitem
        obtain ⟨segs, more, st', hp, hd, hm, hds, hu, hlr⟩ :=
          printsP_em_step true c' hitem.1 r hr ihr prevB endB st _ rfl
        refine ⟨[], segs, more, st', ?_, hd, by rw [brSplit_cons_of _ _ hb', splitDeep2_strong],
          by rw [brSplit_cons_of _ _ hb', splitDeep2_strong]; exact hm, hds, ?_,
          by rw [brSplit_cons_of _ _ hb']; exact hlr⟩
        · simp only [if_true] at hp
          rw [hp]; simp [escAll]
        · simpa [pwOf] using hu
      | link _ _ _ => simp [deep2ItemsOK] at hitem
      | image _ _ _ => simp [deep2ItemsOK] at hitem
      | autolink _ => simp [deep2ItemsOK] at hitem
      | br => simp [isBr] at hb'

/-! ### 64. from well-formed paragraph content with hard breaks to the facts the stages need -/

/-- what the proofs use of a run of content between hard breaks: as `Deep2ContentOK`, but the run need not end with
    something visible -/
structure Deep2ContentW (c : List DocSpec.Inline) (t0 : Str) (segs : List Seg2) : Prop where
  items : deep2ItemsOK c = true
  starts : startsOk c = true
  adj : okAdjacents c = true
  nobs : noBsBeforeCode c = true
  t0eq : t0 = (splitDeep2 c).1
  smap : segs.map (fun s => (s.k.q, s.t)) = (splitDeep2 c).2
  printed : ∀ s ∈ segs, K2Printed s.k
  under : UnderOK2 ESC (lastW ESC t0) segs

theorem mem_segs_splitDeep2W {c : List DocSpec.Inline} {t0 : Str} {segs : List Seg2} (h : Deep2ContentW c t0 segs)
    {s : Seg2} (hs : s ∈ segs) : (s.k.q, s.t) ∈ (splitDeep2 c).2 := by
  rw [← h.smap]; exact List.mem_map.2 ⟨s, hs, rfl⟩


theorem Deep2ContentW.facts {c : List DocSpec.Inline} {t0 : Str} {segs : List Seg2} (h : Deep2ContentW c t0 segs) :
    Segs2OK ESC segs ∧ (∀ s ∈ segs, s.k.clean) ∧ FSegsOK (flatten2 segs) ∧ junctionsF t0 false (flatten2 segs) ∧
      (∀ ch, (ch ∈ t0 ∨ ∃ s ∈ segs, ch ∈ s.t) → plainCh ch) ∧ (t0 ≠ [] ∨ segs ≠ []) ∧
      (t0 ≠ [] → startsVisible t0 = true) ∧
      (∀ s ∈ segs, s.k.q.ok) ∧ NoStx2 segs := by
  have hst := h.starts
  have hadj := h.adj
  obtain ⟨hc0, hcs⟩ := splitDeep2_chars c h.items
  have hplain : ∀ ch, (ch ∈ t0 ∨ ∃ s ∈ segs, ch ∈ s.t) → plainCh ch := by
    intro ch hch
    rcases hch with hch | ⟨s, hs, hch⟩
    · rw [h.t0eq] at hch; exact hc0 ch hch
    · exact (hcs _ (mem_segs_splitDeep2W h hs)).1 ch hch
  have hq : ∀ s ∈ segs, s.k.q.ok := fun s hs => (hcs _ (mem_segs_splitDeep2W h hs)).2
  have hk := fun s hs => item2_facts s.k (hq s hs) (h.printed s hs)
  have hne : c ≠ [] := by intro e; subst e; simp [startsOk] at hst
  have hj : junctionsF t0 false (flatten2 segs) := by
    apply junctionsF_flatten2
    apply junctions2_of
    · rw [h.smap, h.t0eq]; exact (splitDeep2_junctions c h.items hadj h.nobs).1
    · exact fun s hs st d β hkk => ((hk s hs).2.2.2 st d β hkk).1
  refine ⟨fun s hs => (hk s hs).1, fun s hs => (hk s hs).2.2.1,
    fsegsOK_flatten2 segs (fun s hs => (hk s hs).2.1), hj, hplain, ?_, ?_, hq, ?_⟩
  · by_cases ht : t0 = []
    · right
      intro hs
      have : (splitDeep2 c).1 = [] ∧ (splitDeep2 c).2 = [] := by
        rw [← h.t0eq, ← h.smap, hs]; exact ⟨ht, rfl⟩
      exact hne ((splitDeep2_nil_iff c h.items).1 this)
    · exact Or.inl ht
  · intro ht
    rw [h.t0eq] at ht ⊢
    exact splitDeep2_first c h.items hst ht
  · intro s hs
    refine ⟨fun hm => (plainCh_facts (hplain _ (Or.inr ⟨s, hs, hm⟩))).2.2.2.2 rfl, ?_⟩
    intro st d β hkk
    exact ((hk s hs).2.2.2 st d β hkk).2


/-- the facts about the tokens of the flat view -/
theorem Deep2ContentW.tokens {c : List DocSpec.Inline} {t0 : Str} {segs : List Seg2} (h : Deep2ContentW c t0 segs) :
    ∀ tok ∈ flatten2 segs, (∀ x ∈ tok.t, plainCh x) ∧ (∀ ch ∈ tok.k.src, okCh ch) ∧ '\n' ∉ tok.k.src ∧
      (∀ x, tok.k = .junk x → (x.head? = some '*' ∨ x.head? = some '_') ∧
        (x.getLast? = some '*' ∨ x.getLast? = some '_') ∧ '&' ∉ x) ∧
      (∀ n b, tok.k = .code n b → wfCodeSpan b = true ∧ ∃ k, n = k + 1) := by
  obtain ⟨h1, _, _, _, h5, _, _, hq, _⟩ := h.facts
  apply forall_flatten2
  intro s hs
  have hqs := hq s hs
  have hps := h.printed s hs
  have hk1 := h1 s hs
  cases hk : s.k with
  | code n b =>
    rw [hk] at hqs hps
    obtain ⟨hw, hlt⟩ := hqs
    obtain ⟨a1, a2⟩ := spanSrc_chars n b hw hlt
    refine ⟨fun x hx => h5 x (Or.inr ⟨s, hs, hx⟩), a1, a2, ?_, ?_⟩
    · intro x e; cases e
    · intro n' b' e; cases e; exact ⟨hw, (padded_ok n b hw hps).1⟩
  | em st d β =>
    rw [hk] at hqs hps hk1
    obtain ⟨c', hc⟩ := inner_content st d β hqs hps
    obtain ⟨d1, d2⟩ := dl_chars st d hps.1
    have hjunk : ∀ x, FKind.junk (dl st d) = .junk x → (x.head? = some '*' ∨ x.head? = some '_') ∧
        (x.getLast? = some '*' ∨ x.getLast? = some '_') ∧ '&' ∉ x := by
      intro x e
      cases e
      refine ⟨?_, ?_, fun hm => (d1 _ hm).2 rfl⟩
      · rcases hps.1 with e | e <;> cases st <;> simp [dl, e]
      · rcases hps.1 with e | e <;> cases st <;> simp [dl, e]
    exact ⟨⟨fun x hx => hk1.2.plain x (Or.inl hx), fun ch hc' => (d1 ch hc').1, d2, hjunk, fun n b e => by cases e⟩,
      ⟨fun x hx => h5 x (Or.inr ⟨s, hs, hx⟩), fun ch hc' => (d1 ch hc').1, d2, hjunk, fun n b e => by cases e⟩,
      hc.tokens⟩


theorem deep2_raw_charsW {c : List DocSpec.Inline} {t0 : Str} {segs : List Seg2} (h : Deep2ContentW c t0 segs) :
    ∀ ch ∈ escAll ESC t0 ++ rawF ESC (flatten2 segs), okCh ch := by
  obtain ⟨_, _, _, _, h5, _⟩ := h.facts
  have htok := h.tokens
  have hpl : ∀ x, plainCh x → okCh x := fun x hx => okCh_plain (plainCh_facts hx).1 (plainCh_facts hx).2.1
  have hesc : ∀ (t : Str), (∀ x ∈ t, plainCh x) → ∀ x ∈ escAll ESC t, okCh x := by
    intro t ht x hx
    rcases mem_escAll hx with rfl | hx
    · exact ⟨by decide, by decide, by decide, by decide, by decide, by decide⟩
    · exact hpl x (ht x hx)
  intro ch hch
  rcases List.mem_append.1 hch with hch | hch
  · exact hesc t0 (fun x hx => h5 x (Or.inl hx)) ch hch
  · obtain ⟨tok, ht, hc | hc⟩ := mem_rawF hch
    · exact (htok tok ht).2.1 ch hc
    · exact hesc tok.t (htok tok ht).1 ch hc

theorem refsClosed_deep2RawW {c : List DocSpec.Inline} {t0 : Str} {segs : List Seg2} (h : Deep2ContentW c t0 segs)
    (P Q : Str) (hP : '&' ∉ P) (hQ : '&' ∉ Q) :
    refsClosed (P ++ (escAll ESC t0 ++ rawF ESC (flatten2 segs)) ++ Q) = true := by
  obtain ⟨_, _, _, _, h5, _⟩ := h.facts
  have htok := h.tokens
  have hQc : refsClosed Q = true := refsClosed_of_no_amp Q hQ
  have := refsClosed_rawF (flatten2 segs) (fun tok ht =>
    ⟨(htok tok ht).1, fun x hk => ((htok tok ht).2.2.2.1 x hk).2.2, (htok tok ht).2.2.2.2⟩) Q hQc
  have h0 := refsClosed_noamp_append _ _ (no_amp_escAll t0 (fun x hx => h5 x (Or.inl hx))) this
  have := refsClosed_noamp_append P _ hP h0
  simpa [List.append_assoc] using this



theorem brSplit_prefix (c : List DocSpec.Inline) : ∃ T, c = (brSplit c).1 ++ T := by
  induction c with
  | nil => exact ⟨[], rfl⟩
  | cons x r ih =>
    by_cases hb : isBr x = true
    · exact ⟨x :: r, by rw [brSplit]; simp [hb]⟩
    · have hb' : isBr x = false := by simpa using hb
      obtain ⟨T, hT⟩ := ih
      exact ⟨T, by rw [brSplit_cons_of x r hb']; simp only [List.cons_append]; rw [← hT]⟩

theorem okAdjacents_prefix (A B : List DocSpec.Inline) (h : okAdjacents (A ++ B) = true) : okAdjacents A = true := by
  induction A with
  | nil => rfl
  | cons a A' ih =>
    cases A' with
    | nil => rfl
    | cons a' A'' =>
      simp only [List.cons_append, okAdjacents, Bool.and_eq_true] at h ⊢
      exact ⟨h.1, ih (by simpa using h.2)⟩

theorem noBs_prefix (A B : List DocSpec.Inline) (h : noBsBeforeCode (A ++ B) = true) : noBsBeforeCode A = true := by
  induction A with
  | nil => rfl
  | cons a A' ih =>
    have ht : noBsBeforeCode (A' ++ B) = true := noBs_tail (x := a) (by simpa using h)
    have ih' := ih ht
    cases a with
    | esc ch =>
      cases A' with
      | nil => rfl
      | cons y A'' =>
        cases y with
        | code b =>
          simp only [List.cons_append, noBsBeforeCode, Bool.and_eq_true] at h ⊢
          exact ⟨h.1, ih'⟩
        | _ => simpa [noBsBeforeCode] using ih'
    | _ => simpa [noBsBeforeCode] using ih'

theorem deep2ItemsOK_cons (x : DocSpec.Inline) (r : List DocSpec.Inline) :
    deep2ItemsOK (x :: r) = (deep2ItemsOK [x] && deep2ItemsOK r) := by
  cases x <;> simp [deep2ItemsOK]

/-- every run between hard breaks inherits what well-formedness says of the content; the runs after a hard break
    start with something visible -/
theorem runs_ok (c : List DocSpec.Inline) :
    okAdjacents c = true → noBsBeforeCode c = true → pItemsOK c = true → (c ≠ [] → endsOk c = true) →
      (okAdjacents (brSplit c).1 = true ∧ noBsBeforeCode (brSplit c).1 = true ∧ deep2ItemsOK (brSplit c).1 = true) ∧
      ∀ ci ∈ (brSplit c).2, startsOk ci = true ∧ okAdjacents ci = true ∧ noBsBeforeCode ci = true ∧
        deep2ItemsOK ci = true := by
  induction c with
  | nil => intro _ _ _ _; exact ⟨⟨rfl, rfl, rfl⟩, fun ci hci => by cases hci⟩
  | cons x r ih =>
    intro hadj hnb hit hen
    have hadjr := okAdjacents_tail hadj
    have hnbr := noBs_tail hnb
    simp only [pItemsOK, Bool.and_eq_true, Bool.or_eq_true] at hit
    have henr : r ≠ [] → endsOk r = true := fun hr => endsOk_cons_ne hr (hen (by simp))
    obtain ⟨⟨i1, i2, i3⟩, i4⟩ := ih hadjr hnbr hit.2 henr
    by_cases hb : isBr x = true
    · have hxb : x = .br := by cases x <;> simp_all [isBr]
      subst hxb
      rw [brSplit_br]
      refine ⟨⟨rfl, rfl, rfl⟩, ?_⟩
      intro ci hci
      rcases List.mem_cons.1 hci with rfl | hci
      · refine ⟨?_, i1, i2, i3⟩
        cases r with
        | nil => have := hen (by simp); simp [endsOk] at this
        | cons y r' =>
          rw [okAdjacents] at hadj
          have hy1 : startsSpace y = false := by
            cases hss : startsSpace y with
            | false => rfl
            | true => simp [okAdjacent, isBr, hss] at hadj
          have hy2 : isBr y = false := by
            cases y <;> simp_all [okAdjacent, isBr]
          rw [brSplit_cons_of y r' hy2]
          cases y <;> simp_all [startsOk, startsSpace, isBr]
      · exact i4 ci hci
    · have hb' : isBr x = false := by simpa using hb
      have hitem : deep2ItemsOK [x] = true := by
        rcases hit.1 with h | h
        · rw [hb'] at h; cases h
        · exact h
      obtain ⟨T, hT⟩ := brSplit_prefix r
      rw [brSplit_cons_of x r hb']
      refine ⟨⟨?_, ?_, ?_⟩, i4⟩
      · exact okAdjacents_prefix (x :: (brSplit r).1) T (by rw [List.cons_append, ← hT]; exact hadj)
      · exact noBs_prefix (x :: (brSplit r).1) T (by rw [List.cons_append, ← hT]; exact hnb)
      · rw [deep2ItemsOK_cons, hitem, i3]; rfl

theorem emStart_append {X : Str} (h : EmStart X) (Z : Str) : EmStart (X ++ Z) := by
  obtain ⟨d, m, x, tl, he, hd, h1, h2, h3, h4⟩ := h
  exact ⟨d, m, x, tl ++ Z, by rw [he]; simp [List.append_assoc], hd, h1, h2, h3, h4⟩

/-- a printed line of the sub-grammar starts like paragraph text, whatever follows it -/
theorem lineStartW {c : List DocSpec.Inline} {t0 : Str} {segs : List Seg2} (h : Deep2ContentW c t0 segs) (Z : Str) :
    LineStart ((escAll ESC t0 ++ rawF ESC (flatten2 segs)) ++ Z) := by
  obtain ⟨h1, _, _, _, h5, h6, h7, hq, _⟩ := h.facts
  cases ht : t0 with
  | cons c0 r =>
    by_cases hc : c0 ∈ ESC
    · refine ⟨'\\', c0 :: (escAll ESC r ++ rawF ESC (flatten2 segs) ++ Z), ?_, by decide, by decide, Or.inl (by decide)⟩
      rw [escAll_cons_mem hc]; simp [List.append_assoc]
    · have hv := h7 (by rw [ht]; simp)
      rw [ht] at hv
      have hcs : isSpace c0 = false := by simpa [startsVisible] using hv
      have hpl := h5 c0 (Or.inl (by rw [ht]; simp))
      have ha : isAlnumSp c0 = true := by
        rcases hpl with h' | h'
        · exact h'
        · exact absurd h' hc
      refine ⟨c0, escAll ESC r ++ rawF ESC (flatten2 segs) ++ Z, ?_, hcs, ?_, Or.inl (lineEsc_sub escOK_generated hc)⟩
      · rw [escAll_cons_not_mem hc]; simp [List.append_assoc]
      · intro e; subst e; exact absurd ha (by decide)
  | nil =>
    have hne : segs ≠ [] := by rcases h6 with h' | h'; exact absurd ht h'; exact h'
    cases hsegs : segs with
    | nil => exact absurd hsegs hne
    | cons s r =>
      obtain ⟨k, t⟩ := s
      have hs : (⟨k, t⟩ : Seg2) ∈ segs := by rw [hsegs]; simp
      cases k with
      | code n b =>
        have hpr := h.printed _ hs
        obtain ⟨j, hj⟩ : ∃ j, n = j + 1 := ⟨n - 1, by have := hpr.1; omega⟩
        have hh : ((escAll ESC [] ++ rawF ESC (flatten2 (⟨.code n b, t⟩ :: r))) ++ Z).head? = some '`' := by
          rw [rawF_flatten2_code]
          simp [escAll, spanSrc, hj, ticks, List.replicate_succ]
        obtain ⟨tl, htl⟩ := head_cons_of hh
        exact ⟨'`', tl, htl, by decide, by decide, Or.inl (by decide)⟩
      | em st d β =>
        have hk1 := h1 _ hs
        have hpr := h.printed _ hs
        obtain ⟨c', hc⟩ := inner_content st d β (hq _ hs) hpr
        have hitems : ∀ s ∈ β.segs, match s.k with
            | .code n _ => ∃ k, n = k + 1
            | .em _ d' _ => d' ≠ d ∧ (d' = '*' ∨ d' = '_') := by
          intro x hx
          cases hkx : x.k with
          | code n b =>
            have := hc.printed x hx
            rw [hkx] at this
            exact ⟨n - 1, by have := this.1; omega⟩
          | em st' d' β' =>
            have hd' := hpr.2.2 x hx st' d' β' hkx
            have := hc.printed x hx
            rw [hkx] at this
            refine ⟨?_, this.1⟩
            rw [hd']
            rcases hpr.1 with e | e <;> rw [e] <;> decide
        obtain ⟨x, tl, he, hx1, hx2⟩ := body1_raw_head d hpr.1 β (fun y hy => hk1.2.plain y (Or.inl hy)) hk1.2.first
          hk1.2.ne hitems (dl st d ++ (escAll ESC t ++ rawF ESC (flatten2 r)))
        have hem : EmStart (escAll ESC [] ++ rawF ESC (flatten2 (⟨.em st d β, t⟩ :: r))) :=
          ⟨d, if st then 2 else 1, x, tl, by rw [rawF_flatten2_em, he]; rfl, hpr.1, by cases st <;> simp,
            by cases st <;> simp, hx2, hx1⟩
        have hem' := emStart_append hem Z
        obtain ⟨d2, m2, x2, tl2, he2, hd2, hm1, hm2, hx21, hx22⟩ := hem'
        obtain ⟨m', rfl⟩ : ∃ m', m2 = m' + 1 := ⟨m2 - 1, by omega⟩
        refine ⟨d2, List.replicate m' d2 ++ x2 :: tl2, by rw [he2]; simp [List.replicate_succ], ?_, ?_,
          Or.inr ⟨d2, m' + 1, x2, tl2, he2, hd2, hm1, hm2, hx21, hx22⟩⟩
        · rcases hd2 with e | e <;> rw [e] <;> decide
        · rcases hd2 with e | e <;> rw [e] <;> decide

/-- the facts about a printed line `P ++ raw ++ Q` of a run between hard breaks -/
theorem line_factsW {c : List DocSpec.Inline} {t0 : Str} {segs : List Seg2} (h : Deep2ContentW c t0 segs) (P Q : Str)
    (hP : ∀ x ∈ P, okCh x ∧ x ≠ '&') (hQ : ∀ x ∈ Q, okCh x ∧ x ≠ '&') :
    (lineSafe (P ++ (escAll ESC t0 ++ rawF ESC (flatten2 segs)) ++ Q) = true ∧
      '<' ∉ P ++ (escAll ESC t0 ++ rawF ESC (flatten2 segs)) ++ Q ∧
      refsClosed (P ++ (escAll ESC t0 ++ rawF ESC (flatten2 segs)) ++ Q) = true) ∧
    '\n' ∉ P ++ (escAll ESC t0 ++ rawF ESC (flatten2 segs)) ++ Q ∧
    ∃ x ∈ P ++ (escAll ESC t0 ++ rawF ESC (flatten2 segs)) ++ Q, isSpace x = false := by
  obtain ⟨c0, tail, he, hcs, _, _⟩ := lineStartW h []
  rw [List.append_nil] at he
  have hc0 : c0 ∈ P ++ (escAll ESC t0 ++ rawF ESC (flatten2 segs)) ++ Q := by rw [he]; simp
  have hch : ∀ x ∈ P ++ (escAll ESC t0 ++ rawF ESC (flatten2 segs)) ++ Q, okCh x := by
    intro x hx
    simp only [List.mem_append] at hx
    rcases hx with (hx | hx) | hx
    · exact (hP x hx).1
    · exact deep2_raw_charsW h x (List.mem_append.2 hx)
    · exact (hQ x hx).1
  have hs := safe_of_okCh _ hch ⟨c0, hc0, by intro e; subst e; exact absurd hcs (by decide)⟩
  exact ⟨⟨hs.1, hs.2, refsClosed_deep2RawW h P Q (fun hm => (hP _ hm).2 rfl) (fun hm => (hQ _ hm).2 rfl)⟩,
    fun hm => (hch _ hm).1 rfl, c0, hc0, hcs⟩

/-- the runs after the first, against the printed lines -/
def LinesW : List (List DocSpec.Inline) → List Ln → Prop
  | [], [] => True
  | ci :: cr, l :: r => Deep2ContentW ci l.t0 l.segs ∧ LinesW cr r
  | _, _ => False

/-- the source of one line -/
def srcLn (t : Str) (segs : List Seg2) : Str := escAll ESC t ++ rawF ESC (flatten2 segs)

/-- the printed lines of a paragraph: all but the last end with two spaces -/
def paraLines : Str → List Seg2 → List Ln → List Str
  | t, segs, [] => [srcLn t segs]
  | t, segs, l :: r => (srcLn t segs ++ [' ', ' ']) :: paraLines l.t0 l.segs r

theorem paraLines_ne (t : Str) (segs : List Seg2) (more : List Ln) : paraLines t segs more ≠ [] := by
  cases more <;> simp [paraLines]

theorem joinLines_paraLines (more : List Ln) : ∀ (t : Str) (segs : List Seg2),
    joinLines (paraLines t segs more) = escAll ESC t ++ rawF ESC (flatten2 segs ++ flatLs more) := by
  induction more with
  | nil => intro t segs; simp [paraLines, joinLines_single, srcLn, flatLs]
  | cons l r ih =>
    intro t segs
    have hne := paraLines_ne l.t0 l.segs r
    obtain ⟨a, b, hab⟩ : ∃ a b, paraLines l.t0 l.segs r = a :: b := by
      cases hx : paraLines l.t0 l.segs r with
      | nil => exact absurd hx hne
      | cons a b => exact ⟨a, b, rfl⟩
    have := ih l.t0 l.segs
    rw [hab] at this
    simp only [paraLines, hab, joinLines_cons_cons, this, srcLn, flatLs, rawF_append, rawF, FKind.src, brS,
      List.append_assoc, List.cons_append, List.nil_append]

/-! ### 65. all the lines of a paragraph: the facts the inline stage and the block stage need -/

theorem linesW_cons {ci : List DocSpec.Inline} {cr : List (List DocSpec.Inline)} {l : Ln} {r : List Ln} :
    LinesW (ci :: cr) (l :: r) = (Deep2ContentW ci l.t0 l.segs ∧ LinesW cr r) := rfl

theorem linesW_mem : ∀ (cr : List (List DocSpec.Inline)) (more : List Ln), LinesW cr more →
    ∀ l ∈ more, ∃ ci, Deep2ContentW ci l.t0 l.segs := by
  intro cr more
  induction more generalizing cr with
  | nil => intro _ l hl; cases hl
  | cons a r ih =>
    intro h l hl
    cases cr with
    | nil => exact absurd h (by simp [LinesW])
    | cons ci cr' =>
      rw [linesW_cons] at h
      rcases List.mem_cons.1 hl with rfl | hl
      · exact ⟨ci, h.1⟩
      · exact ih cr' h.2 l hl

theorem lnOK_of {c : List DocSpec.Inline} {l : Ln} (h : Deep2ContentW c l.t0 l.segs) :
    (LnOK ESC l ∧ ∀ s ∈ l.segs, s.k.clean) ∧ Inline.STX ∉ l.t0 ∧ NoStx2 l.segs := by
  obtain ⟨h1, h2, _, _, h5, _, h7, _, h9⟩ := h.facts
  exact ⟨⟨⟨h1, h5, h.under, h7⟩, h2⟩, fun hm => (plainCh_facts (h5 _ (Or.inl hm))).2.2.2.2 rfl, h9⟩

theorem fsegsOK_lines : ∀ (cr : List (List DocSpec.Inline)) (more : List Ln), LinesW cr more →
    FSegsOK (flatLs more) := by
  intro cr more
  induction more generalizing cr with
  | nil => intro _ s hs; cases hs
  | cons a r ih =>
    intro h
    cases cr with
    | nil => exact absurd h (by simp [LinesW])
    | cons ci cr' =>
      rw [linesW_cons] at h
      obtain ⟨_, _, h3, _⟩ := h.1.facts
      intro s hs
      simp only [flatLs, List.mem_cons, List.mem_append] at hs
      rcases hs with rfl | hs | hs
      · refine ⟨fun x hx => ?_, by decide⟩
        have : x = ' ' ∨ x = '\n' := by simpa [brS] using hx
        rcases this with e | e <;> rw [e] <;> exact ⟨by decide, by decide⟩
      · exact h3 s hs
      · exact ih cr' h.2 s hs

theorem junctions_lines : ∀ (cr : List (List DocSpec.Inline)) (more : List Ln), LinesW cr more →
    ∀ (L : List FSeg) (u : Str) (pc : Bool), junctionsF u pc L → junctionsF u pc (L ++ flatLs more) := by
  intro cr more
  induction more generalizing cr with
  | nil => intro _ L u pc hj; simpa [flatLs] using hj
  | cons a r ih =>
    intro h L u pc hj
    cases cr with
    | nil => exact absurd h (by simp [LinesW])
    | cons ci cr' =>
      rw [linesW_cons] at h
      obtain ⟨_, _, _, h4, _⟩ := h.1.facts
      exact junctionsF_append_junk brS a.t0 _ (ih cr' h.2 _ _ _ h4) L u pc hj

/-- the content of a paragraph against its printed form: the run before the first hard break, and the further runs -/
structure PContentOK (c : List DocSpec.Inline) (t0 : Str) (segs : List Seg2) (more : List Ln) : Prop where
  first : Deep2ContentW (brSplit c).1 t0 segs
  lines : LinesW (brSplit c).2 more

theorem PContentOK.txt {c : List DocSpec.Inline} {t0 : Str} {segs : List Seg2} {more : List Ln}
    (h : PContentOK c t0 segs more) : PTxtOK ESC t0 segs more ∧ NoStx2 segs ∧ NoStxLs more := by
  obtain ⟨h1, h2, h3, h4, h5, h6, h7, _, h9⟩ := h.first.facts
  refine ⟨⟨h1, ?_, ?_, junctions_lines _ _ h.lines _ _ _ h4, h.first.under, h5, h2, h6, h7⟩, h9, ?_⟩
  · intro l hl
    obtain ⟨ci, hci⟩ := linesW_mem _ _ h.lines l hl
    exact (lnOK_of hci).1
  · intro s hs
    rcases List.mem_append.1 hs with hs | hs
    · exact h3 s hs
    · exact fsegsOK_lines _ _ h.lines s hs
  · intro l hl
    obtain ⟨ci, hci⟩ := linesW_mem _ _ h.lines l hl
    exact (lnOK_of hci).2

theorem okCh_two : ∀ x ∈ [' ', ' '], okCh x ∧ x ≠ '&' := by
  intro x hx
  have : x = ' ' := by simpa using hx
  rw [this]; exact okCh_space

/-- every printed line of the paragraph -/
theorem paraLines_facts : ∀ (more : List Ln) (cr : List (List DocSpec.Inline)) (c0 : List DocSpec.Inline) (t0 : Str)
    (segs : List Seg2), Deep2ContentW c0 t0 segs → LinesW cr more →
    ∀ l ∈ paraLines t0 segs more, LineStart l ∧ '\n' ∉ l ∧ ∀ i, lineSafe (spaces i ++ l) = true ∧ '<' ∉ spaces i ++ l ∧
      refsClosed (spaces i ++ l) = true := by
  intro more
  induction more with
  | nil =>
    intro cr c0 t0 segs h0 _ l hl
    have e : l = srcLn t0 segs := by simpa [paraLines] using hl
    subst e
    have hs := lineStartW h0 []
    rw [List.append_nil] at hs
    refine ⟨hs, ?_, fun i => ?_⟩
    · have := (line_factsW h0 [] [] (by simp) (by simp)).2.1
      simpa [srcLn] using this
    · have := (line_factsW h0 (spaces i) [] (okCh_spaces i) (by simp)).1
      simpa [srcLn] using this
  | cons a r ih =>
    intro cr c0 t0 segs h0 hL l hl
    cases cr with
    | nil => exact absurd hL (by simp [LinesW])
    | cons ci cr' =>
      rw [linesW_cons] at hL
      simp only [paraLines, List.mem_cons] at hl
      rcases hl with rfl | hl
      · refine ⟨lineStartW h0 _, ?_, fun i => ?_⟩
        · have := (line_factsW h0 [] [' ', ' '] (by simp) okCh_two).2.1
          simpa [srcLn] using this
        · have := (line_factsW h0 (spaces i) [' ', ' '] (okCh_spaces i) okCh_two).1
          simpa [srcLn, List.append_assoc] using this
      · exact ih cr' ci a.t0 a.segs hL.1 hL.2 l hl

theorem rawF_head_lines (more : List Ln) :
    ∀ c, (rawF ESC (flatLs more)).head? = some c → isDecimal c = false ∧ c ≠ '.' := by
  intro c hc
  cases more with
  | nil => simp [flatLs, rawF] at hc
  | cons a r =>
    simp [flatLs, rawF, FKind.src, brS] at hc
    subst hc; exact ⟨by decide, by decide⟩

theorem rawF_head_P {c : List DocSpec.Inline} {t0 : Str} {segs : List Seg2} (h : Deep2ContentW c t0 segs)
    (more : List Ln) :
    ∀ ch, (rawF ESC (flatten2 segs ++ flatLs more)).head? = some ch → isDecimal ch = false ∧ ch ≠ '.' := by
  intro ch hch
  cases hsegs : segs with
  | nil =>
    rw [hsegs] at hch
    exact rawF_head_lines more ch (by simpa [flatten2] using hch)
  | cons s r =>
    obtain ⟨k, t⟩ := s
    have hs : (⟨k, t⟩ : Seg2) ∈ segs := by rw [hsegs]; simp
    have hpr := h.printed _ hs
    rw [hsegs] at hch
    cases k with
    | code n b =>
      obtain ⟨j, hj⟩ : ∃ j, n = j + 1 := ⟨n - 1, by have := hpr.1; omega⟩
      rw [rawF_flat_code] at hch
      simp [spanSrc, hj, ticks, List.replicate_succ] at hch
      subst hch; exact ⟨by decide, by decide⟩
    | em st d β =>
      rw [rawF_flat_em] at hch
      have hd : ch = d := by cases st <;> simpa [dl, List.replicate_succ] using hch.symm
      subst hd
      rcases hpr.1 with e | e <;> rw [e] <;> exact ⟨by decide, by decide⟩

theorem nel_lines (Ls : List Str) (hne : Ls ≠ []) (h : ∀ l ∈ Ls, l ≠ [] ∧ '\n' ∉ l) :
    noEmptyLineFrom true (joinLines Ls) = true := by
  induction Ls with
  | nil => exact absurd rfl hne
  | cons a r ih =>
    cases r with
    | nil => rw [joinLines_single]; exact nel_line a (h a (by simp)).1 (h a (by simp)).2
    | cons b r' =>
      rw [joinLines_cons_cons]
      obtain ⟨ha, hanl⟩ := h a (by simp)
      cases a with
      | nil => exact absurd rfl ha
      | cons c0 a' =>
        have hc : c0 ≠ '\n' := fun e => hanl (e ▸ List.mem_cons_self)
        have := nel_false_line a' ('\n' :: joinLines (b :: r')) (fun hm => hanl (List.mem_cons_of_mem _ hm))
        simp only [List.cons_append, noEmptyLineFrom, hc, if_false, this, if_true, Bool.not_false, Bool.true_and]
        exact ih (by simp) (fun l hl => h l (List.mem_cons_of_mem _ hl))

theorem splitC_joinLines (Ls : List Str) (hne : Ls ≠ []) (h : ∀ l ∈ Ls, '\n' ∉ l) :
    splitC '\n' (joinLines Ls) = Ls := by
  induction Ls with
  | nil => exact absurd rfl hne
  | cons a r ih =>
    cases r with
    | nil => rw [joinLines_single]; exact splitC_noNl a (notNl_of_not_mem (h a (by simp)))
    | cons b r' =>
      rw [joinLines_cons_cons, splitC_append_nl a _ (notNl_of_not_mem (h a (by simp))),
        ih (by simp) (fun l hl => h l (List.mem_cons_of_mem _ hl))]

theorem joinLines_indentFirst (i : Nat) (Ls : List Str) (hne : Ls ≠ []) :
    joinLines (indentFirst i Ls) = spaces i ++ joinLines Ls := by
  cases Ls with
  | nil => exact absurd rfl hne
  | cons a r =>
    cases r with
    | nil => simp [indentFirst, joinLines_single, rep, spaces]
    | cons b r' => simp [indentFirst, joinLines_cons_cons, rep, spaces]

/-! ### 66. a paragraph with hard breaks as a piece -/

def pPiece (g : List Str) (t0 : Str) (segs : List Seg2) (more : List Ln) : Piece2 :=
  ⟨chunkB g (pSrc ESC t0 segs more), pElem ESC t0 segs more, pElem ESC t0 segs more⟩

theorem pSrc_raw (t0 : Str) (segs : List Seg2) (more : List Ln) :
    pSrc ESC t0 segs more = { tag := .name "p".toList, text := some (joinLines (paraLines t0 segs more)) } := by
  simp only [pSrc, stageF_raw, joinLines_paraLines]

theorem pPara_ok {c : List DocSpec.Inline} {t0 : Str} {segs : List Seg2} {more : List Ln}
    (h : PContentOK c t0 segs more) (i : Nat) (hi : i < 4) :
    Piece2OK {} (pPiece (indentFirst i (paraLines t0 segs more)) t0 segs more) := by
  have hfacts := paraLines_facts more _ _ t0 segs h.first h.lines
  have hne := paraLines_ne t0 segs more
  obtain ⟨a, r, har⟩ : ∃ a r, paraLines t0 segs more = a :: r := by
    cases hx : paraLines t0 segs more with
    | nil => exact absurd hx hne
    | cons a r => exact ⟨a, r, rfl⟩
  have hg : indentFirst i (paraLines t0 segs more) = (spaces i ++ a) :: r := by
    rw [har]; simp [indentFirst, rep, spaces]
  have hgl : ∀ l ∈ indentFirst i (paraLines t0 segs more), (l ≠ [] ∧ '\n' ∉ l) ∧
      (lineSafe l = true ∧ '<' ∉ l ∧ refsClosed l = true) := by
    intro l hl
    rw [hg] at hl
    rcases List.mem_cons.1 hl with rfl | hl
    · obtain ⟨h1, h2, h3⟩ := hfacts a (by rw [har]; simp)
      obtain ⟨c0, tl, e, _⟩ := h1
      refine ⟨⟨by rw [e]; simp, ?_⟩, h3 i⟩
      intro hm
      rcases List.mem_append.1 hm with hm | hm
      · exact absurd (List.eq_of_mem_replicate hm) (by decide)
      · exact h2 hm
    · obtain ⟨h1, h2, h3⟩ := hfacts l (by rw [har]; exact List.mem_cons_of_mem _ hl)
      obtain ⟨c0, tl, e, _⟩ := h1
      have := h3 0
      simp only [spaces, List.replicate_zero, List.nil_append] at this
      exact ⟨⟨by rw [e]; simp, h2⟩, this⟩
  have hgne : indentFirst i (paraLines t0 segs more) ≠ [] := by rw [hg]; simp
  obtain ⟨ht, hstx, hstxL⟩ := h.txt
  have hclean : isListTag (pSrc ESC t0 segs more) = false ∧ preCode (pSrc ESC t0 segs more) = none := by
    constructor
    · simp [pSrc, isListTag, Node.isTag]
    · simp [pSrc, preCode, Node.isTag]
  refine ⟨chunkB_ok 4 _ _ hgne (nel_lines _ hgne (fun l hl => (hgl l hl).1)) ?_ hclean.1 hclean.2,
    fun l hl => (hgl l hl).2, ?_, rfl, rfl, ?_, ?_, rfl⟩
  · rw [joinLines_indentFirst i _ hne, pSrc_raw]
    apply produces_para_multi i (by omega) _ hne (fun l hl => ⟨(hfacts l hl).1, (hfacts l hl).2.1⟩)
    rw [joinLines_paraLines]
    exact olMarker_none_of _ (no_dot_after_digits escOK_generated.dot t0 _ (rawF_head_P h.first more))
  · obtain ⟨c0, tl, e, hcs, _⟩ := (hfacts a (by rw [har]; simp)).1
    refine ⟨c0, ?_, hcs⟩
    show c0 ∈ joinLines (indentFirst i (paraLines t0 segs more))
    rw [joinLines_indentFirst i _ hne, har]
    apply List.mem_append_right
    cases r with
    | nil => rw [joinLines_single, e]; simp
    | cons b r' => rw [joinLines_cons_cons, e]; simp
  · exact fun refs => pElem_ok { esc := ESC, refs := refs } escOK_generated escSup_generated t0 segs more ht hstx hstxL
  · exact fun refs => pElem_ok { esc := ESC, refs := refs } escOK_generated escSup_generated t0 segs more ht hstx hstxL

/-! ### 67. the printed paragraph against its specification; the document -/

/-- what the runs after the hard breaks come to -/
def specLines : List (List DocSpec.Inline) → Str
  | [] => []
  | ci :: r => brOutS ++ (specInlines ci ++ specLines r)

theorem specInline_br : specInline .br = brOutS := rfl

theorem specInlines_brSplit (c : List DocSpec.Inline) :
    specInlines c = specInlines (brSplit c).1 ++ specLines (brSplit c).2 := by
  induction c with
  | nil => simp [brSplit, specInlines_nil, specLines]
  | cons x r ih =>
    by_cases hb : isBr x = true
    · have hxb : x = .br := by cases x <;> simp_all [isBr]
      subst hxb
      rw [brSplit_br, specInlines_cons, specInline_br, ih]
      simp [specInlines_nil, specLines]
    · have hb' : isBr x = false := by simpa using hb
      rw [brSplit_cons_of x r hb', specInlines_cons, specInlines_cons, ih, List.append_assoc]

theorem runOut_eq {c : List DocSpec.Inline} {t0 : Str} {segs : List Seg2} (h : Deep2ContentW c t0 segs) :
    Ser.escCdata t0 ++ out2 segs = specInlines c := by
  obtain ⟨h1, _, _, _, h5, _⟩ := h.facts
  have hamp : ∀ ch, plainCh ch → ch ≠ '&' := fun ch hc => (plainCh_facts hc).2.2.1
  have ha0 : '&' ∉ t0 := fun hm => hamp _ (h5 _ (Or.inl hm)) rfl
  have has : ∀ s ∈ segs, '&' ∉ s.t ∧ s.k.noAmp := fun s hs =>
    ⟨fun hm => hamp _ (h5 _ (Or.inr ⟨s, hs, hm⟩)) rfl, by
      have := h1 s hs
      cases hk : s.k with
      | code n b => trivial
      | em st d β =>
        rw [hk] at this
        refine ⟨fun hm => hamp _ (this.2.plain _ (Or.inl hm)) rfl, ?_⟩
        intro x hx
        refine ⟨fun hm => hamp _ (this.2.plain _ (Or.inr ⟨x, hx, hm⟩)) rfl, ?_⟩
        have hx1 := this.2.segs x hx
        cases hkx : x.k with
        | code n b => trivial
        | em st' d' β' =>
          rw [hkx] at hx1
          exact ⟨fun hm => hamp _ (hx1.2.plain _ (Or.inl hm)) rfl,
            fun y hy hm => hamp _ (hx1.2.plain _ (Or.inr ⟨y, hy, hm⟩)) rfl⟩⟩
  rw [specInlines_splitDeep2 c h.items, ← h.t0eq, ← h.smap, ← out2_eq segs has, htmlEsc_eq_escCdata t0 ha0]

theorem linesOut_eq : ∀ (cr : List (List DocSpec.Inline)) (more : List Ln), LinesW cr more →
    linesOut more = specLines cr := by
  intro cr more
  induction more generalizing cr with
  | nil =>
    intro h
    cases cr with
    | nil => rfl
    | cons _ _ => exact absurd h (by simp [LinesW])
  | cons a r ih =>
    intro h
    cases cr with
    | nil => exact absurd h (by simp [LinesW])
    | cons ci cr' =>
      rw [linesW_cons] at h
      rw [linesOut_cons, specLines, ih cr' h.2, ← runOut_eq h.1]
      simp [brOutS, List.append_assoc]

theorem pOut_eq {c : List DocSpec.Inline} {t0 : Str} {segs : List Seg2} {more : List Ln}
    (h : PContentOK c t0 segs more) : pOut t0 segs more = specBlock (.para c) := by
  rw [specBlock_para, specInlines_brSplit c, ← runOut_eq h.first, ← linesOut_eq _ _ h.lines]
  simp [pOut, S, List.append_assoc]

theorem startsOk_brSplit (c : List DocSpec.Inline) (h : startsOk c = true) : startsOk (brSplit c).1 = true := by
  cases c with
  | nil => simp [startsOk] at h
  | cons x r =>
    cases x <;> first | (simp [startsOk] at h; done) | (rw [brSplit_cons_of _ _ rfl]; simp_all [startsOk])

theorem pItemsOK_of_wf (c : List DocSpec.Inline) (hp : c.all isBrItem = true)
    (hw : wfInlineList false .none true c = true) : pItemsOK c = true := by
  induction c with
  | nil => rfl
  | cons x r ih =>
    simp only [List.all_cons, Bool.and_eq_true] at hp
    simp only [wfInlineList, Bool.and_eq_true] at hw
    have ihr := ih hp.2 hw.2
    by_cases hb : isBr x = true
    · simp [pItemsOK, hb, ihr]
    · have hd : isDeep2Item x = true := by
        have := hp.1
        cases x <;> simp_all [isBrItem, isBr]
      have := deep2ItemsOK_of_wf [x] true (by simp [hd]) (by simp [wfInlineList, hw.1])
      simp [pItemsOK, this, ihr]

theorem linesW_of : ∀ (cr : List (List DocSpec.Inline)) (more : List Ln), LinesRel cr more →
    (∀ ci ∈ cr, startsOk ci = true ∧ okAdjacents ci = true ∧ noBsBeforeCode ci = true ∧ deep2ItemsOK ci = true) →
    LinesW cr more := by
  intro cr more
  induction more generalizing cr with
  | nil =>
    intro h _
    cases cr with
    | nil => trivial
    | cons _ _ => exact absurd h (by simp [LinesRel])
  | cons a r ih =>
    intro h hok
    cases cr with
    | nil => exact absurd h (by simp [LinesRel])
    | cons ci cr' =>
      have h' : (a.t0 = (splitDeep2 ci).1 ∧ a.segs.map (fun s => (s.k.q, s.t)) = (splitDeep2 ci).2 ∧
        (∀ s ∈ a.segs, K2Printed s.k) ∧ UnderOK2 ESC (lastW ESC a.t0) a.segs) ∧ LinesRel cr' r := h
      obtain ⟨⟨e1, e2, e3, e4⟩, hr⟩ := h'
      obtain ⟨o1, o2, o3, o4⟩ := hok ci (by simp)
      rw [linesW_cons]
      exact ⟨⟨o4, o1, o2, o3, e1, e2, e3, e4⟩, ih cr' hr (fun x hx => hok x (List.mem_cons_of_mem _ hx))⟩

/-- **the printed form of a paragraph**: its lines, and what the stages need of them -/
theorem printContent_P (c : List DocSpec.Inline) (hp : brRun c = true)
    (hw : wfInlines false .none true c = true) (st : PSt) :
    ∃ (t0 : Str) (segs : List Seg2) (more : List Ln) (st' : PSt),
      printContent c st = (paraLines t0 segs more, st') ∧ st'.defs = st.defs ∧ PContentOK c t0 segs more := by
  simp only [brRun, Bool.and_eq_true] at hp
  simp only [wfInlines, wfRun, Bool.and_eq_true] at hw
  obtain ⟨⟨⟨⟨hst, hen⟩, hadj⟩, _⟩, hlist⟩ := hw
  have hit := pItemsOK_of_wf c hp.1 hlist
  obtain ⟨t0, segs, more, st', hpr, hd, ht0, hsm, hprinted, hu, hrel⟩ := printInlines_P c hit true true st
  obtain ⟨⟨r1, r2, r3⟩, r4⟩ := runs_ok c hadj hp.2 hit (fun _ => hen)
  rw [pwOf_true] at hu
  have hok : PContentOK c t0 segs more :=
    ⟨⟨r3, startsOk_brSplit c hst, r1, r2, ht0, hsm, hprinted, hu⟩, linesW_of _ _ hrel r4⟩
  refine ⟨t0, segs, more, st', ?_, hd, hok⟩
  have hfacts := paraLines_facts more _ _ t0 segs hok.first hok.lines
  simp only [printContent, hpr]
  rw [← joinLines_paraLines, splitC_joinLines _ (paraLines_ne t0 segs more) (fun l hl => (hfacts l hl).2.1)]

theorem printBlock_br (b : DocSpec.Block) (hf : isBrBlock b = true) (hw : wfBlock none b = true) (st : PSt) :
    ∃ (p : Piece2) (st' : PSt), printBlock true b st = (p.b.g, st') ∧ st'.defs = st.defs ∧
      Piece2OK {} p ∧ p.elem.out = specBlock b ∧ p.b.isCode = isCode b := by
  cases b with
  | para c =>
    simp only [isBrBlock] at hf
    simp only [wfBlock] at hw
    obtain ⟨t0, segs, more, st', hpc, hd, hok⟩ := printContent_P c hf hw (draw st).2
    refine ⟨pPiece (indentFirst ((draw st).1 % 4) (paraLines t0 segs more)) t0 segs more,
      st', ?_, by rw [hd, draw_defs], pPara_ok hok _ (Nat.mod_lt _ (by omega)), pOut_eq hok, rfl⟩
    rw [printBlock_para, hpc]; rfl
  | rule => exact printBlock_deep2 .rule rfl hw st
  | code ls => exact printBlock_deep2 (.code ls) hf hw st
  | atx l c => exact printBlock_deep2 (.atx l c) hf hw st
  | setext l c => exact printBlock_deep2 (.setext l c) hf hw st
  | quote _ => simp [isBrBlock, isDeep2Block] at hf
  | ulist _ _ => simp [isBrBlock, isDeep2Block] at hf
  | olist _ _ => simp [isBrBlock, isDeep2Block] at hf

/-- the printed blocks of a document whose blocks each print as a piece -/
theorem printBlocks_gen (d : Doc) (hne : d ≠ [])
    (hB : ∀ b ∈ d, ∀ st : PSt, ∃ (p : Piece2) (st' : PSt), printBlock true b st = (p.b.g, st') ∧
      st'.defs = st.defs ∧ Piece2OK {} p ∧ p.elem.out = specBlock b ∧ p.b.isCode = isCode b)
    (hnext : okNexts d = true) :
    ∀ st : PSt, ∃ (ps : List Piece2) (st' : PSt), printBlocks true d st = (flatLines (ps.map (·.b.g)), st') ∧
      st'.defs = st.defs ∧ ps ≠ [] ∧ (∀ p ∈ ps, Piece2OK {} p) ∧
      joinOutS (ps.map (·.elem.out)) = specBlocks d ∧ noCodeAfterCode (ps.map (·.b)) ∧
      (ps.head?.map (·.b.isCode) = d.head?.map isCode) := by
  induction d with
  | nil => exact absurd rfl hne
  | cons b r ih =>
    intro st
    obtain ⟨p, st1, hp, hd1, hok, hout, hcode⟩ := hB b List.mem_cons_self st
    cases r with
    | nil =>
      refine ⟨[p], st1, ?_, hd1, by simp, ?_, ?_, trivial, by simp [hcode]⟩
      · rw [printBlocks_one, hp]; rfl
      · intro q hq; have : q = p := by simpa using hq
        subst this; exact hok
      · rw [specBlocks_one, ← hout]; rfl
    | cons b' r' =>
      rw [okNexts_cons2, Bool.and_eq_true] at hnext
      obtain ⟨ps, st2, hps, hd2, hpsne, hoks, houts, hadj, hhead⟩ := ih (by simp)
        (fun x hx => hB x (List.mem_cons_of_mem _ hx)) hnext.2 st1
      obtain ⟨q, qs, rfl⟩ : ∃ q qs, ps = q :: qs := by
        cases ps with
        | nil => exact absurd rfl hpsne
        | cons q qs => exact ⟨q, qs, rfl⟩
      have hq : q.b.isCode = isCode b' := by simpa using hhead
      refine ⟨p :: q :: qs, st2, ?_, by rw [hd2, hd1], by simp, ?_, ?_, ?_, by simp [hcode]⟩
      · rw [printBlocks_cons2, hp]
        simp only [hps]
        rfl
      · intro x hx
        rcases List.mem_cons.1 hx with rfl | hx
        · exact hok
        · exact hoks x hx
      · rw [specBlocks_cons2, ← houts, ← hout]; rfl
      · refine ⟨?_, hadj⟩
        intro hqc
        rw [hq] at hqc
        rw [hcode]
        have h1 := hnext.1
        simp only [okNext, hqc, Bool.and_true, Bool.and_eq_true, Bool.not_eq_true', Bool.or_eq_false_iff] at h1
        exact h1.1.2.1

/-- **C01 on documents whose paragraphs have several lines**: every spelling of a well-formed document of the
    sub-grammar (two levels of emphasis, hard breaks between the lines of a paragraph) converts to what `spec`
    prescribes -/
theorem convert_brDoc (d : Doc) (sp : Spelling) (hwf : WF d = true) (hs : DocSpec.BrDoc d = true) :
    Pipeline.convert {} (print d sp) = .ok (spec d) := by
  simp only [WF, Bool.and_eq_true, Bool.not_eq_true', List.isEmpty_eq_false_iff] at hwf
  obtain ⟨⟨⟨hne, hnx⟩, hbl⟩, _⟩ := hwf
  have hf : ∀ b ∈ d, isBrBlock b = true := by
    simpa [DocSpec.BrDoc, List.all_eq_true] using hs
  obtain ⟨ps, st', hps, hdefs, hpsne, hoks, houts, hadj, _⟩ :=
    printBlocks_gen d hne (fun b hb st => printBlock_br b (hf b hb) (wfBlockList_mem hbl b hb) st) hnx
      ⟨sp.choices, 1, []⟩
  have hprint : print d sp = joinLines (flatLines (ps.map (·.b.g))) := by
    simp only [print, hps]
    have : st'.defs = [] := hdefs
    simp [this, joinLines]
  rw [hprint, spec, ← houts]
  exact convert_pieces2 {} rfl rfl ps hpsne hoks hadj

end MdVerif.DocParse2
