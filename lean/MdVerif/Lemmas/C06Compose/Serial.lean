/-
C06, composition, part 2: the serializer.  For a vocabulary tree without attributes whose texts are `outOk`: the
serialisation does not contain the ampersand substitute, and what the strict reader returns for it has the text
content of the tree.  Core Lean only.
-/
import MdVerif.Lemmas.C06Compose.Trees

namespace MdVerif.C06
open Py Flat Ser Vocab2

/-! ### `prettify` sets no attribute -/

def BareRule (f : Node → Node) : Prop := ∀ n, bare n = true → bare (f n) = true

theorem bare_iff {n : Node} : bare n = true ↔ n.attrs = [] ∧ bareKids n.children = true := by
  cases n; simp only [bare, Bool.and_eq_true, List.isEmpty_iff]

theorem bareKids_cons {c : Node} {r : List Node} : bareKids (c :: r) = true ↔ bare c = true ∧ bareKids r = true := by
  simp only [bareKids, Bool.and_eq_true]

mutual
theorem mapTree_bare {f : Node → Node} (hf : BareRule f) : (n : Node) → bare n = true → bare (TreeProc.mapTree f n) = true
  | ⟨tag, attrs, text, ta, children, tail, tla⟩, h => by
    simp only [TreeProc.mapTree]
    apply hf
    rw [bare_iff] at h ⊢
    exact ⟨h.1, mapKids_bare hf children h.2⟩
theorem mapKids_bare {f : Node → Node} (hf : BareRule f) : (ns : List Node) → bareKids ns = true →
    bareKids (TreeProc.mapKids f ns) = true
  | [], _ => rfl
  | c :: r, h => by
    rw [bareKids_cons] at h
    simp only [TreeProc.mapKids]
    exact bareKids_cons.2 ⟨mapTree_bare hf c h.1, mapKids_bare hf r h.2⟩
end

theorem brRule_bare : BareRule TreeProc.brRule := by
  intro n h
  unfold TreeProc.brRule
  split
  · split <;> (rw [bare_iff] at h ⊢; exact h)
  · exact h

theorem preRule_bare : BareRule TreeProc.preRule := by
  intro n h
  unfold TreeProc.preRule
  split
  · split
    · rename_i code rest hch
      split
      · split
        · rw [bare_iff] at h ⊢
          refine ⟨h.1, ?_⟩
          have hk := h.2
          rw [hch, bareKids_cons] at hk
          simp only []
          refine bareKids_cons.2 ⟨?_, hk.2⟩
          have := bare_iff.1 hk.1
          rw [bare_iff]; exact this
        · exact h
      · exact h
    · exact h
  · exact h

mutual
theorem prettifyETree_bare (bl : List Str) : (n : Node) → bare n = true → bare (TreeProc.prettifyETree bl n) = true
  | ⟨tag, attrs, text, ta, children, tail, tla⟩, h => by
    rw [bare_iff] at h
    simp only [TreeProc.prettifyETree]
    rw [bare_iff]
    refine ⟨h.1, ?_⟩
    simp only []
    split
    · exact prettifyKids_bare bl children h.2
    · exact h.2
theorem prettifyKids_bare (bl : List Str) : (ns : List Node) → bareKids ns = true →
    bareKids (TreeProc.prettifyKids bl ns) = true
  | [], _ => rfl
  | c :: r, h => by
    rw [bareKids_cons] at h
    simp only [TreeProc.prettifyKids]
    refine bareKids_cons.2 ⟨?_, prettifyKids_bare bl r h.2⟩
    split
    · exact prettifyETree_bare bl c h.1
    · exact h.1
end

theorem prettify_bare (bl : List Str) (root : Node) (h : bare root = true) : bare (TreeProc.prettify root bl) = true := by
  unfold TreeProc.prettify
  exact mapTree_bare preRule_bare _ (mapTree_bare brRule_bare _ (prettifyETree_bare bl root h))

/-! ### the ampersand substitute does not occur -/

theorem stxDigit_of_append_right {a b : Str} (h : stxDigit (a ++ b) = true) : stxDigit b = true := by
  induction a with
  | nil => simpa using h
  | cons c r ih =>
    simp only [List.cons_append, stxDigit, Bool.and_eq_true] at h
    exact ih h.2

theorem no_ampSub_of_stxDigit {s : Str} (h : stxDigit s = true) : contains s Post.ampSubstitute = false := by
  rw [contains_eq_false_iff]
  intro pre post e
  rw [e, List.append_assoc] at h
  have := stxDigit_of_append_right h
  revert this
  simp [Post.ampSubstitute, stxDigit, Post.STX, Inline.STX, isAsciiDigit]

theorem stxDigit_esc1 : ∀ (s : Str), '&' ∉ s → stxDigit s = true → stxDigit (esc1 false false s) = true
  | [], _, _ => rfl
  | c :: r, hamp, h => by
    have hc : c ≠ '&' := fun e => hamp (by simp [e])
    have hr : '&' ∉ r := fun hm => hamp (List.mem_cons_of_mem _ hm)
    simp only [stxDigit, Bool.and_eq_true, Bool.or_eq_true, bne_iff_ne, ne_eq] at h
    have ih := stxDigit_esc1 r hr h.2
    simp only [esc1, hc, if_false, Bool.false_and, Bool.false_eq_true]
    by_cases h1 : c = '<'
    · simp only [h1, if_true]
      exact stxDigit_append (by decide) ih
    · by_cases h2 : c = '>'
      · simp only [h2, if_true]
        exact stxDigit_append (by decide) ih
      · simp only [h1, h2, if_false]
        simp only [stxDigit, Bool.and_eq_true, Bool.or_eq_true, bne_iff_ne, ne_eq]
        refine ⟨?_, ih⟩
        rcases h.1 with h3 | h3
        · exact Or.inl h3
        · right
          cases r with
          | nil => simp at h3
          | cons d r' =>
            have hd : isAsciiDigit d = true := by simpa using h3
            have hd1 : d ≠ '&' := by intro e; subst e; revert hd; decide
            have hd2 : d ≠ '<' := by intro e; subst e; revert hd; decide
            have hd3 : d ≠ '>' := by intro e; subst e; revert hd; decide
            simp [esc1, hd1, hd2, hd3, hd]

theorem stxDigit_escCdata {s : Str} (h : outOk s = true) : stxDigit (escCdata s) = true := by
  simp only [outOk, Bool.and_eq_true, Bool.not_eq_true'] at h
  rw [onepass_cdata']
  exact stxDigit_esc1 s (by simpa using h.1) h.2

theorem vocab_no_stx : ∀ e ∈ vocabTags, Inline.STX ∉ e.toList := by decide

theorem stxDigit_tag {t : Str} (h : hasTag vocabTags t = true) : stxDigit t = true := by
  simp only [hasTag, List.any_eq_true, decide_eq_true_eq] at h
  obtain ⟨e, he, rfl⟩ := h
  exact stxDigit_of_no_stx (vocab_no_stx e he)

theorem vocab_not_raw {t : Str} (ht : hasTag vocabTags t = true) (hraw : isRawTextTag t = true) : False := by
  simp only [hasTag, List.any_eq_true, decide_eq_true_eq] at ht
  obtain ⟨e, he, rfl⟩ := ht
  have : ∀ e ∈ vocabTags, isRawTextTag e.toList = false := by decide
  rw [this e he] at hraw; cases hraw

theorem stxDigit_textPart {t : Option Str} (h : outOk (t.getD []) = true) :
    stxDigit (if Node.truthy t = true then escCdata (t.getD []) else []) = true := by
  split
  · exact stxDigit_escCdata h
  · rfl

theorem stxDigit_element (fmt : Fmt) {t : Str} {text : Option Str} {kids : Str} (ht : hasTag vocabTags t = true)
    (htx : outOk (text.getD []) = true) (hk : stxDigit kids = true) :
    stxDigit (element fmt t none [] text kids) = true := by
  have htag := stxDigit_tag ht
  have hopen : stxDigit ('<' :: t ++ writeAttrs fmt (sortAttrs []) ++ ([] : Str)) = true := by
    simp only [sortAttrs, List.foldr_nil, writeAttrs, List.append_nil]
    exact stxDigit_append (a := ['<']) (by decide) htag
  unfold element
  simp only []
  split
  · exact stxDigit_append hopen (by decide)
  · refine stxDigit_append (stxDigit_append (stxDigit_append (stxDigit_append hopen (by decide)) ?_) hk) ?_
    · split
      · split
        · -- raw text tags are not in the vocabulary
          rename_i _ hraw
          exfalso
          exact vocab_not_raw ht hraw
        · exact stxDigit_escCdata htx
      · rfl
    · split
      · rfl
      · exact stxDigit_append (stxDigit_append (a := "</".toList) (by decide) htag) (by decide)

theorem outTree_iff {n : Node} : outTree n = true ↔
    n.attrs = [] ∧ outOk (n.text.getD []) = true ∧ outOk (n.tail.getD []) = true ∧ outKids n.children = true := by
  cases n; simp only [outTree, Bool.and_eq_true, List.isEmpty_iff, and_assoc]

theorem outKids_cons {c : Node} {r : List Node} : outKids (c :: r) = true ↔ outTree c = true ∧ outKids r = true := by
  simp only [outKids, Bool.and_eq_true]

theorem goodT_iff {n : Node} : Good n = true ↔
    nodeOk vocabTags n.tag n.attrs n.text n.children = true ∧ GoodList n.children = true := by
  cases n; simp only [Good, GoodT, Bool.and_eq_true]

mutual
theorem stxDigit_serialize (fmt : Fmt) : (n : Node) → Good n = true → outTree n = true →
    stxDigit (serialize fmt n) = true
  | ⟨tag, attrs, text, ta, children, tail, tla⟩, hg, ho => by
    simp only [Good, GoodT, Bool.and_eq_true] at hg
    simp only [outTree, Bool.and_eq_true, List.isEmpty_iff] at ho
    obtain ⟨⟨⟨ha, htx⟩, htl⟩, hk⟩ := ho
    have hkids := stxDigit_serializeList fmt children hg.2 hk
    unfold serialize
    simp only []
    refine stxDigit_append ?_ (stxDigit_textPart htl)
    cases tag with
    | name t =>
      simp only []
      have hn := hg.1
      simp only [Vocab2.nodeOk, Bool.and_eq_true] at hn
      subst ha
      exact stxDigit_element fmt hn.1.1 htx hkids
    | comment => simp [Vocab2.nodeOk] at hg
    | pi => simp [Vocab2.nodeOk] at hg
    | none => simp [Vocab2.nodeOk] at hg
    | qname q => simp [Vocab2.nodeOk] at hg
theorem stxDigit_serializeList (fmt : Fmt) : (ns : List Node) → GoodList ns = true → outKids ns = true →
    stxDigit (serializeList fmt ns) = true
  | [], _, _ => by unfold serializeList; rfl
  | c :: r, hg, ho => by
    simp only [GoodList, GoodListT, Bool.and_eq_true] at hg
    rw [outKids_cons] at ho
    unfold serializeList
    exact stxDigit_append (stxDigit_serialize fmt c hg.1 ho.1) (stxDigit_serializeList fmt r hg.2 ho.2)
end

/-- **the content of the wrapper does not contain `STX amp ETX`** -/
theorem inner_no_ampSub (fmt : Fmt) {u : Node} (hd : DocOk u = true) (ho : outTree u = true) :
    contains (inner fmt u) Post.ampSubstitute = false := by
  simp only [DocOk, Bool.and_eq_true] at hd
  rw [outTree_iff] at ho
  apply no_ampSub_of_stxDigit
  unfold inner
  exact stxDigit_append (stxDigit_textPart ho.2.1) (stxDigit_serializeList fmt _ hd.2 ho.2.2.2)

end MdVerif.C06
