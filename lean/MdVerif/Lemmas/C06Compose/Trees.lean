/-
C06, composition, part 1: the visible text of an output string (through the strict reader), and what the last two
tree processors leave in the texts of the tree (no `&`, every `STX` followed by a digit, no attribute).  Core Lean only.
-/
import MdVerif.Props.C06Inline
import MdVerif.Lemmas.InlineVocab

namespace MdVerif.C06
open Py Flat

/-! ### the text content of an output string -/

/-- the characters of a text item of the reader: a character token is itself, `&quot;` is `"`, any other entity
    reference that was not decoded (`&amp;`, `&lt;`, `&gt;` are) contributes nothing -/
def tokChars : List Ser.Tok → Str
  | [] => []
  | .ch c :: r => c :: tokChars r
  | .ent b :: r => (if b = "quot".toList then ['"'] else []) ++ tokChars r

mutual
/-- the text content of what the strict reader returns: text items, in document order; tags, attributes, comments
    contribute nothing -/
def rnodeText : Ser.RNode → Str
  | .elem _ _ kids => forestText kids
  | .text toks => tokChars toks
  | .comment _ => []
  | .pi _ => []
  | .raw _ => []
def forestText : List Ser.RNode → Str
  | [] => []
  | n :: r => rnodeText n ++ forestText r
end

/-- the text content of an output string: read by the strict reader of `Spec/Reader.lean` (`none` when the string is
    not well-formed) -/
def visibleText (fmt : Ser.Fmt) (out : Str) : Option Str := (Ser.readForest fmt out).map forestText

/-- the letters of the text content of an output string, in order -/
def visibleLetters (L : Char → Bool) (fmt : Ser.Fmt) (out : Str) : Str :=
  letters L ((visibleText fmt out).getD [])

theorem tokChars_append (a b : List Ser.Tok) : tokChars (a ++ b) = tokChars a ++ tokChars b := by
  induction a with
  | nil => rfl
  | cons t r ih => cases t <;> simp [tokChars, ih]

theorem tokChars_map_ch (s : Str) : tokChars (s.map Ser.Tok.ch) = s := by
  induction s with
  | nil => rfl
  | cons c r ih => simp [tokChars, ih]

theorem forestText_append (a b : List Ser.RNode) : forestText (a ++ b) = forestText a ++ forestText b := by
  induction a with
  | nil => rfl
  | cons n r ih => simp [forestText, ih]

theorem forestText_mergeTexts : ∀ (l : List Ser.RNode), forestText (Ser.mergeTexts l) = forestText l
  | [] => rfl
  | .text a :: r => by
    have ih := forestText_mergeTexts r
    simp only [Ser.mergeTexts]
    cases hm : Ser.mergeTexts r with
    | nil =>
      rw [hm] at ih
      simp only []
      split
      · rename_i he
        have : a = [] := by cases a <;> simp_all
        subst this
        simp [forestText, rnodeText, tokChars, ← ih]
      · simp [forestText, ← ih]
    | cons x r' =>
      rw [hm] at ih
      cases x with
      | text b =>
        simp only [forestText, rnodeText, tokChars_append] at ih ⊢
        rw [← ih, List.append_assoc]
      | elem t as ks =>
        simp only []
        split
        · rename_i he
          have : a = [] := by cases a <;> simp_all
          subst this
          simp [forestText, rnodeText, tokChars, ← ih]
        · simp [forestText, ← ih]
      | comment c =>
        simp only []
        split
        · rename_i he
          have : a = [] := by cases a <;> simp_all
          subst this
          simp [forestText, rnodeText, tokChars, ← ih]
        · simp [forestText, ← ih]
      | pi c =>
        simp only []
        split
        · rename_i he
          have : a = [] := by cases a <;> simp_all
          subst this
          simp [forestText, rnodeText, tokChars, ← ih]
        · simp [forestText, ← ih]
      | raw c =>
        simp only []
        split
        · rename_i he
          have : a = [] := by cases a <;> simp_all
          subst this
          simp [forestText, rnodeText, tokChars, ← ih]
        · simp [forestText, ← ih]
  | .elem t as ks :: r => by simp [Ser.mergeTexts, forestText, forestText_mergeTexts r]
  | .comment c :: r => by simp [Ser.mergeTexts, forestText, forestText_mergeTexts r]
  | .pi c :: r => by simp [Ser.mergeTexts, forestText, forestText_mergeTexts r]
  | .raw c :: r => by simp [Ser.mergeTexts, forestText, forestText_mergeTexts r]

/-! ### texts fit for the serializer -/

/-- every `STX` is followed by an ASCII digit (so `STX amp ETX` does not occur) -/
def stxDigit : Str → Bool
  | [] => true
  | c :: r => (c != Inline.STX || (match r with | d :: _ => isAsciiDigit d | [] => false)) && stxDigit r

/-- a text as the last tree processor leaves it: no `&`, every `STX` followed by a digit -/
def outOk (s : Str) : Bool := !s.contains '&' && stxDigit s

mutual
/-- no attribute anywhere, every text and tail `outOk` -/
def outTree : Node → Bool
  | ⟨_, attrs, text, _, children, tail, _⟩ =>
    attrs.isEmpty && outOk (text.getD []) && outOk (tail.getD []) && outKids children
def outKids : List Node → Bool
  | [] => true
  | c :: r => outTree c && outKids r
end

theorem stxDigit_append {a b : Str} (ha : stxDigit a = true) (hb : stxDigit b = true) : stxDigit (a ++ b) = true := by
  induction a with
  | nil => simpa using hb
  | cons c r ih =>
    simp only [stxDigit, Bool.and_eq_true, Bool.or_eq_true, bne_iff_ne, ne_eq] at ha
    simp only [List.cons_append, stxDigit, Bool.and_eq_true, Bool.or_eq_true, bne_iff_ne, ne_eq]
    refine ⟨?_, ih ha.2⟩
    rcases ha.1 with h | h
    · exact Or.inl h
    · right
      cases r with
      | nil => simp at h
      | cons d r' => simpa using h

theorem stxDigit_of_no_stx {s : Str} (h : Inline.STX ∉ s) : stxDigit s = true := by
  induction s with
  | nil => rfl
  | cons c r ih =>
    simp only [stxDigit, Bool.and_eq_true, Bool.or_eq_true, bne_iff_ne, ne_eq]
    exact ⟨Or.inl (fun e => h (by simp [e])), ih (fun hm => h (List.mem_cons_of_mem _ hm))⟩

/-- a string without placeholders: every `STX` starts an escape token, whose first character is a digit -/
theorem stxDigit_of_ok0 {L : Char → Bool} {s : Str} (h : ok L 0 s = true) : stxDigit s = true := by
  induction s with
  | nil => rfl
  | cons c r ih =>
    rw [ok_cons] at h
    simp only [stxDigit, Bool.and_eq_true, Bool.or_eq_true, bne_iff_ne, ne_eq]
    refine ⟨?_, ih h.2.2⟩
    rcases h.2.1 with h1 | h1 | h1
    · exact Or.inl h1
    · right
      unfold escTok at h1
      cases hp : Inline.phAt r with
      | none => simp [hp] at h1
      | some x =>
        obtain ⟨id, l⟩ := x
        obtain ⟨_, hpos, hd, rest, hr⟩ := phAt_some hp
        cases id with
        | nil => simp at hpos
        | cons d ds => subst hr; simpa using hd d (by simp)
    · rw [phTok_zero] at h1; cases h1

theorem no_amp_of_ok {L : Char → Bool} {n : Nat} {s : Str} (h : ok L n s = true) : s.contains '&' = false := by
  have := (not_mem_of_ok h).2.1
  simpa using this

theorem outOk_of_ok0 {L : Char → Bool} {s : Str} (h : ok L 0 s = true) : outOk s = true := by
  simp only [outOk, Bool.and_eq_true, Bool.not_eq_true']
  exact ⟨no_amp_of_ok h, stxDigit_of_ok0 h⟩

/-- what `UnescapeTreeprocessor` writes for a string without placeholders has no `&` and no `STX` -/
theorem unescapeText_chars {L : Char → Bool} :
    ∀ (k : Nat) (s s' : Str), s.length ≤ k → ok L 0 s = true → TreeProc.unescapeText 0 s = some s' →
      ∀ c ∈ s', c ≠ '&' ∧ c ≠ Inline.STX := by
  intro k
  induction k with
  | zero =>
    intro s s' hk _ h
    have : s = [] := List.length_eq_zero_iff.1 (by omega)
    subst this
    simp only [TreeProc.unescapeText, Option.some.injEq] at h
    subst h; intro c hc; cases hc
  | succ k ih =>
    intro s s' hk hok h
    cases s with
    | nil =>
      simp only [TreeProc.unescapeText, Option.some.injEq] at h
      subst h; intro c hc; cases hc
    | cons c r =>
      rw [ok_cons] at hok
      simp only [List.length_cons] at hk
      by_cases hc : c = Inline.STX
      · subst hc
        rcases hok.2.1 with h1 | h1 | h1
        · exact absurd rfl h1
        · unfold escTok at h1
          cases hp : Inline.phAt r with
          | none => simp [hp] at h1
          | some x =>
            obtain ⟨id, l⟩ := x
            simp only [hp, tokChar, Bool.and_eq_true, decide_eq_true_eq, Bool.not_eq_true', bne_iff_ne, ne_eq] at h1
            obtain ⟨hl, hpos, hd, rest, hr⟩ := phAt_some hp
            subst hr
            have hspan := spanLen_isDecimal_digits (rest := rest) hd
            have hget : (id ++ Inline.ETX :: rest)[id.length]? = some TreeProc.ETX := by simp [etx_eq]
            have htake : (id ++ Inline.ETX :: rest).take id.length = id := by simp
            simp only [TreeProc.unescapeText, stx_eq, if_true, hspan, hget, htake, hpos, decide_true,
              beq_self_eq_true, Bool.and_self, h1.1] at h
            rw [unescapeText_eq_drop] at h
            have hdrop : (id ++ Inline.ETX :: rest).drop (id.length + 1) = rest := by
              rw [show id ++ Inline.ETX :: rest = (id ++ [Inline.ETX]) ++ rest by simp,
                show id.length + 1 = (id ++ [Inline.ETX]).length by simp, List.drop_left]
            rw [hdrop] at h
            cases hu : TreeProc.unescapeText 0 rest with
            | none => simp [hu] at h
            | some s'' =>
              simp only [hu, Option.map_some, Option.some.injEq] at h
              subst h
              have hokrest : ok L 0 rest = true := by
                have := hok.2.2
                rw [show id ++ Inline.ETX :: rest = (id ++ [Inline.ETX]) ++ rest by simp] at this
                exact ok_of_append_right this
              have hrec := ih rest s'' (by simp only [List.length_append, List.length_cons] at hk; omega) hokrest hu
              intro x hx
              rcases List.mem_cons.1 hx with rfl | hx
              · exact ⟨h1.2.1.2, h1.2.2⟩
              · exact hrec x hx
        · rw [phTok_zero] at h1; cases h1
      · have hc' : ¬ c = TreeProc.STX := hc
        simp only [TreeProc.unescapeText, hc', if_false] at h
        cases hu : TreeProc.unescapeText 0 r with
        | none => simp [hu] at h
        | some s'' =>
          simp only [hu, Option.map_some, Option.some.injEq] at h
          subst h
          intro x hx
          rcases List.mem_cons.1 hx with rfl | hx
          · refine ⟨?_, hc⟩
            intro e; subst e
            have := hok.1; revert this; decide
          · exact ih r s'' (by omega) hok.2.2 hu x hx

theorem outOk_unescapeText {L : Char → Bool} {s s' : Str} (hok : ok L 0 s = true)
    (h : TreeProc.unescapeText 0 s = some s') : outOk s' = true := by
  have hc := unescapeText_chars s.length s s' (Nat.le_refl _) hok h
  simp only [outOk, Bool.and_eq_true, Bool.not_eq_true']
  refine ⟨?_, stxDigit_of_no_stx (fun hm => (hc _ hm).2 rfl)⟩
  cases hcon : s'.contains '&' with
  | false => rfl
  | true =>
    have : '&' ∈ s' := by simpa using hcon
    exact absurd rfl (hc _ this).1

/-- the text or tail after the optional unescape -/
theorem outOk_field {L : Char → Bool} {b : Bool} {t t' : Option Str} (hok : ok L 0 (t.getD []) = true)
    (h : (if b = true then (TreeProc.unescapeText 0 (t.getD [])).map some else some t) = some t') :
    outOk (t'.getD []) = true := by
  cases b with
  | false => simp only [Bool.false_eq_true, if_false, Option.some.injEq] at h; subst h; exact outOk_of_ok0 hok
  | true =>
    simp only [if_true] at h
    cases hu : TreeProc.unescapeText 0 (t.getD []) with
    | none => simp [hu] at h
    | some s' =>
      simp only [hu, Option.map_some, Option.some.injEq] at h
      subst h
      exact outOk_unescapeText hok hu

mutual
/-- no element has an attribute -/
def bare : Node → Bool
  | ⟨_, attrs, _, _, children, _, _⟩ => attrs.isEmpty && bareKids children
def bareKids : List Node → Bool
  | [] => true
  | c :: r => bare c && bareKids r
end

mutual
theorem bare_of_atomOk {L : Char → Bool} : (t : Node) → atomOk L t = true → bare t = true
  | ⟨_, attrs, _, _, children, _, _⟩, h => by
    simp only [atomOk, Bool.and_eq_true] at h
    simp only [bare, Bool.and_eq_true]
    exact ⟨h.1.2, bareKids_of_atomOk children h.2⟩
theorem bareKids_of_atomOk {L : Char → Bool} : (ts : List Node) → kidsAtomOk L ts = true → bareKids ts = true
  | [], _ => rfl
  | c :: r, h => by
    simp only [kidsAtomOk, Bool.and_eq_true] at h
    simp only [bareKids, Bool.and_eq_true]
    exact ⟨bare_of_atomOk c h.1, bareKids_of_atomOk r h.2⟩
end

theorem unescAttrs_nil_iff {a : List (Str × Str)} (h : TreeProc.unescAttrs [] = some a) : a = [] := by
  simpa [TreeProc.unescAttrs] using h.symm

mutual
theorem outTree_unescape {L : Char → Bool} : (n n' : Node) → nodeOk L 0 n = true → bare n = true →
    TreeProc.unescapeTree n = some n' → outTree n' = true
  | ⟨tag, attrs, text, ta, children, tail, tla⟩, n', hok, hb, h => by
    rw [nodeOk_iff] at hok
    simp only [bare, Bool.and_eq_true, List.isEmpty_iff] at hb
    simp only [TreeProc.unescapeTree] at h
    split at h
    · rename_i t tl a ks h1 h2 h3 h4
      simp only [Option.some.injEq] at h
      subst h
      have e1 := outOk_field hok.1 h1
      have e2 := outOk_field hok.2.1 h2
      have e3 := outKids_unescape children ks hok.2.2 hb.2 h4
      have ea : a = [] := by
        have := h3; rw [hb.1] at this; exact unescAttrs_nil_iff this
      simp only [outTree, Bool.and_eq_true, List.isEmpty_iff]
      exact ⟨⟨⟨ea, e1⟩, e2⟩, e3⟩
    · simp at h
theorem outKids_unescape {L : Char → Bool} : (ns ns' : List Node) → kidsOk L 0 ns = true → bareKids ns = true →
    TreeProc.unescapeKids ns = some ns' → outKids ns' = true
  | [], ns', _, _, h => by
    simp only [TreeProc.unescapeKids, Option.some.injEq] at h
    subst h; rfl
  | c :: r, ns', hok, hb, h => by
    rw [kidsOk_cons] at hok
    simp only [bareKids, Bool.and_eq_true] at hb
    simp only [TreeProc.unescapeKids] at h
    split at h
    · rename_i c' r' h1 h2
      simp only [Option.some.injEq] at h
      subst h
      simp only [outKids, Bool.and_eq_true]
      exact ⟨outTree_unescape c c' hok.1 hb.1 h1, outKids_unescape r r' hok.2 hb.2 h2⟩
    · simp at h
end

end MdVerif.C06
