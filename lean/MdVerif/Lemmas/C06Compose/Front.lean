/-
C06, composition, part 4: the front of the pipeline.  Normalisation keeps the letters and the domain, the raw-HTML
preprocessor is the identity, the block tree is a tree of the inline domain (`treeClean`), and the two notions of
"letters of a tree" (block half: `Letters.docLetters`, inline half: `Flat.docLetters`) agree on it.
-/
import MdVerif.Lemmas.C06Compose.Reads
import MdVerif.Props.C06Block
import MdVerif.Lemmas.PlaceholdersBlock
import MdVerif.Lemmas.Normalize
import MdVerif.Lemmas.InlineEsc

namespace MdVerif.C06
open Py Flat

/-! ### the domain -/

/-- a character of the domain of C06: not `<` (raw HTML), `&` (entity references), `[` (links, references) or `>`
    (which `code_escape` would write as `&gt;` inside a code span) -/
def domChar (c : Char) : Bool := c != '<' && c != '&' && c != '[' && c != '>'

/-- the domain of C06 (decidable) -/
def C06Domain (src : Str) : Bool := src.all domChar

/-- a character of the text handed to the parsers: of the domain, and not `STX` -/
def cleanChar (c : Char) : Bool := charOk c && c != Inline.STX

theorem strClean_iff {s : Str} : strClean s = true ↔ ∀ c ∈ s, cleanChar c = true := by
  simp only [strClean, List.all_eq_true, cleanChar]

/-! ### normalisation -/

section
variable {L : Char → Bool}

theorem letters_filter_of_imp {p : Char → Bool} (h : ∀ c, L c = true → p c = true) (s : Str) :
    letters L (s.filter p) = letters L s := by
  induction s with
  | nil => rfl
  | cons c r ih =>
    simp only [List.filter_cons]
    by_cases hp : p c = true
    · simp only [hp, if_true, letters_cons, ih]
    · have hLc : L c = false := by
        cases hl : L c with
        | false => rfl
        | true => exact absurd (h c hl) hp
      simp only [hp, Bool.false_eq_true, if_false, ih, letters_cons_of_not L hLc]

theorem letters_nlAux (hL : LetterClass L) (b : Bool) (s : Str) : letters L (Normalize.nlAux b s) = letters L s := by
  have hcr : L '\r' = false := hL.space _ (by decide)
  have hnl : L '\n' = false := hL.space _ (by decide)
  induction s generalizing b with
  | nil => rfl
  | cons c r ih =>
    simp only [Normalize.nlAux]
    split
    · rename_i hc; subst hc
      rw [letters_cons_of_not L hnl, letters_cons_of_not L hcr, ih]
    · split
      · rename_i _ hc; subst hc
        split
        · rw [ih, letters_cons_of_not L hnl]
        · rw [letters_cons_of_not L hnl, letters_cons_of_not L hnl, ih]
      · simp only [letters_cons, ih]

theorem letters_expandtabsAux (hL : LetterClass L) (tab col : Nat) (s : Str) :
    letters L (expandtabsAux tab col s) = letters L s := by
  have htab : L '\t' = false := hL.space _ (by decide)
  have hsp : L ' ' = false := hL.space _ (by decide)
  induction s generalizing col with
  | nil => rfl
  | cons c r ih =>
    simp only [expandtabsAux]
    split
    · rename_i hc; subst hc
      split
      · rw [letters_append, letters_replicate L hsp, List.nil_append, ih, letters_cons_of_not L htab]
      · rw [ih, letters_cons_of_not L htab]
    · split <;> simp only [letters_cons, ih]

theorem letters_wsLinesAux (hL : LetterClass L) (st : Option Nat) (s : Str) :
    letters L (Normalize.wsLinesAux st s) = letters L s := by
  have hnl : L '\n' = false := hL.space _ (by decide)
  have hsp : L ' ' = false := hL.space _ (by decide)
  induction s generalizing st with
  | nil =>
    cases st with
    | none => rfl
    | some n => simp only [Normalize.wsLinesAux, letters_replicate L hsp]; rfl
  | cons c r ih =>
    cases st with
    | none =>
      simp only [Normalize.wsLinesAux]
      split
      · rename_i hc; subst hc; simp only [letters_cons, ih]
      · simp only [letters_cons, ih]
    | some n =>
      simp only [Normalize.wsLinesAux]
      split
      · rename_i hc; subst hc
        rw [ih, letters_cons_of_not L hsp]
      · split
        · rename_i _ hc; subst hc; simp only [letters_cons, ih]
        · rw [letters_append, letters_replicate L hsp, List.nil_append]
          simp only [letters_cons, ih]

/-- **`NormalizeWhitespace` keeps the letters**: it only touches `STX`, `ETX`, CR, LF, tabs and spaces -/
theorem letters_normalize (hL : LetterClass L) (tab : Nat) (src : Str) :
    letters L (Normalize.normalize tab src) = letters L src := by
  rw [Normalize.normalize_eq, letters_wsLinesAux hL, letters_expandtabsAux hL, letters_append, letters_nlAux hL,
    Normalize.stripCtl_eq_filter]
  have h2 : letters L ['\n', '\n'] = [] :=
    letters_eq_nil_of_all L (fun c hc => by
      simp only [List.mem_cons, List.not_mem_nil, or_false] at hc
      rcases hc with rfl | rfl <;> exact hL.space _ (by decide))
  rw [h2, List.append_nil]
  apply letters_filter_of_imp
  intro c hc
  simp only [Normalize.notCtl, Bool.and_eq_true, bne_iff_ne, ne_eq]
  constructor
  · intro e; subst e; rw [show Normalize.STX = Inline.STX from rfl, hL.stx] at hc; cases hc
  · intro e; subst e; rw [show Normalize.ETX = Inline.ETX from rfl, hL.etx] at hc; cases hc

end

/-- the normalised text of a source of the domain is made of clean characters -/
theorem normalize_clean (tab : Nat) {src : Str} (hd : C06Domain src = true) :
    ∀ c ∈ Normalize.normalize tab src, cleanChar c = true := by
  intro c hc
  obtain ⟨h1, h2, _⟩ := Normalize.mem_normalize hc
  have hstx : c ≠ Inline.STX := h2
  simp only [cleanChar, Bool.and_eq_true, bne_iff_ne, ne_eq]
  refine ⟨?_, hstx⟩
  rcases h1 with rfl | rfl | h1
  · decide
  · decide
  · simp only [C06Domain, List.all_eq_true] at hd
    have := hd c h1
    simp only [domChar, Bool.and_eq_true, bne_iff_ne, ne_eq] at this
    simp only [charOk, Bool.and_eq_true, bne_iff_ne, ne_eq]
    exact ⟨⟨⟨this.1.2, this.1.1.2⟩, this.1.1.1⟩, this.2⟩

theorem not_amp_of_clean {s : Str} (h : ∀ c ∈ s, cleanChar c = true) : '&' ∉ s := by
  intro hm; have := h _ hm; revert this; decide

/-- the wider domain: `>` is allowed in the source (block quotes) -/
def wideChar (c : Char) : Bool := c != '<' && c != '&' && c != '['

/-- no `<`, `&`, `[` in the source -/
def C06DomainWide (src : Str) : Bool := src.all wideChar

theorem wide_of_domain {src : Str} (h : C06Domain src = true) : C06DomainWide src = true := by
  simp only [C06Domain, C06DomainWide, List.all_eq_true] at h ⊢
  intro c hc
  have := h c hc
  simp only [domChar, Bool.and_eq_true] at this
  simp only [wideChar, Bool.and_eq_true]
  exact this.1

/-- the normalised text of a source of the wide domain has no `[`, `&`, `<` -/
theorem normalize_plain (tab : Nat) {src : Str} (hd : C06DomainWide src = true) :
    Letters.plain (Normalize.normalize tab src) = true := by
  simp only [Letters.plain, List.all_eq_true]
  intro c hc
  obtain ⟨h1, _⟩ := Normalize.mem_normalize hc
  rcases h1 with rfl | rfl | h1
  · decide
  · decide
  · simp only [C06DomainWide, List.all_eq_true] at hd
    have := hd c h1
    simp only [wideChar, Bool.and_eq_true, bne_iff_ne, ne_eq] at this
    simp only [Letters.plainChar, Bool.and_eq_true, bne_iff_ne, ne_eq]
    exact ⟨⟨this.2, this.1.2⟩, this.1.1⟩

/-- the text handed to the block parser is the normalised source -/
theorem prepare_eq (cfg : Pipeline.Cfg) {src : Str} (hd : C06DomainWide src = true) :
    Pipeline.prepare cfg src = Normalize.normalize cfg.tab src := by
  unfold Pipeline.prepare
  apply Escape.extract_no_amp
  intro hm
  have := normalize_plain cfg.tab hd
  simp only [Letters.plain, List.all_eq_true] at this
  have := this _ hm
  revert this; decide

/-- the block tree of the source is a tree of the inline domain (decidable; true when the source has no `>` at all,
    `blockTreeClean_of_domain`, and for instance when `>` only occurs as block-quote marker) -/
def blockTreeClean (cfg : Pipeline.Cfg) (src : Str) : Bool :=
  match Block.parseDocument cfg.tab (Pipeline.prepare cfg src) with
  | some (root, _) => treeClean root
  | none => true

theorem plain_of_clean {s : Str} (h : ∀ c ∈ s, cleanChar c = true) : Letters.plain s = true := by
  simp only [Letters.plain, List.all_eq_true]
  intro c hc
  have := h c hc
  simp only [cleanChar, charOk, Bool.and_eq_true, bne_iff_ne, ne_eq] at this
  simp only [Letters.plainChar, Bool.and_eq_true, bne_iff_ne, ne_eq]
  exact ⟨⟨this.1.1.1.1, this.1.1.1.2⟩, this.1.1.2⟩

/-! ### the block tree -/

theorem block_codeEscape_id {s : Str} (h : ∀ c ∈ s, cleanChar c = true) : Block.codeEscape s = s := by
  have h1 : '&' ∉ s := not_amp_of_clean h
  have h2 : '<' ∉ s := by intro hm; have := h _ hm; revert this; decide
  have h3 : '>' ∉ s := by intro hm; have := h _ hm; revert this; decide
  unfold Block.codeEscape
  rw [replace_id_of_not_contains _ (contains_single_false h1), replace_id_of_not_contains _ (contains_single_false h2),
    replace_id_of_not_contains _ (contains_single_false h3)]

theorem charDom_clean : NoCtl.Blk.CharDom cleanChar cleanChar :=
  ⟨fun _ h => h, by decide, by decide, fun s hs => by rw [block_codeEscape_id hs]; exact hs, by decide⟩

mutual
theorem treeClean_of_forall : (t : Node) → t.Forall (NoCtl.Blk.BNode cleanChar cleanChar) → treeClean t = true
  | ⟨tag, attrs, text, ta, children, tail, tla⟩, h => by
    simp only [Node.Forall] at h
    obtain ⟨⟨_, hattrs, _, htail, htext, _, _⟩, hk⟩ := h
    simp only [] at hattrs htail htext
    simp only [treeClean, Bool.and_eq_true, List.isEmpty_iff]
    refine ⟨⟨⟨?_, strClean_iff.2 htail⟩, kidsClean_of_forall children hk⟩, hattrs⟩
    apply strClean_iff.2
    split at htext <;> exact htext
theorem kidsClean_of_forall : (ts : List Node) → Node.ForallL (NoCtl.Blk.BNode cleanChar cleanChar) ts →
    kidsClean ts = true
  | [], _ => rfl
  | c :: r, h => by
    simp only [Node.ForallL] at h
    simp only [kidsClean, Bool.and_eq_true]
    exact ⟨treeClean_of_forall c h.1, kidsClean_of_forall r h.2⟩
end

/-- **the block tree of a clean text is a tree of the inline domain**: every text and tail is made of characters of
    the text, spaces and line feeds (the block parser invents no character, and `code_escape` is the identity without
    `&`, `<`, `>`), and no element has an attribute -/
theorem blockTree_clean (tab : Nat) {text : Str} (h : ∀ c ∈ text, cleanChar c = true) {root : Node}
    {refs : Block.Refs} (hr : Block.parseDocument tab text = some (root, refs)) : treeClean root = true :=
  treeClean_of_forall root (NoCtl.Blk.parseDocument_chars charDom_clean tab text h hr).1

theorem blockTreeClean_of_domain (cfg : Pipeline.Cfg) {src : Str} (hd : C06Domain src = true) :
    blockTreeClean cfg src = true := by
  unfold blockTreeClean
  rw [prepare_eq cfg (wide_of_domain hd)]
  split
  · rename_i root refs hr
    exact blockTree_clean cfg.tab (normalize_clean cfg.tab hd) hr
  · rfl

/-! ### the two notions of "letters of a tree" -/

theorem escLetters_no_amp {L : Char → Bool} : ∀ (s : Str), '&' ∉ s → Letters.escLetters L false s = letters L s
  | [], _ => rfl
  | c :: r, h => by
    have hc : c ≠ '&' := fun e => h (by simp [e])
    have ih := escLetters_no_amp (L := L) r (fun hm => h (List.mem_cons_of_mem _ hm))
    simp only [Letters.escLetters, hc, if_false, ih, letters_cons]

theorem not_amp_of_strClean {s : Str} (h : strClean s = true) : '&' ∉ s :=
  not_amp_of_clean (strClean_iff.1 h)

mutual
/-- on a tree of the inline domain the letters of the block half (`code` text read through `escLetters`) are the
    letters of the plain text content -/
theorem docLetters_bridge {L : Char → Bool} : (t : Node) → treeClean t = true →
    Letters.docLetters L t = Flat.docLetters L t
  | ⟨tag, attrs, text, ta, children, tail, tla⟩, h => by
    simp only [treeClean, Bool.and_eq_true] at h
    have hk := kidsLetters_bridge (L := L) children h.1.2
    simp only [Letters.docLetters, Flat.docLetters, content, letters_append, hk]
    congr 1
    unfold Letters.textLetters
    split
    · exact escLetters_no_amp _ (not_amp_of_strClean h.1.1.1)
    · rfl
theorem kidsLetters_bridge {L : Char → Bool} : (ts : List Node) → kidsClean ts = true →
    Letters.kidsLetters L ts = letters L (contentKids ts)
  | [], _ => rfl
  | c :: r, h => by
    simp only [kidsClean, Bool.and_eq_true] at h
    have h1 := docLetters_bridge (L := L) c h.1
    have h2 := kidsLetters_bridge (L := L) r h.2
    simp only [Letters.kidsLetters, contentKids_cons, letters_append, h1, h2, Flat.docLetters]
    rfl
end

end MdVerif.C06
