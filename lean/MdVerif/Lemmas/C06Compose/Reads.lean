/-
C06, composition, part 3: what the strict reader returns for the output has the text content of the tree.
-/
import MdVerif.Lemmas.C06Compose.Serial

namespace MdVerif.C06
open Py Flat Ser Vocab2

mutual
/-- no `&` in any text or tail -/
def ampFree : Node → Bool
  | ⟨_, _, text, _, children, tail, _⟩ =>
    !(text.getD []).contains '&' && !(tail.getD []).contains '&' && ampFreeKids children
def ampFreeKids : List Node → Bool
  | [] => true
  | c :: r => ampFree c && ampFreeKids r
end

theorem ampFree_iff {n : Node} : ampFree n = true ↔
    '&' ∉ n.text.getD [] ∧ '&' ∉ n.tail.getD [] ∧ ampFreeKids n.children = true := by
  cases n; simp [ampFree, and_assoc]

theorem ampFreeKids_cons {c : Node} {r : List Node} :
    ampFreeKids (c :: r) = true ↔ ampFree c = true ∧ ampFreeKids r = true := by
  simp only [ampFreeKids, Bool.and_eq_true]

mutual
theorem ampFree_of_outTree : (n : Node) → outTree n = true → ampFree n = true
  | ⟨_, _, text, _, children, tail, _⟩, h => by
    simp only [outTree, outOk, Bool.and_eq_true] at h
    simp only [ampFree, Bool.and_eq_true]
    exact ⟨⟨h.1.1.2.1, h.1.2.1⟩, ampFreeKids_of_outKids children h.2⟩
theorem ampFreeKids_of_outKids : (ns : List Node) → outKids ns = true → ampFreeKids ns = true
  | [], _ => rfl
  | c :: r, h => by
    simp only [outKids, Bool.and_eq_true] at h
    simp only [ampFreeKids, Bool.and_eq_true]
    exact ⟨ampFree_of_outTree c h.1, ampFreeKids_of_outKids r h.2⟩
end

theorem forestText_textItem {t : Option Str} (h : '&' ∉ t.getD []) : forestText (textItem t) = t.getD [] := by
  unfold textItem
  split
  · simp only [forestText, rnodeText, List.append_nil]
    rw [lenient_plain' cdata _ (fun c hc e => h (e ▸ hc)), tokChars_map_ch]
  · rename_i ht
    rw [getD_of_not_truthy (by simpa using ht)]; rfl

theorem void_of_empty_vocab {t : Str} (ht : hasTag vocabTags t = true) (he : isEmptyTag t = true) :
    isVoidTag t = true := by
  simp only [hasTag, List.any_eq_true, decide_eq_true_eq] at ht
  obtain ⟨e, hm, rfl⟩ := ht
  have : ∀ e ∈ vocabTags, isEmptyTag e.toList = true → isVoidTag e.toList = true := by decide
  exact this e hm he

mutual
/-- the items a vocabulary element contributes have its text content followed by its tail -/
theorem forestText_canonItems : (n : Node) → Good n = true → ampFree n = true →
    forestText (canonItems n) = content n ++ n.tail.getD []
  | ⟨tag, attrs, text, ta, children, tail, tla⟩, hg, ha => by
    simp only [Good, GoodT, Bool.and_eq_true] at hg
    simp only [ampFree, Bool.and_eq_true, Bool.not_eq_true'] at ha
    have h1 : '&' ∉ text.getD [] := by simpa using ha.1.1
    have h2 : '&' ∉ tail.getD [] := by simpa using ha.1.2
    have hk := forestText_canonList children hg.2 ha.2
    cases tag with
    | name t =>
      have hn := hg.1
      simp only [Vocab2.nodeOk, Bool.and_eq_true] at hn
      simp only [canonItems, content, forestText_append, forestText_textItem h2]
      congr 1
      by_cases he : isEmptyTag t = true
      · simp only [he, if_true, forestText, rnodeText, List.append_nil]
        have hv := void_of_empty_vocab hn.1.1 he
        have := hn.2
        simp only [hv, Bool.not_true, Bool.false_or, Bool.and_eq_true, Bool.not_eq_true', List.isEmpty_iff] at this
        rw [getD_of_not_truthy this.1, this.2]; rfl
      · have hraw : isRawTextTag t = false := by
          cases hr : isRawTextTag t with
          | false => rfl
          | true => exact (vocab_not_raw hn.1.1 hr).elim
        simp only [he, hraw, Bool.false_eq_true, if_false, forestText, rnodeText, List.append_nil,
          forestText_mergeTexts, forestText_append, forestText_textItem h1, hk]
    | comment => simp [Vocab2.nodeOk] at hg
    | pi => simp [Vocab2.nodeOk] at hg
    | none => simp [Vocab2.nodeOk] at hg
    | qname q => simp [Vocab2.nodeOk] at hg
theorem forestText_canonList : (ns : List Node) → GoodList ns = true → ampFreeKids ns = true →
    forestText (canonList ns) = contentKids ns
  | [], _, _ => rfl
  | c :: r, hg, ha => by
    simp only [GoodList, GoodListT, Bool.and_eq_true] at hg
    rw [ampFreeKids_cons] at ha
    simp only [canonList, forestText_append, contentKids_cons, forestText_canonItems c hg.1 ha.1,
      forestText_canonList r hg.2 ha.2, List.append_assoc]
end

/-- the forest read from the content of the wrapper has the text content of the document -/
theorem forestText_innerForest {root : Node} (hd : DocOk root = true) (ha : ampFree root = true) :
    forestText (innerForest root) = content root := by
  simp only [DocOk, Bool.and_eq_true] at hd
  rw [ampFree_iff] at ha
  unfold innerForest
  rw [forestText_mergeTexts, forestText_append, forestText_textItem ha.1, forestText_canonList _ hd.2 ha.2.2,
    content_eq]

/-! ### stripping the output only removes white space -/

theorem letters_lstrip {L : Char → Bool} (hL : LetterClass L) (s : Str) : letters L (lstrip s) = letters L s := by
  obtain ⟨w, hw, hall⟩ := lstripP_decomp isSpace s
  conv => rhs; rw [hw]
  rw [letters_append, letters_of_all_space hL hall]; rfl

theorem letters_rstrip {L : Char → Bool} (hL : LetterClass L) (s : Str) : letters L (rstrip s) = letters L s := by
  obtain ⟨w, hw, hall⟩ := rstripP_decomp isSpace s
  conv => rhs; rw [hw]
  rw [letters_append, letters_of_all_space hL hall, List.append_nil]; rfl

theorem letters_trimOpt {L : Char → Bool} {f : Str → Str} (hf : ∀ s, letters L (f s) = letters L s) (t : Option Str) :
    letters L ((trimOpt f t).getD []) = letters L (t.getD []) := by
  unfold trimOpt
  split
  · simp [hf]
  · rfl

theorem not_mem_lstrip {s : Str} (h : '&' ∉ s) : '&' ∉ lstrip s :=
  fun hm => h ((lstripP_suffix isSpace s).subset hm)

theorem not_mem_rstrip {s : Str} (h : '&' ∉ s) : '&' ∉ rstrip s :=
  fun hm => h ((rstripP_prefix isSpace s).subset hm)

theorem amp_trimOpt {f : Str → Str} (hf : ∀ s, '&' ∉ s → '&' ∉ f s) {t : Option Str} (h : '&' ∉ t.getD []) :
    '&' ∉ (trimOpt f t).getD [] := by
  unfold trimOpt
  split
  · simpa using hf _ h
  · exact h

theorem rstripLast_spec {L : Char → Bool} (hL : LetterClass L) : ∀ (l : List Node), ampFreeKids l = true →
    letters L (contentKids (rstripLast l)) = letters L (contentKids l) ∧ ampFreeKids (rstripLast l) = true
  | [], _ => ⟨rfl, rfl⟩
  | [n], h => by
    rw [ampFreeKids_cons] at h
    have hn := ampFree_iff.1 h.1
    simp only [rstripLast]
    refine ⟨?_, ?_⟩
    · simp only [contentKids_cons, content_eq, letters_append]
      congr 2
      split
      · simp [letters_rstrip hL]
      · rfl
    · rw [ampFreeKids_cons, ampFree_iff]
      refine ⟨⟨hn.1, ?_, hn.2.2⟩, rfl⟩
      simp only []
      split
      · simpa using not_mem_rstrip hn.2.1
      · exact hn.2.1
  | n :: m :: r, h => by
    rw [ampFreeKids_cons] at h
    obtain ⟨ih1, ih2⟩ := rstripLast_spec hL (m :: r) h.2
    simp only [rstripLast]
    refine ⟨?_, ampFreeKids_cons.2 ⟨h.1, ih2⟩⟩
    simp only [contentKids_cons, letters_append, ih1]

/-- the document whose content is the stripped output has the same letters -/
theorem trimRoot_spec {L : Char → Bool} (hL : LetterClass L) {root : Node} (ha : ampFree root = true) :
    letters L (content (trimRoot root)) = letters L (content root) ∧ ampFree (trimRoot root) = true := by
  rw [ampFree_iff] at ha
  unfold trimRoot
  cases hc : root.children with
  | nil =>
    simp only []
    refine ⟨?_, ?_⟩
    · simp only [content_eq, hc, letters_append]
      rw [letters_trimOpt (letters_rstrip hL), letters_trimOpt (letters_lstrip hL)]
    · rw [ampFree_iff]
      exact ⟨amp_trimOpt (fun _ => not_mem_rstrip) (amp_trimOpt (fun _ => not_mem_lstrip) ha.1), ha.2.1, rfl⟩
  | cons c cs =>
    simp only []
    obtain ⟨h1, h2⟩ := rstripLast_spec hL (c :: cs) (by rw [← hc]; exact ha.2.2)
    refine ⟨?_, ?_⟩
    · simp only [content_eq, hc, letters_append, h1]
      rw [letters_trimOpt (letters_lstrip hL)]
    · rw [ampFree_iff]
      exact ⟨amp_trimOpt (fun _ => not_mem_lstrip) ha.1, ha.2.1, h2⟩

/-- **serialisation conserves the words.**  For a document tree of the vocabulary without `&` in its texts, what the
    strict reader returns for the string `convert` cuts out of the serialisation has the letters of the tree. -/
theorem visibleLetters_inner {L : Char → Bool} (hL : LetterClass L) (fmt : Fmt) {u : Node} (hd : DocOk u = true)
    (ha : ampFree u = true) :
    (readForest fmt (strip (inner fmt u))).isSome = true ∧
      visibleLetters L fmt (strip (inner fmt u)) = docLetters L u := by
  obtain ⟨hr, _⟩ := strip_inner_reads fmt u hd
  obtain ⟨_, hd'⟩ := strip_inner fmt u hd
  obtain ⟨t1, t2⟩ := trimRoot_spec hL ha
  refine ⟨by rw [hr]; rfl, ?_⟩
  simp only [visibleLetters, visibleText, hr, Option.map_some, Option.getD_some]
  rw [forestText_innerForest hd' t2, t1]; rfl

end MdVerif.C06
