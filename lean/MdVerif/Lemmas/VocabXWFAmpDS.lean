/-
C05 on the extension pipeline, removal of the residual hypothesis `hamp` of `C05X_partial`: toc together with abbr.

`AbbrTreeprocessor` (priority 7) runs before `TocTreeprocessor` (priority 5).  It cuts a text or tail at the occurrences
of the abbreviations, and an abbreviation can match right behind an STX (the number of an escape token — F-C10-6 —, the
word `klzzwxh` of a leaked placeholder): the piece in front of it then ENDS with a dangling STX, and the serialisation
of the heading holds `STX<abbr title="…">40</abbr>ETX`.  `strip_tags` joins the STX with the key again.  The tree
invariant that describes this (`DSN`, "dangling-safe"):

* every text and tail is complete (`G.SOk`) or complete with ONE dangling STX at its very end (`StrD`);
* what follows a dangling string in document order — the first child after a text, the next sibling after a tail — is
  an `abbr` element made by the tree processor (`AbbrKey`): no children, a `title` without STX, a key without STX that
  starts with what may follow an STX (`G.fol`: `k`, `w`, `q`, `z`, or a non-zero digit and a digit);
* tag and attribute names hold no STX, attribute values are in the class `SB` (`G.SOkA` and class joins).

`skd_serialize`: the serialisation of such a tree is in the string class `SK` (the `abbr` open tag is the clean tag
the class allows between an STX and its continuation).  `rmFnNode_DS`: `remove_fnrefs` keeps the invariant.

Core Lean only.
-/
import MdVerif.Lemmas.VocabXWFAmpToc

set_option autoImplicit false

namespace MdVerif.VocabXAmp
open Py G Ser

/-- complete, or complete with one dangling STX at the very end -/
def StrD (s : Str) : Prop := SOk s = true ∨ ∃ s0, s = s0 ++ [G.STX] ∧ SOk s0 = true

/-- the string ends with an STX -/
def dang (s : Str) : Bool := s.getLast? == some G.STX

/-- an `abbr` element of `AbbrTreeprocessor` whose key continues an STX -/
def AbbrKey (n : Node) : Prop :=
  n.tag = .name "abbr".toList ∧ n.children = [] ∧ (∃ T, n.attrs = [("title".toList, T)] ∧ G.STX ∉ T) ∧
  fol (n.text.getD []) = true ∧ G.STX ∉ n.text.getD []

/-- `NmOK` on the fields -/
def NmOKt (tag : Tag) (attrs : List (Str × Str)) : Prop :=
  (∃ t, tag = .name t ∧ G.STX ∉ t ∧ isRawTextTag t = false) ∧ ∀ kv ∈ attrs, G.STX ∉ kv.1

mutual
/-- the dangling-safe invariant at an element -/
def DSN : Node → Prop
  | ⟨tag, attrs, text, _, children, tail, _⟩ =>
    NmOKt tag attrs ∧ StrD (text.getD []) ∧ StrD (tail.getD []) ∧ (∀ kv ∈ attrs, SB kv.2 = true) ∧
    DSLo (dang (text.getD [])) children false
/-- a list of siblings; `o`: the string in front of it dangles, `o'`: the last tail dangles -/
def DSLo : Bool → List Node → Bool → Prop
  | o, [], o' => o = o'
  | o, c :: r, o' => (o = true → AbbrKey c) ∧ DSN c ∧ DSLo (dang (c.tail.getD [])) r o'
end

/-! ### strings -/

theorem dang_snoc (s : Str) : dang (s ++ [G.STX]) = true := by simp [dang]

theorem dang_of_sok : ∀ {s : Str}, SOk s = true → dang s = false
  | [], _ => rfl
  | [c], h => by
    simp only [SOk, fol, Bool.or_false, Bool.and_true, bne_iff_ne, ne_eq] at h
    simp [dang, h]
  | c :: d :: r, h => by
    simp only [SOk_cons, Bool.and_eq_true] at h
    have ih := dang_of_sok (s := d :: r) (by rw [SOk_cons, Bool.and_eq_true]; exact h.2)
    simpa [dang, List.getLast?_cons_cons] using ih

theorem strD_nil : StrD [] := Or.inl rfl

theorem strD_of_sok {s : Str} (h : SOk s = true) : StrD s := Or.inl h

theorem sokA_of_strD {s : Str} (h : StrD s) : SOkA s = true := by
  rcases h with h | ⟨s0, rfl, h0⟩
  · exact SOkA_of_SOk h
  · exact SOkA_append h0 (by decide)

theorem strD_dang {s : Str} (h : StrD s) (hd : dang s = true) : ∃ s0, s = s0 ++ [G.STX] ∧ SOk s0 = true := by
  rcases h with h | h
  · rw [dang_of_sok h] at hd; cases hd
  · exact h

/-- a dangling-safe string in front of a string of the class that continues it -/
theorem sk_strD {t : Str} (ht : StrD t) {Z : Str} (hZ : SK Z = true) (hd : dang t = true → folK Z = true) :
    SK (t ++ Z) = true := by
  rcases ht with h | ⟨s0, rfl, h0⟩
  · exact SK_append_sok h hZ
  · rw [List.append_assoc]
    refine SK_append_sok h0 ?_
    simp only [List.singleton_append, SK, Bool.and_eq_true, Bool.or_eq_true]
    exact ⟨Or.inr (hd (dang_snoc s0)), hZ⟩

theorem dang_truthy {t : Option Str} (h : dang (t.getD []) = true) : Node.truthy t = true := by
  cases t with
  | none => simp [dang] at h
  | some s =>
    cases s with
    | nil => simp [dang] at h
    | cons c s => rfl

/-- a text or tail of a dangling-safe tree, escaped, in front of its continuation -/
theorem sk_textStrD {t : Option Str} (hs : StrD (t.getD [])) {Z : Str} (hZ : SK Z = true)
    (hd : dang (t.getD []) = true → folK Z = true) :
    SK ((if Node.truthy t = true then escCdata (t.getD []) else []) ++ Z) = true := by
  split
  · exact SK_escCdata (sokA_of_strD hs) (sk_strD hs hZ hd)
  · exact hZ

/-- … and what follows an STX in front of it -/
theorem folK_textStrD {t : Option Str} (hs : StrD (t.getD [])) {Z : Str}
    (hd : dang (t.getD []) = true → folK Z = true) (hne : Node.truthy t = true)
    (hf : fol (t.getD []) = true) :
    folK ((if Node.truthy t = true then escCdata (t.getD []) else []) ++ Z) = true := by
  rw [if_pos hne, onepass_cdata']
  have _ := hs
  have _ := hd
  exact folK_esc_text (fol_folA hf) (folK_of_0 (folK0_of_folA (fol_folA (fol_append hf Z))))

/-! ### the serialisation -/

theorem afterSpan_clean {p rest : Str} (hp : ∀ c ∈ p, c ≠ '>' ∧ c ≠ G.STX ∧ c ≠ '<') :
    afterSpan (p ++ '>' :: rest) = some rest := by
  induction p with
  | nil => simp [afterSpan]
  | cons c p ih =>
    obtain ⟨h1, h2, h3⟩ := hp c List.mem_cons_self
    simp only [List.cons_append, afterSpan, if_neg h1]
    rw [if_neg (by rintro (h | h); exact h2 h; exact h3 h)]
    exact ih (fun d hd => hp d (List.mem_cons_of_mem _ hd))

theorem escAttr_clean {T : Str} (hT : G.STX ∉ T) : ∀ c ∈ escAttrHtml T, c ≠ '>' ∧ c ≠ G.STX ∧ c ≠ '<' := by
  intro c hc
  rw [onepass_attr'] at hc
  have h1 := esc1_no_markup' true false T c hc
  refine ⟨h1.2.1, ?_, h1.1⟩
  rintro rfl
  -- the escaping writes no STX
  have key : ∀ (s : Str), G.STX ∉ s → G.STX ∉ esc1 true false s := by
    intro s
    induction s with
    | nil => intro _; simp [esc1]
    | cons a r ih =>
      intro hs hm
      have ha : a ≠ G.STX := fun e => hs (by rw [e]; exact List.mem_cons_self)
      have hr := ih (fun h => hs (List.mem_cons_of_mem _ h))
      rcases esc1_cons true false a r with hk | ⟨E, hE, hS, _⟩
      · rw [hk] at hm
        rcases List.mem_cons.1 hm with h | h
        · exact ha h.symm
        · exact hr h
      · rw [hE] at hm
        rcases List.mem_cons.1 hm with h | h
        · revert h; decide
        · rcases List.mem_append.1 h with h | h
          · exact hS h
          · exact hr h
  exact key T hT hc

theorem abbr_lit_clean : ∀ c ∈ "abbr".toList ++ (' ' :: "title".toList ++ "=\"".toList), c ≠ '>' ∧ c ≠ G.STX ∧ c ≠ '<' := by
  decide

theorem quote_clean : ∀ c ∈ (['"'] : Str), c ≠ '>' ∧ c ≠ G.STX ∧ c ≠ '<' := by decide

theorem abbr_sp_clean : ∀ c ∈ "abbr".toList ++ [' '], c ≠ '>' ∧ c ≠ G.STX ∧ c ≠ '<' := by decide

/-- the open tag of an `abbr` element with its `title`, behind an STX: a clean tag -/
theorem folK_abbr_open (fmt : Fmt) {T : Str} (hT : G.STX ∉ T) {X : Str} (hX : folK0 X = true) :
    folK ('<' :: ("abbr".toList ++ (writeAttrs fmt (sortAttrs [("title".toList, T)]) ++ '>' :: X))) = true := by
  have hs : sortAttrs [("title".toList, T)] = [("title".toList, T)] := rfl
  rw [hs]
  simp only [writeAttrs]
  split
  · rename_i hb
    have hkv : "title".toList = escAttrHtml T := by
      simp only [Bool.and_eq_true, decide_eq_true_eq] at hb; exact hb.1
    have e : "abbr".toList ++ (' ' :: escAttrHtml T ++ [] ++ '>' :: X) =
        ("abbr".toList ++ [' '] ++ escAttrHtml T) ++ '>' :: X := by simp
    rw [e]
    refine folK_span (spanRest_of (by simp) (afterSpan_clean ?_)) hX
    intro c hc
    rcases List.mem_append.1 hc with hc | hc
    · exact abbr_sp_clean c hc
    · exact escAttr_clean hT c hc
  · have e : "abbr".toList ++ (' ' :: "title".toList ++ "=\"".toList ++ escAttrHtml T ++ ['"'] ++ [] ++ '>' :: X) =
        ("abbr".toList ++ (' ' :: "title".toList ++ "=\"".toList) ++ escAttrHtml T ++ ['"']) ++ '>' :: X := by simp
    rw [e]
    refine folK_span (spanRest_of (by simp) (afterSpan_clean ?_)) hX
    intro c hc
    rcases List.mem_append.1 hc with hc | hc
    · rcases List.mem_append.1 hc with hc | hc
      · exact abbr_lit_clean c hc
      · exact escAttr_clean hT c hc
    · exact quote_clean c hc

mutual
/-- **the serialisation of a dangling-safe element is in the class** — in front of a string of the class that
    continues its tail when that dangles -/
theorem skd_serialize (fmt : Fmt) : (n : Node) → DSN n → ∀ (Y : Str), SK Y = true →
    (dang (n.tail.getD []) = true → folK Y = true) → SK (serialize fmt n ++ Y) = true
  | ⟨tag, attrs, text, ta, children, tail, tla⟩, h, Y, hY, hdY => by
    simp only [DSN] at h
    obtain ⟨⟨⟨t, ht, htc, hraw⟩, hkeys⟩, s1, s2, s3, hk⟩ := h
    subst ht
    have hkids := skd_serializeList fmt children (dang (text.getD [])) false hk
    have hW : ∀ Z, SK Z = true → SK (writeAttrs fmt (sortAttrs attrs) ++ Z) = true := fun Z hZ =>
      sk_writeAttrs fmt _ (fun kv hkv => hkeys kv (mem_sortAttrs attrs kv hkv))
        (fun kv hkv => s3 kv (mem_sortAttrs attrs kv hkv)) Z hZ
    have hTL : SK ((if Node.truthy tail = true then escCdata (tail.getD []) else []) ++ Y) = true :=
      sk_textStrD s2 hY hdY
    have hlt : G.STX ∉ '<' :: t := by
      intro hm
      rcases List.mem_cons.1 hm with hm | hm
      · revert hm; decide
      · exact htc hm
    simp only [serialize, element_none, hraw, Bool.false_eq_true, ↓reduceIte]
    split
    · -- xhtml, void
      have e : '<' :: (t ++ (writeAttrs fmt (sortAttrs attrs) ++ " />".toList)) ++
          (if Node.truthy tail = true then escCdata (tail.getD []) else []) ++ Y =
          ('<' :: t) ++ (writeAttrs fmt (sortAttrs attrs) ++ (" />".toList ++
            ((if Node.truthy tail = true then escCdata (tail.getD []) else []) ++ Y))) := by
        simp [List.append_assoc]
      rw [e, SK_noSTX_append hlt]
      apply hW
      rw [SK_noSTX_append (by decide)]
      exact hTL
    · have hclose : SK ((if isEmptyTag t = true then [] else "</".toList ++ t ++ ['>']) ++
          ((if Node.truthy tail = true then escCdata (tail.getD []) else []) ++ Y)) = true := by
        split
        · exact hTL
        · rw [SK_noSTX_append]
          · exact hTL
          · intro hm
            rcases List.mem_append.1 hm with hm | hm
            · rcases List.mem_append.1 hm with hm | hm
              · revert hm; decide
              · exact htc hm
            · revert hm; decide
      have e : '<' :: (t ++ (writeAttrs fmt (sortAttrs attrs) ++ '>' ::
            ((if Node.truthy text = true then escCdata (text.getD []) else []) ++
              (serializeList fmt children ++ (if isEmptyTag t = true then [] else "</".toList ++ t ++ ['>']))))) ++
          (if Node.truthy tail = true then escCdata (tail.getD []) else []) ++ Y =
          ('<' :: t) ++ (writeAttrs fmt (sortAttrs attrs) ++ ('>' ::
            ((if Node.truthy text = true then escCdata (text.getD []) else []) ++
              (serializeList fmt children ++ ((if isEmptyTag t = true then [] else "</".toList ++ t ++ ['>']) ++
                ((if Node.truthy tail = true then escCdata (tail.getD []) else []) ++ Y)))))) := by
        simp [List.append_assoc]
      rw [e, SK_noSTX_append hlt]
      apply hW
      rw [SK_cons_ne (by decide)]
      obtain ⟨k1, k2⟩ := hkids _ hclose (by intro h'; cases h')
      exact sk_textStrD s1 k1 k2
/-- the same for a list of siblings; when the string in front of it dangles, the list starts with its continuation -/
theorem skd_serializeList (fmt : Fmt) : (l : List Node) → (o o' : Bool) → DSLo o l o' → ∀ (Y : Str),
    SK Y = true → (o' = true → folK Y = true) →
    SK (serializeList fmt l ++ Y) = true ∧ (o = true → folK (serializeList fmt l ++ Y) = true)
  | [], o, o', h, Y, hY, hdY => by
    simp only [DSLo] at h
    subst h
    simpa [serializeList] using ⟨hY, hdY⟩
  | c :: r, o, o', h, Y, hY, hdY => by
    simp only [DSLo] at h
    obtain ⟨hkey, hc, hr⟩ := h
    obtain ⟨i1, i2⟩ := skd_serializeList fmt r (dang (c.tail.getD [])) o' hr Y hY hdY
    have hser := skd_serialize fmt c hc (serializeList fmt r ++ Y) i1 i2
    simp only [serializeList, List.append_assoc]
    refine ⟨hser, ?_⟩
    intro ho
    -- the element is an `abbr` whose key continues the STX
    obtain ⟨k1, k2, ⟨T, k3, hT⟩, k4, k5⟩ := hkey ho
    obtain ⟨tag, attrs, text, ta, children, tail, tla⟩ := c
    simp only at k1 k2 k3 k4 k5
    subst k1; subst k2; subst k3
    have hne : Node.truthy text = true := by
      cases text with
      | none => simp [fol] at k4
      | some s =>
        cases s with
        | nil => simp [fol] at k4
        | cons a s => rfl
    have hraw : isRawTextTag "abbr".toList = false := by decide
    have hemp : isEmptyTag "abbr".toList = false := by decide
    simp only [serialize, element_none, hraw, hemp, Bool.false_eq_true, ↓reduceIte, Bool.and_false,
      serializeList, List.nil_append]
    have reassoc : ∀ A B : Str,
        ('<' :: ("abbr".toList ++ (writeAttrs fmt (sortAttrs [("title".toList, T)]) ++ '>' :: A)) ++ B) =
        '<' :: ("abbr".toList ++ (writeAttrs fmt (sortAttrs [("title".toList, T)]) ++ '>' :: (A ++ B))) := by
      intro A B; simp [List.append_assoc]
    rw [reassoc, reassoc]
    refine folK_abbr_open fmt hT ?_
    -- behind the tag: the escaped key
    rw [if_pos hne, onepass_cdata']
    simp only [List.append_assoc]
    have hfa : folA (text.getD []) = true := fol_folA k4
    have h0 : folK (text.getD [] ++ ("</".toList ++ ("abbr".toList ++ (['>'] ++
        ((if Node.truthy tail = true then escCdata (tail.getD []) else []) ++ (serializeList fmt r ++ Y)))))) = true :=
      folK_of_0 (folK0_of_folA (fol_folA (fol_append k4 _)))
    have := folK_esc_text hfa h0
    rcases folK_cases this with h' | ⟨t', r', e', _, _⟩
    · exact h'
    · -- the escaped key does not start with `<`
      exfalso
      cases hx : text.getD [] with
      | nil => rw [hx] at k4; simp [fol] at k4
      | cons a s =>
        rw [hx] at e' k4
        have ha : a ≠ '&' ∧ a ≠ '<' ∧ a ≠ '>' := by
          simp only [fol, Bool.or_eq_true, Bool.and_eq_true] at k4
          rcases k4 with k4 | k4
          · exact ⟨(gl_keep k4).1, (gl_keep k4).2.1, (gl_keep k4).2.2.1⟩
          · have := digit_keep (isNZ_digit k4.1)
            exact ⟨this.1, this.2.1, this.2.2.1⟩
        rw [esc1_keep_text ha.1 ha.2.1 ha.2.2 s] at e'
        simp only [List.cons_append, List.cons.injEq] at e'
        exact ha.2.1 e'.1
end

/-! ### from the invariant of the inline stage -/

mutual
theorem dsn_of_SN : (n : Node) → n.Forall NodeSN → DSN n
  | ⟨tag, attrs, text, ta, children, tail, tla⟩, h => by
    simp only [Node.Forall] at h
    obtain ⟨⟨⟨h1, h2, h3⟩, hn⟩, hk⟩ := h
    simp only [DSN]
    refine ⟨hn, strD_of_sok h1, strD_of_sok h2, h3, ?_⟩
    have := dang_of_sok h1
    simp only at this
    rw [this]
    exact dsl_of_SN children hk
theorem dsl_of_SN : (l : List Node) → Node.ForallL NodeSN l → DSLo false l false
  | [], _ => by simp [DSLo]
  | c :: r, h => by
    simp only [Node.ForallL] at h
    simp only [DSLo]
    refine ⟨(by intro h'; cases h'), dsn_of_SN c h.1, ?_⟩
    have : dang (c.tail.getD []) = false := dang_of_sok ((Node.forall_def NodeSN c).1 h.1).1.1.2.1
    rw [this]
    exact dsl_of_SN r h.2
end

/-- the strings of a dangling-safe tree are in the class -/
theorem dsn_fields {n : Node} (h : DSN n) :
    StrD (n.text.getD []) ∧ StrD (n.tail.getD []) ∧ (∀ kv ∈ n.attrs, SB kv.2 = true) ∧
      DSLo (dang (n.text.getD [])) n.children false ∧ NmOKt n.tag n.attrs := by
  obtain ⟨tag, attrs, text, ta, children, tail, tla⟩ := n
  simp only [DSN] at h
  exact ⟨h.2.1, h.2.2.1, h.2.2.2.1, h.2.2.2.2, h.1⟩

/-! ### `remove_fnrefs` -/

theorem abbrKey_not_fnSup {c : Node} (h : AbbrKey c) : TocTree.isFnSup c = false := by
  unfold TocTree.isFnSup
  rw [h.1]
  rfl

theorem dang_append {a b : Str} (hb : b ≠ []) : dang (a ++ b) = dang b := by
  cases b with
  | nil => exact absurd rfl hb
  | cons x b =>
    unfold dang
    rw [List.getLast?_append]
    cases h : (x :: b).getLast? with
    | none => simp [List.getLast?_eq_none_iff] at h
    | some y => rfl

/-- a complete string followed by a carried one -/
theorem strD_carry {s cy : Str} (hs : StrD s) (hc : StrD cy) (h : dang s = true → cy = []) :
    StrD (s ++ cy) ∧ dang (s ++ cy) = (if cy = [] then dang s else dang cy) := by
  by_cases he : cy = []
  · subst he
    rw [List.append_nil, if_pos rfl]
    exact ⟨hs, rfl⟩
  · rw [if_neg he]
    refine ⟨?_, dang_append he⟩
    have hcomp : SOk s = true := by
      rcases hs with h' | ⟨s0, rfl, _⟩
      · exact h'
      · exact absurd (h (dang_snoc s0)) he
    rcases hc with h' | ⟨c0, rfl, h0⟩
    · exact Or.inl (SOk_append hcomp h')
    · exact Or.inr ⟨s ++ c0, by simp, SOk_append hcomp h0⟩

mutual
/-- **`remove_fnrefs` keeps the dangling-safe invariant** -/
theorem rmFnNode_DS : (n : Node) → DSN n →
    DSN (TocTree.rmFnNode n) ∧ (TocTree.rmFnNode n).tail = n.tail ∧ (AbbrKey n → AbbrKey (TocTree.rmFnNode n))
  | ⟨tag, attrs, text, ta, children, tail, tla⟩, h => by
    simp only [DSN] at h
    obtain ⟨hn, s1, s2, s3, hk⟩ := h
    obtain ⟨i1, i2, i3⟩ := rmFnKids_DS children (dang (text.getD [])) false hk
    unfold TocTree.rmFnNode
    simp only
    split
    · rename_i hp
      have hp' : (TocTree.rmFnKids children).2 = [] := by simpa using hp
      rw [hp', if_pos rfl] at i3
      refine ⟨?_, rfl, ?_⟩
      · simp only [DSN]; exact ⟨hn, s1, s2, s3, i3⟩
      · intro hk'
        obtain ⟨k1, k2, k3, k4, k5⟩ := hk'
        simp only at k2
        subst k2
        refine ⟨k1, ?_, k3, k4, k5⟩
        simp [TocTree.rmFnKids]
    · rename_i hp
      have hp' : (TocTree.rmFnKids children).2 ≠ [] := by simpa using hp
      rw [if_neg hp'] at i3
      obtain ⟨c1, c2⟩ := strD_carry s1 i1 i2
      rw [if_neg hp'] at c2
      refine ⟨?_, rfl, ?_⟩
      · simp only [DSN]
        refine ⟨hn, c1, s2, s3, ?_⟩
        show DSLo (dang (TocTree.orEmpty text ++ (TocTree.rmFnKids children).2)) _ false
        unfold TocTree.orEmpty
        rw [c2]; exact i3
      · intro hk'
        exfalso
        have := hk'.2.1
        simp only at this
        subst this
        exact hp' (by simp [TocTree.rmFnKids])
theorem rmFnKids_DS : (l : List Node) → (o o' : Bool) → DSLo o l o' →
    StrD (TocTree.rmFnKids l).2 ∧ (o = true → (TocTree.rmFnKids l).2 = []) ∧
      DSLo (if (TocTree.rmFnKids l).2 = [] then o else dang (TocTree.rmFnKids l).2) (TocTree.rmFnKids l).1 o'
  | [], o, o', h => by
    simp only [DSLo] at h
    subst h
    simp [TocTree.rmFnKids, strD_nil, DSLo]
  | c :: r, o, o', h => by
    simp only [DSLo] at h
    obtain ⟨hkey, hc, hr⟩ := h
    obtain ⟨j1, j2, j3⟩ := rmFnKids_DS r (dang (c.tail.getD [])) o' hr
    obtain ⟨ct1, ct2, ct3, _, _⟩ := dsn_fields hc
    unfold TocTree.rmFnKids
    simp only
    split
    · -- the reference is removed, its tail is carried to the left
      rename_i hsup
      have ho : o = false := by
        cases o with
        | false => rfl
        | true => rw [abbrKey_not_fnSup (hkey rfl)] at hsup; cases hsup
      subst ho
      obtain ⟨c1, c2⟩ := strD_carry ct2 j1 j2
      unfold TocTree.orEmpty
      refine ⟨c1, (by intro h'; cases h'), ?_⟩
      by_cases he : c.tail.getD [] ++ (TocTree.rmFnKids r).2 = []
      · rw [if_pos he]
        have h1 : c.tail.getD [] = [] := (List.append_eq_nil_iff.1 he).1
        have h2 : (TocTree.rmFnKids r).2 = [] := (List.append_eq_nil_iff.1 he).2
        rw [h2, if_pos rfl, h1] at j3
        exact j3
      · rw [if_neg he, c2]
        by_cases h2 : (TocTree.rmFnKids r).2 = []
        · rw [if_pos h2]; rw [if_pos h2] at j3; exact j3
        · rw [if_neg h2]; rw [if_neg h2] at j3; exact j3
    · obtain ⟨d1, d2, d3⟩ := rmFnNode_DS c hc
      split
      · rename_i hp
        have hp' : (TocTree.rmFnKids r).2 = [] := by simpa using hp
        rw [hp', if_pos rfl] at j3
        refine ⟨strD_nil, fun _ => rfl, ?_⟩
        rw [if_pos rfl]
        simp only [DSLo]
        refine ⟨fun ho => d3 (hkey ho), d1, ?_⟩
        rw [d2]; exact j3
      · rename_i hp
        have hp' : (TocTree.rmFnKids r).2 ≠ [] := by simpa using hp
        rw [if_neg hp'] at j3
        refine ⟨strD_nil, fun _ => rfl, ?_⟩
        rw [if_pos rfl]
        have hct : dang (c.tail.getD []) = true → (TocTree.rmFnKids r).2 = [] := j2
        obtain ⟨c1, c2⟩ := strD_carry ct2 j1 hct
        rw [if_neg hp'] at c2
        simp only [DSLo]
        rcases hx : TocTree.rmFnNode c with ⟨tag', attrs', text', ta', children', tail', tla'⟩
        rw [hx] at d1 d2 d3
        simp only at d2
        refine ⟨?_, ?_, ?_⟩
        · intro ho
          obtain ⟨k1, k2, k3, k4, k5⟩ := d3 (hkey ho)
          exact ⟨k1, k2, k3, k4, k5⟩
        · simp only [DSN] at d1 ⊢
          refine ⟨d1.1, d1.2.1, ?_, d1.2.2.2.1, d1.2.2.2.2⟩
          show StrD (TocTree.orEmpty tail' ++ (TocTree.rmFnKids r).2)
          unfold TocTree.orEmpty
          rw [d2]; exact c1
        · show DSLo (dang (TocTree.orEmpty tail' ++ (TocTree.rmFnKids r).2)) _ o'
          unfold TocTree.orEmpty
          rw [d2, c2]; exact j3
end

mutual
/-- the strings of a dangling-safe tree are in the class `SK` -/
theorem forallK_of_DSN : (n : Node) → DSN n → n.Forall NodeK
  | ⟨tag, attrs, text, ta, children, tail, tla⟩, h => by
    simp only [DSN] at h
    obtain ⟨_, s1, s2, s3, hk⟩ := h
    simp only [Node.Forall]
    exact ⟨⟨SK_of_SOkA (sokA_of_strD s1), SK_of_SOkA (sokA_of_strD s2), fun kv hkv => SK_of_SB (s3 kv hkv)⟩,
      forallK_of_DSL children _ _ hk⟩
theorem forallK_of_DSL : (l : List Node) → (o o' : Bool) → DSLo o l o' → Node.ForallL NodeK l
  | [], _, _, _ => by simp [Node.ForallL]
  | c :: r, o, o', h => by
    simp only [DSLo] at h
    simp only [Node.ForallL]
    exact ⟨forallK_of_DSN c h.2.1, forallK_of_DSL r _ _ h.2.2⟩
end

end MdVerif.VocabXAmp
