/-
Helper lemmas for C06, inline half (the placeholder-expanded view is conserved by the inline patterns, by
`handleInline`, by `processPlaceholders`, by the tree walk of `Inline.run` and by the two later tree processors).
The development is split into parts under `Lemmas/InlineConserve/`; this file collects them and adds the instances
used by the examples of `Props/C06Inline.lean`.  Core Lean only.
-/
import MdVerif.Lemmas.InlineConserve.TreeProcs

namespace MdVerif.Flat
open Py Inline

/-! ### an instance of `LetterClass`: the ASCII letters -/

theorem letterClass_asciiAlpha : LetterClass isAsciiAlpha := by
  have key : ∀ c : Char, isAsciiAlpha c = true → (65 ≤ c.toNat ∧ c.toNat ≤ 90) ∨ (97 ≤ c.toNat ∧ c.toNat ≤ 122) := by
    intro c h
    simp only [isAsciiAlpha, isAsciiLower, isAsciiUpper, Bool.or_eq_true, Bool.and_eq_true, decide_eq_true_eq,
      Char.le_def, UInt32.le_iff_toNat_le] at h
    have h1 : ('a' : Char).val.toNat = 97 := by decide
    have h2 : ('z' : Char).val.toNat = 122 := by decide
    have h3 : ('A' : Char).val.toNat = 65 := by decide
    have h4 : ('Z' : Char).val.toNat = 90 := by decide
    rw [h1, h2, h3, h4] at h
    have : c.toNat = c.val.toNat := rfl
    omega
  refine ⟨by decide, by decide, ?_, ?_, by decide, by decide, by decide, by decide⟩
  · intro c hd
    cases ha : isAsciiAlpha c with
    | false => rfl
    | true =>
      have := key c ha
      simp only [isAsciiDigit, Bool.and_eq_true, decide_eq_true_eq, Char.le_def, UInt32.le_iff_toNat_le] at hd
      have h1 : ('0' : Char).val.toNat = 48 := by decide
      have h2 : ('9' : Char).val.toNat = 57 := by decide
      rw [h1, h2] at hd
      have : c.toNat = c.val.toNat := rfl
      omega
  · intro c hs
    cases ha : isAsciiAlpha c with
    | false => rfl
    | true =>
      have h1 := key c ha
      have h2 := isSpace_toNat hs
      omega

theorem escNotLetter_default : EscNotLetter isAsciiAlpha {} := by
  intro c hc
  have : ∀ c ∈ Generated.escapedChars, isAsciiAlpha c = false ∧ c ≠ STX ∧ c ≠ '&' := by decide
  exact this c hc

/-! ### another instance: the Unicode letters -/

/-- Unicode letters: word characters that are neither decimal digits nor `_` -/
def isLetterU (c : Char) : Bool := isWord c && !isDecimal c && c != '_'

theorem spaceNonAscii_not_word : ∀ n ∈ Generated.Chars.spaceNonAscii, inRanges Generated.Chars.wordNonAscii n = false := by
  decide +kernel

theorem letterClass_unicode : LetterClass isLetterU := by
  refine ⟨by decide, by decide, ?_, ?_, by decide, by decide, by decide, by decide⟩
  · intro c hd
    simp [isLetterU, isDecimal_of_isAsciiDigit hd]
  · intro c hs
    cases hw : isWord c with
    | false => simp [isLetterU, hw]
    | true =>
      exfalso
      unfold isSpace at hs
      unfold isWord at hw
      split at hs
      · rename_i h128
        simp only [h128, if_true] at hw
        have h2 := isSpace_toNat (c := c) (by unfold isSpace; simp only [h128, if_true]; exact hs)
        simp only [isAsciiAlnum, isAsciiAlpha, isAsciiLower, isAsciiUpper, isAsciiDigit, Bool.or_eq_true, Bool.and_eq_true,
          decide_eq_true_eq, Char.le_def, UInt32.le_iff_toNat_le] at hw
        have e1 : ('a' : Char).val.toNat = 97 := by decide
        have e2 : ('z' : Char).val.toNat = 122 := by decide
        have e3 : ('A' : Char).val.toNat = 65 := by decide
        have e4 : ('Z' : Char).val.toNat = 90 := by decide
        have e5 : ('0' : Char).val.toNat = 48 := by decide
        have e6 : ('9' : Char).val.toNat = 57 := by decide
        rw [e1, e2, e3, e4, e5, e6] at hw
        have : c.toNat = c.val.toNat := rfl
        rcases hw with hw | hw
        · omega
        · subst hw; revert h2; decide
      · rename_i h128
        simp only [h128, if_false] at hw
        have hm : c.toNat ∈ Generated.Chars.spaceNonAscii := by simpa using hs
        rw [spaceNonAscii_not_word _ hm] at hw; cases hw

theorem escNotLetter_default_unicode : EscNotLetter isLetterU {} := by
  intro c hc
  have : ∀ c ∈ Generated.escapedChars, isLetterU c = false ∧ c ≠ STX ∧ c ≠ '&' := by decide
  exact this c hc

end MdVerif.Flat
