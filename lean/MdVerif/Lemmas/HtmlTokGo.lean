/-
The tokenizer model (`Model/HtmlTok.lean`) on the grammar of `Spec/HtmlFrag.lean`: every token followed by ANY text
is read back as exactly that token (`parseEndTag_ok`, `parseComment_ok`, `entityrefAt_ok`, `charrefAt_ok`; start tags
in `Lemmas/HtmlTokTag.lean`), one loop iteration of `go1` per token (`go1_text`, `go1_lt`, `go1_entity`, `go1_charref`),
and the whole first phase on a token sequence (`go1_toks`): the events are `toksEvents`, whose tag-stack discipline
is `stackRun` (`content_of_stackRun`) and whose source text is the text of the tokens (`evsText_toksEvents`).
Core Lean only.
-/
import MdVerif.Lemmas.HtmlTokTag
import MdVerif.Lemmas.ExtractEv

namespace MdVerif.HtmlTok
open Py Extract HtmlFrag
set_option linter.unusedSimpArgs false
set_option linter.unnecessarySimpa false

/-! ### end tags -/

theorem parseEndTag_ok (n : Str) (hn : nameOk n = true) (k : Str) (als : Bool) (bf : Str → Bool) :
    parseEndTag ('<' :: '/' :: (n ++ '>' :: k)) als bf =
      .ok (n.length + 3) [.end_ (lower n) ('<' :: '/' :: (n ++ ['>'])) (bf ('<' :: '/' :: (n ++ ['>'])))] := by
  obtain ⟨c, r, rfl, hc, hr⟩ := nameOk_cons hn
  have hcf := nameCh_facts c (alpha_nameCh c hc)
  simp [nameChFacts] at hcf
  have hall : (c :: r).all (· != '>') = true := by
    simp only [List.all_eq_true]; intro e he
    have : nameCh e = true := by
      rcases List.mem_cons.1 he with rfl | he
      · exact alpha_nameCh _ hc
      · exact List.all_eq_true.1 hr e he
    have := nameCh_facts e this; simp [nameChFacts] at this; simp [this]
  have hfind : findChar '>' ('<' :: '/' :: (c :: r ++ '>' :: k)) 1 = some ((c :: r).length + 2) := by
    have : spanLen (· != '>') ('/' :: ((c :: r) ++ '>' :: k)) = (c :: r).length + 1 := by
      rw [spanLen_cons]; simp only [show ('/' != '>') = true by decide, if_true]
      rw [spanLen_stop hall (by intro e he; simp at he; subst he; simp)]
    simp only [findChar, List.drop_succ_cons, List.drop_zero, this]
    simp; omega
  have hname : endTagName ('<' :: '/' :: (c :: r ++ '>' :: k)) = some (c :: r) := by
    have hsp : spanLen (fun d => isAsciiAlnum d || d = '-' || d = '.' || d = ':' || d = '_') (r ++ '>' :: k) = r.length := by
      apply spanLen_stop
      · simp only [List.all_eq_true] at hr ⊢; intro e he
        have := nameCh_facts e (hr e he); simp [nameChFacts] at this
        rcases this.2 with ((((h | h) | h) | h) | h) <;> simp [h]
      · intro e he; simp at he; subst he; decide
    simp only [endTagName, List.drop_succ_cons, List.drop_zero, List.cons_append, spanLen_cons, hcf,
      Bool.false_eq_true, if_false, Nat.add_zero, hc, if_true, hsp, List.drop_left, List.take_left]
    simp [spanLen_cons, show isSpace '>' = false by decide]
  have htake : List.take ((c :: r).length + 2 + 1) ('<' :: '/' :: (c :: r ++ '>' :: k)) = '<' :: '/' :: (c :: r ++ ['>']) := by
    have := take_len_add ('<' :: '/' :: (c :: r ++ ['>'])) k 0
    rw [show (c :: r).length + 2 + 1 = ('<' :: '/' :: (c :: r ++ ['>'])).length + 0 by simp]
    simpa using this
  unfold parseEndTag
  simp only [hfind, hname, htake]

/-! ### comments -/

/-- does `--\s*>` match right here? -/
def closeHere (c : Char) (r : Str) : Option Nat :=
  if c = '-' then
    match r with
    | '-' :: t => let w := spanLen isSpace t; if (t.drop w).head? = some '>' then some (w + 3) else none
    | _ => none
  else none

theorem commentClose_cons (c : Char) (r : Str) :
    commentClose (c :: r) =
      match closeHere c r with
      | some e => some (0, e)
      | none => (commentClose r).map (fun m => (m.1 + 1, m.2 + 1)) := rfl

theorem commentClose_ok (b k : Str) (hb : Py.contains b ['-', '-'] = false) :
    commentClose (b ++ '-' :: '-' :: '>' :: k) = some (b.length, b.length + 3) := by
  induction b with
  | nil => simp [commentClose_cons, closeHere, spanLen_cons, show isSpace '>' = false by decide]
  | cons x b ih =>
    obtain ⟨h1, h2⟩ := contains_cons_eq_false hb
    have hhere : closeHere x (b ++ '-' :: '-' :: '>' :: k) = none := by
      unfold closeHere
      by_cases hx : x = '-'
      · subst hx
        cases b with
        | nil => simp [spanLen_cons, show isSpace '-' = false by decide]
        | cons y b =>
          have : y ≠ '-' := by
            intro hy; subst hy; simp at h1
          simp only [if_true, List.cons_append]
          split
          · rename_i heq; simp at heq; exact absurd heq.1 this
          · rfl
      · simp [hx]
    rw [List.cons_append, commentClose_cons, hhere, ih h2]
    simp

theorem parseComment_ok (b k : Str) (hb : Py.contains b ['-', '-'] = false) (als : Bool) (bf : Str → Bool) :
    parseComment ('<' :: '!' :: '-' :: '-' :: (b ++ '-' :: '-' :: '>' :: k)) als bf =
      .ok (b.length + 7) [.empty ('<' :: '!' :: '-' :: '-' :: (b ++ ['-', '-', '>'])) true als
        (bf ('<' :: '!' :: '-' :: '-' :: (b ++ ['-', '-', '>'])))] := by
  unfold parseComment
  simp only [List.drop_succ_cons, List.drop_zero, commentClose_ok b k hb, List.take_left, cmtOpen, cmtClose]
  simp; omega

/-! ### references -/

theorem entityrefAt_ok (n k : Str) (hn : entityNameOk n = true) :
    entityrefAt ('&' :: (n ++ ';' :: k)) = some (n.length + 2) := by
  cases n with
  | nil => simp [entityNameOk] at hn
  | cons c r =>
    simp only [entityNameOk, Bool.and_eq_true] at hn
    have hsp : spanLen (fun d => isAsciiAlnum d || d = '-' || d = '.') (r ++ ';' :: k) = r.length :=
      spanLen_stop hn.2 (by intro e he; simp at he; subst he; decide)
    simp only [List.cons_append, entityrefAt, hn.1, if_true, hsp]
    simp

theorem charrefAt_ok (n k : Str) (hn : charrefNameOk n = true) :
    charrefAt ('&' :: '#' :: (n ++ ';' :: k)) = some (n.length + 3) := by
  cases n with
  | nil => simp [charrefNameOk] at hn
  | cons c r =>
    simp only [charrefNameOk] at hn
    by_cases hx : c = 'x' ∨ c = 'X'
    · have hx' : (c = 'x' || c = 'X') = true := by simpa using hx
      simp only [hx', if_true, Bool.and_eq_true, Bool.not_eq_true', List.isEmpty_eq_false_iff] at hn
      have hsp : spanLen isHexDigit (r ++ ';' :: k) = r.length :=
        spanLen_stop hn.2 (by intro e he; simp at he; subst he; decide)
      have hdig : isAsciiDigit c = false := by rcases hx with rfl | rfl <;> decide
      have hrl : 0 < r.length := List.length_pos_iff.2 hn.1
      simp only [List.cons_append, charrefAt, spanLen_cons, hdig, Bool.false_eq_true, if_false]
      simp [hx', hsp, nonHexAt, hrl, show isHexDigit ';' = false by decide]
    · have hx' : (c = 'x' || c = 'X') = false := by simpa using hx
      simp only [hx', Bool.false_eq_true, if_false] at hn
      have hsp : spanLen isAsciiDigit ((c :: r) ++ ';' :: k) = (c :: r).length :=
        spanLen_stop hn (by intro e he; simp at he; subst he; decide)
      simp only [List.cons_append] at hsp
      simp only [List.cons_append, charrefAt, hsp]
      simp [nonHexAt, show isHexDigit ';' = false by decide]


/-! ### one loop iteration -/

theorem go1_succ_cons (raw : Str) (f : Nat) (c : Char) (r : Str) (pos : Pos) (ex : ExSt) :
    go1 raw (f + 1) (c :: r) pos ex =
      (let s := c :: r
       if c != '<' && c != '&' then
         let d := s.take (interesting s)
         consEvs [.data d] (go1 raw f (s.drop (interesting s)) (updatePos pos d) (step ex (.data d)))
       else if c = '<' then
         match parseLt s (atLineStart raw pos) (look raw pos) ex.intail with
         | .ood => none
         | .incomplete => none
         | .ok k evs =>
           let ex' := runFrom ex evs
           if cdataStuck evs ex'.inraw then none
           else consEvs evs (go1 raw f (s.drop k) (updatePos pos (s.take k)) ex')
       else if startsWith r ['#'] then
         match charrefAt s with
         | some e =>
           let k := if s[e - 1]? == some ';' then e else e - 1
           let ev := Event.charref (slice s 2 (e - 1))
           consEvs [ev] (go1 raw f (s.drop k) (updatePos pos (s.take k)) (step ex ev))
         | none =>
           if s.contains ';' then some ([.data ['&', '#']], step ex (.data ['&', '#']), s.drop 2)
           else some ([], ex, s)
       else
         match entityrefAt s with
         | some e =>
           let ev := Event.entityref (slice s 1 (e - 1))
           consEvs [ev] (go1 raw f (s.drop e) (updatePos pos (s.take e)) (step ex ev))
         | none =>
           if r.isEmpty then some ([], ex, s)
           else consEvs [.data ['&']] (go1 raw f r (updatePos pos ['&']) (step ex (.data ['&'])))) := rfl

/-- what a run of text must be followed by: nothing, `<` or `&` -/
def Delim (k : Str) : Prop := ∀ c, k.head? = some c → c = '<' ∨ c = '&'

theorem go1_text (raw : Str) (f : Nat) (t k : Str) (pos : Pos) (ex : ExSt) (hne : t ≠ [])
    (h1 : t.contains '<' = false) (h2 : t.contains '&' = false) (hk : Delim k) :
    go1 raw (f + 1) (t ++ k) pos ex =
      consEvs [.data t] (go1 raw f k (updatePos pos t) (step ex (.data t))) := by
  have hall : t.all (fun c => c != '<' && c != '&') = true := by
    simp only [List.all_eq_true]; intro e he
    simp only [List.contains_eq_mem, decide_eq_false_iff_not] at h1 h2
    have a : e ≠ '<' := fun h => h1 (h ▸ he)
    have b : e ≠ '&' := fun h => h2 (h ▸ he)
    simp [a, b]
  have hint : interesting (t ++ k) = t.length := by
    unfold interesting
    apply spanLen_stop hall
    intro e he; rcases hk e he with rfl | rfl <;> simp
  obtain ⟨c, t', rfl⟩ := List.exists_cons_of_ne_nil hne
  have hc : (c != '<' && c != '&') = true := by
    simp only [List.all_cons, Bool.and_eq_true] at hall; simpa using hall.1
  rw [List.cons_append, go1_succ_cons]
  simp only [hc, if_true]
  rw [← List.cons_append, hint, List.take_left, List.drop_left]

theorem go1_lt (raw : Str) (f : Nat) (T k : Str) (pos : Pos) (ex : ExSt) (evs : List Event) (c : Char) (r : Str)
    (hT : T ++ k = '<' :: c :: r)
    (hp : parseLt (T ++ k) (atLineStart raw pos) (look raw pos) ex.intail = .ok T.length evs)
    (hcd : cdataStuck evs (runFrom ex evs).inraw = false) :
    go1 raw (f + 1) (T ++ k) pos ex = consEvs evs (go1 raw f k (updatePos pos T) (runFrom ex evs)) := by
  have hp' := hp
  rw [hT] at hp' ⊢
  rw [go1_succ_cons]
  simp only [show ('<' != '<' && '<' != '&') = false by decide, Bool.false_eq_true, if_false, if_true, hp', hcd]
  rw [← hT, List.take_left, List.drop_left]

theorem go1_entity (raw : Str) (f : Nat) (n k : Str) (pos : Pos) (ex : ExSt) (hn : entityNameOk n = true) :
    go1 raw (f + 1) ('&' :: (n ++ ';' :: k)) pos ex =
      consEvs [.entityref n]
        (go1 raw f k (updatePos pos ('&' :: (n ++ [';']))) (step ex (.entityref n))) := by
  have he := entityrefAt_ok n k hn
  have hhash : startsWith (n ++ ';' :: k) ['#'] = false := by
    cases n with
    | nil => simp [entityNameOk] at hn
    | cons c r =>
      simp only [entityNameOk, Bool.and_eq_true] at hn
      have : c ≠ '#' := by rintro rfl; exact absurd hn.1 (by decide)
      simp [this]
  have hsl : slice ('&' :: (n ++ ';' :: k)) 1 (n.length + 2 - 1) = n := by
    unfold slice
    simp only [List.drop_succ_cons, List.drop_zero]
    rw [show n.length + 2 - 1 - 1 = n.length by omega, List.take_left]
  have hdr : List.drop (n.length + 2) ('&' :: (n ++ ';' :: k)) = k := by
    have := drop_len_add ('&' :: (n ++ [';'])) k 0
    rw [show n.length + 2 = ('&' :: (n ++ [';'])).length + 0 by simp]; simpa using this
  have htk : List.take (n.length + 2) ('&' :: (n ++ ';' :: k)) = '&' :: (n ++ [';']) := by
    have := take_len_add ('&' :: (n ++ [';'])) k 0
    rw [show n.length + 2 = ('&' :: (n ++ [';'])).length + 0 by simp]; simpa using this
  rw [go1_succ_cons]
  simp only [show ('&' != '<' && '&' != '&') = false by decide, Bool.false_eq_true, if_false,
    show ('&' = '<') = False by decide, hhash, he, hsl, hdr, htk]

theorem go1_charref (raw : Str) (f : Nat) (n k : Str) (pos : Pos) (ex : ExSt) (hn : charrefNameOk n = true) :
    go1 raw (f + 1) ('&' :: '#' :: (n ++ ';' :: k)) pos ex =
      consEvs [.charref n]
        (go1 raw f k (updatePos pos ('&' :: '#' :: (n ++ [';']))) (step ex (.charref n))) := by
  have he := charrefAt_ok n k hn
  have hsl : slice ('&' :: '#' :: (n ++ ';' :: k)) 2 (n.length + 3 - 1) = n := by
    unfold slice
    simp only [List.drop_succ_cons, List.drop_zero]
    rw [show n.length + 3 - 1 - 2 = n.length by omega, List.take_left]
  have hdr : List.drop (n.length + 3) ('&' :: '#' :: (n ++ ';' :: k)) = k := by
    have := drop_len_add ('&' :: '#' :: (n ++ [';'])) k 0
    rw [show n.length + 3 = ('&' :: '#' :: (n ++ [';'])).length + 0 by simp]; simpa using this
  have htk : List.take (n.length + 3) ('&' :: '#' :: (n ++ ';' :: k)) = '&' :: '#' :: (n ++ [';']) := by
    have := take_len_add ('&' :: '#' :: (n ++ [';'])) k 0
    rw [show n.length + 3 = ('&' :: '#' :: (n ++ [';'])).length + 0 by simp]; simpa using this
  have hsemi : ('&' :: '#' :: (n ++ ';' :: k))[n.length + 3 - 1]? = some ';' := by
    rw [show n.length + 3 - 1 = ('&' :: '#' :: n).length by simp]
    have : '&' :: '#' :: (n ++ ';' :: k) = ('&' :: '#' :: n) ++ ';' :: k := by simp
    rw [this, List.getElem?_append_right (Nat.le_refl _)]; simp
  rw [go1_succ_cons]
  simp only [show ('&' != '<' && '&' != '&') = false by decide, Bool.false_eq_true, if_false,
    show ('&' = '<') = False by decide, he, hsl, hsemi, hdr, htk]
  have : List.take (n.length + 1) (n ++ ';' :: k) = n ++ [';'] := by
    have := take_len_add n (';' :: k) 1
    simpa using this
  simp [this]

/-! ### one token -/

/-- the event a token fires at position `pos` of `raw` -/
def tokEvent (raw : Str) (pos : Pos) (t : Tok) : Event :=
  match t with
  | .text s => .data s
  | .entity n => .entityref n
  | .charref n => .charref n
  | .comment _ => .empty t.render true (atLineStart raw pos) (look raw pos t.render)
  | .open_ n _ _ => tagEvent false n t.render (atLineStart raw pos) (look raw pos t.render)
  | .close n => .end_ (lower n) t.render (look raw pos t.render)
  | .selfClose n _ _ => tagEvent true n t.render (atLineStart raw pos) (look raw pos t.render)
  | .bare c => .data [c]

theorem render_open (c : Char) (r : Str) (as : List Attr) (tr : Str) :
    (Tok.open_ (c :: r) as tr).render = tagText false c r as tr := by
  simp [Tok.render, tagText, termOf]

theorem render_selfClose (c : Char) (r : Str) (as : List Attr) (tr : Str) :
    (Tok.selfClose (c :: r) as tr).render = tagText true c r as tr := by
  simp [Tok.render, tagText, termOf]

theorem cdataTags_eq : cdataTags = cdataNames := rfl

/-- a bare `<` or `&` followed by a character that keeps it bare: one `handle_data` call -/
theorem go1_bare (raw : Str) (f : Nat) (c d : Char) (r : Str) (pos : Pos) (ex : ExSt) (hc : c = '<' ∨ c = '&')
    (hd : bareFollow c d = true) :
    go1 raw (f + 1) (c :: d :: r) pos ex =
      consEvs [.data [c]] (go1 raw f (d :: r) (updatePos pos [c]) (step ex (.data [c]))) := by
  rcases hc with rfl | rfl
  · simp only [bareFollow, if_true, Bool.and_eq_true, Bool.not_eq_true', bne_iff_ne, ne_eq] at hd
    obtain ⟨⟨⟨h1, h2⟩, h3⟩, h4⟩ := hd
    have hp : parseLt ('<' :: d :: r) (atLineStart raw pos) (look raw pos) ex.intail = .ok 1 [.data ['<']] := by
      simp [parseLt, h1, h2, h3, h4, cmtOpen]
    have := go1_lt raw f ['<'] (d :: r) pos ex [.data ['<']] d r rfl hp rfl
    simpa [runFrom] using this
  · have hne : ('&' = '<') = False := by decide
    simp only [bareFollow, hne, if_false, Bool.and_eq_true, Bool.not_eq_true', bne_iff_ne, ne_eq] at hd
    obtain ⟨h1, h2⟩ := hd
    rw [go1_succ_cons]
    simp only [show ('&' != '<' && '&' != '&') = false by decide, Bool.false_eq_true, if_false, hne,
      startsWith_cons_cons, show decide (d = '#') = false by simpa using h2, Bool.false_and, entityrefAt, h1,
      List.isEmpty_cons]

theorem go1_tok (raw : Str) (f : Nat) (t : Tok) (k : Str) (pos : Pos) (ex : ExSt) (ht : t.ok = true)
    (hk : isText t = true → Delim k)
    (hb : ∀ c, t = .bare c → ∃ d r, k = d :: r ∧ bareFollow c d = true := by intro c hc; cases hc) :
    go1 raw (f + 1) (t.render ++ k) pos ex =
      consEvs [tokEvent raw pos t] (go1 raw f k (updatePos pos t.render) (step ex (tokEvent raw pos t))) := by
  cases t with
  | text s =>
    simp only [Tok.ok, Bool.and_eq_true, Bool.not_eq_true', List.isEmpty_eq_false_iff] at ht
    exact go1_text raw f s k pos ex ht.1.1 ht.1.2 ht.2 (hk rfl)
  | entity n =>
    have := go1_entity raw f n k pos ex ht
    simpa [Tok.render, tokEvent] using this
  | charref n =>
    have := go1_charref raw f n k pos ex ht
    simpa [Tok.render, tokEvent] using this
  | comment b =>
    simp only [Tok.ok, Bool.not_eq_true'] at ht
    have hp := parseComment_ok b k ht (atLineStart raw pos) (look raw pos)
    have hT : (Tok.comment b).render ++ k = '<' :: '!' :: ('-' :: '-' :: (b ++ '-' :: '-' :: '>' :: k)) := by
      simp [Tok.render]
    have hlen : (Tok.comment b).render.length = b.length + 7 := by simp [Tok.render]
    refine go1_lt raw f _ k pos ex [tokEvent raw pos (.comment b)] '!' _ hT ?_ rfl
    rw [hT, hlen]
    simp only [parseLt, show isAsciiAlpha '!' = false by decide, Bool.false_eq_true, if_false,
      show ('!' = '/') = False by decide, cmtOpen, startsWith_cons_cons, decide_true, Bool.true_and,
      startsWith_nil, if_true, hp]
    simp [tokEvent, Tok.render]
  | open_ n as tr =>
    simp only [Tok.ok, Bool.and_eq_true, Bool.not_eq_true'] at ht
    obtain ⟨⟨⟨hn, has⟩, htr⟩, hcd⟩ := ht
    obtain ⟨c, r, rfl, hc, hr⟩ := nameOk_cons hn
    have hp := parseStartTag_ok false c r tr hc hr htr as has (by intro h; cases h) k
      (atLineStart raw pos) (look raw pos)
    have hT : (Tok.open_ (c :: r) as tr).render ++ k = '<' :: c :: (r ++ (afterName as tr ++ ['>'] ++ k)) := by
      simp [Tok.render]
    refine go1_lt raw f _ k pos ex [tokEvent raw pos (.open_ (c :: r) as tr)] c _ hT ?_ ?_
    · rw [render_open] at hT ⊢
      have : parseLt (tagText false c r as tr ++ k) (atLineStart raw pos) (look raw pos) ex.intail =
          parseStartTag (tagText false c r as tr ++ k) (atLineStart raw pos) (look raw pos) := by
        rw [hT]; simp [parseLt, hc]
      rw [this, hp]
      simp [tokEvent, render_open]
    · simp only [tokEvent, tagEvent, Bool.false_eq_true, if_false, cdataStuck, cdataTags_eq, hcd, Bool.false_and]
  | close n =>
    have hp := parseEndTag_ok n ht k (atLineStart raw pos) (look raw pos)
    have hT : (Tok.close n).render ++ k = '<' :: '/' :: (n ++ '>' :: k) := by simp [Tok.render]
    have hlen : (Tok.close n).render.length = n.length + 3 := by simp [Tok.render]
    refine go1_lt raw f _ k pos ex [tokEvent raw pos (.close n)] '/' _ hT ?_ rfl
    rw [hT, hlen]
    simp only [parseLt, show isAsciiAlpha '/' = false by decide, Bool.false_eq_true, if_false, if_true, hp]
    simp [tokEvent, Tok.render]
  | selfClose n as tr =>
    simp only [Tok.ok, Bool.and_eq_true, Bool.or_eq_true, Bool.not_eq_true', List.isEmpty_eq_false_iff] at ht
    obtain ⟨⟨⟨hn, has⟩, htr⟩, hsc⟩ := ht
    obtain ⟨c, r, rfl, hc, hr⟩ := nameOk_cons hn
    have hscok : scOk true as tr := by
      intro _ hb
      rcases hsc with h | h
      · exact h
      · rw [lastBareL_eq] at hb
        cases hl : as.getLast? with
        | none => rw [hl] at hb; simp at hb
        | some a => rw [hl] at hb h; simp at hb h; rw [hb] at h; cases h
    have hp := parseStartTag_ok true c r tr hc hr htr as has hscok k (atLineStart raw pos) (look raw pos)
    have hT : (Tok.selfClose (c :: r) as tr).render ++ k = '<' :: c :: (r ++ (afterName as tr ++ ['/', '>'] ++ k)) := by
      simp [Tok.render]
    refine go1_lt raw f _ k pos ex [tokEvent raw pos (.selfClose (c :: r) as tr)] c _ hT ?_ ?_
    · rw [render_selfClose] at hT ⊢
      have : parseLt (tagText true c r as tr ++ k) (atLineStart raw pos) (look raw pos) ex.intail =
          parseStartTag (tagText true c r as tr ++ k) (atLineStart raw pos) (look raw pos) := by
        rw [hT]; simp [parseLt, hc]
      rw [this, hp]
      simp [tokEvent, render_selfClose]
    · simp [tokEvent, tagEvent, cdataStuck]
  | bare c =>
    obtain ⟨d, r, rfl, hd⟩ := hb c rfl
    have hc : c = '<' ∨ c = '&' := by simpa [Tok.ok] using ht
    simpa [Tok.render, tokEvent] using go1_bare raw f c d r pos ex hc hd

/-! ### token sequences -/

/-- the events of a token sequence that starts behind the consumed prefix `pre` of `raw` -/
def toksEvents (raw : Str) : Str → List Tok → List Event
  | _, [] => []
  | pre, t :: ts => tokEvent raw (posOf pre) t :: toksEvents raw (pre ++ t.render) ts

theorem consEvs_nil (x : Option R1) : consEvs [] x = x := by
  cases x <;> simp [consEvs]

theorem consEvs_consEvs (a b : List Event) (x : Option R1) : consEvs a (consEvs b x) = consEvs (a ++ b) x := by
  cases x <;> simp [consEvs]

theorem render_head_nontext (t : Tok) (ht : t.ok = true) (h : isText t = false) :
    ∃ c r, t.render = c :: r ∧ (c = '<' ∨ c = '&') := by
  cases t <;> simp [isText] at h <;> simp [Tok.render]
  simpa [Tok.ok] using ht

theorem toksOk_head {u : Tok} {r : List Tok} (h : toksOk (u :: r) = true) : u.ok = true := by
  cases r with
  | nil => simp only [toksOk, Bool.and_eq_true] at h; exact h.1
  | cons v r' => simp only [toksOk, Bool.and_eq_true] at h; exact h.1.1.1

theorem toksOk_cons {t : Tok} {ts : List Tok} (h : toksOk (t :: ts) = true) :
    t.ok = true ∧ toksOk ts = true ∧ (isText t = true → ∀ u r, ts = u :: r → isText u = false) ∧
    (∀ c, t = .bare c → ∃ u r, ts = u :: r ∧ followOk t u = true) := by
  cases ts with
  | nil =>
    simp only [toksOk, Bool.and_eq_true, Bool.not_eq_true'] at h
    refine ⟨h.1, rfl, ?_, ?_⟩
    · intro _ u r he; cases he
    · intro c hc; rw [hc] at h; simp [isBare] at h
  | cons u r =>
    simp only [toksOk, Bool.and_eq_true, Bool.not_eq_true', Bool.and_eq_false_iff] at h
    refine ⟨h.1.1.1, h.2, ?_, fun c _ => ⟨u, r, rfl, h.1.2⟩⟩
    intro ht u' r' he
    cases he
    rcases h.1.1.2 with h' | h'
    · rw [ht] at h'; cases h'
    · exact h'

theorem go1_toks (raw : Str) : ∀ (ts : List Tok) (pre k : Str) (f : Nat) (ex : ExSt),
    toksOk ts = true → Delim k →
    go1 raw (f + ts.length) (renderToks ts ++ k) (posOf pre) ex =
      consEvs (toksEvents raw pre ts)
        (go1 raw f k (posOf (pre ++ renderToks ts)) (runFrom ex (toksEvents raw pre ts))) := by
  intro ts
  induction ts with
  | nil => intro pre k f ex _ _; simp [renderToks, toksEvents, consEvs_nil, runFrom]
  | cons t ts ih =>
    intro pre k f ex hok hk
    obtain ⟨ht, hts, hadj, hfol⟩ := toksOk_cons hok
    have hk' : isText t = true → Delim (renderToks ts ++ k) := by
      intro htx
      cases ts with
      | nil => simpa [renderToks] using hk
      | cons u r =>
        obtain ⟨c, r', hr, hc⟩ := render_head_nontext u (toksOk_head hts) (hadj htx u r rfl)
        intro e he
        simp only [renderToks, hr, List.cons_append, List.head?_cons, Option.some.injEq] at he
        subst he; exact hc
    have hb' : ∀ c, t = .bare c → ∃ d r, renderToks ts ++ k = d :: r ∧ bareFollow c d = true := by
      intro c hc
      obtain ⟨u, r, hts', hfo⟩ := hfol c hc
      subst hts'; subst hc
      simp only [followOk] at hfo
      cases hu : u.render with
      | nil => rw [hu] at hfo; simp at hfo
      | cons d r' =>
        rw [hu] at hfo
        exact ⟨d, r' ++ (renderToks r ++ k), by simp [renderToks, hu], by simpa using hfo⟩
    have hstep := go1_tok raw (f + ts.length) t (renderToks ts ++ k) (posOf pre) ex ht hk' hb'
    simp only [renderToks, List.length_cons, List.append_assoc]
    rw [show f + (ts.length + 1) = f + ts.length + 1 by omega, hstep, posOf_append,
      ih (pre ++ t.render) k f _ hts hk, consEvs_consEvs]
    simp [toksEvents, runFrom_cons, List.append_assoc]

/-! ### the events of a token sequence -/

theorem tokEvent_text (raw : Str) (pos : Pos) (t : Tok) (ht : t.ok = true) : evText (tokEvent raw pos t) = t.render := by
  cases t <;> simp [tokEvent, evText, Tok.render, tagEvent, entityrefText, charrefText]

theorem evsText_toksEvents (raw : Str) : ∀ (ts : List Tok) (pre : Str), toksOk ts = true →
    evsText (toksEvents raw pre ts) = renderToks ts := by
  intro ts
  induction ts with
  | nil => intro pre _; rfl
  | cons t ts ih =>
    intro pre hok
    obtain ⟨ht, hts, _⟩ := toksOk_cons hok
    have := ih (pre ++ t.render) hts
    simp only [evsText] at this ⊢
    simp [toksEvents, renderToks, tokEvent_text raw _ t ht, this]

/-- the tag-stack discipline of the events is `stackRun` -/
theorem content_of_stackRun (raw : Str) : ∀ (ts : List Tok) (pre : Str) (S S' : List Str),
    stackRun S ts = some S' → Content S (toksEvents raw pre ts) S' := by
  intro ts
  induction ts with
  | nil => intro pre S S' h; simp [stackRun] at h; subst h; exact Content.nil S
  | cons t ts ih =>
    intro pre S S' h
    simp only [stackRun] at h
    cases hs : stackStep S t with
    | none => rw [hs] at h; cases h
    | some S1 =>
      rw [hs] at h
      have hrest := ih (pre ++ t.render) S1 S' h
      cases t with
      | text s => simp [stackStep] at hs; subst hs; exact Content.data _ hrest
      | entity n => simp [stackStep] at hs; subst hs; exact Content.entityref _ hrest
      | charref n => simp [stackStep] at hs; subst hs; exact Content.charref _ hrest
      | comment b => simp [stackStep] at hs; subst hs; exact Content.empty _ _ _ _ hrest
      | selfClose n as tr =>
        simp [stackStep] at hs; subst hs
        simp only [toksEvents, tokEvent, tagEvent, if_true]
        exact Content.empty _ _ _ _ hrest
      | bare c => simp [stackStep] at hs; subst hs; exact Content.data _ hrest
      | open_ n as tr =>
        simp only [toksEvents, tokEvent, tagEvent, Bool.false_eq_true, if_false]
        by_cases hhr : lower n = hrTag
        · simp [stackStep, hhr] at hs; subst hs
          have : (lower n = ['h', 'r']) := hhr
          simp only [this, decide_true]
          exact Content.void _ _ _ _ _ hrest
        · simp [stackStep, hhr] at hs; subst hs
          have : ¬ (lower n = ['h', 'r']) := hhr
          simp only [this, decide_false]
          exact Content.open_ _ _ _ _ _ hrest
      | close n =>
        simp only [toksEvents, tokEvent]
        by_cases hin : S.contains (lower n) = true
        · simp only [stackStep, hin, if_true] at hs
          by_cases hp : popTo (lower n) S = []
          · simp [hp] at hs
          · simp only [hp, if_false, Option.some.injEq] at hs; subst hs
            exact Content.close_ _ _ _ (by simpa using hin) hp hrest
        · simp only [stackStep, hin, Bool.false_eq_true, if_false, Option.some.injEq] at hs; subst hs
          exact Content.stray _ _ _ (by simpa using hin) hrest

end MdVerif.HtmlTok
