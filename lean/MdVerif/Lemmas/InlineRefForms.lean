/-
Helper lemmas for `Props/C15Forms.lean`: the other spellings of a reference (`[text][]`, `[text]`, `![alt][label]`,
`![alt][]`, `![alt]`), the html output format, several definitions anywhere around the paragraph, two references in
one paragraph.  Builds on `Lemmas/InlineRef.lean`.  Core Lean only.

Structure: a *front end* (`front_doc`: preprocessors, block splitter and block parser on "definitions, paragraph,
definitions"), the inline theorems per form, and a *back end* (`back_one`, `back_two`: tree processors, serializer,
postprocessors for a paragraph with one or two inline elements).
-/
import MdVerif.Lemmas.InlineRef

namespace MdVerif.InlineRef
open Py Inline RefDef

/-! ### definitions as data -/

/-- one reference definition, written with a bare destination -/
structure DefSpec where
  indent : Nat
  label : Str
  url : Str
  title : Option (TitleStyle × Str)
  titleOnNextLine : Bool

/-- well-formed, and made of ordinary document characters -/
def DefSpec.ok (tab : Nat) (d : DefSpec) : Bool :=
  decide (d.indent ≤ 3) && decide (d.indent < tab) && LabelOK d.label && UrlOK d.url && TitleOK d.title &&
    DefChars d.label d.url d.title

def DefSpec.src (d : DefSpec) : Str := printDef d.indent d.label d.url false d.title d.titleOnNextLine
def DefSpec.entry (d : DefSpec) : Str × (Str × Option Str) := defEntry d.label d.url d.title

theorem DefSpec.ok_facts {tab : Nat} {d : DefSpec} (h : d.ok tab = true) :
    d.indent ≤ 3 ∧ d.indent < tab ∧ LabelOK d.label = true ∧ UrlOK d.url = true ∧ TitleOK d.title = true ∧
      DefChars d.label d.url d.title = true := by
  simp only [DefSpec.ok, Bool.and_eq_true, decide_eq_true_eq] at h
  exact ⟨h.1.1.1.1.1, h.1.1.1.1.2, h.1.1.1.2, h.1.1.2, h.1.2, h.2⟩

/-- blocks joined by blank lines -/
def joinPar (bs : List Str) : Str := join ['\n', '\n'] bs

/-- the document: definitions, the paragraph, definitions -/
def docOf (before : List DefSpec) (para : Str) (after : List DefSpec) : Str :=
  joinPar (before.map DefSpec.src ++ para :: after.map DefSpec.src)

/-! ### blocks of plain lines -/

/-- a block: non-empty list of plain lines, ordinary characters -/
def BlockOK (B : Str) : Prop :=
  ∃ L : List Str, L ≠ [] ∧ (∀ l ∈ L, Block.PlainLine l) ∧ B = joinLines L ∧ B.all docCh = true

theorem BlockOK.def_src {tab : Nat} {d : DefSpec} (h : d.ok tab = true) : BlockOK d.src := by
  obtain ⟨_, _, hl, hu, ht, hc⟩ := DefSpec.ok_facts h
  obtain ⟨r0, rl, e⟩ := Block.defLines_shape d.indent d.label d.url false d.title d.titleOnNextLine
  exact ⟨defLines d.indent d.label d.url false d.title d.titleOnNextLine, by rw [e]; simp,
    Block.plain_defLines hl hu ht, Block.printDef_eq_joinLines _ _ _ _ _ _, printDef_docCh _ _ _ _ _ hc⟩

theorem inkE_lines_nl (L : List Str) (hne : L ≠ []) (h : ∀ l ∈ L, Block.PlainLine l) (R : Str) :
    inkE false false (joinLines L ++ '\n' :: R) = inkE false false R := by
  induction L with
  | nil => exact absurd rfl hne
  | cons l r ih =>
    have hl := plainLine_ink (h l (by simp))
    have hfin : (false || l.any (· != ' ') || !(false || !l.isEmpty)) = true := by
      rcases hl.2 with e | e
      · exact absurd e (h l (by simp)).ne_nil
      · simp [e]
    cases r with
    | nil =>
      rw [Block.joinLines_single, inkE_line l _ false false hl.1]
      simp only [inkE, if_true, hfin, Bool.true_and]
    | cons b r =>
      rw [Block.joinLines_cons_cons, List.append_assoc, List.cons_append, inkE_line l _ false false hl.1]
      simp only [inkE, if_true, hfin, Bool.true_and]
      exact ih (by simp) (fun x hx => h x (by simp [hx]))

theorem inkE_block_end (L : List Str) (h : ∀ l ∈ L, Block.PlainLine l) : inkE false false (joinLines L) = true :=
  inkE_joinLines L (fun l hl => plainLine_ink (h l hl))

theorem joinPar_cons_cons (a b : Str) (r : List Str) :
    joinPar (a :: b :: r) = a ++ '\n' :: '\n' :: joinPar (b :: r) := by
  simp [joinPar, join]

theorem joinPar_single (a : Str) : joinPar [a] = a := rfl

theorem inkE_joinPar (Bs : List Str) (h : ∀ B ∈ Bs, BlockOK B) : inkE false false (joinPar Bs) = true := by
  induction Bs with
  | nil => rfl
  | cons B r ih =>
    obtain ⟨L, hne, hp, rfl, _⟩ := h B (by simp)
    cases r with
    | nil => rw [joinPar_single]; exact inkE_block_end L hp
    | cons B2 r =>
      rw [joinPar_cons_cons, inkE_lines_nl L hne hp]
      simp only [inkE, if_true, Bool.false_or, Bool.not_false, Bool.true_and]
      exact ih (fun x hx => h x (by simp [hx]))

theorem docCh_joinPar (Bs : List Str) (h : ∀ B ∈ Bs, BlockOK B) : (joinPar Bs).all docCh = true := by
  induction Bs with
  | nil => rfl
  | cons B r ih =>
    obtain ⟨L, _, _, _, hc⟩ := h B (by simp)
    cases r with
    | nil => rw [joinPar_single]; exact hc
    | cons B2 r =>
      rw [joinPar_cons_cons]
      simp only [List.all_append, List.all_cons, hc, ih (fun x hx => h x (by simp [hx])), Bool.true_and, Bool.and_true]
      decide

theorem splitAux_joinPar (Bs : List Str) (hne : Bs ≠ []) (h : ∀ B ∈ Bs, BlockOK B) :
    splitAux ['\n', '\n'] 0 (joinPar Bs ++ ['\n', '\n']) = Bs ++ [[]] := by
  induction Bs with
  | nil => exact absurd rfl hne
  | cons B r ih =>
    obtain ⟨L, hL, hp, rfl, _⟩ := h (B) (by simp)
    have hnn := noNN_snoc _ (Block.noNN_plain L hp) (joinLines_getLast L hL hp)
    cases r with
    | nil =>
      rw [joinPar_single, show joinLines L ++ ['\n', '\n'] = joinLines L ++ '\n' :: '\n' :: [] from rfl,
        splitAux_sep _ _ hnn]
      rfl
    | cons B2 r =>
      rw [joinPar_cons_cons, List.append_assoc, List.cons_append, List.cons_append, splitAux_sep _ _ hnn,
        ih (by simp) (fun x hx => h x (by simp [hx]))]
      rfl

/-- preprocessors and block splitter on blocks joined by blank lines -/
theorem nBlocks (cfg : Pipeline.Cfg) (Bs : List Str) (hne : Bs ≠ []) (h : ∀ B ∈ Bs, BlockOK B) :
    Pipeline.prepare cfg (joinPar Bs) = joinPar Bs ++ ['\n', '\n'] ∧
    splitS ['\n', '\n'] (joinPar Bs ++ ['\n', '\n']) = Bs ++ [[]] :=
  ⟨prepare_doc cfg _ (docCh_joinPar Bs h) (inkE_joinPar Bs h), splitAux_joinPar Bs hne h⟩


/-! ### the block parser on definitions, paragraph, definitions -/

/-- what the front end needs of the paragraph text: one line that starts with a visible plain character, ordinary
    characters, and not the start of a definition -/
structure ParaOK (para : Str) : Prop where
  shape : ∃ c r, para = c :: r ∧ Block.plainCh c = true ∧ isSpace c = false
  nonl : '\n' ∉ para
  chars : para.all docCh = true
  noref : Block.refMatchAt para 0 = none

theorem ParaOK.plainLine {para : Str} (h : ParaOK para) : Block.PlainLine para := by
  obtain ⟨c, r, e, hc, _⟩ := h.shape
  refine ⟨0, c, r, by simp [e, Block.spaces], hc, ?_⟩
  have := h.nonl
  rw [e] at this
  simp only [List.all_eq_true, Block.notNl, bne_iff_ne, ne_eq]
  intro x hx ex; subst ex; exact this (List.mem_cons_of_mem _ hx)

theorem ParaOK.blockOK {para : Str} (h : ParaOK para) : BlockOK para :=
  ⟨[para], by simp, by intro l hl; simp at hl; subst hl; exact h.plainLine, (Block.joinLines_single para).symm, h.chars⟩

theorem ParaOK.visible {para : Str} (h : ParaOK para) : Escape.startsVisible para = true := by
  obtain ⟨c, r, e, _, hs⟩ := h.shape
  simp [e, Escape.startsVisible, hs]

theorem dispatch_paraOK (tab : Nat) (htab : 0 < tab) (pb : Block.PB) (refs : Block.Refs) (parent : Node)
    (rest : List Str) {para : Str} (h : ParaOK para) :
    Block.dispatch tab pb [] refs parent para rest =
      some (parent.append (Block.mkText "p" para), refs, rest) := by
  obtain ⟨c, r, e, hc, _⟩ := h.shape
  have := Block.dispatch_plain tab pb [] refs parent rest para [] 0 c r
    (by simp [e, Block.spaces]) hc htab (by intro l hl'; simp at hl'; subst hl'; exact h.plainLine)
  rw [Block.joinLines_single] at this
  rw [this, refSearch_line_none _ h.nonl h.noref]
  simp only [Escape.paraP_visible _ _ _ _ h.visible]

theorem parseBlocks_defs (tab : Nat) (defs : List DefSpec) (hd : ∀ d ∈ defs, d.ok tab = true) :
    ∀ (f : Nat) (refs : Block.Refs) (parent : Node) (rest : List Str),
      Block.parseBlocks tab (f + defs.length) [] refs parent (defs.map DefSpec.src ++ rest) =
        Block.parseBlocks tab f [] (refs ++ defs.map DefSpec.entry) parent rest := by
  induction defs with
  | nil => intro f refs parent rest; simp
  | cons d r ih =>
    intro f refs parent rest
    obtain ⟨hi, hit, hl, hu, ht, _⟩ := DefSpec.ok_facts (hd d (by simp))
    rw [show f + (d :: r).length = (f + r.length) + 1 by simp; omega]
    simp only [List.map_cons, List.cons_append, Block.parseBlocks, DefSpec.src,
      Block.dispatch_printDef tab _ [] refs parent _ d.indent d.label d.url false d.title d.titleOnNextLine hi hit hl hu ht]
    rw [ih (fun x hx => hd x (by simp [hx]))]
    simp [DefSpec.entry]

/-- **The block parser on the document**: the paragraph becomes `<p>`, the definitions only fill `md.references`,
    in the order of the document -/
theorem parseBlocks_docOf (tab : Nat) (htab : 0 < tab) (before after : List DefSpec)
    (hb : ∀ d ∈ before, d.ok tab = true) (ha : ∀ d ∈ after, d.ok tab = true) {para : Str} (hp : ParaOK para)
    (f : Nat) :
    Block.parseBlocks tab (f + before.length + after.length + 2) [] [] (Node.el "div")
        ((before.map DefSpec.src ++ para :: after.map DefSpec.src) ++ [[]]) =
      some ((Node.el "div").append (Block.mkText "p" para), (before ++ after).map DefSpec.entry) := by
  rw [List.append_assoc, show f + before.length + after.length + 2 = (f + after.length + 2) + before.length by omega,
    parseBlocks_defs tab before hb]
  rw [show f + after.length + 2 = (f + 1 + after.length) + 1 by omega, List.cons_append, Block.parseBlocks,
    dispatch_paraOK tab htab _ _ _ _ hp]
  simp only
  rw [parseBlocks_defs tab after ha]
  rw [Block.parseBlocks, Escape.dispatch_empty_after_p]
  simp [Block.parseBlocks]

theorem joinPar_length (Bs : List Str) (h : ∀ B ∈ Bs, B ≠ []) : Bs.length ≤ (joinPar Bs).length := by
  induction Bs with
  | nil => simp
  | cons B r ih =>
    have hB : 1 ≤ B.length := by
      cases B with
      | nil => exact absurd rfl (h [] (by simp))
      | cons a b => simp
    cases r with
    | nil => simpa [joinPar_single] using hB
    | cons B2 r =>
      have := ih (fun x hx => h x (by simp [hx]))
      rw [joinPar_cons_cons]
      simp only [List.length_append, List.length_cons] at this ⊢
      omega

theorem BlockOK.ne_nil {B : Str} (h : BlockOK B) : B ≠ [] := by
  obtain ⟨L, hne, hp, rfl, _⟩ := h
  cases L with
  | nil => exact absurd rfl hne
  | cons l r => exact joinLines_ne_nil l r (hp l (by simp)).ne_nil

/-- **Front end.**  Source in the modelled domain, not blank; what the block parser returns. -/
theorem front_doc (cfg : Pipeline.Cfg) (htab : 0 < cfg.tab) (before after : List DefSpec)
    (hb : ∀ d ∈ before, d.ok cfg.tab = true) (ha : ∀ d ∈ after, d.ok cfg.tab = true) {para : Str}
    (hp : ParaOK para) :
    (docOf before para after).contains '<' = false ∧ Normalize.isBlankDoc (docOf before para after) = false ∧
    Block.parseDocument cfg.tab (Pipeline.prepare cfg (docOf before para after)) =
      some ((Node.el "div").append (Block.mkText "p" para), (before ++ after).map DefSpec.entry) := by
  have hBs : ∀ B ∈ before.map DefSpec.src ++ para :: after.map DefSpec.src, BlockOK B := by
    intro B hB
    simp only [List.mem_append, List.mem_map, List.mem_cons] at hB
    rcases hB with ⟨d, hd, rfl⟩ | rfl | ⟨d, hd, rfl⟩
    · exact BlockOK.def_src (hb d hd)
    · exact hp.blockOK
    · exact BlockOK.def_src (ha d hd)
  have hne : before.map DefSpec.src ++ para :: after.map DefSpec.src ≠ [] := by simp
  obtain ⟨hprep, hsplit⟩ := nBlocks cfg _ hne hBs
  have hall := docCh_joinPar _ hBs
  refine ⟨?_, ?_, ?_⟩
  · cases hcn : (docOf before para after).contains '<' with
    | false => rfl
    | true => exact absurd (List.all_eq_true.mp hall _ (List.contains_iff_mem.1 hcn)) (by decide)
  · rw [Normalize.isBlankDoc_eq_all]
    cases hbk : (docOf before para after).all isSpace with
    | false => rfl
    | true =>
      exfalso
      obtain ⟨c, r, e, _, hs⟩ := hp.shape
      have hmem : c ∈ docOf before para after := by
        have h1 : c ∈ para := by rw [e]; simp
        have : ∀ (Bs : List Str), para ∈ Bs → c ∈ joinPar Bs := by
          intro Bs
          induction Bs with
          | nil => simp
          | cons B r ih =>
            intro hm
            cases r with
            | nil => simp at hm; subst hm; simpa [joinPar_single] using h1
            | cons B2 r =>
              rw [joinPar_cons_cons]
              simp only [List.mem_cons] at hm
              rcases hm with rfl | hm
              · simp [h1]
              · simp only [List.mem_append, List.mem_cons]
                exact Or.inr (Or.inr (Or.inr (ih (by simpa using hm))))
        exact this _ (by simp)
      have := List.all_eq_true.mp hbk c hmem
      rw [hs] at this; exact Bool.noConfusion this
  · unfold docOf
    rw [hprep]
    simp only [Block.parseDocument, Block.parseDocumentWith, Block.parseChunk, hsplit, Block.fuelFor]
    have hlen := joinPar_length _ (fun B hB => (hBs B hB).ne_nil)
    simp only [List.length_append, List.length_map, List.length_cons] at hlen
    obtain ⟨f, hf⟩ : ∃ f, 2 * (joinPar (before.map DefSpec.src ++ para :: after.map DefSpec.src) ++ ['\n', '\n']).length + 10 =
        f + before.length + after.length + 2 := by
      refine ⟨2 * (joinPar (before.map DefSpec.src ++ para :: after.map DefSpec.src) ++ ['\n', '\n']).length + 10 -
        (before.length + after.length + 2), ?_⟩
      simp only [List.length_append, List.length_cons, List.length_nil]
      omega
    rw [hf]
    exact parseBlocks_docOf cfg.tab htab before after hb ha hp f


/-! ### back end: a paragraph whose children are inline leaf elements -/

/-- `<p>pre‹k₁›‹k₂›…</p>`; the tails of the children are part of them -/
def paraOf (pre : Str) (kids : List Node) : Node :=
  { Node.el "p" with text := optStr pre, children := kids }

/-- an inline element without children that the tree processors leave alone -/
structure InlKid (k : Node) : Prop where
  leaf : k.children = []
  inl : TreeProc.isBlockLevel TreeProc.defaultBlockLevel k.tag = false
  nobr : TreeProc.tagIs k "br" = false
  nopre : TreeProc.tagIs k "pre" = false
  ta : k.textAtomic = false
  tla : k.tailAtomic = false
  notext : ∀ s, k.text = some s → TreeProc.STX ∉ s
  notail : ∀ s, k.tail = some s → TreeProc.STX ∉ s
  noattr : ∀ kv ∈ k.attrs, TreeProc.STX ∉ kv.2

theorem prettifyKids_inl (kids : List Node) (h : ∀ k ∈ kids, InlKid k) :
    TreeProc.prettifyKids TreeProc.defaultBlockLevel kids = kids := by
  induction kids with
  | nil => rfl
  | cons k r ih =>
    simp only [TreeProc.prettifyKids, (h k (by simp)).inl, Bool.false_eq_true, if_false,
      ih (fun x hx => h x (by simp [hx]))]

theorem mapTree_leaf (f : Node → Node) (k : Node) (hk : k.children = []) : TreeProc.mapTree f k = f k := by
  obtain ⟨tag, attrs, text, ta, children, tail, tla⟩ := k
  simp only at hk; subst hk
  simp [TreeProc.mapTree, TreeProc.mapKids]

theorem mapKids_rules_inl (kids : List Node) (h : ∀ k ∈ kids, InlKid k) :
    TreeProc.mapKids TreeProc.preRule (TreeProc.mapKids TreeProc.brRule kids) = kids := by
  induction kids with
  | nil => rfl
  | cons k r ih =>
    have hk := h k (by simp)
    have e1 : TreeProc.brRule k = k := by simp [TreeProc.brRule, hk.nobr]
    have e2 : TreeProc.preRule k = k := by simp [TreeProc.preRule, hk.nopre]
    simp only [TreeProc.mapKids, mapTree_leaf _ k hk.leaf, e1, e2, ih (fun x hx => h x (by simp [hx]))]

/-- the document tree after `PrettifyTreeprocessor` -/
def prettyParaDoc (pre : Str) (kids : List Node) : Node :=
  { tag := .name "div".toList, text := some ['\n'],
    children := [{ tag := .name "p".toList, text := optStr pre, children := kids, tail := some ['\n'] }],
    tail := some ['\n'] }

theorem prettify_paraOf (pre : Str) (kids : List Node) (h : ∀ k ∈ kids, InlKid k) :
    TreeProc.prettify ((Node.el "div").append (paraOf pre kids)) = prettyParaDoc pre kids := by
  have h1 : TreeProc.isBlockLevel TreeProc.defaultBlockLevel (.name "div".toList) = true := by decide
  have h2 : TreeProc.isBlockLevel TreeProc.defaultBlockLevel (.name "p".toList) = true := by decide
  have h3 : (Tag.name "div".toList == Tag.name "code".toList) = false := by decide
  have h4 : (Tag.name "div".toList == Tag.name "pre".toList) = false := by decide
  have h5 : (Tag.name "p".toList == Tag.name "code".toList) = false := by decide
  have h6 : (Tag.name "p".toList == Tag.name "pre".toList) = false := by decide
  have h7 : (Tag.name "div".toList == Tag.name "br".toList) = false := by decide
  have h8 : (Tag.name "p".toList == Tag.name "br".toList) = false := by decide
  have hpk := prettifyKids_inl kids h
  have hmk := mapKids_rules_inl kids h
  cases kids with
  | nil =>
    simp only [TreeProc.prettify, Node.append, Node.el, paraOf, List.nil_append, TreeProc.prettifyETree,
      TreeProc.prettifyKids, h1, h2, h3, h4, h5, h6, TreeProc.blankOrNone, Node.truthy,
      Option.getD_some, Option.getD_none, isBlank, List.all_nil, Bool.not_false, Bool.not_true, Bool.and_true,
      Bool.or_true, Bool.true_and, if_true, Bool.false_eq_true, if_false, Bool.and_false,
      TreeProc.mapTree, TreeProc.mapKids, TreeProc.brRule, TreeProc.preRule, TreeProc.tagIs, h7, h8,
      prettyParaDoc]
  | cons c r =>
    have hc := (h c (by simp)).inl
    simp only [TreeProc.prettify, Node.append, Node.el, paraOf, List.nil_append, TreeProc.prettifyETree,
      TreeProc.prettifyKids, h1, h2, h3, h4, h5, h6, TreeProc.blankOrNone, Node.truthy, hc,
      Option.getD_some, Option.getD_none, isBlank, List.all_nil, Bool.not_false, Bool.not_true, Bool.and_true,
      Bool.or_true, Bool.true_and, if_true, Bool.false_eq_true, if_false, Bool.and_false,
      TreeProc.mapTree, TreeProc.mapKids, TreeProc.brRule, TreeProc.preRule, TreeProc.tagIs, h7, h8,
      prettyParaDoc] at hpk hmk ⊢
    rw [(List.cons.inj hpk).2, hmk]

theorem unescapeTree_inl (k : Node) (h : InlKid k) : TreeProc.unescapeTree k = some k := by
  obtain ⟨tag, attrs, text, ta, children, tail, tla⟩ := k
  have hl := h.leaf; have h1 := h.ta; have h2 := h.tla
  simp only at hl h1 h2
  subst hl h1 h2
  have u1 : ∀ s, text = some s → TreeProc.unescapeText 0 s = some s := fun s hs => unescapeText_id s (h.notext s hs)
  have u2 : ∀ s, tail = some s → TreeProc.unescapeText 0 s = some s := fun s hs => unescapeText_id s (h.notail s hs)
  have ua := unescAttrs_id attrs h.noattr
  rcases text with _ | _ | ⟨x, y⟩ <;> rcases tail with _ | _ | ⟨x', y'⟩ <;>
    simp [TreeProc.unescapeTree, TreeProc.unescapeKids, ua, u1, u2, Node.truthy]

theorem unescapeKids_inl (kids : List Node) (h : ∀ k ∈ kids, InlKid k) : TreeProc.unescapeKids kids = some kids := by
  induction kids with
  | nil => rfl
  | cons k r ih =>
    simp [TreeProc.unescapeKids, unescapeTree_inl k (h k (by simp)), ih (fun x hx => h x (by simp [hx]))]

theorem unescapeTree_paraDoc (pre : Str) (kids : List Node) (h : ∀ k ∈ kids, InlKid k) (hpre : TreeProc.STX ∉ pre) :
    TreeProc.unescapeTree (prettyParaDoc pre kids) = some (prettyParaDoc pre kids) := by
  have hnl : TreeProc.unescapeText 0 ['\n'] = some ['\n'] := by decide
  have u1 := unescapeText_id pre hpre
  have uk := unescapeKids_inl kids h
  cases pre <;>
    simp [prettyParaDoc, optStr, TreeProc.unescapeTree, TreeProc.unescapeKids, TreeProc.unescAttrs, hnl, u1, uk,
      Node.truthy]


theorem element_nonempty (fmt : Ser.Fmt) (t : Str) (attrs : List (Str × Str)) (text : Option Str) (kids : Str)
    (h1 : Ser.isEmptyTag t = false) (h2 : Ser.isRawTextTag t = false) :
    Ser.element fmt t none attrs text kids =
      '<' :: t ++ Ser.writeAttrs fmt (Ser.sortAttrs attrs) ++ ['>'] ++
        (if Node.truthy text then Ser.escCdata (text.getD []) else []) ++ kids ++ ("</".toList ++ t ++ ['>']) := by
  simp [Ser.element, h1, h2]

theorem serialize_paraDoc (fmt : Ser.Fmt) (pre : Str) (kids : List Node) (hpre : PlainText pre = true) :
    Ser.serialize fmt (prettyParaDoc pre kids) =
      "<div>".toList ++ ('\n' :: "<p>".toList ++ (pre ++ Ser.serializeList fmt kids) ++ "</p>".toList ++ ['\n']) ++
        "</div>\n".toList := by
  have h1 : Ser.isEmptyTag "div".toList = false := by decide
  have h2 : Ser.isEmptyTag "p".toList = false := by decide
  have h3 : Ser.isRawTextTag "div".toList = false := by decide
  have h4 : Ser.isRawTextTag "p".toList = false := by decide
  have h5 : Ser.escCdata ['\n'] = ['\n'] := by decide
  unfold prettyParaDoc
  rw [serialize_name, element_nonempty _ _ _ _ _ h1 h3, serializeList_one, serialize_name,
    element_nonempty _ _ _ _ _ h2 h4, txt_optStr pre hpre]
  generalize Ser.serializeList fmt kids = K
  simp [Ser.sortAttrs, Ser.writeAttrs, h5, Node.truthy, List.append_assoc]

/-- **Back end.**  From the result of the inline processor to the output of `convert`. -/
theorem convert_of_run (cfg : Pipeline.Cfg) (hbl : cfg.blockLevel = TreeProc.defaultBlockLevel) (htab : 0 < cfg.tab)
    (before after : List DefSpec) (hb : ∀ d ∈ before, d.ok cfg.tab = true) (ha : ∀ d ∈ after, d.ok cfg.tab = true)
    {para : Str} (hp : ParaOK para) (pre : Str) (kids : List Node) (kidsHtml : Str) (st : St)
    (hrun : Inline.run { esc := cfg.esc, refs := ((before ++ after).map DefSpec.entry).reverse }
      ((Node.el "div").append (Block.mkText "p" para)) = some ((Node.el "div").append (paraOf pre kids), st))
    (hst : st.html = []) (hk : ∀ k ∈ kids, InlKid k) (hpre : PlainText pre = true)
    (hser : Ser.serializeList cfg.fmt kids = kidsHtml) (hstx : Post.STX ∉ kidsHtml) :
    Pipeline.convert cfg (docOf before para after) = .ok ("<p>".toList ++ (pre ++ kidsHtml) ++ "</p>".toList) := by
  obtain ⟨h1, h2, h3⟩ := front_doc cfg htab before after hb ha hp
  have h6 := prettify_paraOf pre kids hk
  have h7 := unescapeTree_paraDoc pre kids hk (plain_no_stx hpre)
  have h8 := serialize_paraDoc cfg.fmt pre kids hpre
  rw [hser] at h8
  have h9 := finish_linkDoc cfg.blockLevel (pre ++ kidsHtml) (by
    simp only [List.mem_append, not_or]; exact ⟨plain_no_stx hpre, hstx⟩)
  simp only [Pipeline.convert, Pipeline.tree, h1, h2, Bool.false_eq_true, if_false, h3, hrun, hbl, h6, h7, h8, hst]
  rw [hbl] at h9
  simp only [h9]


/-! ### looking up among the definitions of the document -/

theorem lookup_find {refs : Block.Refs} {key url : Str} {t : Option Str}
    (h : Block.lookupRef refs key = some (url, t)) :
    ∃ k, refs.reverse.find? (fun x => x.1 = key) = some (k, url, t) := by
  unfold Block.lookupRef at h
  cases hf : refs.reverse.find? (fun r => r.1 = key) with
  | none => simp [hf] at h
  | some x =>
    obtain ⟨k, v⟩ := x
    simp only [hf, Option.map_some, Option.some.injEq] at h
    exact ⟨k, by rw [h]⟩

theorem lookupRef_some_mem (refs : Block.Refs) (id : Str) (v : Str × Option Str)
    (h : Block.lookupRef refs id = some v) : (id, v) ∈ refs := by
  unfold Block.lookupRef at h
  simp only [Option.map_eq_some_iff] at h
  obtain ⟨e, he, rfl⟩ := h
  have hm := List.mem_of_find?_eq_some he
  have hp := List.find?_some he
  simp only [decide_eq_true_eq] at hp
  rw [← hp]
  simpa using hm

theorem inl_a : TreeProc.isBlockLevel TreeProc.defaultBlockLevel (.name ['a']) = false ∧
    (Tag.name ['a'] == Tag.name "br".toList) = false ∧ (Tag.name ['a'] == Tag.name "pre".toList) = false := by decide

theorem inl_img : TreeProc.isBlockLevel TreeProc.defaultBlockLevel (.name "img".toList) = false ∧
    (Tag.name "img".toList == Tag.name "br".toList) = false ∧
    (Tag.name "img".toList == Tag.name "pre".toList) = false := by decide

/-- a looked-up destination and title come from one of the definitions: ordinary characters -/
theorem lookup_docCh {tab : Nat} {defs : List DefSpec} (hd : ∀ d ∈ defs, d.ok tab = true) {key url : Str}
    {t : Option Str} (h : Block.lookupRef (defs.map DefSpec.entry) key = some (url, t)) :
    url.all docCh = true ∧ ∀ s, t = some s → s.all docCh = true := by
  have hm := lookupRef_some_mem _ _ _ h
  simp only [List.mem_map] at hm
  obtain ⟨d, hdm, he⟩ := hm
  obtain ⟨_, _, _, _, _, hc⟩ := DefSpec.ok_facts (hd d hdm)
  simp only [DefSpec.entry, defEntry, Prod.mk.injEq] at he
  obtain ⟨_, rfl, rfl⟩ := he
  refine ⟨?_, storedTitle_docCh hc⟩
  simp only [DefChars, Bool.and_eq_true] at hc; exact hc.1.2

/-! ### the `<a>` and `<img>` elements as children of the paragraph -/

theorem inlKid_link (url : Str) (t : Option Str) (text post : Str) (htext : PlainText text = true)
    (hpost : PlainText post = true) (hu : url.all docCh = true) (ht : ∀ s, t = some s → s.all docCh = true) :
    InlKid { linkEl url t text with tail := optStr post } := by
  rw [linkEl_tail_eq]
  refine ⟨rfl, inl_a.1, inl_a.2.1, inl_a.2.2, rfl, rfl, ?_, ?_, ?_⟩
  · intro s hs; cases hs; exact plain_no_stx htext
  · intro s hs
    cases post with
    | nil => simp [optStr] at hs
    | cons c r => simp [optStr] at hs; subst hs; exact plain_no_stx hpost
  · intro kv hkv
    simp only [List.mem_cons] at hkv
    rcases hkv with rfl | hkv
    · exact docCh_ne_stx hu
    · split at hkv
      · simp only [List.mem_singleton] at hkv; subst hkv
        cases t with
        | none => simp [Node.truthy] at *
        | some s => exact docCh_ne_stx (ht s rfl)
      · simp at hkv

theorem imgEl_eq (url : Str) (title : Option Str) (alt : Str) :
    imgEl url title alt =
      { tag := .name "img".toList,
        attrs := ("src".toList, url) :: (if Node.truthy title then [("title".toList, title.getD [])] else []) ++
          [("alt".toList, alt)] } := by
  unfold imgEl
  split <;> simp [Node.setAttr, mkEl]

theorem inlKid_img (url : Str) (t : Option Str) (alt post : Str) (halt : PlainText alt = true)
    (hpost : PlainText post = true) (hu : url.all docCh = true) (ht : ∀ s, t = some s → s.all docCh = true) :
    InlKid { imgEl url t alt with tail := optStr post } := by
  rw [imgEl_eq]
  refine ⟨rfl, inl_img.1, inl_img.2.1, inl_img.2.2, rfl, rfl, ?_, ?_, ?_⟩
  · intro s hs; cases hs
  · intro s hs
    cases post with
    | nil => simp [optStr] at hs
    | cons c r => simp [optStr] at hs; subst hs; exact plain_no_stx hpost
  · intro kv hkv
    simp only [List.cons_append, List.mem_cons, List.mem_append, List.not_mem_nil, or_false] at hkv
    rcases hkv with rfl | hkv | rfl
    · exact docCh_ne_stx hu
    · split at hkv
      · simp only [List.mem_singleton] at hkv; subst hkv
        cases t with
        | none => simp [Node.truthy] at *
        | some s => exact docCh_ne_stx (ht s rfl)
      · simp at hkv
    · exact plain_no_stx halt


/-! ### serializing the elements, in both output formats -/

/-- one attribute as `_serialize_html` writes it: ` k="v"`; in the html format a *boolean* attribute (the escaped
    value equals the key) is written as ` v` alone -/
def attrHtml (fmt : Ser.Fmt) (k v : Str) : Str :=
  if k = Ser.escAttrHtml v && fmt = .html then ' ' :: Ser.escAttrHtml v
  else ' ' :: k ++ "=\"".toList ++ Ser.escAttrHtml v ++ ['"']

/-- `<a href="…" title="…">text</a>` in the given format -/
def linkHtmlF (fmt : Ser.Fmt) (url : Str) (title : Option Str) (text : Str) : Str :=
  "<a".toList ++ attrHtml fmt "href".toList url ++
    (if Node.truthy title then attrHtml fmt "title".toList (title.getD []) else []) ++ ['>'] ++ text ++ "</a>".toList

/-- `<img alt="…" src="…" title="…" />` (xhtml) / `<img …>` (html): attributes sorted by name -/
def imgHtmlF (fmt : Ser.Fmt) (url : Str) (title : Option Str) (alt : Str) : Str :=
  "<img".toList ++ attrHtml fmt "alt".toList alt ++ attrHtml fmt "src".toList url ++
    (if Node.truthy title then attrHtml fmt "title".toList (title.getD []) else []) ++
    (if fmt = .xhtml then " />".toList else ['>'])

theorem writeAttrs_cons (fmt : Ser.Fmt) (k v : Str) (r : List (Str × Str)) :
    Ser.writeAttrs fmt ((k, v) :: r) = attrHtml fmt k v ++ Ser.writeAttrs fmt r := by
  simp only [Ser.writeAttrs, attrHtml]

theorem serialize_linkF (fmt : Ser.Fmt) (post url : Str) (title : Option Str) (text : Str)
    (htext : PlainText text = true) (hpost : PlainText post = true) :
    Ser.serialize fmt { linkEl url title text with tail := optStr post } = linkHtmlF fmt url title text ++ post := by
  have h2a : Ser.isEmptyTag ['a'] = false := by decide
  have h4a : Ser.isRawTextTag ['a'] = false := by decide
  rw [linkEl_tail_eq, serialize_name, element_nonempty _ _ _ _ _ h2a h4a, sortAttrs_link,
    txt_some text htext, txt_optStr post hpost, serializeList_nil, writeAttrs_cons]
  unfold linkHtmlF
  split
  · simp only [Ser.writeAttrs, List.append_assoc, List.append_nil]; rfl
  · simp only [Ser.writeAttrs, List.append_assoc, List.append_nil]; rfl

theorem sortAttrs_img (url alt : Str) (title : Option Str) :
    Ser.sortAttrs (("src".toList, url) :: (if Node.truthy title then [("title".toList, title.getD [])] else []) ++
        [("alt".toList, alt)]) =
      ("alt".toList, alt) :: ("src".toList, url) ::
        (if Node.truthy title then [("title".toList, title.getD [])] else []) := by
  have h1 : Ser.strLt "src".toList "alt".toList = false := by decide
  have h2 : Ser.strLt "title".toList "alt".toList = false := by decide
  have h3 : Ser.strLt "src".toList "title".toList = true := by decide
  split
  · simp only [Ser.sortAttrs, List.cons_append, List.nil_append, List.foldr, Ser.insAttr, h1, h2, h3,
      Bool.false_eq_true, if_false, if_true]
  · simp only [Ser.sortAttrs, List.cons_append, List.nil_append, List.foldr, Ser.insAttr, h1,
      Bool.false_eq_true, if_false]

theorem serialize_imgF (fmt : Ser.Fmt) (post url : Str) (title : Option Str) (alt : Str)
    (hpost : PlainText post = true) :
    Ser.serialize fmt { imgEl url title alt with tail := optStr post } = imgHtmlF fmt url title alt ++ post := by
  have h2a : Ser.isEmptyTag "img".toList = true := by decide
  have e : ({ imgEl url title alt with tail := optStr post } : Node) =
      ⟨.name "img".toList, ("src".toList, url) :: (if Node.truthy title then [("title".toList, title.getD [])] else []) ++
          [("alt".toList, alt)], none, false, [], optStr post, false⟩ := by
    rw [imgEl_eq]
  have htn : Node.truthy (none : Option Str) = false := rfl
  rw [e, serialize_name, txt_optStr post hpost, serializeList_nil]
  unfold Ser.element
  rw [sortAttrs_img]
  unfold imgHtmlF
  cases fmt
  · simp only [h2a, htn, writeAttrs_cons, Bool.and_true, decide_false, Bool.false_eq_true, if_false, if_true,
      reduceCtorEq, List.append_nil]
    split <;> simp only [Ser.writeAttrs, List.append_assoc, List.append_nil] <;> rfl
  · simp only [h2a, writeAttrs_cons, Bool.and_true, decide_true, if_true]
    split <;> simp only [Ser.writeAttrs, List.append_assoc, List.append_nil] <;> rfl

/-- when no attribute is boolean, the html format writes the link like the xhtml format -/
theorem linkHtmlF_eq (fmt : Ser.Fmt) (url : Str) (title : Option Str) (text : Str)
    (h : fmt = .xhtml ∨ ("href".toList ≠ Ser.escAttrHtml url ∧
      ∀ s, title = some s → "title".toList ≠ Ser.escAttrHtml s)) :
    linkHtmlF fmt url title text = linkHtml url title text := by
  have ha : ∀ k v, (fmt = .xhtml ∨ k ≠ Ser.escAttrHtml v) →
      attrHtml fmt k v = ' ' :: k ++ "=\"".toList ++ Ser.escAttrHtml v ++ ['"'] := by
    intro k v hkv
    unfold attrHtml
    rcases hkv with rfl | hne
    · simp
    · simp [hne]
  unfold linkHtmlF linkHtml titleAttr
  rw [ha _ _ (h.imp id (·.1))]
  split
  · cases title with
    | none => simp [Node.truthy] at *
    | some s =>
      simp only [Option.getD_some]
      rw [ha _ _ (h.imp id (fun x => x.2 s rfl))]
      simp only [List.append_assoc, List.cons_append, List.nil_append]; rfl
  · simp only [List.append_assoc, List.cons_append, List.nil_append, List.append_nil]; rfl


/-! ### `pre[text][label]post` (also `[text][]`), any number of definitions, both formats -/

theorem paraOK_refSrc {pre text sp label post : Str} (hpre : PlainText pre = true) (htext : PlainText text = true)
    (hpost : PlainText post = true) (hstart : ParaStartOK pre = true) (hsp : sp = [] ∨ sp = [' '])
    (hlnl : '\n' ∉ label) (hlc : label.all docCh = true) : ParaOK (refSrc pre text sp label post) :=
  ⟨refSrc_shape hpre hstart, refSrc_no_nl hpre htext hpost hsp hlnl, refSrc_docCh hpre htext hpost hsp hlc,
    refMatchAt_para hpre htext hstart hsp⟩

theorem stx_not_mem_attrHtml (fmt : Ser.Fmt) (k v : Str) (hk : Post.STX ∉ k) (hv : Post.STX ∉ v) :
    Post.STX ∉ attrHtml fmt k v := by
  have h1 : Post.STX ∉ Ser.escAttrHtml v := by rw [Ser.onepass_attr']; exact stx_not_mem_esc1 _ _ _ hv
  unfold attrHtml
  split
  · simp only [List.mem_cons, not_or]; exact ⟨by decide, h1⟩
  · have e : ' ' :: k ++ "=\"".toList ++ Ser.escAttrHtml v ++ ['"'] =
        [' '] ++ k ++ "=\"".toList ++ Ser.escAttrHtml v ++ ['"'] := by simp
    rw [e]
    simp only [List.mem_append, not_or]
    exact ⟨⟨⟨⟨by decide, hk⟩, by decide⟩, h1⟩, by decide⟩

theorem stx_not_mem_linkHtmlF (fmt : Ser.Fmt) (url : Str) (title : Option Str) (text : Str) (hu : Post.STX ∉ url)
    (ht : ∀ t, title = some t → Post.STX ∉ t) (htext : Post.STX ∉ text) :
    Post.STX ∉ linkHtmlF fmt url title text := by
  have h1 := stx_not_mem_attrHtml fmt "href".toList url (by decide) hu
  have h2 : Post.STX ∉ (if Node.truthy title then attrHtml fmt "title".toList (title.getD []) else []) := by
    split
    · cases title with
      | none => simp [Node.truthy] at *
      | some t => exact stx_not_mem_attrHtml fmt _ _ (by decide) (ht t rfl)
    · simp
  unfold linkHtmlF
  simp only [List.mem_append, not_or]
  exact ⟨⟨⟨⟨⟨by decide, h1⟩, h2⟩, by simp; decide⟩, htext⟩, by decide⟩

theorem stx_not_mem_imgHtmlF (fmt : Ser.Fmt) (url : Str) (title : Option Str) (alt : Str) (hu : Post.STX ∉ url)
    (ht : ∀ t, title = some t → Post.STX ∉ t) (halt : Post.STX ∉ alt) :
    Post.STX ∉ imgHtmlF fmt url title alt := by
  have h0 := stx_not_mem_attrHtml fmt "alt".toList alt (by decide) halt
  have h1 := stx_not_mem_attrHtml fmt "src".toList url (by decide) hu
  have h2 : Post.STX ∉ (if Node.truthy title then attrHtml fmt "title".toList (title.getD []) else []) := by
    split
    · cases title with
      | none => simp [Node.truthy] at *
      | some t => exact stx_not_mem_attrHtml fmt _ _ (by decide) (ht t rfl)
    · simp
  unfold imgHtmlF
  simp only [List.mem_append, not_or]
  refine ⟨⟨⟨⟨by decide, h0⟩, h1⟩, h2⟩, ?_⟩
  split <;> decide

/-- **`convert`** on: definitions, the paragraph `pre[text][label]post`, definitions — whenever the key of the place
    of use is looked up to `(url, title)` among the definitions of the document -/
theorem convert_link_full (cfg : Pipeline.Cfg) (hbl : cfg.blockLevel = TreeProc.defaultBlockLevel)
    (htab : 0 < cfg.tab) (before after : List DefSpec) (hb : ∀ d ∈ before, d.ok cfg.tab = true)
    (ha : ∀ d ∈ after, d.ok cfg.tab = true) (pre text sp label post : Str)
    (hpre : PlainText pre = true) (htext : PlainText text = true) (hpost : PlainText post = true)
    (hstart : ParaStartOK pre = true) (hsp : sp = [] ∨ sp = [' ']) (hul : UseLabelOK label = true)
    (hlnl : '\n' ∉ label) (hlc : label.all docCh = true) (url : Str) (title : Option Str)
    (hlook : Block.lookupRef ((before ++ after).map DefSpec.entry) (useKey text label) = some (url, title)) :
    Pipeline.convert cfg (docOf before (refSrc pre text sp label post) after) =
      .ok ("<p>".toList ++ (pre ++ (linkHtmlF cfg.fmt url title text ++ post)) ++ "</p>".toList) := by
  have hspOK : SpOK sp := by
    rcases hsp with rfl | rfl
    · exact Or.inl rfl
    · exact Or.inr ⟨' ', rfl, by decide⟩
  obtain ⟨k, hfind⟩ := lookup_find hlook
  obtain ⟨hu, ht⟩ := lookup_docCh (tab := cfg.tab) (defs := before ++ after)
    (fun d hd => by rcases List.mem_append.1 hd with h | h; exact hb d h; exact ha d h) hlook
  have hrun := run_ref_found { esc := cfg.esc, refs := ((before ++ after).map DefSpec.entry).reverse } pre text sp
    label post hpre htext hpost hspOK hul k url title hfind
  refine convert_of_run cfg hbl htab before after hb ha (paraOK_refSrc hpre htext hpost hstart hsp hlnl hlc) pre
    [{ linkEl url title text with tail := optStr post }] _ _ hrun rfl ?_ hpre ?_ ?_
  · intro x hx; simp only [List.mem_singleton] at hx; subst hx
    exact inlKid_link url title text post htext hpost hu ht
  · rw [serializeList_one, serialize_linkF cfg.fmt post url title text htext hpost]
  · simp only [List.mem_append, not_or]
    exact ⟨stx_not_mem_linkHtmlF _ _ _ _ (docCh_ne_stx hu) (fun t h => docCh_ne_stx (ht t h)) (plain_no_stx htext),
      plain_no_stx hpost⟩


/-! ### `pre![alt][label]post` (also `![alt][]`) -/

/-- a paragraph text `pre ++ c :: rest` where `pre` is plain and `c` is a plain block character other than `[`:
    it starts visibly and is not a definition -/
theorem paraOK_of_parts (pre : Str) (c : Char) (rest : Str) (hpre : PlainText pre = true)
    (hstart : ParaStartOK pre = true) (hc : Block.plainCh c = true) (hcs : isSpace c = false) (hcb : c ≠ '[')
    (hnl : '\n' ∉ pre ++ c :: rest) (hch : (pre ++ c :: rest).all docCh = true) : ParaOK (pre ++ c :: rest) := by
  refine ⟨?_, hnl, hch, ?_⟩
  · cases pre with
    | nil => exact ⟨c, rest, rfl, hc, hcs⟩
    | cons d pre' =>
      obtain ⟨c', r', e, h1, h2⟩ := refSrc_shape (text := []) (sp := []) (label := []) (post := []) hpre hstart
      simp only [refSrc, List.cons_append] at e
      obtain ⟨rfl, _⟩ := List.cons.inj e
      exact ⟨d, pre' ++ c :: rest, rfl, h1, h2⟩
  · cases pre with
    | nil =>
      have hsp : c ≠ ' ' := by intro e; subst e; simp [Block.plainCh] at hc
      simp [Block.refMatchAt, countPrefix, hsp, hcb]
    | cons d pre' =>
      have hd : inlPlain d = true := by
        simp only [PlainText, List.all_cons, Bool.and_eq_true] at hpre; exact hpre.1
      simp only [ParaStartOK, Bool.and_eq_true, bne_iff_ne, ne_eq, Bool.not_eq_true'] at hstart
      have hdb : d ≠ '[' := by intro e; subst e; exact absurd hd (by decide)
      simp [Block.refMatchAt, countPrefix, hstart.1, hdb]

theorem paraOK_imgSrc {pre alt sp label post : Str} (hpre : PlainText pre = true) (halt : PlainText alt = true)
    (hpost : PlainText post = true) (hstart : ParaStartOK pre = true) (hsp : sp = [] ∨ sp = [' '])
    (hlnl : '\n' ∉ label) (hlc : label.all docCh = true) : ParaOK (imgSrc pre alt sp label post) := by
  have e : imgSrc pre alt sp label post = pre ++ '!' :: ('[' :: alt ++ [']'] ++ sp ++ ['['] ++ label ++ [']'] ++ post) := by
    simp [imgSrc, List.append_assoc]
  have hs1 : '\n' ∉ sp := by rcases hsp with rfl | rfl <;> simp
  have hs2 : sp.all docCh = true := by rcases hsp with rfl | rfl <;> decide
  rw [e]
  apply paraOK_of_parts pre '!' _ hpre hstart (by decide) (by decide) (by decide)
  · simp only [List.mem_append, List.mem_cons, List.not_mem_nil, or_false, not_or]
    exact ⟨plain_not_mem hpre (by decide), by decide,
      ⟨⟨⟨⟨⟨⟨by decide, plain_not_mem halt (by decide)⟩, by decide⟩, hs1⟩, by decide⟩, hlnl⟩, by decide⟩,
      plain_not_mem hpost (by decide)⟩
  · simp only [List.all_append, List.all_cons, List.all_nil, plain_docCh hpre, plain_docCh halt, plain_docCh hpost,
      hs2, hlc, Bool.and_true, Bool.true_and]
    decide

theorem convert_img_full (cfg : Pipeline.Cfg) (hbl : cfg.blockLevel = TreeProc.defaultBlockLevel)
    (htab : 0 < cfg.tab) (before after : List DefSpec) (hb : ∀ d ∈ before, d.ok cfg.tab = true)
    (ha : ∀ d ∈ after, d.ok cfg.tab = true) (pre alt sp label post : Str)
    (hpre : PlainText pre = true) (halt : PlainText alt = true) (hpost : PlainText post = true)
    (hstart : ParaStartOK pre = true) (hsp : sp = [] ∨ sp = [' ']) (hil : ImgLabelOK label = true)
    (hlnl : '\n' ∉ label) (hlc : label.all docCh = true) (url : Str) (title : Option Str)
    (hlook : Block.lookupRef ((before ++ after).map DefSpec.entry) (useKey alt label) = some (url, title)) :
    Pipeline.convert cfg (docOf before (imgSrc pre alt sp label post) after) =
      .ok ("<p>".toList ++ (pre ++ (imgHtmlF cfg.fmt url title alt ++ post)) ++ "</p>".toList) := by
  have hspOK : SpOK sp := by
    rcases hsp with rfl | rfl
    · exact Or.inl rfl
    · exact Or.inr ⟨' ', rfl, by decide⟩
  obtain ⟨k, hfind⟩ := lookup_find hlook
  obtain ⟨hu, ht⟩ := lookup_docCh (tab := cfg.tab) (defs := before ++ after)
    (fun d hd => by rcases List.mem_append.1 hd with h | h; exact hb d h; exact ha d h) hlook
  have hrun := run_img_found { esc := cfg.esc, refs := ((before ++ after).map DefSpec.entry).reverse } pre alt sp
    label post hpre halt hpost hspOK hil k url title hfind
  refine convert_of_run cfg hbl htab before after hb ha (paraOK_imgSrc hpre halt hpost hstart hsp hlnl hlc) pre
    [{ imgEl url title alt with tail := optStr post }] _ _ hrun rfl ?_ hpre ?_ ?_
  · intro x hx; simp only [List.mem_singleton] at hx; subst hx
    exact inlKid_img url title alt post halt hpost hu ht
  · rw [serializeList_one, serialize_imgF cfg.fmt post url title alt hpost]
  · simp only [List.mem_append, not_or]
    exact ⟨stx_not_mem_imgHtmlF _ _ _ _ (docCh_ne_stx hu) (fun t h => docCh_ne_stx (ht t h)) (plain_no_stx halt),
      plain_no_stx hpost⟩


/-! ### the short forms `pre[text]post`, `pre![alt]post` -/

def shortSrc (pre text post : Str) : Str := pre ++ ['['] ++ text ++ [']'] ++ post
def shortImgSrc (pre alt post : Str) : Str := pre ++ ['!', '['] ++ alt ++ [']'] ++ post

/-- `handleMatch` of the short reference patterns at `[t]` when `normUse t` is defined -/
theorem linkHandle_short_found (cfg : Inline.Cfg) (stash : List StashItem) (pi : Nat) (hpi : pi = 6 ∨ pi = 7)
    (D A t rest : Str) (m : Nat) (hD : D = A ++ t ++ ']' :: rest) (h1 : '[' ∉ t) (h2 : ']' ∉ t) (h3 : STX ∉ t)
    (k url : Str) (title : Option Str) (hfind : cfg.refs.find? (fun x => x.1 = normUse t) = some (k, url, title)) :
    linkHandle cfg stash pi D m A.length =
      some ⟨.el (if pi = 7 then imgEl url title t else linkEl url title t), m, ((A.length + t.length + 1 : Nat) : Int)⟩ := by
  subst hD
  have hg := getText_plain A t rest h1 h2
  have hp34 : (decide (pi = 3) || decide (pi = 4)) = false := by rcases hpi with rfl | rfl <;> rfl
  have hp67 : (decide (pi = 6) || decide (pi = 7)) = true := by rcases hpi with rfl | rfl <;> rfl
  unfold linkHandle
  rw [hg]
  simp only [Bool.not_true, Bool.false_eq_true, if_false, hp34, hp67, if_true, wsClean_lower, hfind]
  rcases hpi with rfl | rfl
  · simp [linkEl]
  · simp [imgEl, unescape_id stash t h3]

/-- `handleMatch` of a reference pattern rejects `[t]` followed by plain text (no `[label]`) -/
theorem linkHandle_ref_reject' (cfg : Inline.Cfg) (stash : List StashItem) (pi : Nat) (hpi : pi = 2 ∨ pi = 5)
    (D A t post : Str) (m : Nat) (hD : D = A ++ t ++ ']' :: post) (h1 : '[' ∉ t) (h2 : ']' ∉ t) (hp : '[' ∉ post) :
    linkHandle cfg stash pi D m A.length = none := by
  subst hD
  have hg := getText_plain A t post h1 h2
  have he := evalId_plain_none (A ++ t ++ ']' :: post) (A.length + t.length + 1) t post (by
    have : A ++ t ++ ']' :: post = (A ++ t ++ [']']) ++ post := by simp
    rw [this]; apply List.drop_left'; simp; omega) hp
  have hp34 : (decide (pi = 3) || decide (pi = 4)) = false := by rcases hpi with rfl | rfl <;> rfl
  have hp67 : (decide (pi = 6) || decide (pi = 7)) = false := by rcases hpi with rfl | rfl <;> rfl
  unfold linkHandle
  rw [hg]
  simp only [Bool.not_true, Bool.false_eq_true, if_false, hp34, hp67, he]

theorem shortSrc_not_mem {pre text post : Str} (hpre : PlainText pre = true) (htext : PlainText text = true)
    (hpost : PlainText post = true) {x : Char} (hx : inlPlain x = false) (hb1 : x ≠ '[') (hb2 : x ≠ ']') :
    x ∉ shortSrc pre text post := by
  simp only [shortSrc, List.mem_append, List.mem_singleton, not_or]
  exact ⟨⟨⟨⟨plain_not_mem hpre hx, hb1⟩, plain_not_mem htext hx⟩, hb2⟩, plain_not_mem hpost hx⟩

/-- the patterns on `pre[text]post`: 2 and 3 reject, 6 finds the short reference -/
theorem findMatch_short (cfg : Inline.Cfg) (st : St) (pre text post : Str) (hpre : PlainText pre = true)
    (htext : PlainText text = true) (hpost : PlainText post = true) (k url : Str) (title : Option Str)
    (hfind : cfg.refs.find? (fun x => x.1 = normUse text) = some (k, url, title)) :
    findMatch cfg 2 (shortSrc pre text post) 0 st = some (none, st) ∧
    findMatch cfg 3 (shortSrc pre text post) 0 st = some (none, st) ∧
    findMatch cfg 6 (shortSrc pre text post) 0 st =
      some (some ⟨.el (linkEl url title text), pre.length, ((pre ++ ['['] ++ text ++ [']']).length : Nat)⟩, st) := by
  have hD0 : shortSrc pre text post = pre ++ '[' :: (text ++ ']' :: post) := by simp [shortSrc, List.append_assoc]
  have hDA : shortSrc pre text post = (pre ++ ['[']) ++ text ++ ']' :: post := by simp [shortSrc, List.append_assoc]
  have t1 := plain_not_mem htext (x := '[') (by decide)
  have t2 := plain_not_mem htext (x := ']') (by decide)
  have hrest : '[' ∉ text ++ ']' :: post := by
    simp only [List.mem_append, List.mem_cons, not_or]
    exact ⟨t1, by decide, plain_not_mem hpost (by decide)⟩
  have scan : ∀ pi, ¬ (pi = 4 ∨ pi = 5 ∨ pi = 7) →
      linkScan cfg st.stash pi (shortSrc pre text post) none (shortSrc pre text post) 0 =
        linkHandle cfg st.stash pi (shortSrc pre text post) pre.length (pre ++ ['[']).length := by
    intro pi hni
    have s1 := linkScan_bracket cfg st.stash pi hni (shortSrc pre text post) [] pre (text ++ ']' :: post) none
      (plain_not_mem hpre (by decide)) (plain_not_mem hpre (by decide)) (by simp)
    have s2 : linkScan cfg st.stash pi (shortSrc pre text post) (some '[') (text ++ ']' :: post)
        ([] ++ pre ++ ['[']).length = none := by
      apply linkScan_none; simp only [hni, if_false]; exact hrest
    rw [s2, ← hD0] at s1
    simp only [List.nil_append, List.length_nil] at s1
    rw [s1]
    cases linkHandle cfg st.stash pi (shortSrc pre text post) pre.length (pre ++ ['[']).length <;> rfl
  refine ⟨?_, ?_, ?_⟩
  · have := scan 2 (by decide)
    rw [linkHandle_ref_reject' cfg st.stash 2 (Or.inl rfl) _ _ text post _ hDA t1 t2
      (plain_not_mem hpost (by decide))] at this
    unfold findMatch; simp [this]
  · have := scan 3 (by decide)
    rw [linkHandle_link_reject cfg st.stash 3 (Or.inl rfl) _ _ text post _ hDA t1 t2
      (plain_head_ne hpost (by decide))] at this
    unfold findMatch; simp [this]
  · have := scan 6 (by decide)
    rw [linkHandle_short_found cfg st.stash 6 (Or.inl rfl) _ _ text post _ hDA t1 t2 (plain_no_stx htext) k url title
      hfind] at this
    unfold findMatch
    simp [this]; omega

theorem handleInline_short_found (cfg : Inline.Cfg) (f : Nat) (st : St) (pre text post : Str)
    (hpre : PlainText pre = true) (htext : PlainText text = true) (hpost : PlainText post = true)
    (k url : Str) (title : Option Str)
    (hfind : cfg.refs.find? (fun x => x.1 = normUse text) = some (k, url, title)) :
    handleInline cfg (f + 2) (shortSrc pre text post) 0 st =
      some (pre ++ placeholder st.stash.length ++ post,
        { st with stash := st.stash ++ [.node (linkEl url title text)] }) := by
  have q1 : '`' ∉ shortSrc pre text post := shortSrc_not_mem hpre htext hpost (by decide) (by decide) (by decide)
  have q2 : '\\' ∉ shortSrc pre text post := shortSrc_not_mem hpre htext hpost (by decide) (by decide) (by decide)
  have hqb : QuietB (shortSrc pre text post) :=
    ⟨shortSrc_not_mem hpre htext hpost (by decide) (by decide) (by decide),
     shortSrc_not_mem hpre htext hpost (by decide) (by decide) (by decide),
     shortSrc_not_mem hpre htext hpost (by decide) (by decide) (by decide),
     shortSrc_not_mem hpre htext hpost (by decide) (by decide) (by decide),
     shortSrc_not_mem hpre htext hpost (by decide) (by decide) (by decide)⟩
  obtain ⟨m2, m3, m6⟩ := findMatch_short cfg st pre text post hpre htext hpost k url title hfind
  obtain ⟨e1, e2, e3, e4, _, _⟩ := linkEl_fields url title text
  have hap := applyPattern_leaf cfg (fun d p s => handleInline cfg (f + 1) d p s) 6 _ 0 st _ _ _ m6 e1 e2 e3
    (fun t ht _ => by
      rw [e4] at ht; cases ht
      exact handleInline_quiet cfg f text 7 st (plain_quiet htext) (by omega) (by omega))
  have htake : (shortSrc pre text post).take pre.length = pre := by simp [shortSrc, List.append_assoc]
  have hdrop : (shortSrc pre text post).drop (pre ++ ['['] ++ text ++ [']']).length = post := by
    have : shortSrc pre text post = (pre ++ ['['] ++ text ++ [']']) ++ post := rfl
    rw [this]; exact List.drop_left' rfl
  rw [htake, hdrop] at hap
  obtain ⟨g, hg⟩ : ∃ g, loopFuel (shortSrc pre text post).length = g + 7 :=
    ⟨loopFuel (shortSrc pre text post).length - 7, by have := loopFuel_ge (shortSrc pre text post).length; omega⟩
  have hg' : 15 ≤ g := by have := loopFuel_ge (shortSrc pre text post).length; omega
  rw [show handleInline cfg (f + 2) (shortSrc pre text post) 0 st =
    hiLoop (applyPattern cfg fun d p s => handleInline cfg (f + 1) d p s)
      (loopFuel (shortSrc pre text post).length) (shortSrc pre text post) 0 0 st from rfl, hg]
  rw [hiLoop_none_step cfg _ _ _ 0 0 st (by omega) (findMatch0_none cfg _ st q1),
    hiLoop_none_step cfg _ _ _ 1 0 st (by omega) (findMatch1_none cfg _ st q2),
    hiLoop_none_step cfg _ _ _ 2 0 st (by omega) m2,
    hiLoop_none_step cfg _ _ _ 3 0 st (by omega) m3,
    hiLoop_none_step cfg _ _ _ 4 0 st (by omega) (findMatch_quietB cfg 4 (by omega) _ st hqb),
    hiLoop_none_step cfg _ _ _ 5 0 st (by omega) (findMatch_quietB cfg 5 (by omega) _ st hqb),
    hiLoop_step _ _ _ 6 0 st (by omega) _ _ _ _ hap]
  simp only [if_true]
  exact hiLoop_quiet cfg _ _ _
    (quiet_append (quiet_append (plain_quiet hpre) (quiet_placeholder _)) (plain_quiet hpost)) 10 6 g rfl (by omega)
    (by omega)


/-- **`InlineProcessor.run`** on `<div><p>D</p></div>` when `__handleInline` turns `D` into
    `pre‹placeholder 0›post` with one stashed leaf element -/
theorem run_one (cfg : Inline.Cfg) (D pre post : Str) (a : Node) (hD : D ≠ [])
    (h1 : handleInlineTop cfg D { html := [] } =
      some (pre ++ placeholder 0 ++ post, { stash := [.node a], html := [] }))
    (hc : a.children = []) (htl : a.tail = none) (hta : a.textAtomic = false) (htla : a.tailAtomic = false)
    (htx : ∀ t, a.text = some t → STX ∉ t) (hpre : STX ∉ pre) (hpost : STX ∉ post) :
    Inline.run cfg ((Node.el "div").append (Block.mkText "p" D)) =
      some ((Node.el "div").append (linkPara pre post a), { stash := [.node a], html := [] }) := by
  have h2 := ppTop_one [] [] a hc htl hta htla htx pre post hpre hpost
    { Block.mkText "p" D with text := none, textAtomic := false } rfl rfl
  simp only [List.nil_append, List.length_nil] at h2
  have htr : Node.truthy (some D) = true := by
    cases D with
    | nil => exact absurd rfl hD
    | cons x y => rfl
  have hv : visitChild cfg (Block.mkText "p" D) { st := { html := [] } } =
      some (linkPara pre post a, [], { st := { stash := [.node a], html := [] }, pushes := [[0, 0]] }) := by
    simp only [visitChild, Block.mkText, Node.el, htr, Bool.not_false, Bool.and_self, if_true, Option.getD_some, h1]
      at h2 ⊢
    rw [h2]
    simp [Node.truthy, linkPara, Node.el]
  obtain ⟨n, hn⟩ : ∃ n, runFuel ((Node.el "div").append (Block.mkText "p" D)) = n + 3 :=
    ⟨runFuel ((Node.el "div").append (Block.mkText "p" D)) - 3,
      by have := runFuel_ge ((Node.el "div").append (Block.mkText "p" D)); omega⟩
  simp only [Inline.run, hn]
  simp only [runLoop, getAt, Node.append, Node.el, List.nil_append, withIdx, visitLoop]
  rw [hv]
  simp [setAt, visitLoop, runLoop, getAt, linkPara, hc, withIdx, Node.el]

theorem paraOK_shortSrc {pre text post : Str} (hpre : PlainText pre = true) (htext : PlainText text = true)
    (hpost : PlainText post = true) (hstart : ParaStartOK pre = true) : ParaOK (shortSrc pre text post) := by
  have hnl : '\n' ∉ shortSrc pre text post := shortSrc_not_mem hpre htext hpost (by decide) (by decide) (by decide)
  have hch : (shortSrc pre text post).all docCh = true := by
    simp only [shortSrc, List.all_append, plain_docCh hpre, plain_docCh htext, plain_docCh hpost, Bool.and_true,
      Bool.true_and]; decide
  cases pre with
  | cons d pre' =>
    have e : shortSrc (d :: pre') text post = (d :: pre') ++ '[' :: (text ++ [']'] ++ post) := by
      simp [shortSrc, List.append_assoc]
    -- the first character is `d`; use the generic lemma with the first non-`pre` character irrelevant
    refine ⟨?_, hnl, hch, ?_⟩
    · obtain ⟨c', r', e', h1, h2⟩ := refSrc_shape (text := []) (sp := []) (label := []) (post := []) hpre hstart
      simp only [refSrc, List.cons_append] at e'
      obtain ⟨rfl, _⟩ := List.cons.inj e'
      exact ⟨d, pre' ++ ['['] ++ text ++ [']'] ++ post, by simp [shortSrc], h1, h2⟩
    · have hd : inlPlain d = true := by
        simp only [PlainText, List.all_cons, Bool.and_eq_true] at hpre; exact hpre.1
      simp only [ParaStartOK, Bool.and_eq_true, bne_iff_ne, ne_eq, Bool.not_eq_true'] at hstart
      have hdb : d ≠ '[' := by intro e; subst e; exact absurd hd (by decide)
      rw [e]
      simp [Block.refMatchAt, countPrefix, hstart.1, hdb]
  | nil =>
    refine ⟨⟨'[', text ++ [']'] ++ post, by simp [shortSrc], by decide, by decide⟩, hnl, hch, ?_⟩
    -- `[text]post`: the character after `]` is plain (or there is none), never `:`
    have e : shortSrc [] text post = '[' :: (text ++ (']' :: post)) := by simp [shortSrc]
    have hsl : spanLen (fun c => c != '[' && c != ']') (text ++ (']' :: post)) = text.length := by
      apply Block.spanLen_append
      · simp only [List.all_eq_true, Bool.and_eq_true, bne_iff_ne, ne_eq]
        intro x hx
        exact ⟨fun e => by subst e; exact plain_not_mem htext (by decide) hx,
          fun e => by subst e; exact plain_not_mem htext (by decide) hx⟩
      · intro x hx; simp at hx; subst hx; rfl
    have g1 : ('[' :: (text ++ (']' :: post)))[0 + 1 + text.length]? = some ']' :=
      Block.getElem?_at (pre := '[' :: text) (r := post) (by simp) (by simp; omega)
    have g2 : (('[' :: (text ++ (']' :: post)))[0 + 1 + text.length + 1]? != some ':') = true := by
      have : ('[' :: (text ++ (']' :: post)))[0 + 1 + text.length + 1]? = post.head? := by
        have e2 : '[' :: (text ++ (']' :: post)) = ('[' :: text ++ [']']) ++ post := by simp
        rw [e2, List.getElem?_append_right (by simp; omega)]
        have : 0 + 1 + text.length + 1 - ('[' :: text ++ [']']).length = 0 := by simp; omega
        rw [this]; cases post <;> rfl
      rw [this]
      simpa using plain_head_ne hpost (x := ':') (by decide)
    rw [e]
    unfold Block.refMatchAt
    simp only [List.drop_zero, countPrefix, show ('[' : Char) ≠ ' ' by decide, if_false, Nat.add_zero,
      List.getElem?_cons_zero, bne_self_eq_false, Bool.false_eq_true, List.drop_succ_cons, hsl, g1, g2, if_true]

theorem convert_link_short (cfg : Pipeline.Cfg) (hbl : cfg.blockLevel = TreeProc.defaultBlockLevel)
    (htab : 0 < cfg.tab) (before after : List DefSpec) (hb : ∀ d ∈ before, d.ok cfg.tab = true)
    (ha : ∀ d ∈ after, d.ok cfg.tab = true) (pre text post : Str)
    (hpre : PlainText pre = true) (htext : PlainText text = true) (hpost : PlainText post = true)
    (hstart : ParaStartOK pre = true) (url : Str) (title : Option Str)
    (hlook : Block.lookupRef ((before ++ after).map DefSpec.entry) (normUse text) = some (url, title)) :
    Pipeline.convert cfg (docOf before (shortSrc pre text post) after) =
      .ok ("<p>".toList ++ (pre ++ (linkHtmlF cfg.fmt url title text ++ post)) ++ "</p>".toList) := by
  obtain ⟨k, hfind⟩ := lookup_find hlook
  obtain ⟨hu, ht⟩ := lookup_docCh (tab := cfg.tab) (defs := before ++ after)
    (fun d hd => by rcases List.mem_append.1 hd with h | h; exact hb d h; exact ha d h) hlook
  obtain ⟨e1, e2, e3, e4, e5, _⟩ := linkEl_fields url title text
  have h1 : handleInlineTop { esc := cfg.esc, refs := ((before ++ after).map DefSpec.entry).reverse }
      (shortSrc pre text post) { html := [] } =
      some (pre ++ placeholder 0 ++ post, { stash := [.node (linkEl url title text)], html := [] }) := by
    have := handleInline_short_found { esc := cfg.esc, refs := ((before ++ after).map DefSpec.entry).reverse }
      ((shortSrc pre text post).length + 18) { html := [] } pre text post hpre htext hpost k url title hfind
    simpa [handleInlineTop, depthFuel] using this
  have hrun := run_one _ (shortSrc pre text post) pre post (linkEl url title text) (by simp [shortSrc]) h1 e1 e2 e3 e5
    (fun t ht' => by rw [e4] at ht'; cases ht'; exact plain_no_stx htext) (plain_no_stx hpre) (plain_no_stx hpost)
  refine convert_of_run cfg hbl htab before after hb ha (paraOK_shortSrc hpre htext hpost hstart) pre
    [{ linkEl url title text with tail := optStr post }] _ _ hrun rfl ?_ hpre ?_ ?_
  · intro x hx; simp only [List.mem_singleton] at hx; subst hx
    exact inlKid_link url title text post htext hpost hu ht
  · rw [serializeList_one, serialize_linkF cfg.fmt post url title text htext hpost]
  · simp only [List.mem_append, not_or]
    exact ⟨stx_not_mem_linkHtmlF _ _ _ _ (docCh_ne_stx hu) (fun t h => docCh_ne_stx (ht t h)) (plain_no_stx htext),
      plain_no_stx hpost⟩


theorem shortImgSrc_not_mem {pre alt post : Str} (hpre : PlainText pre = true) (halt : PlainText alt = true)
    (hpost : PlainText post = true) {x : Char} (hx : inlPlain x = false) (hb0 : x ≠ '!') (hb1 : x ≠ '[')
    (hb2 : x ≠ ']') : x ∉ shortImgSrc pre alt post := by
  simp only [shortImgSrc, List.mem_append, List.mem_cons, List.not_mem_nil, or_false, not_or]
  exact ⟨⟨⟨⟨plain_not_mem hpre hx, hb0, hb1⟩, plain_not_mem halt hx⟩, hb2⟩, plain_not_mem hpost hx⟩

/-- the patterns on `pre![alt]post`: 2, 3, 6 skip `![`, 4 and 5 reject, 7 finds the short image reference -/
theorem findMatch_shortImg (cfg : Inline.Cfg) (st : St) (pre alt post : Str) (hpre : PlainText pre = true)
    (halt : PlainText alt = true) (hpost : PlainText post = true) (k url : Str) (title : Option Str)
    (hfind : cfg.refs.find? (fun x => x.1 = normUse alt) = some (k, url, title)) :
    (∀ pi, pi = 2 ∨ pi = 3 ∨ pi = 6 → findMatch cfg pi (shortImgSrc pre alt post) 0 st = some (none, st)) ∧
    findMatch cfg 4 (shortImgSrc pre alt post) 0 st = some (none, st) ∧
    findMatch cfg 5 (shortImgSrc pre alt post) 0 st = some (none, st) ∧
    findMatch cfg 7 (shortImgSrc pre alt post) 0 st =
      some (some ⟨.el (imgEl url title alt), pre.length, ((pre ++ ['!', '['] ++ alt ++ [']']).length : Nat)⟩, st) := by
  have hD0 : shortImgSrc pre alt post = pre ++ '!' :: '[' :: (alt ++ ']' :: post) := by
    simp [shortImgSrc, List.append_assoc]
  have hDA : shortImgSrc pre alt post = (pre ++ ['!', '[']) ++ alt ++ ']' :: post := by
    simp [shortImgSrc, List.append_assoc]
  have t1 := plain_not_mem halt (x := '[') (by decide)
  have t2 := plain_not_mem halt (x := ']') (by decide)
  have hrest : '[' ∉ alt ++ ']' :: post := by
    simp only [List.mem_append, List.mem_cons, not_or]
    exact ⟨t1, by decide, plain_not_mem hpost (by decide)⟩
  have hrest' : '!' ∉ alt ++ ']' :: post := by
    simp only [List.mem_append, List.mem_cons, not_or]
    exact ⟨plain_not_mem halt (by decide), by decide, plain_not_mem hpost (by decide)⟩
  have hlen : (pre ++ ['!', '[']).length = 0 + pre.length + 2 := by simp
  refine ⟨?_, ?_, ?_, ?_⟩
  · intro pi hpi
    have hni : ¬ (pi = 4 ∨ pi = 5 ∨ pi = 7) := by omega
    have s0 := linkScan_skip_bang cfg st.stash pi hni (shortImgSrc pre alt post) pre (alt ++ ']' :: post) none 0
      (plain_not_mem hpre (by decide))
    have s1 : linkScan cfg st.stash pi (shortImgSrc pre alt post) (some '[') (alt ++ ']' :: post)
        (0 + pre.length + 2) = none := by
      apply linkScan_none; simp only [hni, if_false]; exact hrest
    rw [s1, ← hD0] at s0
    unfold findMatch
    rcases hpi with rfl | rfl | rfl <;> simp [s0]
  · have hrej := linkHandle_link_reject cfg st.stash 4 (Or.inr rfl) _ _ alt post (0 + pre.length) hDA t1 t2
      (plain_head_ne hpost (by decide))
    rw [hlen] at hrej
    have := linkScan_image_reject cfg st.stash 4 (Or.inl rfl) (shortImgSrc pre alt post) pre _ none 0
      (plain_not_mem hpre (by decide)) hrest' hrej
    rw [← hD0] at this
    unfold findMatch; simp [this]
  · have hrej := linkHandle_ref_reject' cfg st.stash 5 (Or.inr rfl) _ _ alt post (0 + pre.length) hDA t1 t2
      (plain_not_mem hpost (by decide))
    rw [hlen] at hrej
    have := linkScan_image_reject cfg st.stash 5 (Or.inr (Or.inl rfl)) (shortImgSrc pre alt post) pre _ none 0
      (plain_not_mem hpre (by decide)) hrest' hrej
    rw [← hD0] at this
    unfold findMatch; simp [this]
  · have hlh := linkHandle_short_found cfg st.stash 7 (Or.inr rfl) _ _ alt post (0 + pre.length) hDA t1 t2
      (plain_no_stx halt) k url title hfind
    rw [hlen] at hlh
    have := linkScan_image_at cfg st.stash 7 (Or.inr (Or.inr rfl)) (shortImgSrc pre alt post) pre (alt ++ ']' :: post)
      none 0 (plain_not_mem hpre (by decide)) _ hlh
    rw [← hD0] at this
    unfold findMatch
    simp [this]; omega

theorem handleInline_shortImg_found (cfg : Inline.Cfg) (f : Nat) (st : St) (pre alt post : Str)
    (hpre : PlainText pre = true) (halt : PlainText alt = true) (hpost : PlainText post = true)
    (k url : Str) (title : Option Str)
    (hfind : cfg.refs.find? (fun x => x.1 = normUse alt) = some (k, url, title)) :
    handleInline cfg (f + 1) (shortImgSrc pre alt post) 0 st =
      some (pre ++ placeholder st.stash.length ++ post,
        { st with stash := st.stash ++ [.node (imgEl url title alt)] }) := by
  have q1 : '`' ∉ shortImgSrc pre alt post :=
    shortImgSrc_not_mem hpre halt hpost (by decide) (by decide) (by decide) (by decide)
  have q2 : '\\' ∉ shortImgSrc pre alt post :=
    shortImgSrc_not_mem hpre halt hpost (by decide) (by decide) (by decide) (by decide)
  obtain ⟨ml, m4, m5, m7⟩ := findMatch_shortImg cfg st pre alt post hpre halt hpost k url title hfind
  obtain ⟨e1, e2, e3, e4, _, _⟩ := imgEl_fields url title alt
  have hap := applyPattern_leaf cfg (fun d p s => handleInline cfg f d p s) 7 _ 0 st _ _ _ m7 e1 e2 e3
    (fun t ht _ => by rw [e4] at ht; cases ht)
  have htake : (shortImgSrc pre alt post).take pre.length = pre := by simp [shortImgSrc, List.append_assoc]
  have hdrop : (shortImgSrc pre alt post).drop (pre ++ ['!', '['] ++ alt ++ [']']).length = post := by
    have : shortImgSrc pre alt post = (pre ++ ['!', '['] ++ alt ++ [']']) ++ post := rfl
    rw [this]; exact List.drop_left' rfl
  rw [htake, hdrop] at hap
  obtain ⟨g, hg⟩ : ∃ g, loopFuel (shortImgSrc pre alt post).length = g + 8 :=
    ⟨loopFuel (shortImgSrc pre alt post).length - 8, by have := loopFuel_ge (shortImgSrc pre alt post).length; omega⟩
  have hg' : 15 ≤ g := by have := loopFuel_ge (shortImgSrc pre alt post).length; omega
  rw [show handleInline cfg (f + 1) (shortImgSrc pre alt post) 0 st =
    hiLoop (applyPattern cfg fun d p s => handleInline cfg f d p s)
      (loopFuel (shortImgSrc pre alt post).length) (shortImgSrc pre alt post) 0 0 st from rfl, hg]
  rw [hiLoop_none_step cfg _ _ _ 0 0 st (by omega) (findMatch0_none cfg _ st q1),
    hiLoop_none_step cfg _ _ _ 1 0 st (by omega) (findMatch1_none cfg _ st q2),
    hiLoop_none_step cfg _ _ _ 2 0 st (by omega) (ml 2 (Or.inl rfl)),
    hiLoop_none_step cfg _ _ _ 3 0 st (by omega) (ml 3 (Or.inr (Or.inl rfl))),
    hiLoop_none_step cfg _ _ _ 4 0 st (by omega) m4,
    hiLoop_none_step cfg _ _ _ 5 0 st (by omega) m5,
    hiLoop_none_step cfg _ _ _ 6 0 st (by omega) (ml 6 (Or.inr (Or.inr rfl))),
    hiLoop_step _ _ _ 7 0 st (by omega) _ _ _ _ hap]
  simp only [if_true]
  exact hiLoop_quiet cfg _ _ _
    (quiet_append (quiet_append (plain_quiet hpre) (quiet_placeholder _)) (plain_quiet hpost)) 9 7 g rfl (by omega)
    (by omega)

theorem paraOK_shortImgSrc {pre alt post : Str} (hpre : PlainText pre = true) (halt : PlainText alt = true)
    (hpost : PlainText post = true) (hstart : ParaStartOK pre = true) : ParaOK (shortImgSrc pre alt post) := by
  have e : shortImgSrc pre alt post = pre ++ '!' :: ('[' :: alt ++ [']'] ++ post) := by
    simp [shortImgSrc, List.append_assoc]
  have hnl : '\n' ∉ shortImgSrc pre alt post :=
    shortImgSrc_not_mem hpre halt hpost (by decide) (by decide) (by decide) (by decide)
  have hch : (shortImgSrc pre alt post).all docCh = true := by
    simp only [shortImgSrc, List.all_append, plain_docCh hpre, plain_docCh halt, plain_docCh hpost, Bool.and_true,
      Bool.true_and]; decide
  rw [e] at hnl hch ⊢
  exact paraOK_of_parts pre '!' _ hpre hstart (by decide) (by decide) (by decide) hnl hch

theorem convert_img_short (cfg : Pipeline.Cfg) (hbl : cfg.blockLevel = TreeProc.defaultBlockLevel)
    (htab : 0 < cfg.tab) (before after : List DefSpec) (hb : ∀ d ∈ before, d.ok cfg.tab = true)
    (ha : ∀ d ∈ after, d.ok cfg.tab = true) (pre alt post : Str)
    (hpre : PlainText pre = true) (halt : PlainText alt = true) (hpost : PlainText post = true)
    (hstart : ParaStartOK pre = true) (url : Str) (title : Option Str)
    (hlook : Block.lookupRef ((before ++ after).map DefSpec.entry) (normUse alt) = some (url, title)) :
    Pipeline.convert cfg (docOf before (shortImgSrc pre alt post) after) =
      .ok ("<p>".toList ++ (pre ++ (imgHtmlF cfg.fmt url title alt ++ post)) ++ "</p>".toList) := by
  obtain ⟨k, hfind⟩ := lookup_find hlook
  obtain ⟨hu, ht⟩ := lookup_docCh (tab := cfg.tab) (defs := before ++ after)
    (fun d hd => by rcases List.mem_append.1 hd with h | h; exact hb d h; exact ha d h) hlook
  obtain ⟨e1, e2, e3, e4, e5, _⟩ := imgEl_fields url title alt
  have h1 : handleInlineTop { esc := cfg.esc, refs := ((before ++ after).map DefSpec.entry).reverse }
      (shortImgSrc pre alt post) { html := [] } =
      some (pre ++ placeholder 0 ++ post, { stash := [.node (imgEl url title alt)], html := [] }) := by
    have := handleInline_shortImg_found { esc := cfg.esc, refs := ((before ++ after).map DefSpec.entry).reverse }
      ((shortImgSrc pre alt post).length + 19) { html := [] } pre alt post hpre halt hpost k url title hfind
    simpa [handleInlineTop, depthFuel] using this
  have hrun := run_one _ (shortImgSrc pre alt post) pre post (imgEl url title alt) (by simp [shortImgSrc]) h1 e1 e2 e3
    e5 (fun t ht' => by rw [e4] at ht'; cases ht') (plain_no_stx hpre) (plain_no_stx hpost)
  refine convert_of_run cfg hbl htab before after hb ha (paraOK_shortImgSrc hpre halt hpost hstart) pre
    [{ imgEl url title alt with tail := optStr post }] _ _ hrun rfl ?_ hpre ?_ ?_
  · intro x hx; simp only [List.mem_singleton] at hx; subst hx
    exact inlKid_img url title alt post halt hpost hu ht
  · rw [serializeList_one, serialize_imgF cfg.fmt post url title alt hpost]
  · simp only [List.mem_append, not_or]
    exact ⟨stx_not_mem_imgHtmlF _ _ _ _ (docCh_ne_stx hu) (fun t h => docCh_ne_stx (ht t h)) (plain_no_stx halt),
      plain_no_stx hpost⟩


/-! ### two references in one paragraph -/

/-- `pre[t1][l1]mid[t2][l2]post` -/
def twoSrc (pre t1 l1 mid t2 l2 post : Str) : Str := refSrc pre t1 [] l1 (refSrc mid t2 [] l2 post)

/-- pattern 2 at the first reference when the text before it has no `[` and no `!` (it may contain a placeholder) -/
theorem findMatch2_ref' (cfg : Inline.Cfg) (st : St) (pre text sp label post : Str) (hp1 : '[' ∉ pre)
    (hp2 : '!' ∉ pre) (htext : PlainText text = true) (hsp : SpOK sp) (hl : UseLabelOK label = true)
    (k href : Str) (title : Option Str)
    (hfind : cfg.refs.find? (fun x => x.1 = useKey text label) = some (k, href, title)) :
    findMatch cfg 2 (refSrc pre text sp label post) 0 st =
      some (some ⟨.el (linkEl href title text), pre.length,
            (((pre ++ ['[']) ++ text ++ [']']).length + sp.length + label.length + 2 : Nat)⟩, st) := by
  have hlh := linkHandle_ref cfg st.stash 2 (Or.inl rfl) (pre ++ ['[']) text sp label post pre.length
    (plain_not_mem htext (by decide)) (plain_not_mem htext (by decide)) (plain_not_mem htext (by decide)) hsp
    (useLabel_facts hl).1
  rw [← refSrc_decomp, hfind] at hlh
  have hscan := linkScan_link_at cfg st.stash 2 (by decide) (refSrc pre text sp label post) pre
    (text ++ ']' :: sp ++ '[' :: label ++ ']' :: post) none 0 hp1 hp2 (by simp)
  have hlen : (pre ++ ['[']).length = 0 + pre.length + 1 := by simp
  rw [hlen] at hlh
  simp only [Nat.zero_add] at hscan hlh
  rw [hlh] at hscan
  have hD : refSrc pre text sp label post = pre ++ '[' :: (text ++ ']' :: sp ++ '[' :: label ++ ']' :: post) := by
    simp [refSrc, List.append_assoc]
  rw [← hD] at hscan
  unfold findMatch
  simp [hscan]

theorem twoSrc_not_mem {pre t1 l1 mid t2 l2 post : Str} (hpre : PlainText pre = true) (ht1 : PlainText t1 = true)
    (hmid : PlainText mid = true) (ht2 : PlainText t2 = true) (hpost : PlainText post = true) {x : Char}
    (hx : inlPlain x = false) (h1 : x ∉ l1) (h2 : x ∉ l2) (hb1 : x ≠ '[') (hb2 : x ≠ ']') :
    x ∉ twoSrc pre t1 l1 mid t2 l2 post := by
  simp only [twoSrc, refSrc, List.mem_append, List.mem_singleton, List.not_mem_nil, or_false, not_or]
  exact ⟨⟨⟨⟨⟨⟨⟨plain_not_mem hpre hx, hb1⟩, plain_not_mem ht1 hx⟩, hb2⟩, hb1⟩, h1⟩, hb2⟩,
    ⟨⟨⟨⟨⟨⟨plain_not_mem hmid hx, hb1⟩, plain_not_mem ht2 hx⟩, hb2⟩, hb1⟩, h2⟩, hb2⟩, plain_not_mem hpost hx⟩

/-- **`__handleInline` on a text with two defined references**: two placeholders, two stashed `<a>` elements -/
theorem handleInline_two (cfg : Inline.Cfg) (f : Nat) (st : St) (pre t1 l1 mid t2 l2 post : Str)
    (hpre : PlainText pre = true) (ht1 : PlainText t1 = true) (hmid : PlainText mid = true)
    (ht2 : PlainText t2 = true) (hpost : PlainText post = true) (hl1 : UseLabelOK l1 = true)
    (hl2 : UseLabelOK l2 = true) (k1 u1 : Str) (ti1 : Option Str) (k2 u2 : Str) (ti2 : Option Str)
    (hf1 : cfg.refs.find? (fun x => x.1 = useKey t1 l1) = some (k1, u1, ti1))
    (hf2 : cfg.refs.find? (fun x => x.1 = useKey t2 l2) = some (k2, u2, ti2)) :
    handleInline cfg (f + 2) (twoSrc pre t1 l1 mid t2 l2 post) 0 st =
      some (pre ++ placeholder st.stash.length ++ mid ++ placeholder (st.stash.length + 1) ++ post,
        { st with stash := st.stash ++ [.node (linkEl u1 ti1 t1), .node (linkEl u2 ti2 t2)] }) := by
  obtain ⟨_, a2, a3⟩ := useLabel_facts hl1
  obtain ⟨_, b2, b3⟩ := useLabel_facts hl2
  have q1 : '`' ∉ twoSrc pre t1 l1 mid t2 l2 post :=
    twoSrc_not_mem hpre ht1 hmid ht2 hpost (by decide) a2 b2 (by decide) (by decide)
  have q2 : '\\' ∉ twoSrc pre t1 l1 mid t2 l2 post :=
    twoSrc_not_mem hpre ht1 hmid ht2 hpost (by decide) a3 b3 (by decide) (by decide)
  -- first match
  have m1 := findMatch2_ref' cfg st pre t1 [] l1 (refSrc mid t2 [] l2 post) (plain_not_mem hpre (by decide))
    (plain_not_mem hpre (by decide)) ht1 (Or.inl rfl) hl1 k1 u1 ti1 hf1
  obtain ⟨e1, e2, e3, e4, _, _⟩ := linkEl_fields u1 ti1 t1
  have hap1 := applyPattern_leaf cfg (fun d p s => handleInline cfg (f + 1) d p s) 2 _ 0 st _ _ _ m1 e1 e2 e3
    (fun t ht _ => by
      rw [e4] at ht; cases ht
      exact handleInline_quiet cfg f t1 3 st (plain_quiet ht1) (by omega) (by omega))
  rw [refSrc_take, refSrc_drop] at hap1
  -- second match, in `pre‹ph›mid[t2][l2]post`
  have hdata1 : pre ++ placeholder st.stash.length ++ refSrc mid t2 [] l2 post =
      refSrc (pre ++ placeholder st.stash.length ++ mid) t2 [] l2 post := by simp [refSrc, List.append_assoc]
  have hQ : Quiet (pre ++ placeholder st.stash.length ++ mid) :=
    quiet_append (quiet_append (plain_quiet hpre) (quiet_placeholder _)) (plain_quiet hmid)
  generalize hst1 : ({ st with stash := st.stash ++ [.node (linkEl u1 ti1 t1)] } : St) = st1 at hap1
  have hlen1 : st1.stash.length = st.stash.length + 1 := by rw [← hst1]; simp
  have m2 := findMatch2_ref' cfg st1 (pre ++ placeholder st.stash.length ++ mid) t2 [] l2 post hQ.1 hQ.2.1 ht2
    (Or.inl rfl) hl2 k2 u2 ti2 hf2
  obtain ⟨g1, g2, g3, g4, _, _⟩ := linkEl_fields u2 ti2 t2
  have hap2 := applyPattern_leaf cfg (fun d p s => handleInline cfg (f + 1) d p s) 2 _ 0 st1 _ _ _ m2 g1 g2 g3
    (fun t ht _ => by
      rw [g4] at ht; cases ht
      exact handleInline_quiet cfg f t2 3 st1 (plain_quiet ht2) (by omega) (by omega))
  rw [refSrc_take, refSrc_drop, hlen1] at hap2
  obtain ⟨g, hg⟩ : ∃ g, loopFuel (twoSrc pre t1 l1 mid t2 l2 post).length = g + 4 :=
    ⟨loopFuel (twoSrc pre t1 l1 mid t2 l2 post).length - 4,
      by have := loopFuel_ge (twoSrc pre t1 l1 mid t2 l2 post).length; omega⟩
  have hg' : 15 ≤ g := by have := loopFuel_ge (twoSrc pre t1 l1 mid t2 l2 post).length; omega
  rw [show handleInline cfg (f + 2) (twoSrc pre t1 l1 mid t2 l2 post) 0 st =
    hiLoop (applyPattern cfg fun d p s => handleInline cfg (f + 1) d p s)
      (loopFuel (twoSrc pre t1 l1 mid t2 l2 post).length) (twoSrc pre t1 l1 mid t2 l2 post) 0 0 st from rfl, hg]
  rw [hiLoop_none_step cfg _ _ _ 0 0 st (by omega) (findMatch0_none cfg _ st q1),
    hiLoop_none_step cfg _ _ _ 1 0 st (by omega) (findMatch1_none cfg _ st q2)]
  rw [show twoSrc pre t1 l1 mid t2 l2 post = refSrc pre t1 [] l1 (refSrc mid t2 [] l2 post) from rfl,
    hiLoop_step _ _ _ 2 0 st (by omega) _ _ _ _ hap1]
  simp only [if_true]
  rw [hdata1, hiLoop_step _ _ _ 2 0 st1 (by omega) _ _ _ _ hap2]
  simp only [if_true]
  rw [hiLoop_quiet cfg _ _ _ (quiet_append (quiet_append hQ (quiet_placeholder _)) (plain_quiet hpost)) 14 2 g rfl
    (by omega) (by omega)]
  rw [← hst1]
  simp [List.append_assoc]


theorem placeholder_length_pos' (n : Nat) : 0 < (placeholder n).length := by
  simp [placeholder, phPrefix]

/-- `__processPlaceholders` on `pre‹ph0›mid‹ph1›post` with two stashed leaf elements -/
theorem ppTop_two (a b : Node) (hca : a.children = []) (htla : a.tail = none) (htaa : a.textAtomic = false)
    (htlaa : a.tailAtomic = false) (htxa : ∀ t, a.text = some t → STX ∉ t)
    (hcb : b.children = []) (htlb : b.tail = none) (htab : b.textAtomic = false)
    (htlab : b.tailAtomic = false) (htxb : ∀ t, b.text = some t → STX ∉ t)
    (pre mid post : Str) (hpre : STX ∉ pre) (hmid : STX ∉ mid) (hpost : STX ∉ post) (parent : Node)
    (hp : parent.text = none) (hpa : parent.textAtomic = false) :
    ppTop { stash := [.node a, .node b], html := [] } (pre ++ placeholder 0 ++ mid ++ placeholder 1 ++ post) false
        parent true =
      some ([{ a with tail := optStr mid }, { b with tail := optStr post }], { parent with text := optStr pre }) := by
  have hne : (pre ++ placeholder 0 ++ mid ++ placeholder 1 ++ post).isEmpty = false := by
    simp [placeholder, phPrefix]
  -- first placeholder
  have hd1 : pre ++ placeholder 0 ++ mid ++ placeholder 1 ++ post = pre ++ placeholder 0 ++ (mid ++ placeholder 1 ++ post) := by
    simp [List.append_assoc]
  have hfind1 : find phPrefix (pre ++ placeholder 0 ++ mid ++ placeholder 1 ++ post) = some pre.length := by
    have := find_prefix_after (ph := STX) (pt := "klzzwxh:".toList) pre
      (pad4 0 ++ [ETX] ++ (mid ++ placeholder 1 ++ post)) hpre
    rw [← this, hd1, placeholder_eq]
    simp [phPrefix, List.append_assoc]
  have hph1 := findPh_placeholder pre 0 (mid ++ placeholder 1 ++ post)
  rw [← hd1] at hph1
  have hget1 : stashGet [StashItem.node a, .node b] (pad4 0) = some (.node a) := by rw [stashGet_pad4]; rfl
  have hget2 : stashGet [StashItem.node a, .node b] (pad4 1) = some (.node b) := by rw [stashGet_pad4]; rfl
  have hnesta := procNode_leaf [.node a, .node b] 2 a hca htla htaa htxa
  have hnestb := procNode_leaf [.node a, .node b] 2 b hcb htlb htab htxb
  have hslice1 : Inline.slice (pre ++ placeholder 0 ++ mid ++ placeholder 1 ++ post) 0 pre.length = pre := by
    simp [Inline.slice, List.append_assoc]
  -- second placeholder
  have hdrop1 : (pre ++ placeholder 0 ++ mid ++ placeholder 1 ++ post).drop (pre ++ placeholder 0).length =
      mid ++ placeholder 1 ++ post := by rw [hd1]; exact List.drop_left' rfl
  have hfind2 : find phPrefix (mid ++ placeholder 1 ++ post) = some mid.length := by
    have := find_prefix_after (ph := STX) (pt := "klzzwxh:".toList) mid (pad4 1 ++ [ETX] ++ post) hmid
    rw [← this, placeholder_eq]
    simp [phPrefix, List.append_assoc]
  have hph2 := findPh_placeholder (pre ++ placeholder 0 ++ mid) 1 post
  have hlenQ : (pre ++ placeholder 0 ++ mid).length = (pre ++ placeholder 0).length + mid.length := by
    simp only [List.length_append]
  rw [hlenQ] at hph2
  have hslice2 : Inline.slice (pre ++ placeholder 0 ++ mid ++ placeholder 1 ++ post) (pre ++ placeholder 0).length
      ((pre ++ placeholder 0).length + mid.length) = mid := by
    have : (pre ++ placeholder 0 ++ mid ++ placeholder 1 ++ post).take ((pre ++ placeholder 0).length + mid.length) =
        pre ++ placeholder 0 ++ mid := by
      rw [← hlenQ, List.append_assoc (pre ++ placeholder 0 ++ mid)]; exact List.take_left' rfl
    rw [Inline.slice, this]; simp
  have hdrop2 : (pre ++ placeholder 0 ++ mid ++ placeholder 1 ++ post).drop (pre ++ placeholder 0 ++ mid ++ placeholder 1).length =
      post := List.drop_left' rfl
  have hfind3 : find phPrefix post = none := find_none_of_not_mem hpost
  have hle1 : ¬ (pre ++ placeholder 0).length > (pre ++ placeholder 0 ++ mid ++ placeholder 1 ++ post).length := by
    simp only [List.length_append]; omega
  have hle2 : ¬ (pre ++ placeholder 0 ++ mid ++ placeholder 1).length >
      (pre ++ placeholder 0 ++ mid ++ placeholder 1 ++ post).length := by simp
  have hpos : (pre ++ placeholder 0).length + mid.length > 0 := by
    have := placeholder_length_pos' 0
    simp only [List.length_append]; omega
  obtain ⟨tag, attrs, text, ta, children, tail, tla⟩ := a
  obtain ⟨tagb, attrsb, textb, tab', childrenb, tailb, tlab⟩ := b
  obtain ⟨ptag, pattrs, ptext, pta, pchildren, ptail, ptla⟩ := parent
  simp only at hca htla htaa htlaa hcb htlb htab htlab hp hpa
  subst hca htla htaa htlaa hcb htlb htab htlab hp hpa
  unfold ppTop processPlaceholders
  simp only [hne, Bool.false_eq_true, if_false, List.length_cons, List.length_nil]
  rw [show (pre ++ placeholder 0 ++ mid ++ placeholder 1 ++ post).length + 2 =
    ((pre ++ placeholder 0 ++ mid ++ placeholder 1 ++ post).length - 1) + 1 + 1 + 1 from by
      have : 0 < (pre ++ placeholder 0 ++ mid ++ placeholder 1 ++ post).length := by
        have := placeholder_length_pos' 0
        simp only [List.length_append]; omega
      omega]
  rw [ppLoop]
  simp only [Nat.not_lt_zero, gt_iff_lt, if_false, List.drop_zero, hfind1, Nat.zero_add, hph1, Option.bind_some, hget1,
    hslice1, hnesta]
  rw [ppLoop]
  simp only [hle1, if_false, hdrop1, hfind2, hph2, Option.bind_some, hget2, hpos, if_true, hslice2, hnestb]
  rw [ppLoop]
  simp only [hle2, if_false, hdrop2, hfind3]
  cases pre <;> cases mid <;> cases post <;> simp [linkText, optStr_nil, optStr_cons, Node.truthy]


/-- `InlineProcessor.run` on `<div><p>D</p></div>` when `__handleInline` leaves two placeholders -/
theorem run_two (cfg : Inline.Cfg) (D pre mid post : Str) (a b : Node) (hD : D ≠ [])
    (h1 : handleInlineTop cfg D { html := [] } =
      some (pre ++ placeholder 0 ++ mid ++ placeholder 1 ++ post, { stash := [.node a, .node b], html := [] }))
    (hca : a.children = []) (htla : a.tail = none) (htaa : a.textAtomic = false)
    (htlaa : a.tailAtomic = false) (htxa : ∀ t, a.text = some t → STX ∉ t)
    (hcb : b.children = []) (htlb : b.tail = none) (htab : b.textAtomic = false)
    (htlab : b.tailAtomic = false) (htxb : ∀ t, b.text = some t → STX ∉ t)
    (hpre : STX ∉ pre) (hmid : STX ∉ mid) (hpost : STX ∉ post) :
    Inline.run cfg ((Node.el "div").append (Block.mkText "p" D)) =
      some ((Node.el "div").append (paraOf pre [{ a with tail := optStr mid }, { b with tail := optStr post }]),
        { stash := [.node a, .node b], html := [] }) := by
  have h2 := ppTop_two a b hca htla htaa htlaa htxa hcb htlb htab htlab htxb pre mid post hpre hmid hpost
    { Block.mkText "p" D with text := none, textAtomic := false } rfl rfl
  have htr : Node.truthy (some D) = true := by
    cases D with
    | nil => exact absurd rfl hD
    | cons x y => rfl
  have hv : visitChild cfg (Block.mkText "p" D) { st := { html := [] } } =
      some (paraOf pre [{ a with tail := optStr mid }, { b with tail := optStr post }], [],
        { st := { stash := [.node a, .node b], html := [] }, pushes := [[0, 1], [0, 0]] }) := by
    simp only [visitChild, Block.mkText, Node.el, htr, Bool.not_false, Bool.and_self, if_true, Option.getD_some, h1]
      at h2 ⊢
    rw [h2]
    simp [Node.truthy, paraOf, Node.el, List.range_succ]
  obtain ⟨n, hn⟩ : ∃ n, runFuel ((Node.el "div").append (Block.mkText "p" D)) = n + 4 :=
    ⟨runFuel ((Node.el "div").append (Block.mkText "p" D)) - 4,
      by have := runFuel_ge ((Node.el "div").append (Block.mkText "p" D)); omega⟩
  simp only [Inline.run, hn]
  simp only [runLoop, getAt, Node.append, Node.el, List.nil_append, withIdx, visitLoop]
  rw [hv]
  simp [setAt, visitLoop, runLoop, getAt, paraOf, hca, hcb, withIdx, Node.el, remap, remap.startsWithPath]

theorem paraOK_twoSrc {pre t1 l1 mid t2 l2 post : Str} (hpre : PlainText pre = true) (ht1 : PlainText t1 = true)
    (hmid : PlainText mid = true) (ht2 : PlainText t2 = true) (hpost : PlainText post = true)
    (hstart : ParaStartOK pre = true) (hn1 : '\n' ∉ l1) (hn2 : '\n' ∉ l2) (hc1 : l1.all docCh = true)
    (hc2 : l2.all docCh = true) : ParaOK (twoSrc pre t1 l1 mid t2 l2 post) := by
  refine ⟨refSrc_shape hpre hstart, ?_, ?_, refMatchAt_para hpre ht1 hstart (Or.inl rfl)⟩
  · exact twoSrc_not_mem hpre ht1 hmid ht2 hpost (by decide) hn1 hn2 (by decide) (by decide)
  · simp only [twoSrc, refSrc, List.all_append, List.all_cons, List.all_nil, plain_docCh hpre, plain_docCh ht1,
      plain_docCh hmid, plain_docCh ht2, plain_docCh hpost, hc1, hc2, Bool.and_true, Bool.true_and]
    decide

/-- **`convert`** on: definitions, a paragraph with two reference-style links, definitions -/
theorem convert_two (cfg : Pipeline.Cfg) (hbl : cfg.blockLevel = TreeProc.defaultBlockLevel)
    (htab : 0 < cfg.tab) (before after : List DefSpec) (hb : ∀ d ∈ before, d.ok cfg.tab = true)
    (ha : ∀ d ∈ after, d.ok cfg.tab = true) (pre t1 l1 mid t2 l2 post : Str)
    (hpre : PlainText pre = true) (ht1 : PlainText t1 = true) (hmid : PlainText mid = true)
    (ht2 : PlainText t2 = true) (hpost : PlainText post = true) (hstart : ParaStartOK pre = true)
    (hl1 : UseLabelOK l1 = true) (hl2 : UseLabelOK l2 = true) (hn1 : '\n' ∉ l1) (hn2 : '\n' ∉ l2)
    (hc1 : l1.all docCh = true) (hc2 : l2.all docCh = true) (u1 : Str) (ti1 : Option Str) (u2 : Str)
    (ti2 : Option Str)
    (hlook1 : Block.lookupRef ((before ++ after).map DefSpec.entry) (useKey t1 l1) = some (u1, ti1))
    (hlook2 : Block.lookupRef ((before ++ after).map DefSpec.entry) (useKey t2 l2) = some (u2, ti2)) :
    Pipeline.convert cfg (docOf before (twoSrc pre t1 l1 mid t2 l2 post) after) =
      .ok ("<p>".toList ++ (pre ++ (linkHtmlF cfg.fmt u1 ti1 t1 ++ mid ++ (linkHtmlF cfg.fmt u2 ti2 t2 ++ post))) ++
        "</p>".toList) := by
  obtain ⟨k1, hf1⟩ := lookup_find hlook1
  obtain ⟨k2, hf2⟩ := lookup_find hlook2
  have hall : ∀ d ∈ before ++ after, d.ok cfg.tab = true :=
    fun d hd => by rcases List.mem_append.1 hd with h | h; exact hb d h; exact ha d h
  obtain ⟨hu1, hti1⟩ := lookup_docCh hall hlook1
  obtain ⟨hu2, hti2⟩ := lookup_docCh hall hlook2
  obtain ⟨e1, e2, e3, e4, e5, _⟩ := linkEl_fields u1 ti1 t1
  obtain ⟨g1, g2, g3, g4, g5, _⟩ := linkEl_fields u2 ti2 t2
  have h1 : handleInlineTop { esc := cfg.esc, refs := ((before ++ after).map DefSpec.entry).reverse }
      (twoSrc pre t1 l1 mid t2 l2 post) { html := [] } =
      some (pre ++ placeholder 0 ++ mid ++ placeholder 1 ++ post,
        { stash := [.node (linkEl u1 ti1 t1), .node (linkEl u2 ti2 t2)], html := [] }) := by
    have := handleInline_two { esc := cfg.esc, refs := ((before ++ after).map DefSpec.entry).reverse }
      ((twoSrc pre t1 l1 mid t2 l2 post).length + 18) { html := [] } pre t1 l1 mid t2 l2 post hpre ht1 hmid ht2 hpost
      hl1 hl2 k1 u1 ti1 k2 u2 ti2 hf1 hf2
    simpa [handleInlineTop, depthFuel] using this
  have hrun := run_two _ (twoSrc pre t1 l1 mid t2 l2 post) pre mid post (linkEl u1 ti1 t1) (linkEl u2 ti2 t2)
    (by simp [twoSrc, refSrc]) h1 e1 e2 e3 e5 (fun t ht' => by rw [e4] at ht'; cases ht'; exact plain_no_stx ht1)
    g1 g2 g3 g5 (fun t ht' => by rw [g4] at ht'; cases ht'; exact plain_no_stx ht2)
    (plain_no_stx hpre) (plain_no_stx hmid) (plain_no_stx hpost)
  refine convert_of_run cfg hbl htab before after hb ha
    (paraOK_twoSrc hpre ht1 hmid ht2 hpost hstart hn1 hn2 hc1 hc2) pre
    [{ linkEl u1 ti1 t1 with tail := optStr mid }, { linkEl u2 ti2 t2 with tail := optStr post }] _ _ hrun rfl ?_ hpre
    ?_ ?_
  · intro x hx
    simp only [List.mem_cons, List.not_mem_nil, or_false] at hx
    rcases hx with rfl | rfl
    · exact inlKid_link u1 ti1 t1 mid ht1 hmid hu1 hti1
    · exact inlKid_link u2 ti2 t2 post ht2 hpost hu2 hti2
  · simp only [Ser.serializeList, serialize_linkF cfg.fmt mid u1 ti1 t1 ht1 hmid,
      serialize_linkF cfg.fmt post u2 ti2 t2 ht2 hpost, List.append_nil]
  · simp only [List.mem_append, not_or]
    exact ⟨⟨stx_not_mem_linkHtmlF _ _ _ _ (docCh_ne_stx hu1) (fun t h => docCh_ne_stx (hti1 t h)) (plain_no_stx ht1),
      plain_no_stx hmid⟩,
      stx_not_mem_linkHtmlF _ _ _ _ (docCh_ne_stx hu2) (fun t h => docCh_ne_stx (hti2 t h)) (plain_no_stx ht2),
      plain_no_stx hpost⟩

end MdVerif.InlineRef
