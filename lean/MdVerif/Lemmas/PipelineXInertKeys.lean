/-
The kinds of entries in the log of `Model/BlockExt.lean`: the key of a reference definition contains no `[`, so it is
neither a footnote entry (`[^…`) nor an abbreviation entry (`*[…`); hence, with the `abbr` (resp. `footnotes`) block
processor off, the log holds no abbreviation (resp. footnote) entry, `abbrsOf` is empty and `refsOf` is the identity.
Core Lean only.
-/
import MdVerif.Lemmas.PipelineXInertLogOk
import MdVerif.Lemmas.BlockRef

namespace MdVerif.BlockExt
open Py Block

/-! ### `lower` creates no `[` -/

theorem lowerChar_bracket_ascii : ∀ n, n < 128 → Char.ofNat n ≠ '[' → '[' ∉ lowerChar (Char.ofNat n) := by
  decide +kernel

theorem lowerTable_bracket :
    Generated.Chars.lowerNonAscii.all (fun p => p.2.all (fun n => Char.ofNat n != '[')) = true := by
  decide +kernel

theorem lowerChar_bracket (c : Char) (h : c ≠ '[') : '[' ∉ lowerChar c := by
  by_cases hc : c.toNat < 128
  · exact RefDef.char_of_ascii (fun c => c ≠ '[' → '[' ∉ lowerChar c) lowerChar_bracket_ascii c hc h
  · simp only [lowerChar, hc, if_false]
    cases hf : Generated.Chars.lowerNonAscii.find? (fun p => p.1 = c.toNat) with
    | none => simp [h.symm]
    | some p =>
      have hp := List.mem_of_find?_eq_some hf
      have := List.all_eq_true.mp lowerTable_bracket p hp
      simp only [List.all_eq_true, bne_iff_ne, ne_eq] at this
      simp only [List.mem_map, not_exists, not_and]
      intro n hn he
      exact this n hn he

theorem lower_bracket {s : Str} (h : '[' ∉ s) : '[' ∉ lower s := by
  simp only [lower, List.mem_flatMap, not_exists, not_and]
  intro c hc
  exact lowerChar_bracket c (fun e => h (e ▸ hc))

/-! ### the key of a reference definition -/

theorem take_spanLen_all (p : Char → Bool) : ∀ (l : Str), ∀ c ∈ l.take (spanLen p l), p c = true := by
  intro l
  induction l with
  | nil => intro c hc; simp [spanLen] at hc
  | cons a r ih =>
    intro c hc
    simp only [spanLen] at hc
    split at hc
    · rename_i ha
      simp only [List.take_succ_cons, List.mem_cons] at hc
      rcases hc with hc | hc
      · exact hc ▸ ha
      · exact ih c hc
    · simp at hc

theorem refMatchAt_ident {s : Str} {p e : Nat} {ident url : Str} {t5 t6 : Option Str}
    (h : refMatchAt s p = some (e, ident, url, t5, t6)) : '[' ∉ ident := by
  simp only [refMatchAt] at h
  split at h
  · cases h
  · split at h
    · cases h
    · split at h
      · cases h
      · obtain ⟨k2, h⟩ := firstDown_some h
        obtain ⟨u0, _, h⟩ := List.exists_of_findSome?_eq_some h
        obtain ⟨u2, h⟩ := firstDown_some h
        split at h
        · injection h with h
          injection h with _ h
          injection h with h _
          rw [← h]
          intro hm
          simp only [Block.slice] at hm
          have hsub : ∀ a b : Nat, a + 1 + b - (a + 1) = b := by intro a b; omega
          rw [hsub] at hm
          have := take_spanLen_all (fun c => c != '[' && c != ']') _ '[' hm
          simp at this
        · cases h

theorem refSearch_ident {s : Str} {st en : Nat} {ident url : Str} {t5 t6 : Option Str}
    (h : refSearch s = some (st, en, ident, url, t5, t6)) : '[' ∉ ident := by
  simp only [refSearch] at h
  obtain ⟨p, _, h⟩ := List.exists_of_findSome?_eq_some h
  split at h
  · rename_i e' ident' url' t5' t6' hm
    injection h with h
    injection h with _ h
    injection h with _ h
    injection h with h _
    exact h ▸ refMatchAt_ident hm
  · cases h

/-- the entry `referenceP` appends is neither a footnote nor an abbreviation entry -/
theorem referenceP_entry (refs : Refs) (parent : Node) (b : Str) (rest : List Str)
    (m : Nat × Nat × Str × Str × Option Str × Option Str) (hm : refSearch b = some m) :
    ∃ e, (referenceP refs parent b rest m).2.1 = refs ++ [e] ∧ isFnEntry e = false ∧ isAbEntry e = false := by
  obtain ⟨st, en, ident, link, t5, t6⟩ := m
  have hk : '[' ∉ lower (strip ident) :=
    lower_bracket (fun hm' => refSearch_ident hm ((stripP_infix _ _).subset hm'))
  refine ⟨_, rfl, ?_, ?_⟩
  · simp only [isFnEntry]
    cases hs : startsWith (lower (strip ident)) ['[', '^'] with
    | false => rfl
    | true =>
      have := ((startsWith_iff_prefix _ _).mp hs).subset (List.mem_cons_self)
      exact absurd this hk
  · simp only [isAbEntry]
    cases hs : startsWith (lower (strip ident)) ['*', '['] with
    | false => rfl
    | true =>
      have := ((startsWith_iff_prefix _ _).mp hs).subset (List.mem_cons_of_mem _ List.mem_cons_self)
      exact absurd this hk

/-! ### logs without abbreviation / footnote entries -/

def NoAb (log : Refs) : Prop := ∀ e ∈ log, isAbEntry e = false
def NoFn (log : Refs) : Prop := ∀ e ∈ log, isFnEntry e = false

theorem closed_true : Closed (fun _ => True) := ⟨trivial, fun _ _ => trivial, fun _ _ => trivial⟩

theorem snoc_all {P : Str × (Str × Option Str) → Prop} {log : Refs} {e : Str × (Str × Option Str)}
    (h : ∀ x ∈ log, P x) (he : P e) : ∀ x ∈ log ++ [e], P x := by
  intro x hx
  rcases List.mem_append.mp hx with hx | hx
  · exact h x hx
  · simp only [List.mem_singleton] at hx
    exact hx ▸ he

theorem footnoteP_entry {refs : Refs} {b : Str} {rest : List Str} {r : Refs × List Str}
    (h : footnoteP refs b rest = some r) : ∃ id body, r.1 = refs ++ [(fnKey id, (body, none))] := by
  simp only [footnoteP] at h
  split at h
  · cases h
  · split at h <;> (injection h with h; exact ⟨_, _, by rw [← h]⟩)

theorem logStep_noAb (cfg : XCfg) (hcfg : cfg.abbr = false) : LogStep (fun _ => True) NoAb cfg where
  ref := by
    intro refs parent b rest m _ hq hm
    obtain ⟨e, he, _, h2⟩ := referenceP_entry refs parent b rest m hm
    rw [he]; exact snoc_all hq h2
  fn := by
    intro _ refs b rest r _ _ hq h
    obtain ⟨id, body, he⟩ := footnoteP_entry h
    rw [he]; exact snoc_all hq rfl
  ab := by intro h; rw [hcfg] at h; cases h

theorem logStep_noFn (cfg : XCfg) (hcfg : cfg.footnotes = false) (hab : cfg.abbr = false) :
    LogStep (fun _ => True) NoFn cfg where
  ref := by
    intro refs parent b rest m _ hq hm
    obtain ⟨e, he, h1, _⟩ := referenceP_entry refs parent b rest m hm
    rw [he]; exact snoc_all hq h1
  fn := by intro h; rw [hcfg] at h; cases h
  ab := by intro h; rw [hab] at h; cases h

theorem abbrsOf_noAb {log : Refs} (h : NoAb log) : abbrsOf log = [] := by
  simp only [abbrsOf]
  have key : ∀ (l : Refs) (d : List (Str × Str)), (∀ e ∈ l, isAbEntry e = false) →
      l.foldl (fun d e => if isAbEntry e then (if e.2.1.isEmpty then dictPop d (e.1.drop 2)
        else dictSet d (e.1.drop 2) e.2.1) else d) d = d := by
    intro l
    induction l with
    | nil => intro d _; rfl
    | cons e l ih =>
      intro d hl
      simp only [List.foldl_cons, hl e List.mem_cons_self, Bool.false_eq_true, if_false]
      exact ih d (fun x hx => hl x (List.mem_cons_of_mem _ hx))
  exact key log [] h

theorem refsOf_id {log : Refs} (h1 : NoFn log) (h2 : NoAb log) : refsOf log = log := by
  simp only [refsOf]
  apply List.filter_eq_self.mpr
  intro e he
  simp [h1 e he, h2 e he]

end MdVerif.BlockExt
