/-
`Sep Ok N`, part 4: `__handleInline` and `run` over a pattern table without the wikilink pattern keep every text
and tail of the tree `Ok` (`runX_deepP`).  Core Lean only.
-/
import MdVerif.Lemmas.InlineXInvP3

namespace MdVerif.InlineX
open Py Inline

variable {Ok : Str → Prop} {N : Char → Prop}

/-- the nested `__handleInline` keeps texts and stash good -/
def HIP (Ok : Str → Prop) (N : Char → Prop) (hi : HIX) : Prop :=
  ∀ d p x d' x', Ok d → StashP Ok N x.st.stash → hi d p x = some (d', x') → Ok d' ∧ StashP Ok N x'.st.stash

def OptP (Ok : Str → Prop) (t : Option Str) : Prop := ∀ s, t = some s → Ok s

theorem hiOptX_P (hs : Sep Ok N) {hi : HIX} (hg : HIP Ok N hi) (t : Option Str) (atomic : Bool) (pi : Nat) (x : XSt)
    (ht : OptP Ok t) (hx : StashP Ok N x.st.stash) {t' : Option Str} {x' : XSt}
    (h : hiOptX hi t atomic pi x = some (t', x')) :
    OptP Ok t' ∧ StashP Ok N x'.st.stash ∧ (t = none → t' = none) := by
  simp only [hiOptX] at h
  split at h
  · rename_i hc
    have hd : Ok (t.getD []) := by
      cases t with
      | none => exact hs.nil
      | some s => exact ht s rfl
    cases hh : hi (t.getD []) pi x with
    | none => rw [hh] at h; cases h
    | some r =>
      obtain ⟨d, x1⟩ := r
      rw [hh] at h
      injection h with h
      injection h with h1 h2
      subst h1; subst h2
      have := hg _ _ _ _ _ hd hx hh
      refine ⟨by intro s' hs'; cases hs'; exact this.1, this.2, ?_⟩
      intro e
      rw [e] at hc
      simp [Node.truthy] at hc
  · injection h with h
    injection h with h1 h2
    subst h1; subst h2
    exact ⟨ht, hx, fun e => e⟩

theorem hiNodeX_P (hs : Sep Ok N) {hi : HIX} (hg : HIP Ok N hi) (pi : Nat) (n : Node) (x : XSt) (hn : DeepP Ok n)
    (hx : StashP Ok N x.st.stash) {n' : Node} {x' : XSt} (h : hiNodeX hi pi n x = some (n', x')) :
    DeepP Ok n' ∧ StashP Ok N x'.st.stash ∧ (n.tail = none → n'.tail = none) ∧ n'.children = n.children := by
  have hn' := (DeepP_iff n).mp hn
  simp only [hiNodeX] at h
  cases h1 : hiOptX hi n.text n.textAtomic (pi + 1) x with
  | none => rw [h1] at h; cases h
  | some r1 =>
    obtain ⟨t, x1⟩ := r1
    rw [h1] at h
    simp only [] at h
    obtain ⟨ht, hx1, _⟩ := hiOptX_P hs hg _ _ _ _ hn'.1 hx h1
    cases h2 : hiOptX hi n.tail n.tailAtomic pi x1 with
    | none => rw [h2] at h; cases h
    | some r2 =>
      obtain ⟨tl, x2⟩ := r2
      rw [h2] at h
      injection h with h
      injection h with h3 h4
      subst h3; subst h4
      obtain ⟨htl, hx2, hnone⟩ := hiOptX_P hs hg _ _ _ _ hn'.2.1 hx1 h2
      refine ⟨?_, hx2, hnone, rfl⟩
      rw [DeepP_iff]
      exact ⟨ht, htl, hn'.2.2⟩

theorem hiNodesX_P (hs : Sep Ok N) {hi : HIX} (hg : HIP Ok N hi) (pi : Nat) : ∀ (l : List Node) (x : XSt),
    (∀ n ∈ l, DeepP Ok n) → StashP Ok N x.st.stash →
    ∀ {l' : List Node} {x' : XSt}, hiNodesX hi pi l x = some (l', x') →
      (∀ n ∈ l', DeepP Ok n) ∧ StashP Ok N x'.st.stash := by
  intro l
  induction l with
  | nil =>
    intro x _ hx l' x' h
    simp only [hiNodesX] at h
    injection h with h
    injection h with h1 h2
    subst h1; subst h2
    exact ⟨(by intro n hn; cases hn), hx⟩
  | cons n r ih =>
    intro x hl hx l' x' h
    simp only [hiNodesX] at h
    cases h1 : hiNodeX hi pi n x with
    | none => rw [h1] at h; cases h
    | some r1 =>
      obtain ⟨n', x1⟩ := r1
      rw [h1] at h
      simp only [] at h
      obtain ⟨hn', hx1, _, _⟩ := hiNodeX_P hs hg pi n x (hl n List.mem_cons_self) hx h1
      cases h2 : hiNodesX hi pi r x1 with
      | none => rw [h2] at h; cases h
      | some r2 =>
        obtain ⟨r', x2⟩ := r2
        rw [h2] at h
        injection h with h
        injection h with h3 h4
        subst h3; subst h4
        obtain ⟨hr', hx2⟩ := ih x1 (fun m hm => hl m (List.mem_cons_of_mem _ hm)) hx1 h2
        refine ⟨?_, hx2⟩
        intro m hm
        rcases List.mem_cons.mp hm with hm | hm
        · exact hm ▸ hn'
        · exact hr' m hm

theorem StashP_snoc {stash : List StashItem} {it : StashItem} (h : StashP Ok N stash) (hi : ItemP Ok N it) :
    StashP Ok N (stash ++ [it]) := by
  intro x hx
  rcases List.mem_append.mp hx with hx | hx
  · exact h x hx
  · simp only [List.mem_singleton] at hx
    exact hx ▸ hi

theorem applyPatternX_P (hs : Sep Ok N) (xc : XCfg) (hnw : ∀ k ∈ xc.table, k ≠ PatK.wikilink) {hi : HIX}
    (hg : HIP Ok N hi) (pi : Nat) (data : Str) (si : Nat) (x : XSt) (hd : Ok data) (hx : StashP Ok N x.st.stash)
    {d : Str} {m : Bool} {si' : Nat} {x' : XSt} (h : applyPatternX xc hi pi data si x = some (d, m, si', x')) :
    Ok d ∧ StashP Ok N x'.st.stash := by
  simp only [applyPatternX] at h
  cases hk : xc.table[pi]? with
  | none =>
    rw [hk] at h
    injection h with h
    injection h with h1 h
    injection h with _ h
    injection h with _ h2
    subst h1; subst h2
    exact ⟨hd, hx⟩
  | some k =>
    rw [hk] at h
    simp only [] at h
    have hkw : k ≠ PatK.wikilink := hnw k (List.mem_of_getElem? hk)
    cases hf : findX xc k data si x with
    | none => rw [hf] at h; cases h
    | some r =>
      obtain ⟨fo, x0⟩ := r
      rw [hf] at h
      obtain ⟨hst, hfc⟩ := findX_invP hs xc k hkw data si x hd hf
      have hx0 : StashP Ok N x0.st.stash := hst ▸ hx
      cases fo with
      | none =>
        injection h with h
        injection h with h1 h
        injection h with _ h
        injection h with _ h2
        subst h1; subst h2
        exact ⟨hd, hx0⟩
      | some f =>
        have hF := hfc f rfl
        simp only [] at h
        cases hnode : f.node with
        | none =>
          rw [hnode] at h
          injection h with h
          injection h with h1 h
          injection h with _ h
          injection h with _ h2
          subst h1; subst h2
          exact ⟨hd, hx0⟩
        | str s =>
          rw [hnode] at h
          simp only [stashX, stashNode] at h
          injection h with h
          injection h with h1 h
          injection h with _ h
          injection h with _ h2
          subst h1; subst h2
          have hsN : Neut N s := by simpa [FoundP, hnode] using hF
          exact ⟨hs.splice hd (placeholder_neut hs _) _ _, StashP_snoc hx0 hsN⟩
        | el n =>
          rw [hnode] at h
          have hnD : DeepP Ok n ∧ n.tail = none := by simpa [FoundP, hnode] using hF
          simp only [] at h
          by_cases hat : (n.text.isSome && n.textAtomic) = true
          · simp only [hat, if_true, stashX, stashNode] at h
            injection h with h
            injection h with h1 h
            injection h with _ h
            injection h with _ h2
            subst h1; subst h2
            exact ⟨hs.splice hd (placeholder_neut hs _) _ _, StashP_snoc hx0 hnD⟩
          · simp only [hat, Bool.false_eq_true, if_false] at h
            cases h1 : hiNodeX hi pi { n with children := [] } x0 with
            | none => rw [h1] at h; cases h
            | some r1 =>
              obtain ⟨n1, x1⟩ := r1
              rw [h1] at h
              simp only [] at h
              obtain ⟨hn1, hx1, htl, _⟩ := hiNodeX_P hs hg pi _ x0
                (DeepP_children [] hnD.1 (by intro k hk; cases hk)) hx0 h1
              cases h2 : hiNodesX hi pi n.children x1 with
              | none => rw [h2] at h; cases h
              | some r2 =>
                obtain ⟨kids, x2⟩ := r2
                rw [h2] at h
                obtain ⟨hkids, hx2⟩ := hiNodesX_P hs hg pi n.children x1 (DeepP_kids hnD.1) hx1 h2
                simp only [stashX, stashNode] at h
                injection h with h
                injection h with h3 h
                injection h with _ h
                injection h with _ h4
                subst h3; subst h4
                exact ⟨hs.splice hd (placeholder_neut hs _) _ _,
                  StashP_snoc hx2 ⟨DeepP_children kids hn1 hkids, htl hnD.2⟩⟩

theorem hiLoopX_P {ap : Nat → Str → Nat → XSt → Option (Str × Bool × Nat × XSt)} (count : Nat)
    (hap : ∀ pi data si x d m si' x', Ok data → StashP Ok N x.st.stash → ap pi data si x = some (d, m, si', x') →
      Ok d ∧ StashP Ok N x'.st.stash) :
    ∀ (g : Nat) (data : Str) (pi si : Nat) (x : XSt) {d : Str} {x' : XSt}, Ok data → StashP Ok N x.st.stash →
      hiLoopX count ap g data pi si x = some (d, x') → Ok d ∧ StashP Ok N x'.st.stash := by
  intro g
  induction g with
  | zero => intro data pi si x d x' _ _ h; simp only [hiLoopX] at h; cases h
  | succ g ih =>
    intro data pi si x d x' hd hx h
    unfold hiLoopX at h
    split at h
    · cases h1 : ap pi data si x with
      | none => rw [h1] at h; cases h
      | some r =>
        obtain ⟨d1, m, si', x1⟩ := r
        rw [h1] at h
        obtain ⟨hd1, hx1⟩ := hap _ _ _ _ _ _ _ _ hd hx h1
        exact ih _ _ _ _ hd1 hx1 h
    · injection h with h
      injection h with h1 h2
      subst h1; subst h2
      exact ⟨hd, hx⟩

theorem handleInlineX_P (hs : Sep Ok N) (xc : XCfg) (hnw : ∀ k ∈ xc.table, k ≠ PatK.wikilink) :
    ∀ f, HIP Ok N (handleInlineX xc f) := by
  intro f
  induction f with
  | zero => intro d p x d' x' _ _ h; simp only [handleInlineX] at h; cases h
  | succ f ih =>
    intro d p x d' x' hd hx h
    simp only [handleInlineX] at h
    exact hiLoopX_P _ (fun pi data si x d m si' x' hd hx h => applyPatternX_P hs xc hnw ih pi data si x hd hx h)
      _ _ _ _ _ hd hx h

theorem handleInlineTopX_P (hs : Sep Ok N) (xc : XCfg) (hnw : ∀ k ∈ xc.table, k ≠ PatK.wikilink) (data : Str)
    (x : XSt) (hd : Ok data) (hx : StashP Ok N x.st.stash) {d' : Str} {x' : XSt}
    (h : handleInlineTopX xc data x = some (d', x')) : Ok d' ∧ StashP Ok N x'.st.stash := by
  simp only [handleInlineTopX] at h
  exact handleInlineX_P hs xc hnw _ _ _ _ _ _ hd hx h

/-! ### `run` -/

theorem textStageX_P (hs : Sep Ok N) (xc : XCfg) (hnw : ∀ k ∈ xc.table, k ≠ PatK.wikilink) (child : Node) (x : XSt)
    (hch : DeepP Ok child) (hx : StashP Ok N x.st.stash) {c1 : Node} {lst : List Node} {x1 : XSt}
    (h : textStageX xc child x = some (c1, lst, x1)) :
    DeepP Ok c1 ∧ (∀ n ∈ lst, DeepP Ok n) ∧ StashP Ok N x1.st.stash := by
  simp only [textStageX] at h
  split at h
  · cases hh : handleInlineTopX xc (child.text.getD []) x with
    | none => rw [hh] at h; cases h
    | some r =>
      obtain ⟨data, x1'⟩ := r
      rw [hh] at h
      simp only [] at h
      obtain ⟨hd', hx'⟩ := handleInlineTopX_P hs xc hnw _ x (okP_text hs hch) hx hh
      cases hp : ppTop x1'.st data false { child with text := none, textAtomic := false } true with
      | none => rw [hp] at h; cases h
      | some q =>
        obtain ⟨lst', c1'⟩ := q
        rw [hp] at h
        injection h with h
        injection h with h1' h
        injection h with h2' h3'
        subst h1'; subst h2'; subst h3'
        have := ppTop_P hs hx' hd' (DeepP_noText hch) rfl hp
        exact ⟨this.2.1, this.1, hx'⟩
  · injection h with h
    injection h with h1' h
    injection h with h2' h3'
    subst h1'; subst h2'; subst h3'
    exact ⟨hch, (by intro n hn; cases hn), hx⟩

theorem tailFinish_P (hs : Sep Ok N) (c1 : Node) (hc1 : DeepP Ok c1) (ho : Option (Str × XSt))
    (hh : ∀ data x2', ho = some (data, x2') → Ok data ∧ StashP Ok N x2'.st.stash) :
    ∀ c2 tr x2, tailFinish c1 ho = some (c2, tr, x2) →
      DeepP Ok c2 ∧ (∀ n ∈ tr, DeepP Ok n) ∧ StashP Ok N x2.st.stash := by
  intro c2 tr x2 he
  cases ho with
  | none => cases he
  | some r =>
    obtain ⟨data, x2'⟩ := r
    obtain ⟨hd', hx'⟩ := hh data x2' rfl
    simp only [tailFinish] at he
    cases hp : ppTop x2'.st data c1.tailAtomic (mkEl "d") false with
    | none => rw [hp] at he; cases he
    | some q =>
      obtain ⟨tr', dumby⟩ := q
      rw [hp] at he
      injection he with he
      injection he with h1' he
      injection he with h2' h3'
      subst h1'; subst h2'; subst h3'
      have := ppTop_P hs hx' hd' (DeepP_mkEl "d") rfl hp
      refine ⟨?_, this.1, hx'⟩
      have hc1' := (DeepP_iff c1).mp hc1
      split
      · rw [DeepP_iff]
        exact ⟨hc1'.1, ((DeepP_iff dumby).mp this.2.1).2.1, hc1'.2.2⟩
      · exact DeepP_noTail hc1

theorem tailStageX_P (hs : Sep Ok N) (xc : XCfg) (hnw : ∀ k ∈ xc.table, k ≠ PatK.wikilink) (c1 : Node) (x1 : XSt)
    (hc1 : DeepP Ok c1) (hx1 : StashP Ok N x1.st.stash) {c2 : Node} {tr : List Node} {x2 : XSt}
    (h : tailStageX xc c1 x1 = some (c2, tr, x2)) :
    DeepP Ok c2 ∧ (∀ n ∈ tr, DeepP Ok n) ∧ StashP Ok N x2.st.stash := by
  simp only [tailStageX] at h
  split at h
  · by_cases hat : c1.tailAtomic = true
    · rw [if_pos hat] at h
      exact tailFinish_P hs c1 hc1 _ (by
        intro data x2' hh
        injection hh with hh
        injection hh with e1 e2
        subst e1; subst e2
        exact ⟨okP_tail hs hc1, hx1⟩) _ _ _ h
    · rw [if_neg hat] at h
      exact tailFinish_P hs c1 hc1 _
        (fun data x2' hh => handleInlineTopX_P hs xc hnw _ x1 (okP_tail hs hc1) hx1 hh) _ _ _ h
  · injection h with h
    injection h with h1' h
    injection h with h2' h3'
    subst h1'; subst h2'; subst h3'
    exact ⟨hc1, (by intro n hn; cases hn), hx1⟩

theorem visitChildX_P (hs : Sep Ok N) (xc : XCfg) (hnw : ∀ k ∈ xc.table, k ≠ PatK.wikilink) (child : Node)
    (v : VisitX) (hch : DeepP Ok child) (hv : StashP Ok N v.x.st.stash) {k : Node} {tr : List Node} {v' : VisitX}
    (h : visitChildX xc child v = some (k, tr, v')) :
    DeepP Ok k ∧ (∀ n ∈ tr, DeepP Ok n) ∧ StashP Ok N v'.x.st.stash ∧ v'.done = v.done := by
  rw [visitChildX_stages] at h
  cases h1 : textStageX xc child v.x with
  | none => rw [h1] at h; cases h
  | some r1 =>
    obtain ⟨c1, lst, x1⟩ := r1
    rw [h1] at h
    simp only [] at h
    obtain ⟨hc1, hlst, hx1⟩ := textStageX_P hs xc hnw child v.x hch hv h1
    cases h2 : tailStageX xc c1 x1 with
    | none => rw [h2] at h; cases h
    | some r2 =>
      obtain ⟨c2, tr2, x2⟩ := r2
      rw [h2] at h
      obtain ⟨hc2, htr, hx2⟩ := tailStageX_P hs xc hnw c1 x1 hc1 hx1 h2
      injection h with h
      injection h with h1' h
      injection h with h2' h3'
      subst h1'; subst h2'; subst h3'
      refine ⟨?_, htr, hx2, rfl⟩
      apply DeepP_children _ hc2
      intro n hn
      rcases List.mem_append.mp hn with hn | hn
      · exact hlst n hn
      · exact DeepP_kids hc2 n hn

theorem visitLoopX_P (hs : Sep Ok N) (xc : XCfg) (hnw : ∀ k ∈ xc.table, k ≠ PatK.wikilink) :
    ∀ (g : Nat) (todo : List (Node × Option Nat)) (v : VisitX),
    (∀ t ∈ todo, DeepP Ok t.1) → (∀ n ∈ v.done, DeepP Ok n) → StashP Ok N v.x.st.stash →
    ∀ {v' : VisitX}, visitLoopX xc g todo v = some v' →
      (∀ n ∈ v'.done, DeepP Ok n) ∧ StashP Ok N v'.x.st.stash := by
  intro g
  induction g with
  | zero => intro todo v _ _ _ v' h; simp only [visitLoopX] at h; cases h
  | succ g ih =>
    intro todo v ht hdone hv v' h
    cases todo with
    | nil =>
      simp only [visitLoopX] at h
      injection h with h
      exact h ▸ ⟨hdone, hv⟩
    | cons hd todo =>
      obtain ⟨child, orig⟩ := hd
      simp only [visitLoopX] at h
      cases h1 : visitChildX xc child v with
      | none => rw [h1] at h; cases h
      | some r =>
        obtain ⟨k, tr, v1⟩ := r
        rw [h1] at h
        simp only [] at h
        obtain ⟨hk, htr, hv1, hd1⟩ := visitChildX_P hs xc hnw child v (ht (child, orig) List.mem_cons_self) hv h1
        apply ih _ _ ?_ ?_ ?_ h
        · intro t htm
          rcases List.mem_append.mp htm with htm | htm
          · obtain ⟨n, hn, rfl⟩ := List.mem_map.mp htm
            exact htr n hn
          · exact ht t (List.mem_cons_of_mem _ htm)
        · intro n hn
          rcases List.mem_cons.mp hn with hn | hn
          · exact hn ▸ hk
          · exact hdone n (hd1 ▸ hn)
        · exact hv1

theorem getAt_deepP : ∀ (p : Path) {root cur : Node}, DeepP Ok root → getAt root p = some cur → DeepP Ok cur := by
  intro p
  induction p with
  | nil => intro root cur h e; simp only [getAt] at e; cases e; exact h
  | cons i p ih =>
    intro root cur h e
    simp only [getAt] at e
    split at e
    · rename_i k hk
      exact ih (DeepP_kids h k (List.mem_of_getElem? hk)) e
    · cases e

theorem setAt_deepP : ∀ (p : Path) {root new : Node}, DeepP Ok root → DeepP Ok new → DeepP Ok (setAt root p new) := by
  intro p
  induction p with
  | nil => intro root new _ hn; exact hn
  | cons i p ih =>
    intro root new h hn
    simp only [setAt]
    split
    · rename_i k hk
      apply DeepP_children _ h
      intro m hm
      rcases List.mem_or_eq_of_mem_set hm with hm | hm
      · exact DeepP_kids h m hm
      · exact hm ▸ ih (DeepP_kids h k (List.mem_of_getElem? hk)) hn
    · exact h

theorem withIdx_deepP : ∀ (l : List Node) (i : Nat), (∀ n ∈ l, DeepP Ok n) → ∀ t ∈ withIdx l i, DeepP Ok t.1 := by
  intro l
  induction l with
  | nil => intro i _ t ht; simp [withIdx] at ht
  | cons n r ih =>
    intro i hl t ht
    simp only [withIdx, List.mem_cons] at ht
    rcases ht with ht | ht
    · rw [ht]; exact hl n List.mem_cons_self
    · exact ih (i + 1) (fun m hm => hl m (List.mem_cons_of_mem _ hm)) t ht

theorem runLoopX_P (hs : Sep Ok N) (xc : XCfg) (hnw : ∀ k ∈ xc.table, k ≠ PatK.wikilink) (g2 : Nat) :
    ∀ (g : Nat) (root : Node) (stack : List Path) (x : XSt), DeepP Ok root → StashP Ok N x.st.stash →
    ∀ {r : Node} {x' : XSt}, runLoopX xc g2 g root stack x = some (r, x') →
      DeepP Ok r ∧ StashP Ok N x'.st.stash := by
  intro g
  induction g with
  | zero => intro root stack x _ _ r x' h; simp only [runLoopX] at h; cases h
  | succ g ih =>
    intro root stack x hr hx r x' h
    cases stack with
    | nil =>
      simp only [runLoopX] at h
      injection h with h
      injection h with h1 h2
      subst h1; subst h2
      exact ⟨hr, hx⟩
    | cons p stack =>
      simp only [runLoopX] at h
      cases hg : getAt root p with
      | none => rw [hg] at h; exact ih _ _ _ hr hx h
      | some cur =>
        rw [hg] at h
        simp only [] at h
        have hcur := getAt_deepP p hr hg
        cases hv : visitLoopX xc g2 (withIdx cur.children 0) { x := x } with
        | none => rw [hv] at h; cases h
        | some v =>
          rw [hv] at h
          simp only [] at h
          obtain ⟨hdone, hvx⟩ := visitLoopX_P hs xc hnw g2 (withIdx cur.children 0) { x := x }
            (withIdx_deepP _ 0 (DeepP_kids hcur)) (by intro n hn; cases hn) hx hv
          apply ih _ _ _ ?_ hvx h
          apply setAt_deepP p hr
          apply DeepP_children _ hcur
          intro n hn
          exact hdone n (List.mem_reverse.mp hn)

/-- the inline stage (without the wikilink pattern) keeps an `Ok` tree `Ok` -/
theorem runX_deepP (hs : Sep Ok N) (xc : XCfg) (hnw : ∀ k ∈ xc.table, k ≠ PatK.wikilink) (tree : Node)
    (html : List Str) (ht : DeepP Ok tree) {r : Node} {x' : XSt} (h : runX xc tree html = some (r, x')) :
    DeepP Ok r ∧ StashP Ok N x'.st.stash := by
  simp only [runX] at h
  exact runLoopX_P hs xc hnw _ _ tree [[]] { st := { html := html } } ht (by intro it hit; cases hit) h

end MdVerif.InlineX
