/-
Helper lemmas for C20 (`MdVerif/Model/Codec.lean`): the three codecs round-trip, `xmlcharrefreplace` is total,
decimal printing/reading of numbers, numeric character references read back, byte-order-mark stripping.
Core Lean only.
-/
import MdVerif.Model.Codec

namespace MdVerif.Codec
open MdVerif

/-! ### characters -/

theorem char_range (c : Char) : c.toNat < 0xD800 ∨ (0xDFFF < c.toNat ∧ c.toNat < 0x110000) := c.valid

theorem map_some_imp {α β} (f : α → β) (a b : Option α) (h : ∀ t, a = some t → b = some t) :
    ∀ t, a.map f = some t → b.map f = some t := by
  intro t ht
  cases a with
  | none => simp at ht
  | some x => rw [h x rfl]; exact ht

/-! ### UTF-8 -/

/-- decoding the UTF-8 bytes of a character gives the character back, whatever follows -/
theorem decodeUtf8_utf8Bytes (fin : Bool) (c : Char) (rest : Bytes) :
    decodeUtf8 fin (utf8Bytes c.toNat ++ rest) = (decodeUtf8 fin rest).map (c :: ·) := by
  have hr := char_range c
  generalize hn : c.toNat = n at hr
  have hc : Char.ofNat n = c := by rw [← hn, Char.ofNat_toNat]
  by_cases h1 : n < 0x80
  · rw [utf8Bytes, if_pos h1, List.singleton_append, decodeUtf8.eq_def]
    simp only [h1, if_true, hc]
  by_cases h2 : n < 0x800
  · rw [utf8Bytes, if_neg h1, if_pos h2, decodeUtf8.eq_def]
    have e1 : ¬ (0xC0 + n / 64 < 0x80) := by omega
    have e2 : ¬ (0xC0 + n / 64 < 0xC2) := by omega
    have e3 : (0xC0 + n / 64 < 0xE0) := by omega
    have e4 : isCont (0x80 + n % 64) = true := by simp [isCont]; omega
    have e5 : (0xC0 + n / 64 - 0xC0) * 64 + (0x80 + n % 64 - 0x80) = n := by omega
    simp only [List.cons_append, List.nil_append, e1, e2, e3, e4, e5, if_true, if_false, hc]
  by_cases h3 : n < 0x10000
  · rw [utf8Bytes, if_neg h1, if_neg h2, if_pos h3, decodeUtf8.eq_def]
    have e1 : ¬ (0xE0 + n / 4096 < 0x80) := by omega
    have e2 : ¬ (0xE0 + n / 4096 < 0xC2) := by omega
    have e3 : ¬ (0xE0 + n / 4096 < 0xE0) := by omega
    have e3' : (0xE0 + n / 4096 < 0xF0) := by omega
    have e4 : okSecond3 (0xE0 + n / 4096) (0x80 + n / 64 % 64) = true := by
      simp only [okSecond3, isCont]; split <;> simp <;> omega
    have e4' : isCont (0x80 + n % 64) = true := by simp [isCont]; omega
    have e5 : (0xE0 + n / 4096 - 0xE0) * 4096 + (0x80 + n / 64 % 64 - 0x80) * 64 + (0x80 + n % 64 - 0x80) = n := by
      omega
    simp only [List.cons_append, List.nil_append, e1, e2, e3, e3', e4, e4', e5, if_true, if_false, hc, Bool.and_self]
  · rw [utf8Bytes, if_neg h1, if_neg h2, if_neg h3, decodeUtf8.eq_def]
    have e1 : ¬ (0xF0 + n / 262144 < 0x80) := by omega
    have e2 : ¬ (0xF0 + n / 262144 < 0xC2) := by omega
    have e3 : ¬ (0xF0 + n / 262144 < 0xE0) := by omega
    have e3' : ¬ (0xF0 + n / 262144 < 0xF0) := by omega
    have e3'' : (0xF0 + n / 262144 < 0xF5) := by omega
    have e4 : okSecond4 (0xF0 + n / 262144) (0x80 + n / 4096 % 64) = true := by
      simp only [okSecond4, isCont]; split <;> simp <;> omega
    have e4' : isCont (0x80 + n / 64 % 64) = true := by simp [isCont]; omega
    have e4'' : isCont (0x80 + n % 64) = true := by simp [isCont]; omega
    have e5 : (0xF0 + n / 262144 - 0xF0) * 262144 + (0x80 + n / 4096 % 64 - 0x80) * 4096 +
        (0x80 + n / 64 % 64 - 0x80) * 64 + (0x80 + n % 64 - 0x80) = n := by omega
    simp only [List.cons_append, List.nil_append, e1, e2, e3, e3', e3'', e4, e4', e4'', e5, if_true, if_false, hc,
      Bool.and_self]

/-- on input that `bytes.decode` accepts, the stream reader reads the same text -/
theorem decodeUtf8_strict_imp_stream (bs : Bytes) :
    ∀ t, decodeUtf8 true bs = some t → decodeUtf8 false bs = some t := by
  fun_induction decodeUtf8 true bs
  case case1 => intro t h; rw [decodeUtf8.eq_def]; exact h
  all_goals (try (intro t h; simp at h; done))
  all_goals first
    | (rename_i h; simp at h; done)
    | (rename_i ih; intro t h; rw [decodeUtf8.eq_def]; simp only [*, if_true, if_false]
       exact map_some_imp _ _ _ ih _ h)

theorem utf8Bytes_lt (n : Nat) (h : n < 0x110000) : ∀ b ∈ utf8Bytes n, b < 256 := by
  intro b hb
  unfold utf8Bytes at hb
  split at hb
  · simp at hb; omega
  split at hb
  · simp at hb; omega
  split at hb
  · simp at hb; omega
  · simp at hb; omega

/-! ### the three codecs: one character -/

theorem decode_encodeChar (c : Codec) (ch : Char) (a rest : Bytes) (h : encodeChar c ch = some a) :
    decode c (a ++ rest) = (decode c rest).map (ch :: ·) := by
  cases c with
  | ascii =>
    simp only [encodeChar] at h
    split at h
    · rename_i hlt
      cases h
      simp [decode, decodeAscii, hlt, Char.ofNat_toNat]
    · cases h
  | latin1 =>
    simp only [encodeChar] at h
    split at h
    · rename_i hlt
      cases h
      simp [decode, decodeLatin1, hlt, Char.ofNat_toNat]
    · cases h
  | utf8 =>
    simp only [encodeChar] at h
    cases h
    exact decodeUtf8_utf8Bytes true ch rest

theorem encodeChar_lt (c : Codec) (ch : Char) (a : Bytes) (h : encodeChar c ch = some a) : ∀ b ∈ a, b < 256 := by
  cases c with
  | ascii =>
    simp only [encodeChar] at h
    split at h
    · cases h; intro b hb; simp at hb; omega
    · cases h
  | latin1 =>
    simp only [encodeChar] at h
    split at h
    · cases h; intro b hb; simp at hb; omega
    · cases h
  | utf8 =>
    simp only [encodeChar] at h
    cases h
    exact utf8Bytes_lt _ (by have := char_range ch; omega)

/-- a character below 128 is one byte in each of the three codecs -/
theorem encodeChar_ascii (c : Codec) (ch : Char) (h : ch.toNat < 128) : encodeChar c ch = some [ch.toNat] := by
  cases c
  · simp [encodeChar, h]
  · simp [encodeChar, show ch.toNat < 256 by omega]
  · simp [encodeChar, utf8Bytes, h]

/-! ### strings -/

theorem encode_cons (c : Codec) (ch : Char) (s : Str) :
    encode c (ch :: s) = match encodeChar c ch, encode c s with
                         | some a, some b => some (a ++ b)
                         | _, _ => none := rfl

theorem encode_append (c : Codec) (s t : Str) :
    encode c (s ++ t) = match encode c s, encode c t with
                        | some a, some b => some (a ++ b)
                        | _, _ => none := by
  induction s with
  | nil => cases h : encode c t <;> simp [encode, h]
  | cons ch s ih =>
    rw [List.cons_append, encode_cons, encode_cons, ih]
    cases encodeChar c ch <;> cases encode c s <;> cases encode c t <;> simp

theorem decode_encode_append (c : Codec) (s : Str) :
    ∀ (bs rest : Bytes), encode c s = some bs → decode c (bs ++ rest) = (decode c rest).map (s ++ ·) := by
  induction s with
  | nil =>
    intro bs rest h
    simp only [encode] at h
    cases h
    simp only [List.nil_append]
    cases decode c rest <;> rfl
  | cons ch s ih =>
    intro bs rest h
    rw [encode_cons] at h
    cases ha : encodeChar c ch with
    | none => simp [ha] at h
    | some a =>
      cases hb : encode c s with
      | none => simp [ha, hb] at h
      | some b =>
        simp only [ha, hb, Option.some.injEq] at h
        subst h
        rw [List.append_assoc, decode_encodeChar c ch a _ ha, ih b rest hb]
        cases decode c rest <;> simp

theorem decode_nil (c : Codec) : decode c [] = some [] := by
  cases c <;> simp [decode, decodeAscii, decodeLatin1, decodeUtf8]

theorem decode_encode (c : Codec) (s : Str) (bs : Bytes) (h : encode c s = some bs) : decode c bs = some s := by
  have := decode_encode_append c s bs [] h
  simpa [decode_nil] using this

theorem decodeStream_of_decode (c : Codec) (bs : Bytes) (t : Str) (h : decode c bs = some t) :
    decodeStream c bs = some t := by
  cases c
  · exact h
  · exact h
  · exact decodeUtf8_strict_imp_stream bs t h

theorem encode_lt (c : Codec) (s : Str) : ∀ bs, encode c s = some bs → ∀ b ∈ bs, b < 256 := by
  induction s with
  | nil => intro bs h; simp only [encode] at h; cases h; simp
  | cons ch s ih =>
    intro bs h
    rw [encode_cons] at h
    cases ha : encodeChar c ch with
    | none => simp [ha] at h
    | some a =>
      cases hb : encode c s with
      | none => simp [ha, hb] at h
      | some b =>
        simp only [ha, hb, Option.some.injEq] at h
        subst h
        intro x hx
        rcases List.mem_append.mp hx with hx | hx
        · exact encodeChar_lt c ch a ha x hx
        · exact ih b hb x hx

/-- pure-ASCII text is encodable by each of the three codecs -/
theorem encode_ascii (c : Codec) (s : Str) (h : ∀ ch ∈ s, ch.toNat < 128) : encode c s = some (s.map Char.toNat) := by
  induction s with
  | nil => rfl
  | cons ch s ih =>
    rw [encode_cons, encodeChar_ascii c ch (h ch (by simp)), ih (fun x hx => h x (by simp [hx]))]
    rfl

/-! ### decimal numbers -/

/-- value of a run of decimal digits, most significant first, continuing from `a` -/
def digitsVal (a : Nat) (s : Str) : Nat := s.foldl (fun acc c => acc * 10 + Py.decimalValue c) a

theorem digitChar_spec : ∀ d, d < 10 →
    (Py.digitChar d).toNat = 48 + d ∧ Py.isAsciiDigit (Py.digitChar d) = true ∧
      Py.decimalValue (Py.digitChar d) = d := by
  decide

theorem digitChar_mod (n : Nat) :
    Py.isAsciiDigit (Py.digitChar n) = true ∧ Py.decimalValue (Py.digitChar n) = n % 10 := by
  have h := digitChar_spec (n % 10) (Nat.mod_lt _ (by decide))
  have e : Py.digitChar n = Py.digitChar (n % 10) := by simp [Py.digitChar]
  rw [e]; exact ⟨h.2.1, h.2.2⟩

theorem natToDecAux_spec : ∀ (f n : Nat) (acc : Str), n < f →
    ∃ ds : Str, Py.natToDecAux f n acc = ds ++ acc ∧ ds ≠ [] ∧ (∀ c ∈ ds, Py.isAsciiDigit c = true) ∧
      ∃ m, ∀ a, digitsVal a ds = a * m + n := by
  intro f
  induction f with
  | zero => intro n acc h; omega
  | succ f ih =>
    intro n acc h
    have hd := digitChar_mod n
    by_cases h10 : n < 10
    · refine ⟨[Py.digitChar n], by simp [Py.natToDecAux, h10], by simp, by simpa using hd.1, 10, ?_⟩
      intro a; simp [digitsVal, hd.2]; omega
    · obtain ⟨ds, e, hne, hall, m, hm⟩ := ih (n / 10) (Py.digitChar n :: acc) (by omega)
      refine ⟨ds ++ [Py.digitChar n], by simp [Py.natToDecAux, h10, e], by simp, ?_, m * 10, ?_⟩
      · intro c hc
        rcases List.mem_append.mp hc with hc | hc
        · exact hall c hc
        · simp at hc; rw [hc]; exact hd.1
      · intro a
        simp only [digitsVal, List.foldl_append, List.foldl_cons, List.foldl_nil] at hm ⊢
        rw [hm a, hd.2, ← Nat.mul_assoc]; omega

/-- `str(n)` is a non-empty run of ASCII digits and `int(str(n)) = n` -/
theorem natToDec_spec (n : Nat) :
    Py.natToDec n ≠ [] ∧ (∀ c ∈ Py.natToDec n, Py.isAsciiDigit c = true) ∧ Py.decToNat (Py.natToDec n) = n := by
  obtain ⟨ds, e, hne, hall, m, hm⟩ := natToDecAux_spec (n + 1) n [] (by omega)
  rw [List.append_nil] at e
  refine ⟨by rw [Py.natToDec, e]; exact hne, by rw [Py.natToDec, e]; exact hall, ?_⟩
  have := hm 0
  rw [Py.natToDec, e]
  simpa [digitsVal, Py.decToNat] using this

theorem isAsciiDigit_range (c : Char) (h : Py.isAsciiDigit c = true) : 48 ≤ c.toNat ∧ c.toNat ≤ 57 := by
  simp only [Py.isAsciiDigit, Bool.and_eq_true, decide_eq_true_eq] at h
  exact ⟨h.1, h.2⟩

/-! ### `xmlcharrefreplace` -/

theorem charref_ascii (ch : Char) : ∀ x ∈ charref ch, x.toNat < 128 := by
  intro x hx
  simp only [charref, List.mem_cons, List.mem_append, List.mem_nil_iff, or_false] at hx
  rcases hx with rfl | rfl | hx | rfl
  · decide
  · decide
  · have := isAsciiDigit_range x ((natToDec_spec ch.toNat).2.1 x hx); omega
  · decide

theorem encodeCharX_isSome (c : Codec) (ch : Char) : ∃ a, encodeCharX c ch = some a := by
  unfold encodeCharX
  cases h : encodeChar c ch with
  | some a => exact ⟨a, rfl⟩
  | none => exact ⟨_, encode_ascii c _ (charref_ascii ch)⟩

/-- `encodeX` is the strict encoding of the text with the references spelled out -/
theorem encodeX_eq (c : Codec) (s : Str) : encodeX c s = encode c (xref c s) := by
  induction s with
  | nil => rfl
  | cons ch s ih =>
    have hx : xref c (ch :: s) = (if (encodeChar c ch).isSome then [ch] else charref ch) ++ xref c s := by
      simp [xref]
    rw [hx, encode_append, ← ih]
    show (match encodeCharX c ch, encodeX c s with
          | some a, some b => some (a ++ b)
          | _, _ => none) = _
    unfold encodeCharX
    cases h : encodeChar c ch with
    | some a =>
      have : encode c [ch] = some a := by simp [encode, h]
      simp [this]
    | none => simp

theorem encodeX_total (c : Codec) (s : Str) : ∃ bs, encodeX c s = some bs := by
  induction s with
  | nil => exact ⟨[], rfl⟩
  | cons ch s ih =>
    obtain ⟨b, hb⟩ := ih
    obtain ⟨a, ha⟩ := encodeCharX_isSome c ch
    exact ⟨a ++ b, by simp [encodeX, ha, hb]⟩

/-! ### reading references back -/

theorem decodeRefsAux_skip (pre rest : Str) : decodeRefsAux pre.length (pre ++ rest) = decodeRefsAux 0 rest := by
  induction pre with
  | nil => rfl
  | cons c pre ih => simpa [decodeRefsAux] using ih

theorem decodeRefsAux_plain (ch : Char) (rest : Str) (h : ch ≠ '&') :
    decodeRefsAux 0 (ch :: rest) = ch :: decodeRefsAux 0 rest := by
  simp [decodeRefsAux, h]

theorem spanLen_digits (ds rest : Str) (h : ∀ c ∈ ds, Py.isAsciiDigit c = true) :
    Py.spanLen Py.isAsciiDigit (ds ++ ';' :: rest) = ds.length := by
  induction ds with
  | nil => simp [Py.spanLen]; decide
  | cons c ds ih =>
    simp [Py.spanLen, h c (by simp), ih (fun x hx => h x (by simp [hx]))]

theorem decodeRefsAux_charref (ch : Char) (rest : Str) :
    decodeRefsAux 0 (charref ch ++ rest) = ch :: decodeRefsAux 0 rest := by
  obtain ⟨hne, hall, hval⟩ := natToDec_spec ch.toNat
  generalize hds : Py.natToDec ch.toNat = ds at hne hall hval
  have e : charref ch ++ rest = '&' :: '#' :: (ds ++ ';' :: rest) := by simp [charref, hds]
  have hk := spanLen_digits ds rest hall
  have hpos : 0 < ds.length := List.length_pos_iff.mpr hne
  have hskip := decodeRefsAux_skip ('#' :: (ds ++ [';'])) rest
  simp only [List.length_cons, List.length_append, List.length_nil, List.cons_append, List.append_assoc,
    List.nil_append] at hskip
  rw [e, decodeRefsAux]
  simp only [if_true, hk, hpos, decide_true, Bool.true_and, List.drop_left, List.head?_cons, List.take_left, hval,
    Char.ofNat_toNat, hskip]

theorem decodeRefs_xref (c : Codec) (s : Str) (h : '&' ∉ s) : decodeRefs (xref c s) = s := by
  unfold decodeRefs
  induction s with
  | nil => rfl
  | cons ch s ih =>
    have hx : xref c (ch :: s) = (if (encodeChar c ch).isSome then [ch] else charref ch) ++ xref c s := by
      simp [xref]
    have hne : ch ≠ '&' := fun e => h (by simp [e])
    have ih' := ih (fun hm => h (by simp [hm]))
    rw [hx]
    split
    · rw [List.singleton_append, decodeRefsAux_plain _ _ hne, ih']
    · rw [decodeRefsAux_charref, ih']

/-! ### byte-order mark -/

theorem stripBom_replicate (k : Nat) (s : Str) : stripBom (List.replicate k bom ++ s) = stripBom s := by
  induction k with
  | zero => rfl
  | succ k ih => simpa [stripBom, Py.lstripC, Py.lstripP, List.replicate_succ] using ih

theorem stripBom_id (s : Str) (h : s.head? ≠ some bom) : stripBom s = s := by
  cases s with
  | nil => rfl
  | cons c s =>
    have : c ≠ bom := fun e => h (by simp [e])
    simp [stripBom, Py.lstripC, Py.lstripP, this]

theorem stripBom_head (s : Str) : (stripBom s).head? ≠ some bom := by
  induction s with
  | nil => simp [stripBom, Py.lstripC, Py.lstripP]
  | cons c s ih =>
    by_cases hc : c = bom
    · simpa [stripBom, Py.lstripC, Py.lstripP, hc] using ih
    · simp [stripBom, Py.lstripC, Py.lstripP, hc]

end MdVerif.Codec
