/-
Helper lemmas for `Props/C02Big.lean`, section 8: the extension pipeline on the provably sufficient fuel WITH fenced_code
(the raw-HTML preprocessor only re-spells character references, which leaves the placeholders blocks of their own).

* `prepareX_fenced`      — what the preprocessors hand on: every placeholder a block of its own, entries `<pre…` without
                           STX/ETX;
* `blockStageX_deepF`    — the tree handed to the inline stage holds no inline placeholder (the raw-HTML placeholders
                           of the fenced blocks are paragraphs of their own);
* `convertXBig_ne_oof_fenced` — `convertXBig` never answers `oof`: the raw-HTML restore terminates with the `<pre…`
                           entries as well (`NoCtl.rawHtml_totalL`).
Core Lean only.
-/
import MdVerif.Lemmas.C02BigXAll
import MdVerif.Lemmas.C02BigFBlock
import MdVerif.Lemmas.C02BigFPre
import MdVerif.Lemmas.C02BigFRaw
import MdVerif.Lemmas.C02BigFAmp
import MdVerif.Lemmas.PlaceholdersXRaw

namespace MdVerif.C02BigX
open Py Pipeline PipelineX NoCtl

theorem normalize_no_amp {tab : Nat} {src : Str} (h : '&' ∉ src) : '&' ∉ Normalize.normalize tab src := by
  intro hm
  rcases (Normalize.mem_normalize hm).1 with e | e | e
  · revert e; decide
  · revert e; decide
  · exact h e

/-- the preprocessors with fenced_code: `HtmlBlockPreprocessor` re-spells character references (`;` behind `&#38`),
    which keeps every placeholder a block of its own (`C02BigAmp.ownBlock_extract`) -/
theorem prepareX_fenced {x : Exts} {cfg : Cfg} {src text : Str} {stash : List Str} (hf : x.fencedCode = true)
    (h : prepareX x cfg src = .ok (text, stash)) :
    NoCtlF.OwnBlock stash.length text ∧ (∀ e ∈ stash, NoCtl e) ∧ ∀ e ∈ stash, NoCtlX.PreEntry e := by
  have hpre := (NoCtlX.prepareX_stash h).1
  unfold prepareX at h
  simp only [hf, if_true] at h
  split at h
  · cases h
  · split at h
    · cases h
    · split at h
      · next t' st hr =>
        simp only [FootnotesTree.R.ok.injEq, Prod.mk.injEq] at h
        obtain ⟨rfl, rfl⟩ := h
        obtain ⟨h1, h3⟩ := NoCtlXF.XT.fencedRunA_own0 hr (normalize_noctl cfg.tab src)
        exact ⟨C02BigAmp.ownBlock_extract h1, h3, hpre⟩
      · cases h

theorem idsLt0_of_tq {s : Str} (h : NoCtlXF.XT.Tq s) : Inline.IdsLt 0 s := by
  have : Inline.idsOf s = [] := by
    apply Inline.idsOf_nil_of
    intro r hr
    obtain ⟨pre, hp⟩ := hr
    exact (noPair_iff.1 h) pre r hp.symm
  intro id hid
  rw [this] at hid; cases hid

theorem qd_of_xinv {n : Node} (h : BlkX.XInv Blk.okc Blk.okc NoCtlXF.XT.Tq n) : QD n := by
  obtain ⟨hn, _⟩ := h
  refine qd_mk ?_ ?_
  · intro s hs
    have ht := hn.text
    by_cases hat : n.textAtomic = true
    · rw [if_pos hat, hs] at ht
      exact idsLt0_of_noCtl (allC_okc ht)
    · rw [if_neg hat, hs] at ht
      exact idsLt0_of_tq ht
  · intro s hs
    have ht := hn.tail
    rw [hs] at ht
    exact idsLt0_of_tq ht

/-- **the tree handed to the inline stage holds no inline placeholder, with fenced_code** (`tab_length ≥ 1`); the HTML stash holds the `<pre…` entries -/
theorem blockStageX_deepF {x : Exts} {cfg : Cfg} {src : Str} (hf : x.fencedCode = true)
    (htab : 0 < cfg.tab) {root : Node} {log : Block.Refs} {stash : List Str}
    (h : blockStageX x cfg src = .ok (root, log, stash)) :
    InlineN.Deep (Inline.IdsLt 0) root ∧ ∀ e ∈ stash, EntryLt e := by
  simp only [blockStageX] at h
  split at h
  · cases h
  · cases h
  · next text stash' hp =>
    obtain ⟨hown, hnc, hpre⟩ := prepareX_fenced hf hp
    have hstash : ∀ e ∈ stash', EntryLt e := by
      intro e he
      obtain ⟨r, rfl⟩ := hpre e he
      exact entryLt_pre (hnc _ he)
    split at h
    · cases h
    · next root0 log0 hpd =>
      letI : NoCtlF.HtmlBound := ⟨stash'.length, false, false⟩
      obtain ⟨hroot0, hlog0⟩ := NoCtlXF.XT.block_stage_own_q x.tables x.blockCfg htab hown hpd
      have hr0 : root0.Forall QD := Node.Forall.mono (fun _ hn => qd_of_xinv hn) root0 hroot0
      cases hfn : x.footnotes with
      | false =>
        simp only [fnStageX, hfn, Bool.false_eq_true, if_false, FootnotesTree.R.ok.injEq, Prod.mk.injEq] at h
        obtain ⟨rfl, rfl, rfl⟩ := h
        exact ⟨hr0, hstash⟩
      | true =>
        simp only [fnStageX, hfn, if_true] at h
        cases hm : FootnotesTree.makeDiv (parseChunkX x cfg) fnCount (BlockExt.footnotesOf log0) log0 with
        | oof => rw [hm] at h; cases h
        | ood => rw [hm] at h; cases h
        | ok r =>
          obtain ⟨div, log1⟩ := r
          rw [hm] at h
          cases div with
          | none =>
            simp only [FootnotesTree.R.ok.injEq, Prod.mk.injEq] at h
            obtain ⟨rfl, rfl, rfl⟩ := h
            exact ⟨hr0, hstash⟩
          | some d =>
            simp only [FootnotesTree.R.ok.injEq, Prod.mk.injEq] at h
            obtain ⟨rfl, rfl, rfl⟩ := h
            exact ⟨placeDiv_forall qd_untail qd_kids hr0 (makeDiv_deep x cfg hlog0 hm d rfl), hstash⟩

/-- the HTML stash after `runXBig`: the entries it was given and entity references -/
theorem runXBig_html_lt {xc : InlineX.XCfg} {tree t : Node} {html : List Str} {xs : InlineX.XSt}
    (hh : ∀ e ∈ html, EntryLt e) (h : runXBig xc tree html = some (t, xs)) : ∀ e ∈ xs.st.html, EntryLt e := by
  unfold runXBig at h
  exact InlineX.Html.runLoopX_htmlP (P := EntryLt) (fun _ he => entryLt_of_entityLike he) xc _ _ _ _ _ _ h hh

theorem rawHtml_ne_noneL {bl : List Str} {stash : List Str} (he : ∀ e ∈ stash, EntryLt e) (s : Str) :
    Post.rawHtml bl stash (Post.rawHtmlFuel stash) s ≠ none := by
  obtain ⟨out, hout⟩ := rawHtml_totalL (bl := bl) he s
  simp [hout]

theorem postX_ne_noneL (x : Exts) (cfg : Cfg) {stash : List Str} (he : ∀ e ∈ stash, EntryLt e) (s : Str) :
    postX x cfg stash s ≠ none := by
  obtain ⟨out, hout⟩ := rawHtml_totalL (bl := cfg.blockLevel) he s
  simp [postX, hout]

/-- **`convertXBig` never answers `oof` with fenced_code** (no wikilinks; `tab_length ≥ 1`) -/
theorem convertXBig_ne_oof_fenced {x : Exts} {cfg : Cfg} (src : Str) (hw : x.wikilinks = false)
    (hf : x.fencedCode = true) (htab : 0 < cfg.tab) : convertXBig x cfg src ≠ .oof := by
  unfold convertXBig
  split
  · intro h; cases h
  · split
    · intro h; cases h
    · split
      · intro h; cases h
      · unfold treeXBig
        cases hb : blockStageX x cfg src with
        | oof => exact absurd hb (blockStageX_ne_oof x cfg src (fun _ => htab))
        | ood => intro h; cases h
        | ok r =>
          obtain ⟨root, log, stash⟩ := r
          obtain ⟨hdeep, hst⟩ := blockStageX_deepF hf htab hb
          obtain ⟨⟨t, xs⟩, hr⟩ := runXBig_total_nowiki cfg log hw stash hdeep
          have hent := runXBig_html_lt hst hr
          simp only [hr]
          cases hl : lateStageX x cfg log t xs with
          | oof =>
            exfalso
            obtain ⟨-, t', -, -, s, hs⟩ := lateStageX_oof hl
            exact rawHtml_ne_noneL hent s hs
          | err => intro h; cases h
          | ood => intro h; cases h
          | ok u html =>
            have := lateStageX_ok hl
            subst this
            simp only [finishX]
            split
            · intro h; cases h
            · next s0 _ =>
              cases hp : postX x cfg xs.st.html s0 with
              | none => exact absurd hp (postX_ne_noneL x cfg hent s0)
              | some r => intro h; cases h

end MdVerif.C02BigX
