/-
Helper lemmas for C03 with extensions enabled (`Props/C03X.lean`), continued: the stages after the block parser on the
tree of a document of paragraphs and indented code blocks.  Core Lean only.

Z1. the inline processor (`runX_docTree`, through `RenderX.runX_quiet`), `duplicates`
Z2. `PrettifyTreeprocessor` (`prettify_docTree`)
Z3. attr_list, toc, unescape, the serializer on the prettified tree (`docTreeP`)
-/
import MdVerif.Lemmas.CodeXDoc
import MdVerif.Lemmas.RenderX

namespace MdVerif.CodeX
open Py Block BlockExt CodeLaw Pipeline PipelineX

/-! ### Z1. the inline processor -/

theorem docRoot_eq (items : List CItem) :
    appendKids (Node.el "div") (docKids items) = ⟨.name ['d', 'i', 'v'], [], none, false, docKids items, none, false⟩ := by
  simp [appendKids, Node.el]

open FencedPipe RenderX in
theorem quietKids_docKids (items : List CItem) (h : ∀ it ∈ items, it.ok = true) :
    quietKids true (docKids items) = true := by
  induction items with
  | nil => rfl
  | cons it r ih =>
    have ih' := ih (fun x hx => h x (List.mem_cons_of_mem _ hx))
    have hf := CItem.facts (h it List.mem_cons_self)
    cases it with
    | para p =>
      obtain ⟨c0, r0, rfl, hc0, hw⟩ := isParaLine_spec (hf.para p rfl)
      have hq : quietStr true (c0 :: r0) = true := by
        have hnl : '\n' ∉ c0 :: r0 := fun hm => wordSp_ne (hw _ hm) (by decide) rfl
        have hstx : Inline.STX ∉ c0 :: r0 := fun hm => wordSp_ne (hw _ hm) (by decide) rfl
        have h1 : (c0 :: r0).all quietCh = true := by
          rw [List.all_eq_true]; intro c hc
          have := hw c hc
          simp only [quietCh, Bool.and_eq_true, bne_iff_ne, ne_eq]
          exact ⟨⟨⟨⟨⟨⟨wordSp_ne this (by decide), wordSp_ne this (by decide)⟩, wordSp_ne this (by decide)⟩,
            wordSp_ne this (by decide)⟩, wordSp_ne this (by decide)⟩, wordSp_ne this (by decide)⟩,
            wordSp_ne this (by decide)⟩
        have h2 : find [' ', ' ', '\n'] (c0 :: r0) = none := by
          rw [find_none_iff]; intro pre post e; apply hnl; rw [e]; simp
        have h3 : (c0 :: r0).contains '\n' = false := by
          rw [Bool.eq_false_iff]; intro hc; exact hnl (by simpa using hc)
        simp only [quietStr, h1, h2, h3, find_phPrefix_none _ hstx, Option.isNone_none, Bool.not_false, Bool.or_true,
          Bool.and_self]
      simp only [docKids, quietKids, ih', Bool.and_true]
      simp [mkText, Node.el, quietTree, quietKids, hq, Node.truthy]
    | code f m =>
      simp only [docKids, quietKids, ih', Bool.and_true]
      simp [codePre, Node.el, quietTree, quietKids, Node.truthy]

open FencedPipe in
/-- **the inline processor, whatever patterns the extensions add, leaves the tree of the document alone**: the
    paragraphs are plain words, the code texts are `AtomicString`s -/
theorem runX_docTree (cfg : Inline.Cfg) (a b c : Bool) (keys : List Str) (items : List CItem)
    (h : ∀ it ∈ items, it.ok = true) :
    InlineX.runX { cfg := cfg, table := InlineX.table a b c, fnKeys := keys }
        (appendKids (Node.el "div") (docKids items)) [] =
      some (appendKids (Node.el "div") (docKids items), { st := { html := [] } }) :=
  RenderX.runX_quiet _ true (fun _ => rfl) (FencedPipe.table_length a b c) _ [] (by
    rw [docRoot_eq]; exact quietKids_docKids items h)

theorem duplicatesKids_docKids (fn : Footnotes.State) (items : List CItem) :
    FootnotesTree.duplicatesKids fn (docKids items) = some (docKids items) := by
  induction items with
  | nil => rfl
  | cons it r ih =>
    cases it with
    | para p =>
      simp only [docKids, FootnotesTree.duplicatesKids, ih]
      simp [mkText, Node.el, FootnotesTree.duplicates, FootnotesTree.duplicatesKids]
    | code f m =>
      simp only [docKids, FootnotesTree.duplicatesKids, ih]
      simp [codePre, Node.el, FootnotesTree.duplicates, FootnotesTree.duplicatesKids]

theorem duplicates_docTree (fn : Footnotes.State) (items : List CItem) :
    FootnotesTree.duplicates fn (appendKids (Node.el "div") (docKids items)) =
      some (appendKids (Node.el "div") (docKids items)) := by
  rw [docRoot_eq]
  simp [FootnotesTree.duplicates, duplicatesKids_docKids]

/-! ### Z2. `PrettifyTreeprocessor` -/

/-- `<pre><code>t</code></pre>` after `prettify` -/
def preNodeP (t : Str) : Node :=
  ⟨.name ['p', 'r', 'e'], [], none, false, [⟨.name ['c', 'o', 'd', 'e'], [], some t, true, [], none, false⟩],
    some ['\n'], false⟩

/-- the child of the root for an item, after `prettify` -/
def CItem.kidP : CItem → Node
  | .para p => FencedPipe.pNode p
  | .code f m => preNodeP (Code.codeEscape (trimSpec f m) ++ ['\n'])

/-- the tree of the document after `prettify` -/
def docTreeP (items : List CItem) : Node :=
  ⟨.name ['d', 'i', 'v'], [], some ['\n'], false, items.map CItem.kidP, some ['\n'], false⟩

open Code in
theorem prettified_codeAccum' (first : List Str) (more : List (Nat × List Str)) :
    rstrip (codeAccum first more) ++ ['\n'] = Code.codeEscape (trimSpec first more) ++ ['\n'] := by
  have h3 : (['\n'] : Str).all isSpace = true := by decide
  rw [codeAccum_eq]
  unfold rstrip at *
  rw [rstripP_append_of_all h3]
  exact congrArg (· ++ ['\n']) (rstrip_codeEscape _)

theorem rstrip_codeText (f : List Str) (m : List (Nat × List Str)) (b : Bool) :
    rstrip (codeAccum f m ++ (if b then ['\n', '\n'] else [])) ++ ['\n'] = Code.codeEscape (trimSpec f m) ++ ['\n'] := by
  cases b with
  | true => exact prettified_codeAccum f m
  | false => simpa using prettified_codeAccum' f m

/-- the children after `_prettifyETree` -/
def docKids1 : List CItem → List Node
  | [] => []
  | .para p :: r => FencedPipe.pNode p :: docKids1 r
  | .code f m :: r =>
    { codePre (codeAccum f m ++ (if r.isEmpty then ['\n', '\n'] else [])) with tail := some ['\n'] } :: docKids1 r

open FencedPipe in
theorem prettifyKids_docKids (items : List CItem) (h : ∀ it ∈ items, it.ok = true) :
    TreeProc.prettifyKids TreeProc.defaultBlockLevel (docKids items) = docKids1 items := by
  induction items with
  | nil => rfl
  | cons it r ih =>
    have ih' := ih (fun x hx => h x (List.mem_cons_of_mem _ hx))
    have hf := CItem.facts (h it List.mem_cons_self)
    cases it with
    | para p =>
      obtain ⟨c0, r0, rfl, hc0, hw⟩ := isParaLine_spec (hf.para p rfl)
      simp only [docKids, docKids1, TreeProc.prettifyKids, ih']
      simp [mkText, Node.el, bl_p, TreeProc.prettifyETree, TreeProc.prettifyKids, TreeProc.blankOrNone, Node.truthy, pNode]
    | code f m =>
      simp only [docKids, docKids1, TreeProc.prettifyKids, ih']
      simp [codePre, Node.el, bl_pre, TreeProc.prettifyETree, TreeProc.blankOrNone, Node.truthy]

theorem mapKids_brRule_docKids1 (items : List CItem) :
    TreeProc.mapKids TreeProc.brRule (docKids1 items) = docKids1 items := by
  induction items with
  | nil => rfl
  | cons it r ih =>
    cases it with
    | para p =>
      simp only [docKids1, TreeProc.mapKids, ih]
      simp [FencedPipe.pNode, TreeProc.mapTree, TreeProc.mapKids, TreeProc.brRule, TreeProc.tagIs]
    | code f m =>
      simp only [docKids1, TreeProc.mapKids, ih]
      simp [codePre, Node.el, TreeProc.mapTree, TreeProc.mapKids, TreeProc.brRule, TreeProc.tagIs]

theorem mapKids_preRule_docKids1 (items : List CItem) :
    TreeProc.mapKids TreeProc.preRule (docKids1 items) = items.map CItem.kidP := by
  induction items with
  | nil => rfl
  | cons it r ih =>
    cases it with
    | para p =>
      simp only [docKids1, TreeProc.mapKids, ih, List.map_cons, CItem.kidP]
      simp [FencedPipe.pNode, TreeProc.mapTree, TreeProc.mapKids, TreeProc.preRule, TreeProc.tagIs]
    | code f m =>
      simp only [docKids1, TreeProc.mapKids, ih, List.map_cons, CItem.kidP]
      have := List.append_cancel_right (rstrip_codeText f m r.isEmpty)
      by_cases hr : r = []
      · subst hr
        simp only [List.isEmpty_nil, if_true] at this ⊢
        simp [codePre, Node.el, TreeProc.mapTree, TreeProc.mapKids, TreeProc.preRule, TreeProc.tagIs, preNodeP, this]
      · have hre : r.isEmpty = false := by simpa using hr
        simp only [hre, Bool.false_eq_true, if_false, List.append_nil] at this ⊢
        simp [codePre, Node.el, TreeProc.mapTree, TreeProc.mapKids, TreeProc.preRule, TreeProc.tagIs, preNodeP, this]

open FencedPipe in
/-- **`PrettifyTreeprocessor` on the tree of the document**: line feeds between the blocks, and every code text
    right-trimmed with one line feed — the escaped `trimSpec` of its block -/
theorem prettify_docTree (items : List CItem) (hne : items ≠ []) (h : ∀ it ∈ items, it.ok = true) :
    TreeProc.prettify (appendKids (Node.el "div") (docKids items)) = docTreeP items := by
  have hfirst : (match docKids items with | c :: _ => TreeProc.isBlockLevel TreeProc.defaultBlockLevel c.tag | [] => false) = true := by
    cases items with
    | nil => exact absurd rfl hne
    | cons it r =>
      cases it with
      | para p => simp [docKids, mkText, Node.el, bl_p]
      | code f m => simp [docKids, codePre, Node.el, bl_pre]
  have h1 : TreeProc.prettifyETree TreeProc.defaultBlockLevel (appendKids (Node.el "div") (docKids items)) =
      ⟨.name ['d', 'i', 'v'], [], some ['\n'], false, docKids1 items, some ['\n'], false⟩ := by
    rw [docRoot_eq]
    simp only [TreeProc.prettifyETree, prettifyKids_docKids items h]
    simp [bl_div, TreeProc.blankOrNone, Node.truthy]
    exact hfirst
  unfold TreeProc.prettify
  rw [h1]
  simp only [TreeProc.mapTree, mapKids_brRule_docKids1]
  have hb : TreeProc.brRule ⟨.name ['d', 'i', 'v'], [], some ['\n'], false, docKids1 items, some ['\n'], false⟩ =
      ⟨.name ['d', 'i', 'v'], [], some ['\n'], false, docKids1 items, some ['\n'], false⟩ := by
    simp [TreeProc.brRule, TreeProc.tagIs]
  rw [hb]
  simp only [TreeProc.mapTree, mapKids_preRule_docKids1]
  simp [TreeProc.preRule, TreeProc.tagIs, docTreeP]

/-! ### Z3. attr_list, toc, unescape and the serializer on the prettified tree -/

structure ParaFacts (p : Str) : Prop where
  ne : p ≠ []
  nl : '\n' ∉ p
  br : '[' ∉ p
  stx : Char.ofNat 2 ∉ p
  plain : ∀ c ∈ p, c ≠ '&' ∧ c ≠ '<' ∧ c ≠ '>'

open FencedPipe in
theorem paraFacts {p : Str} (h : isParaLine p = true) : ParaFacts p := by
  obtain ⟨c0, r0, rfl, hc0, hw⟩ := isParaLine_spec h
  exact ⟨by simp, fun hm => wordSp_ne (hw _ hm) (by decide) rfl, fun hm => wordSp_ne (hw _ hm) (by decide) rfl,
    fun hm => wordSp_ne (hw _ hm) (by decide) rfl,
    fun c hc => ⟨wordSp_ne (hw c hc) (by decide), wordSp_ne (hw c hc) (by decide), wordSp_ne (hw c hc) (by decide)⟩⟩

theorem attrNode_preNodeP (t : Str) :
    AttrListTree.attrNode TreeProc.defaultBlockLevel none (preNodeP t) = preNodeP t := by
  have hbl2 : TreeProc.isBlockLevel TreeProc.defaultBlockLevel (.name ['p', 'r', 'e']) = true := CodeLaw.bl_pre
  have hbl3 : TreeProc.isBlockLevel TreeProc.defaultBlockLevel (.name ['c', 'o', 'd', 'e']) = false := CodeLaw.bl_code
  have hh' : AttrListTree.isCellTag (.name ['p', 'r', 'e']) = false := by decide
  have hh2' : AttrListTree.isHeaderTag (.name ['p', 'r', 'e']) = false := by decide
  have hli' : (Tag.name ['p', 'r', 'e'] == Tag.name "li".toList) = false := by decide
  simp only [preNodeP, AttrListTree.attrNode, AttrListTree.attrKids, hbl2, hbl3, if_true, AttrListTree.blockRule,
    List.isEmpty_cons, Bool.not_false, Bool.true_and, Node.truthy, hh', hh2', hli', Bool.or_self,
    Bool.false_eq_true, if_false, List.getLast?_singleton, Option.bind_some, Bool.and_false]

open FencedPipe in
theorem attrKids_docKidsP (items : List CItem) (h : ∀ it ∈ items, it.ok = true) :
    ∀ i, AttrListTree.attrKids TreeProc.defaultBlockLevel none i (items.map CItem.kidP) = items.map CItem.kidP := by
  induction items with
  | nil => intro i; rfl
  | cons it r ih =>
    intro i
    have ih' := ih (fun x hx => h x (List.mem_cons_of_mem _ hx))
    have hf := CItem.facts (h it List.mem_cons_self)
    cases it with
    | para p =>
      have pf := paraFacts (hf.para p rfl)
      simp only [List.map_cons, AttrListTree.attrKids, ih', CItem.kidP, attrNode_pNode p pf.ne pf.nl]
    | code f m =>
      simp only [List.map_cons, AttrListTree.attrKids, ih', CItem.kidP, attrNode_preNodeP]

theorem kidP_tail (it : CItem) : it.kidP.tail = some ['\n'] := by
  cases it <;> rfl

open FencedPipe in
/-- `attr_list` finds no attribute list in the document: it reads the paragraphs (one line each: `BLOCK_RE` needs a
    second line) and the `"\n"` tails, never a code text -/
theorem attrList_docTreeP (items : List CItem) (hne : items ≠ []) (h : ∀ it ∈ items, it.ok = true) :
    AttrListTree.run TreeProc.defaultBlockLevel (docTreeP items) = docTreeP items := by
  have hk := attrKids_docKidsP items h 0
  have hbs : AttrList.blockSearch ['\n'] = none := by decide
  have hbl : TreeProc.isBlockLevel TreeProc.defaultBlockLevel (.name ['d', 'i', 'v']) = true := CodeLaw.bl_div
  have hlast : ((items.map CItem.kidP).getLast?).bind (·.tail) = some ['\n'] := by
    rw [List.getLast?_map]
    cases hl : items.getLast? with
    | none => simp at hl; exact absurd hl hne
    | some q => simp [kidP_tail]
  have hne' : (items.map CItem.kidP).isEmpty = false := by
    cases items with
    | nil => exact absurd rfl hne
    | cons _ _ => rfl
  have hba := blockApply_none [] ['\n'] hbs
  have hh : AttrListTree.isCellTag (.name ['d', 'i', 'v']) = false := by decide
  have hh2 : AttrListTree.isHeaderTag (.name ['d', 'i', 'v']) = false := by decide
  have hli : (Tag.name ['d', 'i', 'v'] == Tag.name "li".toList) = false := by decide
  unfold AttrListTree.run docTreeP
  simp only [AttrListTree.attrNode, hbl, if_true, AttrListTree.blockRule, hlast, hne', Bool.not_false, Bool.true_and,
    Node.truthy, hh, hh2, Bool.or_self, hli, hba, hk, Bool.false_eq_true, if_false, Option.getD_some]

open FencedPipe in
theorem walkKids_docKidsP (env : TocTree.Env) (st : TocTree.St) (items : List CItem) :
    TocTree.walkKids env (items.map CItem.kidP) st = .ok (items.map CItem.kidP, st) := by
  induction items with
  | nil => rfl
  | cons it r ih =>
    cases it with
    | para p => simp only [List.map_cons, TocTree.walkKids, CItem.kidP, walkNode_pNode, ih]
    | code f m =>
      have : TocTree.walkNode env (preNodeP (Code.codeEscape (trimSpec f m) ++ ['\n'])) st =
          .ok (preNodeP (Code.codeEscape (trimSpec f m) ++ ['\n']), st) := by
        simp [preNodeP, TocTree.walkNode, TocTree.walkKids, TocTree.isHeaderTag]
      simp only [List.map_cons, TocTree.walkKids, CItem.kidP, this, ih]

open FencedPipe in
theorem replKids_docKidsP (div : Node) (items : List CItem) (h : ∀ it ∈ items, it.ok = true) :
    TocTree.replKids div (items.map CItem.kidP) = items.map CItem.kidP := by
  induction items with
  | nil => rfl
  | cons it r ih =>
    have ih' := ih (fun x hx => h x (List.mem_cons_of_mem _ hx))
    have hf := CItem.facts (h it List.mem_cons_self)
    cases it with
    | para p =>
      have pf := paraFacts (hf.para p rfl)
      have hm := stripMarker_ne p pf.br
      have e1 : (pNode p).tag = .name ['p'] := rfl
      have e2 : (pNode p).text = some p := rfl
      have e3 : TocTree.replNode div (pNode p) = pNode p := by simp [pNode, TocTree.replNode, TocTree.replKids]
      simp only [List.map_cons, TocTree.replKids, ih', CItem.kidP, e1, e2, e3,
        Option.getD_some, hm, Bool.false_and, Bool.and_false, Bool.false_eq_true, if_false]
      simp [TocTree.isHeaderTag]
    | code f m =>
      simp only [List.map_cons, TocTree.replKids, ih', CItem.kidP]
      simp [preNodeP, TocTree.isHeaderTag]

theorem idsOfKids_docKidsP (items : List CItem) : TocTree.idsOfKids (items.map CItem.kidP) = [] := by
  induction items with
  | nil => rfl
  | cons it r ih =>
    cases it with
    | para p => simp [TocTree.idsOfKids, TocTree.idsOf, CItem.kidP, FencedPipe.pNode, ih]
    | code f m => simp [TocTree.idsOfKids, TocTree.idsOf, CItem.kidP, preNodeP, ih]

/-- `toc` finds no heading and no marker in the document: `pre` and `code` are never looked into -/
theorem toc_docTreeP (env : TocTree.Env) (items : List CItem) (h : ∀ it ∈ items, it.ok = true) :
    TocTree.run env TreeProc.defaultBlockLevel (docTreeP items) = .ok (docTreeP items) := by
  unfold TocTree.run
  have hids : TocTree.usedIds (TocTree.idsOf (docTreeP items)) = some [] := by
    simp [docTreeP, TocTree.idsOf, idsOfKids_docKidsP, TocTree.usedIds]
  have h1 : ∀ st, TocTree.walkNode env (docTreeP items) st = .ok (docTreeP items, st) := by
    intro st
    simp only [docTreeP, TocTree.walkNode, walkKids_docKidsP]
    simp [TocTree.isHeaderTag]
  rw [hids]
  simp only
  rw [h1]
  simp only
  simp only [docTreeP, TocTree.replNode, replKids_docKidsP _ items h]

open FencedPipe in
theorem unescapeKids_docKidsP (items : List CItem) (h : ∀ it ∈ items, it.ok = true) :
    TreeProc.unescapeKids (items.map CItem.kidP) = some (items.map CItem.kidP) := by
  have t3 : TreeProc.unescapeText 0 ['\n'] = some ['\n'] := by decide
  have t1 : Node.truthy (some ['\n']) = true := rfl
  induction items with
  | nil => rfl
  | cons it r ih =>
    have ih' := ih (fun x hx => h x (List.mem_cons_of_mem _ hx))
    have hf := CItem.facts (h it List.mem_cons_self)
    cases it with
    | para p =>
      have pf := paraFacts (hf.para p rfl)
      have hp := unescapeText_id p pf.stx
      have h1 : (if Node.truthy (some p) = true then (TreeProc.unescapeText 0 p).map some else some (some p)) =
          some (some p) := by
        cases p with
        | nil => rfl
        | cons c r => simp [Node.truthy, hp]
      simp only [List.map_cons, TreeProc.unescapeKids, ih', CItem.kidP]
      simp [pNode, TreeProc.unescapeTree, TreeProc.unescapeKids, TreeProc.unescAttrs, h1, t1, t3]
    | code f m =>
      simp only [List.map_cons, TreeProc.unescapeKids, ih', CItem.kidP]
      simp [preNodeP, TreeProc.unescapeTree, TreeProc.unescapeKids, TreeProc.unescAttrs, t1, t3, Node.truthy]

theorem unescape_docTreeP (items : List CItem) (h : ∀ it ∈ items, it.ok = true) :
    TreeProc.unescapeTree (docTreeP items) = some (docTreeP items) := by
  have t3 : TreeProc.unescapeText 0 ['\n'] = some ['\n'] := by decide
  have hk := unescapeKids_docKidsP items h
  simp only [docTreeP, TreeProc.unescapeTree, hk]
  simp [TreeProc.unescAttrs, t3, Node.truthy]

open FencedPipe in
theorem serialize_pNode (fmt : Ser.Fmt) (p : Str) (pf : ParaFacts p) :
    Ser.serialize fmt (pNode p) = "<p>".toList ++ p ++ "</p>".toList ++ ['\n'] := by
  have e7 : Ser.escCdata ['\n'] = ['\n'] := by decide
  obtain ⟨c, t, rfl⟩ : ∃ c t, p = c :: t := by
    cases p with
    | nil => exact absurd rfl pf.ne
    | cons c t => exact ⟨c, t, rfl⟩
  simp only [pNode]
  rw [serialize_plain fmt _ _ _ _ _ _ (by decide) (by decide)]
  simp only [Node.truthy, Option.getD_some, List.isEmpty_cons, Bool.not_false, if_true, escCdata_plain _ pf.plain, e7]
  simp [Ser.serializeList]

theorem serialize_preNodeP (fmt : Ser.Fmt) (t : Str) :
    Ser.serialize fmt (preNodeP (Code.codeEscape t ++ ['\n'])) =
      "<pre><code>".toList ++ Code.codeEscape t ++ "\n</code></pre>".toList ++ ['\n'] := by
  have e7 : Ser.escCdata ['\n'] = ['\n'] := by decide
  simp only [preNodeP]
  rw [serialize_plain fmt _ _ _ _ _ _ (by decide) (by decide)]
  simp only [Ser.serializeList]
  rw [serialize_plain fmt _ _ _ _ _ _ (by decide) (by decide)]
  have hne : Node.truthy (some (Code.codeEscape t ++ ['\n'])) = true := by
    cases hce : Code.codeEscape t <;> simp [Node.truthy]
  simp only [hne, if_true, Option.getD_some, escCdata_code_nl]
  simp [Ser.serializeList, Node.truthy, e7]

theorem serialize_kidP (fmt : Ser.Fmt) (it : CItem) (h : it.ok = true) :
    Ser.serialize fmt it.kidP = it.html ++ ['\n'] := by
  have hf := CItem.facts h
  cases it with
  | para p => exact serialize_pNode fmt p (paraFacts (hf.para p rfl))
  | code f m => exact serialize_preNodeP fmt (trimSpec f m)

theorem serializeList_docKidsP (fmt : Ser.Fmt) (items : List CItem) (h : ∀ it ∈ items, it.ok = true) :
    Ser.serializeList fmt (items.map CItem.kidP) = items.flatMap (fun it => it.html ++ ['\n']) := by
  induction items with
  | nil => rfl
  | cons it r ih =>
    simp only [List.map_cons, Ser.serializeList, List.flatMap_cons,
      ih (fun x hx => h x (List.mem_cons_of_mem _ hx)), serialize_kidP fmt it (h it List.mem_cons_self)]

theorem serialize_docTreeP (fmt : Ser.Fmt) (items : List CItem) (h : ∀ it ∈ items, it.ok = true) :
    Ser.serialize fmt (docTreeP items) =
      "<div>".toList ++ ('\n' :: items.flatMap (fun it => it.html ++ ['\n'])) ++ "</div>\n".toList := by
  have e7 : Ser.escCdata ['\n'] = ['\n'] := by decide
  simp only [docTreeP]
  rw [serialize_plain fmt _ _ _ _ _ _ (by decide) (by decide), serializeList_docKidsP fmt items h]
  simp [Node.truthy, e7]

end MdVerif.CodeX
