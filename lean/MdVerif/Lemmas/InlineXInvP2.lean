/-
`Sep Ok N`, part 2: what the patterns find (`findX_invP`).  Core Lean only.
-/
import MdVerif.Lemmas.InlineXInvP

namespace MdVerif.InlineX
open Py Inline

variable {Ok : Str → Prop} {N : Char → Prop}

/-- stash entries: strings are non-empty and neutral, elements are `Ok` throughout and have no tail -/
def ItemP (Ok : Str → Prop) (N : Char → Prop) (it : StashItem) : Prop :=
  match it with
  | .str s => Neut N s
  | .node n => DeepP Ok n ∧ n.tail = none

def StashP (Ok : Str → Prop) (N : Char → Prop) (stash : List StashItem) : Prop := ∀ it ∈ stash, ItemP Ok N it

def FoundP (Ok : Str → Prop) (N : Char → Prop) (f : Found) : Prop :=
  match f.node with
  | .none => True
  | .str s => Neut N s
  | .el n => DeepP Ok n ∧ n.tail = none

/-! ### runs of one character -/

theorem take_countPrefix_all {ch : Char} : ∀ (s : Str) (lim : Option Nat), ∀ c ∈ s.take (countPrefix ch lim s), c = ch := by
  intro s
  induction s with
  | nil => intro lim c hc; cases lim <;> simp [countPrefix] at hc
  | cons d r ih =>
    intro lim c hc
    cases lim with
    | none =>
      simp only [countPrefix] at hc
      split at hc
      · rename_i hd
        simp only [List.take_succ_cons, List.mem_cons] at hc
        rcases hc with hc | hc
        · rw [hc, hd]
        · exact ih _ c hc
      · simp at hc
    | some n =>
      cases n with
      | zero => simp [countPrefix] at hc
      | succ n =>
        simp only [countPrefix] at hc
        split at hc
        · rename_i hd
          simp only [List.take_succ_cons, List.mem_cons] at hc
          rcases hc with hc | hc
          · rw [hc, hd]
          · exact ih _ c hc
        · simp at hc

theorem take_pos_ne_nil {s : Str} {k : Nat} {ch : Char} (hk : 0 < k) (hh : s.head? = some ch) : s.take k ≠ [] := by
  cases s with
  | nil => simp at hh
  | cons a r =>
    cases k with
    | zero => omega
    | succ k => simp

theorem replaceAux_ne_nil {pat by' : Str} (hb : by' ≠ []) : ∀ (s : Str), s ≠ [] → replaceAux pat by' 0 s ≠ [] := by
  intro s hs
  cases s with
  | nil => exact absurd rfl hs
  | cons a r =>
    simp only [replaceAux]
    split
    · intro e; exact hb (List.append_eq_nil_iff.mp e).1
    · simp

/-- the group of a `bs` match of `BACKTICK_RE`: backslashes -/
theorem btAt_bs {prev : Option Char} {suf : Str} {i : Nat} {m : BtMatch} (h : btAt prev suf i = some m)
    (hk : m.kind = .bs) : m.group ≠ [] ∧ ∀ c ∈ m.group, c = '\\' := by
  simp only [btAt] at h
  split at h
  · cases h
  · split at h
    · rename_i hc
      injection h with h
      subst h
      simp only [Bool.and_eq_true, decide_eq_true_eq] at hc
      refine ⟨?_, take_countPrefix_all suf none⟩
      have h2 : 2 ≤ countPrefix '\\' none suf := hc.1.1
      exact take_pos_ne_nil (ch := '\\') (by omega)
        (countPrefix_pos_head (ch := '\\') (lim := none) (s := suf) (by omega))
    · split at h
      · split at h
        · injection h with h
          subst h
          cases hk
        · cases h
      · cases h

theorem btScan_bs : ∀ {suf : Str} {prev : Option Char} {i : Nat} {m : BtMatch}, btScan prev suf i = some m →
    m.kind = .bs → m.group ≠ [] ∧ ∀ c ∈ m.group, c = '\\' := by
  intro suf
  induction suf with
  | nil =>
    intro prev i m h hk
    unfold btScan at h
    split at h
    · rename_i r hr; cases h; exact btAt_bs hr hk
    · cases h
  | cons a r ih =>
    intro prev i m h hk
    unfold btScan at h
    split at h
    · rename_i r' hr; cases h; exact btAt_bs hr hk
    · exact ih h hk

theorem btFind_bs {data : Str} {si : Nat} {m : BtMatch} (h : btFind data si = some m) (hk : m.kind = .bs) :
    m.group ≠ [] ∧ ∀ c ∈ m.group, c = '\\' := by
  unfold btFind at h
  split at h
  · cases h
  · exact btScan_bs h hk

/-- the match of `NOT_STRONG_RE`: a non-empty run of `*` or of `_` -/
theorem nsHere_run {prev : Option Char} {suf : Str} {i s e : Nat} (h : nsHere prev suf i = some (s, e)) :
    s = i ∧ suf.take (e - s) ≠ [] ∧ ∀ c ∈ suf.take (e - s), c = '*' ∨ c = '_' := by
  have key : ∀ (ch : Char) (k : Nat), nsRun ch suf = some k →
      suf.take (i + k - i) ≠ [] ∧ ∀ c ∈ suf.take (i + k - i), c = ch := by
    intro ch k hk
    have hpos := nsRun_ok hk
    have hkk : k = countPrefix ch (some 3) suf := by
      unfold nsRun at hk
      simp only at hk
      split at hk
      · cases hk
      · split at hk
        · cases hk; rfl
        · split at hk
          · cases hk; rfl
          · cases hk
    have e1 : i + k - i = k := by omega
    rw [e1]
    exact ⟨take_pos_ne_nil hpos.1 hpos.2, hkk ▸ take_countPrefix_all suf (some 3)⟩
  unfold nsHere at h
  split at h
  · cases h1 : nsRun '*' suf with
    | some k =>
      simp only [h1] at h
      cases h
      exact ⟨rfl, (key '*' k h1).1, fun c hc => Or.inl ((key '*' k h1).2 c hc)⟩
    | none =>
      simp only [h1, Option.map_eq_some_iff] at h
      obtain ⟨k, hk, hke⟩ := h
      cases hke
      exact ⟨rfl, (key '_' k hk).1, fun c hc => Or.inr ((key '_' k hk).2 c hc)⟩
  · cases h

theorem nsScan_run : ∀ {suf : Str} {prev : Option Char} {i s e : Nat}, nsScan prev suf i = some (s, e) →
    i ≤ s ∧ (suf.drop (s - i)).take (e - s) ≠ [] ∧ ∀ c ∈ (suf.drop (s - i)).take (e - s), c = '*' ∨ c = '_' := by
  intro suf
  induction suf with
  | nil => intro prev i s e h; simp [nsScan] at h
  | cons ch r ih =>
    intro prev i s e h
    rw [nsScan_cons] at h
    split at h
    · rename_i x hx
      cases h
      obtain ⟨h1, h2, h3⟩ := nsHere_run hx
      subst h1
      simp only [Nat.sub_self, List.drop_zero]
      exact ⟨Nat.le_refl _, h2, h3⟩
    · obtain ⟨h1, h2, h3⟩ := ih h
      have e1 : s - i = (s - (i + 1)) + 1 := by omega
      rw [e1, List.drop_succ_cons]
      exact ⟨by omega, h2, h3⟩

theorem nsFind_neut (hs : Sep Ok N) {data : Str} {si s e : Nat} (h : nsFind data si = some (s, e)) :
    Neut N (Inline.slice data s e) := by
  unfold nsFind at h
  split at h
  · cases h
  · obtain ⟨h1, h2, h3⟩ := nsScan_run h
    have e1 : Inline.slice data s e = ((data.drop si).drop (s - si)).take (e - s) := by
      simp only [Inline.slice, List.drop_take, List.drop_drop]
      congr 2
      omega
    rw [e1]
    refine ⟨h2, ?_⟩
    intro c hc
    rcases h3 c hc with rfl | rfl
    · exact hs.star
    · exact hs.under

/-! ### links -/

theorem mkEl_tail (tag : String) : (mkEl tag).tail = none := rfl

theorem linkHandle_deepP (hs : Sep Ok N) {cfg : Cfg} {stash : List StashItem} {pi : Nat} {data : Str}
    {mstart mend : Nat} {f : Found} (hd : Ok data) (h : linkHandle cfg stash pi data mstart mend = some f) :
    FoundP Ok N f := by
  have hgt := getText_infix data mend
  unfold linkHandle at h
  revert h hgt
  generalize getText data mend = r
  obtain ⟨text, index, handled⟩ := r
  simp only
  intro h hgt
  have htext : Ok text := hs.sub hgt hd
  split at h
  · cases h
  · split at h
    · revert h
      generalize getLink (unescape stash) data index = gl
      obtain ⟨href, title, idx, ok⟩ := gl
      simp only
      intro h
      split at h
      · cases h
      · cases h
        simp only [FoundP]
        split
        · split
          · exact ⟨DeepP_setAttr _ _ (DeepP_setAttr _ _ (DeepP_setAttr _ _ (DeepP_mkEl _))),
              by simp [setAttr_tail, mkEl_tail]⟩
          · exact ⟨DeepP_setAttr _ _ (DeepP_setAttr _ _ (DeepP_mkEl _)), by simp [setAttr_tail, mkEl_tail]⟩
        · split
          · exact ⟨DeepP_setAttr _ _ (DeepP_setAttr _ _ (DeepP_withText1 (DeepP_mkEl _) htext)),
              by simp [setAttr_tail, mkEl_tail]⟩
          · exact ⟨DeepP_setAttr _ _ (DeepP_withText1 (DeepP_mkEl _) htext), by simp [setAttr_tail, mkEl_tail]⟩
    · split at h
      · cases h
      · split at h
        · cases h
          simp only [FoundP]
        · cases h
          simp only [FoundP]
          split
          · split
            · exact ⟨DeepP_setAttr _ _ (DeepP_setAttr _ _ (DeepP_setAttr _ _ (DeepP_mkEl _))),
                by simp [setAttr_tail, mkEl_tail]⟩
            · exact ⟨DeepP_setAttr _ _ (DeepP_setAttr _ _ (DeepP_mkEl _)), by simp [setAttr_tail, mkEl_tail]⟩
          · split
            · exact ⟨DeepP_withText1 (DeepP_setAttr _ _ (DeepP_setAttr _ _ (DeepP_mkEl _))) htext,
                by simp [setAttr_tail, mkEl_tail]⟩
            · exact ⟨DeepP_withText1 (DeepP_setAttr _ _ (DeepP_mkEl _)) htext, by simp [setAttr_tail, mkEl_tail]⟩

theorem linkScan_deepP (hs : Sep Ok N) {cfg : Cfg} {stash : List StashItem} {pi : Nat} {data : Str} (hd : Ok data) :
    ∀ {suf : Str} {prev : Option Char} {i : Nat} {f : Found},
      linkScan cfg stash pi data prev suf i = some f → FoundP Ok N f := by
  intro suf
  induction suf with
  | nil => intro prev i f h; simp [linkScan] at h
  | cons ch r ih =>
    intro prev i f h
    rw [linkScan_cons] at h
    split at h
    · rename_i f' hf'
      cases h
      unfold linkHere at hf'
      split at hf'
      · split at hf'
        · exact linkHandle_deepP hs hd hf'
        · cases hf'
      · split at hf'
        · exact linkHandle_deepP hs hd hf'
        · cases hf'
    · exact ih h

/-- every core pattern: the found entry is good on an `Ok` text, the inline stash is untouched -/
theorem findMatch_invP (hs : Sep Ok N) (cfg : Cfg) (pi : Nat) (data : Str) (si : Nat) (st : St) (hd : Ok data)
    {r : Option Found} {st' : St} (h : findMatch cfg pi data si st = some (r, st')) :
    st'.stash = st.stash ∧ ∀ f, r = some f → FoundP Ok N f := by
  unfold findMatch at h
  simp only at h
  have hnone : ∀ {x : Option Found × St}, some (none, st) = some x →
      x.2.stash = st.stash ∧ ∀ f, x.1 = some f → FoundP Ok N f := by
    intro x hx; cases hx; exact ⟨rfl, by intro f hf; cases hf⟩
  split at h
  · exact hnone h
  · split at h
    · -- backtick
      split at h
      · rename_i m hm
        have hg : Ok m.group := hs.sub (btFind_group_infix hm) hd
        split at h
        · cases h
          refine ⟨rfl, ?_⟩
          intro f hf; cases hf
          simp only [FoundP]
          exact ⟨DeepP_withText _ (DeepP_mkEl _) (codeEscape_ok hs (hs.sub (BlockExt.stripP_infix _ _) hg)), rfl⟩
        · rename_i hkind
          cases h
          refine ⟨rfl, ?_⟩
          intro f hf; cases hf
          simp only [FoundP]
          obtain ⟨hne, hall⟩ := btFind_bs hm hkind
          refine ⟨?_, ?_⟩
          · simp only [replace]
            exact replaceAux_ne_nil (by simp) _ hne
          · intro c hmem
            rcases mem_replace hmem with hmem | hmem
            · rw [hall c hmem]; exact hs.bs
            · simp only [List.mem_cons, List.not_mem_nil, or_false] at hmem
              rcases hmem with hmem | hmem | hmem | hmem
              · exact hmem ▸ hs.stx
              · exact hmem ▸ hs.digit '9' (by decide)
              · exact hmem ▸ hs.digit '2' (by decide)
              · exact hmem ▸ hs.etx
      · exact hnone h
    · -- escape
      split at h
      · cases h
        refine ⟨rfl, ?_⟩
        intro f hf; cases hf
        rename_i i ch _
        by_cases he : cfg.esc.contains ch = true
        · simp only [FoundP, he, if_true]
          exact Neut.cons hs.stx (by
            intro c hc
            rcases List.mem_append.mp hc with hc | hc
            · exact natToDec_neutral hs _ c hc
            · simp only [List.mem_singleton] at hc
              exact hc ▸ hs.etx)
        · simp only [FoundP, he, Bool.false_eq_true, if_false]
      · exact hnone h
    · -- linebreak
      split at h
      · cases h
        exact ⟨rfl, by intro f hf; cases hf; exact ⟨DeepP_mkEl _, rfl⟩⟩
      · exact hnone h
    · -- entity
      split at h
      · cases h
        refine ⟨rfl, ?_⟩
        intro f hf; cases hf
        simp only [FoundP]
        have key : ∀ c ∈ "wzxhzdk:".toList, c ∈ ['k', 'l', 'z', 'w', 'x', 'h', ':', 'd'] := by decide
        refine ⟨by simp [htmlPrefix], ?_⟩
        intro c hmem
        simp only [htmlPrefix, List.mem_append, List.mem_cons, List.mem_singleton, List.not_mem_nil, or_false] at hmem
        rcases hmem with (hmem | hmem) | hmem
        · rcases hmem with hmem | hmem
          · exact hmem ▸ hs.stx
          · exact hs.ph c (key c hmem)
        · exact natToDec_neutral hs _ c hmem
        · exact hmem ▸ hs.etx
      · exact hnone h
    · -- not_strong
      split at h
      · rename_i s e hns
        cases h
        exact ⟨rfl, by intro f hf; cases hf; exact nsFind_neut hs hns⟩
      · exact hnone h
    · -- emphasis
      split at h
      · cases h
      · exact hnone h
      · rename_i el s e hx
        cases h
        exact ⟨rfl, by intro f hf; cases hf; exact emScan_deepP hs hd _ _ _ _ _ hx⟩
    · split at h
      · cases h
      · exact hnone h
      · rename_i el s e hx
        cases h
        exact ⟨rfl, by intro f hf; cases hf; exact emScan_deepP hs hd _ _ _ _ _ hx⟩
    · exact hnone h
    · exact hnone h
    · exact hnone h
    · -- links
      split at h
      · cases h
        refine ⟨rfl, ?_⟩
        intro f hf
        exact linkScan_deepP hs hd hf
      · exact hnone h

/-- every pattern but the wikilink pattern -/
theorem findX_invP (hs : Sep Ok N) (xc : XCfg) (k : PatK) (hk : k ≠ PatK.wikilink) (data : Str) (si : Nat) (x : XSt)
    (hd : Ok data) {r : Option Found} {x' : XSt} (h : findX xc k data si x = some (r, x')) :
    x'.st.stash = x.st.stash ∧ ∀ f, r = some f → FoundP Ok N f := by
  cases k with
  | core i =>
    simp only [findX] at h
    split at h
    · cases h
    · rename_i f st hm
      injection h with h
      injection h with h1 h2
      subst h1; subst h2
      exact findMatch_invP hs xc.cfg i data si x.st hd hm
  | footnote =>
    simp only [findX] at h
    split at h
    · cases h; exact ⟨rfl, by intro f hf; cases hf⟩
    · split at h
      · rename_i id s0 e0 _
        cases h
        refine ⟨rfl, ?_⟩
        intro f hf; cases hf
        simp only [FoundP, fnRefNode]
        have hnum : Ok (natToDec (indexOf xc.fnKeys id + 1)) :=
          hs.neut ⟨natToDec_ne_nil _, natToDec_neutral hs _⟩
        have ha : DeepP Ok ((({ mkEl "a" with text := some (natToDec (indexOf xc.fnKeys id + 1)) } : Node).setAttr
            "href".toList ('#' :: Footnotes.footnoteId id)).setAttr "class".toList "footnote-ref".toList) :=
          DeepP_setAttr _ _ (DeepP_setAttr _ _ (DeepP_withText1 (DeepP_mkEl _) hnum))
        have hsup := DeepP_setAttr (Ok := Ok) "id".toList (Footnotes.footnoteRefId id true x.fn).1 (DeepP_mkEl "sup")
        refine ⟨?_, by simp [setAttr_tail, mkEl_tail]⟩
        apply DeepP_children _ hsup
        intro k' hk'
        simp only [List.mem_singleton] at hk'
        exact hk' ▸ ha
      · cases h; exact ⟨rfl, by intro f hf; cases hf⟩
  | wikilink => exact absurd rfl hk
  | nl =>
    simp only [findX] at h
    split at h
    · cases h; exact ⟨rfl, by intro f hf; cases hf⟩
    · split at h
      · cases h
        exact ⟨rfl, by intro f hf; cases hf; exact ⟨DeepP_mkEl _, rfl⟩⟩
      · cases h; exact ⟨rfl, by intro f hf; cases hf⟩

end MdVerif.InlineX
