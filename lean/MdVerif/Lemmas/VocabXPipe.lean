/-
Lemmas for C05 on the extension model, part 4: the vocabulary `qtX x` of `PipelineX.treeX x` and the composition
of the stage lemmas (`VocabXBlock`, `VocabXInline`, `VocabXTree`).

Core Lean only.
-/
import MdVerif.Lemmas.VocabXBlock
import MdVerif.Lemmas.VocabXTree

namespace MdVerif.VocabX
open Py PipelineX
open BlockExt (NI NI_iff NI_el)

/-! ### the vocabulary, flag by flag -/

def tableTags : List String := ["table", "thead", "tbody", "tr", "th", "td"]
def defListTags : List String := ["dl", "dt", "dd"]

/-- the element names of `treeX x`: Markdown's vocabulary, the wrapper/admonition/footnote/toc `div`, and per
    extension: tables — `table thead tbody tr th td`; def_list — `dl dt dd`; abbr — `abbr`; footnotes — `sup` -/
def tagOkX (x : Exts) (t : Str) : Bool :=
  Vocab2.hasTag Vocab2.vocabTags t || t = "div".toList ||
  (x.tables && Vocab2.hasTag tableTags t) || (x.defList && Vocab2.hasTag defListTags t) ||
  (x.abbr && t = "abbr".toList) || (x.footnotes && t = "sup".toList)

/-- the attribute names of `treeX x`: `href title src alt`, and per extension: tables — `style` (cell alignment);
    admonition, footnotes, wikilinks, toc — `class`; sane_lists — `start`; footnotes, toc — `id`; attr_list — every
    name of its key grammar (`alKey`: the characters `sanitize_name` keeps) -/
def keyOkX (x : Exts) (k : Str) : Bool :=
  Vocab2.attrOk k || (x.tables && k = "style".toList) ||
  ((x.admonition || x.footnotes || x.wikilinks || x.toc) && k = "class".toList) ||
  (x.saneLists && k = "start".toList) || ((x.footnotes || x.toc) && k = "id".toList) ||
  (x.attrList && alKey k)

/-- the vocabulary of `treeX x` as a predicate on (tag, attributes) -/
def qtX (x : Exts) (tag : Tag) (attrs : List (Str × Str)) : Bool :=
  match tag with
  | .name t => tagOkX x t && attrs.all (fun kv => keyOkX x kv.1)
  | _ => false

theorem qtX_name {x : Exts} {t : Str} {attrs : List (Str × Str)} (ht : tagOkX x t = true)
    (ha : ∀ kv ∈ attrs, keyOkX x kv.1 = true) : qtX x (.name t) attrs = true := by
  simp only [qtX, ht, Bool.true_and, List.all_eq_true]
  exact ha

theorem tagOkX_core {x : Exts} {t : Str} (h : Vocab2.hasTag Vocab2.vocabTags t = true) : tagOkX x t = true := by
  simp [tagOkX, h]

theorem keyOkX_core {x : Exts} {k : Str} (h : Vocab2.attrOk k = true) : keyOkX x k = true := by
  simp [keyOkX, h]

theorem keyQ_X (x : Exts) : KeyQ (qtX x) (keyOkX x) where
  mono := by
    intro tag attrs attrs' h hk
    cases tag with
    | name t =>
      simp only [qtX, Bool.and_eq_true, List.all_eq_true] at h ⊢
      refine ⟨h.1, ?_⟩
      intro kv hkv
      rcases hk kv hkv with h' | h'
      · obtain ⟨y, hy, e⟩ := List.mem_map.1 h'
        rw [← e]; exact h.2 y hy
      · exact h'
    | _ => simp [qtX] at h

theorem keyQ_X_al (x : Exts) (hal : x.attrList = true) : KeyQ (qtX x) alKey where
  mono := by
    intro tag attrs attrs' h hk
    refine (keyQ_X x).mono tag attrs attrs' h ?_
    intro kv hkv
    rcases hk kv hkv with h' | h'
    · exact Or.inl h'
    · right; simp [keyOkX, hal, h']

theorem tagsA_X (x : Exts) : TagsA (qtX x) x.blockCfg where
  p := qtX_name (tagOkX_core (by decide)) (by simp)
  pre := qtX_name (tagOkX_core (by decide)) (by simp)
  code := qtX_name (tagOkX_core (by decide)) (by simp)
  hr := qtX_name (tagOkX_core (by decide)) (by simp)
  ol := qtX_name (tagOkX_core (by decide)) (by simp)
  ul := qtX_name (tagOkX_core (by decide)) (by simp)
  li := qtX_name (tagOkX_core (by decide)) (by simp)
  blockquote := qtX_name (tagOkX_core (by decide)) (by simp)
  h := by
    intro lv hlv
    have : lv = 1 ∨ lv = 2 ∨ lv = 3 ∨ lv = 4 ∨ lv = 5 ∨ lv = 6 := by omega
    rcases this with rfl | rfl | rfl | rfl | rfl | rfl <;>
      exact qtX_name (tagOkX_core (by decide)) (by simp)
  olStart := by
    intro hs s
    refine qtX_name (tagOkX_core (by decide)) ?_
    intro kv hkv
    simp only [List.mem_singleton] at hkv; subst hkv
    have : x.saneLists = true := hs
    simp [keyOkX, this]
  div := by
    intro ha v
    refine qtX_name (by simp [tagOkX]) ?_
    intro kv hkv
    simp only [List.mem_singleton] at hkv; subst hkv
    have : x.admonition = true := ha
    simp [keyOkX, this, BlockExt.strClass]
  ptitle := by
    intro ha
    refine qtX_name (tagOkX_core (by decide)) ?_
    intro kv hkv
    simp only [List.mem_singleton] at hkv; subst hkv
    have : x.admonition = true := ha
    simp [keyOkX, this, BlockExt.strClass]
  dl := by
    intro hd
    have : x.defList = true := hd
    exact qtX_name (by simp [tagOkX, this, defListTags, Vocab2.hasTag]) (by simp)
  dt := by
    intro hd
    have : x.defList = true := hd
    exact qtX_name (by simp [tagOkX, this, defListTags, Vocab2.hasTag]) (by simp)
  dd := by
    intro hd
    have : x.defList = true := hd
    exact qtX_name (by simp [tagOkX, this, defListTags, Vocab2.hasTag]) (by simp)

theorem tablesA_X (x : Exts) : TablesA (qtX x) x.tables where
  table := fun h => qtX_name (by simp [tagOkX, h, tableTags, Vocab2.hasTag]) (by simp)
  thead := fun h => qtX_name (by simp [tagOkX, h, tableTags, Vocab2.hasTag]) (by simp)
  tbody := fun h => qtX_name (by simp [tagOkX, h, tableTags, Vocab2.hasTag]) (by simp)
  tr := fun h => qtX_name (by simp [tagOkX, h, tableTags, Vocab2.hasTag]) (by simp)
  th := fun h => qtX_name (by simp [tagOkX, h, tableTags, Vocab2.hasTag]) (by simp)
  td := fun h => qtX_name (by simp [tagOkX, h, tableTags, Vocab2.hasTag]) (by simp)
  thStyle := by
    intro h v
    refine qtX_name (by simp [tagOkX, h, tableTags, Vocab2.hasTag]) ?_
    intro kv hkv
    simp only [List.mem_singleton] at hkv; subst hkv
    simp [keyOkX, h]
  tdStyle := by
    intro h v
    refine qtX_name (by simp [tagOkX, h, tableTags, Vocab2.hasTag]) ?_
    intro kv hkv
    simp only [List.mem_singleton] at hkv; subst hkv
    simp [keyOkX, h]

theorem qtX_div (x : Exts) : qtX x (.name "div".toList) [] = true := qtX_name (by simp [tagOkX]) (by simp)

theorem mem_table_fn {f w n : Bool} (h : InlineX.PatK.footnote ∈ InlineX.table f w n) : f = true := by
  cases f <;> cases w <;> cases n <;> first | rfl | (revert h; decide)

theorem mem_table_wiki {f w n : Bool} (h : InlineX.PatK.wikilink ∈ InlineX.table f w n) : w = true := by
  cases f <;> cases w <;> cases n <;> first | rfl | (revert h; decide)

theorem inlQ_X (x : Exts) (cfg : Inline.Cfg) (keys : List Str) :
    InlQ (qtX x) { cfg := cfg, table := InlineX.table x.footnotes x.wikilinks x.nl2br, fnKeys := keys } where
  core := by
    intro t attrs ht ha
    refine qtX_name (tagOkX_core (Vocab2.inline_sub_vocab t ht)) ?_
    intro kv hkv
    simp only [Vocab2.attrsOk, Bool.and_eq_true, List.all_eq_true] at ha
    exact keyOkX_core (ha.1 kv hkv)
  fnSup := by
    intro h v
    have hf := mem_table_fn h
    refine qtX_name (by simp [tagOkX, hf]) ?_
    intro kv hkv
    simp only [List.mem_singleton] at hkv; subst hkv
    simp [keyOkX, hf]
  fnA := by
    intro h hh c
    have hf := mem_table_fn h
    refine qtX_name (tagOkX_core (by decide)) ?_
    intro kv hkv
    simp only [List.mem_cons, List.not_mem_nil, or_false] at hkv
    rcases hkv with rfl | rfl
    · exact keyOkX_core (by dsimp only; decide)
    · simp [keyOkX, hf]
  wiki := by
    intro h hh c
    have hw := mem_table_wiki h
    refine qtX_name (tagOkX_core (by decide)) ?_
    intro kv hkv
    simp only [List.mem_cons, List.not_mem_nil, or_false] at hkv
    rcases hkv with rfl | rfl
    · exact keyOkX_core (by dsimp only; decide)
    · simp [keyOkX, hw]

theorem fnQ_X (x : Exts) (hf : x.footnotes = true) : FnQ (qtX x) where
  div := by
    intro v
    refine qtX_name (by simp [tagOkX]) ?_
    intro kv hkv
    simp only [List.mem_singleton] at hkv; subst hkv
    simp [keyOkX, hf]
  hr := qtX_name (tagOkX_core (by decide)) (by simp)
  ol := qtX_name (tagOkX_core (by decide)) (by simp)
  li := by
    intro v
    refine qtX_name (tagOkX_core (by decide)) ?_
    intro kv hkv
    simp only [List.mem_singleton] at hkv; subst hkv
    simp [keyOkX, hf]
  p := qtX_name (tagOkX_core (by decide)) (by simp)
  a := by
    intro h c t
    refine qtX_name (tagOkX_core (by decide)) ?_
    intro kv hkv
    simp only [List.mem_cons, List.not_mem_nil, or_false] at hkv
    rcases hkv with rfl | rfl | rfl
    · exact keyOkX_core (by dsimp only; decide)
    · simp [keyOkX, hf]
    · exact keyOkX_core (by dsimp only; decide)

theorem tocQ_X (x : Exts) (ht : x.toc = true) : TocQ (qtX x) where
  div := by
    intro v
    refine qtX_name (by simp [tagOkX]) ?_
    intro kv hkv
    simp only [List.mem_singleton] at hkv; subst hkv
    simp [keyOkX, ht]
  ul := qtX_name (tagOkX_core (by decide)) (by simp)
  li := qtX_name (tagOkX_core (by decide)) (by simp)
  a := by
    intro h
    refine qtX_name (tagOkX_core (by decide)) ?_
    intro kv hkv
    simp only [List.mem_singleton] at hkv; subst hkv
    exact keyOkX_core (by dsimp only; decide)

theorem abbr_X (x : Exts) (ha : x.abbr = true) : ∀ v, qtX x (.name "abbr".toList) [("title".toList, v)] = true := by
  intro v
  refine qtX_name (by simp [tagOkX, ha]) ?_
  intro kv hkv
  simp only [List.mem_singleton] at hkv; subst hkv
  exact keyOkX_core (by dsimp only; decide)

/-! ### the composition -/

theorem parseChunkX_NI (x : Exts) (cfg : Pipeline.Cfg) (log : Block.Refs) (text : Str) {sur : Node} {log' : Block.Refs}
    (h : parseChunkX x cfg log text = some (sur, log')) : NI (qtX x) sur :=
  parseChunkXT_NI (tagsA_X x) (tablesA_X x) cfg.tab _ [] log (NI_el _ (qtX_div x)) text h

/-- **every element of the tree handed to the serializer is in the vocabulary of the enabled extensions** -/
theorem treeX_NI (x : Exts) (cfg : Pipeline.Cfg) (src : Str) (u : Node) (html : List Str)
    (h : treeX x cfg src = .ok u html) : NI (qtX x) u := by
  unfold treeX at h
  split at h
  · cases h
  · cases h
  · rename_i text stash hprep
    split at h
    · cases h
    · rename_i root log hparse
      have hroot : NI (qtX x) root := parseDocumentXT_NI (tagsA_X x) (tablesA_X x) (qtX_div x) cfg.tab text hparse
      dsimp only at h
      split at h
      · cases h
      · cases h
      · rename_i root1 log1 hfs
        -- the footnote tree processor
        have hroot1 : NI (qtX x) root1 := by
          split at hfs
          · rename_i hfn
            split at hfs
            · rename_i div log' hmk
              simp only [FootnotesTree.R.ok.injEq, Prod.mk.injEq] at hfs
              obtain ⟨rfl, _⟩ := hfs
              exact placeDiv_NI hroot (makeDiv_NI (fnQ_X x hfn) (fun l t s l' hh => parseChunkX_NI x cfg l t hh) _ _ _ hmk)
            · simp only [FootnotesTree.R.ok.injEq, Prod.mk.injEq] at hfs
              obtain ⟨rfl, _⟩ := hfs; exact hroot
            · cases hfs
            · cases hfs
          · simp only [FootnotesTree.R.ok.injEq, Prod.mk.injEq] at hfs
            obtain ⟨rfl, _⟩ := hfs; exact hroot
        split at h
        · cases h
        · rename_i t xs hrun
          have ht : NI (qtX x) t := runX_Q (inlQ_X x _ _) hrun hroot1
          split at h
          · cases h
          · rename_i t2 hdup
            have ht2 : NI (qtX x) t2 := by
              split at hdup
              · exact duplicates_NI (keyQ_X x) (keyOkX_core (by decide)) _ _ _ hdup ht
              · simp only [Option.some.injEq] at hdup; subst hdup; exact ht
            have ht3 := prettify_NI ht2 cfg.blockLevel
            have ht4 : NI (qtX x) (if x.attrList = true then AttrListTree.run cfg.blockLevel (TreeProc.prettify t2 cfg.blockLevel)
                else TreeProc.prettify t2 cfg.blockLevel) := by
              split
              · rename_i hal; exact attrRun_NI (keyQ_X_al x hal) _ ht3
              · exact ht3
            have ht5 : NI (qtX x) (if x.abbr = true then AbbrTree.run (BlockExt.abbrsOf log1)
                (if x.attrList = true then AttrListTree.run cfg.blockLevel (TreeProc.prettify t2 cfg.blockLevel)
                  else TreeProc.prettify t2 cfg.blockLevel)
                else (if x.attrList = true then AttrListTree.run cfg.blockLevel (TreeProc.prettify t2 cfg.blockLevel)
                  else TreeProc.prettify t2 cfg.blockLevel)) := by
              split
              · rename_i hab; exact abbrRun_NI (abbr_X x hab) _ ht4
              · exact ht4
            split at h
            · cases h
            · cases h
            · cases h
            · rename_i t6 htoc
              have ht6 : NI (qtX x) t6 := by
                split at htoc
                · rename_i htc
                  exact tocRun_NI (keyQ_X x) (by simp [keyOkX, htc, TocTree.idKey]) (tocQ_X x htc) _ _ htoc ht5
                · simp only [TocTree.R.ok.injEq] at htoc; subst htoc; exact ht5
              split at h
              · cases h
              · rename_i u' hu
                simp only [TreeResult.ok.injEq] at h
                obtain ⟨rfl, _⟩ := h
                exact unescapeTree_NI (keyQ_X x) _ _ hu ht6


end MdVerif.VocabX
