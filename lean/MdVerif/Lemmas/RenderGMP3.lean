/-
Helper lemmas for `Props/C16RenderG.lean`, part 30: footnotes with references in several paragraphs — `InlineX.runX`
on the document `div > p*, div.footnote`.

Core Lean only.
-/
import MdVerif.Lemmas.RenderGMP2

namespace MdVerif.RenderG
open Py Block BlockExt MdVerif.RenderX Inline InlineX

/-- the total length of the paragraph lines -/
def linesLen (ps : List FPara) : Nat := (ps.map (fun p => (fpLine p).length)).sum

theorem sizeList_append (a b : List Node) : Inline.sizeList (a ++ b) = Inline.sizeList a + Inline.sizeList b := by
  induction a with
  | nil => simp [Inline.sizeList]
  | cons c r ih => simp only [List.cons_append, Inline.sizeList, ih]; omega

theorem sizeList_pnodes (ps : List FPara) :
    Inline.sizeList (ps.map (fun p => mkText "p" (fpLine p))) = linesLen ps + ps.length := by
  induction ps with
  | nil => simp [Inline.sizeList, linesLen]
  | cons p r ih =>
    simp only [List.map_cons, Inline.sizeList, ih, linesLen, List.sum_cons, List.length_cons]
    simp [mkText, Node.el, Inline.size, Inline.sizeList]
    omega

theorem mem_linesLen (ps : List FPara) (p : FPara) (h : p ∈ ps) : (fpLine p).length ≤ linesLen ps := by
  induction ps with
  | nil => cases h
  | cons q r ih =>
    simp only [linesLen, List.map_cons, List.sum_cons]
    rcases List.mem_cons.1 h with rfl | h
    · omega
    · have := ih h
      simp only [linesLen] at this
      omega

theorem segs_le_linesLen (ps : List FPara) : (ps.map (fun p => p.2.length)).sum ≤ linesLen ps := by
  induction ps with
  | nil => simp [linesLen]
  | cons p r ih =>
    have h1 := length_refSegs p.2
    have h2 : (refSegs p.2).length ≤ (fpLine p).length := by simp [fpLine, fnPara]
    simp only [linesLen, List.map_cons, List.sum_cons] at ih ⊢
    omega

/-- the state before the first child is visited -/
def v0P : VisitX := { x := { st := { html := [] } } }

theorem procPs_length (keys : List Str) : ∀ (ps : List FPara) (fs : Footnotes.State), (procPs keys ps fs).1.length = ps.length := by
  intro ps
  induction ps with
  | nil => intro fs; rfl
  | cons p r ih => intro fs; simp [procPs, ih]

/-- the inline stage on the document with several paragraphs -/
theorem runX_fnP (ic : Inline.Cfg) (T : List PatK) (nlb : Bool) (hT : FnTab T nlb) (keys : List Str) (ps : List FPara)
    (defs : List (Str × Str))
    (hp : ∀ p ∈ ps, FParaOK p ∧ ∀ s ∈ p.2, keys.contains s.1 = true) (hd : DefsOK defs)
    (hkl : keys.length ≤ defs.length) :
    runX (fnXcG ic T keys) (rootOf (ps.map (fun p => mkText "p" (fpLine p)) ++ [fnDivG (lisFrom defs 1)])) [] =
      some (rootOf ((procPs keys ps Footnotes.State.empty).1 ++ [fnDivG (lisFrom defs 1)]),
        { st := { stash := (procPs keys ps Footnotes.State.empty).2.1, html := [] },
          fn := (procPs keys ps Footnotes.State.empty).2.2 }) := by
  have hlenT : 3 ≤ (fnXcG ic T keys).table.length := hT.len
  have hnlT : PatK.nl ∈ (fnXcG ic T keys).table → nlb = true := hT.nlmem
  have hdone := (vps_done keys ps v0P).1
  have hx := (vps_done keys ps v0P).2
  have hdl := vps_done_length keys ps v0P
  have hpl := vps_pushes_length keys ps v0P
  have e0 : v0P.done = [] ∧ v0P.pushes = [] ∧ v0P.x.st.stash = [] ∧ v0P.x.fn = Footnotes.State.empty ∧
      v0P.x.st.html = [] := ⟨rfl, rfl, rfl, rfl, rfl⟩
  rw [e0.1, e0.2.2.2.1] at hdone
  rw [e0.2.2.2.1, e0.2.2.1] at hx
  rw [e0.1] at hdl
  rw [e0.2.1] at hpl
  simp only [List.reverse_nil, List.nil_append, List.length_nil, Nat.zero_add] at hdone hx hdl hpl
  have hlenP := procPs_length keys ps Footnotes.State.empty
  -- sizes
  have hroot : Inline.size (rootOf (ps.map (fun p => mkText "p" (fpLine p)) ++ [fnDivG (lisFrom defs 1)])) =
      1 + (linesLen ps + ps.length + Inline.size (fnDivG (lisFrom defs 1))) := by
    simp only [rootOf, Node.el, Inline.size, Option.getD_none, List.length_nil, sizeList_append, sizeList_pnodes,
      Inline.sizeList]
    omega
  have hdivsz : defs.length + 1 ≤ Inline.size (fnDivG (lisFrom defs 1)) := by
    have := length_le_sizeLis defs 1
    simp [fnDivG, FootnotesTree.el, Inline.size, Inline.sizeList]; omega
  have hqD : quietNode nlb (fnDivG (lisFrom defs 1)) = true := by simp [quietNode, fnDivG, Node.truthy]
  have hB : ∀ p ∈ ps, FParaOK p ∧ (refSegs p.2).length + keys.length + 4 ≤ linesLen ps + keys.length + 4 := by
    intro p hpm
    refine ⟨(hp p hpm).1, ?_⟩
    have h1 := mem_linesLen ps p hpm
    have h2 : (refSegs p.2).length ≤ (fpLine p).length := by simp [fpLine, fnPara]
    omega
  have hsegs := segs_le_linesLen ps
  obtain ⟨g, hg⟩ : ∃ g, runFuel (rootOf (ps.map (fun p => mkText "p" (fpLine p)) ++ [fnDivG (lisFrom defs 1)])) =
      (g + 2) + ps.length := by
    refine ⟨runFuel (rootOf (ps.map (fun p => mkText "p" (fpLine p)) ++ [fnDivG (lisFrom defs 1)])) - (ps.length + 2), ?_⟩
    simp only [runFuel]; omega
  have hrun := runX_root (fnXcG ic T keys) nlb hnlT (by omega)
    (rootOf (ps.map (fun p => mkText "p" (fpLine p)) ++ [fnDivG (lisFrom defs 1)])) []
    { done := fnDivG (lisFrom defs 1) :: (vps keys ps v0P).done,
      posmap := (ps.length, ps.length) :: (vps keys ps v0P).posmap,
      pushes := [ps.length] :: (vps keys ps v0P).pushes,
      x := (vps keys ps v0P).x }
    (by
      rw [hg]
      have h1 := visitLoopX_ps ic T nlb hT keys ps v0P (g + 2) (withIdx [fnDivG (lisFrom defs 1)] ps.length) hp
      simp only [rootOf, Node.el, withIdx_append, List.length_map, Nat.zero_add]
      rw [show (0 : Nat) = v0P.done.length from rfl]
      change visitLoopX (fnXcG ic T keys) (g + 2 + ps.length) _ v0P = _
      rw [h1]
      simp only [withIdx, visitLoopX]
      rw [visitChildX_quiet (fnXcG ic T keys) nlb hnlT (by omega) (fnDivG (lisFrom defs 1)) _ hqD]
      simp [visitLoopX, fnDivG, hdl])
    (by
      intro q hq cur hcur
      simp only [List.mem_cons] at hq
      simp only [List.reverse_cons, hdone] at hcur
      rcases hq with rfl | hq
      · have : cur = fnDivG (lisFrom defs 1) := by
          have hlen := hlenP
          simp only [getAt, rootOf, Node.el] at hcur
          rw [List.getElem?_append_right (by omega), hlen] at hcur
          simpa using hcur.symm
        subst this
        refine ⟨quietKids_fnDivG nlb _ (quietKids_lis nlb defs 1 hd), ?_⟩
        simp only [runFuel]; omega
      · rcases vps_pushes keys (linesLen ps + keys.length + 4) ps v0P hB q hq with h | ⟨i, k, P, c, rfl, hP, hc, hgood⟩
        · cases h
        · rw [hdone] at hP
          have hi : i < (procPs keys ps Footnotes.State.empty).1.length := by
            rcases Nat.lt_or_ge i (procPs keys ps Footnotes.State.empty).1.length with hi | hn
            · exact hi
            · rw [List.getElem?_eq_none_iff.2 hn] at hP
              cases hP
          simp only [getAt, rootOf, Node.el] at hcur
          rw [List.getElem?_append_left hi, hP] at hcur
          simp only [hc, Option.some.injEq] at hcur
          subst hcur
          refine ⟨(goodSup_facts nlb hgood).1, ?_⟩
          have := hgood.2
          simp only [runFuel]; omega)
    (by
      simp only [List.reverse_cons, hdone]
      rw [CodeLaw.mStack_cons]
      have hw1 : CodeLaw.wPath ({ rootOf (ps.map (fun p => mkText "p" (fpLine p)) ++ [fnDivG (lisFrom defs 1)]) with
          children := (procPs keys ps Footnotes.State.empty).1 ++ [fnDivG (lisFrom defs 1)] } : Node) [ps.length] =
          1 + CodeLaw.below (fnDivG (lisFrom defs 1)) := by
        have hlen := hlenP
        simp only [CodeLaw.wPath, getAt]
        rw [List.getElem?_append_right (by omega), hlen]
        simp
      have hrest := mStack_const ({ rootOf (ps.map (fun p => mkText "p" (fpLine p)) ++ [fnDivG (lisFrom defs 1)]) with
          children := (procPs keys ps Footnotes.State.empty).1 ++ [fnDivG (lisFrom defs 1)] } : Node)
        (vps keys ps v0P).pushes (by
          intro q hq
          rcases vps_pushes keys (linesLen ps + keys.length + 4) ps v0P hB q hq with h | ⟨i, k, P, c, rfl, hP, hc, hgood⟩
          · cases h
          · rw [hdone] at hP
            have hi : i < (procPs keys ps Footnotes.State.empty).1.length := by
              rcases Nat.lt_or_ge i (procPs keys ps Footnotes.State.empty).1.length with hi | hn
              · exact hi
              · rw [List.getElem?_eq_none_iff.2 hn] at hP
                cases hP
            simp only [CodeLaw.wPath, getAt]
            rw [List.getElem?_append_left hi, hP]
            simp only [hc, (goodSup_facts nlb hgood).2])
      rw [hw1, hrest, hpl]
      have hb1 := CodeLaw.below_le_size (fnDivG (lisFrom defs 1))
      simp only [runFuel]; omega)
  rw [hrun]
  simp only [List.reverse_cons, hdone, hx]
  rfl

end MdVerif.RenderG
