/-
SECOND PORT, STRONGER TOKEN: this file is `Lemmas/C02FnStr.lean` in the namespace `MdVerif.TokH`, over the string invariant
of `Lemmas/C02FnHStr.lean`, in which a complete escape token `STX d₁…d_k ETX` must have a value below 0x110000 AND
DIFFERENT FROM 2 (`TokH.chrOk`), so that `UnescapeTreeprocessor.unescape` never writes an STX.  The one place where tokens
are created (the escape pattern, `findMatch_S` in `Lemmas/C02FnHPat.lean`) needs that STX is no escapable character:
`RefsS cfg` is the old statement together with `cfg.esc.contains Inline.STX = false`.  Header of the file copied:

PORT for `Props/C02Fn.lean` (footnotes): this file is `Lemmas/C02BigStr.lean` in the namespace `MdVerif.TokH`, over the
string invariant of `Lemmas/C02FnStr.lean`, in which an STX may be followed by `k`, `w`, **`q`, `z`** (`TokH.gl`: the two
tokens of the footnotes extension, `STX zz…qq ETX` and `STX qq…zz ETX`) or by a complete escape token.  The proofs are
those of the original up to the case splits on the letter.  Original header:

Lemmas for `Props/C02Big.lean` (the `err` answer is unreachable), part 1: strings.

`UnescapeTreeprocessor` raises only on `STX digits ETX` with a number of at least 0x110000.  The invariant that
excludes it — a strengthening of the one of `Lemmas/AmpFullStr.lean` (C05) — : **every STX is followed by `k`, by `w`,
or by a complete escape token: ASCII digits, then ETX, the number below 0x110000**.

* `SOk s`   — the invariant for texts, tails, the data of `handleInline`, stashed strings (closed under `++`, under
              suffixes, and under prefixes that end in front of a character which is no digit, `k`, `w` or ETX);
* `SOkA s`  — the same for attribute values, which `getLink` may cut anywhere (`data[start:-2]`): an STX may also be
              followed by digits up to the end of the string, or be the last character (closed under infixes).
The file mirrors `Lemmas/AmpFullStr.lean` lemma by lemma (same names, namespace `MdVerif.TokFull`), so that the proofs
about the patterns and the engine carry over.  Core Lean only.
-/
import MdVerif.Lemmas.PlaceholdersB
import MdVerif.Lemmas.Code
import MdVerif.Lemmas.StashEntities

namespace MdVerif.TokH
open Py

abbrev STX : Char := Inline.STX
abbrev ETX : Char := Inline.ETX

/-- the largest number `chr()` accepts, plus one -/
abbrev chrBound : Nat := 0x110000

/-- the value of a complete token: `chr()` accepts it, and it is not the code point of STX -/
def chrOk (v : Nat) : Bool := decide (v < chrBound) && v != 2

theorem chrOk_iff {v : Nat} : chrOk v = true ↔ v < chrBound ∧ v ≠ 2 := by
  simp [chrOk]

theorem chrOk_lt {v : Nat} (h : chrOk v = true) : v < chrBound := (chrOk_iff.1 h).1

theorem chrOk_ne {v : Nat} (h : chrOk v = true) : v ≠ 2 := (chrOk_iff.1 h).2

/-- after the first digits of a token with value `v` so far: more ASCII digits, then ETX, the number below `chrBound`
and different from 2 -/
def tokTail : Nat → Str → Bool
  | v, c :: r => if isAsciiDigit c then tokTail (v * 10 + decimalValue c) r else (c == ETX && chrOk v)
  | _, [] => false

/-- a complete escape token behind its STX: `d₁…d_k ETX`, `k ≥ 1`, the number below `chrBound` -/
def tok : Str → Bool
  | c :: r => isAsciiDigit c && tokTail (decimalValue c) r
  | [] => false

/-- a letter that may follow an STX: inline placeholder `k`, raw-HTML placeholder `w`, the two footnote tokens `q`, `z` -/
def gl (c : Char) : Bool := c == 'k' || c == 'w' || c == 'q' || c == 'z'

/-- what follows an STX in a text -/
def fol : Str → Bool
  | c :: r => gl c || tok (c :: r)
  | [] => false

/-- what follows an STX in an attribute value: the same, or a token cut short -/
def folA : Str → Bool
  | c :: r => gl c || tok (c :: r) || (c :: r).all isAsciiDigit
  | [] => true

/-- every STX is followed by `k`, `w`, or a complete token -/
def SOk : Str → Bool
  | [] => true
  | c :: r => (c != STX || fol r) && SOk r

/-- the same up to truncation -/
def SOkA : Str → Bool
  | [] => true
  | c :: r => (c != STX || folA r) && SOkA r

/-- a character in front of which a text may be cut: it continues no STX and ends no token -/
def cutOk (c : Char) : Bool := !gl c && !isAsciiDigit c && c != ETX

theorem gl_iff {c : Char} : gl c = true ↔ c = 'k' ∨ c = 'w' ∨ c = 'q' ∨ c = 'z' := by
  simp [gl, or_assoc]

theorem gl_not_digit {c : Char} (h : gl c = true) : isAsciiDigit c = false := by
  rcases gl_iff.1 h with rfl | rfl | rfl | rfl <;> decide

theorem gl_ne_stx {c : Char} (h : gl c = true) : c ≠ Inline.STX := by
  rcases gl_iff.1 h with rfl | rfl | rfl | rfl <;> decide

theorem gl_ne_etx {c : Char} (h : gl c = true) : c ≠ Inline.ETX := by
  rcases gl_iff.1 h with rfl | rfl | rfl | rfl <;> decide

theorem gl_not_space {c : Char} (h : gl c = true) : isSpace c = false := by
  rcases gl_iff.1 h with rfl | rfl | rfl | rfl <;> decide

theorem cutOk_false_of_gl {c : Char} (h : gl c = true) : cutOk c = false := by
  simp [cutOk, h]

/-- the token as a proposition -/
def Tok (r : Str) : Prop :=
  ∃ d rest, r = d ++ ETX :: rest ∧ d ≠ [] ∧ (∀ c ∈ d, isAsciiDigit c = true) ∧ chrOk (decToNat d) = true

theorem etx_not_digit : isAsciiDigit ETX = false := by decide

theorem tokTail_iff : ∀ (r : Str) (v : Nat), tokTail v r = true ↔
    ∃ d rest, r = d ++ ETX :: rest ∧ (∀ c ∈ d, isAsciiDigit c = true) ∧
      chrOk (d.foldl (fun acc c => acc * 10 + decimalValue c) v) = true := by
  intro r
  induction r with
  | nil =>
    intro v
    simp only [tokTail, Bool.false_eq_true, false_iff]
    rintro ⟨d, rest, e, _⟩
    cases d <;> cases e
  | cons c r ih =>
    intro v
    by_cases hc : isAsciiDigit c = true
    · simp only [tokTail, hc, if_true]
      rw [ih]
      constructor
      · rintro ⟨d, rest, rfl, h1, h2⟩
        refine ⟨c :: d, rest, rfl, ?_, by simpa using h2⟩
        intro x hx
        rcases List.mem_cons.1 hx with rfl | hx
        · exact hc
        · exact h1 x hx
      · rintro ⟨d, rest, e, h1, h2⟩
        cases d with
        | nil =>
          simp only [List.nil_append, List.cons.injEq] at e
          rw [e.1, etx_not_digit] at hc; cases hc
        | cons x d =>
          simp only [List.cons_append, List.cons.injEq] at e
          obtain ⟨rfl, rfl⟩ := e
          exact ⟨d, rest, rfl, fun y hy => h1 y (List.mem_cons_of_mem _ hy), by simpa using h2⟩
    · have hc' : isAsciiDigit c = false := by simpa using hc
      simp only [tokTail, hc', Bool.false_eq_true, if_false, Bool.and_eq_true, beq_iff_eq]
      constructor
      · rintro ⟨rfl, hv⟩
        exact ⟨[], r, rfl, by simp, by simpa using hv⟩
      · rintro ⟨d, rest, e, h1, h2⟩
        cases d with
        | nil =>
          simp only [List.nil_append, List.cons.injEq] at e
          exact ⟨e.1, by simpa using h2⟩
        | cons x d =>
          simp only [List.cons_append, List.cons.injEq] at e
          obtain ⟨rfl, _⟩ := e
          rw [h1 c List.mem_cons_self] at hc'; cases hc'

theorem tok_iff (r : Str) : tok r = true ↔ Tok r := by
  cases r with
  | nil =>
    simp only [tok, Bool.false_eq_true, false_iff]
    rintro ⟨d, rest, e, _⟩
    cases d <;> cases e
  | cons c r =>
    simp only [tok, Bool.and_eq_true, tokTail_iff]
    constructor
    · rintro ⟨hc, d, rest, rfl, h1, h2⟩
      refine ⟨c :: d, rest, rfl, by simp, ?_, ?_⟩
      · intro x hx
        rcases List.mem_cons.1 hx with rfl | hx
        · exact hc
        · exact h1 x hx
      · simpa [decToNat] using h2
    · rintro ⟨d, rest, e, hne, h1, h2⟩
      cases d with
      | nil => exact absurd rfl hne
      | cons x d =>
        simp only [List.cons_append, List.cons.injEq] at e
        obtain ⟨rfl, rfl⟩ := e
        exact ⟨h1 c List.mem_cons_self, d, rest, rfl, fun y hy => h1 y (List.mem_cons_of_mem _ hy),
          by simpa [decToNat] using h2⟩

theorem Tok.append {r : Str} (h : Tok r) (b : Str) : Tok (r ++ b) := by
  obtain ⟨d, rest, rfl, h1, h2, h3⟩ := h
  exact ⟨d, rest ++ b, by simp, h1, h2, h3⟩

theorem tok_append {r : Str} (h : tok r = true) (b : Str) : tok (r ++ b) = true :=
  (tok_iff _).2 (((tok_iff _).1 h).append b)

theorem all_digit_take {r : Str} (h : r.all isAsciiDigit = true) (n : Nat) : (r.take n).all isAsciiDigit = true := by
  rw [List.all_eq_true] at h ⊢
  exact fun x hx => h x (List.mem_of_mem_take hx)

/-- a prefix of a token is a token or a run of digits -/
theorem tok_take {r : Str} (h : tok r = true) (n : Nat) :
    tok (r.take n) = true ∨ (r.take n).all isAsciiDigit = true := by
  obtain ⟨d, rest, rfl, h1, h2, h3⟩ := (tok_iff _).1 h
  by_cases hn : n ≤ d.length
  · right
    rw [List.take_append_of_le_length hn, List.all_eq_true]
    exact fun x hx => h2 x (List.mem_of_mem_take hx)
  · left
    rw [tok_iff]
    have hn' : d.length < n := by omega
    refine ⟨d, rest.take (n - d.length - 1), ?_, h1, h2, h3⟩
    rw [List.take_append]
    have e1 : d.take n = d := List.take_of_length_le (by omega)
    obtain ⟨m, hm⟩ : ∃ m, n - d.length = m + 1 := ⟨n - d.length - 1, by omega⟩
    rw [e1, hm, List.take_succ_cons]
    simp

/-- cutting in front of a character that ends no token keeps a token on the left complete -/
theorem tok_left {a b : Str} (h : tok (a ++ b) = true) (hb : ∀ c, b.head? = some c → cutOk c = true) :
    tok a = true := by
  obtain ⟨d, rest, e, h1, h2, h3⟩ := (tok_iff _).1 h
  rw [tok_iff]
  rcases List.append_eq_append_iff.1 e with ⟨a', e1, e2⟩ | ⟨c', e1, e2⟩
  · -- d = a ++ a', b = a' ++ ETX :: rest
    exfalso
    cases a' with
    | nil =>
      have := hb ETX (by rw [e2]; rfl)
      revert this; decide
    | cons x a' =>
      have hx := hb x (by rw [e2]; rfl)
      have hd := h2 x (by rw [e1]; simp)
      simp [cutOk, hd] at hx
  · -- a = d ++ c', ETX :: rest = c' ++ b
    cases c' with
    | nil =>
      exfalso
      simp only [List.nil_append] at e2
      have := hb ETX (by rw [← e2]; rfl)
      revert this; decide
    | cons x c' =>
      simp only [List.cons_append, List.cons.injEq] at e2
      obtain ⟨rfl, _⟩ := e2
      exact ⟨d, c', e1, h1, h2, h3⟩

theorem isSpace_etx : isSpace ETX = false := by decide

theorem cutOk_space {c : Char} (h : isSpace c = true) : cutOk c = true := by
  have h1 := NoCtl.space_not_inner h
  have hg : gl c = false := by
    cases hg : gl c with
    | false => rfl
    | true => rw [gl_not_space hg] at h; cases h
  have he : c ≠ ETX := by rintro rfl; rw [isSpace_etx] at h; cases h
  have hd : isAsciiDigit c = false := by
    have := h1.1
    simp only [NoCtl.inner, Bool.or_eq_false_iff] at this
    exact this.1
  simp [cutOk, hg, he, hd]

theorem cutOk_stx : cutOk STX = true := by decide

/-! ### `fol`, `folA` -/

theorem fol_cons (c : Char) (r : Str) : fol (c :: r) = (gl c || tok (c :: r)) := rfl

theorem folA_cons (c : Char) (r : Str) :
    folA (c :: r) = (gl c || tok (c :: r) || (c :: r).all isAsciiDigit) := rfl

theorem fol_append {r : Str} (h : fol r = true) (b : Str) : fol (r ++ b) = true := by
  cases r with
  | nil => cases h
  | cons c r =>
    rw [List.cons_append, fol_cons]
    rw [fol_cons] at h
    simp only [Bool.or_eq_true] at h ⊢
    rcases h with h | h
    · exact Or.inl h
    · exact Or.inr (by simpa using tok_append h b)

theorem fol_folA {r : Str} (h : fol r = true) : folA r = true := by
  cases r with
  | nil => rfl
  | cons c r =>
    rw [fol_cons] at h
    rw [folA_cons]
    simp only [Bool.or_eq_true] at h ⊢
    exact Or.inl h

theorem folA_take {r : Str} (h : folA r = true) (n : Nat) : folA (r.take n) = true := by
  cases n with
  | zero => rfl
  | succ n =>
    cases r with
    | nil => rfl
    | cons c r =>
      rw [folA_cons] at h
      rw [List.take_succ_cons, folA_cons]
      simp only [Bool.or_eq_true] at h ⊢
      rcases h with (h | h) | h
      · exact Or.inl (Or.inl h)
      · rcases tok_take h (n + 1) with h' | h'
        · exact Or.inl (Or.inr (by simpa using h'))
        · exact Or.inr (by simpa using h')
      · exact Or.inr (by simpa using all_digit_take h (n + 1))

theorem folA_append_left {a : Str} (h : fol a = true) (b : Str) : folA (a ++ b) = true :=
  fol_folA (fol_append h b)

/-- cutting in front of a character that continues no STX keeps the left part complete -/
theorem fol_left {a b : Str} (h : fol (a ++ b) = true) (hb : ∀ c, b.head? = some c → cutOk c = true) :
    fol a = true := by
  cases a with
  | nil =>
    cases b with
    | nil => cases h
    | cons c r =>
      exfalso
      have hc := hb c rfl
      simp only [cutOk, Bool.and_eq_true, bne_iff_ne, ne_eq, Bool.not_eq_true'] at hc
      rw [List.nil_append, fol_cons] at h
      simp only [Bool.or_eq_true] at h
      rcases h with h | h
      · rw [h] at hc; cases hc.1.1
      · simp only [tok, Bool.and_eq_true] at h
        rw [h.1] at hc; cases hc.1.2
  | cons c a =>
    rw [List.cons_append, fol_cons] at h
    rw [fol_cons]
    simp only [Bool.or_eq_true] at h ⊢
    rcases h with h | h
    · exact Or.inl h
    · exact Or.inr (tok_left (a := c :: a) (by simpa using h) hb)

/-! ### `SOk` -/

theorem SOk_nil : SOk [] = true := rfl

theorem SOk_cons (c : Char) (r : Str) : SOk (c :: r) = ((c != STX || fol r) && SOk r) := rfl

theorem SOk_cons_ne {c : Char} (hc : c ≠ STX) (r : Str) : SOk (c :: r) = SOk r := by
  simp [SOk, hc]

theorem SOk_append {a b : Str} (ha : SOk a = true) (hb : SOk b = true) : SOk (a ++ b) = true := by
  induction a with
  | nil => exact hb
  | cons c r ih =>
    simp only [SOk, Bool.and_eq_true, Bool.or_eq_true] at ha
    simp only [List.cons_append, SOk, Bool.and_eq_true, Bool.or_eq_true]
    refine ⟨?_, ih ha.2⟩
    rcases ha.1 with h | h
    · exact Or.inl h
    · exact Or.inr (fol_append h b)

theorem SOk_right {a b : Str} (h : SOk (a ++ b) = true) : SOk b = true := by
  induction a with
  | nil => exact h
  | cons c r ih =>
    simp only [List.cons_append, SOk, Bool.and_eq_true] at h
    exact ih h.2

theorem SOk_left {a b : Str} (h : SOk (a ++ b) = true) (hb : ∀ c, b.head? = some c → cutOk c = true) :
    SOk a = true := by
  induction a with
  | nil => rfl
  | cons c r ih =>
    simp only [List.cons_append, SOk, Bool.and_eq_true, Bool.or_eq_true] at h
    simp only [SOk, Bool.and_eq_true, Bool.or_eq_true]
    refine ⟨?_, ih h.2⟩
    rcases h.1 with h1 | h1
    · exact Or.inl h1
    · exact Or.inr (fol_left h1 hb)

theorem SOk_left_nil {a : Str} (h : SOk a = true) : SOk a = true := h

theorem SOk_drop {s : Str} (h : SOk s = true) (n : Nat) : SOk (s.drop n) = true := by
  have := List.take_append_drop n s
  rw [← this] at h
  exact SOk_right h

theorem SOk_suffix {a s : Str} (h : SOk s = true) (hs : a <:+ s) : SOk a = true := by
  obtain ⟨p, rfl⟩ := hs
  exact SOk_right h

/-- a prefix that ends in front of a character which continues no STX (or at the end) -/
theorem SOk_take {s : Str} (h : SOk s = true) (n : Nat) (hn : ∀ c, s[n]? = some c → cutOk c = true) :
    SOk (s.take n) = true := by
  have e := List.take_append_drop n s
  rw [← e] at h
  refine SOk_left h ?_
  intro c hc
  apply hn c
  rw [List.head?_drop] at hc
  exact hc

theorem SOk_slice {s : Str} (h : SOk s = true) (a b : Nat) (hb : ∀ c, s[b]? = some c → cutOk c = true) :
    SOk (Inline.slice s a b) = true := by
  unfold Inline.slice
  exact SOk_drop (SOk_take h b hb) a

theorem SOk_of_noSTX {s : Str} (h : STX ∉ s) : SOk s = true := by
  induction s with
  | nil => rfl
  | cons c r ih =>
    have hc : c ≠ STX := fun e => h (by rw [e]; exact List.mem_cons_self)
    rw [SOk_cons_ne hc]
    exact ih (fun hm => h (List.mem_cons_of_mem _ hm))

theorem SOk_of_noCtl {s : Str} (h : NoCtl.NoCtl s) : SOk s = true := SOk_of_noSTX h.1

/-- `STX k…` / `STX w…` -/
theorem SOk_stx_letter {c : Char} (hc : c = 'k' ∨ c = 'w') {r : Str} (hr : STX ∉ r) :
    SOk (STX :: c :: r) = true := by
  have hc' : c ≠ STX := by rcases hc with rfl | rfl <;> decide
  rw [SOk_cons, SOk_cons_ne hc', SOk_of_noSTX hr]
  rcases hc with rfl | rfl <;> simp [fol, gl]

/-- `STX q…` / `STX z…` as well -/
theorem SOk_stx_gl {c : Char} (hc : gl c = true) {r : Str} (hr : STX ∉ r) :
    SOk (STX :: c :: r) = true := by
  rw [SOk_cons, SOk_cons_ne (gl_ne_stx hc), SOk_of_noSTX hr]
  simp [fol, hc]

theorem SOk_lstrip {s : Str} (h : SOk s = true) : SOk (lstripP isSpace s) = true :=
  SOk_suffix h (lstripP_suffix _ _)

theorem SOk_rstrip {s : Str} (h : SOk s = true) : SOk (rstripP isSpace s) = true := by
  obtain ⟨w, hw, hall⟩ := rstripP_decomp isSpace s
  rw [hw] at h
  refine SOk_left h ?_
  intro c hc
  cases w with
  | nil => cases hc
  | cons d w =>
    simp only [List.head?_cons, Option.some.injEq] at hc; subst hc
    simp only [List.all_cons, Bool.and_eq_true] at hall
    exact cutOk_space hall.1

theorem SOk_strip {s : Str} (h : SOk s = true) : SOk (strip s) = true := SOk_rstrip (SOk_lstrip h)

/-! ### character-wise substitutions (`code_escape`) -/

/-- `f` leaves STX and the characters that may follow it alone and writes no STX -/
structure CharSub (f : Char → Str) : Prop where
  stx : f STX = [STX]
  fix : ∀ c, cutOk c = false → f c = [c]
  clean : ∀ c, c ≠ STX → STX ∉ f c

theorem cutOk_false_of_letter {c : Char} (h : c = 'k' ∨ c = 'w') : cutOk c = false := by
  rcases h with rfl | rfl <;> decide

theorem cutOk_false_of_digit {c : Char} (h : isAsciiDigit c = true) : cutOk c = false := by
  simp [cutOk, h]

theorem SOk_noSTX_append {a : Str} (ha : STX ∉ a) (b : Str) : SOk (a ++ b) = SOk b := by
  induction a with
  | nil => rfl
  | cons c r ih =>
    have hc : c ≠ STX := fun e => ha (by rw [e]; exact List.mem_cons_self)
    rw [List.cons_append, SOk_cons_ne hc]
    exact ih (fun hm => ha (List.mem_cons_of_mem _ hm))

theorem cutOk_false_of_etx : cutOk ETX = false := by decide

theorem flatMap_fix {f : Char → Str} (hf : CharSub f) : ∀ {d : Str}, (∀ c ∈ d, cutOk c = false) → d.flatMap f = d := by
  intro d
  induction d with
  | nil => intro _; rfl
  | cons c d ih =>
    intro h
    rw [List.flatMap_cons, hf.fix c (h c List.mem_cons_self), ih (fun x hx => h x (List.mem_cons_of_mem _ hx))]
    rfl

theorem tok_flatMap {f : Char → Str} (hf : CharSub f) {r : Str} (h : tok r = true) : tok (r.flatMap f) = true := by
  obtain ⟨d, rest, rfl, h1, h2, h3⟩ := (tok_iff _).1 h
  rw [tok_iff]
  refine ⟨d, rest.flatMap f, ?_, h1, h2, h3⟩
  rw [List.flatMap_append, List.flatMap_cons, hf.fix ETX cutOk_false_of_etx,
    flatMap_fix hf (fun c hc => cutOk_false_of_digit (h2 c hc))]
  rfl

theorem fol_flatMap {f : Char → Str} (hf : CharSub f) {r : Str} (h : fol r = true) : fol (r.flatMap f) = true := by
  cases r with
  | nil => cases h
  | cons c r =>
    rw [fol_cons] at h
    simp only [Bool.or_eq_true] at h
    rcases h with h | h
    · rw [List.flatMap_cons, hf.fix c (cutOk_false_of_gl h)]; simp [fol, h]
    · have := tok_flatMap hf h
      cases hx : (c :: r).flatMap f with
      | nil => rw [hx] at this; cases this
      | cons x y => rw [hx] at this; rw [fol_cons, this]; simp

theorem SOk_flatMap {f : Char → Str} (hf : CharSub f) {s : Str} (h : SOk s = true) : SOk (s.flatMap f) = true := by
  induction s with
  | nil => rfl
  | cons c r ih =>
    simp only [SOk, Bool.and_eq_true, Bool.or_eq_true, bne_iff_ne, ne_eq] at h
    rw [List.flatMap_cons]
    by_cases hc : c = STX
    · subst hc
      rw [hf.stx]
      simp only [List.cons_append, List.nil_append, SOk, Bool.and_eq_true, Bool.or_eq_true]
      rcases h.1 with h1 | h1
      · exact absurd rfl h1
      · exact ⟨Or.inr (fol_flatMap hf h1), ih h.2⟩
    · rw [SOk_noSTX_append (hf.clean c hc)]
      exact ih h.2

theorem charSub_sub1 {a : Char} {b : Str} (ha : cutOk a = true) (ha' : a ≠ STX) (hb : STX ∉ b) :
    CharSub (Code.sub1 a b) where
  stx := by simp [Code.sub1, Ne.symm ha']
  fix := by
    intro c hc
    have : c ≠ a := by rintro rfl; rw [ha] at hc; cases hc
    simp [Code.sub1, this]
  clean := by
    intro c hc
    unfold Code.sub1
    split
    · exact hb
    · simpa using Ne.symm hc

theorem SOk_codeEscape {s : Str} (h : SOk s = true) : SOk (Inline.codeEscape s) = true := by
  unfold Inline.codeEscape
  rw [Code.replace_single, Code.replace_single, Code.replace_single]
  exact SOk_flatMap (charSub_sub1 (by decide) (by decide) (by decide))
    (SOk_flatMap (charSub_sub1 (by decide) (by decide) (by decide))
      (SOk_flatMap (charSub_sub1 (by decide) (by decide) (by decide)) h))

/-- `str.replace` in a text without STX, by a complete replacement -/
theorem SOk_replaceAux {pat b : Str} (hb : SOk b = true) : ∀ (s : Str) (k : Nat), STX ∉ s →
    SOk (replaceAux pat b k s) = true := by
  intro s
  induction s with
  | nil => intro k _; rw [replaceAux_nil]; rfl
  | cons c r ih =>
    intro k hs
    have hr : STX ∉ r := fun hm => hs (List.mem_cons_of_mem _ hm)
    have hc : c ≠ STX := fun e => hs (by rw [e]; exact List.mem_cons_self)
    cases k with
    | succ k => rw [replaceAux_succ_cons]; exact ih k hr
    | zero =>
      rw [replaceAux_zero_cons]
      split
      · exact SOk_append hb (ih _ hr)
      · rw [SOk_cons_ne hc]; exact ih _ hr

theorem SOk_replace {s pat b : Str} (hs : STX ∉ s) (hb : SOk b = true) : SOk (replace s pat b) = true := by
  unfold replace
  split
  · exact SOk_of_noSTX hs
  · exact SOk_replaceAux hb s 0 hs

/-! ### `SOkA` -/

theorem SOkA_cons (c : Char) (r : Str) : SOkA (c :: r) = ((c != STX || folA r) && SOkA r) := rfl

theorem SOkA_cons_ne {c : Char} (hc : c ≠ STX) (r : Str) : SOkA (c :: r) = SOkA r := by
  simp [SOkA, hc]

theorem SOkA_of_SOk {s : Str} (h : SOk s = true) : SOkA s = true := by
  induction s with
  | nil => rfl
  | cons c r ih =>
    simp only [SOk, Bool.and_eq_true, Bool.or_eq_true] at h
    simp only [SOkA, Bool.and_eq_true, Bool.or_eq_true]
    refine ⟨?_, ih h.2⟩
    rcases h.1 with h1 | h1
    · exact Or.inl h1
    · exact Or.inr (fol_folA h1)

theorem SOkA_take {s : Str} (h : SOkA s = true) (n : Nat) : SOkA (s.take n) = true := by
  induction s generalizing n with
  | nil => simp [SOkA]
  | cons c r ih =>
    cases n with
    | zero => rfl
    | succ n =>
      simp only [SOkA, Bool.and_eq_true, Bool.or_eq_true] at h
      simp only [List.take_succ_cons, SOkA, Bool.and_eq_true, Bool.or_eq_true]
      refine ⟨?_, ih h.2 n⟩
      rcases h.1 with h1 | h1
      · exact Or.inl h1
      · exact Or.inr (folA_take h1 n)

theorem SOkA_right {a b : Str} (h : SOkA (a ++ b) = true) : SOkA b = true := by
  induction a with
  | nil => exact h
  | cons c r ih =>
    simp only [List.cons_append, SOkA, Bool.and_eq_true] at h
    exact ih h.2

theorem SOkA_drop {s : Str} (h : SOkA s = true) (n : Nat) : SOkA (s.drop n) = true := by
  have := List.take_append_drop n s
  rw [← this] at h
  exact SOkA_right h

theorem SOkA_infix {a s : Str} (h : SOkA s = true) (hi : a <:+: s) : SOkA a = true := by
  obtain ⟨p, q, rfl⟩ := hi
  have h1 : SOkA (a ++ q) = true := by rw [List.append_assoc] at h; exact SOkA_right h
  have := SOkA_take h1 a.length
  simpa using this

theorem SOkA_strip {s : Str} (h : SOkA s = true) : SOkA (strip s) = true := SOkA_infix h (strip_infix s)

theorem SOkA_dropLast {s : Str} (h : SOkA s = true) : SOkA s.dropLast = true := by
  rw [List.dropLast_eq_take]; exact SOkA_take h _

/-- a complete text followed by a possibly truncated one -/
theorem SOkA_append {a b : Str} (ha : SOk a = true) (hb : SOkA b = true) : SOkA (a ++ b) = true := by
  induction a with
  | nil => exact hb
  | cons c r ih =>
    simp only [SOk, Bool.and_eq_true, Bool.or_eq_true] at ha
    simp only [List.cons_append, SOkA, Bool.and_eq_true, Bool.or_eq_true]
    refine ⟨?_, ih ha.2⟩
    rcases ha.1 with h | h
    · exact Or.inl h
    · exact Or.inr (folA_append_left h b)

theorem SOkA_of_noSTX {s : Str} (h : STX ∉ s) : SOkA s = true := SOkA_of_SOk (SOk_of_noSTX h)

theorem map_fix {g : Char → Char} (h2 : ∀ c, cutOk c = false → g c = c) :
    ∀ {d : Str}, (∀ c ∈ d, cutOk c = false) → d.map g = d := by
  intro d
  induction d with
  | nil => intro _; rfl
  | cons c d ih =>
    intro h
    rw [List.map_cons, h2 c (h c List.mem_cons_self), ih (fun x hx => h x (List.mem_cons_of_mem _ hx))]

theorem tok_map {g : Char → Char} (h2 : ∀ c, cutOk c = false → g c = c) {r : Str} (h : tok r = true) :
    tok (r.map g) = true := by
  obtain ⟨d, rest, rfl, h1, h3, h4⟩ := (tok_iff _).1 h
  rw [tok_iff]
  refine ⟨d, rest.map g, ?_, h1, h3, h4⟩
  rw [List.map_append, List.map_cons, h2 ETX cutOk_false_of_etx,
    map_fix h2 (fun c hc => cutOk_false_of_digit (h3 c hc))]

/-- a character map that fixes STX and what may follow it (`\s` ↦ blank in a title) -/
theorem SOkA_map {g : Char → Char} (_h1 : g STX = STX) (h2 : ∀ c, cutOk c = false → g c = c)
    (h3 : ∀ c, c ≠ STX → g c ≠ STX) {s : Str} (h : SOkA s = true) : SOkA (s.map g) = true := by
  induction s with
  | nil => rfl
  | cons c r ih =>
    simp only [SOkA, Bool.and_eq_true, Bool.or_eq_true, bne_iff_ne, ne_eq] at h
    simp only [List.map_cons, SOkA, Bool.and_eq_true, Bool.or_eq_true, bne_iff_ne, ne_eq]
    refine ⟨?_, ih h.2⟩
    by_cases hc : c = STX
    · right
      rcases h.1 with h' | h'
      · exact absurd hc h'
      · cases r with
        | nil => rfl
        | cons d r =>
          rw [folA_cons] at h'
          simp only [Bool.or_eq_true] at h'
          rw [List.map_cons, folA_cons]
          simp only [Bool.or_eq_true]
          rcases h' with (h' | h') | h'
          · rw [h2 d (cutOk_false_of_gl h')]; exact Or.inl (Or.inl h')
          · exact Or.inl (Or.inr (by simpa using tok_map h2 h'))
          · right
            have hall : ∀ x ∈ d :: r, cutOk x = false := by
              rw [List.all_eq_true] at h'
              exact fun x hx => cutOk_false_of_digit (h' x hx)
            have := map_fix h2 hall
            rw [List.map_cons] at this
            rw [this]; exact h'
    · exact Or.inl (h3 c hc)

end MdVerif.TokH
