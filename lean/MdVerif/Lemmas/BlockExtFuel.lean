/-
Helper lemmas for C02 (extended block parser): the fuel `fuelForX text.length` always suffices for
`parseDocumentXT`.  Part 1: the string facts (what the recognisers of `Model/BlockExt.lean` consume, what `detab`
returns).  Core Lean only.

The measure is the one of `Lemmas/BlockFuel.lean`: `mu blocks = Σ (len b + 1)`.
-/
import MdVerif.Model.BlockExtT
import MdVerif.Lemmas.BlockFuel
import MdVerif.Lemmas.PyBasic

namespace MdVerif.BlockExt.Fuel
open Py Block

/-! ### `detab` -/

theorem length_spaces (n : Nat) : (spaces n).length = n := by simp [spaces]

theorem mu_detabLines (n : Nat) (ls : List Str) : mu (detabLines n ls).1 + mu (detabLines n ls).2 ≤ mu ls := by
  induction ls with
  | nil => simp [detabLines]
  | cons l t ih =>
    simp only [detabLines]
    split
    · simp; omega
    · split
      · simp; omega
      · simp

theorem mu_detabLines_strict (n : Nat) (l : Str) (t : List Str) (h : startsWith l (spaces n) = true) :
    mu (detabLines n (l :: t)).1 + mu (detabLines n (l :: t)).2 + n ≤ mu (l :: t) ∧ (detabLines n (l :: t)).1 ≠ [] := by
  have h1 := mu_detabLines n t
  have h2 := startsWith_length_le h
  rw [length_spaces] at h2
  simp only [detabLines, h, if_true]
  constructor
  · simp; omega
  · simp

/-- lengths of the two joined halves, from the measures of the halves -/
theorem join_pair_length (a b : List Str) (k N : Nat) (h : mu a + mu b + k ≤ N + 1) (hne : a ≠ [] ∨ b ≠ []) :
    (joinLines a).length + (joinLines b).length + k ≤ N := by
  cases a with
  | nil =>
    cases b with
    | nil => simp at hne
    | cons y b => have := length_joinLines_cons y b; simp [joinLines, join] at *; omega
  | cons x a =>
    have h1 := length_joinLines_cons x a
    cases b with
    | nil => simp [joinLines, join] at *; omega
    | cons y b => have := length_joinLines_cons y b; simp at *; omega

/-- `detab` never makes text: the two parts together are no longer than the text -/
theorem detab_length (n : Nat) (s : Str) : (detab n s).1.length + (detab n s).2.length ≤ s.length := by
  have h := mu_detabLines n (lines s)
  rw [mu_lines] at h
  simp only [detab]
  generalize detabLines n (lines s) = p at h
  obtain ⟨a, b⟩ := p
  by_cases hne : a ≠ [] ∨ b ≠ []
  · exact join_pair_length a b 0 s.length (by simpa using h) hne
  · simp only [not_or, Decidable.not_not] at hne
    obtain ⟨rfl, rfl⟩ := hne
    simp [joinLines, join]

/-- … and shorter by the indent when the text starts with it -/
theorem detab_length_strict (n : Nat) (s : Str) (hs : startsWith s (spaces n) = true) :
    (detab n s).1.length + (detab n s).2.length + n ≤ s.length := by
  obtain ⟨t, ht⟩ := splitC_head s
  have h1 : startsWith (s.takeWhile notNl) (spaces n) = true :=
    startsWith_firstLine _ (by intro c hc; simp [spaces] at hc; rw [hc.2]; decide) s hs
  obtain ⟨h, hne⟩ := mu_detabLines_strict n _ t h1
  rw [← ht, mu_lines] at h
  simp only [detab]
  rw [← ht] at hne
  generalize detabLines n (lines s) = p at h hne
  obtain ⟨a, b⟩ := p
  exact join_pair_length a b n s.length h (Or.inl hne)

/-! ### `nlSearch`, `lineSearch` -/

theorem nlSearchAux_some {α : Type} (f : Str → Option α) : ∀ (s : Str) (i : Nat) {st o : Nat} {a : α},
    nlSearchAux f i s = some (st, o, a) →
      ∃ j, st = i + j ∧ o = 1 ∧ j + 1 ≤ s.length ∧ f (s.drop (j + 1)) = some a := by
  intro s
  induction s with
  | nil => intro i st o a h; simp [nlSearchAux] at h
  | cons c r ih =>
    intro i st o a h
    simp only [nlSearchAux] at h
    split at h
    · split at h
      · rename_i a' ha
        simp only [Option.some.injEq, Prod.mk.injEq] at h
        obtain ⟨rfl, rfl, rfl⟩ := h
        exact ⟨0, rfl, rfl, by simp, by simpa using ha⟩
      · obtain ⟨j, h1, h2, h3, h4⟩ := ih _ h
        exact ⟨j + 1, by omega, h2, by simp; omega, by simpa using h4⟩
    · obtain ⟨j, h1, h2, h3, h4⟩ := ih _ h
      exact ⟨j + 1, by omega, h2, by simp; omega, by simpa using h4⟩

/-- where `nlSearch` finds its match: `f` accepts `s[st+o:]`, and `st + o ≤ len s` -/
theorem nlSearch_some {α : Type} (f : Str → Option α) {s : Str} {st o : Nat} {a : α}
    (h : nlSearch f s = some (st, o, a)) : st + o ≤ s.length ∧ f (s.drop (st + o)) = some a := by
  simp only [nlSearch] at h
  split at h
  · rename_i a' ha
    simp only [Option.some.injEq, Prod.mk.injEq] at h
    obtain ⟨rfl, rfl, rfl⟩ := h
    exact ⟨by simp, by simpa using ha⟩
  · obtain ⟨j, h1, h2, h3, h4⟩ := nlSearchAux_some f s 0 h
    subst h2
    have : st = j := by omega
    subst this
    exact ⟨h3, h4⟩

theorem lineSearchAux_some {α : Type} (f : Str → Option α) : ∀ (s : Str) (atStart : Bool) (i : Nat) {st : Nat} {a : α},
    lineSearchAux f atStart i s = some (st, a) →
      ∃ j, st = i + j ∧ j ≤ s.length ∧ f (s.drop j) = some a := by
  intro s
  induction s with
  | nil =>
    intro atStart i st a h
    simp only [lineSearchAux] at h
    split at h
    · cases hf : f [] with
      | none => simp [hf] at h
      | some a' =>
        simp only [hf, Option.map_some, Option.some.injEq, Prod.mk.injEq] at h
        obtain ⟨rfl, rfl⟩ := h
        exact ⟨0, rfl, by simp, by simpa using hf⟩
    · cases h
  | cons c r ih =>
    intro atStart i st a h
    simp only [lineSearchAux] at h
    split at h
    · rename_i a' ha
      simp only [Option.some.injEq, Prod.mk.injEq] at h
      obtain ⟨rfl, rfl⟩ := h
      split at ha
      · exact ⟨0, rfl, by simp, by simpa using ha⟩
      · cases ha
    · obtain ⟨j, h1, h2, h3⟩ := ih _ _ h
      exact ⟨j + 1, by omega, by simp; omega, by simpa using h3⟩

/-- where `lineSearch` finds its match: `f` accepts `s[st:]`, `st ≤ len s` -/
theorem lineSearch_some {α : Type} (f : Str → Option α) {s : Str} {st : Nat} {a : α}
    (h : lineSearch f s = some (st, a)) : st ≤ s.length ∧ f (s.drop st) = some a := by
  obtain ⟨j, h1, h2, h3⟩ := lineSearchAux_some f s true 0 h
  have : st = j := by omega
  subst this
  exact ⟨h2, h3⟩

end MdVerif.BlockExt.Fuel
